// h_parse drives auparse: ParseLogLine / Parse on rendered and damaged headers
// (C04), Data()/Tags()/ToMapStr() on records written the way the kernel writes
// them (C12) and on spliced / random text for every record type (C05).
// It judges nothing: cases are printed as Coq terms for Check/ChkParse.v.
package main

import (
	"encoding/binary"
	"encoding/hex"
	"flag"
	"fmt"
	"os"
	"reflect"
	"sort"
	"strings"
	"time"

	"verifharness/sx"

	"github.com/elastic/go-libaudit/v2/auparse"
)

func cs(s string) string { return sx.Hx([]byte(s)) }

func optStr(ok bool, s string) string {
	if !ok {
		return "None"
	}
	return "(Some " + cs(s) + ")"
}

func msgCoq(m *auparse.AuditMessage, err error) string {
	if err != nil || m == nil {
		return "None"
	}
	ms := m.ToMapStr()
	get := func(k string) string {
		if v, ok := ms[k].(string); ok {
			return v
		}
		return "\x00missing"
	}
	// what Data() reports, and every string-valued entry of ToMapStr() (tags is the only other kind)
	data, derr := m.Data()
	dataCoq, errCoq := "None", "None"
	if derr == nil {
		dataCoq = "(Some " + pairsCoq(data) + ")"
	} else {
		errCoq = "(Some " + cs(derr.Error()) + ")"
	}
	strs := map[string]string{}
	for k, v := range ms {
		if sv, ok := v.(string); ok {
			strs[k] = sv
		}
	}
	return fmt.Sprintf("(Some (MkObs %d (%d) %d %d %s %s %s %s %s %s %s %s))", uint16(m.RecordType), m.Timestamp.Unix(), m.Timestamp.Nanosecond(), m.Sequence,
		cs(m.RawData), cs(get("record_type")), cs(get("@timestamp")), cs(get("sequence")), cs(get("raw_msg")), dataCoq, errCoq, pairsCoq(strs))
}

func pairsCoq(m map[string]string) string {
	keys := make([]string, 0, len(m))
	for k := range m {
		keys = append(keys, k)
	}
	sort.Strings(keys)
	parts := make([]string, len(keys))
	for j, k := range keys {
		parts[j] = fmt.Sprintf("(%s, %s)", cs(k), cs(m[k]))
	}
	return "[" + strings.Join(parts, "; ") + "]"
}

var hostileBodies = []string{"", " ", "a=b", "msg=audit(1.2:3): x=y", "): :(.", "record_type=X @timestamp=Y sequence=9 raw_msg=Z", "error=E tags=T record_type=\"a b\" uid=0", "arch=zz syscall=1 error=mine", "msg='op=x res=success'",
	"a=\"b c\" d='e f'", " x=1 ", "type=FOO msg=audit(5.006:7):", "\t\ttabs=1", "k=(null) j=? i=?,"}

func modeHeader(seed uint64, n int, out *sx.Out) {
	names := auparse.VerifMessageTypeToName()
	for i := 0; i < n; i++ {
		out.Begin(map[string]interface{}{"mode": "modeHeader", "case": i})
		r := sx.Fork(seed, uint64(i))
		T := r.Intn(65536)
		if r.Chance(1, 2) {
			keys := make([]int, 0, len(names))
			for k := range names {
				keys = append(keys, int(k))
			}
			sort.Ints(keys)
			T = keys[r.Intn(len(keys))]
		}
		S := int64(r.Next() % (1 << 34))
		if r.Chance(1, 6) {
			S = sx.Pick(r, []int64{0, 1, 1<<32 - 1, 1 << 32, 1<<34 - 1, 1500000000})
		}
		mmm := r.Intn(1000)
		if i%8 == 3 {
			mmm = []int{999, 0, 998, 1, 100, 99, 10, 9}[(i/8)%8] // the ends of the millisecond range and the digit-count steps, every run
		}
		N := uint32(r.Next())
		if r.Chance(1, 6) {
			N = sx.Pick(r, []uint32{0, 1, 0x7fffffff, 0x80000000, 0xffffffff})
		}
		body := sx.Pick(r, hostileBodies)
		if r.Chance(1, 3) {
			body = fmt.Sprintf("pid=%d comm=\"x\" key=(null)", r.Intn(9999))
		}
		tname := auparse.AuditMessageType(T).String()
		if r.Chance(1, 8) {
			tname = strings.ToLower(tname)
		}
		hdr := fmt.Sprintf("audit(%d.%03d:%d)", S, mmm, N)
		sep := sx.Pick(r, []string{": ", ":", " ", ""})
		pad := sx.Pick(r, []string{"", "", " ", "\t", " \n"})
		after := pad + hdr + sep + body + pad
		line := "type=" + tname + " msg=" + after
		kind := r.Intn(10)
		wantOK := true
		switch {
		case kind < 6: // well-formed
		case kind < 8: // truncated inside the header, or one header byte damaged
			cut := len("type="+tname+" msg="+pad) + r.Intn(len(hdr))
			if r.Chance(1, 2) {
				line = line[:cut]
			} else {
				b := []byte(line)
				b[cut] = sx.Pick(r, []byte{'x', ' ', '(', ')', '.', ':', '-', '+', 0})
				line = string(b)
			}
			wantOK = false // decided by the judge from the text; this flag only labels the class
		case kind < 9: // numerals with signs, leading zeros, overflow
			line = "type=" + tname + " msg=audit(" + sx.Pick(r, []string{"+5", "-5", "007", "99999999999999999999", "", "5"}) + "." + sx.Pick(r, []string{"001", "-01", "1e3", "", "999999999999"}) + ":" +
				sx.Pick(r, []string{"7", "+7", "-7", "4294967296", "4294967295", ""}) + "): " + body
			wantOK = false
		default: // no msg=, short type part
			line = sx.Pick(r, []string{"", "msg=audit(1.2:3)", "type= msg=audit(1.2:3):", "type=SYSCALL", "type=SYSCALL msg", "typ=X msg=audit(1.002:3): a=b", "x msg=audit(1.2:3)"})
			wantOK = false
		}
		// the parser must be a function of its input: half of the cases are preceded by a parse of a related intact
		// line (same timestamp; the same sequence number or a decimal prefix of it), whose result is thrown away
		primed := ""
		if r.Chance(1, 2) {
			pn := uint64(N)
			for k := r.Intn(3); k > 0; k-- {
				pn /= 10
			}
			primed = fmt.Sprintf("type=SYSCALL msg=audit(%d.%03d:%d): x=1", S, mmm, pn)
			auparse.ParseLogLine(primed)
		}
		m1, e1 := auparse.ParseLogLine(line)
		// Parse on the text after msg= must agree with ParseLogLine
		var m2 *auparse.AuditMessage
		var e2 error
		agree := true
		if idx := strings.Index(line, "msg="); idx >= 0 && e1 == nil {
			m2, e2 = auparse.Parse(m1.RecordType, line[idx+4:])
			agree = e2 == nil && m2.RecordType == m1.RecordType && m2.Timestamp.Equal(m1.Timestamp) && m2.Sequence == m1.Sequence && m2.RawData == m1.RawData
		}
		wantTS := time.Unix(S, int64(mmm)*int64(time.Millisecond)).UTC().String()
		cls := "header/damaged"
		if kind < 6 {
			cls = "header/rendered"
		}
		coq := fmt.Sprintf("HCase %v %d %d %d %d %s %s %s %v %s", kind < 6, T, S, mmm, N, cs(after), cs(wantTS), cs(line), agree, msgCoq(m1, e1))
		out.Case(coq, map[string]interface{}{"case": i, "line": line, "err": fmt.Sprint(e1), "labelled_ok": wantOK, "parsed_just_before": primed}, cls, e1 == nil)
	}
}

// ---------- records the way the kernel writes them ----------

type want struct {
	key   string
	value string
	gone  bool
}

func encUntrusted(v string) string {
	for i := 0; i < len(v); i++ {
		if v[i] == '"' || v[i] < 0x21 || v[i] > 0x7e {
			return strings.ToUpper(hex.EncodeToString([]byte(v)))
		}
	}
	return `"` + v + `"`
}

func admissible(v string) bool {
	if v == "" || v == "?" || v == "?," || v == "(null)" {
		return false
	}
	f, l := v[0], v[len(v)-1]
	if f == '"' || f == '\'' || l == '"' || l == '\'' || l == '\\' || f == ' ' || l == ' ' {
		return false
	}
	return !strings.Contains(v, "\x00")
}

func genValue(r *sx.Rng) string {
	for {
		n := 1 + r.Intn(14)
		b := make([]byte, n)
		kind := r.Intn(5)
		for i := range b {
			switch kind {
			case 0:
				b[i] = "abcdefghijklmnopqrstuvwxyz0123456789/._-"[r.Intn(40)]
			case 1:
				b[i] = byte(0x21 + r.Intn(0x7e-0x21+1))
			case 2:
				b[i] = byte(1 + r.Intn(255))
			case 3:
				b[i] = sx.Pick(r, []byte{' ', '=', '"', '\'', '\\', 'a', 'b', '/', 0xc3, 0xa9, '\t', '\n'})
			default:
				b[i] = "ABCDEF0123456789"[r.Intn(16)]
			}
		}
		if admissible(string(b)) {
			return string(b)
		}
	}
}

var errnoNames map[int]string

func modeData(seed uint64, n int, out *sx.Out) {
	for i := 0; i < n; i++ {
		out.Begin(map[string]interface{}{"mode": "modeData", "case": i})
		r := sx.Fork(seed, uint64(i)+1<<32)
		var typ auparse.AuditMessageType
		var body string
		var wants []want
		nested := false
		plainK, plainV := "k"+fmt.Sprint(r.Intn(9)), sx.Pick(r, []string{"0", "x-y_z", "1234", "pts/0", "?x", "a,b"})
		ph := sx.Pick(r, []string{"?", "?,", "(null)", `""`, "''"})
		switch r.Intn(11) {
		case 0, 1: // SYSCALL
			typ = auparse.AUDIT_SYSCALL
			arch := sx.Pick(r, []string{"c000003e", "40000003", "c00000b7", "40000028", "deadbeef"})
			sc := r.Intn(460)
			exitv := sx.Pick(r, []int{0, 3, -1, -2, -13, -22, -4095, -133, -999999})
			succ := sx.Pick(r, []string{"yes", "no"})
			auid := sx.Pick(r, []string{"4294967295", "-1", "1000", "0"})
			ses := sx.Pick(r, []string{"4294967295", "3", "-1"})
			exe := "/" + genValue(r)
			body = fmt.Sprintf("arch=%s syscall=%d success=%s exit=%d a0=7f a1=0 items=1 ppid=1 pid=%d auid=%s uid=0 ses=%s tty=%s comm=%s exe=%s %s=%s gone=%s key=(null)",
				arch, sc, succ, exitv, r.Intn(99999), auid, ses, sx.Pick(r, []string{"pts0", "(none)"}), encUntrusted(genValue(r)), encUntrusted(exe), plainK, plainV, ph)
			wants = append(wants, want{key: "exe", value: exe}, want{key: plainK, value: plainV}, want{key: "gone", gone: true}, want{key: "success", gone: true})
			if succ == "yes" {
				wants = append(wants, want{key: "result", value: "success"})
			} else {
				wants = append(wants, want{key: "result", value: "fail"})
			}
			if auid == "4294967295" || auid == "-1" {
				wants = append(wants, want{key: "auid", value: "unset"})
			} else {
				wants = append(wants, want{key: "auid", value: auid})
			}
			if ses == "4294967295" || ses == "-1" {
				wants = append(wants, want{key: "ses", value: "unset"})
			}
			if name, ok := errnoNames[-exitv]; ok && exitv < 0 {
				wants = append(wants, want{key: "exit", value: name})
			} else {
				wants = append(wants, want{key: "exit", value: fmt.Sprint(exitv)})
			}
			var a uint32
			fmt.Sscanf(arch, "%x", &a)
			an := auparse.AuditArch(a).String()
			wants = append(wants, want{key: "arch", value: an})
			if nm, ok := auparse.AuditSyscalls[an][sc]; ok {
				wants = append(wants, want{key: "syscall", value: nm})
			} else {
				wants = append(wants, want{key: "syscall", value: fmt.Sprint(sc)})
			}
		case 2: // PATH
			typ = auparse.AUDIT_PATH
			name := genValue(r)
			body = fmt.Sprintf("item=0 name=%s inode=%d dev=fd:01 mode=0100644 ouid=0 ogid=0 rdev=00:00 nametype=NORMAL %s=%s", encUntrusted(name), r.Intn(99999), plainK, plainV)
			wants = append(wants, want{key: "name", value: name}, want{key: plainK, value: plainV})
		case 3: // CWD
			typ = auparse.AUDIT_CWD
			cwd := "/" + genValue(r)
			body = "cwd=" + encUntrusted(cwd)
			wants = append(wants, want{key: "cwd", value: cwd})
		case 4: // EXECVE
			typ = auparse.AUDIT_EXECVE
			argc := 1 + r.Intn(5)
			body = fmt.Sprintf("argc=%d", argc)
			for a := 0; a < argc; a++ {
				v := genValue(r)
				body += fmt.Sprintf(" a%d=%s", a, encUntrusted(v))
				wants = append(wants, want{key: fmt.Sprintf("a%d", a), value: v})
			}
		case 5: // PROCTITLE
			typ = auparse.AUDIT_PROCTITLE
			var args []string
			for a := 1 + r.Intn(4); a > 0; a-- {
				if len(args) > 0 && r.Chance(1, 5) {
					args = append(args, "") // an empty argument: two NULs in a row
					continue
				}
				args = append(args, strings.ReplaceAll(genValue(r), " ", "_"))
			}
			if r.Chance(1, 10) {
				// nothing but separators: one, two or three empty arguments
				args = [][]string{{"", ""}, {"", "", ""}, {"", "", "", ""}}[r.Intn(3)]
			}
			title := strings.Join(args, "\x00")
			if len(args) == 1 && !strings.ContainsAny(title, "\"") && r.Chance(1, 2) {
				body = "proctitle=" + encUntrusted(title)
			} else {
				body = "proctitle=" + strings.ToUpper(hex.EncodeToString([]byte(title)))
			}
			wants = append(wants, want{key: "proctitle", value: strings.Join(args, " ")})
		case 6: // SOCKADDR
			typ = auparse.AUDIT_SOCKADDR
			switch r.Intn(3) {
			case 0:
				ip := []byte{byte(r.Next()), byte(r.Next()), byte(r.Next()), byte(r.Next())}
				port := r.Intn(65536)
				body = fmt.Sprintf("saddr=0200%04X%02X%02X%02X%02X0000000000000000", port, ip[0], ip[1], ip[2], ip[3])
				wants = append(wants, want{key: "family", value: "ipv4"}, want{key: "addr", value: fmt.Sprintf("%d.%d.%d.%d", ip[0], ip[1], ip[2], ip[3])}, want{key: "port", value: fmt.Sprint(port)}, want{key: "saddr", gone: true})
			case 1:
				ip := make([]byte, 16)
				for k := range ip {
					if !r.Chance(1, 2) {
						ip[k] = byte(r.Next())
					}
				}
				if r.Chance(1, 5) {
					ip = []byte{0, 0, 0, 0, 0, 0, 0, 0, 0, 0, 0xff, 0xff, byte(r.Next()), byte(r.Next()), byte(r.Next()), byte(r.Next())}
				}
				if r.Chance(1, 8) {
					ip = make([]byte, 16)
					ip[15] = byte(r.Intn(2))
				}
				port := r.Intn(65536)
				// sin6_flowinfo (a 20-bit flow label plus traffic class: any value below 2^28) and sin6_scope_id (an interface index) are part of the struct
				flow, scope := uint32(0), uint32(0)
				if r.Chance(1, 2) {
					flow = sx.Pick(r, []uint32{1, 0xFFFF, 0x10000, 0xABCDE, 0xFFFFF, 0x0FFFFFFF, uint32(r.Intn(1 << 28))})
				}
				if r.Chance(1, 3) {
					scope = sx.Pick(r, []uint32{1, 2, 0x100, 0xFFFF, 0x10000, 0x7FFFFFFF})
				}
				sc := make([]byte, 4)
				binary.LittleEndian.PutUint32(sc, scope)
				body = fmt.Sprintf("saddr=0A00%04X%08X%s%s", port, flow, strings.ToUpper(hex.EncodeToString(ip)), strings.ToUpper(hex.EncodeToString(sc)))
				wants = append(wants, want{key: "family", value: "ipv6"}, want{key: "addr", value: ipString(ip)}, want{key: "port", value: fmt.Sprint(port)})
			default:
				p := "/" + strings.ReplaceAll(genValue(r), "\x00", "x")
				body = "saddr=0100" + strings.ToUpper(hex.EncodeToString([]byte(p))) + "00" + strings.Repeat("00", r.Intn(4))
				wants = append(wants, want{key: "family", value: "unix"}, want{key: "path", value: p})
			}
		case 7: // USER_CMD (fields wrapped in msg='...')
			typ = auparse.AUDIT_USER_CMD
			nested = true
			cmd := genValue(r)
			cwd := "/" + genValue(r)
			body = fmt.Sprintf("pid=%d uid=0 auid=1000 ses=1 msg='cwd=%s cmd=%s terminal=pts/0 res=%s'", r.Intn(9999), encUntrusted(cwd), encUntrusted(cmd), sx.Pick(r, []string{"success", "failed"}))
			wants = append(wants, want{key: "cmd", value: cmd}, want{key: "cwd", value: cwd}) // cwd is decoded in every record type
		case 8: // TTY
			typ = sx.Pick(r, []auparse.AuditMessageType{auparse.AUDIT_TTY, auparse.AUDIT_USER_TTY})
			d := genValue(r)
			body = fmt.Sprintf("tty pid=%d uid=0 auid=0 ses=1 major=136 minor=0 comm=\"bash\" data=%s", r.Intn(999), strings.ToUpper(hex.EncodeToString([]byte(d))))
			wants = append(wants, want{key: "data", value: d})
		case 9: // USER_LOGIN
			typ = auparse.AUDIT_USER_LOGIN
			nested = true
			acct := genValue(r)
			body = fmt.Sprintf("pid=%d uid=0 auid=4294967295 ses=4294967295 msg='op=login acct=%s exe=\"/usr/sbin/sshd\" hostname=? addr=10.0.0.1 terminal=ssh res=failed'", r.Intn(9999), encUntrusted(acct))
			wants = append(wants, want{key: "acct", value: acct}, want{key: "hostname", gone: true}, want{key: "result", value: "fail"}, want{key: "auid", value: "unset"})
		default: // a record type without special handling
			typ = sx.Pick(r, []auparse.AuditMessageType{auparse.AUDIT_CONFIG_CHANGE, auparse.AUDIT_NETFILTER_CFG, auparse.AuditMessageType(1400), auparse.AuditMessageType(r.Intn(65536))})
			for typ == auparse.AUDIT_AVC || typ == auparse.AUDIT_SECCOMP || typ == auparse.AUDIT_SYSCALL || typ == auparse.AUDIT_SOCKADDR || typ == auparse.AUDIT_EXECVE || typ == auparse.AUDIT_PROCTITLE ||
				typ == auparse.AUDIT_USER_CMD || typ == auparse.AUDIT_TTY || typ == auparse.AUDIT_USER_TTY || typ == auparse.AUDIT_LOGIN || typ == auparse.AUDIT_CRED_DISP || typ == auparse.AUDIT_USER_START || typ == auparse.AUDIT_USER_END {
				typ = auparse.AUDIT_CONFIG_CHANGE
			}
			// plain fields that merely look like hex, under keys the parser would decode if they were upper-case hex
			lk := sx.Pick(r, []string{"cwd", "name", "exe", "cmd", "data", "acct", "proctitle", "a0"})
			lv := sx.Pick(r, []string{"abcd12", "6c73", "2f62696e2f6c73", "deadbeef", "6C7", "cafe", "Abcd"})
			body = fmt.Sprintf("%s=%s op=%s %s=%s res=%s gone=%s", plainK, plainV, encUntrusted("set"), lk, lv, sx.Pick(r, []string{"1", "0", "success", "failed"}), ph)
			wants = append(wants, want{key: plainK, value: plainV}, want{key: "op", value: "set"}, want{key: "gone", gone: true}, want{key: lk, value: lv})
			if r.Chance(1, 2) {
				// any subset of the three id fields, each unset in either spelling or set: each is normalised on its own
				for _, idk := range []string{"ses", "old-auid", "auid"} {
					if r.Chance(1, 2) {
						continue
					}
					v := sx.Pick(r, []string{"4294967295", "-1", "1000", "0", "42949672950", "-10"})
					body += " " + idk + "=" + v
					if v == "4294967295" || v == "-1" {
						v = "unset"
					}
					wants = append(wants, want{key: idk, value: v})
				}
			}
			if lk != "cwd" && r.Chance(1, 3) {
				// a kernel-encoded working directory in a record type of no special kind: cwd is decoded everywhere
				cwd := "/" + genValue(r)
				body += " cwd=" + encUntrusted(cwd)
				wants = append(wants, want{key: "cwd", value: cwd})
			}
		}
		raw := fmt.Sprintf("audit(%d.%03d:%d): %s", 1500000000+r.Intn(1000), r.Intn(1000), r.Intn(100000), body)
		nq := nested && strings.Contains(strings.SplitN(body, "msg='", 2)[len(strings.SplitN(body, "msg='", 2))-1], "'") && strings.Count(body, "'") > 2
		emitData(out, i, typ, raw, wants, nq, "kernel-encoded/"+typ.String())
	}
}

func ipString(ip []byte) string {
	// the harness only needs the expected text for the checker: Go's own net formatting is the oracle
	return netIP(ip)
}

func emitData(out *sx.Out, i int, typ auparse.AuditMessageType, raw string, wants []want, nestedQuote bool, cls string) {
	outcome := "DOk"
	var data map[string]string
	var tags []string
	var derr error
	repeat := true
	done := make(chan struct{})
	var m *auparse.AuditMessage
	var perr error
	go func() {
		defer func() {
			if p := recover(); p != nil {
				outcome = "DPanic"
			}
			close(done)
		}()
		// the parser must be a function of its input: half of the records are preceded by a near copy that is parsed and decoded
		if i%2 == 1 && len(raw) > 1 {
			for _, v := range []string{raw[:len(raw)-1], raw + "0"} {
				if pm, e := auparse.Parse(typ, v); e == nil {
					pm.Data()
					pm.Tags()
				}
			}
		}
		m, perr = auparse.Parse(typ, raw)
		if perr != nil {
			return
		}
		data, derr = m.Data()
		tags, _ = m.Tags()
		ms1 := m.ToMapStr()
		d2, e2 := m.Data()
		t2, _ := m.Tags()
		ms2 := m.ToMapStr()
		repeat = reflect.DeepEqual(data, d2) && fmt.Sprint(derr) == fmt.Sprint(e2) && reflect.DeepEqual(tags, t2) && reflect.DeepEqual(ms1, ms2)
		if _, has := ms1["error"]; has != (derr != nil) {
			repeat = false
		}
	}()
	select {
	case <-done:
	case <-time.After(5 * time.Second):
		outcome = "DHang"
	}
	obs := "None"
	if outcome == "DOk" && perr == nil && derr == nil {
		keys := make([]string, 0, len(data))
		for k := range data {
			keys = append(keys, k)
		}
		sort.Strings(keys)
		parts := make([]string, len(keys))
		for j, k := range keys {
			parts[j] = fmt.Sprintf("(%s, %s)", cs(k), cs(data[k]))
		}
		tg := make([]string, len(tags))
		for j, t := range tags {
			tg[j] = cs(t)
		}
		obs = fmt.Sprintf("(Some ([%s], [%s]))", strings.Join(parts, "; "), strings.Join(tg, "; "))
	}
	ws := make([]string, len(wants))
	for j, w := range wants {
		if w.gone {
			ws[j] = fmt.Sprintf("(%s, None)", cs(w.key))
		} else {
			ws[j] = fmt.Sprintf("(%s, Some %s)", cs(w.key), cs(w.value))
		}
	}
	coq := fmt.Sprintf("DCase %d %s [%s] %v %s %v %v %s", uint16(typ), cs(raw), strings.Join(ws, "; "), nestedQuote, outcome, perr == nil, repeat, obs)
	desc := map[string]interface{}{"case": i, "type": typ.String(), "raw": raw, "data_err": fmt.Sprint(derr), "outcome": outcome}
	if len(raw) > 400 {
		desc["raw"] = raw[:400] + "..."
	}
	out.Case(coq, desc, cls, derr == nil && perr == nil)
}

var frags = []string{"a=b", "key=\"x y\"", "msg='", "'", "\"", " ", "=", "arch=c000003e", "syscall=59", "success=yes", "exit=-13", "exit=x", "saddr=0200", "saddr=02001F907F000001", "saddr=0A00", "saddr=01002F746D70",
	"saddr=ZZ", "argc=3", "argc=4294967295", "argc=-1", "a0=6C73", "a1=\"x\"", "proctitle=6C73002D6C", "proctitle=6C7", "cmd=6C73", "data=6C73", "subj=a:b:c:d:e:f", "obj=u:r:t", "key=6B31016B32", "key=\"k=v\"",
	"avc:  denied  { read write } for  pid=1", "avc: x {", "} for ", "avc:  denied  for  pid=2", "avc: granted for ", "avc:  denied  { } for  pid=3", "avc:  denied  {} for pid=4", "old auid=1 new auid=2", " (hostname=h, addr=?", ")'", "res=success", "res=0", "sig=31", "sig=x", "exe=\"/bin/ls\"", "exe=2F62696E", "cwd=\"/\"", "name=(null)",
	"\\'", "\\\"", "k=?", "k=?,", "\t", "\n", "auid=4294967295", "ses=-1", "old-auid=-1", "acct=\"r\"", "acct=726F6F74", "syscall=x", "arch=zz", ":", "audit(", "-", "é"}

var hostileTypeNames = []string{"][", "UNKNOWN]1329[", "]UNKNOWN[1329]", "UNKNOWN[", "UNKNOWN[]", "UNKNOWN[x]", "[", "]", "UNKNOWN[1329", "UNKNOWN[99999999999999999999]",
	"UNKNOWN[-1]", "UNKNOWN[70000]", "UNKNOWN[65535]", "UNKNOWN[65536]", "unknown[1329]", "[1329]", "X[1]Y", "UNKNOWN[1329]x", "", " ", "SYSCALL", "syscall", "SysCall ", "UNKNOWN[1300]", "UNKNOWN[+5]",
	"UNKNOWN[0x10]", "UNKNOWN[007]", "[[1]]", "]1[", "a]b[c]d", "\xc3\xa9[1]"}

// emitLine runs ParseLogLine on a whole line under recover and a deadline: LCase line outcome (type, sequence, RawData)
func emitLine(out *sx.Out, i int, line string) {
	outcome := "DOk"
	var m *auparse.AuditMessage
	var perr error
	done := make(chan struct{})
	go func() {
		defer close(done)
		defer func() {
			if p := recover(); p != nil {
				outcome = "DPanic"
			}
		}()
		m, perr = auparse.ParseLogLine(line)
		if perr == nil && m != nil {
			m.Data()
			m.Tags()
			m.ToMapStr()
		}
	}()
	select {
	case <-done:
	case <-time.After(5 * time.Second):
		outcome = "DHang"
	}
	res := "None"
	if outcome == "DOk" && perr == nil && m != nil {
		res = fmt.Sprintf("(Some (%d%%N, %d%%N, %s))", uint16(m.RecordType), m.Sequence, cs(m.RawData))
	}
	desc := map[string]interface{}{"case": i, "line": line, "outcome": outcome, "err": fmt.Sprint(perr)}
	out.Case(fmt.Sprintf("LCase %s %s %s", cs(line), outcome, res), desc, "logline/"+outcome, perr == nil)
}

func modeFuzz(seed uint64, n int, out *sx.Out) {
	special := []auparse.AuditMessageType{auparse.AUDIT_SYSCALL, auparse.AUDIT_SECCOMP, auparse.AUDIT_SOCKADDR, auparse.AUDIT_EXECVE, auparse.AUDIT_AVC, auparse.AUDIT_LOGIN, auparse.AUDIT_PATH, auparse.AUDIT_PROCTITLE,
		auparse.AUDIT_USER_CMD, auparse.AUDIT_TTY, auparse.AUDIT_USER_TTY, auparse.AUDIT_USER_LOGIN, auparse.AUDIT_CRED_DISP, auparse.AUDIT_USER_START, auparse.AUDIT_USER_END, auparse.AUDIT_CWD}
	for i := 0; i < n; i++ {
		out.Begin(map[string]interface{}{"mode": "modeFuzz", "case": i})
		r := sx.Fork(seed, uint64(i)+2<<32)
		typ := sx.Pick(r, special)
		if r.Chance(1, 4) {
			typ = auparse.AuditMessageType(r.Intn(65536))
		}
		var sb strings.Builder
		for k := r.Intn(10); k > 0; k-- {
			sb.WriteString(sx.Pick(r, frags))
			if r.Chance(2, 3) {
				sb.WriteByte(' ')
			}
			if r.Chance(1, 25) {
				sb.WriteByte(byte(0x20 + r.Intn(0x5f)))
			}
		}
		hdr := sx.Pick(r, []string{"audit(1.002:3): ", "audit(1.002:3):", "audit(1.002:3)", "audit(1.002:3) ", "audit(1.2:3): x", "(1.2:3)"})
		if r.Chance(1, 5) {
			// whole log lines through ParseLogLine: the type part is as hostile as the rest
			tn := sx.Pick(r, hostileTypeNames)
			if r.Chance(1, 4) {
				tn = typ.String()
			} else if r.Chance(1, 4) {
				b := make([]byte, r.Intn(8))
				for k := range b {
					b[k] = sx.Pick(r, []byte{'[', ']', 'U', 'N', 'K', '1', '3', '9', ' ', '=', 'x', 0xc3})
				}
				tn = string(b)
			}
			line := sx.Pick(r, []string{"type=", "type=", "type=", "typ=", "", "type"}) + tn + sx.Pick(r, []string{" msg=", " msg=", "msg=", " msg", " "}) + hdr + sb.String()
			emitLine(out, i, line)
			continue
		}
		if r.Chance(1, 6) {
			// socket addresses of every length for each family the parser slices
			fam := sx.Pick(r, []string{"0100", "0200", "0A00", "1000", "0300", "0a00", "02"})
			l := r.Intn(52)
			hexd := make([]byte, l)
			for k := range hexd {
				hexd[k] = "0123456789ABCDEF"[r.Intn(16)]
				if r.Chance(1, 40) {
					hexd[k] = sx.Pick(r, []byte{'g', 'a', '-', '+', ' '})
				}
			}
			emitData(out, i, auparse.AUDIT_SOCKADDR, "audit(1.002:3): saddr="+fam+string(hexd), nil, false, "spliced/sockaddr-lengths")
			continue
		}
		emitData(out, i, typ, hdr+sb.String(), nil, false, "spliced/"+fmt.Sprint(typ.String()))
	}
	// white space around and after the header, in runs shorter than, as long as and longer than the header itself: the offset
	// of the body is computed on one reading of the message and used on another (trimmed / untrimmed)
	k := 0
	for _, hdr := range []string{"audit(1481077041.515:406)", "audit(1.002:3)", "audit(1.002:3):"} {
		for _, ws := range []string{"\n", "\t", "\r\n", "\v", "\u0085", "\u00a0"} {
			for _, run := range []int{1, len(hdr) - 1, len(hdr), len(hdr) + 1, 40} {
				for _, tail := range []string{" ", "", " a=b", ": a=b"} {
					for _, lead := range []string{"", " \n"} {
						out.Begin(map[string]interface{}{"mode": "modeFuzz", "family": "whitespace-after-header", "header": hdr, "run": run})
						emitData(out, n+k, auparse.AUDIT_EOE, lead+hdr+strings.Repeat(ws, run)+tail, nil, false, "spliced/whitespace-after-header")
						k++
					}
				}
			}
		}
	}
}

func main() {
	seed := flag.Uint64("seed", 1, "seed")
	n := flag.Int("n", 1000, "cases")
	mode := flag.String("mode", "header", "header | data | fuzz")
	flag.Parse()
	errnoNames = map[int]string{}
	for k, v := range auparse.AuditErrnoToName {
		errnoNames[k] = v
	}
	out := sx.NewOut(os.Stdout)
	defer out.Flush()
	switch *mode {
	case "header":
		modeHeader(*seed, *n, out)
	case "data":
		modeData(*seed, *n, out)
	case "fuzz":
		modeFuzz(*seed, *n, out)
	}
}
