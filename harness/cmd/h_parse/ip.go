package main

import "net"

func netIP(b []byte) string { return net.IP(b).String() }
