package main

import (
	"reflect"

	libaudit "github.com/elastic/go-libaudit/v2"
)

// fdOf reads the client's socket descriptor (unexported field, read-only).
func fdOf(c *libaudit.NetlinkClient) int { return int(reflect.ValueOf(c).Elem().FieldByName("fd").Int()) }
