// h_netlink drives netlink.go: serialize and the audit message parser through the
// verif accessors, and NetlinkClient.Send/Receive over real sockets where the
// sandbox allows them — NETLINK_ROUTE (the kernel quotes a rejected request
// verbatim inside its NLMSG_ERROR reply) and NETLINK_USERSOCK (a second
// user-space socket plays a non-kernel sender).
package main

import (
	"encoding/binary"
	"flag"
	"fmt"
	"os"
	"strings"
	"sync"
	"sync/atomic"
	"syscall"

	"verifharness/sx"

	libaudit "github.com/elastic/go-libaudit/v2"
)

func rnd(r *sx.Rng, n int) []byte {
	b := make([]byte, n)
	for i := range b {
		b[i] = byte(r.Next())
	}
	return b
}

func main() {
	seed := flag.Uint64("seed", 1, "seed")
	n := flag.Int("n", 300, "random cases per kind")
	flag.Parse()
	out := sx.NewOut(os.Stdout)
	defer out.Flush()
	r := sx.NewRng(*seed)
	meta := map[string]interface{}{}

	// (a) serialize: every payload length 0..64, then sampled up to 8970
	lens := []int{}
	for l := 0; l <= 64; l++ {
		lens = append(lens, l)
	}
	for i := 0; i < *n; i++ {
		lens = append(lens, r.Intn(8971))
	}
	lens = append(lens, 8970, 8969, 4096, 4095)
	for _, l := range lens {
		h := syscall.NlMsghdr{Type: uint16(r.Next()), Flags: uint16(r.Next()), Seq: uint32(r.Next()), Pid: uint32(r.Next()), Len: uint32(r.Next())}
		p := rnd(r, l)
		b := libaudit.VerifSerialize(syscall.NetlinkMessage{Header: h, Data: p})
		out.Case(fmt.Sprintf("NSer %d %d %d %d %s %s", h.Type, h.Flags, h.Seq, h.Pid, sx.Hx(p), sx.Hx(b)),
			map[string]interface{}{"serialize_payload_len": l, "type": h.Type, "flags": h.Flags}, "serialize", l > 0)
	}
	// (b) the audit message parser: every length 0..80; random fillings, and every length field around the datagram's own
	// length (the kernel writes a length that is short of the datagram for audit records; the parser must not trust it)
	for l := 0; l <= 80; l++ {
		fillings := 3
		if l >= 16 {
			fillings = 3 + 14
		}
		for rep := 0; rep < fillings; rep++ {
			buf := rnd(r, l)
			if rep >= 3 {
				lf := []int{l, l - 1, l - 2, l - 3, l - 4, l - 5, l - 16, 16, 17, 0, l + 1, l + 3, l + 4, 1 << 20}[rep-3]
				if lf < 0 {
					lf = 0
				}
				binary.LittleEndian.PutUint32(buf[0:], uint32(lf))
			}
			msgs, err := libaudit.VerifParseNetlinkAuditMessage(buf)
			res := "None"
			if err == nil && len(msgs) == 1 {
				h := msgs[0].Header
				res = fmt.Sprintf("(Some ((%d, %d, %d, %d, %d), %s))", h.Len, h.Type, h.Flags, h.Seq, h.Pid, sx.Hx(msgs[0].Data))
			} else if err == nil {
				res = fmt.Sprintf("(Some ((0, 0, 0, 0, %d), %s))", len(msgs), sx.Hx(nil))
			}
			out.Case(fmt.Sprintf("NParse %s %s", sx.Hx(buf), res), map[string]interface{}{"parse_len": l, "err": fmt.Sprint(err)}, "audit-parser", l >= 16)
		}
	}
	// (c) Send over NETLINK_ROUTE: the kernel quotes the rejected request
	rc, err := libaudit.NewNetlinkClient(syscall.NETLINK_ROUTE, 0, make([]byte, 65536), nil)
	if err != nil {
		meta["netlink_route"] = "not available: " + err.Error()
	} else {
		// turn off NETLINK_CAP_ACK so that the kernel echoes the whole request
		port := uint32(0)
		if sa, err := syscall.Getsockname(fdOf(rc)); err == nil {
			port = sa.(*syscall.SockaddrNetlink).Pid
		}
		var seqs []string
		okEcho := 0
		for i := 0; i < 144; i++ {
			l := []int{0, 1, 3, 4, 16, 17, 100, 1000}[i%8] + r.Intn(3)
			if i >= 120 {
				// the top of the range the property names, and the sizes around header-included / header-excluded limits
				l = []int{8970, 8969, 8968, 8967, 8955, 8954, 8953, 8950, 8192, 8191, 8176, 8175, 4096, 4081, 4080, 4079, 2048, 2033, 2032}[(i-120)%19] - r.Intn(2)*((i-120)/19)
			}
			// an unknown rtnetlink message type is rejected with the request quoted back
			ty := uint16(16 + 4*(200+r.Intn(50)) + 2)
			flags := uint16(syscall.NLM_F_REQUEST)
			if r.Chance(1, 2) {
				flags |= syscall.NLM_F_ACK
			}
			pidIn := uint32(0)
			if r.Chance(1, 4) {
				pidIn = port
			}
			p := rnd(r, l)
			// the caller's own Seq and Len fields are not the transport's business: whatever they hold, Send numbers the request itself
			seqIn, lenIn := uint32(0), uint32(0)
			if r.Chance(1, 3) {
				seqIn, lenIn = sx.Pick(r, []uint32{1, 2, 3, 7, 0xffffffff, uint32(r.Next())}), sx.Pick(r, []uint32{0, 16, 1, uint32(r.Next())})
			}
			sq, err := rc.Send(syscall.NetlinkMessage{Header: syscall.NlMsghdr{Type: ty, Flags: flags, Pid: pidIn, Seq: seqIn, Len: lenIn}, Data: p})
			seqs = append(seqs, fmt.Sprint(sq))
			if err != nil {
				out.Case(fmt.Sprintf("NSendFail %d", l), map[string]interface{}{"route_send_payload_len": l, "send_error": err.Error()}, "send-refused", true)
				continue
			}
			msgs, err := rc.Receive(false, syscall.ParseNetlinkMessage)
			if err != nil || len(msgs) == 0 || msgs[0].Header.Type != syscall.NLMSG_ERROR || len(msgs[0].Data) < 20 {
				out.Case(fmt.Sprintf("NKernel %v %d", err != nil, 0), map[string]interface{}{"route_reply_error": fmt.Sprint(err)}, "kernel-datagram", true)
				continue
			}
			out.Case(fmt.Sprintf("NKernel false %d", msgs[0].Header.Type), map[string]interface{}{"kernel_reply_type": msgs[0].Header.Type}, "kernel-datagram", true)
			echo := msgs[0].Data[4:]
			if len(echo) < 16+l {
				// the kernel capped the quote to the header: compare the header only
				p = nil
				echo = echo[:16]
				binary.LittleEndian.PutUint32(echo[0:], 16)
			}
			okEcho++
			out.Case(fmt.Sprintf("NEcho %d %d %d %d %s %d %s", port, ty, flags, pidIn, sx.Hx(p), sq, sx.Hx(echo[:16+len(p)])),
				map[string]interface{}{"route_send_payload_len": l, "returned_seq": sq, "port": port}, "wire-echo", true)
		}
		out.Case("NSeqs ["+strings.Join(seqs, "; ")+"]", map[string]interface{}{"consecutive_sends": len(seqs)}, "sequence", true)
		// kernel datagrams that exactly fill the read buffer (and ones a few bytes shorter): reply = 16 + 4 + 16 + payload, 4-aligned
		exact := 0
		for _, B := range []int{64, 128, 1000, 4096, 8986} {
			bc, err := libaudit.NewNetlinkClient(syscall.NETLINK_ROUTE, 0, make([]byte, B), nil)
			if err != nil {
				continue
			}
			bport := uint32(0)
			if sa, err := syscall.Getsockname(fdOf(bc)); err == nil {
				bport = sa.(*syscall.SockaddrNetlink).Pid
			}
			for _, l := range []int{(B - 36) &^ 3, (B-36)&^3 - 1, (B-36)&^3 - 4, (B-36)&^3 - 9} {
				if l < 0 {
					continue
				}
				ty := uint16(16 + 4*(200+r.Intn(50)) + 2)
				p := rnd(r, l)
				sq, err := bc.Send(syscall.NetlinkMessage{Header: syscall.NlMsghdr{Type: ty, Flags: syscall.NLM_F_REQUEST}, Data: p})
				if err != nil {
					out.Case(fmt.Sprintf("NSendFail %d", l), map[string]interface{}{"route_send_payload_len": l, "send_error": err.Error(), "read_buffer": B}, "send-refused", true)
					continue
				}
				msgs, err := bc.Receive(false, syscall.ParseNetlinkMessage)
				if err != nil || len(msgs) == 0 || msgs[0].Header.Type != syscall.NLMSG_ERROR || len(msgs[0].Data) < 20 {
					out.Case(fmt.Sprintf("NKernel %v %d", err != nil, 0), map[string]interface{}{"route_reply_error": fmt.Sprint(err), "read_buffer": B, "request_payload": l}, "kernel-datagram-filling-buffer", true)
					continue
				}
				out.Case(fmt.Sprintf("NKernel false %d", msgs[0].Header.Type), map[string]interface{}{"kernel_reply_type": msgs[0].Header.Type, "read_buffer": B, "reply_len": msgs[0].Header.Len}, "kernel-datagram-filling-buffer", true)
				echo := msgs[0].Data[4:]
				if len(echo) >= 16+l {
					exact++
					out.Case(fmt.Sprintf("NEcho %d %d %d %d %s %d %s", bport, ty, syscall.NLM_F_REQUEST, 0, sx.Hx(p), sq, sx.Hx(echo[:16+len(p)])),
						map[string]interface{}{"route_send_payload_len": l, "returned_seq": sq, "port": bport, "read_buffer": B}, "wire-echo-filling-buffer", true)
				}
			}
			bc.Close()
		}
		meta["buffer_filling_datagrams"] = fmt.Sprintf("%d kernel replies of exactly / nearly the read buffer's size quoted back in full", exact)
		meta["netlink_route"] = fmt.Sprintf("available, %d requests quoted back by the kernel", okEcho)
		// concurrent senders, one of which keeps failing (a 1 MiB message: EMSGSIZE): a failed Send must not disturb the numbers the others get
		const G, M = 8, 1500
		per := make([][]string, G)
		var wg sync.WaitGroup
		stopFail := make(chan struct{})
		var failed int64
		var fwg sync.WaitGroup
		for f := 0; f < 3; f++ {
			fwg.Add(1)
			go func() {
				defer fwg.Done()
				big := make([]byte, 300<<10)
				for {
					select {
					case <-stopFail:
						return
					default:
					}
					if _, err := rc.Send(syscall.NetlinkMessage{Header: syscall.NlMsghdr{Type: 1018, Flags: syscall.NLM_F_REQUEST}, Data: big}); err != nil {
						atomic.AddInt64(&failed, 1)
					}
				}
			}()
		}
		for g := 0; g < G; g++ {
			wg.Add(1)
			go func(g int) {
				defer wg.Done()
				for i := 0; i < M; i++ {
					sq, _ := rc.Send(syscall.NetlinkMessage{Header: syscall.NlMsghdr{Type: 1018, Flags: syscall.NLM_F_REQUEST}})
					per[g] = append(per[g], fmt.Sprint(sq))
				}
			}(g)
		}
		wg.Wait()
		close(stopFail)
		fwg.Wait()
		parts := make([]string, G)
		for g := range per {
			parts[g] = "[" + strings.Join(per[g], "; ") + "]"
		}
		out.Case("NConc ["+strings.Join(parts, "; ")+"]", map[string]interface{}{"goroutines": G, "sends_each": M, "failed_sends_alongside": failed}, "concurrent-send", true)
		meta["failing_sends_during_concurrent_sends"] = failed
		rc.Close()
		// concurrent senders, on the wire: every request is quoted back by the kernel, so the datagram that carries the payload of
		// goroutine g's i-th Send must carry the sequence number that Send returned (and nothing of another caller's message)
		for round := 0; round < 6; round++ {
			wc, err := libaudit.NewNetlinkClient(syscall.NETLINK_ROUTE, 0, make([]byte, 65536), nil)
			if err != nil {
				break
			}
			wport := uint32(0)
			if sa, err := syscall.Getsockname(fdOf(wc)); err == nil {
				wport = sa.(*syscall.SockaddrNetlink).Pid
			}
			const WG, WM = 8, 10
			ret := make([][]uint32, WG)
			typ := make([][]uint16, WG)
			var wwg sync.WaitGroup
			gate := make(chan struct{})
			for g := 0; g < WG; g++ {
				ret[g] = make([]uint32, WM)
				typ[g] = make([]uint16, WM)
				wwg.Add(1)
				go func(g int) {
					defer wwg.Done()
					<-gate
					for i := 0; i < WM; i++ {
						p := make([]byte, 8+4*g) // lengths differ per goroutine: a torn datagram shows in the length as well
						binary.LittleEndian.PutUint32(p[0:], uint32(g))
						binary.LittleEndian.PutUint32(p[4:], uint32(i))
						ty := uint16(16 + 4*(200+g) + 2)
						typ[g][i] = ty
						sq, _ := wc.Send(syscall.NetlinkMessage{Header: syscall.NlMsghdr{Type: ty, Flags: syscall.NLM_F_REQUEST}, Data: p})
						ret[g][i] = sq
					}
				}(g)
			}
			close(gate)
			wwg.Wait()
			got, overflow := 0, false
			for got < WG*WM {
				msgs, err := wc.Receive(true, syscall.ParseNetlinkMessage)
				if err != nil {
					if err == syscall.ENOBUFS {
						overflow = true
					}
					break
				}
				for _, m := range msgs {
					if m.Header.Type != syscall.NLMSG_ERROR || len(m.Data) < 20+8 {
						continue
					}
					got++
					echo := m.Data[4:]
					g, i := int(binary.LittleEndian.Uint32(echo[16:])), int(binary.LittleEndian.Uint32(echo[20:]))
					want, ty, pl := uint32(0), uint16(0), 8
					if g >= 0 && g < WG && i >= 0 && i < WM {
						want, ty, pl = ret[g][i], typ[g][i], 8+4*g
					}
					p := make([]byte, pl)
					binary.LittleEndian.PutUint32(p[0:], uint32(g))
					binary.LittleEndian.PutUint32(p[4:], uint32(i))
					if len(echo) > 16+pl {
						echo = echo[:16+pl]
					}
					out.Case(fmt.Sprintf("NEcho %d %d %d %d %s %d %s", wport, ty, syscall.NLM_F_REQUEST, 0, sx.Hx(p), want, sx.Hx(echo)),
						map[string]interface{}{"concurrent_wire": true, "goroutine": g, "index": i, "returned_seq": want}, "concurrent-wire-echo", true)
				}
			}
			if got < WG*WM && !overflow {
				out.Case("NKernel true 0", map[string]interface{}{"concurrent_wire": true, "sent": WG * WM, "quoted_back": got}, "concurrent-wire-lost", true)
			}
			wc.Close()
		}
	}
	// (d) a non-kernel sender: NETLINK_USERSOCK, unicast from a second socket
	uc, err := libaudit.NewNetlinkClient(syscall.NETLINK_USERSOCK, 0, make([]byte, 65536), nil)
	if err != nil {
		meta["netlink_usersock"] = "not available: " + err.Error()
	} else {
		sa, _ := syscall.Getsockname(fdOf(uc))
		dst := sa.(*syscall.SockaddrNetlink).Pid
		s2, err := syscall.Socket(syscall.AF_NETLINK, syscall.SOCK_RAW, syscall.NETLINK_USERSOCK)
		sent := 0
		if err == nil {
			syscall.Bind(s2, &syscall.SockaddrNetlink{Family: syscall.AF_NETLINK})
			for l := 0; l <= 64; l++ {
				for rep := 0; rep < 2; rep++ {
					b := rnd(r, l)
					if rep == 1 && l >= 16 {
						// a well-formed netlink header claiming to be from the kernel
						binary.LittleEndian.PutUint32(b[0:], uint32(l))
						binary.LittleEndian.PutUint32(b[12:], 0)
					}
					if err := syscall.Sendto(s2, b, 0, &syscall.SockaddrNetlink{Family: syscall.AF_NETLINK, Pid: dst}); err != nil {
						continue
					}
					sent++
					msgs, err := uc.Receive(true, syscall.ParseNetlinkMessage)
					out.Case(fmt.Sprintf("NForeign %d %v %v", l, err != nil, len(msgs) > 0), map[string]interface{}{"foreign_datagram_len": l, "err": fmt.Sprint(err)}, "foreign-sender", true)
				}
			}
			syscall.Close(s2)
		}
		meta["netlink_usersock"] = fmt.Sprintf("available, %d datagrams from a second user-space socket", sent)
		uc.Close()
	}
	// (e) a non-kernel sender that multicasts to a group the client subscribed to
	mc, err := libaudit.NewNetlinkClient(syscall.NETLINK_USERSOCK, 1, make([]byte, 65536), nil)
	if err != nil {
		meta["netlink_usersock_multicast"] = "not available: " + err.Error()
	} else {
		s3, err := syscall.Socket(syscall.AF_NETLINK, syscall.SOCK_RAW, syscall.NETLINK_USERSOCK)
		sent := 0
		if err == nil {
			syscall.Bind(s3, &syscall.SockaddrNetlink{Family: syscall.AF_NETLINK})
			syscall.SetNonblock(fdOf(mc), true)
			for _, l := range []int{0, 1, 15, 16, 17, 20, 32, 64, 200} {
				for rep := 0; rep < 2; rep++ {
					b := rnd(r, l)
					if rep == 1 && l >= 16 {
						binary.LittleEndian.PutUint32(b[0:], uint32(l))
						binary.LittleEndian.PutUint32(b[12:], 0)
					}
					// the broadcast to the group is followed by a unicast to port 0, which nobody listens on here: ECONNREFUSED after delivery
					if err := syscall.Sendto(s3, b, 0, &syscall.SockaddrNetlink{Family: syscall.AF_NETLINK, Pid: 0, Groups: 1}); err != nil && err != syscall.ECONNREFUSED {
						continue
					}
					msgs, err := mc.Receive(true, syscall.ParseNetlinkMessage)
					if err == syscall.EAGAIN || err == syscall.EWOULDBLOCK {
						continue // not delivered
					}
					sent++
					out.Case(fmt.Sprintf("NForeign %d %v %v", l, err != nil, len(msgs) > 0), map[string]interface{}{"foreign_multicast_len": l, "err": fmt.Sprint(err)}, "foreign-multicast-sender", true)
				}
			}
			syscall.Close(s3)
		}
		meta["netlink_usersock_multicast"] = fmt.Sprintf("available, %d multicast datagrams from a second user-space socket", sent)
		mc.Close()
	}
	out.Meta(meta)
}
