// h_coalesce drives aucoalesce.CoalesceMessages / ResolveIDs.
//
//	-mode events : generated record groups; the event is flattened (JSON tree ->
//	               dotted paths) together with its warnings; inputs are
//	               snapshotted before and after, the call is repeated, and events
//	               of a pool are re-compared after later calls (C09, C15)
//	-mode modes  : every st_mode 0..65535 on the selected PATH record (C09)
//	-mode race   : concurrent coalescing / ID resolution (run under -race, C15)
//
// It judges nothing: cases are printed as Coq terms for Check/ChkCoalesce.v.
package main

import (
	"encoding/json"
	"flag"
	"fmt"
	"os"
	"os/user"
	"reflect"
	"sort"
	"strings"
	"sync"
	"time"

	"verifharness/sx"

	"github.com/elastic/go-libaudit/v2/aucoalesce"
	"github.com/elastic/go-libaudit/v2/auparse"
)

func cs(s string) string { return sx.Hx([]byte(s)) }

func flatten(prefix string, v interface{}, out *[][2]string) {
	switch t := v.(type) {
	case map[string]interface{}:
		keys := make([]string, 0, len(t))
		for k := range t {
			keys = append(keys, k)
		}
		sort.Strings(keys)
		for _, k := range keys {
			p := k
			if prefix != "" {
				p = prefix + "." + k
			}
			flatten(p, t[k], out)
		}
	case []interface{}:
		for i, e := range t {
			flatten(fmt.Sprintf("%s.%d", prefix, i), e, out)
		}
	case string:
		*out = append(*out, [2]string{prefix, t})
	case nil:
	default:
		*out = append(*out, [2]string{prefix, fmt.Sprint(t)})
	}
}

func flatEvent(e *aucoalesce.Event) [][2]string {
	b, _ := json.Marshal(e)
	var tree map[string]interface{}
	json.Unmarshal(b, &tree)
	delete(tree, "@timestamp")
	delete(tree, "sequence")
	delete(tree, "record_type")
	var out [][2]string
	flatten("", tree, &out)
	out = append(out, [2]string{"id.sec", fmt.Sprint(e.Timestamp.Unix())}, [2]string{"id.nsec", fmt.Sprint(e.Timestamp.Nanosecond())},
		[2]string{"id.seq", fmt.Sprint(e.Sequence)}, [2]string{"id.type", fmt.Sprint(uint16(e.Type))})
	return out
}

func flatCoq(f [][2]string) string {
	parts := make([]string, len(f))
	for i, e := range f {
		parts[i] = fmt.Sprintf("(%s, %s)", cs(e[0]), cs(e[1]))
	}
	return "[" + strings.Join(parts, "; ") + "]"
}

func snapshot(msgs []*auparse.AuditMessage) string {
	var sb strings.Builder
	for _, m := range msgs {
		if m == nil {
			sb.WriteString("<nil>;")
			continue
		}
		d, err := m.Data()
		t, _ := m.Tags()
		ms := m.ToMapStr()
		keys := make([]string, 0, len(d))
		for k := range d {
			keys = append(keys, k)
		}
		sort.Strings(keys)
		for _, k := range keys {
			fmt.Fprintf(&sb, "%q=%q,", k, d[k])
		}
		mk := make([]string, 0, len(ms))
		for k := range ms {
			mk = append(mk, k)
		}
		sort.Strings(mk)
		for _, k := range mk {
			fmt.Fprintf(&sb, "|%q=%v", k, ms[k])
		}
		fmt.Fprintf(&sb, "#%v#%v;", err, t)
	}
	return sb.String()
}

func val(r *sx.Rng) string {
	return sx.Pick(r, []string{"0", "1000", "root", "x", "/bin/ls", "pts/0", "4294967295", "a b", "k1", "10.0.0.7", "h.example", "unset", "?x"})
}

var normTypes []auparse.AuditMessageType

var otherTypes = []auparse.AuditMessageType{auparse.AUDIT_CWD, auparse.AUDIT_PROCTITLE, auparse.AUDIT_AVC, auparse.AUDIT_MMAP, auparse.AUDIT_SECCOMP, auparse.AUDIT_NETFILTER_CFG, auparse.AUDIT_CONFIG_CHANGE,
	auparse.AUDIT_USER_LOGIN, auparse.AUDIT_USER_AUTH, auparse.AUDIT_CRED_ACQ, auparse.AUDIT_LOGIN, auparse.AUDIT_CRYPTO_KEY_USER, auparse.AUDIT_USER_CMD, auparse.AUDIT_BPRM_FCAPS, auparse.AUDIT_OBJ_PID}

func genRecord(r *sx.Rng, typ auparse.AuditMessageType, seq uint32, sec int64, pool []string) string {
	var body string
	extra := func() string {
		var sb strings.Builder
		for k := r.Intn(4); k > 0; k-- {
			key, v := sx.Pick(r, pool), strings.ReplaceAll(val(r), " ", "_")
			if key == "cwd" || key == "name" || key == "exe" || key == "proctitle" {
				v = "v" + v // keep it from reading as upper-case hex (decoded bytes would not survive the JSON view of the event)
			}
			fmt.Fprintf(&sb, " %s=%s", key, v)
		}
		return sb.String()
	}
	switch typ {
	case auparse.AUDIT_SYSCALL:
		sc := sx.Pick(r, []int{59, 2, 257, 42, 43, 44, 45, 49, 41, 1, 87, 90, 165, 288, 999})
		body = fmt.Sprintf("arch=c000003e syscall=%d success=%s exit=%d a0=1 a1=2 items=%d ppid=%d pid=%d auid=%s uid=%s gid=0 euid=0 suid=0 fsuid=0 egid=0 sgid=0 fsgid=0 tty=pts0 ses=%s comm=\"cmd\" exe=\"/usr/bin/cmd\" subj=u:r:t:s0:c1 key=%s%s",
			sc, sx.Pick(r, []string{"yes", "no"}), sx.Pick(r, []int{0, -13, 3}), r.Intn(3), r.Intn(999), r.Intn(9999), sx.Pick(r, []string{"1000", "4294967295"}), sx.Pick(r, []string{"0", "1000"}), sx.Pick(r, []string{"3", "4294967295"}),
			sx.Pick(r, []string{"(null)", "\"k1\"", "\"a=b\"", "6B31016B32", "616C706861010162657461", "016B", "6B0101", "6101016201016301"}), extra()) // several keys, hex with the 0x01 separator, empty ones among them
	case auparse.AUDIT_PATH:
		body = fmt.Sprintf("item=%d name=\"/p/%s\" inode=%d dev=fd:01 mode=%s ouid=%d ogid=%d rdev=00:0%d obj=u:object_r:t:s0 nametype=%s%s", r.Intn(3), val(r)[:1], r.Intn(99999),
			sx.Pick(r, []string{"0100644", "040755", "0120777", "020620", "060660", "010600", "0140755", "0104755", "bogus", "100644", "40755", "644", "0o100644", "0x1ed", "0b110", "1_00644"}), r.Intn(2000), r.Intn(2000), r.Intn(9), sx.Pick(r, []string{"NORMAL", "PARENT", "CREATE", "DELETE", "UNKNOWN"}), extra())
	case auparse.AUDIT_EXECVE:
		argc := r.Intn(4)
		body = fmt.Sprintf("argc=%d", argc)
		if r.Chance(1, 12) {
			body = fmt.Sprintf("argc=%s", sx.Pick(r, []string{"9", "x", "4294967296"}))
		}
		for a := 0; a < argc; a++ {
			body += fmt.Sprintf(" a%d=\"%s\"", a, strings.ReplaceAll(val(r), " ", "_"))
		}
		// (an EXECVE record holds argc and the arguments only: the property's well-formed events)
	case auparse.AUDIT_SOCKADDR:
		body = "saddr=" + sx.Pick(r, []string{"02001F907F0000010000000000000000", "0A001F9000000000FE80000000000000000000000000000100000000", "01002F746D702F7300", "100000000000000000000000", "0200"})
	case auparse.AUDIT_CWD:
		body = "cwd=\"/home/" + val(r)[:1] + "\"" + extra()
	case auparse.AUDIT_PROCTITLE:
		body = "proctitle=6C73002D6C" + extra()
	case auparse.AUDIT_USER_LOGIN, auparse.AUDIT_USER_AUTH, auparse.AUDIT_CRED_ACQ, auparse.AUDIT_CRYPTO_KEY_USER, auparse.AUDIT_USER_CMD:
		body = fmt.Sprintf("pid=%d uid=0 auid=%s ses=%s subj=u:r:t:s0 msg='op=login acct=\"root\" exe=\"/usr/sbin/sshd\" hostname=%s addr=%s terminal=ssh res=%s'", r.Intn(9999), sx.Pick(r, []string{"1000", "4294967295"}), sx.Pick(r, []string{"1", "4294967295"}),
			sx.Pick(r, []string{"?", "h.example"}), sx.Pick(r, []string{"?", "10.0.0.7"}), sx.Pick(r, []string{"success", "failed"})) + extra()
	default:
		body = fmt.Sprintf("pid=%d uid=%s res=%s%s", r.Intn(9999), sx.Pick(r, []string{"0", "1000"}), sx.Pick(r, []string{"1", "0"}), extra())
		if r.Chance(1, 10) {
			body = "garbage without pairs"
		}
	}
	if r.Chance(1, 30) {
		return fmt.Sprintf("audit(%d.%03d:%d)", sec, r.Intn(1000), seq) // no data content
	}
	return fmt.Sprintf("audit(%d.%03d:%d): %s", sec, 123, seq, body)
}

type group struct {
	msgs []*auparse.AuditMessage
	desc []string
}

func genGroup(r *sx.Rng) group {
	var g group
	seq := uint32(r.Intn(100000))
	sec := int64(1500000000 + r.Intn(100000))
	// extra keys collide freely across records, except the names reserved for EXECVE (argc, aN) and for derived
	// socket data (socket_ prefix): the property's well-formed events
	pool := []string{"k1", "k2", "pid", "uid", "exe", "cwd", "comm", "addr", "name", "items", "result", "ses", "subj_user", "obj", "auid", "ogid", "xuid", "ppid", "proctitle", "syscall", "hostname"}
	mutate := func(t auparse.AuditMessageType, raw string) string { return raw }
	add := func(t auparse.AuditMessageType) {
		raw := mutate(t, genRecord(r, t, seq, sec, pool))
		// records of one group need not carry the same header (the reassembler groups by sequence number alone): the event's
		// timestamp and sequence are the first record's, whatever the later ones say
		if r.Chance(1, 4) {
			raw = strings.Replace(raw, fmt.Sprintf("audit(%d.", sec), fmt.Sprintf("audit(%d.", sec+int64(1+r.Intn(3))), 1)
		}
		if r.Chance(1, 8) {
			raw = strings.Replace(raw, fmt.Sprintf(":%d)", seq), fmt.Sprintf(":%d)", seq+uint32(1+r.Intn(3))), 1)
		}
		m, err := auparse.Parse(t, raw)
		if err == nil {
			g.msgs = append(g.msgs, m)
			g.desc = append(g.desc, t.String())
		}
	}
	kind := r.Intn(10)
	switch {
	case kind == 0:
		// empty, or EOE only
		if r.Chance(1, 2) {
			add(auparse.AUDIT_EOE)
		}
	case kind < 4: // single record of any type
		t := sx.Pick(r, otherTypes)
		if r.Chance(1, 3) {
			t = auparse.AuditMessageType(1000 + r.Intn(1500))
		}
		add(t)
		if r.Chance(1, 4) {
			add(auparse.AUDIT_EOE)
		}
	default: // compound
		var types []auparse.AuditMessageType
		if r.Chance(1, 6) {
			types = append(types, sx.Pick(r, otherTypes)) // a special record in front
		} else if len(normTypes) > 0 && r.Chance(1, 5) {
			// ... in particular one with a normalisation of its own (merged with the syscall's); a few types recur so that
			// several events of one record type with different syscalls follow each other
			if r.Chance(1, 2) {
				types = append(types, normTypes[r.Intn(len(normTypes))])
			} else {
				types = append(types, normTypes[(r.Intn(4)*7)%len(normTypes)])
			}
		}
		if !r.Chance(1, 10) {
			types = append(types, auparse.AUDIT_SYSCALL)
		}
		once := map[auparse.AuditMessageType]bool{}
		for k := r.Intn(6); k > 0; k-- {
			t := sx.Pick(r, []auparse.AuditMessageType{auparse.AUDIT_PATH, auparse.AUDIT_PATH, auparse.AUDIT_CWD, auparse.AUDIT_EXECVE, auparse.AUDIT_SOCKADDR, auparse.AUDIT_PROCTITLE, sx.Pick(r, otherTypes)})
			if t != auparse.AUDIT_PATH && once[t] {
				continue // any subset: PATH may repeat, the other record kinds appear at most once
			}
			once[t] = true
			types = append(types, t)
		}
		if r.Chance(1, 3) {
			// any order
			for k := len(types) - 1; k > 0; k-- {
				j := r.Intn(k + 1)
				types[k], types[j] = types[j], types[k]
			}
		}
		if r.Chance(1, 12) {
			// a SYSCALL record whose Data() fails, and an "items" key on the records around it
			mutate = func(t auparse.AuditMessageType, raw string) string {
				if t == auparse.AUDIT_SYSCALL {
					return strings.Replace(raw, "arch=c000003e", "arch=zz", 1)
				}
				if t != auparse.AUDIT_EXECVE && t != auparse.AUDIT_SOCKADDR && t != auparse.AUDIT_EOE && !strings.Contains(raw, " items=") {
					return raw + " items=q" + fmt.Sprint(r.Intn(9))
				}
				return raw
			}
		}
		if len(types) > 1 && r.Chance(1, 8) {
			// an end-of-event record that is not the last one (only a trailing one is stripped)
			k := 1 + r.Intn(len(types)-1)
			types = append(types[:k], append([]auparse.AuditMessageType{auparse.AUDIT_EOE}, types[k:]...)...)
		}
		for _, t := range types {
			add(t)
		}
		if r.Chance(1, 2) {
			add(auparse.AUDIT_EOE)
		}
	}
	return g
}

func recordsCoq(msgs []*auparse.AuditMessage) string {
	parts := make([]string, len(msgs))
	for i, m := range msgs {
		d, err := m.Data()
		data := "None"
		if err == nil {
			keys := make([]string, 0, len(d))
			for k := range d {
				keys = append(keys, k)
			}
			sort.Strings(keys)
			kv := make([]string, len(keys))
			for j, k := range keys {
				kv[j] = fmt.Sprintf("(%s, %s)", cs(k), cs(d[k]))
			}
			data = "(Some [" + strings.Join(kv, "; ") + "])"
		}
		t, _ := m.Tags()
		tg := make([]string, len(t))
		for j, x := range t {
			tg[j] = cs(x)
		}
		parts[i] = fmt.Sprintf("MkRec %d %d (%d) %d %s [%s]", uint16(m.RecordType), m.Sequence, m.Timestamp.Unix(), m.Timestamp.Nanosecond(), data, strings.Join(tg, "; "))
	}
	return "[" + strings.Join(parts, "; ") + "]"
}

func coalesce(msgs []*auparse.AuditMessage) (e *aucoalesce.Event, err error, panicked bool) {
	defer func() {
		if p := recover(); p != nil {
			panicked = true
		}
	}()
	e, err = aucoalesce.CoalesceMessages(msgs)
	return
}

func warningsCoq(e *aucoalesce.Event) string {
	if e == nil {
		return "[]"
	}
	// warnings about duplicate keys come out in map iteration order: compared as a multiset
	ws := make([]string, len(e.Warnings))
	for i, x := range e.Warnings {
		ws[i] = x.Error()
	}
	sort.Strings(ws)
	w := make([]string, len(ws))
	for i, x := range ws {
		w[i] = cs(x)
	}
	return "[" + strings.Join(w, "; ") + "]"
}

func modeEvents(seed uint64, n int, out *sx.Out) {
	aucoalesce.HardcodeUsers(user.User{Uid: "1000", Username: "alice"}, user.User{Uid: "0", Username: "root"})
	aucoalesce.HardcodeGroups(user.Group{Gid: "0", Name: "root"}, user.Group{Gid: "1000", Name: "staff"})
	type kept struct {
		ev   *aucoalesce.Event
		flat [][2]string
	}
	var pool []kept
	do := func(i int, r *sx.Rng, g group) {
		in := append([]*auparse.AuditMessage(nil), g.msgs...)
		before := snapshot(in)
		recs := recordsCoq(in)
		// the slice handed to CoalesceMessages is the caller's too: the same one is used for every call, and it must still hold the same messages afterwards
		call := append([]*auparse.AuditMessage(nil), in...)
		sameSlice := func() bool {
			if len(call) != len(in) {
				return false
			}
			for k := range in {
				if call[k] != in[k] {
					return false
				}
			}
			return true
		}
		e1, err1, p1 := coalesce(call)
		after := snapshot(in)
		sliceIntact := sameSlice()
		var f1 [][2]string
		res := "None"
		if e1 != nil && err1 == nil {
			f1 = flatEvent(e1)
			res = "(Some " + flatCoq(f1) + ")"
		}
		w1 := warningsCoq(e1)
		// again on the same messages
		e2, err2, p2 := coalesce(call)
		sliceIntact = sliceIntact && sameSlice()
		repeatOK := (e1 == nil) == (e2 == nil) && (err1 == nil) == (err2 == nil)
		if e1 != nil && e2 != nil {
			repeatOK = repeatOK && reflect.DeepEqual(flatEvent(e2), f1) && warningsCoq(e2) == w1
		}
		// isolation: resolving ids of this event, and later traffic, must not alter events returned earlier
		isolated := true
		if e1 != nil {
			if r.Chance(1, 2) {
				aucoalesce.ResolveIDs(e2)
			}
			if !reflect.DeepEqual(flatEvent(e1), f1) {
				isolated = false
			}
			pool = append(pool, kept{e1, f1})
			if len(pool) > 8 {
				pool = pool[1:]
			}
			for _, k := range pool {
				if !reflect.DeepEqual(flatEvent(k.ev), k.flat) {
					isolated = false
				}
			}
			e3, _, _ := coalesce(call)
			if e3 != nil && !reflect.DeepEqual(flatEvent(e3), f1) {
				isolated = false
			}
		}
		coq := fmt.Sprintf("ECase %s %v %s %s %v %v %v", recs, p1 || p2, res, w1, before == after && sliceIntact, repeatOK, isolated)
		out.Case(coq, map[string]interface{}{"case": i, "records": strings.Join(g.desc, ","), "err": fmt.Sprint(err1), "warnings": len(w1) > 2}, fmt.Sprintf("group/records=%d", len(in)), e1 != nil)
	}
	for i := 0; i < n; i++ {
		out.Begin(map[string]interface{}{"mode": "modeEvents", "case": i})
		r := sx.Fork(seed, uint64(i))
		do(i, r, genGroup(r))
	}
	// every record type with a normalisation of its own in front of SYSCALL records of three different syscalls, back to back:
	// the events share the normalisation tables and must not share anything else
	for ti, t := range normTypes {
		for si, sc := range []int{90, 87, 2} {
			r := sx.Fork(seed^0x77, uint64(ti*3+si))
			var g group
			seq, sec := uint32(5000+ti), int64(1500000000+ti)
			raws := []struct {
				t   auparse.AuditMessageType
				raw string
			}{{t, genRecord(r, t, seq, sec, []string{"k1", "k2"})},
				{auparse.AUDIT_SYSCALL, fmt.Sprintf("audit(%d.123:%d): arch=c000003e syscall=%d success=no exit=-13 a0=1 a1=2 items=0 ppid=1 pid=2 auid=1000 uid=0 gid=0 euid=0 suid=0 fsuid=0 egid=0 sgid=0 fsgid=0 tty=pts0 ses=3 comm=\"cmd\" exe=\"/usr/bin/cmd\" subj=u:r:t:s0:c1 key=(null)", sec, seq, sc)}}
			for _, x := range raws {
				if m, err := auparse.Parse(x.t, x.raw); err == nil {
					g.msgs = append(g.msgs, m)
					g.desc = append(g.desc, x.t.String())
				}
			}
			do(n+ti*3+si, r, g)
		}
		// ... and in front of a connection-accepting SYSCALL record with a SOCKADDR record: the record's own addr= and the socket address both claim the source
		{
			r := sx.Fork(seed^0x99, uint64(ti))
			var g group
			seq, sec := uint32(9000+ti), int64(1500100000+ti)
			first := genRecord(r, t, seq, sec, []string{"k1"})
			if !strings.Contains(first, " addr=") && !strings.Contains(first, "msg='") {
				first += " addr=10.9.8.7"
			}
			raws := []struct {
				t   auparse.AuditMessageType
				raw string
			}{{t, first},
				{auparse.AUDIT_SYSCALL, fmt.Sprintf("audit(%d.123:%d): arch=c000003e syscall=%d success=yes exit=3 a0=1 a1=2 items=0 ppid=1 pid=2 auid=1000 uid=0 gid=0 euid=0 suid=0 fsuid=0 egid=0 sgid=0 fsgid=0 tty=pts0 ses=3 comm=\"cmd\" exe=\"/usr/bin/cmd\" subj=u:r:t:s0:c1 key=(null)", sec, seq, sx.Pick(r, []int{43, 45, 288, 42}))},
				{auparse.AUDIT_SOCKADDR, fmt.Sprintf("audit(%d.123:%d): saddr=02001F907F0000010000000000000000", sec, seq)}}
			for _, x := range raws {
				if m, err := auparse.Parse(x.t, x.raw); err == nil {
					g.msgs = append(g.msgs, m)
					g.desc = append(g.desc, x.t.String())
				}
			}
			do(n+len(normTypes)*3+ti, r, g)
		}
	}
	// every run: the syscalls whose normalisation points at a PATH record other than the first (mkdir, mkdirat, mount: 1;
	// rename, renameat, renameat2: 2) with every short pattern of name types - in particular all records from the hinted one
	// on being PARENT / UNKNOWN, where the hinted record itself must be mirrored, not the first one
	k := 0
	for _, sc := range []int{83, 258, 165, 82, 264, 316, 2} {
		for _, pat := range [][]string{{"NORMAL", "PARENT"}, {"NORMAL", "UNKNOWN"}, {"NORMAL", "PARENT", "PARENT"}, {"NORMAL", "CREATE", "PARENT"}, {"NORMAL", "PARENT", "UNKNOWN", "PARENT"},
			{"PARENT", "NORMAL"}, {"PARENT", "PARENT", "CREATE"}, {"NORMAL", "NORMAL", "PARENT", "DELETE"}, {"PARENT"}, {"UNKNOWN", "UNKNOWN", "UNKNOWN"}} {
			r := sx.Fork(seed^0x9a7, uint64(k))
			var g group
			seq, sec := uint32(20000+k), int64(1500200000+k)
			raws := []struct {
				t   auparse.AuditMessageType
				raw string
			}{{auparse.AUDIT_SYSCALL, fmt.Sprintf("audit(%d.123:%d): arch=c000003e syscall=%d success=no exit=-2 a0=1 a1=2 items=%d ppid=1 pid=2 auid=1000 uid=0 gid=0 euid=0 suid=0 fsuid=0 egid=0 sgid=0 fsgid=0 tty=pts0 ses=3 comm=\"cmd\" exe=\"/usr/bin/cmd\" subj=u:r:t:s0 key=(null)", sec, seq, sc, len(pat))},
				{auparse.AUDIT_CWD, fmt.Sprintf("audit(%d.123:%d): cwd=\"/srv\"", sec, seq)}}
			for j, nt := range pat {
				raws = append(raws, struct {
					t   auparse.AuditMessageType
					raw string
				}{auparse.AUDIT_PATH, fmt.Sprintf("audit(%d.123:%d): item=%d name=\"/srv/p%d\" inode=%d dev=fd:0%d mode=0%o ouid=%d ogid=%d rdev=00:00 obj=u:object_r:t%d:s0 nametype=%s", sec, seq, j, j, 11*(j+1), j+1, []int{0o100644, 0o41755, 0o100600, 0o40700}[j%4], 100+j, 200+j, j, nt)})
			}
			for _, x := range raws {
				if m, err := auparse.Parse(x.t, x.raw); err == nil {
					g.msgs = append(g.msgs, m)
					g.desc = append(g.desc, x.t.String())
				}
			}
			do(n+len(normTypes)*4+k, r, g)
			k++
		}
	}
}

// modeCache drives the id caches (the constructors' own, with scripted resolvers) and records every lookup with what
// the resolver answered when it was asked.  Time only matters through pauses longer than the expiration.
func modeCache(seed uint64, n int, out *sx.Out) {
	pauses := 0
	for i := 0; i < n; i++ {
		out.Begin(map[string]interface{}{"mode": "modeCache", "case": i})
		r := sx.Fork(seed^0xcac4e, uint64(i))
		cl, exp := "Never", time.Hour
		switch {
		case r.Chance(1, 3):
			cl, exp = "Always", -time.Second
		case pauses < 3 && r.Chance(1, 6):
			cl, exp = "AfterPause", time.Second
			pauses++
		}
		tick := 0
		var asked *string
		users, groups := aucoalesce.VerifEntityCaches(exp, func(cache, kind int, key string) string {
			v := ""
			if key != "" && key[0] != 'x' {
				v = fmt.Sprintf("n%d%d:%s.%d", cache, kind, key, tick)
			}
			asked = &v
			return v
		})
		caches := []*aucoalesce.EntityCache{users, groups}
		keys := []string{"0", "root", "1000", "1001", "alice", "staff", "x9", "xbob", "", "unset", "0 ", "7"}
		var ops, obs, returned []string
		paused := false
		// one scripted run per class of pauses: pin, hit, miss, hit, pause, then the pinned key (still pinned) and the cached one (expired)
		script := []int{}
		if cl == "AfterPause" && pauses == 1 {
			script = []int{1, 2, 3, 3, 4, 2, 3}
		}
		total := 6 + r.Intn(12)
		for k := 0; k < total+len(script); k++ {
			c := r.Intn(100)
			scripted := 0
			if k < len(script) {
				scripted = script[k]
			}
			if scripted == 1 {
				aucoalesce.VerifHardcode(caches[0], "1000", "alice")
				ops = append(ops, fmt.Sprintf("CHard %d %s %s", 0, cs("1000"), cs("alice")))
				obs = append(obs, "None")
				continue
			}
			if scripted == 4 {
				c = 15
			}
			switch {
			case c < 12 && scripted == 0:
				w, id, name := r.Intn(2), sx.Pick(r, []string{"1000", "7", "0", "1001"}), sx.Pick(r, []string{"alice", "staff", "root", "n00:1000.0"})
				aucoalesce.VerifHardcode(caches[w], id, name)
				ops = append(ops, fmt.Sprintf("CHard %d %s %s", w, cs(id), cs(name)))
				obs = append(obs, "None")
			case c < 20 && cl == "AfterPause" && !paused && (scripted == 0 || scripted == 4):
				paused = true
				time.Sleep(1300 * time.Millisecond)
				tick++
				ops = append(ops, "CPause")
				obs = append(obs, "None")
			default:
				w, kind, key := r.Intn(2), r.Intn(2), sx.Pick(r, keys)
				if len(returned) > 0 && r.Chance(1, 4) {
					// an answer given earlier, asked back (often in the other direction of the same cache: id -> name -> id)
					key = sx.Pick(r, returned)
				}
				if scripted == 2 {
					w, kind, key = 0, 0, "1000"
				} else if scripted == 3 {
					w, kind, key = 0, 0, "1001"
				}
				asked = nil
				var v string
				if kind == 0 {
					v = caches[w].LookupID(key)
				} else {
					v = caches[w].LookupName(key)
				}
				a := "None"
				if asked != nil {
					a = "(Some " + cs(*asked) + ")"
				}
				if v != "" {
					returned = append(returned, v)
				}
				ops = append(ops, fmt.Sprintf("CLookup %d %d %s", w, kind, cs(key)))
				obs = append(obs, fmt.Sprintf("(Some (%s, %s))", cs(v), a))
			}
		}
		out.Case(fmt.Sprintf("KCache (CCase %s [%s] [%s])", cl, strings.Join(ops, "; "), strings.Join(obs, "; ")),
			map[string]interface{}{"case": i, "expiration": exp.String(), "ops": len(ops)}, "id-cache/"+cl, true)
	}
}

func modeModes(out *sx.Out) {
	for mode := 0; mode < 65536; mode++ {
		sys, _ := auparse.Parse(auparse.AUDIT_SYSCALL, "audit(1.002:3): arch=c000003e syscall=2 success=yes exit=3 items=1 pid=1 auid=0 uid=0 comm=\"x\" exe=\"/x\" key=(null)")
		path, _ := auparse.Parse(auparse.AUDIT_PATH, fmt.Sprintf("audit(1.002:3): item=0 name=\"/p\" inode=5 dev=fd:01 mode=0%o ouid=7 ogid=8 rdev=00:00 nametype=NORMAL", mode))
		e, err := aucoalesce.CoalesceMessages([]*auparse.AuditMessage{sys, path})
		typ, fmode := "", ""
		if err == nil && e != nil {
			typ = e.Summary.Object.Type
			if e.File != nil {
				fmode = e.File.Mode
			}
		}
		out.Case(fmt.Sprintf("MCase %d %q %q", mode, typ, fmode), map[string]interface{}{"mode": fmt.Sprintf("0%o", mode), "object_type": typ, "file_mode": fmode}, "mode-sweep", true)
	}
}

func modeRace(seed uint64, n int) {
	var wg sync.WaitGroup
	for g := 0; g < 16; g++ {
		wg.Add(1)
		go func(g int) {
			defer wg.Done()
			r := sx.Fork(seed, uint64(g)+9<<32)
			for i := 0; i < n; i++ {
				// different events per goroutine (the property's clause); what is shared are the package's
				// normalisation tables and ID caches
				msgs := genGroup(r).msgs
				e, _, _ := coalesce(append([]*auparse.AuditMessage(nil), msgs...))
				if e != nil {
					aucoalesce.ResolveIDs(e)
				}
			}
		}(g)
	}
	wg.Wait()
	fmt.Println(`{"meta":{"race_runs":"done"}}`)
}

func main() {
	seed := flag.Uint64("seed", 1, "seed")
	n := flag.Int("n", 1000, "cases")
	mode := flag.String("mode", "events", "events | modes | race")
	flag.Parse()
	out := sx.NewOut(os.Stdout)
	defer out.Flush()
	// every record type that has a normalisation of its own can stand in front of a SYSCALL record
	_, rtn := aucoalesce.VerifNormalizations()
	names := make([]string, 0, len(rtn))
	for k := range rtn {
		names = append(names, k)
	}
	sort.Strings(names)
	for _, k := range names {
		if t, err := auparse.GetAuditMessageType(k); err == nil && t != auparse.AUDIT_SYSCALL && t != auparse.AUDIT_PATH && t != auparse.AUDIT_EXECVE && t != auparse.AUDIT_SOCKADDR && t != auparse.AUDIT_EOE {
			normTypes = append(normTypes, t)
		}
	}
	switch *mode {
	case "events":
		modeEvents(*seed, *n, out)
	case "cache":
		modeCache(*seed, *n, out)
	case "modes":
		modeModes(out)
	case "race":
		modeRace(*seed, *n)
	}
}
