// h_tables drives the name/number conversion functions of auparse for the C20
// correspondence: AuditMessageType.String / GetAuditMessageType / MarshalText /
// UnmarshalText on record types, and GetAuditMessageType on odd spellings.
package main

import (
	"encoding/hex"
	"flag"
	"fmt"
	"os"
	"strings"
	"sync"

	"verifharness/sx"

	"github.com/elastic/go-libaudit/v2/auparse"
)

func optN(t auparse.AuditMessageType, err error) string {
	if err != nil {
		return "None"
	}
	return fmt.Sprintf("(Some %d%%N)", uint16(t))
}

func hx(s string) string { return `(hx "` + hex.EncodeToString([]byte(s)) + `")` }

func main() {
	seed := flag.Uint64("seed", 1, "seed")
	n := flag.Int("n", 1500, "random record types")
	all := flag.Bool("all", false, "all 65536 record types")
	flag.Parse()
	out := sx.NewOut(os.Stdout)
	defer out.Flush()
	r := sx.NewRng(*seed)

	types := map[int]bool{}
	for t := range auparse.VerifMessageTypeToName() {
		types[int(t)] = true
	}
	for _, t := range []int{0, 1, 999, 1000, 1099, 1100, 2999, 3000, 65534, 65535} {
		types[t] = true
	}
	if *all {
		for t := 0; t < 65536; t++ {
			types[t] = true
		}
	} else {
		for i := 0; i < *n; i++ {
			types[r.Intn(65536)] = true
		}
	}
	named := 0
	for t := 0; t < 65536; t++ {
		if !types[t] {
			continue
		}
		ty := auparse.AuditMessageType(t)
		name := ty.String()
		back, err := auparse.GetAuditMessageType(name)
		text, _ := ty.MarshalText()
		// the bytes belong to the caller: scribbling over them must not change what the type marshals to next time
		first := string(text)
		for j := range text {
			text[j] = '#'
		}
		text, _ = ty.MarshalText()
		if string(text) != first {
			text = []byte(first + "|aliased|" + string(text))
		}
		var tb auparse.AuditMessageType
		err2 := tb.UnmarshalText(text)
		again := ty.String()
		if again != name {
			name = name + "|nondeterministic|" + again
		}
		cls := "unknown-form"
		if !strings.HasPrefix(name, "UNKNOWN[") {
			cls = "named"
			named++
		}
		out.Case(fmt.Sprintf("TyCase %d%%N %s %s %s %s", t, hx(name), optN(back, err), hx(string(text)), optN(tb, err2)),
			map[string]interface{}{"type": t, "name": name, "back": fmt.Sprint(back, err), "text": string(text)}, cls, true)
	}
	// the same conversions from eight goroutines at once (each its own stride of the codes): a conversion that goes through
	// state shared between calls shows up as a name or text that belongs to another code
	{
		type conv struct {
			t          int
			name, text string
			back, tb   auparse.AuditMessageType
			e1, e2     error
		}
		const G = 8
		res := make([][]conv, G)
		var wg sync.WaitGroup
		for g := 0; g < G; g++ {
			wg.Add(1)
			go func(g int) {
				defer wg.Done()
				for round := 0; round < 3; round++ {
					for t := g; t < 65536; t += G * 7 {
						ty := auparse.AuditMessageType(t)
						c := conv{t: t, name: ty.String()}
						c.back, c.e1 = auparse.GetAuditMessageType(c.name)
						text, _ := ty.MarshalText()
						c.text = string(text)
						c.e2 = c.tb.UnmarshalText(text)
						if round == 2 {
							res[g] = append(res[g], c)
						}
					}
				}
			}(g)
		}
		wg.Wait()
		for g := 0; g < G; g++ {
			for _, c := range res[g] {
				out.Case(fmt.Sprintf("TyCase %d%%N %s %s %s %s", c.t, hx(c.name), optN(c.back, c.e1), hx(c.text), optN(c.tb, c.e2)),
					map[string]interface{}{"type": c.t, "name": c.name, "text": c.text, "converted_by": "8 goroutines at once"}, "concurrent", true)
			}
		}
	}
	// odd spellings: case mixes, the two non-ASCII runes that upper-case to ASCII,
	// brackets, numerals with signs / leading zeros / overflow
	names := []string{"", "syscall", "SysCall", "ſyscall", "ıNTEGRITY_RULE", "UNKNOWN[", "UNKNOWN[]", "UNKNOWN[1]", "unknown[1300]",
		"UNKNOWN[65535]", "UNKNOWN[65536]", "UNKNOWN[+1]", "UNKNOWN[-1]", "UNKNOWN[007]", "UNKNOWN[1 ]", "X[12]Y", "]12[", "[[5]]", "[5][6]",
		"UNKNOWN[99999999999999999999]", "[0x10]", "[1_0]", "PATH ", " PATH", "path", "a[1]", "é[2]", "\xff[3]", "[4]\xff"}
	known := []string{}
	for nm := range auparse.VerifMessageNameToType() {
		known = append(known, nm)
	}
	for i := 0; i < 300 && len(known) > 0; i++ {
		nm := []byte(known[r.Intn(len(known))])
		for j := range nm {
			if r.Chance(1, 3) && nm[j] >= 'A' && nm[j] <= 'Z' {
				nm[j] += 32
			}
		}
		if r.Chance(1, 10) && len(nm) > 1 {
			nm = nm[:r.Intn(len(nm))]
		}
		names = append(names, string(nm))
	}
	for _, nm := range names {
		t, err := auparse.GetAuditMessageType(nm)
		out.Case(fmt.Sprintf("NameCase %s %s", hx(nm), optN(t, err)), map[string]interface{}{"name": nm, "result": fmt.Sprint(t, err)}, "spelling", err == nil)
	}
	out.Meta(map[string]interface{}{"record_types_driven": len(types), "record_types_named": named, "spellings_driven": len(names)})
}
