// h_client drives libaudit.AuditClient through its exported Netlink field with a
// simulated kernel that plays a generated script: transient receive failures,
// unsolicited (sequence 0) records, ACKs with any errno, replies with a foreign
// sequence, short payloads, send faults.  The simulated kernel reuses one
// receive buffer, like the real transport.  Nothing is judged here.
package main

import (
	"encoding/binary"
	"errors"
	"flag"
	"fmt"
	"io"
	"os"
	"strings"
	"sync"
	"sync/atomic"
	"syscall"
	"time"

	"verifharness/sx"

	libaudit "github.com/elastic/go-libaudit/v2"
)

type revent struct {
	kind  string // err, msg, none
	errno int
	ty    uint16
	seq   uint32
	data  []byte
}

func (e revent) coq() string {
	switch e.kind {
	case "err":
		return fmt.Sprintf("RErr %d", e.errno)
	case "msg":
		return fmt.Sprintf("RMsg %d %d %s", e.ty, e.seq, sx.Hx(e.data))
	}
	return "RNone"
}

type wire struct {
	ty, flags uint16
	seq       uint32
	data      []byte
}

type simKernel struct {
	script   []revent
	pos      int
	faults   []int // per Send: 0 = ok, else errno
	fpos     int
	seq      uint32
	buf      []byte
	sends    []wire
	closes   int32
	receives int
	slow     time.Duration // Send and Close take this long: overlapping Close calls really overlap
	mu       sync.Mutex
}

func (k *simKernel) Send(msg syscall.NetlinkMessage) (uint32, error) {
	if k.slow > 0 {
		time.Sleep(k.slow)
		k.mu.Lock()
		defer k.mu.Unlock()
	}
	k.seq++
	k.sends = append(k.sends, wire{msg.Header.Type, msg.Header.Flags, k.seq, append([]byte(nil), msg.Data...)})
	if k.fpos < len(k.faults) {
		f := k.faults[k.fpos]
		k.fpos++
		if f != 0 {
			return k.seq, syscall.Errno(f)
		}
	}
	return k.seq, nil
}

func (k *simKernel) Receive(nonBlocking bool, p libaudit.NetlinkParser) ([]syscall.NetlinkMessage, error) {
	k.receives++
	if k.pos >= len(k.script) {
		return nil, nil
	}
	e := k.script[k.pos]
	k.pos++
	switch e.kind {
	case "err":
		return nil, syscall.Errno(e.errno)
	case "none":
		return nil, nil
	}
	n := 16 + len(e.data)
	binary.LittleEndian.PutUint32(k.buf[0:], uint32(n))
	binary.LittleEndian.PutUint16(k.buf[4:], e.ty)
	binary.LittleEndian.PutUint16(k.buf[6:], 0)
	binary.LittleEndian.PutUint32(k.buf[8:], e.seq)
	binary.LittleEndian.PutUint32(k.buf[12:], 0)
	copy(k.buf[16:], e.data)
	return p(k.buf[:n])
}

func (k *simKernel) Close() error {
	if k.slow > 0 {
		time.Sleep(k.slow)
	}
	atomic.AddInt32(&k.closes, 1)
	return nil
}

func z(n int) string {
	if n < 0 {
		return fmt.Sprintf("(%d)", n)
	}
	return fmt.Sprint(n)
}

func classify(err error) string {
	if err == nil {
		return "ROk"
	}
	msg := err.Error()
	var en syscall.Errno
	hasErrno := errors.As(err, &en)
	switch {
	case msg == "rule exists":
		return "RFail ERuleExists"
	case strings.Contains(msg, "error receiving audit reply") && hasErrno:
		return fmt.Sprintf("RFail (ERecv %s)", z(int(en)))
	case strings.Contains(msg, "failed sending") && hasErrno:
		return fmt.Sprintf("RFail (ESend %s)", z(int(en)))
	case strings.Contains(msg, "no reply received"):
		return "RFail ENoReply"
	case strings.Contains(msg, "unexpected sequence number"):
		return "RFail ESeq"
	case strings.Contains(msg, "unexpected ACK"):
		return "RFail EAckType"
	case strings.Contains(msg, "data too short"):
		return "RFail EShort"
	case strings.Contains(msg, "unexpected reply to GET"), strings.Contains(msg, "unexpected message type"):
		return "RFail EReplyType"
	case errors.Is(err, io.ErrUnexpectedEOF):
		return "RFail EEOF"
	case hasErrno:
		return fmt.Sprintf("RFail (EErrno %s)", z(int(en)))
	}
	return "RFail EShort (* unclassified: " + strings.ReplaceAll(msg, "*)", "") + " *)"
}

type opT struct {
	kind   string
	data   []byte
	setter string
	v      uint32
	wait   bool
}

func (o opT) coq() string {
	switch o.kind {
	case "getstatus":
		return "OGetStatus"
	case "getrules":
		return "OGetRules"
	case "addrule":
		return "OAddRule " + sx.Hx(o.data)
	case "deleterule":
		return "ODeleteRule " + sx.Hx(o.data)
	case "deleterules":
		return "ODeleteRules"
	case "set":
		return fmt.Sprintf("OSet %s %d %v", o.setter, o.v, o.wait)
	case "waitacks":
		return "OWaitAcks"
	case "close":
		return "OClose"
	}
	return "OReceive"
}

func errnoBytes(errno int, extra []byte) []byte {
	b := make([]byte, 4)
	binary.LittleEndian.PutUint32(b, uint32(int32(-errno)))
	return append(b, extra...)
}

// errno values of ACKs: success, the usual refusals, and the ones Go's errors.Is treats as equivalent to another
// (ENOTEMPTY ~ EEXIST via os.ErrExist, EACCES ~ EPERM, ETIMEDOUT / EAGAIN via Timeout, EINTR / EMFILE / ENFILE via Temporary)
var errnos = []int{0, 0, 0, 0, 0, 0, 1, 2, 11, 13, 17, 22, 4095, 105, -3, 39, 110, 4, 24, 23, 16, 12, 28, 95, 133}

func rnd(r *sx.Rng, n int) []byte {
	b := make([]byte, n)
	for i := range b {
		b[i] = byte(r.Next())
	}
	return b
}

func noise(r *sx.Rng, out *[]revent, heavy bool) {
	k := r.Intn(3)
	if heavy {
		k = r.Intn(6)
	}
	for i := 0; i < k; i++ {
		c := r.Intn(100)
		switch {
		case c < 45:
			*out = append(*out, revent{kind: "msg", ty: uint16(1300 + r.Intn(30)), seq: 0, data: rnd(r, r.Intn(40))})
		case c < 85:
			n := 1 + r.Intn(3)
			if heavy && r.Chance(1, 2) {
				n = 1 + r.Intn(9)
				if r.Chance(1, 3) {
					n = 9
				}
			}
			for j := 0; j < n; j++ {
				*out = append(*out, revent{kind: "err", errno: 4})
			}
		default:
			*out = append(*out, revent{kind: "err", errno: 11})
		}
	}
}

func runCase(seed uint64, idx int) (string, map[string]interface{}, string, bool) {
	r := sx.Fork(seed, uint64(idx))
	nops := 1 + r.Intn(7)
	// long runs of NoWait setters on one client: the pending list grows well beyond anything a short history reaches
	long := r.Chance(1, 14)
	if long {
		nops = 35 + r.Intn(60)
	}
	var ops []opT
	var script []revent
	var faults []int
	seq := uint32(0)
	pendingSeqs := []uint32{}
	usedPID := false
	closed := false
	hostile := r.Chance(1, 5)
	setters := []string{"SRateLimit", "SBacklogLimit", "SEnabled", "SImmutable", "SFailure", "SBacklogWaitTime", "SPID"}
	vals := []uint32{0, 1, 2, 64, 8192, 0x7fffffff, 0x80000000, 0xffffffff, uint32(r.Next())}
	ack := func(q uint32) {
		noise(r, &script, hostile)
		e := sx.Pick(r, errnos)
		if r.Chance(1, 10) {
			e = 1 + r.Intn(133) // any errno
		}
		c := r.Intn(100)
		switch {
		case hostile && c < 8:
			script = append(script, revent{kind: "msg", ty: 2, seq: q + 1 + uint32(r.Intn(3)), data: errnoBytes(0, nil)}) // foreign sequence
		case hostile && c < 12:
			script = append(script, revent{kind: "msg", ty: 2, seq: q, data: rnd(r, r.Intn(4))}) // short payload
		case hostile && c < 16:
			script = append(script, revent{kind: "msg", ty: 3, seq: q, data: errnoBytes(0, nil)}) // not an ACK
		case hostile && c < 19:
			script = append(script, revent{kind: "err", errno: 105})
		case hostile && c < 22:
			for j := 0; j < 10; j++ {
				script = append(script, revent{kind: "err", errno: 4})
			}
			script = append(script, revent{kind: "msg", ty: 2, seq: q, data: errnoBytes(e, rnd(r, 16))})
		default:
			script = append(script, revent{kind: "msg", ty: 2, seq: q, data: errnoBytes(e, rnd(r, r.Intn(24)))})
		}
	}
	for i := 0; i < nops; i++ {
		c := r.Intn(100)
		fault := 0
		if long && !r.Chance(1, 12) {
			c = 60 // a setter
		}
		if r.Chance(1, 25) {
			fault = sx.Pick(r, []int{1, 90, 105})
		}
		var o opT
		switch {
		case c < 14:
			o = opT{kind: "getstatus"}
		case c < 26:
			o = opT{kind: "getrules"}
		case c < 36:
			o = opT{kind: "addrule", data: rnd(r, 4*r.Intn(8))}
		case c < 46:
			o = opT{kind: "deleterule", data: rnd(r, 4*r.Intn(8))}
		case c < 52:
			o = opT{kind: "deleterules"}
		case c < 80:
			o = opT{kind: "set", setter: sx.Pick(r, setters), v: sx.Pick(r, vals), wait: r.Chance(1, 2)}
			if long {
				o.wait = r.Chance(1, 20)
			}
		case c < 90:
			o = opT{kind: "waitacks"}
		case c < 96:
			o = opT{kind: "close"}
		default:
			o = opT{kind: "receive"}
		}
		ops = append(ops, o)
		// what the kernel will answer
		switch o.kind {
		case "getstatus", "getrules", "addrule", "deleterule", "deleterules":
			seq++
			faults = append(faults, fault)
			if fault != 0 {
				break
			}
			ack(seq)
			if o.kind == "getstatus" {
				noise(r, &script, hostile)
				n := sx.Pick(r, []int{44, 44, 44, 40, 36, 32, 48, 60, 31, 28, 0})
				ty := uint16(1000)
				if hostile && r.Chance(1, 10) {
					ty = 1001
				}
				script = append(script, revent{kind: "msg", ty: ty, seq: seq, data: rnd(r, n)})
			}
			if o.kind == "getrules" || o.kind == "deleterules" {
				nr := r.Intn(4)
				for j := 0; j < nr; j++ {
					noise(r, &script, hostile)
					script = append(script, revent{kind: "msg", ty: 1013, seq: seq, data: rnd(r, 8+4*r.Intn(6))})
				}
				noise(r, &script, hostile)
				if hostile && r.Chance(1, 10) {
					script = append(script, revent{kind: "msg", ty: 1300, seq: seq, data: nil})
				} else {
					script = append(script, revent{kind: "msg", ty: 3, seq: seq, data: nil})
				}
				if o.kind == "deleterules" {
					for j := 0; j < nr; j++ {
						seq++
						faults = append(faults, 0)
						ack(seq)
					}
				}
			}
		case "set":
			seq++
			faults = append(faults, fault)
			if o.setter == "SPID" {
				usedPID = true
			}
			if fault != 0 {
				break
			}
			if o.wait {
				ack(seq)
			} else {
				pendingSeqs = append(pendingSeqs, seq)
			}
		case "waitacks":
			for _, q := range pendingSeqs {
				ack(q)
			}
			pendingSeqs = nil
		case "close":
			if !closed && usedPID {
				seq++
				faults = append(faults, fault)
				if fault == 0 {
					pendingSeqs = append(pendingSeqs, seq)
				}
			}
			closed = true
		case "receive":
			noise(r, &script, false)
			script = append(script, revent{kind: "msg", ty: uint16(1300 + r.Intn(30)), seq: 0, data: rnd(r, r.Intn(60))})
		}
	}
	if r.Chance(1, 3) {
		noise(r, &script, false)
	}
	// EAGAIN costs a real 50 ms sleep each: keep at most three per case
	eagain := 0
	for i := range script {
		if script[i].kind == "err" && script[i].errno == 11 {
			eagain++
			if eagain > 3 {
				script[i].errno = 4
			}
		}
	}

	k := &simKernel{script: script, faults: faults, buf: make([]byte, 16+9000)}
	c := &libaudit.AuditClient{Netlink: k}
	type outc struct {
		res      string
		sends    []wire
		closed   bool
		consumed int
		rules    [][]byte
	}
	outs := make([]outc, len(ops))
	var text []string
	for i, o := range ops {
		s0, r0, c0 := len(k.sends), k.pos, atomic.LoadInt32(&k.closes)
		var res string
		func() {
			defer func() {
				if p := recover(); p != nil {
					res = "RPanicked"
				}
			}()
			switch o.kind {
			case "getstatus":
				st, err := c.GetStatus()
				if err == nil {
					res = fmt.Sprintf("RStatus [%d; %d; %d; %d; %d; %d; %d; %d; %d; %d; %d]", uint32(st.Mask), st.Enabled, st.Failure, st.PID, st.RateLimit,
						st.BacklogLimit, st.Lost, st.Backlog, st.FeatureBitmap, st.BacklogWaitTime, st.BacklogWaitTimeActual)
				} else {
					res = classify(err)
				}
			case "getrules":
				rules, err := c.GetRules()
				if err == nil {
					outs[i].rules = rules
					res = "RULES"
				} else {
					res = classify(err)
				}
			case "addrule":
				res = classify(c.AddRule(o.data))
			case "deleterule":
				res = classify(c.DeleteRule(o.data))
			case "deleterules":
				n, err := c.DeleteRules()
				if err == nil {
					res = fmt.Sprintf("RCount %d", n)
				} else {
					res = classify(err)
				}
			case "set":
				wm := libaudit.NoWait
				if o.wait {
					wm = libaudit.WaitForReply
				}
				var err error
				switch o.setter {
				case "SRateLimit":
					err = c.SetRateLimit(o.v, wm)
				case "SBacklogLimit":
					err = c.SetBacklogLimit(o.v, wm)
				case "SEnabled":
					err = c.SetEnabled(o.v != 0, wm)
				case "SImmutable":
					err = c.SetImmutable(wm)
				case "SFailure":
					err = c.SetFailure(libaudit.FailureMode(o.v), wm)
				case "SBacklogWaitTime":
					err = c.SetBacklogWaitTime(int32(o.v), wm)
				case "SPID":
					err = c.SetPID(wm)
				}
				res = classify(err)
			case "waitacks":
				res = classify(c.WaitForPendingACKs())
			case "close":
				res = classify(c.Close())
			case "receive":
				m, err := c.Receive(false)
				if err == nil {
					res = fmt.Sprintf("RRaw %d %s", uint16(m.Type), sx.Hx(m.Data))
				} else if strings.Contains(err.Error(), "index out of range") {
					res = "RFail ENoReply"
				} else {
					var en syscall.Errno
					if errors.As(err, &en) {
						res = fmt.Sprintf("RFail (ERecv %s)", z(int(en)))
					} else {
						res = classify(err)
					}
				}
			}
		}()
		outs[i].res = res
		outs[i].sends = k.sends[s0:]
		outs[i].consumed = k.pos - r0
		outs[i].closed = atomic.LoadInt32(&k.closes) != c0
		text = append(text, o.coq()+" -> "+res)
	}
	// rule data is read back only now, after all later traffic went through the shared buffer
	obs := make([]string, len(outs))
	pidv := uint32(os.Getpid())
	for i, oc := range outs {
		res := oc.res
		if res == "RULES" {
			parts := make([]string, len(oc.rules))
			for j, rb := range oc.rules {
				parts[j] = sx.Hx(rb)
			}
			res = "RRules [" + strings.Join(parts, "; ") + "]"
		}
		ws := make([]string, len(oc.sends))
		for j, w := range oc.sends {
			ws[j] = fmt.Sprintf("(%d, %d, %s)", w.ty, w.flags, sx.Hx(w.data))
		}
		obs[i] = fmt.Sprintf("(%s, [%s], %v, %d)", res, strings.Join(ws, "; "), oc.closed, oc.consumed)
	}
	sc := make([]string, len(script))
	for i, e := range script {
		sc[i] = e.coq()
	}
	fs := make([]string, len(faults))
	for i, f := range faults {
		if f == 0 {
			fs[i] = "None"
		} else {
			fs[i] = fmt.Sprintf("(Some %d%%Z)", f)
		}
	}
	oc := make([]string, len(ops))
	for i, o := range ops {
		oc[i] = o.coq()
	}
	coq := fmt.Sprintf("KCase %d [%s] [%s] [%s] [%s]", pidv, strings.Join(sc, "; "), strings.Join(fs, "; "), strings.Join(oc, "; "), strings.Join(obs, "; "))
	cls := "in-fault-model"
	if hostile {
		cls = "hostile"
	}
	return coq, map[string]interface{}{"case": idx, "ops": strings.Join(text, " | "), "script_len": len(script), "class": cls}, cls, len(script) > 2
}

// closeStorm: N goroutines call Close at once on one client; exactly one socket close.
func closeStorm(seed uint64, idx int) (string, map[string]interface{}, string, bool) {
	r := sx.Fork(seed^0xc105e, uint64(idx))
	k := &simKernel{buf: make([]byte, 16+9000)}
	c := &libaudit.AuditClient{Netlink: k}
	usedPID := r.Chance(1, 2)
	var mu sync.Mutex
	_ = mu
	if usedPID {
		c.SetPID(libaudit.NoWait)
	}
	n := 4 + r.Intn(12)
	if r.Chance(1, 2) {
		// a socket whose Send and Close take a while: the second Close starts while the first is still inside them
		k.slow = 15 * time.Millisecond
		n = 3 + r.Intn(3)
	}
	var wg sync.WaitGroup
	gate := make(chan struct{})
	for i := 0; i < n; i++ {
		wg.Add(1)
		go func() { defer wg.Done(); <-gate; c.Close() }()
	}
	close(gate)
	wg.Wait()
	c.Close()
	sends := len(k.sends)
	return fmt.Sprintf("KStorm %v %d %d", usedPID, atomic.LoadInt32(&k.closes), sends),
		map[string]interface{}{"case": idx, "mode": "concurrent-close", "goroutines": n, "set_pid": usedPID, "socket_closes": k.closes, "sends": sends}, "close-storm", true
}

func main() {
	seed := flag.Uint64("seed", 1, "seed")
	n := flag.Int("n", 1500, "cases")
	storm := flag.Int("storm", 100, "concurrent close cases")
	only := flag.Int("only", -1, "only this case")
	flag.Parse()
	out := sx.NewOut(os.Stdout)
	defer out.Flush()
	lo, hi := 0, *n
	if *only >= 0 {
		lo, hi = *only, *only+1
	}
	type res struct {
		c  string
		d  map[string]interface{}
		cl string
		nt bool
	}
	results := make([]res, hi-lo)
	var wg sync.WaitGroup
	sem := make(chan struct{}, 32)
	for i := lo; i < hi; i++ {
		wg.Add(1)
		sem <- struct{}{}
		go func(i int) {
			defer wg.Done()
			defer func() { <-sem }()
			c, d, cl, nt := runCase(*seed, i)
			results[i-lo] = res{c, d, cl, nt}
		}(i)
	}
	wg.Wait()
	for _, r := range results {
		out.Case(r.c, r.d, r.cl, r.nt)
	}
	for i := 0; i < *storm; i++ {
		c, d, cl, nt := closeStorm(*seed, i)
		out.Case(c, d, cl, nt)
	}
	if *only < 0 {
		out.Case(fmt.Sprintf("KConsts %d %d %d", uint32(libaudit.SilentOnFailure), uint32(libaudit.LogOnFailure), uint32(libaudit.PanicOnFailure)),
			map[string]interface{}{"SilentOnFailure": uint32(libaudit.SilentOnFailure), "LogOnFailure": uint32(libaudit.LogOnFailure), "PanicOnFailure": uint32(libaudit.PanicOnFailure)}, "constants", true)
	}
	// AuditStatus.FromWireFormat on buffers of every length 0..80 (three fillings each)
	rw := sx.NewRng(*seed ^ 0x77)
	for l := 0; l <= 80 && *only < 0; l++ {
		for rep := 0; rep < 3; rep++ {
			buf := rnd(rw, l)
			if rep == 0 {
				for i := range buf {
					buf[i] = 0xff
				}
			}
			// a receiver that was used before: every byte set, so that anything the decoder leaves alone shows
			const ff = 0xffffffff
			st := libaudit.AuditStatus{Mask: ff, Enabled: ff, Failure: ff, PID: ff, RateLimit: ff, BacklogLimit: ff, Lost: ff, Backlog: ff, FeatureBitmap: ff, BacklogWaitTime: ff, BacklogWaitTimeActual: ff}
			var err error
			func() {
				// a panic is an answer no buffer may get ("(Some [])" is what the judge reads as a wrong error or worse)
				defer func() {
					if p := recover(); p != nil {
						err = fmt.Errorf("PANIC: %v", p)
					}
				}()
				err = st.FromWireFormat(buf)
			}()
			res := "None"
			if err == nil {
				res = fmt.Sprintf("(Some [%d; %d; %d; %d; %d; %d; %d; %d; %d; %d; %d])", uint32(st.Mask), st.Enabled, st.Failure, st.PID, st.RateLimit,
					st.BacklogLimit, st.Lost, st.Backlog, st.FeatureBitmap, st.BacklogWaitTime, st.BacklogWaitTimeActual)
			} else if !errors.Is(err, io.ErrUnexpectedEOF) {
				res = "(Some [])"
			}
			out.Case(fmt.Sprintf("KWire %s %s", sx.Hx(buf), res), map[string]interface{}{"from_wire_format_len": l, "err": fmt.Sprint(err)}, "from-wire", l >= 32)
		}
	}
}
