// h_conc forces schedules on libaudit.Reassembler through the verif yield hook:
// every thread parks at each yield point and a controller grants one step at a
// time, so an execution is a list of thread ids — exactly a schedule of
// Model/ReasmConc.v.  A thread that does not reach its next park within the
// deadline is reported as a deadlock.
package main

import (
	"flag"
	"fmt"
	"os"
	"runtime"
	"strings"
	"sync"
	"sync/atomic"
	"time"

	"verifharness/sx"

	libaudit "github.com/elastic/go-libaudit/v2"
	"github.com/elastic/go-libaudit/v2/auparse"
)

type call struct {
	kind string // push, maintain, close
	mid  int
	seq  uint32
	typ  int
}

func (c call) coq() string {
	switch c.kind {
	case "push":
		return fmt.Sprintf("CPush (mk %d %d %d)", c.mid, c.seq, c.typ)
	case "maintain":
		return "CMaintain"
	}
	return "CClose"
}

type thread struct {
	id       int
	grant    chan struct{}
	parked   chan string
	finished chan struct{}
	done     bool
}

type world struct {
	ra   *libaudit.Reassembler
	cur  *thread
	log  []string
	text []string
	ids  map[*auparse.AuditMessage]call
	spec map[int][]call
}

func (w *world) park(point string) {
	t := w.cur
	t.parked <- point
	<-t.grant
}

func (w *world) msgCoq(m *auparse.AuditMessage) string {
	if c, ok := w.ids[m]; ok {
		return fmt.Sprintf("(mk %d %d %d)", c.mid, m.Sequence, int(m.RecordType))
	}
	return "(mk (-1) (-1) (-1))"
}

func (w *world) invoke(c call) {
	t := w.cur
	w.log = append(w.log, fmt.Sprintf("oStart %d (%s)", t.id, c.coq()))
	ok := true
	func() {
		// a panic inside the call is an observation (oPanic), not the end of the harness
		defer func() {
			if p := recover(); p != nil {
				w.log = append(w.log, fmt.Sprintf("oPanic %d", t.id))
				w.text = append(w.text, fmt.Sprintf("t%d:%s PANIC %v", t.id, c.kind, p))
				w.cur = t
			}
		}()
		switch c.kind {
		case "push":
			m := &auparse.AuditMessage{RecordType: auparse.AuditMessageType(c.typ), Sequence: c.seq}
			w.ids[m] = c
			w.ra.PushMessage(m)
		case "maintain":
			ok = w.ra.Maintain() == nil
		case "close":
			ok = w.ra.Close() == nil
		}
	}()
	w.park("R")
	w.log = append(w.log, fmt.Sprintf("oRet %d (%s) %v", t.id, c.coq(), ok))
	w.text = append(w.text, fmt.Sprintf("t%d:%s->%v", t.id, c.kind, ok))
}

func (w *world) ReassemblyComplete(msgs []*auparse.AuditMessage) {
	t := w.cur
	parts := make([]string, len(msgs))
	for i, m := range msgs {
		parts[i] = w.msgCoq(m)
	}
	w.log = append(w.log, fmt.Sprintf("oComplete %d [%s]", t.id, strings.Join(parts, "; ")))
	if len(msgs) > 0 {
		w.text = append(w.text, fmt.Sprintf("t%d:deliver(seq=%d,n=%d)", t.id, msgs[0].Sequence, len(msgs)))
		if c, ok := w.ids[msgs[0]]; ok {
			for _, rc := range w.spec[c.mid] {
				w.park("B")
				w.invoke(rc)
			}
		}
	}
}

func (w *world) EventsLost(n int) {
	w.log = append(w.log, fmt.Sprintf("oLost %d (%d)", w.cur.id, n))
}

func runCase(seed uint64, idx int) (string, map[string]interface{}, string, bool) {
	r := sx.Fork(seed, uint64(idx))
	nth := 2 + r.Intn(2)
	maxSize := sx.Pick(r, []int{0, 1, 2, 5})
	timeout := time.Hour
	if r.Chance(1, 4) {
		timeout = -time.Second
	}
	mid := 0
	base := sx.Pick(r, []uint32{0, 100, 0xFFFFFFFE})
	newCall := func(allowClose bool) call {
		k := r.Intn(100)
		switch {
		case k < 60:
			c := call{kind: "push", mid: mid, seq: base + uint32(r.Intn(4)), typ: sx.Pick(r, []int{1300, 1300, 1302, 1320, 1327, 1100})}
			mid++
			return c
		case k < 75 || !allowClose:
			return call{kind: "maintain"}
		}
		return call{kind: "close"}
	}
	progs := make([][]call, nth)
	for t := range progs {
		n := 1 + r.Intn(3)
		for i := 0; i < n; i++ {
			progs[t] = append(progs[t], newCall(true))
		}
	}
	// targeted windows: a scripted schedule prefix (thread, run until it parks at this point), then random steps as usual.
	// The windows are those between Maintain's / Push's read of the closed flag and its CleanUp, with Close's CAS in between and
	// something evictable put there by a push still in flight (a completing EOE, or one event too many).
	type directive struct {
		t     int
		until string
	}
	var script []directive
	scripted := r.Chance(1, 6)
	if scripted {
		nth, timeout, mid = 3, time.Hour, 3
		maxSize = sx.Pick(r, []int{5, 1})
		first := call{kind: "push", mid: 0, seq: base, typ: 1300}
		inflight := call{kind: "push", mid: 1, seq: base, typ: 1320} // completes the first event
		if maxSize == 1 {
			inflight = call{kind: "push", mid: 1, seq: base + 1, typ: 1300} // one event too many
		}
		switch r.Intn(3) {
		case 0: // Maintain read the flag, Close does its CAS, the in-flight push has put its message, Maintain cleans up
			progs = [][]call{{first, {kind: "close"}}, {inflight}, {{kind: "maintain"}}}
			script = []directive{{0, "A"}, {2, "maintain:cleanup"}, {0, "close:clear"}, {1, "push:cleanup"}, {2, "A"}}
		case 1: // the same with the in-flight push cleaning up itself after Close's CAS
			progs = [][]call{{first}, {inflight}, {{kind: "close"}}}
			script = []directive{{0, "A"}, {1, "push:cleanup"}, {2, "close:clear"}, {1, "A"}}
		default: // Maintain between Close's CAS and Clear
			progs = [][]call{{first}, {{kind: "close"}}, {inflight, {kind: "maintain"}}}
			script = []directive{{0, "A"}, {2, "push:cleanup"}, {1, "close:clear"}, {2, "A"}, {2, "A"}}
		}
	}
	spec := map[int][]call{}
	var specCoq []string
	if !scripted && mid > 0 && r.Chance(1, 2) {
		for k := 0; k < 1+r.Intn(2); k++ {
			on := r.Intn(mid)
			if _, dup := spec[on]; dup {
				continue
			}
			var cs []call
			for i := 0; i < 1+r.Intn(2); i++ {
				cs = append(cs, newCall(true))
			}
			spec[on] = cs
		}
	}
	for on, cs := range spec {
		parts := make([]string, len(cs))
		for i, c := range cs {
			parts[i] = c.coq()
		}
		specCoq = append(specCoq, fmt.Sprintf("(%d, [%s])", on, strings.Join(parts, "; ")))
	}

	w := &world{ids: map[*auparse.AuditMessage]call{}, spec: spec}
	ra, err := libaudit.NewReassembler(maxSize, timeout, w)
	if err != nil {
		panic(err)
	}
	w.ra = ra
	libaudit.VerifYieldHook = func(p string) { w.park(p) }
	threads := make([]*thread, nth)
	for t := range threads {
		th := &thread{id: t, grant: make(chan struct{}), parked: make(chan string, 1), finished: make(chan struct{})}
		threads[t] = th
		w.cur = th
		prog := progs[t]
		go func() {
			for _, c := range prog {
				w.park("A")
				w.park("B")
				w.invoke(c)
			}
			close(th.finished)
		}()
		<-th.parked // initial park at "A" (or finished for an empty program)
	}
	var sched []string
	deadlock := false
	step := func(th *thread) string {
		if th.done || deadlock {
			return "done"
		}
		w.cur = th
		th.grant <- struct{}{}
		select {
		case p := <-th.parked:
			return p
		case <-th.finished:
			th.done = true
		case <-time.After(2 * time.Second):
			deadlock = true
			w.log = append(w.log, fmt.Sprintf("oDeadlock %d", th.id))
		}
		return "done"
	}
	for _, d := range script {
		for k := 0; k < 40 && !threads[d.t].done && !deadlock; k++ {
			sched = append(sched, fmt.Sprint(d.t))
			if step(threads[d.t]) == d.until {
				break
			}
		}
	}
	steps := 8 + r.Intn(40)
	for i := 0; i < steps && !deadlock; i++ {
		t := r.Intn(nth)
		// bias: sometimes run one thread for a burst
		burst := 1
		if r.Chance(1, 5) {
			burst = 1 + r.Intn(6)
		}
		for b := 0; b < burst; b++ {
			sched = append(sched, fmt.Sprint(t))
			step(threads[t])
		}
	}
	// drain: run every thread to completion, round robin
	finished := true
	for guard := 0; guard < 2000 && !deadlock; guard++ {
		all := true
		for _, th := range threads {
			if !th.done {
				all = false
				sched = append(sched, fmt.Sprint(th.id))
				step(th)
			}
		}
		if all {
			break
		}
	}
	for _, th := range threads {
		if !th.done {
			finished = false
		}
	}
	libaudit.VerifYieldHook = nil
	progCoq := make([]string, nth)
	for t, p := range progs {
		parts := make([]string, len(p))
		for i, c := range p {
			parts[i] = c.coq()
		}
		progCoq[t] = "[" + strings.Join(parts, "; ") + "]"
	}
	coq := fmt.Sprintf("cCase %d (%d) [%s] [%s] [%s] %v [%s]", maxSize, int64(timeout), strings.Join(specCoq, "; "),
		strings.Join(progCoq, "; "), strings.Join(sched, "; "), finished, strings.Join(w.log, "; "))
	desc := map[string]interface{}{"case": idx, "threads": nth, "maxInFlight": maxSize, "timeout": timeout.String(),
		"reentrant_callbacks": len(spec), "schedule": strings.Join(sched, ""), "log": strings.Join(w.text, " "), "deadlock": deadlock}
	cls := fmt.Sprintf("threads=%d/reentrant=%v", nth, len(spec) > 0)
	if scripted {
		cls = "scripted-window/" + cls
	}
	return coq, desc, cls, len(w.log) > 4
}

// stress runs a program with really concurrent goroutines (no forced schedule):
// only the property's checker applies to the recorded log.
type sworld struct {
	mu  sync.Mutex
	log []string
	ids sync.Map
}

func (w *sworld) add(s string) { w.mu.Lock(); w.log = append(w.log, s); w.mu.Unlock() }
func (w *sworld) ReassemblyComplete(msgs []*auparse.AuditMessage) {
	parts := make([]string, len(msgs))
	for i, m := range msgs {
		if c, ok := w.ids.Load(m); ok {
			parts[i] = fmt.Sprintf("(mk %d %d %d)", c.(call).mid, m.Sequence, int(m.RecordType))
		} else {
			parts[i] = "(mk (-1) (-1) (-1))"
		}
	}
	w.add(fmt.Sprintf("oComplete 0 [%s]", strings.Join(parts, "; ")))
}
func (w *sworld) EventsLost(n int) { w.add(fmt.Sprintf("oLost 0 (%d)", n)) }

func stressCase(seed uint64, idx int) (string, map[string]interface{}, string, bool) {
	r := sx.Fork(seed^0x5eed, uint64(idx))
	nth := 4 + r.Intn(5)
	maxSize := sx.Pick(r, []int{0, 1, 2, 5})
	w := &sworld{}
	ra, _ := libaudit.NewReassembler(maxSize, time.Hour, w)
	mid := 0
	progs := make([][]call, nth)
	closers := 0
	for t := range progs {
		n := 1 + r.Intn(4)
		for i := 0; i < n; i++ {
			k := r.Intn(100)
			switch {
			case k < 55:
				progs[t] = append(progs[t], call{kind: "push", mid: mid, seq: uint32(r.Intn(6)), typ: sx.Pick(r, []int{1300, 1302, 1320, 1327})})
				mid++
			case k < 65:
				progs[t] = append(progs[t], call{kind: "maintain"})
			default:
				progs[t] = append(progs[t], call{kind: "close"})
				closers++
			}
		}
	}
	var wg sync.WaitGroup
	startGate := make(chan struct{})
	for t := range progs {
		wg.Add(1)
		go func(t int) {
			defer wg.Done()
			<-startGate
			for _, c := range progs[t] {
				w.add(fmt.Sprintf("oStart %d (%s)", t, c.coq()))
				ok := true
				func() {
					defer func() {
						if p := recover(); p != nil {
							w.add(fmt.Sprintf("oPanic %d", t))
						}
					}()
					switch c.kind {
					case "push":
						m := &auparse.AuditMessage{RecordType: auparse.AuditMessageType(c.typ), Sequence: c.seq}
						w.ids.Store(m, c)
						ra.PushMessage(m)
					case "maintain":
						ok = ra.Maintain() == nil
					case "close":
						ok = ra.Close() == nil
					}
				}()
				w.add(fmt.Sprintf("oRet %d (%s) %v", t, c.coq(), ok))
			}
		}(t)
	}
	close(startGate)
	done := make(chan struct{})
	go func() { wg.Wait(); close(done) }()
	finished := true
	select {
	case <-done:
	case <-time.After(5 * time.Second):
		finished = false
		w.add("oDeadlock 0")
	}
	w.mu.Lock()
	log := append([]string(nil), w.log...)
	w.mu.Unlock()
	coq := fmt.Sprintf("CStress %v [%s]", finished, strings.Join(log, "; "))
	desc := map[string]interface{}{"case": idx, "mode": "stress", "goroutines": nth, "calls": mid, "close_calls": closers, "maxInFlight": maxSize}
	return coq, desc, fmt.Sprintf("stress/goroutines=%d", nth), len(log) > 4
}

// stormCase releases many goroutines at once, all calling Close (and one
// pushing), to hit the window between the read and the write of the closed flag.
func stormCase(seed uint64, idx int) (string, map[string]interface{}, string, bool) {
	r := sx.Fork(seed^0x5707, uint64(idx))
	nth := 8 + r.Intn(9)
	w := &sworld{}
	ra, _ := libaudit.NewReassembler(5, time.Hour, w)
	pre := 1 + r.Intn(3)
	for i := 0; i < pre; i++ {
		c := call{kind: "push", mid: i, seq: uint32(i), typ: 1300}
		m := &auparse.AuditMessage{RecordType: 1300, Sequence: uint32(i)}
		w.ids.Store(m, c)
		w.add(fmt.Sprintf("oStart 0 (%s)", c.coq()))
		ra.PushMessage(m)
		w.add(fmt.Sprintf("oRet 0 (%s) true", c.coq()))
	}
	var ready, goFlag int32
	results := make([]bool, nth)
	var wg sync.WaitGroup
	for t := 0; t < nth; t++ {
		wg.Add(1)
		go func(t int) {
			defer wg.Done()
			atomic.AddInt32(&ready, 1)
			for atomic.LoadInt32(&goFlag) == 0 {
			}
			defer func() {
				if p := recover(); p != nil {
					w.add(fmt.Sprintf("oPanic %d", t))
				}
			}()
			results[t] = ra.Close() == nil
		}(t)
	}
	for atomic.LoadInt32(&ready) < int32(nth) {
		runtime.Gosched()
	}
	for t := 0; t < nth; t++ {
		w.add(fmt.Sprintf("oStart %d (CClose)", t))
	}
	atomic.StoreInt32(&goFlag, 1)
	wg.Wait()
	for t := 0; t < nth; t++ {
		w.add(fmt.Sprintf("oRet %d (CClose) %v", t, results[t]))
	}
	coq := fmt.Sprintf("CStress true [%s]", strings.Join(w.log, "; "))
	return coq, map[string]interface{}{"case": idx, "mode": "close-storm", "goroutines": nth, "buffered": pre}, "storm", true
}

// lateCase: events are buffered one after the other, then Close runs against a handful of late pushes (sequence numbers
// below everything buffered, records that complete nothing).  Whatever the interleaving, what was pushed before Close
// was invoked must come out exactly once; a flush that lets the list go between two of its steps can lose all of it.
func lateCase(seed uint64, idx int) (string, map[string]interface{}, string, bool) {
	r := sx.Fork(seed^0x1a7e, uint64(idx))
	w := &sworld{}
	ra, _ := libaudit.NewReassembler(50, time.Hour, w)
	pre := 2 + r.Intn(6)
	mid := 0
	for i := 0; i < pre; i++ {
		c := call{kind: "push", mid: mid, seq: uint32(100 + i), typ: 1300}
		mid++
		m := &auparse.AuditMessage{RecordType: 1300, Sequence: c.seq}
		w.ids.Store(m, c)
		w.add(fmt.Sprintf("oStart 0 (%s)", c.coq()))
		ra.PushMessage(m)
		w.add(fmt.Sprintf("oRet 0 (%s) true", c.coq()))
	}
	late := 2 + r.Intn(4)
	calls := make([]call, late)
	for g := range calls {
		calls[g] = call{kind: "push", mid: mid, seq: uint32(10 + g), typ: 1300}
		mid++
	}
	var ready, goFlag int32
	var wg sync.WaitGroup
	run := func(t int, f func()) {
		wg.Add(1)
		go func() {
			defer wg.Done()
			defer func() {
				if p := recover(); p != nil {
					w.add(fmt.Sprintf("oPanic %d", t))
				}
			}()
			atomic.AddInt32(&ready, 1)
			for atomic.LoadInt32(&goFlag) == 0 {
			}
			f()
		}()
	}
	closeOK := false
	run(1, func() {
		w.add("oStart 1 (CClose)")
		closeOK = ra.Close() == nil
	})
	for g := range calls {
		g := g
		run(2+g, func() {
			c := calls[g]
			m := &auparse.AuditMessage{RecordType: 1300, Sequence: c.seq}
			w.ids.Store(m, c)
			w.add(fmt.Sprintf("oStart %d (%s)", 2+g, c.coq()))
			ra.PushMessage(m)
			w.add(fmt.Sprintf("oRet %d (%s) true", 2+g, c.coq()))
		})
	}
	for atomic.LoadInt32(&ready) < int32(late+1) {
		runtime.Gosched()
	}
	atomic.StoreInt32(&goFlag, 1)
	wg.Wait()
	w.add(fmt.Sprintf("oRet 1 (CClose) %v", closeOK))
	coq := fmt.Sprintf("CStress true [%s]", strings.Join(w.log, "; "))
	return coq, map[string]interface{}{"case": idx, "mode": "close-against-late-pushes", "buffered": pre, "late_pushes": late}, "late-push-vs-close", true
}

func main() {
	late := flag.Int("late", 0, "number of close-against-late-pushes cases")
	stress := flag.Int("stress", 0, "number of really concurrent (unscheduled) cases")
	storm := flag.Int("storm", 0, "number of close-storm cases")
	seed := flag.Uint64("seed", 1, "seed")
	n := flag.Int("n", 600, "cases")
	only := flag.Int("only", -1, "only this case")
	flag.Parse()
	out := sx.NewOut(os.Stdout)
	defer out.Flush()
	lo, hi := 0, *n
	if *only >= 0 {
		lo, hi = *only, *only+1
	}
	for i := lo; i < hi; i++ {
		out.Begin(map[string]interface{}{"mode": "scheduled", "case": i, "seed": *seed}) // a fatal runtime error (concurrent map access) ends the process: the case is then the failing input
		c, d, cl, nt := runCase(*seed, i)
		out.Case(c, d, cl, nt)
	}
	for i := 0; i < *stress; i++ {
		out.Begin(map[string]interface{}{"mode": "stress", "case": i, "seed": *seed}) // a fatal runtime error (concurrent map access) ends the process: the case is then the failing input
		c, d, cl, nt := stressCase(*seed, i)
		out.Case(c, d, cl, nt)
	}
	for i := 0; i < *late; i++ {
		out.Begin(map[string]interface{}{"mode": "close-against-late-pushes", "case": i, "seed": *seed}) // a fatal runtime error (concurrent map access) ends the process: the case is then the failing input
		c, d, cl, nt := lateCase(*seed, i)
		out.Case(c, d, cl, nt)
	}
	for i := 0; i < *storm; i++ {
		out.Begin(map[string]interface{}{"mode": "close-storm", "case": i, "seed": *seed}) // a fatal runtime error (concurrent map access) ends the process: the case is then the failing input
		c, d, cl, nt := stormCase(*seed, i)
		out.Case(c, d, cl, nt)
	}
}
