// h_rule drives rule/flags.Parse, rule.Build and rule.ToCommandLine.
//
//	-mode build : structured rules rendered to a line, parsed, built (C06) and sent
//	              through decode -> text -> parse -> build -> text (C07)
//	-mode total : mutated wire data, extreme Rule values, arbitrary lines (C13)
//	-mode flags : token lists with stray words, repeated and mixed flags (C14)
//
// It judges nothing: cases are printed as Coq terms for Check/ChkRule.v.
package main

import (
	"encoding/binary"
	"encoding/hex"
	"flag"
	"fmt"
	"os"
	"runtime"
	"sort"
	"strconv"
	"strings"

	"verifharness/sx"

	"github.com/elastic/go-libaudit/v2/auparse"
	"github.com/elastic/go-libaudit/v2/rule"
	"github.com/elastic/go-libaudit/v2/rule/flags"
	"github.com/kballard/go-shellquote"
)

func cs(s string) string { return sx.Hx([]byte(s)) }

func cstr(s string) string { return `"` + strings.ReplaceAll(s, `"`, `""`) + `"` }

// ---------- generator of structured rules ----------

type item struct {
	compare  bool
	field    string
	op       string
	text     string // right-hand side as written
	isStr    bool
	num      uint32 // wire value for numeric fields
	rhsField string // for -C
}

var numFields = []string{"pid", "ppid", "pers", "a0", "a1", "a2", "a3", "devmajor", "devminor", "success", "inode", "saddr_fam"}
var uidFields = []string{"uid", "euid", "suid", "fsuid", "auid", "obj_uid"}
var gidFields = []string{"gid", "egid", "sgid", "fsgid", "obj_gid"}
var strFields = []string{"subj_user", "subj_role", "subj_type", "subj_sen", "subj_clr", "obj_user", "obj_role", "obj_type", "obj_lev_low", "obj_lev_high", "path", "dir", "exe"}
var allOps = []string{"=", "!=", "<", ">", "<=", ">=", "&", "&="}
var boundary = []uint32{0, 1, 2, 10, 255, 256, 1000, 65535, 65536, 0x7fffffff, 0x80000000, 0xfffffffe, 0xffffffff}

func numText(r *sx.Rng, v uint32) string {
	switch r.Intn(7) {
	case 0:
		return fmt.Sprintf("0x%x", v)
	case 1:
		return fmt.Sprintf("0X%X", v)
	case 2:
		return fmt.Sprintf("0o%o", v)
	case 3:
		if v == 0 {
			return "0"
		}
		return fmt.Sprintf("0%o", v)
	case 4:
		return fmt.Sprintf("0b%b", v)
	case 5:
		if v >= 0x80000000 {
			return "-" + strconv.FormatUint(uint64(1<<32)-uint64(v), 10)
		}
		if v >= 1000 {
			s := strconv.FormatUint(uint64(v), 10)
			return s[:len(s)-3] + "_" + s[len(s)-3:]
		}
	}
	return strconv.FormatUint(uint64(v), 10)
}

func safeStr(r *sx.Rng, n int) string {
	const al = "abcdefghijklmnopqrstuvwxyzABCDEFGHIJKLMNOPQRSTUVWXYZ0123456789_-./:+@%="
	b := make([]byte, n)
	for i := range b {
		b[i] = al[r.Intn(len(al))]
	}
	return string(b)
}

var errnoNames []string
var msgNames []string
var archNames = []string{"b64", "b32", "x86_64", "i386", "aarch64", "arm", "ppc64", "ppc", "s390x", "s390"}
var archVals = map[string]uint32{"b64": uint32(auparse.AUDIT_ARCH_X86_64), "b32": uint32(auparse.AUDIT_ARCH_I386), "x86_64": uint32(auparse.AUDIT_ARCH_X86_64), "i386": uint32(auparse.AUDIT_ARCH_I386),
	"aarch64": uint32(auparse.AUDIT_ARCH_AARCH64), "arm": uint32(auparse.AUDIT_ARCH_ARM), "ppc64": uint32(auparse.AUDIT_ARCH_PPC64), "ppc": uint32(auparse.AUDIT_ARCH_PPC),
	"s390x": uint32(auparse.AUDIT_ARCH_S390X), "s390": uint32(auparse.AUDIT_ARCH_S390)}
var archReal = map[string]string{"b64": "x86_64", "b32": "i386"}

// unambiguous keeps the written filter readable in one way only: "key<" followed by "=x" is the filter key<=x, so a
// value after <, > or & does not begin with '=' (found by the thorough tier: the description said one thing, the line another)
func unambiguous(it item) item {
	if !it.compare && strings.HasPrefix(it.text, "=") && (it.op == "<" || it.op == ">" || it.op == "&" || it.op == "!") {
		it.text = "e" + it.text[1:]
	}
	return it
}

func genItem(r *sx.Rng, list string, wantValid bool) item {
	for {
		c := r.Intn(100)
		var it item
		it.op = sx.Pick(r, allOps)
		switch {
		case c < 25:
			it.field = sx.Pick(r, numFields)
			it.num = sx.Pick(r, boundary)
			if r.Chance(1, 3) {
				it.num = uint32(r.Next())
			}
			if it.field == "saddr_fam" {
				it.num = sx.Pick(r, []uint32{2, 10, 2, 10, 3})
			}
			it.text = numText(r, it.num)
		case c < 37:
			it.field = sx.Pick(r, uidFields)
			it.num = sx.Pick(r, boundary)
			switch r.Intn(4) {
			case 0:
				it.text, it.num = "unset", 0xffffffff
			case 1:
				if it.num >= 0x80000000 {
					it.text = "-" + strconv.FormatUint(uint64(1<<32)-uint64(it.num), 10)
				} else {
					it.text = strconv.FormatUint(uint64(it.num), 10)
				}
			default:
				it.text = strconv.FormatUint(uint64(it.num), 10)
			}
		case c < 46:
			it.field = sx.Pick(r, gidFields)
			it.num = sx.Pick(r, boundary)
			if r.Chance(1, 4) && it.num >= 0x80000000 {
				it.text = "-" + strconv.FormatUint(uint64(1<<32)-uint64(it.num), 10)
			} else {
				it.text = strconv.FormatUint(uint64(it.num), 10)
			}
		case c < 54:
			it.field = "exit"
			switch r.Intn(3) {
			case 0:
				n := sx.Pick(r, errnoNames)
				v := auparse.AuditErrnoToNum[n]
				if r.Chance(1, 2) {
					it.text, it.num = "-"+n, uint32(int32(-v))
				} else {
					it.text, it.num = n, uint32(int32(v))
				}
			case 1:
				v := int32(r.Next())
				it.text, it.num = strconv.Itoa(int(v)), uint32(v)
			default:
				v := int32(sx.Pick(r, []int{0, 1, -1, -13, 2147483647, -2147483648}))
				it.text, it.num = strconv.Itoa(int(v)), uint32(v)
			}
		case c < 60:
			it.field = "msgtype"
			if r.Chance(1, 2) {
				n := sx.Pick(r, msgNames)
				t, _ := auparse.GetAuditMessageType(n)
				it.text, it.num = n, uint32(t)
			} else {
				it.num = sx.Pick(r, []uint32{0, 1100, 1300, 65535, 65536, 70000, 0xffffffff})
				it.text = numText(r, it.num)
				if strings.HasPrefix(it.text, "-") {
					it.text = strconv.FormatUint(uint64(it.num), 10)
				}
			}
		case c < 82:
			it.field = sx.Pick(r, strFields)
			if r.Chance(1, 8) {
				it.field = "key" // a key spelled as a filter
			}
			it.isStr = true
			it.text = safeStr(r, 1+r.Intn(24))
			if it.field == "path" || it.field == "dir" || it.field == "exe" {
				it.text = "/" + it.text
			}
			if r.Chance(1, 6) {
				// blanks at either end or inside: the bytes asked for are the bytes to encode
				it.text = sx.Pick(r, []string{" ", "", "\t", "  "}) + it.text + sx.Pick(r, []string{"", " ", " x", "\t"})
			}
			if r.Chance(1, 40) {
				it.text = "/" + safeStr(r, 4090+r.Intn(10))
			}
		case c < 88:
			it.field = "arch"
			it.text = sx.Pick(r, archNames)
			it.num = archVals[it.text]
			if wantValid {
				it.op = sx.Pick(r, []string{"=", "!="})
			}
		case c < 92:
			it.field = "perm"
			letters := "rwxa"
			n := 1 + r.Intn(5)
			var bits uint32
			for i := 0; i < n; i++ {
				l := letters[r.Intn(4)]
				it.text += string(l)
				bits |= map[byte]uint32{'r': 4, 'w': 2, 'x': 1, 'a': 8}[l]
			}
			it.num = bits
			if wantValid {
				it.op = "="
			}
		case c < 96:
			it.field = "filetype"
			names := map[string]uint32{"file": 0o100000, "dir": 0o040000, "socket": 0o140000, "symlink": 0o120000, "char": 0o020000, "block": 0o060000, "fifo": 0o010000}
			if r.Chance(2, 3) {
				for k, v := range names {
					it.text, it.num = k, v
					if r.Chance(1, 3) {
						break
					}
				}
				if r.Chance(1, 4) {
					it.text = strings.ToUpper(it.text)
				}
			} else {
				it.num = sx.Pick(r, boundary)
				it.text = numText(r, it.num)
				if strings.HasPrefix(it.text, "-") {
					it.text = strconv.FormatUint(uint64(it.num), 10)
				}
			}
		default:
			it.compare = true
			pairs := [][2]string{{"uid", "euid"}, {"auid", "uid"}, {"gid", "egid"}, {"obj_uid", "fsuid"}, {"egid", "obj_gid"}, {"suid", "fsuid"}, {"uid", "obj_uid"}, {"sgid", "fsgid"}}
			p := sx.Pick(r, pairs)
			it.field, it.rhsField = p[0], p[1]
			if r.Chance(1, 2) {
				it.field, it.rhsField = p[1], p[0]
			}
			it.op = sx.Pick(r, []string{"=", "!="})
			if !wantValid && r.Chance(1, 4) {
				it.op = "<"
			}
		}
		if !it.compare && strings.HasPrefix(it.text, "=") && (it.op == "&" || it.op == "<" || it.op == ">") {
			it.text = "x" + it.text // "a&" + "=v" would read as the operator "&="
		}
		if wantValid && !it.compare {
			if it.field == "inode" && it.op != "=" && it.op != "!=" {
				it.op = "="
			}
			if !allowedOn(it.field, list) {
				continue
			}
			if it.field == "saddr_fam" && it.num != 2 && it.num != 10 {
				continue
			}
		}
		return unambiguous(it)
	}
}

var exitOnly = map[string]bool{"exit": true, "obj_user": true, "obj_role": true, "obj_type": true, "obj_lev_low": true, "obj_lev_high": true, "path": true, "dir": true,
	"perm": true, "filetype": true, "inode": true, "devmajor": true, "devminor": true, "success": true, "ppid": true}
var excludeOK = map[string]bool{"pid": true, "uid": true, "gid": true, "auid": true, "msgtype": true, "subj_user": true, "subj_role": true, "subj_type": true, "subj_sen": true, "subj_clr": true, "exe": true}

func allowedOn(field, list string) bool {
	if list == "exclude" && !excludeOK[field] {
		return false
	}
	if exitOnly[field] && list != "exit" {
		return false
	}
	if field == "msgtype" && list != "user" && list != "exclude" {
		return false
	}
	return true
}

type spec struct {
	list, action string
	prepend      bool
	items        []item
	scText       []string
	scNums       []uint32
	scAll        bool
	keys         []string
	inDomain     bool
}

// a syscall rule that has the shape of a file watch (path, perm, optional key): ToCommandLine prints those with -w
func genWatchShaped(r *sx.Rng) spec {
	var s spec
	s.list, s.action, s.scAll, s.inDomain = "exit", "always", true, true
	if r.Chance(1, 3) {
		s.scText = []string{"all"}
	}
	if r.Chance(1, 4) {
		// the same filters on a proper subset of the syscalls: not a watch, the listing must keep the -S restriction
		s.scAll, s.scText = false, nil
		for k := 1 + r.Intn(3); k > 0; k-- {
			num := uint32(sx.Pick(r, []int{0, 2, 59, 257, 263, 2047, r.Intn(400)}))
			s.scText = append(s.scText, strconv.Itoa(int(num)))
			s.scNums = append(s.scNums, num)
		}
	}
	seg := func() string { return strings.Trim(strings.ReplaceAll(safeStr(r, 1+r.Intn(6)), "/", "x"), ".") + "q" }
	path := "/" + seg() + "/" + seg()
	switch r.Intn(10) {
	case 0:
		path = "/" + seg() + "//" + seg()
	case 1:
		path = "/" + seg() + "/./" + seg()
	case 2:
		path = "/" + seg() + "/../" + seg()
	case 3:
		path += "/"
	case 4:
		path = seg() + "/" + seg()
	case 5:
		// "/" itself is left out: path= naming an existing directory is outside the property's domain (the -w form re-derives the kind by stat)
		path = sx.Pick(r, []string{"//", "/..", "/.", ".", "..", "/" + seg() + "/.."})
	}
	perm := item{field: "perm", op: "="}
	for k := 1 + r.Intn(4); k > 0; k-- {
		l := "rwxa"[r.Intn(4)]
		perm.text += string(l)
		perm.num |= map[byte]uint32{'r': 4, 'w': 2, 'x': 1, 'a': 8}[l]
	}
	s.items = []item{{field: "path", op: "=", text: path, isStr: true}, perm}
	if r.Chance(1, 6) {
		s.items[0], s.items[1] = s.items[1], s.items[0]
	}
	if r.Chance(1, 8) {
		s.items[0].op = "!="
	}
	for k := r.Intn(3); k > 0; k-- {
		s.keys = append(s.keys, safeStr(r, 1+r.Intn(8)))
	}
	if r.Chance(1, 10) {
		s.keys = []string{""}
	}
	if r.Chance(1, 4) {
		// the key as a third filter of its own, with any operator: only "=" makes a watch
		s.keys = nil
		s.items = append(s.items, unambiguous(item{field: "key", op: sx.Pick(r, []string{"=", "!=", "!=", "&", "<"}), text: safeStr(r, 1+r.Intn(6)), isStr: true}))
	}
	return s
}

func genSpec(r *sx.Rng) spec {
	if r.Chance(1, 12) {
		return genWatchShaped(r)
	}
	var s spec
	s.list = sx.Pick(r, []string{"exit", "exit", "exit", "task", "user", "exclude"})
	s.action = sx.Pick(r, []string{"always", "never"})
	s.prepend = r.Chance(1, 5)
	wantValid := !r.Chance(1, 6)
	n := r.Intn(6)
	atLimit := false
	if r.Chance(1, 25) {
		n = 60 + r.Intn(8)
	} else if r.Chance(1, 25) {
		// exactly at the 64-field limit, where the keys are one field more
		n = sx.Pick(r, []int{63, 64, 64, 64, 65})
		atLimit = true
		wantValid = true
	}
	curArch := "x86_64"
	if runtime.GOARCH != "amd64" {
		curArch = ""
	}
	for i := 0; i < n; i++ {
		it := genItem(r, s.list, wantValid)
		s.items = append(s.items, it)
		if it.field == "arch" && !it.compare && (it.op == "=" || it.op == "!=") {
			curArch = it.text
			if a, ok := archReal[it.text]; ok {
				curArch = a
			}
		}
	}
	// syscalls: resolved against the last arch filter (names), or numbers
	sc := r.Intn(100)
	switch {
	case sc < 25:
		s.scAll = true // no -S at all
	case sc < 33:
		s.scAll = true
		s.scText = []string{"all"}
	default:
		k := 1 + r.Intn(5)
		table := auparse.AuditSyscalls[curArch]
		for i := 0; i < k; i++ {
			if len(table) > 0 && r.Chance(1, 2) {
				nums := make([]int, 0, len(table))
				for n := range table {
					nums = append(nums, n)
				}
				sort.Ints(nums)
				num := nums[r.Intn(len(nums))]
				s.scText = append(s.scText, table[num])
				s.scNums = append(s.scNums, uint32(num))
			} else {
				num := uint32(sx.Pick(r, []int{0, 1, 31, 32, 63, 64, 2047, 2046, 1024, r.Intn(2048)}))
				if !wantValid && r.Chance(1, 3) {
					num = uint32(sx.Pick(r, []int{2048, 2079, 2080, 5000}))
				}
				s.scText = append(s.scText, strconv.Itoa(int(num)))
				s.scNums = append(s.scNums, num)
			}
		}
		if r.Chance(1, 12) {
			s.scAll = true
			pos := r.Intn(len(s.scText) + 1)
			s.scText = append(s.scText[:pos], append([]string{"all"}, s.scText[pos:]...)...)
		}
	}
	if r.Chance(1, 70) {
		// every number 0..2015, and some of the last word's
		s.scAll, s.scText, s.scNums = false, nil, nil
		top := 2016 + sx.Pick(r, []int{0, 0, 1, 5, 16})
		for k := 0; k < top; k++ {
			s.scText = append(s.scText, strconv.Itoa(k))
			s.scNums = append(s.scNums, uint32(k))
		}
	}
	nk := r.Intn(4)
	if atLimit && nk == 0 && r.Chance(2, 3) {
		nk = 1
	}
	for i := 0; i < nk; i++ {
		s.keys = append(s.keys, safeStr(r, 1+r.Intn(12)))
	}
	if r.Chance(1, 30) {
		s.keys = []string{safeStr(r, 250+r.Intn(10))}
	}
	if r.Chance(1, 40) {
		s.keys = sx.Pick(r, [][]string{{""}, {"", ""}, {"a", ""}})
	}
	if r.Chance(1, 25) {
		// empty keys in front of a real one: the separator bytes count
		s.keys = append(sx.Pick(r, [][]string{{""}, {"", ""}}), safeStr(r, 1+r.Intn(6)))
	}
	if r.Chance(1, 20) && len(s.items) > 0 {
		// a key filter given with -F whose value holds the key separator byte, in front of other filters
		kv := safeStr(r, 1+r.Intn(5)) + "\x01" + safeStr(r, 1+r.Intn(5))
		s.items = append([]item{{field: "key", op: "=", text: kv, isStr: true}}, s.items...)
	}
	s.inDomain = true
	return s
}

func (s spec) line(r *sx.Rng) string {
	var parts []string
	la := s.list + "," + s.action
	if r.Chance(1, 3) {
		la = s.action + "," + s.list
	}
	if s.prepend {
		parts = append(parts, "-A", la)
	} else {
		parts = append(parts, "-a", la)
	}
	for _, it := range s.items {
		if it.compare {
			parts = append(parts, "-C", it.field+it.op+it.rhsField)
		} else {
			parts = append(parts, "-F", it.field+it.op+it.text)
		}
	}
	if len(s.scText) > 0 {
		if r.Chance(1, 2) {
			parts = append(parts, "-S", strings.Join(s.scText, ","))
		} else {
			for _, t := range s.scText {
				parts = append(parts, "-S", t)
			}
		}
	}
	if len(s.keys) > 0 {
		if r.Chance(1, 2) {
			parts = append(parts, "-k", strings.Join(s.keys, ","))
		} else {
			for _, k := range s.keys {
				parts = append(parts, "-k", k)
			}
		}
	}
	return shellquote.Join(parts...)
}

func (s spec) coq() string {
	items := make([]string, len(s.items))
	for i, it := range s.items {
		switch {
		case it.compare:
			items[i] = fmt.Sprintf("ICompare %s %s %s", cstr(it.field), cstr(it.op), cstr(it.rhsField))
		case it.isStr:
			items[i] = fmt.Sprintf("IFilter %s %s (VStr %s)", cstr(it.field), cstr(it.op), cs(it.text))
		default:
			items[i] = fmt.Sprintf("IFilter %s %s (VNum %d)", cstr(it.field), cstr(it.op), it.num)
		}
	}
	nums := make([]string, len(s.scNums))
	for i, n := range s.scNums {
		nums[i] = fmt.Sprint(n)
	}
	keys := make([]string, len(s.keys))
	for i, k := range s.keys {
		keys[i] = cs(k)
	}
	return fmt.Sprintf("{| sp_list := %s; sp_action := %s; sp_items := [%s]; sp_all := %v; sp_syscalls := [%s]; sp_keys := [%s] |}",
		cstr(s.list), cstr(s.action), strings.Join(items, "; "), s.scAll, strings.Join(nums, "; "), strings.Join(keys, "; "))
}

func optBytes(b []byte, err error) string {
	if err != nil {
		return "None"
	}
	return "(Some " + sx.Hx(b) + ")"
}

func buildLine(line string) (b []byte, err error) {
	defer func() {
		if p := recover(); p != nil {
			b, err = nil, fmt.Errorf("PANIC: %v", p)
		}
	}()
	ru, err := flags.Parse(line)
	if err != nil {
		return nil, err
	}
	return rule.Build(ru)
}

func buildDirect(s spec) (b []byte, err error) {
	defer func() {
		if p := recover(); p != nil {
			b, err = nil, fmt.Errorf("PANIC: %v", p)
		}
	}()
	sr := &rule.SyscallRule{Type: rule.AppendSyscallRuleType, List: s.list, Action: s.action, Syscalls: s.scText, Keys: s.keys}
	if s.prepend {
		sr.Type = rule.PrependSyscallRuleType
	}
	for _, it := range s.items {
		if it.compare {
			sr.Filters = append(sr.Filters, rule.FilterSpec{Type: rule.InterFieldFilterType, LHS: it.field, Comparator: it.op, RHS: it.rhsField})
		} else {
			sr.Filters = append(sr.Filters, rule.FilterSpec{Type: rule.ValueFilterType, LHS: it.field, Comparator: it.op, RHS: it.text})
		}
	}
	return rule.Build(sr)
}

func modeBuild(seed uint64, n int, out *sx.Out) {
	scratch, _ := os.MkdirTemp("", "verif-rule")
	defer os.RemoveAll(scratch)
	os.Mkdir(scratch+"/d", 0o755)
	os.WriteFile(scratch+"/f", nil, 0o644)
	os.Symlink("d", scratch+"/ld") // a watch on a symbolic link is a watch on what it points to (stat, not lstat)
	os.Symlink("f", scratch+"/lf")
	os.Symlink("nowhere", scratch+"/lx") // dangling
	accepted := 0
	aliased := 0
	var prevBuilt []byte
	prevCopy := ""
	for i := 0; i < n; i++ {
		out.Begin(map[string]interface{}{"mode": "modeBuild", "case": i})
		r := sx.Fork(seed, uint64(i))
		if r.Chance(1, 8) {
			// file watch
			isDir := r.Chance(1, 2)
			path := scratch + "/f"
			if isDir {
				path = scratch + "/d"
			}
			if r.Chance(1, 4) {
				// through a symbolic link
				path = scratch + sx.Pick(r, []string{"/ld", "/lf", "/lx"})
				isDir = strings.HasSuffix(path, "/ld")
			}
			if r.Chance(1, 4) {
				path = "/nonexistent/" + strings.Map(func(c rune) rune {
					if c == '/' || c == '.' {
						return 'x'
					}
					return c
				}, safeStr(r, 8))
				isDir = false
			}
			perms := ""
			for k := r.Intn(5); k > 0; k-- {
				perms += string("rwxa"[r.Intn(4)])
			}
			var keys []string
			for k := r.Intn(3); k > 0; k-- {
				keys = append(keys, safeStr(r, 1+r.Intn(10)))
			}
			if r.Chance(1, 12) {
				keys = []string{""}
			}
			parts := []string{"-w", path}
			if perms != "" {
				parts = append(parts, "-p", perms)
			}
			for _, k := range keys {
				parts = append(parts, "-k", k)
			}
			line := shellquote.Join(parts...)
			b, err := buildLine(line)
			kc := make([]string, len(keys))
			for j, k := range keys {
				kc[j] = cs(k)
			}
			rt := roundTrip(b, err)
			out.Case(fmt.Sprintf("BWatch %s %v %s [%s] %s %s", cs(path), isDir, cs(perms), strings.Join(kc, "; "), optBytes(b, err), rt),
				map[string]interface{}{"case": i, "line": line, "err": fmt.Sprint(err)}, "watch", err == nil)
			continue
		}
		s := genSpec(r)
		if i < 16 {
			// every run: the field table one short of full, exactly full and one over, with and without a key (the key is a field)
			s = spec{list: "exit", action: "always", scAll: true, inDomain: true}
			total := []int{62, 63, 64, 65}[i%4]
			if i%8 >= 4 {
				s.keys = []string{"k" + strconv.Itoa(i)}
				total--
			}
			for k := 0; k < total; k++ {
				f := []string{"pid", "ppid", "a0", "a1", "a2", "a3", "devmajor", "devminor", "inode"}[k%9]
				op := allOps[(k+i)%len(allOps)]
				if f == "inode" {
					op = allOps[(k+i)%2] // inode takes = and != only
				}
				s.items = append(s.items, item{field: f, op: op, text: strconv.Itoa(k + 1), num: uint32(k + 1)})
			}
		}
		line := s.line(r)
		// Parse / Build / ToCommandLine must be functions of their input: half of the rules are preceded by a near copy
		if i%2 == 1 {
			if pb, perr := buildLine(line + " -k primed"); perr == nil {
				rule.ToCommandLine(rule.WireFormat(pb), false)
			}
		}
		b, err := buildLine(line)
		direct := i%3 == 2
		if direct {
			// the same rule as a Rule value handed to Build directly: what Build accepts does not depend on flags.Parse having read it
			b, err = buildDirect(s)
			line = "(built directly) " + line
		}
		if err == nil {
			accepted++
		}
		// bytes handed out earlier belong to the caller: a later Build must not change them
		if prevBuilt != nil && string(prevBuilt) != prevCopy {
			aliased++
		}
		if err == nil {
			prevBuilt, prevCopy = b, string(b)
		}
		rt := roundTrip(b, err)
		desc := map[string]interface{}{"case": i, "line": line, "err": fmt.Sprint(err)}
		if len(line) > 300 {
			desc["line"] = line[:300] + "..."
		}
		cls := "syscall-rule/accepted"
		if err != nil {
			cls = "syscall-rule/rejected"
		}
		out.Case(fmt.Sprintf("BRule %s %s %s", s.coq(), optBytes(b, err), rt), desc, cls, err == nil && len(s.items) > 0)
		if toks, serr := shellquote.Split(line); serr == nil && len(line) < 2000 && i%2 == 0 && !direct {
			tc := make([]string, len(toks))
			for j, t := range toks {
				tc[j] = cs(t)
			}
			out.Case(fmt.Sprintf("BLine [%s] %s", strings.Join(tc, "; "), optBytes(b, err)), desc, "line/"+cls, err == nil)
		}
	}
	out.Case(fmt.Sprintf("BAlias %d", aliased), map[string]interface{}{"earlier_results_changed_by_a_later_build": aliased}, "aliasing", true)
	// value spellings: one filter per rule, the value word read back from the bytes Build returned
	oddTexts := []string{"", "0x", "0X1G", "1_0", "_1", "1_", "0_7", "+5", "-0", "-0x10", "0b102", "0o17", "017", "089", "4294967295", "4294967296", "99999999999999999999",
		"-2147483648", "-2147483649", "2147483648", "-1", "unset", "UNSET", "ENOENT", "-EPERM", "eperm", "-", "--1", "E", "rwxa", "rwxz", "", "RW", "FILE", "Socket", "dir", "fifo1",
		"B64", "b32", "X86_64", "x86_64", "armeb", "nosucharch", "UNKNOWN[1500]", "unknown[77]", "UNKNOWN[65536]", "syscall", "USER_LOGIN", "1e3", " 1", "1 ", "0x7fffffff", "0xffffffff", "0x100000000"}
	vfields := append(append(append([]string{}, numFields...), uidFields...), gidFields...)
	vfields = append(vfields, "exit", "exit", "msgtype", "msgtype", "arch", "perm", "filetype", "filetype")
	for i := 0; i < n/2; i++ {
		r := sx.Fork(seed^0x5a5a, uint64(i))
		f := sx.Pick(r, vfields)
		var text string
		switch r.Intn(5) {
		case 0, 1:
			text = sx.Pick(r, oddTexts)
		case 2:
			it := genItem(r, "exit", false)
			for it.compare || it.isStr {
				it = genItem(r, "exit", false)
			}
			text = it.text
			if r.Chance(1, 2) {
				f = it.field
			}
		default:
			it := genItem(r, "exit", true)
			for it.compare || it.isStr || it.field == "msgtype" {
				it = genItem(r, "exit", true)
			}
			f, text = it.field, it.text
		}
		list := "exit"
		if f == "msgtype" {
			list = "user"
		}
		ru := &rule.SyscallRule{Type: rule.AppendSyscallRuleType, List: list, Action: "always", Filters: []rule.FilterSpec{{Type: rule.ValueFilterType, LHS: f, Comparator: "=", RHS: text}}}
		obs := "None"
		var err error
		func() {
			defer func() {
				if p := recover(); p != nil {
					err = fmt.Errorf("PANIC: %v", p)
				}
			}()
			var b []byte
			b, err = rule.Build(ru)
			if err == nil {
				obs = fmt.Sprintf("(Some %d)", binary.LittleEndian.Uint32(b[524:528]))
			}
		}()
		out.Case(fmt.Sprintf("BVal %s %s %s", cstr(f), cs(text), obs), map[string]interface{}{"case": i, "field": f, "text": text, "err": fmt.Sprint(err)}, "value/"+f, err == nil)
	}
	out.Meta(map[string]interface{}{"rules_accepted_by_build": accepted, "runtime_goarch": runtime.GOARCH})
}

// the re-encoded bytes are shipped only when they differ from the first encoding
func b2coq(b, b2 []byte) string {
	if string(b) == string(b2) {
		return "(Some B2Same)"
	}
	return "(Some (B2Other " + sx.Hx(b2) + "))"
}

// roundTrip: bytes -> text -> parse -> build -> text
func roundTrip(b []byte, err error) string {
	if err != nil {
		return "RTNone"
	}
	t1, e1 := rule.ToCommandLine(rule.WireFormat(b), false)
	if e1 != nil {
		return "(RT None None None)"
	}
	b2, e2 := buildLine(t1)
	if e2 != nil {
		return fmt.Sprintf("(RT (Some %s) None None)", cs(t1))
	}
	t2, e3 := rule.ToCommandLine(rule.WireFormat(b2), false)
	if e3 != nil {
		return fmt.Sprintf("(RT (Some %s) %s None)", cs(t1), b2coq(b, b2))
	}
	return fmt.Sprintf("(RT (Some %s) %s (Some %s))", cs(t1), b2coq(b, b2), cs(t2))
}

// ---------- totality ----------

func guarded(f func() (string, error)) (outcome string, detail string) {
	defer func() {
		if p := recover(); p != nil {
			outcome, detail = "OPanic", fmt.Sprint(p)
		}
	}()
	var m0, m1 runtime.MemStats
	runtime.ReadMemStats(&m0)
	_, err := f()
	runtime.ReadMemStats(&m1)
	if m1.TotalAlloc-m0.TotalAlloc > 64<<20 {
		return "OAlloc", fmt.Sprintf("allocated %d bytes", m1.TotalAlloc-m0.TotalAlloc)
	}
	if err == nil {
		return "OOk", ""
	}
	if strings.HasPrefix(err.Error(), "failed to parse wire format") {
		return "OWireErr", err.Error()
	}
	return "OErr", err.Error()
}

func modeTotal(seed uint64, n int, out *sx.Out) {
	words := []uint32{0, 1, 63, 64, 65, 0x7fffffff, 0x80000000, 0xffffffff}
	for i := 0; i < n; i++ {
		out.Begin(map[string]interface{}{"mode": "modeTotal", "case": i})
		r := sx.Fork(seed, uint64(i)+1<<32)
		// a valid rule to start from
		var b []byte
		for tries := 0; tries < 50 && b == nil; tries++ {
			s := genSpec(r)
			bb, err := buildLine(s.line(r))
			if err == nil {
				b = bb
			}
		}
		if b == nil {
			continue
		}
		m := append([]byte(nil), b...)
		kind := r.Intn(13)
		switch {
		case kind >= 10: // the length word of a string-valued field replaced by a value around the wrap-around / buffer end
			nf := int(binary.LittleEndian.Uint32(b[8:]))
			var strIdx []int
			var offs []uint32
			off := uint32(0)
			for k := 0; k < nf && k < 64; k++ {
				code := binary.LittleEndian.Uint32(b[4*(67+k):])
				switch code {
				case 13, 14, 15, 16, 17, 19, 20, 21, 22, 23, 105, 107, 112, 210:
					strIdx = append(strIdx, k)
					offs = append(offs, off)
					off += binary.LittleEndian.Uint32(b[4*(131+k):])
				}
			}
			if len(strIdx) == 0 {
				binary.LittleEndian.PutUint32(m[4*259:], sx.Pick(r, words))
				break
			}
			j := r.Intn(len(strIdx))
			if len(strIdx) > 1 && r.Chance(2, 3) {
				j = 1 + r.Intn(len(strIdx)-1) // a later string: the running offset is not zero
			}
			buflen := binary.LittleEndian.Uint32(b[4*259:])
			o := offs[j]
			v := sx.Pick(r, []uint32{0xffffffff, 0xfffffffe, 0 - o, 0 - o + 1, 0 - o - 1, 0x80000000, buflen - o, buflen - o + 1, buflen, buflen + 1, 0x7fffffff})
			binary.LittleEndian.PutUint32(m[4*(131+strIdx[j]):], v)
		case kind < 6: // one header word replaced by a boundary value
			w := r.Intn(260)
			if r.Chance(1, 2) {
				w = sx.Pick(r, []int{0, 1, 2, 259, 131, 132, 133, 67, 68})
			}
			v := sx.Pick(r, words)
			if r.Chance(1, 4) {
				v = uint32(len(b)) + uint32(r.Intn(3)) - 1
			}
			binary.LittleEndian.PutUint32(m[4*w:], v)
		case kind < 8: // truncation
			m = m[:r.Intn(len(m)+1)/4*4]
			if r.Chance(1, 3) {
				m = b[:r.Intn(len(b)+1)]
			}
		case kind < 9: // two words
			binary.LittleEndian.PutUint32(m[8:], sx.Pick(r, words))
			binary.LittleEndian.PutUint32(m[1036:], sx.Pick(r, words))
		default: // random garbage of a plausible length
			m = make([]byte, sx.Pick(r, []int{0, 3, 1039, 1040, 1041, 1044, 1100}))
			for j := range m {
				m[j] = byte(r.Next())
			}
		}
		out.Begin(map[string]interface{}{"mode": "modeTotal", "case": i, "call": "rule.ToCommandLine(wire, false)", "wire_hex": hex.EncodeToString(m)})
		oc, detail := guarded(func() (string, error) { return rule.ToCommandLine(rule.WireFormat(m), false) })
		out.Case(fmt.Sprintf("TWire %s %s", sx.Hx(m), oc), map[string]interface{}{"case": i, "mutation_kind": kind, "len": len(m), "outcome": oc, "detail": detail}, "wire/"+oc, oc == "OOk" || oc == "OErr")
		// the same bytes listed with ids and codes resolved to names: another printer for the same values (totality only)
		out.Begin(map[string]interface{}{"mode": "modeTotal", "case": i, "call": "rule.ToCommandLine(wire, true)", "wire_hex": hex.EncodeToString(m)})
		oc2, detail2 := guarded(func() (string, error) { return rule.ToCommandLine(rule.WireFormat(m), true) })
		out.Case(fmt.Sprintf("TLine %s %s", cs("resolveIds=true "+hex.EncodeToString(m[:min(len(m), 64)])), oc2), map[string]interface{}{"case": i, "resolveIds": true, "wire_hex": hex.EncodeToString(m), "outcome": oc2, "detail": detail2}, "wire-resolved/"+oc2, oc2 != "OPanic")
	}
	// Rule values built directly
	for i := 0; i < n/3; i++ {
		r := sx.Fork(seed, uint64(i)+2<<32)
		sr := &rule.SyscallRule{Type: rule.AppendSyscallRuleType, List: sx.Pick(r, []string{"exit", "task", "user", "exclude", "entry", "", "bogus"}), Action: sx.Pick(r, []string{"always", "never", "possible", ""})}
		nf := sx.Pick(r, []int{0, 1, 3, 63, 64, 65, 66, 200})
		tame := r.Chance(1, 2) // otherwise valid rule: only the syscall numbers, the filter count or the keys are extreme
		if tame {
			sr.List, sr.Action = "exit", "always"
			nf = sx.Pick(r, []int{0, 1, 2, 63, 64, 65})
		}
		for k := 0; k < nf; k++ {
			it := genItem(r, "exit", tame || r.Chance(1, 2))
			if tame {
				for it.field == "arch" || it.isStr && len(it.text) > 100 {
					it = genItem(r, "exit", true)
				}
			}
			fs := rule.FilterSpec{Type: rule.ValueFilterType, LHS: it.field, Comparator: it.op, RHS: it.text}
			if it.compare {
				fs = rule.FilterSpec{Type: rule.InterFieldFilterType, LHS: it.field, Comparator: it.op, RHS: it.rhsField}
			}
			if !tame && r.Chance(1, 10) {
				fs.RHS = sx.Pick(r, []string{"", " ", "\x00", "99999999999999999999", "-", "0x", strings.Repeat("a", 5000)})
			}
			if !tame && r.Chance(1, 20) {
				fs.Type = rule.FilterType(r.Intn(5))
			}
			sr.Filters = append(sr.Filters, fs)
		}
		nsc := r.Intn(4)
		if tame {
			nsc = 1 + r.Intn(2)
		}
		for k := nsc; k > 0; k-- {
			if tame {
				sr.Syscalls = append(sr.Syscalls, sx.Pick(r, []string{"2047", "2048", "2079", "2080", "2111", "4095", "0", "31", "32"}))
				continue
			}
			sr.Syscalls = append(sr.Syscalls, sx.Pick(r, []string{"2047", "2048", "2079", "2080", "2147483648", "4294967295", "-1", "open", "all", "", "99999999999999999999", "0x10"}))
		}
		for k := r.Intn(3); k > 0; k-- {
			sr.Keys = append(sr.Keys, safeStr(r, sx.Pick(r, []int{0, 1, 100, 256, 257})))
		}
		var ru rule.Rule = sr
		if r.Chance(1, 8) {
			ru = &rule.FileWatchRule{Type: rule.FileWatchRuleType, Path: sx.Pick(r, []string{"", ".", "/", "/tmp/../x", "relative", strings.Repeat("/a", 3000)}), Permissions: []rule.AccessType{rule.AccessType(r.Intn(7))}, Keys: sr.Keys}
		}
		if r.Chance(1, 30) {
			ru = &rule.DeleteAllRule{Type: rule.DeleteAllRuleType}
		}
		var built []byte
		oc, detail := guarded(func() (string, error) { b, err := rule.Build(ru); built = b; return "", err })
		bs := "None"
		if oc == "OOk" {
			bs = "(Some " + sx.Hx(built) + ")"
		}
		out.Case(fmt.Sprintf("TBuild %d %s %s", nf, oc, bs), map[string]interface{}{"case": i, "filters": nf, "syscalls": sr.Syscalls, "outcome": oc, "detail": detail}, "build/"+oc, oc != "OPanic")
	}
	// around the 64-field limit: valid value filters, inter-field comparisons and keys in every mix, so that each way of adding
	// the field that no longer fits (a -F filter, a -C comparison, the keys) is the one that crosses the limit
	for total := 62; total <= 67; total++ {
		for tail := 0; tail < 8; tail++ { // which of the last three fields are comparisons
			for nkeys := 0; nkeys <= 1; nkeys++ {
				sr := &rule.SyscallRule{Type: rule.AppendSyscallRuleType, List: "exit", Action: "always", Syscalls: []string{"1"}}
				for k := 0; k < total; k++ {
					fromEnd := total - 1 - k
					if fromEnd < 3 && tail&(1<<uint(fromEnd)) != 0 {
						sr.Filters = append(sr.Filters, rule.FilterSpec{Type: rule.InterFieldFilterType, LHS: "uid", Comparator: "!=", RHS: "euid"})
					} else {
						sr.Filters = append(sr.Filters, rule.FilterSpec{Type: rule.ValueFilterType, LHS: "pid", Comparator: "!=", RHS: strconv.Itoa(k + 1)})
					}
				}
				if nkeys == 1 {
					sr.Keys = []string{"k"}
				}
				var built []byte
				out.Begin(map[string]interface{}{"mode": "modeTotal", "call": "rule.Build(rule)", "rule": fmt.Sprintf("%+v", *sr)})
				oc, detail := guarded(func() (string, error) { b, err := rule.Build(sr); built = b; return "", err })
				bs := "None"
				if oc == "OOk" {
					bs = "(Some " + sx.Hx(built) + ")"
				}
				out.Case(fmt.Sprintf("TBuild %d %s %s", total, oc, bs), map[string]interface{}{"filters": total, "comparisons_in_tail": tail, "keys": nkeys, "outcome": oc, "detail": detail}, "field-limit/"+oc, oc != "OPanic")
			}
		}
	}
	// every field with every hostile right-hand side, one filter per rule, built directly (flags.Parse would refuse some of these
	// before Build sees them): each value parser on its own
	allFields := append(append(append(append([]string{"arch", "perm", "filetype", "exit", "msgtype", "sessionid", "key", "field_compare", "nosuchfield", ""}, numFields...), uidFields...), gidFields...), strFields...)
	hostileRHS := []string{"", " ", "-", "+", "0x", "-0x", "0b", "0o", "_", "1_", "-1", "4294967296", "-4294967297", "99999999999999999999", "EPERM", "-EPERM", "-E", "e", "\x00", "a b",
		strings.Repeat("9", 400), "b64", "r", "rwxaq", "file", "SYSCALL", "UNKNOWN[1]", "unset", "root", "-", "--1", "0x7fffffffffffffff"}
	sweep := 0
	for _, list := range []string{"exit", "exclude", "user", "task"} {
		for _, f := range allFields {
			for _, rhs := range hostileRHS {
				sweep++
				op := []string{"=", "!=", "&", "<="}[sweep%4]
				sr := &rule.SyscallRule{Type: rule.AppendSyscallRuleType, List: list, Action: "always", Syscalls: []string{"1"},
					Filters: []rule.FilterSpec{{Type: rule.ValueFilterType, LHS: f, Comparator: op, RHS: rhs}}}
				var built []byte
				out.Begin(map[string]interface{}{"mode": "modeTotal", "call": "rule.Build(rule)", "rule": fmt.Sprintf("%+v", *sr)})
				oc, detail := guarded(func() (string, error) { b, err := rule.Build(sr); built = b; return "", err })
				bs := "None"
				if oc == "OOk" {
					bs = "(Some " + sx.Hx(built) + ")"
				}
				if (list == "user" || list == "task") && sweep%5 != 0 {
					continue // the value parsers do not depend on the list; the admission rules do: a sample
				}
				out.Case(fmt.Sprintf("TVal %s %s %s %s %s %s", cs(list), cs(f), cs(op), cs(rhs), oc, bs), map[string]interface{}{"list": list, "field": f, "op": op, "rhs": rhs, "outcome": oc, "detail": detail}, "value-sweep/"+oc, oc != "OPanic")
			}
		}
	}
	// the value word of every numeric field of a few typical rules replaced by the values printers index tables with:
	// every S_IFMT nibble and its neighbours, every perm value, errno and record-type table edges; both printers
	for _, base := range []string{
		"-a always,exit -F filetype=file -F perm=r -F exit=-2 -F uid=0 -F a0=1 -S open -k k",
		"-a always,exit -F arch=b64 -S 2 -F success=1 -F auid!=4294967295 -F obj_uid=1",
		"-a always,exit -F arch=b32 -S open -F exit=-EPERM -F filetype=dir -F gid=0 -F pers=1",
		"-a always,exclude -F msgtype=1300",
		"-w /etc/passwd -p wa -k w",
	} {
		b, err := buildLine(base)
		if err != nil {
			// a base the code does not build is a mistake of this harness, not something to skip quietly
			out.Case(fmt.Sprintf("TLine %s OPanic", cs("value-word sweep: base rule not built: "+base)), map[string]interface{}{"line": base, "err": err.Error()}, "value-word-sweep/base-not-built", true)
			continue
		}
		nf := int(binary.LittleEndian.Uint32(b[8:]))
		var vals []uint32
		for k := uint32(0); k < 16; k++ {
			vals = append(vals, k<<12, k<<12+1, k)
		}
		vals = append(vals, 16, 17, 31, 32, 0x7fff, 0x8000, 0xffff, 0x10000, 0x7fffffff, 0x80000000, 0xfffffffe, 0xffffffff, 132, 133, 134, 4095, 4096, 1099, 1100, 2999, 3000)
		for k := 0; k < nf && k < 64; k++ {
			for _, v := range vals {
				m := append([]byte(nil), b...)
				binary.LittleEndian.PutUint32(m[4*(131+k):], v)
				for _, resolve := range []bool{false, true} {
					resolve := resolve
					out.Begin(map[string]interface{}{"mode": "modeTotal", "call": fmt.Sprintf("rule.ToCommandLine(wire, %v)", resolve), "base": base, "field_index": k, "value_word": v, "wire_hex": hex.EncodeToString(m)})
					oc, detail := guarded(func() (string, error) { return rule.ToCommandLine(rule.WireFormat(m), resolve) })
					if resolve {
						out.Case(fmt.Sprintf("TLine %s %s", cs(fmt.Sprintf("resolveIds=true field %d value %d of %s", k, v, base)), oc), map[string]interface{}{"line": base, "field_index": k, "value_word": v, "resolveIds": true, "outcome": oc, "detail": detail}, "value-word-sweep-resolved/"+oc, oc != "OPanic")
					} else {
						out.Case(fmt.Sprintf("TWire %s %s", sx.Hx(m), oc), map[string]interface{}{"line": base, "field_index": k, "value_word": v, "outcome": oc, "detail": detail}, "value-word-sweep/"+oc, oc == "OOk" || oc == "OErr")
					}
				}
			}
		}
	}
	// the three header words (list, action, field count) of two typical rules given every small value and the usual large ones:
	// lists and actions the package does not know, counts beyond the table
	for _, base := range []string{"-a always,exit -F uid=0 -S open -k k", "-w /etc/passwd -p wa -k w"} {
		b, err := buildLine(base)
		if err != nil {
			out.Case(fmt.Sprintf("TLine %s OPanic", cs("header-word sweep: base rule not built: "+base)), map[string]interface{}{"line": base, "err": err.Error()}, "header-word-sweep/base-not-built", true)
			continue
		}
		var vals []uint32
		for v := uint32(0); v <= 70; v++ {
			vals = append(vals, v)
		}
		vals = append(vals, 255, 256, 0x7fffffff, 0x80000000, 0xfffffffe, 0xffffffff)
		for w := 0; w < 3; w++ {
			for _, v := range vals {
				m := append([]byte(nil), b...)
				binary.LittleEndian.PutUint32(m[4*w:], v)
				for _, resolve := range []bool{false, true} {
					resolve := resolve
					out.Begin(map[string]interface{}{"mode": "modeTotal", "call": fmt.Sprintf("rule.ToCommandLine(wire, %v)", resolve), "base": base, "header_word": w, "value": v, "wire_hex": hex.EncodeToString(m)})
					oc, detail := guarded(func() (string, error) { return rule.ToCommandLine(rule.WireFormat(m), resolve) })
					if resolve {
						out.Case(fmt.Sprintf("TLine %s %s", cs(fmt.Sprintf("resolveIds=true header word %d = %d of %s", w, v, base)), oc), map[string]interface{}{"line": base, "header_word": w, "value": v, "resolveIds": true, "outcome": oc, "detail": detail}, "header-word-sweep-resolved/"+oc, oc != "OPanic")
					} else {
						out.Case(fmt.Sprintf("TWire %s %s", sx.Hx(m), oc), map[string]interface{}{"line": base, "header_word": w, "value": v, "outcome": oc, "detail": detail}, "header-word-sweep/"+oc, oc == "OOk" || oc == "OErr")
					}
				}
			}
		}
	}
	// every string-valued field of a few typical rules given each small or off-by-one length (an empty path in a watch,
	// a key cut to nothing): the decoder indexes into these strings
	for bi, base := range []string{
		"-w /etc/passwd -p wa", "-w /etc/passwd -p wa -k ident", "-w /etc/ -p r",
		"-a always,exit -F path=/etc/shadow -F perm=wa", "-a always,exit -F dir=/etc -F perm=r -F key=k1",
		"-a always,exit -S open -F path=/etc/shadow -F perm=wa -F key=k1", "-a always,exit -F arch=b64 -S execve -F exe=/bin/ls -k a -k b",
		"-a always,exit -F subj_user=u -F obj_type=t -F key=zz", "-a never,exclude -F msgtype=1300", "-a always,exit -S all -k onlykey",
	} {
		b, err := buildLine(base)
		if err != nil {
			out.Case(fmt.Sprintf("TLine %s OPanic", cs("string-length sweep: base rule not built: "+base)), map[string]interface{}{"line": base, "err": err.Error()}, "string-length-sweep/base-not-built", true)
			continue
		}
		nf := int(binary.LittleEndian.Uint32(b[8:]))
		for k := 0; k < nf && k < 64; k++ {
			switch binary.LittleEndian.Uint32(b[4*(67+k):]) {
			case 13, 14, 15, 16, 17, 19, 20, 21, 22, 23, 105, 107, 112, 210:
			default:
				continue
			}
			orig := binary.LittleEndian.Uint32(b[4*(131+k):])
			for _, v := range []uint32{0, 1, orig - 1, orig + 1} {
				m := append([]byte(nil), b...)
				binary.LittleEndian.PutUint32(m[4*(131+k):], v)
				out.Begin(map[string]interface{}{"mode": "modeTotal", "call": "rule.ToCommandLine(wire, false)", "base": base, "string_field_index": k, "length_word": v, "wire_hex": hex.EncodeToString(m)})
				oc, detail := guarded(func() (string, error) { return rule.ToCommandLine(rule.WireFormat(m), false) })
				out.Case(fmt.Sprintf("TWire %s %s", sx.Hx(m), oc), map[string]interface{}{"base_rule": bi, "line": base, "string_field_index": k, "length_word": v, "outcome": oc, "detail": detail}, "string-length-sweep/"+oc, oc == "OOk" || oc == "OErr")
			}
		}
	}
	// arbitrary lines
	frags := []string{"-a", "-A", "-F", "-C", "-S", "-k", "-w", "-p", "-D", "--", "-", "exit,always", "always,exit", "uid=0", "a0&=0xffffffffff", "'", "\"", "\\", " ", "=", "-x", "-S=1", "-k=", "--a=exit,never", "auid!=4294967295", "x", "\t", "-F=", "arch=b64", "-S 5000", "path=/a b", "''", "\"\""}
	for i := 0; i < n/3; i++ {
		r := sx.Fork(seed, uint64(i)+3<<32)
		var sb strings.Builder
		for k := r.Intn(9); k > 0; k-- {
			sb.WriteString(sx.Pick(r, frags))
			if r.Chance(3, 4) {
				sb.WriteByte(' ')
			}
			if r.Chance(1, 20) {
				sb.WriteByte(byte(r.Next()))
			}
		}
		line := sb.String()
		out.Begin(map[string]interface{}{"mode": "modeTotal", "case": i, "call": "flags.Parse(line) then rule.Build", "line": line})
		oc, detail := guarded(func() (string, error) {
			ru, err := flags.Parse(line)
			if err == nil && ru != nil {
				_, err = rule.Build(ru)
			}
			return "", err
		})
		out.Case(fmt.Sprintf("TLine %s %s", cs(line), oc), map[string]interface{}{"case": i, "line": line, "outcome": oc, "detail": detail}, "line/"+oc, oc != "OPanic")
	}
}

// ---------- flag parsing ----------

// backslashJoin writes the words separated by blanks, every byte that is not plainly literal escaped with a backslash
// (no quotes).  Words that cannot be written that way (empty, containing a newline) make it give up.
func backslashJoin(toks []string) (string, bool) {
	var sb strings.Builder
	for i, t := range toks {
		if t == "" || strings.ContainsAny(t, "\n'\"") {
			return "", false
		}
		if i > 0 {
			sb.WriteByte(' ')
		}
		for j := 0; j < len(t); j++ {
			c := t[j]
			plain := c >= 'a' && c <= 'z' || c >= 'A' && c <= 'Z' || c >= '0' && c <= '9' || strings.IndexByte("_/.,=:+-", c) >= 0
			if !plain {
				sb.WriteByte('\\')
			}
			sb.WriteByte(c)
		}
	}
	return sb.String(), true
}

type fitem struct {
	flag  string // "" = stray word
	value string
	form  int // 0: -x v, 1: -x=v, 2: --x v, 3: --x=v
}

func ruleCoq(ru rule.Rule, err error) string {
	if err != nil || ru == nil {
		return "None"
	}
	strs := func(l []string) string {
		p := make([]string, len(l))
		for i, s := range l {
			p[i] = cs(s)
		}
		return "[" + strings.Join(p, "; ") + "]"
	}
	switch v := ru.(type) {
	case *rule.DeleteAllRule:
		return fmt.Sprintf("(Some (PDelete %s))", strs(v.Keys))
	case *rule.FileWatchRule:
		perms := ""
		for _, p := range v.Permissions {
			perms += map[rule.AccessType]string{rule.ReadAccessType: "r", rule.WriteAccessType: "w", rule.ExecuteAccessType: "x", rule.AttributeChangeAccessType: "a"}[p]
		}
		return fmt.Sprintf("(Some (PWatch %s %s %s))", cs(v.Path), cs(perms), strs(v.Keys))
	case *rule.SyscallRule:
		fl := make([]string, len(v.Filters))
		for i, f := range v.Filters {
			fl[i] = fmt.Sprintf("(%v, %s, %s, %s)", f.Type == rule.InterFieldFilterType, cs(f.LHS), cs(f.Comparator), cs(f.RHS))
		}
		return fmt.Sprintf("(Some (PSyscall %v %s %s [%s] %s %s))", v.Type == rule.PrependSyscallRuleType, cs(v.List), cs(v.Action), strings.Join(fl, "; "), strs(v.Syscalls), strs(v.Keys))
	}
	return "None"
}

func modeFlags(seed uint64, n int, out *sx.Out) {
	vals := map[string][]string{
		"a": {"exit,always", "always,exit", "task,never", "exit", "always", "exit,always,never", "bogus,always", " exit , always ", "user,always", "exclude,never", ""},
		"A": {"exit,always", "never,task"},
		"F": {"uid=0", "auid>=1000", "auid!=4294967295", "path=/tmp/my dir", "a0&0x10", "a1&=3", "uid =0", "uid= 0", "!!uid=0", "uid", "=5", "key=a=b", "arch=b64", "exit=-EPERM", "uid=0 junk", "a2<=5", "a<b>c", "subj_user=x y\tz", "path=/a\nb", "pid>1", "pid>=1", "pid=>1"},
		"C": {"uid=euid", "auid!=uid", "uid=euid junk", "uid= euid", "uid =euid", "uid==euid", "x", "uid!euid", "!uid=euid", "gid=egid"},
		"S": {"open", "open,close", "open, close", "all", "2", "1,2,3", "", "open,,close", " open "},
		"k": {"key1", "a,b", "", "k 1", " k2 "},
		"w": {"/etc/passwd", "/tmp/my dir", "relative", ""},
		"p": {"r", "rwxa", "wa", "q", "", "rr"},
	}
	strays := []string{"foo", "bar=1", "exit,always", "-", "uid=0", "", "", " ", "''"}
	vals["w"] = append(vals["w"], "/srv/R&D", "/opt/run$1", "/etc/passwd\r", "/a\\b", "/with space/x", "/nb\u00a0sp")
	vals["k"] = append(vals["k"], "k&1", "a b", "tab\there", "vt\vx")
	for i := 0; i < n; i++ {
		out.Begin(map[string]interface{}{"mode": "modeFlags", "case": i})
		r := sx.Fork(seed, uint64(i)+4<<32)
		var items []fitem
		kind := r.Intn(10)
		add := func(f string) {
			v := ""
			if f != "D" {
				v = sx.Pick(r, vals[f])
			}
			items = append(items, fitem{flag: f, value: v, form: sx.Pick(r, []int{0, 0, 0, 1, 2, 3})})
		}
		switch {
		case kind < 5: // syscall rule shaped
			if !r.Chance(1, 8) {
				add(sx.Pick(r, []string{"a", "a", "a", "A"}))
			}
			for k := r.Intn(4); k > 0; k-- {
				add(sx.Pick(r, []string{"F", "F", "C", "S", "k"}))
			}
			if r.Chance(1, 8) {
				add(sx.Pick(r, []string{"a", "A"}))
			}
		case kind < 7: // watch shaped
			add("w")
			if r.Chance(2, 3) {
				add("p")
			}
			for k := r.Intn(3); k > 0; k-- {
				add("k")
			}
			if r.Chance(1, 6) {
				add(sx.Pick(r, []string{"w", "p"}))
			}
		case kind < 8:
			add("D")
			if r.Chance(1, 2) {
				add("k")
			}
		default: // anything
			for k := r.Intn(5); k > 0; k-- {
				add(sx.Pick(r, []string{"a", "A", "F", "C", "S", "k", "w", "p", "D"}))
			}
		}
		// shuffle sometimes, add stray words / terminator sometimes
		if r.Chance(1, 3) {
			for k := len(items) - 1; k > 0; k-- {
				j := r.Intn(k + 1)
				items[k], items[j] = items[j], items[k]
			}
		}
		if r.Chance(1, 6) {
			pos := r.Intn(len(items) + 1)
			items = append(items[:pos], append([]fitem{{flag: "", value: sx.Pick(r, strays)}}, items[pos:]...)...)
		}
		if r.Chance(1, 15) {
			pos := r.Intn(len(items) + 1)
			items = append(items[:pos], append([]fitem{{flag: "--"}}, items[pos:]...)...)
		}
		// every run begins with the repeated-flag and empty-value lines that random draws reach only now and then
		scripted := [][]fitem{
			{{flag: "w", value: ""}, {flag: "w", value: "/etc/passwd"}, {flag: "p", value: "wa"}, {flag: "k", value: "identity"}},
			{{flag: "w", value: "/etc/passwd"}, {flag: "w", value: ""}, {flag: "p", value: "wa"}},
			{{flag: "w", value: "", form: 1}, {flag: "w", value: "/etc/shadow", form: 1}},
			{{flag: "w", value: "/a"}, {flag: "w", value: "/b"}},
			{{flag: "w", value: "/a"}, {flag: "p", value: "r"}, {flag: "p", value: "wa"}},
			{{flag: "w", value: "/a"}, {flag: "p", value: ""}, {flag: "p", value: "x"}},
			{{flag: "a", value: ""}, {flag: "a", value: "always,exit"}, {flag: "S", value: "open"}},
			{{flag: "a", value: "always,exit"}, {flag: "a", value: "never,exit"}},
			{{flag: "a", value: "always,exit"}, {flag: "A", value: "always,exit"}},
			{{flag: "a", value: "always,exit"}, {flag: "S", value: ""}, {flag: "S", value: "open"}},
			{{flag: "a", value: "always,exit"}, {flag: "k", value: ""}, {flag: "k", value: "a"}, {flag: "k", value: ""}},
			{{flag: "a", value: "always,exit"}, {flag: "k", value: "Mixed-Case"}, {flag: "k", value: "two words"}, {flag: "S", value: "open close"}},
			{{flag: "D"}, {flag: "D"}},
			{{flag: "D"}, {flag: "k", value: "x"}},
			{{flag: "D"}, {flag: "w", value: "/a"}},
			{{flag: "a", value: "always,exit"}, {flag: "w", value: "/a"}},
			{{flag: "a", value: "always,exit"}, {flag: "p", value: "r"}},
			{{flag: "w", value: "/a"}, {flag: "S", value: "open"}},
			{{flag: "w", value: "/a"}, {flag: "F", value: "uid=0"}},
			{{flag: "w", value: "/a"}, {flag: "C", value: "uid=euid"}},
		}
		if i < len(scripted) {
			items = scripted[i]
		}
		var toks []string
		var ic []string
		for _, it := range items {
			switch {
			case it.flag == "":
				toks = append(toks, it.value)
				ic = append(ic, fmt.Sprintf("FStray %s", cs(it.value)))
			case it.flag == "--":
				toks = append(toks, "--")
				ic = append(ic, "FTerm")
			case it.flag == "D":
				d := "-D"
				if it.form >= 2 {
					d = "--D"
				}
				toks = append(toks, d)
				ic = append(ic, "FDel")
			default:
				dash := "-"
				if it.form >= 2 {
					dash = "--"
				}
				if it.form%2 == 1 {
					toks = append(toks, dash+it.flag+"="+it.value)
				} else {
					toks = append(toks, dash+it.flag, it.value)
				}
				ic = append(ic, fmt.Sprintf("FFlag %s %s", cstr(it.flag), cs(it.value)))
			}
		}
		line := shellquote.Join(toks...)
		if r.Chance(1, 4) {
			// the same words written with backslash escapes only, no quote character anywhere on the line
			if l, ok := backslashJoin(toks); ok {
				line = l
			}
		}
		back, serr := shellquote.Split(line)
		same := serr == nil && len(back) == len(toks)
		if same {
			for k := range toks {
				if back[k] != toks[k] {
					same = false
				}
			}
		}
		if !same {
			continue
		}
		var ru rule.Rule
		var perr error
		oc, _ := guarded(func() (string, error) { ru, perr = flags.Parse(line); return "", perr })
		tc := make([]string, len(toks))
		for k, t := range toks {
			tc[k] = cs(t)
		}
		res := ruleCoq(ru, perr)
		if oc == "OPanic" {
			res = "None"
		}
		out.Case(fmt.Sprintf("FCase [%s] [%s] %v %s", strings.Join(ic, "; "), strings.Join(tc, "; "), oc == "OPanic", res),
			map[string]interface{}{"case": i, "line": line, "err": fmt.Sprint(perr)}, fmt.Sprintf("flags/kind%d/ok=%v", kind, perr == nil), perr == nil)
	}
}

func main() {
	seed := flag.Uint64("seed", 1, "seed")
	n := flag.Int("n", 1000, "cases")
	mode := flag.String("mode", "build", "build | total | flags")
	flag.Parse()
	for k := range auparse.AuditErrnoToNum {
		errnoNames = append(errnoNames, k)
	}
	sort.Strings(errnoNames)
	for k := range auparse.VerifMessageNameToType() {
		msgNames = append(msgNames, k)
	}
	sort.Strings(msgNames)
	out := sx.NewOut(os.Stdout)
	defer out.Flush()
	switch *mode {
	case "build":
		modeBuild(*seed, *n, out)
	case "total":
		modeTotal(*seed, *n, out)
	case "flags":
		modeFlags(*seed, *n, out)
	}
}
