// h_reasm drives libaudit.Reassembler from one goroutine per case on generated
// call histories and records, per call, the clock stamps around it and what the
// Stream saw.  It judges nothing: every case is printed as a Coq term for
// Check/ChkReasm.v.
package main

import (
	"flag"
	"fmt"
	"os"
	"strconv"
	"strings"
	"sync"
	"time"

	"verifharness/sx"

	libaudit "github.com/elastic/go-libaudit/v2"
	"github.com/elastic/go-libaudit/v2/auparse"
)

type opKind int

const (
	opPush opKind = iota
	opPushRaw
	opPushBadRaw
	opPushNil
	opMaintain
	opClose
)

type op struct {
	kind  opKind
	seq   uint32
	typ   int
	mid   int
	sleep time.Duration
	nest  []op // calls the Stream makes from inside the first callback of this call
}

type rec struct {
	lo, hi int64
	outs   []string
	text   []string
}

type stream struct {
	cur       *rec
	ids       map[*auparse.AuditMessage]int
	info      map[int][2]int64 // mid -> seq, type
	onDeliver func(seq uint32) // re-entrant streams call back into the Reassembler from here
	pending   []op
	rawbuf    []byte // the one buffer every Push(typ, raw) is made from
}

func (s *stream) ident(m *auparse.AuditMessage) string {
	if m == nil {
		return "(mk (-1) (-1) (-1))"
	}
	id, ok := s.ids[m]
	if !ok {
		// pushed through Push(typ, raw): identify by the id= field of the raw text
		id = -1
		if i := strings.LastIndex(m.RawData, "id="); i >= 0 {
			if v, err := strconv.Atoi(m.RawData[i+3:]); err == nil {
				id = v
			}
		}
	}
	return fmt.Sprintf("(mk (%d) %d %d)", id, m.Sequence, int(m.RecordType)) // (-1): a message nobody pushed
}

func (s *stream) ReassemblyComplete(msgs []*auparse.AuditMessage) {
	parts := make([]string, len(msgs))
	for i, m := range msgs {
		parts[i] = s.ident(m)
	}
	s.cur.outs = append(s.cur.outs, "Complete ["+strings.Join(parts, "; ")+"]")
	if len(msgs) > 0 {
		s.cur.text = append(s.cur.text, fmt.Sprintf("deliver seq=%d n=%d", msgs[0].Sequence, len(msgs)))
	} else {
		s.cur.text = append(s.cur.text, "deliver empty")
	}
	if s.onDeliver != nil && len(msgs) > 0 {
		s.onDeliver(msgs[0].Sequence)
	}
}

func (s *stream) EventsLost(n int) {
	s.cur.outs = append(s.cur.outs, fmt.Sprintf("Lost (%d)", n))
	s.cur.text = append(s.cur.text, fmt.Sprintf("lost %d", n))
}

var plainTypes = []int{1300, 1302, 1307, 1309, 1306, 1326, 1400, 2099, 1328}
var completingTypes = []int{1327, 1100, 1112, 1299, 2100, 2101, 1000, 1006, 0, 65535, 2500}

func gen(r *sx.Rng, idx int) (maxSize int, timeout time.Duration, ops []op, kind string) {
	timeouts := []time.Duration{-time.Second, 0, 30 * time.Millisecond, time.Hour}
	tw := r.Intn(100)
	switch {
	case tw < 15:
		timeout = timeouts[0]
	case tw < 20:
		timeout = timeouts[1]
	case tw < 45:
		timeout = timeouts[2]
	case tw < 90:
		timeout = timeouts[3]
	default:
		// "never": timeouts so large that now+timeout leaves the int64 nanosecond range (no event may expire)
		timeout = sx.Pick(r, []time.Duration{time.Duration(1<<63 - 1), 250 * 365 * 24 * time.Hour, time.Duration(1<<62 + 12345)})
	}
	sizes := []int{0, 1, 2, 3, 5, 11, 40}
	maxSize = sx.Pick(r, sizes)
	sk := r.Intn(100)
	kind = "windowed"
	if sk >= 75 && sk < 88 {
		kind = "hostile"
	} else if sk >= 88 {
		kind = "restart"
	}
	if kind == "windowed" && r.Chance(1, 7) {
		// callbacks that call back; expiry decided without waiting (no 0 / 30 ms timeouts: the outer call's clock stamps bracket the nested calls)
		kind = "reentrant"
		if timeout == 0 || timeout == 30*time.Millisecond {
			timeout = time.Hour
		}
		maxSize = sx.Pick(r, []int{1, 2, 3, 5})
	}
	if kind != "windowed" && maxSize > 11 {
		maxSize = 11
	}
	bases := []uint32{0, 1, 2, 0xFFFFFFFF - 3, 0xFFFFFFFF - 40, 0xFFFFFFFF, 1 << 31, 1<<24 - 2, 1 << 24, uint32(r.Next())}
	base := sx.Pick(r, bases)
	spreads := []uint32{8, 8, 30, 1000, 1<<24 - 1}
	spread := sx.Pick(r, spreads)
	n := 5 + r.Intn(36)
	cur := uint32(r.Intn(4))
	if spread > 1000 && r.Chance(1, 2) {
		cur = spread - uint32(r.Intn(12))
	}
	mid := 0
	closedAt := -1
	if r.Chance(1, 12) {
		closedAt = r.Intn(n)
	}
	if kind == "reentrant" && r.Chance(1, 2) {
		// a batch of two events is being delivered while the Stream's nested call evicts two more:
		// A(s) B(s+1) done(s+1) D(s+2) E(s+3) done(s+3) done(s) -> [A, B] go out, D (incomplete) keeps E (complete) behind it;
		// from inside the first callback: done(s+2) (or an overflow, or Maintain after it) -> D and E go out in the nested call
		if maxSize < 5 {
			maxSize = 5
		}
		timeout = time.Hour
		s0 := base + cur
		push := func(seq uint32, typ int) op { o := op{kind: opPush, seq: seq, typ: typ, mid: mid}; mid++; return o }
		ops = append(ops, push(s0, 1300), push(s0+1, 1300), push(s0+1, 1320), push(s0+2, 1300), push(s0+3, 1300), push(s0+3, 1320))
		if r.Chance(1, 2) {
			ops = append(ops, push(s0+4, 1300), push(s0+4, 1320))
		}
		last := push(s0, 1320)
		nest := []op{{kind: opPush, seq: s0 + 2, typ: sx.Pick(r, []int{1320, 1320, 1100}), mid: 90000}}
		if r.Chance(1, 3) {
			nest = append(nest, op{kind: opMaintain})
		}
		last.nest = nest
		ops = append(ops, last)
		cur += 5
		n = r.Intn(6)
	}
	for i := 0; i < n; i++ {
		var o op
		if timeout == 30*time.Millisecond && r.Chance(6, 100) {
			o.sleep = 70 * time.Millisecond
		}
		if i == closedAt {
			o.kind = opClose
			ops = append(ops, o)
			continue
		}
		c := r.Intn(100)
		switch {
		case c < 8:
			o.kind = opMaintain
		case c < 10:
			o.kind = opPushNil
		case c < 11:
			o.kind = opPushBadRaw
		default:
			o.kind = opPush
			if r.Chance(15, 100) {
				o.kind = opPushRaw
			}
			// sequence
			var off uint32
			d := r.Intn(100)
			switch {
			case d < 40:
				off = cur
			case d < 55:
				back := uint32(1 + r.Intn(3))
				if back > cur {
					back = cur
				}
				off = cur - back
			case d < 80:
				if cur < spread {
					cur++
				}
				off = cur
			case d < 90:
				g := uint32(2 + r.Intn(5))
				if cur+g <= spread && cur+g >= cur {
					cur += g
				}
				off = cur
			default:
				off = uint32(r.Next() % (uint64(spread) + 1))
			}
			if spread > 1000 && r.Chance(3, 5) {
				// the edges of the 2^24 window: pairs exactly 2^24-1 apart, and one or two inside
				off = sx.Pick(r, []uint32{0, 0, 1, 2, spread - 2, spread - 1, spread, spread})
			}
			o.seq = base + off
			if kind == "hostile" && r.Chance(1, 2) {
				o.seq = uint32(r.Next())
			}
			if kind == "restart" && r.Chance(1, 10) {
				base = uint32(r.Next())
				cur = 0
				o.seq = base
			}
			t := r.Intn(100)
			switch {
			case t < 50:
				o.typ = sx.Pick(r, plainTypes)
			case t < 75:
				o.typ = 1320
			default:
				o.typ = sx.Pick(r, completingTypes)
			}
			o.mid = mid
			mid++
		}
		ops = append(ops, o)
	}
	ops = append(ops, op{kind: opClose})
	if r.Chance(1, 3) {
		extra := []opKind{opMaintain, opClose, opPush}
		for k := 0; k < 1+r.Intn(3); k++ {
			o := op{kind: sx.Pick(r, extra)}
			if o.kind == opPush {
				o.seq, o.typ, o.mid = base+cur, 1300, mid
				mid++
			}
			ops = append(ops, o)
		}
		if r.Chance(1, 2) {
			ops = append(ops, op{kind: opClose})
		}
	}
	return
}

func runCase(seed uint64, idx int) (coq string, desc map[string]interface{}, cls string, nt bool) {
	r := sx.Fork(seed, uint64(idx))
	maxSize, timeout, ops, kind := gen(r, idx)
	s := &stream{ids: map[*auparse.AuditMessage]int{}}
	ra, err := libaudit.NewReassembler(maxSize, timeout, s)
	if err != nil {
		panic(err)
	}
	start := time.Now()
	var recs []*rec
	var hops []string
	var text []string
	deliveries := 0
	// exec performs one call; calls made from inside a Stream callback are recorded as history entries of their own, right
	// after the call they are nested in (whose state change - Put and CleanUp - is complete before any callback runs)
	var exec func(o op)
	exec = func(o op) {
		if o.sleep > 0 {
			time.Sleep(o.sleep)
			text = append(text, "sleep 70ms")
		}
		rc := &rec{}
		i := len(recs)
		recs = append(recs, rc)
		hops = append(hops, "")
		outer := s.cur
		s.cur = rc
		defer func() { s.cur = outer }()
		if len(o.nest) > 0 {
			s.pending = o.nest
		}
		switch o.kind {
		case opPush:
			// messages are told apart by pointer, so their text need not differ: runs of three hand-built messages carry no raw
			// text at all (two PATH records of one event then look alike in everything but identity)
			rawText := "id=" + strconv.Itoa(o.mid)
			if (o.mid/3)%2 == 0 {
				rawText = ""
			}
			m := &auparse.AuditMessage{RecordType: auparse.AuditMessageType(o.typ), Sequence: o.seq, RawData: rawText}
			s.ids[m] = o.mid
			text = append(text, fmt.Sprintf("push seq=%d type=%d", o.seq, o.typ))
			rc.lo = int64(time.Since(start))
			ra.PushMessage(m)
			rc.hi = int64(time.Since(start))
			hops[i] = fmt.Sprintf("HPush (Some (mk %d %d %d)) %d %d", o.mid, o.seq, o.typ, rc.lo, rc.hi)
		case opPushRaw:
			raw := fmt.Sprintf("audit(1500000000.123:%d): id=%d", o.seq, o.mid)
			text = append(text, fmt.Sprintf("pushraw seq=%d type=%d", o.seq, o.typ))
			rc.lo = int64(time.Since(start))
			// the bytes belong to the caller (a netlink read loop reuses its buffer): they are overwritten as soon as Push returns
			buf := append(s.rawbuf[:0], raw...)
			s.rawbuf = buf
			err := ra.Push(auparse.AuditMessageType(o.typ), buf)
			for k := range buf {
				buf[k] = '#'
			}
			rc.hi = int64(time.Since(start))
			if err != nil {
				rc.outs = append(rc.outs, "Panic")
			}
			hops[i] = fmt.Sprintf("HPush (Some (mk %d %d %d)) %d %d", o.mid, o.seq, o.typ, rc.lo, rc.hi)
		case opPushBadRaw:
			text = append(text, "pushraw malformed")
			rc.lo = int64(time.Since(start))
			err := ra.Push(auparse.AuditMessageType(1300), []byte("audit(1500000000.123"))
			rc.hi = int64(time.Since(start))
			if err == nil {
				rc.outs = append(rc.outs, "Panic")
			}
			hops[i] = fmt.Sprintf("HPush None %d %d", rc.lo, rc.hi)
		case opPushNil:
			text = append(text, "push nil")
			rc.lo = int64(time.Since(start))
			ra.PushMessage(nil)
			rc.hi = int64(time.Since(start))
			hops[i] = fmt.Sprintf("HPush None %d %d", rc.lo, rc.hi)
		case opMaintain:
			rc.lo = int64(time.Since(start))
			err := ra.Maintain()
			rc.hi = int64(time.Since(start))
			rc.outs = append(rc.outs, fmt.Sprintf("Ret %v", err == nil))
			hops[i] = fmt.Sprintf("HMaintain %d %d", rc.lo, rc.hi)
			text = append(text, fmt.Sprintf("maintain -> %v", err == nil))
		case opClose:
			err := ra.Close()
			rc.outs = append(rc.outs, fmt.Sprintf("Ret %v", err == nil))
			hops[i] = "HClose"
			text = append(text, fmt.Sprintf("close -> %v", err == nil))
		}
		text = append(text, rc.text...)
		deliveries += len(rc.text)
	}
	if kind == "reentrant" {
		// the Stream pushes further records and calls Maintain from inside its callbacks (single goroutine)
		rn := sx.Fork(seed, uint64(idx)+7<<32)
		nested, depth, nmid := 0, 0, 100000
		s.onDeliver = func(seq uint32) {
			if len(s.pending) > 0 {
				p := s.pending
				s.pending = nil
				for _, x := range p {
					exec(x)
				}
				return
			}
			if nested >= 8 || depth >= 2 || !rn.Chance(2, 5) {
				return
			}
			depth++
			for k := 1 + rn.Intn(2); k > 0; k-- {
				nested++
				if rn.Chance(1, 5) {
					exec(op{kind: opMaintain})
					continue
				}
				o := op{kind: opPush, mid: nmid, typ: sx.Pick(rn, []int{1300, 1302, 1320, 1320, 1100})}
				nmid++
				switch rn.Intn(4) {
				case 0:
					o.seq = seq // a late record for the event being delivered
				case 1:
					o.seq = seq + 1
				case 2:
					o.seq = seq + uint32(rn.Intn(4))
				default:
					o.seq = seq - uint32(rn.Intn(3))
				}
				exec(o)
			}
			depth--
		}
	}
	for _, o := range ops {
		exec(o)
	}
	obs := make([]string, len(recs))
	for i, rc := range recs {
		obs[i] = "[" + strings.Join(rc.outs, "; ") + "]"
	}
	coq = fmt.Sprintf("RCase %d (%d) [%s] [%s]", maxSize, int64(timeout), strings.Join(hops, "; "), strings.Join(obs, "; "))
	desc = map[string]interface{}{"case": idx, "maxInFlight": maxSize, "timeout": timeout.String(), "stream": kind, "history": strings.Join(text, " | ")}
	return coq, desc, kind + "/timeout=" + timeout.String(), deliveries > 1
}

func main() {
	seed := flag.Uint64("seed", 1, "seed")
	n := flag.Int("n", 1500, "cases")
	only := flag.Int("only", -1, "run only this case index")
	flag.Parse()
	out := sx.NewOut(os.Stdout)
	defer out.Flush()

	// NewReassembler must reject a nil Stream
	ra, err := libaudit.NewReassembler(5, time.Second, nil)
	out.Case(fmt.Sprintf("RNil %v", err != nil && ra == nil), map[string]interface{}{"new_reassembler_nil_stream_error": fmt.Sprint(err)}, "nil-stream", false)

	type res struct {
		coq  string
		desc map[string]interface{}
		cls  string
		nt   bool
	}
	lo, hi := 0, *n
	if *only >= 0 {
		lo, hi = *only, *only+1
	}
	results := make([]res, hi-lo)
	var wg sync.WaitGroup
	sem := make(chan struct{}, 8)
	for i := lo; i < hi; i++ {
		wg.Add(1)
		sem <- struct{}{}
		go func(i int) {
			defer wg.Done()
			defer func() { <-sem }()
			// a call that never returns (a lock taken around the callbacks and a Stream that calls back, say) must not hang the run:
			// the case is reported with a Panic observation, which no model run produces
			done := make(chan res, 1)
			go func() {
				// a panic inside the reassembler is reported the same way (no model run panics)
				defer func() {
					if p := recover(); p != nil {
						done <- res{"RCase 1 (3600000000000) [HPush None 0 0] [[Panic]]",
							map[string]interface{}{"case": i, "panicked": fmt.Sprint(p), "history": "re-run with -only to see it"}, "panicked", true}
					}
				}()
				c, d, cl, nt := runCase(*seed, i)
				done <- res{c, d, cl, nt}
			}()
			select {
			case r := <-done:
				results[i-lo] = r
			case <-time.After(10 * time.Second):
				results[i-lo] = res{"RCase 1 (3600000000000) [HPush None 0 0] [[Panic]]",
					map[string]interface{}{"case": i, "hung": "a call did not return within 10 s (re-run with -only to see the history)"}, "hung", true}
			}
		}(i)
	}
	wg.Wait()
	for _, r := range results {
		out.Case(r.coq, r.desc, r.cls, r.nt)
	}
}
