// Package sx holds what every harness command shares: a tiny s-expression
// writer (the wire format between the Go harness and the extracted Coq model),
// and the splitmix64 generator that all random choices are drawn from.
package sx

import (
	"bufio"
	"encoding/hex"
	"encoding/json"
	"io"
	"strconv"
	"strings"
)

// V is an s-expression: an atom or a list.
type V struct {
	Atom string
	List []V
	IsL  bool
}

func A(s string) V { return V{Atom: s} }
func I(i int64) V  { return V{Atom: strconv.FormatInt(i, 10)} }
func U(i uint64) V { return V{Atom: strconv.FormatUint(i, 10)} }
func L(vs ...V) V  { return V{List: vs, IsL: true} }
func B(b []byte) V { return V{Atom: "x" + hex.EncodeToString(b)} }
func S(s string) V { return B([]byte(s)) }
func Bool(b bool) V {
	if b {
		return A("T")
	}
	return A("F")
}

func (v V) write(sb *strings.Builder) {
	if !v.IsL {
		sb.WriteString(v.Atom)
		return
	}
	sb.WriteByte('(')
	for i, e := range v.List {
		if i > 0 {
			sb.WriteByte(' ')
		}
		e.write(sb)
	}
	sb.WriteByte(')')
}

func (v V) String() string {
	var sb strings.Builder
	v.write(&sb)
	return sb.String()
}

// Rng is splitmix64.
type Rng struct{ s uint64 }

func NewRng(seed uint64) *Rng { return &Rng{s: seed} }

func (r *Rng) Next() uint64 {
	r.s += 0x9e3779b97f4a7c15
	z := r.s
	z = (z ^ (z >> 30)) * 0xbf58476d1ce4e5b9
	z = (z ^ (z >> 27)) * 0x94d049bb133111eb
	return z ^ (z >> 31)
}

// Intn returns a value in [0,n).
func (r *Rng) Intn(n int) int {
	if n <= 0 {
		return 0
	}
	return int(r.Next() % uint64(n))
}

// Chance is true with probability num/den.
func (r *Rng) Chance(num, den int) bool { return r.Intn(den) < num }

// Fork derives an independent generator for case i.  The index is hashed into
// the state: splitmix64 streams whose states differ by a multiple of the
// increment are shifted copies of each other, so a linear derivation would make
// consecutive cases share most of their draws.
func Fork(seed uint64, i uint64) *Rng {
	t := NewRng(seed ^ ((i + 1) * 0xD1342543DE82EF95))
	a := t.Next()
	b := t.Next()
	return NewRng(a ^ (b << 17) ^ (b >> 47) ^ (i * 0x2545f4914f6cdd1d))
}

// Pick returns one element of xs.
func Pick[T any](r *Rng, xs []T) T { return xs[r.Intn(len(xs))] }

// Out writes the harness protocol: one JSON object per line.
type Out struct{ w *bufio.Writer }

func NewOut(f io.Writer) *Out { return &Out{w: bufio.NewWriterSize(f, 1<<20)} }
func (o *Out) Flush()         { o.w.Flush() }

// Case emits one case: the Coq term the judge is applied to, a readable
// description (also what a replay file shows), an input class and whether the
// case is non-trivial by the property's rule.
func (o *Out) Case(coq string, desc interface{}, cls string, nontrivial bool) {
	b, _ := json.Marshal(map[string]interface{}{"coq": coq, "desc": desc, "cls": cls, "nt": nontrivial})
	o.w.Write(b)
	o.w.WriteByte('\n')
}

// Meta emits run-level counters that end up in the evidence file.
func (o *Out) Meta(m map[string]interface{}) {
	b, _ := json.Marshal(map[string]interface{}{"meta": m})
	o.w.Write(b)
	o.w.WriteByte('\n')
}

// Hx renders bytes as the Coq term (hx "..") of type str.
func Hx(b []byte) string { return `(hx "` + hex.EncodeToString(b) + `")` }
