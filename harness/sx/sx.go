// Package sx holds what every harness command shares: a tiny s-expression
// writer (the wire format between the Go harness and the extracted Coq model),
// and the splitmix64 generator that all random choices are drawn from.
package sx

import (
	"bufio"
	"encoding/hex"
	"encoding/json"
	"io"
	"os"
	"runtime"
	"strconv"
	"strings"
	"sync"
	"time"
)

// V is an s-expression: an atom or a list.
type V struct {
	Atom string
	List []V
	IsL  bool
}

func A(s string) V { return V{Atom: s} }
func I(i int64) V  { return V{Atom: strconv.FormatInt(i, 10)} }
func U(i uint64) V { return V{Atom: strconv.FormatUint(i, 10)} }
func L(vs ...V) V  { return V{List: vs, IsL: true} }
func B(b []byte) V { return V{Atom: "x" + hex.EncodeToString(b)} }
func S(s string) V { return B([]byte(s)) }
func Bool(b bool) V {
	if b {
		return A("T")
	}
	return A("F")
}

func (v V) write(sb *strings.Builder) {
	if !v.IsL {
		sb.WriteString(v.Atom)
		return
	}
	sb.WriteByte('(')
	for i, e := range v.List {
		if i > 0 {
			sb.WriteByte(' ')
		}
		e.write(sb)
	}
	sb.WriteByte(')')
}

func (v V) String() string {
	var sb strings.Builder
	v.write(&sb)
	return sb.String()
}

// Rng is splitmix64.
type Rng struct{ s uint64 }

func NewRng(seed uint64) *Rng { return &Rng{s: seed} }

func (r *Rng) Next() uint64 {
	r.s += 0x9e3779b97f4a7c15
	z := r.s
	z = (z ^ (z >> 30)) * 0xbf58476d1ce4e5b9
	z = (z ^ (z >> 27)) * 0x94d049bb133111eb
	return z ^ (z >> 31)
}

// Intn returns a value in [0,n).
func (r *Rng) Intn(n int) int {
	if n <= 0 {
		return 0
	}
	return int(r.Next() % uint64(n))
}

// Chance is true with probability num/den.
func (r *Rng) Chance(num, den int) bool { return r.Intn(den) < num }

// Fork derives an independent generator for case i.  The index is hashed into
// the state: splitmix64 streams whose states differ by a multiple of the
// increment are shifted copies of each other, so a linear derivation would make
// consecutive cases share most of their draws.
func Fork(seed uint64, i uint64) *Rng {
	t := NewRng(seed ^ ((i + 1) * 0xD1342543DE82EF95))
	a := t.Next()
	b := t.Next()
	return NewRng(a ^ (b << 17) ^ (b >> 47) ^ (i * 0x2545f4914f6cdd1d))
}

// Pick returns one element of xs.
func Pick[T any](r *Rng, xs []T) T { return xs[r.Intn(len(xs))] }

// Out writes the harness protocol: one JSON object per line.
type Out struct {
	mu       sync.Mutex
	w        *bufio.Writer
	inflight []byte    // the announcement of the input the implementation is working on, nil between cases
	began    time.Time // when it was announced
	watching bool
}

func NewOut(f io.Writer) *Out { return &Out{w: bufio.NewWriterSize(f, 1<<20)} }
func (o *Out) Flush() {
	o.mu.Lock()
	o.w.Flush()
	o.mu.Unlock()
}

// CaseLimit is how long one announced input may keep the implementation busy before the harness gives up on it.
var CaseLimit = 40 * time.Second

// Begin announces the input that is about to be handed to the implementation and pushes the announcement out
// at once.  A fatal runtime error inside the call (a stack overflow, a concurrent map write: recover() does
// not see those) kills the process, and a call that never returns is ended by the watchdog below; in both
// cases the last announcement on stdout names the failing input, and lib/vcheck.py reports it.  Case() and
// End() close the announcement.
func (o *Out) Begin(desc interface{}) {
	b, _ := json.Marshal(map[string]interface{}{"begin": desc})
	o.mu.Lock()
	o.w.Write(b)
	o.w.WriteByte('\n')
	o.w.Flush()
	o.inflight, o.began = b, time.Now()
	if !o.watching {
		o.watching = true
		go o.watch()
	}
	o.mu.Unlock()
}

// End closes an announcement without emitting a case.
func (o *Out) End() {
	o.mu.Lock()
	if o.inflight != nil {
		o.inflight = nil
		o.w.WriteString("{\"end\":1}\n")
		o.w.Flush()
	}
	o.mu.Unlock()
}

func (o *Out) watch() {
	for {
		time.Sleep(500 * time.Millisecond)
		o.mu.Lock()
		if o.inflight != nil && time.Since(o.began) > CaseLimit {
			b, _ := json.Marshal(map[string]interface{}{"hung": json.RawMessage(o.inflight), "seconds": int(time.Since(o.began).Seconds())})
			o.w.Write(b)
			o.w.WriteByte('\n')
			o.w.Flush()
			buf := make([]byte, 1<<20)
			os.Stderr.Write(buf[:runtime.Stack(buf, true)])
			os.Exit(4)
		}
		o.mu.Unlock()
	}
}

// Case emits one case: the Coq term the judge is applied to, a readable
// description (also what a replay file shows), an input class and whether the
// case is non-trivial by the property's rule.
func (o *Out) Case(coq string, desc interface{}, cls string, nontrivial bool) {
	b, _ := json.Marshal(map[string]interface{}{"coq": coq, "desc": desc, "cls": cls, "nt": nontrivial})
	o.mu.Lock()
	o.w.Write(b)
	o.w.WriteByte('\n')
	if o.inflight != nil {
		o.inflight = nil
		o.w.Flush()
	}
	o.mu.Unlock()
}

// Meta emits run-level counters that end up in the evidence file.
func (o *Out) Meta(m map[string]interface{}) {
	b, _ := json.Marshal(map[string]interface{}{"meta": m})
	o.mu.Lock()
	o.w.Write(b)
	o.w.WriteByte('\n')
	o.mu.Unlock()
}

// Hx renders bytes as the Coq term (hx "..") of type str.
func Hx(b []byte) string { return `(hx "` + hex.EncodeToString(b) + `")` }
