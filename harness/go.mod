module verifharness

go 1.21

require (
	github.com/elastic/go-libaudit/v2 v2.0.0
	github.com/kballard/go-shellquote v0.0.0-20180428030007-95032a82bc51
	golang.org/x/sys v0.11.0
)

require gopkg.in/yaml.v3 v3.0.1 // indirect

replace github.com/elastic/go-libaudit/v2 => /repo
