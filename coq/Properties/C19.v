(* Properties/C19.v — timeouts and Close. *)
From Coq Require Import List ZArith Bool.
Import ListNotations.
Require Import Reassembler ReasmInv ReasmC01 ReasmClose.
Open Scope Z_scope.

(* after a Close, whatever else is called, Maintain and a further Close return the
   error and deliver nothing; all histories, configurations and clock readings *)
Theorem C19_closed_is_final : forall c ops1 ops2 now,
  let s := exec c init (ops1 ++ [Close] ++ ops2) in
  step c s (Maintain now) = (s, [Ret false]) /\ step c s Close = (s, [Ret false]).
Proof. exact closed_is_final. Qed.

(* a Close on a Reassembler that is not closed returns success *)
Theorem C19_first_close_succeeds : forall c s, closed s = false -> In (Ret true) (snd (step c s Close)).
Proof. exact first_close_succeeds. Qed.

(* and it flushes: chk_C01 requires that no pushed message is left undelivered after a successful Close *)
Theorem C19_close_flushes_everything : forall c ops, chk_C01 [] ops (run c init ops) = true.
Proof. exact ReasmC01.C01_exactly_once_grouped. Qed.

Print Assumptions C19_closed_is_final.
Print Assumptions C19_first_close_succeeds.
Print Assumptions C19_close_flushes_everything.
