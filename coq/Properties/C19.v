(* Properties/C19.v — timeouts and Close. *)
From Coq Require Import List ZArith Bool Lia.
Import ListNotations.
Require Import Reassembler ReasmInv ReasmC01 ReasmClose ReasmCause ChkReasm ReasmWalk.
Open Scope Z_scope.

(* after a Close, whatever else is called, Maintain and a further Close return the
   error and deliver nothing; all histories, configurations and clock readings *)
Theorem C19_closed_is_final : forall c ops1 ops2 now,
  let s := exec c init (ops1 ++ [Close] ++ ops2) in
  step c s (Maintain now) = (s, [Ret false]) /\ step c s Close = (s, [Ret false]).
Proof. exact closed_is_final. Qed.

(* a Close on a Reassembler that is not closed returns success *)
Theorem C19_first_close_succeeds : forall c s, closed s = false -> In (Ret true) (snd (step c s Close)).
Proof. exact first_close_succeeds. Qed.

(* and it flushes: chk_C01 requires that no pushed message is left undelivered after a successful Close *)
Theorem C19_close_flushes_everything : forall c ops, chk_C01 [] ops (run c init ops) = true.
Proof. exact ReasmC01.C01_exactly_once_grouped. Qed.

(* THE WHOLE PROPERTY ON TRACES.  chk_C19_obs is the checker the judge evaluates on recorded
   histories (clock stamps around every call): after every Maintain / PushMessage the oldest remaining
   event is not one whose timeout had elapsed when the call began; no delivery outside Close without
   cause (so none on account of time before the timeout); the first Close returns success and leaves
   nothing undelivered; afterwards Maintain and Close return the error and make no callback.  It
   accepts every run of the model, for every timeout (negative, zero, any) and all clock readings. *)
Theorem C19_timeout_and_close_on_traces : forall c ops, 0 <= maxSize c -> clock_ok ops ->
  chk_C19_obs (maxSize c) (timeout c) (map exact ops) (run c init ops) = true.
Proof. exact chk_C19_obs_run. Qed.

(* non-vacuity: timeout 10; a record at time 0, Maintain at 5 (nothing), Maintain at 11 (flushed), Close, Maintain *)
Example C19_example :
  let ops := [Push (Some (Build_msg 0 7 1300)) 0 0; Maintain 5; Maintain 11; Push (Some (Build_msg 1 8 1300)) 12 12; Close; Maintain 20; Close] in
  clock_ok ops /\
  run {| maxSize := 5; timeout := 10 |} init ops =
    [[]; [Ret true]; [Complete [Build_msg 0 7 1300]; Ret true]; []; [Complete [Build_msg 1 8 1300]; Ret true]; [Ret false]; [Ret false]].
Proof. split; [repeat constructor; cbn; lia | vm_compute; reflexivity]. Qed.

(* timeouts, on the model's state, for every buffer content, configuration (negative, zero, any
   timeout) and clock reading: what CleanUp leaves at the head is not expired — so an event that
   never completes goes in the first Maintain / PushMessage whose clock reading is past its
   expiry, as soon as it is the oldest *)
Theorem C19_head_not_stale : forall c now sqs em last has,
  let '(sqs', em', _, _, outs, _) := evict false c now sqs em last has in
  In Panic outs \/
  match sqs' with
  | [] => True
  | k :: _ => exists e, lookup k em' = Some e /\ complete e = false /\ Z.of_nat (length sqs') <= maxSize c /\ now <= expire e
  end.
Proof. exact head_after_cleanup. Qed.
(* never on account of time before that: an eviction of an incomplete event from a buffer within
   its bound happens only at a clock reading past the expiry *)
Theorem C19_no_early_timeout : forall c now sqs em t, In t (evict_log false c now sqs em) ->
  let '(sq, e, size) := t in complete e = true \/ size > maxSize c \/ now > expire e.
Proof. exact evictions_have_cause. Qed.
(* and the expiry is the reading of the Put that opened the event plus the timeout; later records do not move it *)
Theorem C19_expiry_fixed_at_open : forall c now m s,
  (lookup (mseq m) (events s) = None -> (mty m =? AUDIT_EOE) = false ->
   exists e, lookup (mseq m) (events (put c now m s)) = Some e /\ expire e = now + timeout c) /\
  (forall k e, lookup k (events s) = Some e -> exists e', lookup k (events (put c now m s)) = Some e' /\ expire e' = expire e).
Proof. intros c now m s. split; [apply put_opens_with_timeout | intros k e; apply put_keeps_expiry]. Qed.

Print Assumptions C19_timeout_and_close_on_traces.
Print Assumptions C19_head_not_stale.
Print Assumptions C19_no_early_timeout.
Print Assumptions C19_expiry_fixed_at_open.
Print Assumptions C19_closed_is_final.
Print Assumptions C19_first_close_succeeds.
Print Assumptions C19_close_flushes_everything.
