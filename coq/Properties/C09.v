(* Properties/C09.v — coalescing keeps every record's fields, the event identity and file facts.
   Check/ChkCoalesce.v holds the model of the field routing (newEvent, normalizeCompound,
   addExecveRecord, addSockaddrRecord, addFieldsToEventData) and the observation-level
   checker chk_C09 that is evaluated on every event the implementation returns. *)
From Coq Require Import List Ascii String NArith ZArith Bool Arith Lia.
Import ListNotations.
Require Import KV Parser ChkCoalesce CoalesceProofs CoalesceCompound ChkNorm NormProofs.
Local Close Scope N_scope.

(* newEvent: for every record whose keys are pairwise different (a Go map), every field other
   than result / ses is stored under its own name in Data, User.IDs (…uid / …gid) or
   User.SELinux (subj_…), whatever the other fields are — nothing is dropped or overwritten *)
Theorem C09_primary_nothing_dropped_partial : forall d e k v,
  (forall i j a b c, nth_error d i = Some (a, b) -> nth_error d j = Some (a, c) -> i = j) ->
  In (k, v) d -> special k = false -> slot (distribute d e) k = Some v.
Proof. exact distribute_keeps_all. Qed.
(* and result / session come from that record ("unknown" when it has no result) *)
Theorem C09_result_session : forall d e,
  m_result (distribute d e) = Some (match fget (L "result") d with Some x => x | None => L "unknown" end) /\
  m_session (distribute d e) = fget (L "ses") d.
Proof. exact distribute_result_session. Qed.
(* normalizeCompound: a record in the middle of a compound event, of a type with no routing of its own
   (not SYSCALL / PATH / SOCKADDR / EXECVE), whatever precedes and follows it: every field whose key no
   other record type may overwrite (not items, argc, socket_...) is in Data at the end - with the written
   value if the key was new and the record's keys are pairwise different - and if the key was already
   taken, the warning count has grown *)
Theorem C09_compound_fields_kept : forall l1 r l2 e0 d k v,
  generic r = true -> r_data r = Some d -> In (k, v) d -> safe_key k = true ->
  let e1 := fold_left route l1 e0 in
  let e := fold_left route (l1 ++ r :: l2) e0 in
  (exists v', fget k (m_data e) = Some v' /\ (fget k (m_data e1) = None -> NoDup (map fst d) -> v' = v)) /\
  (fget k (m_data e1) <> None -> m_warn e1 < m_warn e).
Proof. exact compound_fields_kept. Qed.
(* every PATH record is in Paths at the end, whatever precedes and follows it *)
Theorem C09_compound_paths_kept : forall l1 r l2 e0 d,
  is_syscall r = false -> N.eqb (r_type r) MsgTypes.AUDIT_PATH = true -> r_data r = Some d ->
  In d (m_paths (fold_left route (l1 ++ r :: l2) e0)).
Proof. exact compound_paths_kept. Qed.

(* an EXECVE record of a compound event: the warning count never drops, and unless it grows, argc is in
   Data and Process.Args holds the values of a0 .. a(argc-1) in order *)
Theorem C09_execve_record_kept : forall e r d,
  is_syscall r = false -> r_type r = MsgTypes.AUDIT_EXECVE -> r_data r = Some d ->
  let e' := route e r in
  m_warn e <= m_warn e' /\
  (m_warn e' = m_warn e ->
   exists argc c args, fget (L "argc") d = Some argc /\ fget (L "argc") (m_data e') = Some argc /\
     read_num digit_of 10 argc 0%N = Some c /\ m_args e' = Some args /\
     (N.to_nat c <= List.length d -> List.length args = N.to_nat c /\
        forall j, j < N.to_nat c -> fget (L "a" ++ Dec.dec (N.of_nat j)) d = Some (nth j args []))).
Proof. intros e r d Hs Ht Hd. unfold route. rewrite Hs, Hd, Ht. exact (add_execve_kept d e). Qed.
(* a SOCKADDR record: unless a warning is counted (no syscall name to classify it), every field of the
   record is in Data under socket_<key> *)
Theorem C09_sockaddr_record_kept : forall e r d,
  is_syscall r = false -> r_type r = MsgTypes.AUDIT_SOCKADDR -> r_data r = Some d ->
  let e' := route e r in
  m_warn e <= m_warn e' /\
  (m_warn e' = m_warn e -> NoDup (map fst d) -> forall k v, In (k, v) d -> fget (L "socket_" ++ k) (m_data e') = Some v).
Proof. intros e r d Hs Ht Hd. unfold route. rewrite Hs, Hd, Ht. exact (add_sockaddr_kept d e). Qed.

(* setFileObject: the file summary mirrors the PATH record the normalisation selects (Check/ChkNorm.v:
   the first record at or after the normalisation's path index that is neither PARENT nor UNKNOWN) -
   path, inode and device always; when the mode parses, the owner ids and the permission bits
   (mode & 07777, four octal digits) as well *)
Theorem C09_file_summary_mirrors_selected_path : forall paths hint what op0,
  paths <> [] ->
  let p := selected paths hint in
  let '(f, op, ot, bad) := set_file_object paths hint what op0 in
  In p paths /\
  fget (L "path") f = fget (L "name") p /\ fget (L "inode") f = fget (L "inode") p /\ fget (L "device") f = fget (L "rdev") p /\
  op = match fget (L "name") p with Some v => v | None => op0 end /\
  (bad = false ->
     fget (L "uid") f = fget (L "ouid") p /\ fget (L "gid") f = fget (L "ogid") p /\
     forall ms, fget (L "mode") p = Some ms -> exists mode, oct64 ms = Some mode /\ fget (L "mode") f = Some (oct04 (N.land mode 4095))).
Proof. exact file_object_mirrors. Qed.

(* an error instead of a partial event: no records, or several records without a SYSCALL record *)
Theorem C09_error_not_partial : model_event [] = None /\
  forall rs, (2 <= List.length (filter_eoe rs))%nat -> existsb is_syscall (filter_eoe rs) = false -> model_event rs = None.
Proof.
  split; [reflexivity|]. intros rs Hl Hs. unfold model_event. destruct (filter_eoe rs) as [|r1 [|r2 l]] eqn:E; cbn in Hl; try lia.
  assert (F: find is_syscall (r1 :: r2 :: l) = None).
  { clear -Hs. induction (r1 :: r2 :: l) as [|x xs IH]; cbn in *; auto. destruct (is_syscall x); [discriminate|]. apply IH. exact Hs. }
  rewrite F. reflexivity.
Qed.
(* the object type: the unix reading of the mode's file-type bits, and what the pinned code
   computes instead (known finding; the check decides, over all 65536 modes, which one the tree has) *)
Theorem C09_object_type_variants : forall mode, gofilemode_type mode = L "file" /\
  (N.land mode 61440 = 16384%N -> spec_type mode = L "directory").
Proof. intros mode. split; [reflexivity|]. intros H. unfold spec_type. rewrite H. reflexivity. Qed.

(* the object type of a file summary in the model the checker runs: the default when the selected PATH
   record has no mode (with a warning when it has one that is not octal), else obj_type_of_mode - which
   reads the number as a Go os.FileMode, so every unix mode (all of 0..0177777 and up to 2^19) comes out
   as "file": the theorem form of the known finding *)
Theorem C09_file_object_type : forall paths hint what op0,
  let p := selected paths hint in
  let '(_, _, ot, bad) := set_file_object paths hint what op0 in
  match fget (L "mode") p with
  | None => ot = what /\ bad = false
  | Some ms => match oct64 ms with
               | None => ot = what /\ bad = true
               | Some mode => ot = obj_type_of_mode mode what /\ bad = false
               end
  end.
Proof. exact file_object_type. Qed.
Theorem C09_unix_modes_read_as_file : forall mode dflt, (mode < 2 ^ 19)%N -> obj_type_of_mode mode dflt = L "file".
Proof. exact object_type_of_unix_mode. Qed.

Print Assumptions C09_execve_record_kept.
Print Assumptions C09_sockaddr_record_kept.
Print Assumptions C09_file_object_type.
Print Assumptions C09_unix_modes_read_as_file.
Print Assumptions C09_primary_nothing_dropped_partial.
Print Assumptions C09_result_session.
Print Assumptions C09_compound_fields_kept.
Print Assumptions C09_compound_paths_kept.
Print Assumptions C09_file_summary_mirrors_selected_path.
Print Assumptions C09_error_not_partial.
Print Assumptions C09_object_type_variants.
