(* Properties/C14.v — rule flag parsing accounts for every token or rejects the line.
   Model/Flags.v: [flags_parse] reads the tokens the way Go's flag package does for the
   nine flags of the package; [expected_of_items] is the declarative reading of a line
   as a list of items.  Model/FilterRe.v and Flags.scan_compare model the two patterns. *)
From Coq Require Import List Ascii String Bool Arith.
Import ListNotations.
Require Import KV Trim FilterRe Flags RegexPins FlagsProofs.
Local Open Scope string_scope.
Local Open Scope list_scope.

(* the patterns modelled are the ones compiled into the package (generated, re-checked every run) *)
Theorem C14_patterns_pinned :
  (filter_regex_src, comparison_regex_src) = ("(?s)^(\w+)\s*(<=|>=|&=|=|!=|<|>|&)(.+)$", "^(\w+)\s*(!?=)(\w+)$").
Proof. exact regex_pins_ok. Qed.

(* each -F argument contributes one filter whose field, operator and value are the complete
   text before, at and after the operator: nothing in front, nothing dropped behind *)
Theorem C14_filter_complete : forall v lhs o rhs, scan_filter v = Some (lhs, o, rhs) ->
  exists ws, v = lhs ++ ws ++ o ++ rhs /\ lhs <> [] /\ forallb is_word lhs = true /\ forallb is_blank ws = true /\ In o ops /\ rhs <> [].
Proof. exact scan_filter_complete. Qed.
Theorem C14_compare_complete : forall v lhs o rhs, scan_compare v = Some (lhs, o, rhs) ->
  exists ws, v = lhs ++ ws ++ o ++ rhs /\ lhs <> [] /\ forallb is_word lhs = true /\ forallb is_blank ws = true /\
             (o = l "=" \/ o = l "!=") /\ rhs <> [] /\ forallb is_word rhs = true.
Proof. exact scan_compare_complete. Qed.

(* mixing delete, watch and syscall flags, or giving both or neither of -a/-A, is rejected *)
Theorem C14_exclusive : forall p r, validate p = Some r ->
  match r with
  | PDelete _ => seen_any p ["D"] = true /\ seen_any p ["w"; "p"] = false /\ seen_any p ["a"; "A"; "C"; "F"; "S"] = false
  | PWatch _ _ _ => seen_any p ["D"] = false /\ seen_any p ["w"; "p"] = true /\ seen_any p ["a"; "A"; "C"; "F"; "S"] = false
  | PSyscall pre _ _ _ _ _ => seen_any p ["D"] = false /\ seen_any p ["w"; "p"] = false /\ seen_any p ["a"; "A"; "C"; "F"; "S"] = true /\
                              (if pre then p_append p = None /\ p_prepend p <> None else p_append p <> None /\ p_prepend p = None)
  end.
Proof. exact validate_exclusive. Qed.

(* no token is skipped: for every line made of flags with their values (any values), the
   flag package's reading of the tokens is the item-by-item reading, in which every
   item either contributes in full or makes the whole line an error *)
Theorem C14_tokens_read_as_items : forall its, flags_only its -> flags_parse (flat_map render_item its) = expected_of_items its.
Proof. exact tokens_read_as_items. Qed.
(* the same with stray words (any token not of the form -x...) and the "--" terminator in the line *)
Theorem C14_tokens_read_as_all_items : forall its, items_ok its -> flags_parse (flat_map render_item its) = expected_of_items its.
Proof. exact tokens_read_as_all_items. Qed.
(* so the parser itself rejects a line with a stray word anywhere, and a line with anything after "--" *)
Theorem C14_parser_rejects_stray : forall a w b, items_ok (a ++ FStray w :: b) -> flags_parse (flat_map render_item (a ++ FStray w :: b)) = None.
Proof. exact parser_rejects_stray. Qed.
Theorem C14_parser_rejects_after_terminator : forall a x b, items_ok (a ++ FTerm :: x :: b) -> flags_parse (flat_map render_item (a ++ FTerm :: x :: b)) = None.
Proof. exact parser_rejects_after_terminator. Qed.
(* (the item-by-item reading rejects them by definition) *)
Theorem C14_stray_rejected : forall a w b, expected_of_items (a ++ FStray w :: b) = None.
Proof.
  intros a w b. unfold expected_of_items.
  assert (G: forall p, apply_items p (a ++ FStray w :: b) = None).
  { induction a as [|it a IH]; intros p; cbn [app apply_items]; auto.
    destruct it as [n v| |w'|]; auto.
    - destruct (set_flag p n v); auto.
    - destruct (a ++ FStray w :: b) eqn:E; auto. destruct a; discriminate. }
  rewrite G. reflexivity.
Qed.

(* non-vacuity *)
Example C14_example :
  flags_parse [l "-a"; l "always,exit"; l "-F"; l "path=/tmp/my dir"; l "-S"; l "open, close"; l "-k=k1"]
  = Some (PSyscall false (l "exit") (l "always") [(false, l "path", l "=", l "/tmp/my dir")] [l "open"; l "close"] [l "k1"]).
Proof. vm_compute. reflexivity. Qed.

Print Assumptions C14_patterns_pinned.
Print Assumptions C14_filter_complete.
Print Assumptions C14_compare_complete.
Print Assumptions C14_exclusive.
Print Assumptions C14_tokens_read_as_items.
Print Assumptions C14_stray_rejected.
Print Assumptions C14_tokens_read_as_all_items.
Print Assumptions C14_parser_rejects_stray.
Print Assumptions C14_parser_rejects_after_terminator.
