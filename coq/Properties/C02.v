(* Properties/C02.v — ascending (roll-over aware) delivery order, late arrivals excepted.
   chk_C02: at every delivery of sequence a, every other sequence b that is pushed
   and undelivered at that moment satisfies less a b (the comparator of the code).
   windowed: the property's quantifier — at every push, the incoming sequence and
   the undelivered ones lie in one interval [base, base+2^24) modulo 2^32. *)
From Coq Require Import List ZArith Bool.
Import ListNotations.
Require Import Reassembler ReasmInv ReasmC01 Window SortAppend ReasmC02 ChkReasm WindowB.
Open Scope Z_scope.

Theorem C02_order : forall c ops, windowed [] ops (run c init ops) -> chk_C02 [] ops (run c init ops) = true.
Proof. exact ReasmC02.C02_order. Qed.

(* the form the judge evaluates on recorded histories *)
Theorem C02_order_obs : forall c ops, chk_C02_obs (map exact ops) (run c init ops) = true.
Proof.
  intros c ops. unfold chk_C02_obs. rewrite early_exact.
  destruct (windowedb [] ops (run c init ops)) eqn:E; auto.
  apply ReasmC02.C02_order. apply windowedb_windowed. exact E.
Qed.

(* inside one window the comparator is the order by distance from the base *)
Theorem C02_less_is_window_order : forall base a b, 0 <= base < 2^32 -> inwin base a -> inwin base b ->
  less a b = true <-> off base a < off base b.
Proof. exact less_in_window. Qed.

(* non-vacuity: a window that straddles 2^32-1 -> 0, with disorder and overflow, is windowed *)
Example C02_example :
  let ops := [Push (Some (Build_msg 0 4294967295 1300)) 0 0; Push (Some (Build_msg 1 1 1300)) 1 1;
              Push (Some (Build_msg 2 0 1300)) 2 2; Push (Some (Build_msg 3 4294967294 1300)) 3 3; Close] in
  let tr := run {| maxSize := 2; timeout := 100 |} init ops in
  windowedb [] ops tr = true /\
  tr = [[]; []; [Complete [Build_msg 0 4294967295 1300]]; [Complete [Build_msg 3 4294967294 1300]];
        [Complete [Build_msg 2 0 1300]; Complete [Build_msg 1 1 1300]; Ret true]].
Proof. vm_compute. split; reflexivity. Qed.

Print Assumptions C02_order.
Print Assumptions C02_order_obs.
Print Assumptions C02_less_is_window_order.
