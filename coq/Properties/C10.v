(* Properties/C10.v — at most maxInFlight events buffered; eviction only for cause. *)
From Coq Require Import List ZArith Bool.
Import ListNotations.
Require Import Reassembler ReasmInv ReasmC01 ReasmC10 ChkBound ReasmBound ReasmCause ChkReasm ReasmWalk.
Require ReasmConstsOk.
Open Scope Z_scope.

(* the bound, for every history (no window needed): after every Push at most
   maxInFlight distinct sequences are pushed-but-undelivered *)
Theorem C10_bound_any_history : forall c ops, 0 <= maxSize c -> chk_bound (maxSize c) [] ops (run c init ops) = true.
Proof. intros c ops H. apply run_chk_bound; auto. apply InvL_init. Qed.

(* THE WHOLE PROPERTY ON TRACES.  chk_C10_obs is the checker the judge evaluates on recorded
   histories: it reconstructs, from pushes and callbacks alone, the buffered sequences, which of them
   are complete and when each was opened, and requires after every Push the bound, for every
   delivery outside Close a cause (complete, or more than maxInFlight buffered, or timeout elapsed),
   and (inside a 2^24 window) that the oldest buffered event is not complete.  It accepts every run
   of the model: all histories, all maxInFlight >= 0, all timeouts, all clock readings in which a
   call's second reading is not before its first. *)
Theorem C10_bound_and_cause_on_traces : forall c ops, 0 <= maxSize c -> clock_ok ops ->
  chk_C10_obs (maxSize c) (timeout c) (map exact ops) (run c init ops) = true.
Proof. exact chk_C10_obs_run. Qed.

(* eviction only for cause: every delivery CleanUp makes outside Close is of an event that is
   complete, or found more than maxInFlight sequences buffered, or whose timeout had elapsed —
   for every buffer content, configuration and clock reading (evict_log is evict with a ghost
   log of the events as they were when evicted; evict_log_outs ties it to the callbacks) *)
Theorem C10_evicted_only_for_cause : forall c now sqs em t, In t (evict_log false c now sqs em) ->
  let '(sq, e, size) := t in complete e = true \/ size > maxSize c \/ now > expire e.
Proof. exact evictions_have_cause. Qed.
Theorem C10_log_is_the_deliveries : forall force c now sqs em last has,
  let '(_, _, _, _, outs, _) := evict force c now sqs em last has in
  (In Panic outs \/ outs_of outs = map (fun t => msgs (snd (fst t))) (evict_log force c now sqs em)).
Proof. exact evict_log_outs. Qed.
(* the oldest buffered event is never one that is already complete (nor over the bound, nor expired) *)
Theorem C10_head_not_complete : forall c now sqs em last has,
  let '(sqs', em', _, _, outs, _) := evict false c now sqs em last has in
  In Panic outs \/
  match sqs' with
  | [] => True
  | k :: _ => exists e, lookup k em' = Some e /\ complete e = false /\ Z.of_nat (length sqs') <= maxSize c /\ now <= expire e
  end.
Proof. exact head_after_cleanup. Qed.

(* "complete" means what the code means: the record-type numbers of the model are the compiled constants *)
Theorem C10_completion_constants : ReasmConstsOk.reasm_consts_okb = true.
Proof. exact ReasmConstsOk.reasm_consts_ok. Qed.

Print Assumptions C10_completion_constants.
Print Assumptions C10_bound_any_history.
Print Assumptions C10_bound_and_cause_on_traces.
Print Assumptions C10_evicted_only_for_cause.
Print Assumptions C10_log_is_the_deliveries.
Print Assumptions C10_head_not_complete.
