(* Properties/C10.v — at most maxInFlight events buffered; eviction only for cause. *)
From Coq Require Import List ZArith Bool.
Import ListNotations.
Require Import Reassembler ReasmInv ReasmC01 ReasmC10 ChkBound ReasmBound.
Open Scope Z_scope.

(* the bound, for every history (no window needed): after every Push at most
   maxInFlight distinct sequences are pushed-but-undelivered *)
Theorem C10_bound_any_history : forall c ops, 0 <= maxSize c -> chk_bound (maxSize c) [] ops (run c init ops) = true.
Proof. intros c ops H. apply run_chk_bound; auto. apply InvL_init. Qed.

Print Assumptions C10_bound_any_history.
