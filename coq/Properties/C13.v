(* Properties/C13.v — encoder, decoder and flag parser never panic; bad input is an error.
   Model/RuleDecode.v makes every slice expression, fixed-array index and allocation
   of fromWireFormat / fromAuditRuleData explicit (outcome Panic); Model/Mask.v does
   the same for the syscall mask. *)
From Coq Require Import List Ascii NArith ZArith Bool.
Import ListNotations.
Require Import Bytes Mach RuleDecode Mask RuleText.
Open Scope N_scope.

(* every byte slice: the decoder returns data or an error *)
Theorem C13_decode_total : forall data, decode data <> Panic.
Proof. exact decode_no_panic. Qed.
(* success implies the bytes were a structurally valid rule: at most 64 fields (so the
   three slices allocated are at most 64 long, whatever number the input claims), the
   buffer inside the slice *)
Theorem C13_success_valid : forall data r, decode data = Ok r ->
  exists h buf, from_wire data = Ok (h, buf) /\ fcount h <= 64 /\ length (r_fields r) = N.to_nat (fcount h) /\
                (1040 + N.to_nat (buflen h) <= length data)%nat.
Proof. exact decode_ok_valid. Qed.
(* ToCommandLine as modelled (Model/RuleText.v): whenever it returns text, the bytes decoded, hence were structurally valid *)
Theorem C13_text_implies_valid : forall data t, text_of_wire data = Some t ->
  exists r h buf, decode data = Ok r /\ from_wire data = Ok (h, buf) /\ fcount h <= 64 /\ (1040 + N.to_nat (buflen h) <= length data)%nat.
Proof.
  intros data t H. unfold text_of_wire in H. destruct (from_wire data) as [[h buf]|e|] eqn:E; try discriminate.
  destruct (from_audit_rule_data h buf) as [rd|e|] eqn:E2; try discriminate.
  assert (Hd: decode data = Ok rd) by (unfold decode; rewrite E; exact E2).
  destruct (decode_ok_valid _ _ Hd) as (h' & buf' & Hfw & Hc & _ & Hl). rewrite E in Hfw. injection Hfw as <- <-.
  exists rd, h, buf. auto.
Qed.
(* the mask: a syscall number is rejected exactly when it is beyond the mask's 32*len bits, and is
   otherwise set in a mask of the same length - never an index out of range *)
Theorem C13_mask_total : forall m n,
  (set_syscall m n = None <-> 32 * N.of_nat (length m) <= n) /\
  ((n < 32 * N.of_nat (length m)) -> exists m', set_syscall m n = Some m' /\ length m' = length m).
Proof.
  intros m n. split; [split|].
  - intros H. destruct (N.ltb_spec n (32 * N.of_nat (length m))) as [L|L]; [|exact L].
    destruct (set_syscall_total m n L) as (m' & E & _). rewrite E in H. discriminate.
  - apply set_syscall_rejects.
  - apply set_syscall_total.
Qed.

Print Assumptions C13_decode_total.
Print Assumptions C13_success_valid.
Print Assumptions C13_text_implies_valid.
Print Assumptions C13_mask_total.
