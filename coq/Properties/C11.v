(* Properties/C11.v — the Reassembler under concurrent Push / Maintain / Close.
   Model/ReasmConc.v: any number of threads, each with a program of calls; a
   call unfolds into the atomic steps the code has (Put, CleanUp, Clear run
   under the mutex; the closed flag is read / compare-and-swapped atomically;
   callbacks run outside the lock from the thread's own frame and may re-enter
   the Reassembler).  A schedule is any list of thread ids. *)
From Coq Require Import List ZArith Bool Permutation.
Import ListNotations.
Require Import Reassembler ReasmInv ReasmC01 ReasmConc ConcStep ConcAll.
Open Scope Z_scope.

(* for all schedules, all programs, all thread counts, all callback behaviours,
   all configurations: what has been delivered is a sub-multiset of what has been
   put (every message at most once, nothing invented), and at most one Close wins *)
Theorem C11_all_schedules_partial : forall (cb : list msg -> list call) (cfg : config) sched ths, pending ths = [] ->
  let '(ths', s', tr) := crun cb cfg sched ths init in
  (exists rest, Permutation (putmsgs tr) (delivered tr ++ rest)) /\ (cas_oks tr <= 1)%nat.
Proof. exact ConcAll.C11_all_schedules. Qed.

Print Assumptions C11_all_schedules_partial.
