(* Properties/C11.v — the Reassembler under concurrent Push / Maintain / Close.
   Model/ReasmConc.v: any number of threads, each with a program of calls; a
   call unfolds into the atomic steps the code has (Put, CleanUp, Clear run
   under the mutex; the closed flag is read / compare-and-swapped atomically;
   callbacks run outside the lock from the thread's own frame and may re-enter
   the Reassembler).  A schedule is any list of thread ids. *)
From Coq Require Import List ZArith Bool Permutation.
Import ListNotations.
Require Import Reassembler ReasmInv ReasmC01 ReasmConc ConcStep ConcAll ConcFlush.
Open Scope Z_scope.

(* for all schedules, all programs, all thread counts, all callback behaviours,
   all configurations: what has been delivered is a sub-multiset of what has been
   put (every message at most once, nothing invented), and at most one Close wins *)
Theorem C11_all_schedules_partial : forall (cb : list msg -> list call) (cfg : config) sched ths, pending ths = [] ->
  let '(ths', s', tr) := crun cb cfg sched ths init in
  (exists rest, Permutation (putmsgs tr) (delivered tr ++ rest)) /\ (cas_oks tr <= 1)%nat.
Proof. exact ConcAll.C11_all_schedules. Qed.


(* once every frame of every thread has run (all calls have returned and all callbacks are done), every
   message put before Close's Clear step - in particular every message whose push returned before Close
   was invoked - has been delivered; with the theorem above, exactly once *)
Theorem C11_flushed_after_close : forall (cb : list msg -> list call) (cfg : config) sched ths, pending ths = [] ->
  let '(ths', s', tr) := crun cb cfg sched ths init in
  cleared tr = true -> Forall (fun th => stack th = []) ths' ->
  exists R, Permutation (delivered tr) (putmsgs (before_clear tr) ++ R).
Proof. exact ConcFlush.flushed_after_close. Qed.

(* if any Close call has returned, exactly one compare-and-swap won: exactly one Close succeeds *)
Theorem C11_exactly_one_close : forall (cb : list msg -> list call) (cfg : config) sched ths, Forall (fun th => stack th = []) ths ->
  let '(ths', s', tr) := crun cb cfg sched ths init in
  existsb is_close_ret tr = true -> cas_oks tr = 1%nat.
Proof. exact ConcFlush.close_returned_one_winner. Qed.

(* every delivered group holds one sequence number *)
Theorem C11_single_sequence_groups : forall (cb : list msg -> list call) (cfg : config) sched ths, Forall (fun th => stack th = []) ths ->
  let '(ths', s', tr) := crun cb cfg sched ths init in Forall ev_ok tr.
Proof. exact ConcFlush.groups_single_sequence. Qed.

Print Assumptions C11_all_schedules_partial.
Print Assumptions C11_flushed_after_close.
Print Assumptions C11_exactly_one_close.
Print Assumptions C11_single_sequence_groups.

(* non-vacuity: two threads (push + close, push), a schedule that runs them to the end: the Clear step
   happened, every stack is empty, and both messages were delivered *)
Example C11_example :
  let m1 := {| mid := 1; mseq := 7; mty := 1300 |} in
  let m2 := {| mid := 2; mseq := 8; mty := 1300 |} in
  let ths := [{| stack := []; todo := [CPush m1; CClose] |}; {| stack := []; todo := [CPush m2] |}] in
  let sched := map (fun t => (t, 0)) [0; 1; 0; 1; 0; 1; 0; 1; 0; 0; 0; 0; 0; 0; 0; 0; 0; 1; 1; 1]%nat in
  let '(ths', s', tr) := crun (fun _ => []) {| maxSize := 10; timeout := 1000 |} sched ths init in
  cleared tr = true /\ forallb (fun th => match stack th with [] => true | _ => false end) ths' = true /\
  length (delivered tr) = 2%nat /\ cas_oks tr = 1%nat.
Proof. vm_compute. auto. Qed.
