(* Properties/C12.v — Data() recovers the values the kernel encoded. *)
From Coq Require Import List Ascii String NArith ZArith Bool Arith.
Import ListNotations.
Require Import KV Trim Header Parser ParseProofs ParseBody ParseEnrich ParseEnrichIds ParseSockaddr ParseExecve.
Require Hex.

(* unsafe strings travel as upper-case hex: decoding gives back every byte string *)
Theorem C12_hex_roundtrip : forall bs, Hex.decode_upper_hex (Hex.hex_upper bs) = inr bs.
Proof. exact Hex.decode_hex_roundtrip. Qed.
(* safe strings travel in double quotes: for every key and every value without a double
   quote that does not end in a backslash, followed by ANY text, the tokeniser returns
   exactly that key with the quoted text *)
Theorem C12_quoted_field_tokenised : forall k v rest, k <> [] -> forallb is_key k = true -> safe_body v = true ->
  match_here (k ++ ascii_of_nat 61 :: dq :: v ++ dq :: rest) = Some (k, dq :: v ++ [dq], rest).
Proof. exact match_here_quoted. Qed.

(* a whole body written the way the kernel writes it - fields key=value separated by one blank, each
   value in double quotes or one plain token (number, upper-case hex, name) - is cut into exactly
   those fields, in order: nothing is merged, split or skipped *)
Theorem C12_body_tokenised : forall fs, Forall field_ok fs ->
  kv_find_all (body fs) = map (fun f => (fst f, text_of (snd f))) fs.
Proof. exact body_tokenised. Qed.
(* and the key/value extraction (before the per-type enrichment) maps every key to the value that was
   written, quotes removed: keys pairwise different, no nested msg=, no placeholder value *)
Theorem C12_fields_extracted : forall d fs, Forall field_ok fs -> Forall ordinary fs -> NoDup (map fst fs) ->
  forall f, In f fs -> kv_get (fst f) (extract (S d) (body fs) []) = Some (text_of (snd f), value_of (snd f)).
Proof. exact extract_body. Qed.

(* Data() itself, for every record type the enrichment switch has no case for: a body written the way the
   kernel writes it comes out with every ordinary field (a key none of the common enrichment steps reads,
   rewrites or creates) carrying the value that was written *)
Theorem C12_data_keeps_plain_fields : forall ty raw off fs,
  plain_type ty = true -> skipn off raw = body fs -> Forall field_ok fs -> Forall ordinary fs -> NoDup (map fst fs) ->
  exists data tags, data_of ty raw (Some off) = Some (data, tags) /\
    forall f, In f fs -> ordinary_key (fst f) = true -> In (fst f, value_of (snd f)) data.
Proof. exact data_of_plain_body. Qed.

(* a hex-encoded field (exe, cwd, proctitle, USER_CMD cmd, TTY data, PATH name, acct) is decoded to the bytes the
   kernel encoded, NULs as blanks, whatever they are *)
Theorem C12_hex_field_decodes : forall k m bs v0, kv_get (L k) m = Some (Hex.hex_upper bs, v0) ->
  exists m', hex_field k m = Some m' /\ kv_get (L k) m' = Some (Hex.hex_upper bs, nul_to_space bs).
Proof. exact hex_field_decodes. Qed.

(* EXECVE: with a numeric argc and every argument present, each a0 .. a(argc-1) is decoded when it is hex
   (the bytes before the first NUL) and kept otherwise; no other field changes *)
Theorem C12_execve_arguments : forall m o argc count, kv_get (L "argc") m = Some (o, argc) -> argc <> [] ->
  read_num digit_of 10 argc 0%N = Some count -> (count < 2 ^ 32)%N -> (N.to_nat count <= List.length m)%nat ->
  (forall j, (j < count)%N -> kv_get (akey j) m <> None) ->
  exists m', do_execve m = Some m' /\
    (forall k, (forall j, (j < count)%N -> k <> akey j) -> kv_get k m' = kv_get k m) /\
    (forall j orig v, (j < count)%N -> kv_get (akey j) m = Some (orig, v) -> kv_get (akey j) m' = Some (orig, decoded orig v)).
Proof. exact execve_arguments. Qed.
Theorem C12_execve_hex_argument : forall bs v, forallb (fun x => negb (Ascii.eqb x nul)) bs = true -> decoded (Hex.hex_upper bs) v = bs.
Proof. exact decoded_hex. Qed.

(* socket addresses written as hex of struct sockaddr: IPv4 (family, dotted address, port in network order) and
   unix (family, path up to the first NUL), for every address, port and path *)
Theorem C12_sockaddr_ipv4 : forall p1 p2 a b c d rest, (p1 < 256)%N -> (p2 < 256)%N -> (a < 256)%N -> (b < 256)%N -> (c < 256)%N -> (d < 256)%N ->
  parse_sockaddr (Hex.hex_upper [byte 2; byte 0; byte p1; byte p2; byte a; byte b; byte c; byte d] ++ rest) =
    Some [(L "family", L "ipv4");
          (L "addr", Dec.dec a ++ L "." ++ Dec.dec b ++ L "." ++ Dec.dec c ++ L "." ++ Dec.dec d);
          (L "port", Dec.dec (p1 * 256 + p2))].
Proof. exact sockaddr_in4. Qed.
Theorem C12_sockaddr_unix : forall path junk, forallb (fun x => negb (Ascii.eqb x nul)) path = true ->
  parse_sockaddr (Hex.hex_upper ([byte 1; byte 0] ++ path ++ nul :: junk)) = Some [(L "family", L "unix"); (L "path", path)].
Proof. exact sockaddr_unix. Qed.

(* the decoded record types (EXECVE, SOCKADDR, PROCTITLE): on a kernel-style body without the keys the
   common steps handle, Data() is exactly the type's own decoder run over the written fields - which ties
   the decoder theorems below to Data() itself *)
Theorem C12_data_of_decoded_body : forall ty dec raw off fs,
  decoder_of ty = Some dec -> skipn off raw = body fs -> Forall field_ok fs -> Forall ordinary fs -> no_common_key fs ->
  data_of ty raw (Some off) = option_map (fun m => (render m, [])) (dec (fields_map fs)).
Proof. exact data_of_decoded_body. Qed.

(* placeholders: in a body whose fields are ordinary or carry a placeholder value (empty, ?, ?, or (null)
   after trimming), the placeholder fields leave no entry: the map is that of the remaining fields, and a
   key that only appears with placeholder values is absent *)
Theorem C12_placeholders_dropped : forall d fs, Forall field_ok fs -> Forall (fun f => ordinary f \/ is_dropped f = true) fs ->
  extract (S d) (body fs) [] =
  fold_left (fun a f => kv_add (fst f) (text_of (snd f), value_of (snd f)) a) (filter (fun f => negb (is_dropped f)) fs) [].
Proof. exact placeholders_dropped. Qed.
Theorem C12_placeholder_key_absent : forall d fs k, Forall field_ok fs -> Forall (fun f => ordinary f \/ is_dropped f = true) fs ->
  (forall f, In f fs -> fst f = k -> is_dropped f = true) -> kv_get k (extract (S d) (body fs) []) = None.
Proof. exact placeholder_key_absent. Qed.

(* the derived fields follow fixed rules: success= / res= become result=success|fail (and disappear),
   an unset auid / ses becomes "unset", a negative exit code becomes its errno name *)
Theorem C12_result_rule : forall m o v, kv_get (L "success") m = Some (o, v) ->
  let good := isS (map lower v) "yes" || isS (map lower v) "1" || has_prefix (L "suc") (map lower v) in
  kv_get (L "result") (do_result m) = Some (newf (if good then L "success" else L "fail")) /\ kv_get (L "success") (do_result m) = None.
Proof. exact result_rule. Qed.
Theorem C12_result_rule_res : forall m o v, kv_get (L "success") m = None -> kv_get (L "res") m = Some (o, v) ->
  let good := isS (map lower v) "yes" || isS (map lower v) "1" || has_prefix (L "suc") (map lower v) in
  kv_get (L "result") (do_result m) = Some (newf (if good then L "success" else L "fail")) /\ kv_get (L "res") (do_result m) = None.
Proof. exact result_rule_res. Qed.
Theorem C12_unset_rule : forall k m o v, kv_get (L k) m = Some (o, v) ->
  kv_get (L k) (normalize_unset k m) = Some (o, if isS v "4294967295" || isS v "-1" then L "unset" else v).
Proof. exact unset_rule. Qed.
(* through the whole enrichment of a record type without decoding of its own: whichever of auid / old-auid / ses the record
   carries - alone or together, whatever else is there - is reported as "unset" when it is 4294967295 or -1, else as written *)
Theorem C12_unset_ids_through_enrichment : forall ty m0 k o v, plain_type ty = true -> In k ["auid"; "old-auid"; "ses"]%string ->
  kv_get (L k) m0 = Some (o, v) ->
  exists m tags, enrich ty m0 = Some (m, tags) /\ kv_get (L k) m = Some (o, unset_of v).
Proof. exact enrich_unset_ids. Qed.
Theorem C12_exit_rule : forall m o v code, kv_get (L "exit") m = Some (o, v) -> atoi v = Some code ->
  kv_get (L "exit") (do_exit m) =
    Some (o, if (code <? 0)%Z then match lookup_tab (- code)%Z Errno.errno_to_name with Some n => S2 n | None => v end else v).
Proof. exact exit_rule. Qed.

(* non-vacuity, and the whole Data() pipeline on one record of each decoded kind *)
Example C12_example_execve :
  data_of 1309%N (L "audit(1.002:3): argc=2 a0=""ls"" a1=2D6C2061") (Some 12%nat)
  = Some ([(L "a1", L "-l a"); (L "argc", L "2"); (L "a0", L "ls")], []).
Proof. vm_compute. reflexivity. Qed.
Example C12_example_sockaddr6 :
  data_of 1306%N (L "audit(1.002:3): saddr=0A001F9000000000FE800000000000000000000000000001 00000000") (Some 12%nat)
  = Some ([(L "port", L "8080"); (L "addr", L "fe80::1"); (L "family", L "ipv6")], []).
Proof. vm_compute. reflexivity. Qed.

Print Assumptions C12_result_rule_res.
Print Assumptions C12_placeholders_dropped.
Print Assumptions C12_placeholder_key_absent.
Print Assumptions C12_data_of_decoded_body.
Print Assumptions C12_unset_ids_through_enrichment.
Print Assumptions C12_hex_roundtrip.
Print Assumptions C12_quoted_field_tokenised.
Print Assumptions C12_body_tokenised.
Print Assumptions C12_fields_extracted.
Print Assumptions C12_data_keeps_plain_fields.
Print Assumptions C12_hex_field_decodes.
Print Assumptions C12_execve_arguments.
Print Assumptions C12_execve_hex_argument.
Print Assumptions C12_sockaddr_ipv4.
Print Assumptions C12_sockaddr_unix.
Print Assumptions C12_result_rule.
Print Assumptions C12_unset_rule.
Print Assumptions C12_exit_rule.
