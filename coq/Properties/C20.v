(* Properties/C20.v — name/number tables are mutually inverse and internally
   consistent.  Statements only; every proof applies a lemma from Inst/ (finite
   obligations over the tables generated from /repo on this run, each
   enumerating its whole domain) through Proofs/TablesLift.v. *)
From Coq Require Import List NArith ZArith Bool String.
Require Import Bytes Tables TablesLift MsgTypeFwd MsgTypeText TablesOk NormNames.
Require Import MsgTypes Errno Arch Syscalls RuleTables Norms EventTypes.
Import ListNotations.
Open Scope N_scope.

(* every record type converts to a name and back *)
Theorem C20_msgtype_roundtrip : forall t, t < 65536 -> get_type (type_name t) = Some t.
Proof. intros t Ht. apply optN_eqb_eq. exact (filter_nil_forall msgtype_fwd_okb all_types msgtypes_fwd_ok t (In_all_types t Ht)). Qed.
(* ... text marshalling included *)
Theorem C20_msgtype_text_roundtrip : forall t, t < 65536 -> unmarshal_type (marshal_type t) = Some t.
Proof. intros t Ht. apply optN_eqb_eq. exact (filter_nil_forall msgtype_text_okb all_types msgtypes_text_ok t (In_all_types t Ht)). Qed.

(* every errno number maps to a name that maps back to it *)
Theorem C20_errno_name_num : forall n s, In (n, s) errno_to_name -> errno_num (s2l s) = Some n.
Proof. intros n s H. apply optZ_eqb_eq. exact (filter_nil_forall errno_name_okb errno_to_name errno_names_ok (n, s) H). Qed.
(* aliases resolve to the same number *)
Theorem C20_errno_alias : forall s n, In (s, n) errno_to_num ->
  exists s', errno_name n = Some s' /\ errno_num (s2l s') = Some n.
Proof.
  intros s n H. pose proof (filter_nil_forall errno_num_okb errno_to_num errno_nums_ok (s, n) H) as Hok.
  unfold errno_num_okb in Hok. cbn [snd fst] in Hok. destruct (errno_name n) as [s'|]; [|discriminate].
  exists s'. split; auto. apply optZ_eqb_eq; auto.
Qed.

(* every architecture name resolves to one code and back *)
Theorem C20_arch : (forall c s, In (c, s) arch_names -> arch_code (s2l s) = Some c) /\
                   (forall s c, In (s, c) reverse_arch -> arch_name c = Some s) /\
                   NoDup (map snd arch_names).
Proof.
  split; [|split].
  - intros c s H. apply optN_eqb_eq. exact (filter_nil_forall arch_fwd_okb arch_names arch_fwd_ok (c, s) H).
  - intros s c H. apply optS_eqb_eq. exact (filter_nil_forall arch_rev_okb reverse_arch arch_rev_ok (s, c) H).
  - pose proof arch_nodup_ok as H. unfold arch_names_nodup in H. apply andb_true_iff in H. destruct H as [H _].
    revert H. apply nodupb_NoDup. intros a. apply String.eqb_refl.
Qed.

(* in each architecture's syscall table a name maps to one number, and the rule
   package's reverse table (built by map iteration in init) is exactly its inverse *)
Theorem C20_syscalls :
  (forall a t, In (a, t) syscalls -> NoDup (map snd t)) /\
  (forall a t n name, In (a, t) syscalls -> In (n, name) t -> syscall_num (s2l a) (s2l name) = Some n) /\
  (forall a t name n, In (a, t) reverse_syscalls -> In (name, n) t -> syscall_name (s2l a) n = Some name).
Proof.
  split; [|split].
  - intros a t Ha. pose proof (filter_nil_forall syscall_nodup_okb syscalls syscall_dups_ok (a, t) Ha) as H.
    unfold syscall_nodup_okb in H. cbn [snd] in H. revert H. apply nodupb_NoDup. intros x. apply String.eqb_refl.
  - intros a t n name Ha Hn. apply optZ_eqb_eq.
    exact (filter_nil_forall syscall_fwd_okb syscalls_flat syscall_fwd_ok (a, (n, name)) (in_flat_pairs syscalls a t (n, name) Ha Hn)).
  - intros a t name n Ha Hn. apply optS_eqb_eq.
    exact (filter_nil_forall syscall_rev_okb rsyscalls_flat syscall_rev_ok (a, (name, n)) (in_flat_pairs reverse_syscalls a t (name, n) Ha Hn)).
Qed.

(* rule field/operator tables and their reverses are mutually inverse;
   comparisons are symmetric, and every reverse entry re-encodes to its code
   whichever operand order map iteration happened to record *)
Theorem C20_rule_tables :
  (forall s c, In (s, c) operators_table -> lookupN c reverse_operators_table = Some s) /\
  (forall c s, In (c, s) reverse_operators_table -> lookupS (s2l s) operators_table = Some c) /\
  (forall s c, In (s, c) fields_table -> lookupN c reverse_fields_table = Some s) /\
  (forall c s, In (c, s) reverse_fields_table -> lookupS (s2l s) fields_table = Some c) /\
  (forall c a b, In (c, (a, b)) reverse_comparisons_table -> comparison a b = Some c /\ comparison b a = Some c) /\
  (forall l t r c, In (l, t) comparisons_table -> In (r, c) t -> comparison r l = Some c).
Proof.
  split; [|split; [|split; [|split; [|split]]]].
  - intros s c H. apply optS_eqb_eq. exact (filter_nil_forall ops_fwd_okb operators_table ops_fwd_ok (s, c) H).
  - intros c s H. apply optN_eqb_eq. exact (filter_nil_forall ops_rev_okb reverse_operators_table ops_rev_ok (c, s) H).
  - intros s c H. apply optS_eqb_eq. exact (filter_nil_forall fields_fwd_okb fields_table fields_fwd_ok (s, c) H).
  - intros c s H. apply optN_eqb_eq. exact (filter_nil_forall fields_rev_okb reverse_fields_table fields_rev_ok (c, s) H).
  - intros c a b H. pose proof (filter_nil_forall comparison_rev_okb reverse_comparisons_table comparisons_rev_ok (c, (a, b)) H) as Hok.
    unfold comparison_rev_okb in Hok. cbn [fst snd] in Hok. apply andb_true_iff in Hok. destruct Hok as [H1 H2].
    split; apply optN_eqb_eq; assumption.
  - intros l t r c Hl Hr. apply optN_eqb_eq.
    assert (Hin : In (l, r, c) comparisons_flat).
    { unfold comparisons_flat. apply in_flat_map. exists (l, t). split; auto. cbn [fst snd].
      change (l, r, c) with ((fun x : N * N => (l, fst x, snd x)) (r, c)). apply in_map. exact Hr. }
    exact (filter_nil_forall comparison_sym_okb comparisons_flat comparisons_sym_ok (l, r, c) Hin).
Qed.

(* every record type and syscall named in the normalisation table is producible *)
Theorem C20_norm_names :
  (forall rt, In rt (map fst norm_record_types) -> record_type_producible rt = true) /\
  (forall sc, In sc norm_syscalls -> syscall_producible sc = true).
Proof.
  split.
  - exact (filter_nil_forall record_type_producible norm_record_type_names norm_record_types_ok).
  - exact (filter_nil_forall syscall_producible norm_syscalls norm_syscalls_ok).
Qed.
(* what "producible" means, unfolded once so the statement can be read *)
Theorem C20_producible_meaning : forall rt, record_type_producible rt = true ->
  (exists t, In (t, rt) type_to_name) \/ (exists t, get_type (s2l rt) = Some t /\ type_name t = s2l rt).
Proof.
  intros rt H. unfold record_type_producible in H. apply orb_true_iff in H. destruct H as [H|H].
  - left. apply existsb_exists in H. destruct H as ([t n] & Hin & He). cbn [snd] in He. apply String.eqb_eq in He. subst. exists t; auto.
  - right. destruct (get_type (s2l rt)) as [t|]; [|discriminate]. exists t. split; auto. apply str_eqb_eq; auto.
Qed.

(* each syscall / record type selects one normalisation deterministically *)
Theorem C20_norm_deterministic :
  NoDup norm_syscalls /\ NoDup (map fst norm_record_types) /\
  (forall rt hs, In (rt, hs) norm_record_types -> all_but_last_nonempty hs = true).
Proof.
  split; [|split].
  - generalize norm_syscalls_nodup_ok. apply nodupb_NoDup. intros a. apply String.eqb_refl.
  - generalize norm_record_types_nodup_ok. apply nodupb_NoDup. intros a. apply String.eqb_refl.
  - intros rt hs H. exact (filter_nil_forall norm_has_fields_okb norm_record_types norm_has_fields_ok (rt, hs) H).
Qed.

(* every record type is categorised, and the same way on every call *)
Theorem C20_event_type_total : event_types_total = true /\ event_types_repeatable = true.
Proof. exact (conj event_types_total_ok event_types_repeatable_ok). Qed.

Print Assumptions C20_msgtype_roundtrip.
Print Assumptions C20_msgtype_text_roundtrip.
Print Assumptions C20_errno_name_num.
Print Assumptions C20_errno_alias.
Print Assumptions C20_arch.
Print Assumptions C20_syscalls.
Print Assumptions C20_rule_tables.
Print Assumptions C20_norm_names.
Print Assumptions C20_producible_meaning.
Print Assumptions C20_norm_deterministic.
Print Assumptions C20_event_type_total.
