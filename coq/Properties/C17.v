(* Properties/C17.v — ACK bookkeeping, Close once, returned data is a copy. *)
From Coq Require Import List NArith ZArith Bool.
Import ListNotations.
Require Import Mach AuditConsts MsgTypes AuditClient ClientProofs ChkClient ClientAckProofs ClientSpecProofs ClientWalkProofs.
Open Scope N_scope.

(* when the kernel acknowledges the pending NoWait requests in order (through any
   admissible noise), WaitForPendingACKs consumes exactly those ACKs, returns nil,
   and a second call consumes nothing and returns nil *)
Theorem C17_wait_consumes_once_in_order : forall s w rest, acked (pending s) (rscript w) rest ->
  let '(s1, w1, o1) := cstep s w OWaitAcks in
  let '(s2, w2, o2) := cstep s1 w1 OWaitAcks in
  result_of o1 = ROk /\ rscript w1 = rest /\ pending s1 = [] /\ result_of o2 = ROk /\ rscript w2 = rest.
Proof. exact wait_twice. Qed.

(* over every sequence of operations, kernel script and send-fault script: the socket
   is closed at most once, and never by a client that is already closed *)
Theorem C17_close_at_most_once : forall ops s w,
  (count_closes (crun s w ops) <= 1)%nat /\ (closed s = true -> count_closes (crun s w ops) = 0%nat).
Proof. exact closes_at_most_once. Qed.

(* the first kernel error is what WaitForPendingACKs returns: the ACKs before it are consumed in order,
   the failed request leaves the list as well, later requests stay pending with their ACKs unread *)
Theorem C17_wait_returns_first_error : forall s pre q post script mid rest errno,
  acked pre script mid -> q <> 0 -> (0 < errno < 2^31)%Z -> answers q errno mid rest ->
  wait_acks s script (pre ++ q :: post) =
    ({| pending := post; clear_pid := clear_pid s; closed := closed s; nseq := nseq s |}, rest, Some (EErrno errno)).
Proof. exact wait_first_error. Qed.

(* the first Close closes the socket, clearing the audit PID first iff SetPID was used *)
Theorem C17_first_close : forall s w, closed s = false ->
  let '(s', _, (_, ws, cl)) := cstep s w OClose in
  cl = true /\ closed s' = true /\
  (clear_pid s = false -> ws = []) /\
  (clear_pid s = true -> ws = [(AuditSet, REQ_ACK, status_bytes AuditStatusPID off_st_pid 0)]).
Proof. exact first_close. Qed.

(* a Close after the first is a no-op: no request, no socket close, state and script untouched *)
Theorem C17_later_close_is_noop : forall s w, closed s = true -> cstep s w OClose = (s, w, (ROk, [], false)).
Proof. intros s w H. cbn [cstep]. rewrite H. reflexivity. Qed.

(* for EVERY kernel script - receive failures, replies to other requests, silence and truncated ACKs included - and every
   pending list: WaitForPendingACKs takes a front part [used] of the script, and a request leaves the pending list exactly
   when a message carrying its number was delivered to this call (after_wait, the reading the checker applies to the
   implementation's observations).  In particular a receive that fails takes nothing off the list. *)
Theorem C17_ack_leaves_only_when_delivered : forall s w,
  let '(s', w', _) := cstep s w OWaitAcks in
  exists used, rscript w = used ++ rscript w' /\ pending s' = after_wait used (pending s).
Proof.
  intros s w. cbn [cstep]. destruct (wait_acks s (rscript w) (pending s)) as [[s1 rest] e] eqn:E.
  cbn [rscript with_script]. exact (wait_acks_pending s _ _ _ _ _ E).
Qed.

(* requests leave from the front, in order: what is left is a tail of what was pending *)
Theorem C17_pending_leaves_in_order : forall used todo, exists gone, todo = gone ++ after_wait used todo.
Proof. exact after_wait_suffix. Qed.

(* a call that was delivered no message for the oldest pending request leaves the whole list pending *)
Theorem C17_unanswered_stays_pending : forall q rest used,
  Forall (fun ev => match ev with RMsg _ sq _ => sq <> q | _ => True end) used -> after_wait used (q :: rest) = q :: rest.
Proof. exact after_wait_nothing_for. Qed.

(* non-vacuity: a receive failure (ENOBUFS) in front of two ACKs: the first call takes only the failure and keeps both
   requests, the second consumes both ACKs, the third reads nothing *)
Example C17_receive_fault_example :
  let ack q := RMsg NLMSG_ERROR q (le32 0 ++ le32 0) in
  let s := {| pending := [1; 2]; clear_pid := false; closed := false; nseq := 2 |} in
  let w := {| rscript := [RErr 105; ack 1; ack 2]; sfaults := [] |} in
  let '(s1, w1, o1) := cstep s w OWaitAcks in
  let '(s2, w2, o2) := cstep s1 w1 OWaitAcks in
  let '(s3, w3, o3) := cstep s2 w2 OWaitAcks in
  (pending s1, List.length (rscript w1), result_of o1) = ([1; 2], 2%nat, RFail (ERecv 105)) /\
  (pending s2, rscript w2, result_of o2) = ([], [], ROk) /\ (pending s3, rscript w3, result_of o3) = ([], [], ROk).
Proof. vm_compute. repeat split. Qed.

(* wherever the checker's reading of a WaitForPendingACKs commits itself (spec_wait: every pending request answered inside
   the fault model, up to the first kernel error), the model returns that result, leaves that list pending and leaves
   that much of the script unread: the wait clause of the judge accepts every such run of the model *)
Theorem C17_wait_clause_accepts_model : forall s todo script er remaining rest,
  spec_wait script todo = Some (er, remaining, rest) ->
  let '(s', rest', e) := wait_acks s script todo in
  pending s' = remaining /\ rest' = rest /\ match e with None => ROk | Some x => RFail x end = er.
Proof. exact c17_wait_clause_accepts_model. Qed.

(* the C17 clause of the judge - the checker's own bookkeeping of pending requests, SetPID and Close, its reading of
   WaitForPendingACKs inside and outside the fault model, the once-only Close with its PID-clearing request, the rule
   snapshot - accepts every run of the model: every operation sequence, every kernel script, every send-fault script.
   (judged_run feeds each call of the model to chk_c17_call exactly as the judge feeds it the implementation's calls;
   request numbers are the model's own, which are the judge's 1, 2, 3, ... as long as they do not wrap.) *)
Theorem C17_judge_accepts_every_run : forall ops w, judged_run k17_init cinit w ops = true.
Proof. intros ops w. apply judged_run_ok. exact tracks_init. Qed.
Theorem C17_judge_accepts_every_run_from : forall ops st s w, tracks s st -> judged_run st s w ops = true.
Proof. exact judged_run_ok. Qed.

Print Assumptions C17_later_close_is_noop.
Print Assumptions C17_judge_accepts_every_run.
Print Assumptions C17_judge_accepts_every_run_from.
Print Assumptions C17_wait_clause_accepts_model.
Print Assumptions C17_ack_leaves_only_when_delivered.
Print Assumptions C17_pending_leaves_in_order.
Print Assumptions C17_unanswered_stays_pending.
Print Assumptions C17_wait_consumes_once_in_order.
Print Assumptions C17_wait_returns_first_error.
Print Assumptions C17_close_at_most_once.
Print Assumptions C17_first_close.
