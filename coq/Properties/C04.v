(* Properties/C04.v — the parsed record header equals the header that was written.
   Model/Header.v (parseAuditHeader), Model/MsgType.v (type names over the generated
   table), Model/Parser.v (ParseLogLine / Parse glue: trimming, splitting at msg=,
   time.Unix arithmetic, offset). *)
From Coq Require Import List Ascii String NArith ZArith Bool.
Import ListNotations.
Require Import Dec Header.
Require Import Bytes MsgType MsgTypeFwd TablesLift.
Open Scope N_scope.

(* every seconds value in [0,2^34), milliseconds 000-999, sequence in uint32, ANY text
   in front of the header that has no '(' (the trimmed text between msg= and audit),
   ANY text behind it (bodies with msg=, parentheses, colons, dots, the well-known key names) *)
Theorem C04_header_roundtrip : forall pre S m N rest,
  forallb (fun d => negb (ceq "("%char d)) pre = true -> S < 2 ^ 34 -> m < 1000 -> N < 2 ^ 32 ->
  parse_audit_header (render_header pre S m N rest) =
    HOk {| h_sec := Z.of_N S; h_msec := Z.of_N m; h_seq := N; h_after := rest |}.
Proof. exact parse_render_header. Qed.

(* every record type: the name written in a log line maps back to the type, UNKNOWN[n] included *)
Theorem C04_type_roundtrip : forall t, t < 65536 -> get_type (type_name t) = Some t.
Proof. intros t Ht. apply optN_eqb_eq. exact (filter_nil_forall msgtype_fwd_okb all_types msgtypes_fwd_ok t (In_all_types t Ht)). Qed.

Print Assumptions C04_header_roundtrip.
Print Assumptions C04_type_roundtrip.
