(* Properties/C04.v — the parsed record header equals the header that was written.
   Model/Header.v (parseAuditHeader), Model/MsgType.v (type names over the generated
   table), Model/Parser.v (ParseLogLine / Parse glue: trimming, splitting at msg=,
   time.Unix arithmetic, offset). *)
From Coq Require Import List Ascii String NArith ZArith Bool Lia.
Import ListNotations.
Require Import Dec Header.
Require Import Bytes MsgType MsgTypeFwd TablesLift KV Trim Parser ParseLine HeaderIdx HeaderIdxProofs ToMap TrimPad TrimPadRunes.
Open Scope N_scope.

(* every seconds value in [0,2^34), milliseconds 000-999, sequence in uint32, ANY text
   in front of the header that has no '(' (the trimmed text between msg= and audit),
   ANY text behind it (bodies with msg=, parentheses, colons, dots, the well-known key names) *)
Theorem C04_header_roundtrip : forall pre S m N rest,
  forallb (fun d => negb (ceq "("%char d)) pre = true -> S < 2 ^ 34 -> m < 1000 -> N < 2 ^ 32 ->
  parse_audit_header (render_header pre S m N rest) =
    HOk {| h_sec := Z.of_N S; h_msec := Z.of_N m; h_seq := N; h_after := rest |}.
Proof. exact parse_render_header. Qed.

(* every record type: the name written in a log line maps back to the type, UNKNOWN[n] included *)
Theorem C04_type_roundtrip : forall t, t < 65536 -> get_type (type_name t) = Some t.
Proof. intros t Ht. apply optN_eqb_eq. exact (filter_nil_forall msgtype_fwd_okb all_types msgtypes_fwd_ok t (In_all_types t Ht)). Qed.

(* a whole log line: every record type (UNKNOWN[n] included), timestamp and sequence, any text after the
   header that survives trimming: ParseLogLine returns exactly that type, time (UTC seconds and
   nanoseconds), sequence and raw text, and it does so through Parse on the text after msg= *)
Theorem C04_log_line_roundtrip : forall t S m N rest,
  t < 65536 -> S < 2 ^ 34 -> m < 1000 -> N < 2 ^ 32 ->
  let msg := render_header (L "audit") S m N rest in
  trim_space msg = msg ->
  parse_log_line (L "type=" ++ type_name t ++ L " msg=" ++ msg) =
    Some {| a_type := t; a_sec := Z.of_N S; a_nsec := (Z.of_N m * 1000000)%Z; a_seq := N; a_raw := msg;
            a_off := index_func (fun c => (code c =? 58)%nat || (code c =? 32)%nat) (L ")" ++ rest) |}
  /\ parse_log_line (L "type=" ++ type_name t ++ L " msg=" ++ msg) = parse t msg.
Proof.
  intros t S m N rest Ht HS Hm HN msg Htrim. pose proof (parse_log_line_render t S m N rest Ht HS Hm HN Htrim) as H. split; [exact H|].
  fold msg in H. rewrite H. clear H. subst msg. unfold parse. rewrite Htrim. rewrite parse_render_header; auto.
  cbn [h_sec h_msec h_seq h_after].
  rewrite (s64_small (Z.of_N m * 1000000)) by lia.
  rewrite (Z.div_small (Z.of_N m * 1000000) 1000000000) by lia. rewrite Z.add_0_r.
  rewrite s64_small by (change (2^34) with 17179869184 in HS; lia).
  rewrite Z.mod_small by lia. reflexivity.
Qed.
Example C04_example : trim_space (render_header (L "audit") 1700000000 7 42 (L "): pid=1 uid=0")) = render_header (L "audit") 1700000000 7 42 (L "): pid=1 uid=0").
Proof. vm_compute. reflexivity. Qed.

(* a malformed header is an error: parseAuditHeader accepts a line only if it reads  pre ( sec . msec : seq ) rest  with the
   first ( . : ) of the line as delimiters and three numbers strconv accepts *)
Theorem C04_header_accepted_only_if_wellformed : forall line h, parse_audit_header line = HOk h ->
  exists pre a b c, line = (pre ++ "("%char :: a ++ "."%char :: b ++ ":"%char :: c ++ ")"%char :: h_after h)%list /\
    ~ In "("%char pre /\ ~ In "."%char a /\ ~ In ":"%char b /\ ~ In ")"%char c /\
    parse_int10_64 a = HOk (h_sec h) /\ parse_int10_64 b = HOk (h_msec h) /\ parse_uint10 32 c = HOk (h_seq h).
Proof. exact header_accepted_only_if_wellformed. Qed.
(* padding: ASCII white space (blank, tab, newline, ...) before and after a message that begins with "a" (as in audit(...)) and does
   not end in a white-space rune changes nothing - Parse sees the trimmed message, so type, time, sequence and RawData are the same *)
Theorem C04_padding_ignored : forall t p1 tl p2,
  forallb ascii_ws p1 = true -> forallb ascii_ws p2 = true -> drop_space_rune_rev (rev ("a"%char :: tl)) = None ->
  parse t (p1 ++ ("a"%char :: tl) ++ p2)%list = parse t ("a"%char :: tl).
Proof.
  intros t p1 tl p2 H1 H2 He. unfold parse.
  rewrite (trim_space_padded p1 ("a"%char :: tl) p2 H1 H2); [|split; [reflexivity|exact He]|discriminate|reflexivity].
  rewrite (trim_space_fixed ("a"%char :: tl)); [reflexivity|split; [reflexivity|exact He]|discriminate].
Qed.

(* the same for any run of Unicode white-space runes (all 25 of unicode.IsSpace, in UTF-8) on either side *)
Theorem C04_rune_padding_ignored : forall t rs1 tl rs2,
  Forall (fun p => In p space_runes) rs1 -> Forall (fun p => In p space_runes) rs2 -> drop_space_rune_rev (rev ("a"%char :: tl)) = None ->
  parse t (List.concat rs1 ++ ("a"%char :: tl) ++ List.concat rs2)%list = parse t ("a"%char :: tl).
Proof.
  intros t rs1 tl rs2 H1 H2 He. unfold parse.
  rewrite (trim_space_rune_padded rs1 ("a"%char :: tl) rs2 H1 H2); [|split; [reflexivity|exact He]|discriminate|reflexivity].
  rewrite (trim_space_fixed ("a"%char :: tl)); [reflexivity|split; [reflexivity|exact He]|discriminate].
Qed.

(* ToMapStr: the four header keys carry the header's values whatever the body held - fields named record_type, @timestamp,
   sequence or raw_msg included - and every other field is reported as Data() gave it *)
Theorem C04_to_map_str_header_keys : forall rt ts sq raw data,
  let m := to_map_str rt ts sq raw data in
  mget (L "record_type") m = Some rt /\ mget (L "@timestamp") m = Some ts /\ mget (L "sequence") m = Some sq /\ mget (L "raw_msg") m = Some raw.
Proof. exact to_map_str_header_keys. Qed.
Theorem C04_to_map_str_keeps_data : forall rt ts sq raw data k v,
  NoDup (map fst data) -> In (k, v) data ->
  beq (L "record_type") k = false -> beq (L "@timestamp") k = false -> beq (L "sequence") k = false -> beq (L "raw_msg") k = false ->
  mget k (to_map_str rt ts sq raw data) = Some v.
Proof. exact to_map_str_keeps_data. Qed.

Print Assumptions C04_rune_padding_ignored.
Print Assumptions C04_padding_ignored.
Print Assumptions C04_header_accepted_only_if_wellformed.
Print Assumptions C04_to_map_str_header_keys.
Print Assumptions C04_to_map_str_keeps_data.
Print Assumptions C04_header_roundtrip.
Print Assumptions C04_log_line_roundtrip.
Print Assumptions C04_type_roundtrip.
