(* Properties/C05.v — the audit log parser is total.
   The models of Model/Parser.v are total Gallina functions whose only failure value is
   the error result; the statements below are about the places where the Go code does
   index arithmetic that could leave a slice (the anchors of the property): upper-case
   hex decoding and socket addresses.  Header parsing has no index arithmetic left in
   the model (split at the first delimiter).  Everything else (regexp, strconv, fmt) is
   exercised by the correspondence run with recover() and a deadline. *)
From Coq Require Import List Ascii String NArith ZArith Bool Arith.
Import ListNotations.
Require Import KV Trim Header Parser ParseProofs.
Require Hex.

(* every slice expression parseSockaddr / hexToIP evaluates is inside the string, for every input *)
Theorem C05_sockaddr_slices_in_range : forall s, Forall (fun o => o <> None) (sockaddr_slices s).
Proof. exact sockaddr_slices_in_range. Qed.
(* hex decoding accepts exactly upper-case hex of even length: success means the input was the encoding of the output *)
Theorem C05_hex_sound : forall s bs, Hex.decode_upper_hex s = inr bs -> s = Hex.hex_upper bs.
Proof. exact Hex.decode_hex_sound. Qed.

Print Assumptions C05_sockaddr_slices_in_range.
Print Assumptions C05_hex_sound.
