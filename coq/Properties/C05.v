(* Properties/C05.v — the audit log parser is total.
   The models of Model/Parser.v are total Gallina functions whose only failure value is
   the error result; the statements below are about the places where the Go code does
   index arithmetic that could leave a slice (the anchors of the property): upper-case
   hex decoding, socket addresses, and the header / log-line cutting of parseAuditHeader, Parse and
   ParseLogLine (Model/HeaderIdx.v keeps their slice expressions; it is proved equal to the split
   reading the correspondence runs).  Everything else (regexp, strconv, fmt) is
   exercised by the correspondence run with recover() and a deadline. *)
From Coq Require Import List Ascii String NArith ZArith Bool Arith.
Import ListNotations.
Require Import KV Trim Header Parser ParseProofs HeaderIdx HeaderIdxProofs.
Require Hex.

(* every slice expression parseSockaddr / hexToIP evaluates is inside the string, for every input *)
Theorem C05_sockaddr_slices_in_range : forall s, Forall (fun o => o <> None) (sockaddr_slices s).
Proof. exact sockaddr_slices_in_range. Qed.
(* hex decoding accepts exactly upper-case hex of even length: success means the input was the encoding of the output *)
Theorem C05_hex_sound : forall s bs, Hex.decode_upper_hex s = inr bs -> s = Hex.hex_upper bs.
Proof. exact Hex.decode_hex_sound. Qed.

(* parseAuditHeader: line[start:], line[dot:], line[sep:], line[start+1:dot], line[dot+1:sep], line[sep+1:end] are all inside
   the line, for every line; Parse's message[end:] too; and the index reading is the split reading of Model/Header.v *)
Theorem C05_header_slices_in_range : forall line, header_pieces line <> PPanic.
Proof. exact header_pieces_no_panic. Qed.
Theorem C05_parse_tail_in_range : forall message,
  match header_pieces message with POk (_, _, _, e) => parse_tail message e <> PPanic | _ => True end.
Proof. exact parse_tail_no_panic. Qed.
Theorem C05_header_index_reading_is_the_model : forall line,
  parse_audit_header line =
  match header_pieces line with
  | POk (a, b, c, e) => numbers_of a b c (skipn (S e) line)
  | _ => HErr
  end.
Proof. exact parse_audit_header_by_index. Qed.
(* ParseLogLine: line[len("type="):msgIndex-1] and line[msgIndex+len("msg="):] are inside the line *)
Theorem C05_log_line_slices_in_range : forall line, log_line_pieces line <> PPanic.
Proof. exact log_line_pieces_no_panic. Qed.

Print Assumptions C05_header_slices_in_range.
Print Assumptions C05_parse_tail_in_range.
Print Assumptions C05_header_index_reading_is_the_model.
Print Assumptions C05_log_line_slices_in_range.
Print Assumptions C05_sockaddr_slices_in_range.
Print Assumptions C05_hex_sound.
