(* Properties/C06.v — built rules are byte-exact kernel audit_rule_data.
   Oracle: Spec/UapiRule.v — the fixed-offset reader of struct audit_rule_data
   and the UAPI numbers by auditctl field / operator name. *)
From Coq Require Import List Ascii NArith ZArith Bool.
Import ListNotations.
Require Import Bytes Mach RuleTables RuleDecode Mask RuleEncode Uapi UapiRule Tables TablesLift RuleTablesOk RuleWire RuleSpecWf.
Require Import RuleValue Flags RuleBuild RuleBuildShape RuleSwitches RuleSwitchesOk RuleBuildFacts.
Open Scope N_scope.

(* every field and operator code of the rule package equals the UAPI constant for the
   name used, and every UAPI field name is known to the package (generated tables,
   re-checked on every run) *)
Theorem C06_tables_are_uapi :
  (forall name code, In (name, code) fields_table -> lookupS (s2l name) uapi_fields = Some code) /\
  (forall name code, In (name, code) operators_table -> lookupS (s2l name) uapi_operators = Some code) /\
  (forall name code, In (name, code) uapi_fields -> lookupS (s2l name) fields_table = Some code).
Proof.
  assert (G: forall a b, optN_is a b = true -> a = Some b).
  { intros [x|] b H; cbn in H; [|discriminate]. apply N.eqb_eq in H. congruence. }
  split; [|split]; intros name code H; apply G.
  - exact (filter_nil_forall field_uapi_okb fields_table fields_uapi_ok (name, code) H).
  - exact (filter_nil_forall op_uapi_okb operators_table ops_uapi_ok (name, code) H).
  - exact (filter_nil_forall uapi_field_known_okb uapi_fields uapi_fields_known_ok (name, code) H).
Qed.
(* the compiled struct has the kernel's layout and limits *)
Theorem C06_layout :
  (rule_header_size, off_flags, off_action, off_field_count, off_mask, off_fields, off_values, off_fieldflags, off_buflen,
   mask_words, max_fields, max_key_length, path_max, key_separator)
  = (1040, 0, 4, 8, 12, 268, 524, 780, 1036, UAPI_AUDIT_BITMASK_SIZE, UAPI_AUDIT_MAX_FIELDS, 256, 4096, 1).
Proof. exact rule_layout_ok. Qed.

(* toAuditRuleData + toWireFormat, read back with the fixed-offset UAPI reader: list,
   action, count, the 64-word mask, one field/operator/value triple per filter in order
   (zero beyond the count), buflen = total string length, strings back to back *)
Theorem C06_wire_exact : forall d, wf_data d ->
  exists u, uapi_rule_decode (to_wire d) = Some u /\
    ur_flags u = w_flags d /\ ur_action u = w_action d /\ ur_field_count u = N.of_nat (length (w_triples d)) /\
    ur_mask u = w_mask d /\
    ur_fields u = pad64 (map (fun t => fst (fst t)) (w_triples d)) /\
    ur_values u = pad64 (map snd (w_triples d)) /\
    ur_fieldflags u = pad64 (map (fun t => snd (fst t)) (w_triples d)) /\
    ur_buflen u = N.of_nat (length (concat (w_strings d))) /\
    concat (w_strings d) = firstn (length (concat (w_strings d))) (ur_buf u).
Proof.
  intros d H. pose proof (from_wire_to_wire d H) as HW.
  destruct (readers_agree _ _ _ HW) as (u & Hu & H1 & H2 & H3 & H4 & H5 & H6 & H7 & H8 & H9).
  exists u. cbn [flags action fcount mask fields values fflags buflen] in *. rewrite Nat2N.id in H9. repeat split; auto.
Qed.

(* … and every rule the Build model accepts yields well-formed data, so the statement above holds
   for the bytes of every accepted rule: any list/action, any filters in any order, any keys *)
Theorem C06_accepted_rules_are_well_formed : forall s d, data_of_spec s = Some d -> wf_data d.
Proof. exact data_of_spec_wf. Qed.
Corollary C06_accepted_rules_decode : forall s b, build_spec s = Some b ->
  exists d u, data_of_spec s = Some d /\ b = to_wire d /\ uapi_rule_decode b = Some u /\
    ur_flags u = w_flags d /\ ur_action u = w_action d /\ ur_field_count u = N.of_nat (length (w_triples d)) /\ ur_mask u = w_mask d /\
    ur_fields u = pad64 (map (fun t => fst (fst t)) (w_triples d)) /\ ur_values u = pad64 (map snd (w_triples d)) /\
    ur_fieldflags u = pad64 (map (fun t => snd (fst t)) (w_triples d)) /\ ur_buflen u = N.of_nat (length (concat (w_strings d))).
Proof.
  intros s b H. unfold build_spec in H. destruct (data_of_spec s) as [d|] eqn:E; [|discriminate]. cbn in H. inversion H; subst b.
  destruct (C06_wire_exact d (data_of_spec_wf s d E)) as (u & Hu & H1 & H2 & H3 & H4 & H5 & H6 & H7 & H8 & _).
  exists d, u. repeat split; auto.
Qed.

(* the syscall mask has exactly the requested bits *)
(* what Build makes of a parsed syscall-rule line: one field / operator / value triple per filter in the
   order given (codes from the tables, numeric values through the value parsers, string values as
   their length with the string appended to the buffer), followed by the joined keys *)
Theorem C06_one_triple_per_filter : forall li ac fs scs keys s d,
  spec_of_prule li ac fs scs keys = Some s -> data_of_spec s = Some d ->
  exists l, length l = length fs /\ Forall2 triple_spec fs l /\
    w_triples d = map fst l ++ (match keys with [] => [] | _ => [(210, 1073741824, N.of_nat (length (join_keys keys)))] end) /\
    w_strings d = flat_map snd l ++ (match keys with [] => [] | _ => [join_keys keys] end) /\
    list_code (sos li) = Some (w_flags d) /\ action_code (sos ac) = Some (w_action d).
Proof. exact build_shape. Qed.

(* the case lists the translator reads from the switch statements of rule/rule.go: Build, the decoder and the
   printer agree on which fields carry strings and which carry uids / gids, and the exclude list admits the
   fields the model admits (re-read from the source on every run) *)
Theorem C06_switch_lists_agree : switch_lists_okb = true.
Proof. exact switch_lists_ok. Qed.

Theorem C06_mask_exact : forall l m' k, build_mask (repeat 0 64) l = Some m' -> (testbit_mask m' k = true <-> In k l).
Proof. exact build_mask_exact. Qed.
(* and a number beyond the mask is an error, never a bit somewhere else *)
Theorem C06_mask_range : forall m n, 32 * N.of_nat (length m) <= n -> set_syscall m n = None.
Proof. exact set_syscall_rejects. Qed.

(* an accepted rule carries the UAPI code of its list and action names, and its mask has exactly the
   requested syscalls' bits (or the all-syscalls pattern) *)
Theorem C06_accepted_rule_codes_and_mask : forall s d, data_of_spec s = Some d ->
  lookupS (s2l (sp_list s)) uapi_lists = Some (w_flags d) /\ lookupS (s2l (sp_action s)) uapi_actions = Some (w_action d) /\
  (if sp_all s then w_mask d = repeat 4294967295 63 ++ [65535]
   else forall k, testbit_mask (w_mask d) k = true <-> In k (sp_syscalls s)).
Proof. exact accepted_rule_codes_and_mask. Qed.

(* the encoded rule's length is a multiple of four, whatever the string area holds *)
Theorem C06_wire_length_padded : forall d, (List.length (to_wire d) mod 4 = 0)%nat.
Proof. exact wire_length_padded. Qed.

Print Assumptions C06_accepted_rule_codes_and_mask.
Print Assumptions C06_wire_length_padded.
Print Assumptions C06_tables_are_uapi.
Print Assumptions C06_layout.
Print Assumptions C06_wire_exact.
Print Assumptions C06_accepted_rules_are_well_formed.
Print Assumptions C06_accepted_rules_decode.
Print Assumptions C06_one_triple_per_filter.
Print Assumptions C06_switch_lists_agree.
Print Assumptions C06_mask_exact.
Print Assumptions C06_mask_range.
