(* Properties/C18.v — netlink framing; trust only the kernel. *)
From Coq Require Import List Ascii NArith ZArith Bool.
Import ListNotations.
Require Import Mach Netlink Uapi ChkC18 NetlinkProofs.
Open Scope N_scope.

(* Send puts one message on the wire: header length 16 + payload, type, flags, the
   returned sequence number, the port id when the caller left pid 0; payload verbatim *)
Theorem C18_frame : forall c ty flags pid payload, ty < 65536 -> flags < 65536 -> pid < 2^32 -> port c < 2^32 ->
  N.of_nat (length payload) < 2^32 - 16 ->
  let '(c', sq, bytes) := send c ty flags pid payload in
  get_hdr bytes = Some ({| nl_len := 16 + N.of_nat (length payload); nl_type := ty; nl_flags := flags; nl_seq := sq;
                           nl_pid := if pid =? 0 then port c else pid |}, payload)
  /\ length bytes = (16 + length payload)%nat /\ cseq c' = sq.
Proof. exact send_frame. Qed.
(* the header reader used above is the fixed-offset UAPI reading *)
Theorem C18_audit_parser : forall buf,
  ((length buf < 16)%nat -> parse_audit_message buf = None) /\
  ((16 <= length buf)%nat -> exists h, parse_audit_message buf = Some (h, skipn 16 buf) /\
     (nl_len h, nl_type h, nl_flags h, nl_seq h, nl_pid h) = uapi_hdr buf).
Proof. exact parse_audit_message_spec. Qed.
(* returned sequence numbers increase and are pairwise distinct along any sequence of Sends (until the
   32-bit counter wraps).  Concurrent callers: each Send is one atomic add on the counter, so an
   execution is some sequential order of Sends - that the add is atomic is a runtime fact, observed with
   8 goroutines x 200 sends on a live socket, not part of this theorem *)
Theorem C18_seq_increasing : forall n c, cseq c + N.of_nat n < 2^32 -> forall i j a b, (i < j)%nat ->
  nth_error (sends c n) i = Some a -> nth_error (sends c n) j = Some b -> a < b.
Proof. exact sends_increasing. Qed.
Theorem C18_seq_distinct : forall n c, cseq c + N.of_nat n < 2^32 -> NoDup (sends c n).
Proof. exact sends_nodup. Qed.
(* Receive hands out data only for a datagram of at least a header from netlink port 0 *)
Theorem C18_receive_kernel_only : forall A nr isnl pid buf (parser : str -> option A) a,
  receive nr isnl pid buf parser = RecvOk a -> isnl = true /\ pid = 0 /\ (16 <= nr)%nat /\ parser (firstn nr buf) = Some a.
Proof. exact @receive_kernel_only. Qed.

Print Assumptions C18_frame.
Print Assumptions C18_audit_parser.
Print Assumptions C18_seq_increasing.
Print Assumptions C18_seq_distinct.
Print Assumptions C18_receive_kernel_only.
