(* Properties/C16.v — audit_status encode/decode per the kernel's layout.
   Oracle: Spec/Uapi.v (struct audit_status, the AUDIT_STATUS and AUDIT_FEATURE_BITMAP
   bits, AUDIT_GET/SET, the NLM_F flags), written by hand from the UAPI headers. *)
From Coq Require Import List NArith ZArith Bool.
Import ListNotations.
Require Import Mach AuditConsts MsgTypes AuditClient Uapi ChkClient StatusProofs ClientProofs ClientWalkProofs.
Open Scope N_scope.

(* the compiled struct has the kernel's size, field order and byte order (generated
   offsets, re-checked on every run) *)
Theorem C16_layout :
  (sizeof_audit_status, min_sizeof_audit_status, status_num_fields,
   off_st_mask, off_st_enabled, off_st_failure, off_st_pid, off_st_rate_limit, off_st_backlog_limit, off_st_lost, off_st_backlog,
   off_st_feature_bitmap, off_st_backlog_wait_time, off_st_backlog_wait_time_actual, native_little_endian)
  = (UAPI_SIZEOF_AUDIT_STATUS, UAPI_MIN_AUDIT_STATUS, 11, 0, 4, 8, 12, 16, 20, 24, 28, 32, 36, 40, true).
Proof. exact layout_ok. Qed.
(* exported names carry the kernel's numbers *)
Theorem C16_constants :
  (AuditGet, AuditSet, AuditStatusEnabled, AuditStatusFailure, AuditStatusPID, AuditStatusRateLimit, AuditStatusBacklogLimit,
   AuditStatusBacklogWaitTime, AuditStatusLost,
   AuditFeatureBitmapBacklogLimit, AuditFeatureBitmapBacklogWaitTime, AuditFeatureBitmapExecutablePath,
   AuditFeatureBitmapExcludeExtend, AuditFeatureBitmapSessionIDFilter, AuditFeatureBitmapLostReset,
   NLM_F_REQUEST, NLM_F_ACK, NLMSG_ERROR, NLMSG_DONE, NLMSG_HDRLEN, AUDIT_LIST_RULES, AUDIT_ADD_RULE, AUDIT_DEL_RULE)
  = (UAPI_AUDIT_GET, UAPI_AUDIT_SET, UAPI_AUDIT_STATUS_ENABLED, UAPI_AUDIT_STATUS_FAILURE, UAPI_AUDIT_STATUS_PID, UAPI_AUDIT_STATUS_RATE_LIMIT,
     UAPI_AUDIT_STATUS_BACKLOG_LIMIT, UAPI_AUDIT_STATUS_BACKLOG_WAIT_TIME, UAPI_AUDIT_STATUS_LOST,
     UAPI_AUDIT_FEATURE_BITMAP_BACKLOG_LIMIT, UAPI_AUDIT_FEATURE_BITMAP_BACKLOG_WAIT_TIME, UAPI_AUDIT_FEATURE_BITMAP_EXECUTABLE_PATH,
     UAPI_AUDIT_FEATURE_BITMAP_EXCLUDE_EXTEND, UAPI_AUDIT_FEATURE_BITMAP_SESSIONID_FILTER, UAPI_AUDIT_FEATURE_BITMAP_LOST_RESET,
     UAPI_NLM_F_REQUEST, UAPI_NLM_F_ACK, UAPI_NLMSG_ERROR, UAPI_NLMSG_DONE, UAPI_NLMSG_HDRLEN, UAPI_AUDIT_LIST_RULES, UAPI_AUDIT_ADD_RULE, UAPI_AUDIT_DEL_RULE).
Proof. exact consts_ok. Qed.
(* failure modes: the UAPI numbers 0,1,2 — or the known finding of the pinned tree
   (all three are 0; the check prints KNOWN-FINDING for it); anything else fails here *)
Theorem C16_failure_modes_or_known_finding :
  (SilentOnFailure, LogOnFailure, PanicOnFailure) = (UAPI_AUDIT_FAIL_SILENT, UAPI_AUDIT_FAIL_PRINTK, UAPI_AUDIT_FAIL_PANIC)
  \/ (SilentOnFailure, LogOnFailure, PanicOnFailure) = (0, 0, 0).
Proof. exact failure_modes_ok. Qed.

(* every setter, every argument value, both wait modes, every client state and kernel
   behaviour: exactly one request, AUDIT_SET with REQUEST|ACK, whose payload is the
   full-size UAPI struct with exactly that setting's mask bit and the value in its field *)
Theorem C16_setters : forall s w k v wait,
  snd (cset s w k v wait) = [(UAPI_AUDIT_SET, UAPI_REQ_ACK, ustatus_bytes (uapi_setter_status k v))].
Proof. exact setter_sends. Qed.

(* GetStatus sends exactly one request: AUDIT_GET with REQUEST|ACK and no payload, whatever happens next *)
Theorem C16_get_status_request : forall s w, snd (get_status s w) = [(UAPI_AUDIT_GET, UAPI_REQ_ACK, [])].
Proof.
  intros s w. unfold get_status. destruct (do_send s w) as [[[s1 w1] sq] f]. destruct f; [reflexivity|].
  destruct (reply sq (rscript w1)) as [r rest]. destruct (check_ack r); [reflexivity|]. destruct (reply sq rest). reflexivity.
Qed.

(* what GetStatus returns, when it returns a status, is the fixed-offset UAPI reading (eleven words, zero fill beyond
   the reply's end) of a payload of at least the 2.6.32 size - no field is adjusted on the way, whatever the reply's length *)
Theorem C16_get_status_result : forall s w ws,
  (let '(_, _, r, _) := get_status s w in r) = RStatus ws ->
  exists d, UAPI_MIN_AUDIT_STATUS <= N.of_nat (length d) /\ ws = uapi_read_status d.
Proof.
  intros s w ws. unfold get_status. destruct (do_send s w) as [[[s1 w1] sq] f]. destruct f; [discriminate|].
  destruct (reply sq (rscript w1)) as [r rest]. destruct (check_ack r); [discriminate|].
  destruct (reply sq rest) as [r2 rest']. destruct r2 as [e|[[ty q] d]]; [discriminate|].
  destruct (ty =? AuditGet); [|discriminate]. destruct (status_from_wire d) as [ws'|] eqn:E; [|discriminate].
  intros H. injection H as <-. exists d. rewrite from_wire_spec in E.
  destruct (N.ltb_spec (N.of_nat (length d)) UAPI_MIN_AUDIT_STATUS) as [L|L]; [discriminate|]. injection E as <-. split; [exact L|reflexivity].
Qed.

(* FromWireFormat: io.ErrUnexpectedEOF below the 2.6.32 size; otherwise the eleven words
   read at the kernel's offsets, zero where the buffer ends, trailing bytes ignored *)
Theorem C16_from_wire : forall buf,
  status_from_wire buf = if (N.of_nat (length buf) <? UAPI_MIN_AUDIT_STATUS) then None else Some (uapi_read_status buf).
Proof. exact from_wire_spec. Qed.

(* the C16 clause of the judge (written from the UAPI layout, never calling the model) accepts what the model does: a Set*
   for every setter, value, wait mode, state, script and send fault; a GetStatus whenever its request was sent - the wire
   it sends, the status it hands back, the error class for a short reply *)
Theorem C16_judge_accepts_setters : forall s w k v wait,
  let '(_, _, (r, ws, _)) := cstep s w (OSet k v wait) in chk_c16_call (OSet k v wait) (next_seq s) (rscript w) r ws = true.
Proof. exact chk_c16_accepts_set. Qed.
Theorem C16_judge_accepts_get_status : forall s w, no_fault w ->
  let '(_, _, (r, ws, _)) := cstep s w OGetStatus in chk_c16_call OGetStatus (next_seq s) (rscript w) r ws = true.
Proof. exact chk_c16_accepts_get_status. Qed.

Print Assumptions C16_get_status_result.
Print Assumptions C16_judge_accepts_setters.
Print Assumptions C16_judge_accepts_get_status.
Print Assumptions C16_get_status_request.
Print Assumptions C16_layout.
Print Assumptions C16_constants.
Print Assumptions C16_failure_modes_or_known_finding.
Print Assumptions C16_setters.
Print Assumptions C16_from_wire.
