(* Properties/C01.v — every pushed record delivered exactly once, grouped by sequence.
   chk_C01 (Model/Reassembler.v) replays the observable trace keeping the list U of
   pushed, undelivered non-EOE messages: every callback must be non-empty and equal
   to the sub-list of U with the sequence of its first message (push order, nothing
   else, nothing missing), and after a successful Close U must be empty. *)
From Coq Require Import List ZArith Bool.
Import ListNotations.
Require Import Reassembler ReasmInv ReasmC01.
Open Scope Z_scope.

(* all histories, all maxInFlight (also negative), all timeouts, all clock readings,
   all sequence numbers (no window needed): the sort is only used as a permutation *)
Theorem C01_exactly_once_grouped : forall c ops, chk_C01 [] ops (run c init ops) = true.
Proof. exact ReasmC01.C01_exactly_once_grouped. Qed.

(* non-vacuity: a history with disorder, a duplicate, an EOE and a Close *)
Example C01_example :
  run {| maxSize := 1; timeout := 10 |} init
      [Push (Some (Build_msg 0 7 1300)) 0 0; Push (Some (Build_msg 1 6 1300)) 1 1; Push (Some (Build_msg 2 7 1302)) 2 2;
       Push (Some (Build_msg 3 8 1300)) 3 3; Push (Some (Build_msg 4 7 1320)) 4 4; Close]
  = [[]; [Complete [Build_msg 1 6 1300]]; []; [Complete [Build_msg 0 7 1300; Build_msg 2 7 1302]]; []; [Complete [Build_msg 3 8 1300]; Ret true]].
Proof. vm_compute. reflexivity. Qed.

Print Assumptions C01_exactly_once_grouped.
