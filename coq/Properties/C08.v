(* Properties/C08.v — commands report the kernel's verdict for their own request.
   Model/AuditClient.v; the fault model of the property is the predicate [answers]
   (Proofs/ClientProofs.v): any number of blocks of at most nine transient
   EINTR/EAGAIN failures each followed by an unsolicited sequence-0 record, then at
   most nine more transient failures, then the ACK for this request carrying errno
   (as the 32-bit word -errno followed by any payload). *)
From Coq Require Import List NArith ZArith Bool.
Import ListNotations.
Require Import Mach AuditConsts MsgTypes AuditClient ClientProofs ChkClient ClientAckProofs ClientSpecProofs.
Open Scope N_scope.

(* getReply finds the message addressed to its request through all admissible noise *)
Theorem C08_reply_found : forall seq ty d script rest, seq <> 0 -> delivers seq ty d script rest ->
  reply seq script = (inr (ty, seq, d), rest).
Proof. exact reply_delivers. Qed.

(* nil exactly when errno = 0, otherwise an error carrying that errno: every Set* in
   WaitForReply mode, DeleteRule, AddRule (EEXIST is the documented "rule exists") *)
Theorem C08_set_verdict : forall s w k v errno rest, no_fault w -> next_seq s <> 0 -> (0 <= errno < 2^31)%Z ->
  answers (next_seq s) errno (rscript w) rest ->
  result_of (snd (cstep s w (OSet k v true))) = if Z.eqb errno 0 then ROk else RFail (EErrno errno).
Proof. exact set_wait_verdict. Qed.
Theorem C08_delete_rule_verdict : forall s w d errno rest, no_fault w -> next_seq s <> 0 -> (0 <= errno < 2^31)%Z ->
  answers (next_seq s) errno (rscript w) rest ->
  result_of (snd (cstep s w (ODeleteRule d))) = if Z.eqb errno 0 then ROk else RFail (EErrno errno).
Proof. exact delete_rule_verdict. Qed.
Theorem C08_add_rule_verdict : forall s w d errno rest, no_fault w -> next_seq s <> 0 -> (0 <= errno < 2^31)%Z ->
  answers (next_seq s) errno (rscript w) rest ->
  result_of (snd (cstep s w (OAddRule d))) =
    if Z.eqb errno 0 then ROk else if Z.eqb errno EEXIST then RFail ERuleExists else RFail (EErrno errno).
Proof. exact add_rule_verdict. Qed.
(* GetStatus returns exactly the status the kernel sent for this request *)
Theorem C08_get_status_verdict : forall s w errno mid d rest, no_fault w -> next_seq s <> 0 -> (0 <= errno < 2^31)%Z ->
  answers (next_seq s) errno (rscript w) mid -> delivers (next_seq s) AuditGet d mid rest ->
  result_of (snd (cstep s w OGetStatus)) =
    if Z.eqb errno 0 then match status_from_wire d with Some ws => RStatus ws | None => RFail EEOF end else RFail (EErrno errno).
Proof. exact get_status_verdict. Qed.
(* GetRules returns exactly the rule payloads the kernel sent for this request, in order *)
Theorem C08_get_rules_verdict : forall s w errno mid rs rest, no_fault w -> next_seq s <> 0 -> (0 <= errno < 2^31)%Z ->
  answers (next_seq s) errno (rscript w) mid -> rule_stream (next_seq s) rs mid rest ->
  result_of (snd (cstep s w OGetRules)) = if Z.eqb errno 0 then RRules rs else RFail (EErrno errno).
Proof. exact get_rules_verdict. Qed.
(* DeleteRules = list the rules, then delete each with its own request: the number of rules when the listing
   succeeds and every delete is acknowledged with 0 ... *)
Theorem C08_delete_rules_verdict : forall s w mid rs mid2 rest, sfaults w = [] -> next_seq s <> 0 ->
  answers (next_seq s) 0 (rscript w) mid -> rule_stream (next_seq s) rs mid mid2 -> dels_answered (next_seq s) rs mid2 rest ->
  result_of (snd (cstep s w ODeleteRules)) = RCount (N.of_nat (length rs)).
Proof. exact delete_rules_verdict. Qed.
(* ... and the first delete the kernel rejects is the verdict; the rules after it are not touched *)
Theorem C08_delete_all_first_error : forall ok s w sent r later mid rest errno, sfaults w = [] -> dels_answered (nseq s) ok (rscript w) mid ->
  (0 < errno < 2^31)%Z ->
  let n := fold_left (fun a (_ : str) => (a + 1) mod 2^32) ok (nseq s) in
  (n + 1) mod 2^32 <> 0 -> answers ((n + 1) mod 2^32) errno mid rest ->
  exists s', delete_all s w (ok ++ r :: later) sent = (s', with_script w rest, Some (EErrno errno), sent ++ map del_wire ok ++ [del_wire r]).
Proof. exact delete_all_first_error. Qed.

(* a reply carrying another request's sequence number is never accepted as success *)
Theorem C08_foreign_seq_rejected : forall seq q ty d ns ts rest, seq <> 0 -> q <> 0 -> q <> seq -> noise ns ->
  (length ts <= 9)%nat -> forallb transient ts = true ->
  exists e, check_ack (fst (reply seq (ns ++ ts ++ RMsg ty q d :: rest))) = Some e.
Proof. exact foreign_seq_rejected. Qed.

(* non-vacuity: a script with two noise blocks, nine transient failures and an ACK carrying EPERM *)
Example C08_example :
  let script := [RErr 4; RErr 11; RMsg 1300 0 []; RMsg 1305 0 []; RErr 4; RErr 4; RErr 4; RErr 4; RErr 4; RErr 4; RErr 4; RErr 4; RErr 4;
                 RMsg NLMSG_ERROR 1 (le32 (errno_word 1) ++ [])] in
  result_of (snd (cstep cinit {| rscript := script; sfaults := [] |} (ODeleteRule []))) = RFail (EErrno 1).
Proof. vm_compute. reflexivity. Qed.

(* "returns nil exactly when the kernel acknowledged that request with errno 0", the only-if half, for EVERY kernel script
   (no fault-model hypothesis: receive failures of any kind, silence, malformed and foreign replies included): a reply
   that passes the ACK check, a Set* in WaitForReply mode that returns nil, an AddRule / DeleteRule that returns nil - each
   implies that the script holds an NLMSG_ERROR message with this request's number and errno 0.  acked0_somewhere is the
   clause the checker applies to the implementation's runs outside the fault model. *)
Theorem C08_success_only_if_acked : forall q script r rest, reply q script = (r, rest) -> check_ack r = None ->
  acked0_somewhere q script = true.
Proof. exact success_only_if_acked. Qed.
Theorem C08_set_nil_only_if_acked : forall s w k v s' w' ws, cset s w k v true = (s', w', ROk, ws) ->
  acked0_somewhere ((nseq s + 1) mod 2^32) (rscript w) = true.
Proof. exact set_nil_only_if_acked. Qed.
Theorem C08_rule_cmd_nil_only_if_acked : forall s w ty data s' w' ws, ack_cmd s w ty data = (s', w', None, ws) ->
  acked0_somewhere ((nseq s + 1) mod 2^32) (rscript w) = true.
Proof. exact ack_cmd_nil_only_if_acked. Qed.

(* the checker's independent reading of the script (spec_next, written from the property's fault model) agrees with the
   model's getReply wherever it commits itself: a reply found is the reply getReply returns, a foreign one is ESeq *)
Theorem C08_spec_reading_is_get_reply : forall q script,
  match spec_next q script 0 with
  | SMsg ty d rest => reply q script = (inr (ty, q, d), rest)
  | SForeign => exists r, reply q script = (inl ESeq, r)
  | SOut => True
  end.
Proof. exact spec_reply. Qed.

(* the C08 clause the judge applies to the implementation accepts the model's answer on EVERY kernel script: Set* in
   WaitForReply mode, DeleteRule, AddRule - the errno decides inside the fault model, a foreign reply fails, and outside
   the fault model success needs an acknowledgement *)
Theorem C08_checker_accepts_set : forall s w k v, no_fault w ->
  chk_c08_call (OSet k v true) (next_seq s) (rscript w) (result_of (snd (cstep s w (OSet k v true)))) = true.
Proof. exact chk_c08_accepts_set. Qed.
Theorem C08_checker_accepts_delete_rule : forall s w d, no_fault w ->
  chk_c08_call (ODeleteRule d) (next_seq s) (rscript w) (result_of (snd (cstep s w (ODeleteRule d)))) = true.
Proof. exact chk_c08_accepts_delete_rule. Qed.
Theorem C08_checker_accepts_add_rule : forall s w d, no_fault w ->
  chk_c08_call (OAddRule d) (next_seq s) (rscript w) (result_of (snd (cstep s w (OAddRule d)))) = true.
Proof. exact chk_c08_accepts_add_rule. Qed.

Theorem C08_checker_accepts_get_status : forall s w, no_fault w ->
  chk_c08_call OGetStatus (next_seq s) (rscript w) (result_of (snd (cstep s w OGetStatus))) = true.
Proof. exact chk_c08_accepts_get_status. Qed.

Theorem C08_checker_accepts_get_rules : forall s w, no_fault w ->
  chk_c08_call OGetRules (next_seq s) (rscript w) (result_of (snd (cstep s w OGetRules))) = true.
Proof. exact chk_c08_accepts_get_rules. Qed.

(* DeleteRules: the listing and then one delete per rule, numbered consecutively; where the request numbers do not wrap
   (the checker counts q+1, q+2, ... in N, the client modulo 2^32) and no send fails *)
Theorem C08_checker_accepts_delete_rules : forall s w, sfaults w = [] ->
  next_seq s + 1 + N.of_nat (length (rscript w)) < 2^32 ->
  chk_c08_call ODeleteRules (next_seq s) (rscript w) (result_of (snd (cstep s w ODeleteRules))) = true.
Proof. exact chk_c08_accepts_delete_rules. Qed.

Print Assumptions C08_reply_found.
Print Assumptions C08_checker_accepts_delete_rules.
Print Assumptions C08_checker_accepts_get_rules.
Print Assumptions C08_checker_accepts_get_status.
Print Assumptions C08_spec_reading_is_get_reply.
Print Assumptions C08_checker_accepts_set.
Print Assumptions C08_checker_accepts_delete_rule.
Print Assumptions C08_checker_accepts_add_rule.
Print Assumptions C08_success_only_if_acked.
Print Assumptions C08_set_nil_only_if_acked.
Print Assumptions C08_rule_cmd_nil_only_if_acked.
Print Assumptions C08_set_verdict.
Print Assumptions C08_delete_rule_verdict.
Print Assumptions C08_add_rule_verdict.
Print Assumptions C08_get_status_verdict.
Print Assumptions C08_get_rules_verdict.
Print Assumptions C08_delete_rules_verdict.
Print Assumptions C08_delete_all_first_error.
Print Assumptions C08_foreign_seq_rejected.
