(* Properties/C03.v — EventsLost reports exactly the skipped sequence numbers.
   chk_C03 (Proofs/ReasmC03.v) replays the deliveries keeping the last in-order
   delivered sequence: a delivery ahead of it in uint32 serial-number order
   contributes the numbers skipped and moves it; any other delivery (late,
   duplicate) contributes nothing.  Per call: if the contributions sum to e > 0
   the call reports exactly one Lost e, after its deliveries; if e = 0, none. *)
From Coq Require Import List ZArith Bool.
Import ListNotations.
Require Import Reassembler ReasmInv ReasmC01 ReasmC03.
Open Scope Z_scope.

Theorem C03_lost_exact : forall c ops, chk_C03 None (run c init ops) = true.
Proof. exact ReasmC03.C03_lost_exact. Qed.

(* non-vacuity and the three histories that failed before the repair:
   late arrival, duplicate, and a gap after sequence 0 *)
Example C03_example_late :
  run {| maxSize := 0; timeout := 100 |} init
      [Push (Some (Build_msg 0 10 1300)) 0 0; Push (Some (Build_msg 1 5 1300)) 1 1; Push (Some (Build_msg 2 11 1300)) 2 2;
       Push (Some (Build_msg 3 11 1300)) 3 3; Push (Some (Build_msg 4 15 1300)) 4 4]
  = [[Complete [Build_msg 0 10 1300]]; [Complete [Build_msg 1 5 1300]]; [Complete [Build_msg 2 11 1300]];
     [Complete [Build_msg 3 11 1300]]; [Complete [Build_msg 4 15 1300]; Lost 3]].
Proof. vm_compute. reflexivity. Qed.
Example C03_example_zero :
  run {| maxSize := 0; timeout := 100 |} init
      [Push (Some (Build_msg 0 4294967295 1300)) 0 0; Push (Some (Build_msg 1 0 1300)) 1 1; Push (Some (Build_msg 2 3 1300)) 2 2]
  = [[Complete [Build_msg 0 4294967295 1300]]; [Complete [Build_msg 1 0 1300]]; [Complete [Build_msg 2 3 1300]; Lost 2]].
Proof. vm_compute. reflexivity. Qed.

Print Assumptions C03_lost_exact.
