(* Properties/C07.v — decoding a built rule gives text that re-encodes to the same rule.
   Proved here: the wire layer (decode of encode is the identity on the header and
   the string buffer).  The text layer (ToCommandLine, flags.Parse) is not modelled:
   the full round trip bytes -> text -> bytes -> text is decided on every generated
   rule by the observation-level checker chk_C07 on the implementation. *)
From Coq Require Import List Ascii NArith ZArith Bool.
Import ListNotations.
Require Import Bytes Mach RuleTables RuleDecode Mask RuleEncode Uapi UapiRule RuleWire.
Open Scope N_scope.

Theorem C07_wire_roundtrip_partial : forall d, wf_data d ->
  from_wire (to_wire d) =
    Ok ({| flags := w_flags d; action := w_action d; fcount := N.of_nat (length (w_triples d)); mask := w_mask d;
           fields := pad64 (map (fun t => fst (fst t)) (w_triples d)); values := pad64 (map snd (w_triples d));
           fflags := pad64 (map (fun t => snd (fst t)) (w_triples d)); buflen := N.of_nat (length (concat (w_strings d))) |},
        concat (w_strings d)).
Proof. exact from_wire_to_wire. Qed.

Print Assumptions C07_wire_roundtrip_partial.
