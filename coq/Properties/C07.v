(* Properties/C07.v — decoding a built rule gives text that re-encodes to the same rule.

   The model: Model/RuleBuild.v (rule.Build on what flags.Parse returns, with the value parsers of
   Model/RuleValue.v), Model/RuleEncode.v (toAuditRuleData / toWireFormat), Model/RuleDecode.v
   (fromWireFormat / fromAuditRuleData), Model/RuleText.v (ToCommandLine), Model/Flags.v (flags.Parse
   on tokens) and blank-splitting for shellquote.Split on a line without quotes.  Each is tied to
   the implementation by the correspondence check of this property and of C06 / C14.

   Proved (C07_round_trip): the full round trip for every parsed line the Build model accepts within the
   property's domain - syscall rules (-a / -A lines) and file watches (-w lines), whether ToCommandLine
   prints the rule in the -a form or, having exactly the shape of a watch, in the -w form. *)
From Coq Require Import List Ascii String NArith ZArith Bool.
Import ListNotations.
Require Import Bytes Mach RuleTables RuleDecode Mask RuleEncode RuleText RuleValue FilterRe Flags RuleBuild.
Require Import RuleWire RuleSpecWf RuleReprint RuleFlagsBack RuleFieldsBack RuleRoundTrip RuleWatchBack RuleWatchLine RuleTextSplit RuleDecodeBack RuleValueProofs RuleMaskText.
Open Scope N_scope.

(* the wire layer alone *)
Theorem C07_wire_roundtrip : forall d, wf_data d ->
  from_wire (to_wire d) =
    Ok ({| flags := w_flags d; action := w_action d; fcount := N.of_nat (List.length (w_triples d)); mask := w_mask d;
           fields := pad64 (map (fun t => fst (fst t)) (w_triples d)); values := pad64 (map snd (w_triples d));
           fflags := pad64 (map (fun t => snd (fst t)) (w_triples d)); buflen := N.of_nat (List.length (List.concat (w_strings d))) |},
        List.concat (w_strings d)).
Proof. exact from_wire_to_wire. Qed.

(* the domain of the property, on a parsed line:
   - filter_ok: a -F value is not empty, holds no blank, and a bare < > & is not followed by '='
     (what flags.Parse returns for a line whose values hold no whitespace);
   - keys_ok: no key holds a blank;
   - not_finding_103: the known finding (an explicit syscall set filling the first 63 mask words) is outside. *)
Theorem C07_round_trip_a_form (stat : str -> bool) li ac fs scs keys s d :
  spec_of_prule li ac fs scs keys = Some s -> data_of_spec s = Some d ->        (* Build accepts the rule *)
  Forall filter_ok fs -> keys_ok keys -> not_finding_103 d ->
  watch_items (w_flags d) (w_action d) (w_mask d) (w_triples d) (w_strings d) = None ->   (* printed in the -a form *)
  exists text,
    text_of_wire (to_wire d) = Some text /\                                      (* ToCommandLine succeeds on the wire form *)
    rebuild stat text = Some d /\                                                (* its text is accepted and builds the same rule *)
    option_map to_wire (rebuild stat text) = Some (to_wire d).                   (* hence byte-identical wire data, and the same text again *)
Proof.
  intros Hspec Hdata Hf Hk H103 Hw.
  destruct (syscall_form_round_trip stat _ _ _ _ _ _ _ Hspec Hdata Hf Hk H103 Hw) as (its & Hits & Htok & Hfo & p' & Hparse & Hbuild).
  destruct (built_of_data _ _ _ _ _ _ _ Hspec Hdata Hf Hk) as (fsK & lK & HbK & Hts & Hss).
  pose proof (built_aligned _ _ _ HbK) as Hal.
  destruct (decode_of_built d lK (data_of_spec_wf _ _ Hdata) Hts Hss Hal) as (h & buf & Hfw & Hfl & Hac & Hm & Hdec).
  exists (text_of_items its).
  assert (Ht: text_of_wire (to_wire d) = Some (text_of_items its)).
  { unfold text_of_wire. rewrite Hfw, Hdec. unfold to_command_line. cbn [r_fields r_strings]. rewrite Hfl, Hac, Hm, Hits. reflexivity. }
  assert (Hr: rebuild stat (text_of_items its) = Some d).
  { unfold rebuild. rewrite (printed_text_splits _ Htok Hfo), Hparse. exact Hbuild. }
  split; [exact Ht|]. split; [exact Hr|]. rewrite Hr. reflexivity.
Qed.

(* the -w form: a rule of exactly the watch shape, under the property's proviso that the filesystem agrees
   (path= names a non-directory, dir= an existing directory: fs_agrees) and that trimming leaves the key alone *)
Theorem C07_round_trip_w_form (stat : str -> bool) li ac fs scs keys s d its :
  spec_of_prule li ac fs scs keys = Some s -> data_of_spec s = Some d ->
  Forall filter_ok fs -> keys_ok keys -> not_finding_103 d ->
  watch_items (w_flags d) (w_action d) (w_mask d) (w_triples d) (w_strings d) = Some its ->   (* printed in the -w form *)
  fs_agrees stat d -> key_trim_stable d ->
  exists text,
    text_of_wire (to_wire d) = Some text /\ rebuild stat text = Some d /\ option_map to_wire (rebuild stat text) = Some (to_wire d).
Proof.
  intros Hspec Hdata Hf Hk H103 Hw Hfs Htrim.
  destruct (watch_form_round_trip stat _ _ _ _ _ _ _ _ Hspec Hdata Hf Hk H103 Hw Hfs Htrim) as (Htok & Hfo & p' & Hparse & Hbuild).
  destruct (built_of_data _ _ _ _ _ _ _ Hspec Hdata Hf Hk) as (fsK & lK & HbK & Hts & Hss).
  pose proof (built_aligned _ _ _ HbK) as Hal.
  destruct (decode_of_built d lK (data_of_spec_wf _ _ Hdata) Hts Hss Hal) as (h & buf & Hfw & Hfl & Hac & Hm & Hdec).
  exists (text_of_items its).
  assert (Ht: text_of_wire (to_wire d) = Some (text_of_items its)).
  { unfold text_of_wire. rewrite Hfw, Hdec. unfold to_command_line, cmd_items. cbn [r_fields r_strings]. rewrite Hfl, Hac, Hm.
    unfold watch_items in Hw |- *. destruct (last_index 106 (w_triples d) 0 None); [|discriminate].
    destruct (all_syscalls (w_mask d) && is_watch (w_flags d) (w_action d) _) eqn:E; [|discriminate].
    apply andb_prop in E. destruct E as [_ E]. unfold is_watch in E. apply andb_prop in E. destruct E as [E _]. apply andb_prop in E. destruct E as [E1 E2].
    apply N.eqb_eq in E1, E2. rewrite E1, E2 in *. cbn [list_name action_name N.eqb Pos.eqb]. rewrite Hw. reflexivity. }
  assert (Hr: rebuild stat (text_of_items its) = Some d).
  { unfold rebuild. rewrite (printed_text_splits _ Htok Hfo), Hparse. exact Hbuild. }
  split; [exact Ht|]. split; [exact Hr|]. rewrite Hr. reflexivity.
Qed.

(* ---------- every rule ---------- *)
(* the property's domain on a parsed line *)
Definition in_domain (stat : str -> bool) (p : prule) (d : wiredata) : Prop :=
  match p with
  | PSyscall _ li ac fs scs keys => Forall filter_ok fs /\ keys_ok keys
  | PWatch path perms keys => forallb is_perm perms = true /\ clean (clean_rooted path) = true /\ keys_ok keys
  | PDelete _ => True
  end /\
  not_finding_103 d /\
  (* for a rule printed with -w: the filesystem agrees with path= / dir=, and trimming leaves the key alone *)
  (watch_items (w_flags d) (w_action d) (w_mask d) (w_triples d) (w_strings d) <> None ->
   (match p with PWatch _ _ _ => True | _ => fs_agrees stat d end) /\ key_trim_stable d).

Lemma perm_letters_clean perms : forallb is_perm perms = true -> perms <> [] -> clean perms = true.
Proof.
  intros Hp Hne. unfold clean. destruct perms as [|c r]; [contradiction|]. cbn [List.length Nat.eqb negb andb].
  rewrite forallb_forall in *. intros x Hx. specialize (Hp x Hx). unfold is_perm, is, beq, Flags.l in Hp. cbn in Hp. repeat rewrite andb_true_r in Hp.
  destruct (Ascii.eqb x "r") eqn:E1; [apply Ascii.eqb_eq in E1; subst; reflexivity|].
  destruct (Ascii.eqb x "w") eqn:E2; [apply Ascii.eqb_eq in E2; subst; reflexivity|].
  destruct (Ascii.eqb x "x") eqn:E3; [apply Ascii.eqb_eq in E3; subst; reflexivity|].
  destruct (Ascii.eqb x "a") eqn:E4; [apply Ascii.eqb_eq in E4; subst; reflexivity|]. discriminate.
Qed.

Theorem C07_round_trip (stat : str -> bool) (p : prule) (d : wiredata) :
  build_prule stat p = Some d -> in_domain stat p d ->
  exists text,
    text_of_wire (to_wire d) = Some text /\ rebuild stat text = Some d /\ option_map to_wire (rebuild stat text) = Some (to_wire d).
Proof.
  intros Hb (Hdom & H103 & Hwf).
  destruct p as [ks|path perms keys|pre li ac fs scs keys]; [discriminate| |].
  - (* a -w line *)
    destruct Hdom as (Hperm & Hcl & Hk). cbn [build_prule] in Hb. destruct path as [|c0 pr]; [discriminate|].
    destruct (is_abs (c0 :: pr)); [|discriminate]. set (path' := clean_rooted (c0 :: pr)) in *.
    assert (Hne: path' <> []) by (unfold path', clean_rooted; discriminate).
    destruct (watch_line_as_syscall_rule _ _ _ _ _ Hb Hperm Hne) as (s & Hspec & Hdata).
    assert (Hfok: Forall filter_ok (watch_filters path' (stat path') perms)).
    { unfold watch_filters. constructor; [|constructor; [|constructor]].
      - hnf. intros _. split; auto.
      - hnf. intros _.
        assert (Hc: clean (watch_perm_text perms) = true).
        { unfold watch_perm_text. destruct perms as [|p0 prs]; [reflexivity|]. apply perm_letters_clean; [exact Hperm|discriminate]. }
        split; auto. unfold clean in Hc. destruct (watch_perm_text perms); [discriminate|reflexivity]. }
    destruct (watch_items (w_flags d) (w_action d) (w_mask d) (w_triples d) (w_strings d)) as [its|] eqn:Ew.
    + destruct (Hwf ltac:(discriminate)) as [_ Htrim].
      assert (Hfs: fs_agrees stat d).
      { unfold data_of_watch in Hb. destruct (lookupS (s2l "=") operators_table); [|discriminate].
        destruct (lookupS (s2l (if stat path' then "dir" else "path")) fields_table) as [pf|] eqn:Epf; [|discriminate].
        destruct (lookupS (s2l "perm") fields_table); [|discriminate]. destruct (path_max <? _); [discriminate|].
        destruct (add_keys _ keys) as [[ts ss]|] eqn:Ek; [|discriminate]. injection Hb as <-. unfold fs_agrees. cbn [w_triples w_strings].
        assert (Hts: exists r1 r2, ts = (pf, n, N.of_nat (List.length path')) :: r1 /\ ss = path' :: r2).
        { unfold add_keys in Ek. destruct keys; [injection Ek as <- <-; eauto|].
          destruct (_ =? 0)%nat; [discriminate|]. destruct (max_key_length <? _); [discriminate|]. destruct (lookupS (s2l "=") operators_table); [|discriminate].
          injection Ek as <- <-. cbn [fst snd app]. eauto. }
        destruct Hts as (r1 & r2 & -> & ->). destruct perm_code as (_ & _ & _ & _ & _ & Hp1 & Hp2).
        destruct (stat path'); [rewrite Hp2 in Epf|rewrite Hp1 in Epf]; injection Epf as <-; reflexivity. }
      exact (C07_round_trip_w_form stat _ _ _ _ _ _ _ _ Hspec Hdata Hfok Hk H103 Ew Hfs Htrim).
    + exact (C07_round_trip_a_form stat _ _ _ _ _ _ _ Hspec Hdata Hfok Hk H103 Ew).
  - (* a -a / -A line *)
    destruct Hdom as (Hfok & Hk). cbn [build_prule] in Hb. destruct (spec_of_prule li ac fs scs keys) as [s|] eqn:Hspec; [|discriminate].
    destruct (watch_items (w_flags d) (w_action d) (w_mask d) (w_triples d) (w_strings d)) as [its|] eqn:Ew.
    + destruct (Hwf ltac:(discriminate)) as [Hfs Htrim].
      exact (C07_round_trip_w_form stat _ _ _ _ _ _ _ _ Hspec Hb Hfok Hk H103 Ew Hfs Htrim).
    + exact (C07_round_trip_a_form stat _ _ _ _ _ _ _ Hspec Hb Hfok Hk H103 Ew).
Qed.

(* the operator condition of filter_ok is what the -F scanner returns: a bare < > & is followed by '=' only
   when that '=' is the whole value (the one corner the theorem leaves out) *)
Theorem C07_scanner_output_in_domain : forall v lhs o rhs, scan_filter v = Some (lhs, o, rhs) ->
  op_rhs_ok o rhs = true \/ rhs = ["="%char].
Proof. exact scan_filter_rhs_ok. Qed.

(* the value codecs on their own: whatever ToCommandLine prints after the operator is read back as the value *)
Theorem C07_values_read_back f v t : f <> 111 -> value_in_range f v -> print_value f v = Some t -> parse_value f t = VOk v.
Proof. exact (value_round_trip f v t). Qed.

(* the syscall numbers listed for a mask rebuild the mask *)
Theorem C07_mask_read_back m : mask_wf m -> build_mask (repeat 0 64) (syscalls_of m 0) = Some m.
Proof. exact (mask_of_listed_syscalls m). Qed.

Print Assumptions C07_wire_roundtrip.
Print Assumptions C07_round_trip_a_form.
Print Assumptions C07_round_trip_w_form.
Print Assumptions C07_round_trip.
Print Assumptions C07_scanner_output_in_domain.
Print Assumptions C07_values_read_back.
Print Assumptions C07_mask_read_back.

(* the hypotheses are met by an ordinary rule:  -a always,exit -F arch=b64 -S open,close -F uid>=1000 -F path=/etc/passwd -k id -k pw *)
Example C07_example :
  let fs := [(false, s2l "arch", s2l "=", s2l "b64"); (false, s2l "uid", s2l ">=", s2l "1000"); (false, s2l "path", s2l "=", s2l "/etc/passwd")] in
  let keys := [s2l "id"; s2l "pw"] in
  exists s d, spec_of_prule (s2l "exit") (s2l "always") fs [s2l "open"; s2l "close"] keys = Some s /\ data_of_spec s = Some d /\
              Forall filter_ok fs /\ keys_ok keys /\ not_finding_103 d /\
              watch_items (w_flags d) (w_action d) (w_mask d) (w_triples d) (w_strings d) = None.
Proof.
  cbv zeta.
  destruct (spec_of_prule (s2l "exit") (s2l "always") _ _ _) as [s|] eqn:Es; [|vm_compute in Es; discriminate].
  destruct (data_of_spec s) as [d|] eqn:Ed; [|vm_compute in Es; injection Es as <-; vm_compute in Ed; discriminate].
  exists s, d. split; [first [exact Es | reflexivity]|]. split; [exact Ed|].
  split. { repeat constructor. }
  split. { right. reflexivity. }
  vm_compute in Es. injection Es as <-. vm_compute in Ed. injection Ed as <-.
  split. { intros H. vm_compute in H. discriminate. }
  vm_compute. reflexivity.
Qed.
