(* Properties/C15.v — coalescing is repeatable, leaves its inputs intact and isolates events.
   The functional model cannot mutate anything, so the statements are made on a
   store-passing reading: messages live in a store together with their cached Data();
   CoalesceMessages returns an event and the store.  The repaired code (fix commit
   "CoalesceMessages no longer deletes fields from its input messages") works on copies,
   hence the identity store; the pinned code's delete() on the cached map would be a
   store update and would falsify all three statements.  Whether the implementation is
   this model is decided by the run: snapshots of every input before/after, repeated
   calls, events of a pool re-compared after later calls, race detector. *)
From Coq Require Import List Ascii String NArith ZArith Bool Arith.
Import ListNotations.
Require Import KV Parser ChkCoalesce CoalesceProofs.

Theorem C15_inputs_intact : forall st ids, snd (coalesce_st st ids) = st.
Proof. exact coalesce_inputs_intact. Qed.
Theorem C15_repeatable : forall st ids, fst (coalesce_st (snd (coalesce_st st ids)) ids) = fst (coalesce_st st ids).
Proof. exact coalesce_repeatable. Qed.
Theorem C15_isolated : forall st a b, fst (coalesce_st (snd (coalesce_st st b)) a) = fst (coalesce_st st a).
Proof. exact coalesce_isolated. Qed.

Print Assumptions C15_inputs_intact.
Print Assumptions C15_repeatable.
Print Assumptions C15_isolated.
