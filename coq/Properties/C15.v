(* Properties/C15.v — coalescing is repeatable, leaves its inputs intact and isolates events.
   Stated on the heap reading of CoalesceMessages (Model/CoalesceHeap.v): Go maps are cells, Data()
   hands out the message's cached cell, every statement of coalesce.go that writes into a map is a
   write to a cell, every make / copyData an allocation, event.Paths holds the PATH messages' own
   cells.  The theorems say that all writes of a call land in cells the call allocated itself.
   The pinned tree's newEvent (delete on the map Data() returned) falsifies them
   (Proofs/CoalesceHeapProofs.v, pinned_variant_changes_its_input); it was repaired.
   Tie to the source: the event read back from the heap is proved equal to the functional model
   (ChkCoalesce.model_event) that the correspondence check runs against the implementation on every
   generated group; the write targets themselves are tied by Gen/CoalesceWrites.v (every map write
   in coalesce.go, read from the AST, goes to the event or to a copyData result) and by the run:
   snapshots of every input before/after, repeated calls, events of a pool re-compared after later
   calls, race detector.  Data races are outside this model. *)
From Coq Require Import List Ascii String NArith ZArith Bool Arith.
Import ListNotations.
Require Import KV Parser ChkCoalesce CoalesceProofs CoalesceHeap CoalesceHeapProofs CoalesceWrites CoalesceWritesOk SliceHeap SliceHeapProofs IdCache IdCacheProofs.

(* the heap model computes the functional model's event, changes no cell that existed before the call, and
   the event's own maps are cells allocated by the call (its Paths: the input messages' cells) *)
Theorem C15_heap_model_refines : forall h rs, Forall (rec_valid (List.length h)) rs ->
  let '(h', oe) := coalesce_h h rs in
  option_map (deref h') oe = model_event (map (to_rec h) rs) /\
  agree_below (List.length h) h h' /\
  match oe with Some e => wf_ev (List.length h) h' e | None => h' = h end.
Proof. exact coalesce_h_refines. Qed.
(* what every message (input or not) reports afterwards is what it reported before *)
Theorem C15_inputs_intact : forall h rs, Forall (rec_valid (List.length h)) rs ->
  forall r, rec_valid (List.length h) r -> to_rec (fst (coalesce_h h rs)) r = to_rec h r.
Proof. exact coalesce_h_inputs_intact. Qed.
(* coalescing the same messages again - on the heap left by the first call or by any later calls - yields an equal event *)
Theorem C15_repeatable : forall h rs h2, Forall (rec_valid (List.length h)) rs -> agree_below (List.length h) h h2 ->
  let '(ha, ea) := coalesce_h h rs in
  let '(hb, eb) := coalesce_h h2 rs in
  option_map (deref hb) eb = option_map (deref ha) ea.
Proof. exact coalesce_h_repeatable. Qed.
(* an event returned earlier reads the same after any later call *)
Theorem C15_isolated : forall h rs e0, Forall (rec_valid (List.length h)) rs -> ev_below (List.length h) e0 ->
  deref (fst (coalesce_h h rs)) e0 = deref h e0.
Proof. exact coalesce_h_isolated. Qed.
(* and after any sequence of later calls *)
Theorem C15_any_call_sequence : forall calls h, Forall (Forall (rec_valid (List.length h))) calls -> agree_below (List.length h) h (run_calls h calls).
Proof. exact run_calls_frame. Qed.

(* the premise, read from the source text on this run: every map write in aucoalesce goes to the event, to a map the
   function made itself or to the receiver's cache; appends to table-shared slices find no spare capacity *)
Theorem C15_write_targets_owned : coalesce_writes_okb = true.
Proof. exact coalesce_writes_ok. Qed.

(* the ECS category / type slices an event shares with the normalisation tables (Model/SliceHeap.v: slices with a backing
   array and a capacity; append writes in place when there is room): a table slice without spare capacity is never written
   through an event - the merge allocates, leaves every existing array alone and reads as table ++ extra, which is what the
   functional model of applyNormalization (ChkNorm.apply_norm) computes.  That no table slice has spare capacity is part of
   C15_write_targets_owned (norm_spare_capacity = [], from the loaded tables on this run); with spare capacity two events
   share the appended slot (SliceHeapProofs.spare_capacity_breaks_isolation). *)
Theorem C15_table_slices_not_written : forall (h : aheap str) (table : slice) (extra : option slice),
  full str h table -> (forall e, extra = Some e -> sread str h e <> []) ->
  let '(h', s') := ecs_merge str h table extra in
  (forall l, l < List.length h -> nth l h' [] = nth l h []) /\ List.length h <= List.length h' /\
  sread str h' s' = (sread str h table ++ match extra with Some e => sread str h e | None => [] end)%list.
Proof. exact (ecs_merge_isolated str). Qed.

(* the id <-> name caches ResolveIDs reads (Model/IdCache.v, run against the constructors' own caches with scripted resolvers):
   a lookup answers with the resolver's answer for that very key - given now, or while the entry is fresh at the time it was
   stored - or with a pinned value; it never changes what the cache holds for another key, and the user cache and the group
   cache do not touch each other.  So resolving ids for one event cannot change the outcome for another key, cache or event
   beyond serving it an answer the resolver itself gave within the expiration. *)
Theorem C15_id_lookup_value : forall cl (R : nat -> str -> str) now c k, cache_ok R now c ->
  let '(c', v, asked) := lookup cl R now c k in
  cache_ok R now c' /\
  (if asked then v = R now k
   else v = [] /\ (isS k "" || isS k "unset" = true) \/
        exists e, cfind k c = Some e /\ v = e_val e /\
                  (e_pinned e = true \/ (v = R (e_tick e) k /\ e_tick e <= now /\ match cl with Never => True | Always => False | AfterPause => e_tick e = now end))).
Proof. exact lookup_value. Qed.
Theorem C15_id_lookup_other_keys : forall cl (R : nat -> str -> str) now c k k', beq k k' = false ->
  let '(c', _, _) := lookup cl R now c k in cfind k' c' = cfind k' c.
Proof. exact lookup_other_keys. Qed.
Theorem C15_id_caches_separate : forall cl R s o,
  match o with
  | CLookup w _ _ | CHard w _ _ => match w with O => groups (fst (cstep2 cl R s o)) = groups s | _ => users (fst (cstep2 cl R s o)) = users s end
  | CPause => users (fst (cstep2 cl R s o)) = users s /\ groups (fst (cstep2 cl R s o)) = groups s
  end.
Proof. exact caches_separate. Qed.

(* the hypothesis of C15_id_lookup_value is met in every state a run can reach from the constructors' caches *)
Theorem C15_id_cache_invariant : forall cl R ops, Forall op_wf ops ->
  state_ok R (fold_left (fun st o => fst (cstep2 cl R st o)) ops cs0).
Proof. intros cl R ops Hw. apply run_keeps_invariant; [exact Hw|apply state_ok_init]. Qed.

(* non-vacuity: a SYSCALL + PATH + EXECVE group on a heap holding the three cached maps *)
Example C15_example :
  let h := [[(L "syscall", L "execve"); (L "items", L "2"); (L "result", L "success"); (L "auid", L "1000")];
            [(L "name", L "/bin/ls"); (L "mode", L "0100755")];
            [(L "argc", L "1"); (L "a0", L "ls")]] in
  let rs := [MkHrec MsgTypes.AUDIT_SYSCALL (Some 0); MkHrec MsgTypes.AUDIT_PATH (Some 1); MkHrec MsgTypes.AUDIT_EXECVE (Some 2)] in
  Forall (rec_valid (List.length h)) rs /\
  (let '(h', oe) := coalesce_h h rs in
   firstn 3 h' = h /\ option_map (fun e => (he_paths e, he_args e, hread h' (he_data e))) oe
                      = Some ([1], Some [L "ls"], [(L "argc", L "1"); (L "syscall", L "execve")])).
Proof.
  split.
  - repeat (apply Forall_cons; [intros l Hl; cbn in Hl; injection Hl as <-; cbn; auto|]). apply Forall_nil.
  - vm_compute. split; reflexivity.
Qed.

Print Assumptions C15_id_cache_invariant.
Print Assumptions C15_id_lookup_value.
Print Assumptions C15_id_lookup_other_keys.
Print Assumptions C15_id_caches_separate.
Print Assumptions C15_table_slices_not_written.
Print Assumptions C15_write_targets_owned.
Print Assumptions C15_heap_model_refines.
Print Assumptions C15_inputs_intact.
Print Assumptions C15_repeatable.
Print Assumptions C15_isolated.
Print Assumptions C15_any_call_sequence.
