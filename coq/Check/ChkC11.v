(* Check/ChkC11.v — judge for the concurrent Reassembler: the harness forces a
   schedule at the granularity of the yield points (one grant = one atomic step
   of Model/ReasmConc.v) and records what the Stream and the callers saw. *)
From Coq Require Import List ZArith Bool Lia.
Import ListNotations.
Require Import Reassembler ReasmConc.
Open Scope Z_scope.

(* observable events of a concurrent run *)
Inductive oev :=
| OStart (t : nat) (c : call)          (* the call was invoked (harness-side marker, not in the model trace) *)
| OComplete (t : nat) (g : list msg)
| OLost (t : nat) (n : Z)
| ORet (t : nat) (c : call) (ok : bool)
| ODeadlock (t : nat)                   (* the thread did not reach its next yield point in time *)
| OPanic (t : nat).                     (* a call of the thread panicked (recovered by the harness) *)

(* callback behaviour shared by harness and model: re-entrant calls made from
   ReassemblyComplete when the group's first message has a listed identity *)
Fixpoint cb_of (spec : list (Z * list call)) (g : list msg) : list call :=
  match g with
  | [] => []
  | m0 :: _ => (fix look l := match l with [] => [] | (k, cs) :: r => if k =? mid m0 then cs else look r end) spec
  end.

Definition call_eqb (a b : call) : bool :=
  match a, b with CPush x, CPush y => msg_eqb x y | CMaintain, CMaintain => true | CClose, CClose => true | _, _ => false end.
Definition oev_eqb (a b : oev) : bool :=
  match a, b with
  | OComplete t g, OComplete t' g' => Nat.eqb t t' && list_eqb g g'
  | OLost t n, OLost t' n' => Nat.eqb t t' && (n =? n')
  | ORet t c ok, ORet t' c' ok' => Nat.eqb t t' && call_eqb c c' && Bool.eqb ok ok'
  | _, _ => false
  end.
Fixpoint oevs_eqb (a b : list oev) : bool :=
  match a, b with [], [] => true | x :: a', y :: b' => oev_eqb x y && oevs_eqb a' b' | _, _ => false end.

Definition project (tr : list ev) : list oev :=
  flat_map (fun e => match e with EvComplete t g => [OComplete t g] | EvLost t n => [OLost t n] | EvRet t c ok => [ORet t c ok] | _ => [] end) tr.
Definition strip (obs : list oev) : list oev := filter (fun e => match e with OStart _ _ => false | _ => true end) obs.

(* ---------- the property on the observed log ---------- *)
Definition delivered_ids (obs : list oev) : list Z := flat_map (fun e => match e with OComplete _ g => map mid g | _ => [] end) obs.
Fixpoint nodupZ (l : list Z) : bool := match l with [] => true | x :: r => negb (existsb (Z.eqb x) r) && nodupZ r end.
Definition single_seq (g : list msg) : bool := match g with [] => false | m0 :: r => forallb (fun m => mseq m =? mseq m0) r end.
Definition closes_ok (obs : list oev) : nat := length (filter (fun e => match e with ORet _ CClose true => true | _ => false end) obs).
Definition closes_started (obs : list oev) : nat := length (filter (fun e => match e with OStart _ CClose => true | _ => false end) obs).
Definition no_deadlock (obs : list oev) : bool := forallb (fun e => match e with ODeadlock _ | OPanic _ => false | _ => true end) obs.
(* pushes (non-EOE) that returned before the first Close was invoked *)
Fixpoint pushed_before_close (obs : list oev) : list Z :=
  match obs with
  | [] => []
  | OStart _ CClose :: _ => []
  | ORet _ (CPush m) _ :: r => if mty m =? AUDIT_EOE then pushed_before_close r else mid m :: pushed_before_close r
  | _ :: r => pushed_before_close r
  end.
Definition count_occ_Z (x : Z) (l : list Z) : nat := length (filter (Z.eqb x) l).

(* finished = every thread ran to the end of its program *)
Definition chk_C11 (finished : bool) (obs : list oev) : bool :=
  no_deadlock obs
  && nodupZ (delivered_ids obs)
  && forallb (fun e => match e with OComplete _ g => single_seq g | _ => true end) obs
  && (closes_ok obs <=? 1)%nat
  && (if finished then
        (if (1 <=? closes_started obs)%nat then (closes_ok obs =? 1)%nat else true)
        && (if (1 <=? closes_started obs)%nat
            then forallb (fun i => (count_occ_Z i (delivered_ids obs) =? 1)%nat) (pushed_before_close obs) else true)
      else true).

Inductive ccase :=
| CCase (maxsz tmo : Z) (spec : list (Z * list call)) (progs : list (list call)) (sched : list nat) (finished : bool) (obs : list oev)
| CStress (finished : bool) (obs : list oev).     (* really concurrent run, no forced schedule: only the checker applies *)

Definition judge_c11 (c : ccase) : N :=
  match c with
  | CCase maxsz tmo spec progs sched finished obs =>
      if negb (chk_C11 finished obs) then 2%N
      else let '(_, _, tr) := crun (cb_of spec) {| maxSize := maxsz; timeout := tmo |} (map (fun t => (t, 0)) sched)
                                   (map (fun p => {| stack := []; todo := p |}) progs) init in
           if oevs_eqb (project tr) (strip obs) then 0%N else 1%N
  | CStress finished obs => if chk_C11 finished obs && finished then 0%N else 2%N
  end.
Definition mk := Build_msg.
(* the harness writes thread ids as Z literals *)
Definition oStart (t : Z) c := OStart (Z.to_nat t) c.
Definition oComplete (t : Z) g := OComplete (Z.to_nat t) g.
Definition oLost (t : Z) n := OLost (Z.to_nat t) n.
Definition oRet (t : Z) c ok := ORet (Z.to_nat t) c ok.
Definition oDeadlock (t : Z) := ODeadlock (Z.to_nat t).
Definition oPanic (t : Z) := OPanic (Z.to_nat t).
Definition cCase maxsz tmo spec progs (sched : list Z) finished obs := CCase maxsz tmo spec progs (map Z.to_nat sched) finished obs.
