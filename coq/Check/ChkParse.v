(* Check/ChkParse.v — judges of C04, C05, C12 for auparse. *)
From Coq Require Import List Ascii String NArith ZArith Bool Arith.
Import ListNotations.
Require Import KV Trim Header Parser ToMap.
Require MsgType Dec.
Local Close Scope N_scope.
Local Open Scope nat_scope.
Local Open Scope list_scope.

Definition obeq (a b : option str) : bool := match a, b with Some x, Some y => beq x y | None, None => true | _, _ => false end.

(* ---------- C04 ---------- *)
Record hobs := MkObs { o_type : N; o_sec : Z; o_nsec : N; o_seq : N; o_raw : str; o_rt : str; o_ts : str; o_sq : str; o_rawmsg : str;
                       o_data : option (list (str * str)); o_err : option str; o_map : list (str * str) }.
(* the string-valued entries of ToMapStr() are the model's map over what Data() returned (tags, the only other entry, is a list) *)
Definition msub (a b : list (str * str)) : bool := forallb (fun e => match mget (fst e) b with Some v => beq v (snd e) | None => false end) a.
Definition to_map_ok (o : hobs) : bool :=
  let m := to_map_str_err (o_rt o) (o_ts o) (o_sq o) (o_rawmsg o) (o_data o) (o_err o) in
  msub (o_map o) m && msub m (o_map o) && (List.length (o_map o) =? List.length m).
Inductive hcase := HCase (rendered : bool) (T : N) (Sec : N) (mmm : N) (Nq : N) (after : str) (want_ts : str) (line : str) (agree : bool) (res : option hobs).

(* what a rendered line type=T msg=<after> with header audit(S.mmm:N) must parse to *)
Definition chk_C04_rendered (T Sec mmm Nq : N) (after want_ts : str) (agree : bool) (res : option hobs) : bool :=
  match res with
  | None => false
  | Some o =>
      (o_type o =? T)%N && (o_sec o =? Z.of_N Sec)%Z && (o_nsec o =? mmm * 1000000)%N && (o_seq o =? Nq)%N &&
      beq (o_raw o) (trim_space after) && agree &&
      beq (o_rt o) (MsgType.type_name T) && beq (o_ts o) want_ts && beq (o_sq o) (Dec.dec Nq) && beq (o_rawmsg o) (o_raw o)
  end.
(* independent reading of "is there a well-formed header": the text after msg= (trimmed) must contain,
   after its first '(', a decimal integer, '.', a decimal integer, ':', a decimal uint32, ')' *)
Definition model_obs (line : str) : option (N * Z * Z * N * str) :=
  match parse_log_line line with
  | Some a => Some (a_type a, a_sec a, a_nsec a, a_seq a, a_raw a)
  | None => None
  end.
Definition obs_tuple (o : hobs) : N * Z * Z * N * str := (o_type o, o_sec o, Z.of_N (o_nsec o), o_seq o, o_raw o).
Definition tuple_eqb (a b : N * Z * Z * N * str) : bool :=
  let '(t, s, n, q, r) := a in let '(t', s', n', q', r') := b in (t =? t')%N && (s =? s')%Z && (n =? n')%Z && (q =? q')%N && beq r r'.

Definition judge_c04 (c : hcase) : N :=
  match c with
  | HCase rendered T Sec mmm Nq after want_ts line agree res =>
      let well_known_ok := match res with
                           | Some o => beq (o_rt o) (MsgType.type_name (o_type o)) && beq (o_sq o) (Dec.dec (o_seq o)) && beq (o_rawmsg o) (o_raw o) && agree && to_map_ok o
                           | None => true end in
      if rendered && negb (chk_C04_rendered T Sec mmm Nq after want_ts agree res) then 2%N
      else if negb well_known_ok then 2%N
      else match model_obs line, res with
           | None, None => 0%N
           | Some m, Some o => if tuple_eqb m (obs_tuple o) then 0%N else 1%N
           | Some _, None => 1%N
           | None, Some _ => 2%N        (* the model rejects the header (malformed) but a message was returned *)
           end
  end.

(* ---------- C12 / C05 ---------- *)
Inductive doutcome := DOk | DPanic | DHang.
Inductive dcase := DCase (ty : N) (raw : str) (wants : list (str * option str)) (nested_quote : bool) (oc : doutcome)
                         (parsed repeatable : bool) (obs : option (list (str * str) * list str))
                | LCase (line : str) (oc : doutcome) (res : option (N * N * str)).      (* a whole line through ParseLogLine: type, sequence, RawData *)

Fixpoint aget (k : str) (m : list (str * str)) : option str := match m with [] => None | (k', v) :: r => if beq k k' then Some v else aget k r end.
Definition chk_C12 (wants : list (str * option str)) (obs : option (list (str * str) * list str)) : bool :=
  match obs with
  | None => match wants with [] => true | _ => false end
  | Some (m, _) => forallb (fun w => obeq (aget (fst w) m) (snd w)) wants
  end.

(* order-insensitive equality of two association lists without duplicate keys *)
Definition sub_of (a b : list (str * str)) : bool := forallb (fun e => obeq (aget (fst e) b) (Some (snd e))) a.
Fixpoint lbeq (a b : list str) : bool := match a, b with [], [] => true | x :: a', y :: b' => beq x y && lbeq a' b' | _, _ => false end.
Definition data_eqb (a b : option (list (str * str) * list str)) : bool :=
  match a, b with
  | None, None => true
  | Some (m, t), Some (m', t') => sub_of m m' && sub_of m' m && (List.length m =? List.length m') && lbeq t t'
  | _, _ => false
  end.
Definition model_data (ty : N) (raw : str) : option (list (str * str) * list str) :=
  match parse ty raw with
  | None => None
  | Some a => data_of ty (a_raw a) (a_off a)
  end.

(* which = 0 : C12, which = 1 : C05 *)
Definition judge_data (which : N) (c : dcase) : N :=
  match c with
  | DCase ty raw wants nq oc parsed repeatable obs =>
      match oc with
      | DPanic | DHang => if (which =? 1)%N then 2%N else 0%N
      | DOk =>
          if (which =? 1)%N then
            if negb repeatable then 2%N
            else if negb parsed then (match parse ty raw with None => 0%N | Some _ => 1%N end)
            else if data_eqb (model_data ty raw) obs then 0%N else 1%N
          else
            if negb (chk_C12 wants obs) then (if nq then 101%N else 2%N)       (* 101: known finding, nested field with a quote inside *)
            else if data_eqb (model_data ty raw) obs then 0%N else 1%N
      end
  | LCase line oc res =>
      match oc with
      | DPanic | DHang => if (which =? 1)%N then 2%N else 0%N
      | DOk => match parse_log_line line, res with
               | None, None => 0%N
               | Some a, Some (t, q, raw) => if (a_type a =? t)%N && (a_seq a =? q)%N && beq (a_raw a) raw then 0%N else 1%N
               | _, _ => 1%N
               end
      end
  end.
Definition judge_c12 := judge_data 0.
Definition judge_c05 := judge_data 1.
