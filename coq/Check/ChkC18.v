(* Check/ChkC18.v — netlink framing: judge for what the transport put on the wire
   (the kernel's verbatim echo of a rejected request), what it returned for
   datagrams of non-kernel senders, and the audit message parser. *)
From Coq Require Import List Ascii NArith ZArith Bool Lia.
Import ListNotations.
Require Import Mach Netlink Uapi.
Open Scope N_scope.

(* independent reading of struct nlmsghdr at fixed offsets: len@0 type@4 flags@6 seq@8 pid@12 *)
Definition u16_at (b : str) (i : nat) : N := byte_at b i + 256 * byte_at b (i + 1).
Definition u32_at (b : str) (i : nat) : N := byte_at b i + 256 * byte_at b (i + 1) + 65536 * byte_at b (i + 2) + 16777216 * byte_at b (i + 3).
Definition uapi_hdr (b : str) : N * N * N * N * N := (u32_at b 0, u16_at b 4, u16_at b 6, u32_at b 8, u32_at b 12).

Fixpoint bytes_eqb (a b : str) : bool :=
  match a, b with [], [] => true | x :: a', y :: b' => Ascii.eqb x y && bytes_eqb a' b' | _, _ => false end.
Definition hdr5_eqb (a b : N * N * N * N * N) : bool :=
  let '(a1, a2, a3, a4, a5) := a in let '(b1, b2, b3, b4, b5) := b in (a1 =? b1) && (a2 =? b2) && (a3 =? b3) && (a4 =? b4) && (a5 =? b5).

Fixpoint increasing (l : list N) : bool := match l with a :: ((b :: _) as r) => (a <? b) && increasing r | _ => true end.
Fixpoint nodupN (l : list N) : bool := match l with [] => true | x :: r => negb (existsb (N.eqb x) r) && nodupN r end.

(* the audit message parser of audit.go *)
Definition parse_audit_message (buf : str) : option (nlhdr * str) :=
  if (length buf <? 16)%nat then None else get_hdr buf.

Inductive ncase :=
| NSer (ty flags seq pid : N) (payload out : str)                       (* serialize *)
| NParse (buf : str) (res : option ((N * N * N * N * N) * str))         (* parseNetlinkAuditMessage *)
| NEcho (port ty flags pid_in : N) (payload : str) (retseq : N) (echo : str)   (* Send over a real socket; echo = the request as the kernel quoted it *)
| NForeign (len : N) (got_error got_data : bool)                        (* Receive of a datagram sent by another user-space socket *)
| NKernel (got_error : bool) (ty : N)                                   (* Receive of a datagram the kernel sent *)
| NSeqs (seqs : list N)                                                 (* sequence numbers returned by consecutive Sends *)
| NConc (per_goroutine : list (list N))                                 (* ... by concurrent senders *)
| NSendFail (len : N).                                                  (* Send on a healthy socket returned an error; len = payload length *)

Definition judge_c18 (c : ncase) : N :=
  match c with
  | NSer ty flags seq pid payload out =>
      let want := (16 + N.of_nat (length payload), ty, flags, seq, pid) in
      if negb (hdr5_eqb (uapi_hdr out) want && bytes_eqb (skipn 16 out) payload && (length out =? 16 + length payload)%nat) then 2
      else if bytes_eqb out (put_hdr {| nl_len := (16 + N.of_nat (length payload)) mod 2^32; nl_type := ty; nl_flags := flags; nl_seq := seq; nl_pid := pid |} ++ payload) then 0 else 1
  | NParse buf res =>
      let want := if (length buf <? 16)%nat then None else Some (uapi_hdr buf, skipn 16 buf) in
      let ok := match res, want with
                | None, None => true
                | Some (h, d), Some (h', d') => hdr5_eqb h h' && bytes_eqb d d'
                | _, _ => false end in
      if negb ok then 2
      else match parse_audit_message buf, res with
           | None, None => 0
           | Some (h, d), Some (h', d') =>
               if hdr5_eqb (nl_len h, nl_type h, nl_flags h, nl_seq h, nl_pid h) h' && bytes_eqb d d' then 0 else 1
           | _, _ => 1 end
  | NEcho port ty flags pid_in payload retseq echo =>
      let want := (16 + N.of_nat (length payload), ty, flags, retseq, if pid_in =? 0 then port else pid_in) in
      if negb (hdr5_eqb (uapi_hdr echo) want && bytes_eqb (skipn 16 echo) payload) then 2
      else let '(_, sq, bytes) := send {| port := port; cseq := (retseq + 2^32 - 1) mod 2^32 |} ty flags pid_in payload in
           if (sq =? retseq) && bytes_eqb bytes echo then 0 else 1
  | NForeign len got_error got_data => if got_error && negb got_data then 0 else 2
  | NKernel got_error ty => if got_error then 2 else 0
  | NSeqs seqs => if increasing seqs then 0 else 2
  | NConc l => if forallb increasing l && nodupN (concat l) then 0 else 2
  | NSendFail len => if len <=? 8970 then 2 else 0     (* every payload the property names must reach the wire *)
  end.
