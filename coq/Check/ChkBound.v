(* Check/ChkBound.v — C10, the bound: after every Push at most maxInFlight
   distinct sequences are pushed-but-undelivered. *)
From Coq Require Import List ZArith Bool Lia.
Import ListNotations.
Require Import Reassembler ReasmC10.
Open Scope Z_scope.

Fixpoint chk_bound (maxsz : Z) (U : list msg) (ops : list op) (tr : list (list out)) : bool :=
  match ops, tr with
  | [], [] => true
  | o :: ops', outs :: tr' =>
      match chk_outs (pushU U o) outs with
      | None => false
      | Some U2 => (match o with Push (Some _) _ _ => Z.of_nat (length (useqs U2)) <=? maxsz | _ => true end)
                   && chk_bound maxsz U2 ops' tr'
      end
  | _, _ => false
  end.
