(* Check/ChkNorm.v — applyNormalization: which normalisation an event gets (by syscall name or record
   type, has_fields), the ECS category / type merge, action, object type, the file object taken from
   the PATH record the normalisation points at (setFileObject), socket object, actor / object / how
   from the first key present.  The normalisation records are generated (Gen/Norms.v).
   The ECS `mappings` closures are not modelled; nothing they write is compared. *)
From Coq Require Import List Ascii String NArith ZArith Bool Arith Lia.
Import ListNotations.
Require Import Bytes KV Parser MsgType Norms ChkCoalesce.
Local Close Scope N_scope.
Local Open Scope string_scope.
Local Open Scope nat_scope.
Local Open Scope list_scope.

Record summ := { s_action : str; s_actor_p : str; s_actor_s : str; s_otype : str; s_op : str; s_os : str; s_how : str;
                 s_cats : list str; s_types : list str; s_failure : bool; s_file : option kvs; s_warns : nat }.

Definition dget (k : string) (e : mev) : option str := fget (L k) (m_data e).
Definition get_value (k : string) (e : mev) : option str := match dget k e with Some v => Some v | None => fget (L k) (m_ids e) end.
Fixpoint first_value (keys : list string) (e : mev) : option str :=
  match keys with [] => None | k :: r => match get_value k e with Some v => Some v | None => first_value r e end end.
Definition orempty (o : option str) : str := match o with Some v => v | None => [] end.

Definition how_default (e : mev) : str :=
  match (match dget "exe" e with Some x => Some x | None => dget "comm" e end) with
  | None => []
  | Some exe =>
      if has_prefix (L "/usr/bin/python") exe || has_prefix (L "/usr/bin/sh") exe || has_prefix (L "/usr/bin/bash") exe || has_prefix (L "/usr/bin/perl") exe
      then match dget "comm" e with Some c => c | None => exe end else exe
  end.

Definition syscall_norm (e : mev) : option norm :=
  match dget "syscall" e with
  | None => None
  | Some sc => match lookupS sc syscall_norm_table with Some n => Some n | None => lookupS (L "*") syscall_norm_table end
  end.
Definition has_all (fs : list string) (e : mev) : bool := forallb (fun f => match dget f e with Some _ => true | None => false end) fs.
Definition select_norm (ty : N) (e : mev) : option norm :=
  if (ty =? 1300)%N then syscall_norm e
  else match lookupS (type_name ty) record_type_norm_table with
       | None | Some [] => None
       | Some [n] => Some n
       | Some l => fold_left (fun acc n => if has_all (n_has_fields n) e then Some n else acc) l None
       end.

(* os.FileMode(mode) for the object type: the switch of setFileObject over Go's FileMode bits *)
Definition obj_type_of_mode (mode : N) (dflt : str) : str :=
  let m := (mode mod 2 ^ 32)%N in
  let bit i := N.testbit m i in
  if negb (bit 31%N || bit 27%N || bit 25%N || bit 24%N || bit 26%N || bit 21%N || bit 19%N) then L "file"
  else if bit 31%N then L "directory"
  else if bit 21%N then L "character-device"
  else if negb (N.land m 24576 =? 0)%N then L "block-device"
  else if bit 25%N then L "named-pipe"
  else if bit 27%N then L "symlink"
  else if bit 24%N then L "socket"
  else dflt.
Definition oct64 (s : str) : option N := match oct_of s with Some n => if (n <? 2 ^ 64)%N then Some n else None | None => None end.
Fixpoint oct_digits (fuel : nat) (n : N) (acc : str) : str :=
  match fuel with O => acc | S f => if (n =? 0)%N then acc else oct_digits f (n / 8)%N (ascii_of_N (48 + n mod 8)%N :: acc) end.
Definition oct04 (n : N) : str := let d := oct_digits 24 n [] in repeat "0"%char (4 - List.length d) ++ d.

(* returns the file fields, the object primary (name) and type, and whether the mode failed to parse *)
(* the PATH record the normalisation points at: the first one at or after its path index whose nametype is
   neither PARENT nor UNKNOWN, else the one at the index (index 0 when the event has too few records) *)
Definition selected (paths : list kvs) (hint : Z) : kvs :=
  let idx := if (Z.of_nat (List.length paths) >? hint)%Z then Z.to_nat hint else 0 in
  match find (fun p => let nt := orempty (fget (L "nametype") p) in negb (isS nt "PARENT") && negb (isS nt "UNKNOWN")) (skipn idx paths) with
  | Some p => p | None => nth idx paths [] end.
Definition set_file_object (paths : list kvs) (hint : Z) (otype : str) (op : str) : kvs * str * str * bool :=
  let path := selected paths hint in
  let pick k nm := match fget (L k) path with Some v => [(L nm, v)] | None => [] end in
  let f1 := pick "name" "path" ++ pick "inode" "inode" ++ pick "rdev" "device" in
  let op1 := match fget (L "name") path with Some v => v | None => op end in
  match fget (L "mode") path with
  | Some ms =>
      match oct64 ms with
      | None => (f1, op1, otype, true)
      | Some mode =>
          let m32 := (mode mod 2 ^ 32)%N in
          (f1 ++ [(L "mode", oct04 (N.land m32 4095))] ++ pick "ouid" "uid" ++ pick "ogid" "gid" ++
             flat_map (fun kv => if has_prefix (L "obj_") (fst kv) then [(L "selinux." ++ skipn 4 (fst kv), snd kv)] else []) path,
           op1, obj_type_of_mode mode otype, false)
      end
  | None =>
      (f1 ++ pick "ouid" "uid" ++ pick "ogid" "gid" ++
         flat_map (fun kv => if has_prefix (L "obj_") (fst kv) then [(L "selinux." ++ skipn 4 (fst kv), snd kv)] else []) path,
       op1, otype, false)
  end.

Definition apply_norm (ty : N) (e : mev) : summ :=
  let actor_p0 := orempty (fget (L "auid") (m_ids e)) in
  let actor_s0 := orempty (fget (L "uid") (m_ids e)) in
  let how0 := how_default e in
  match select_norm ty e with
  | None => {| s_action := []; s_actor_p := actor_p0; s_actor_s := actor_s0; s_otype := []; s_op := []; s_os := []; s_how := how0;
               s_cats := []; s_types := []; s_failure := false; s_file := None; s_warns := 1 |}
  | Some n =>
      let extra := match syscall_norm e with Some sn => if (n_id sn =? n_id n)%N then None else Some sn | None => None end in
      let cats := map L (n_cat n) ++ match extra with Some sn => map L (n_cat sn) | None => [] end in
      let types := map L (n_type n) ++ match extra with Some sn => map L (n_type sn) | None => [] end in
      let failure := match extra with Some _ => match m_result e with Some r => isS r "fail" | None => false end | None => false end in
      let what := L (n_what n) in
      let '(file, op1, otype1, w1) :=
        if isS what "file" || isS what "filesystem" then
          match m_paths e with
          | [] => (None, [], what, 0)
          | ps => let '(f, op, ot, bad) := set_file_object ps (n_path_index n) what [] in (Some f, op, ot, if bad then 1 else 0)
          end
        else if isS what "socket" then
          (None, match dget "socket_addr" e with Some v => v | None => orempty (dget "socket_path" e) end, what, 0)
        else (None, [], what, 0) in
      let os1 := if isS what "socket" then orempty (dget "socket_port" e) else [] in
      let step (keys : list string) (cur : str) : str * nat :=
        match keys with [] => (cur, 0) | _ => match first_value keys e with Some v => (v, 0) | None => (cur, 1) end end in
      let '(ap, w2) := step (n_subj_p n) actor_p0 in
      let '(as_, w3) := step (n_subj_s n) actor_s0 in
      let '(op2, w4) := step (n_obj_p n) op1 in
      let '(os2, w5) := step (n_obj_s n) os1 in
      let '(how1, w6) := step (n_how n) how0 in
      let w7 := match m_src e, n_src_ip n with
                | None, _ :: _ => if existsb (fun k => match dget k e with Some _ => true | None => false end) (n_src_ip n) then 0 else 1
                | _, _ => 0 end in
      {| s_action := L (n_action n); s_actor_p := ap; s_actor_s := as_; s_otype := otype1; s_op := op2; s_os := os2; s_how := how1;
         s_cats := cats; s_types := types; s_failure := failure; s_file := file; s_warns := w1 + w2 + w3 + w4 + w5 + w6 + w7 |}
  end.

(* ---------- comparison with the flattened event ---------- *)
Definition str_field (k : string) (want : str) (f : flat) : bool :=
  match want, fget (L k) f with
  | [], None => true
  | _ :: _, Some g => beq g want
  | _, _ => false
  end.
Fixpoint list_field (prefix : str) (i : nat) (want : list str) (f : flat) : bool :=
  match want with
  | [] => match fget (prefix ++ Dec.dec (N.of_nat i)) f with None => true | Some _ => false end
  | w :: r => match fget (prefix ++ Dec.dec (N.of_nat i)) f with Some g => beq g w && list_field prefix (S i) r f | None => false end
  end.
Definition file_fields (f : flat) : flat :=
  flat_map (fun e => if has_prefix (L "file.") (fst e) then [(skipn 5 (fst e), snd e)] else []) f.
Definition summ_ok (s : summ) (f : flat) (nwarn : nat) : bool :=
  str_field "summary.action" (s_action s) f && str_field "summary.actor.primary" (s_actor_p s) f && str_field "summary.actor.secondary" (s_actor_s s) f &&
  str_field "summary.object.type" (s_otype s) f && str_field "summary.object.primary" (s_op s) f && str_field "summary.object.secondary" (s_os s) f &&
  str_field "summary.how" (s_how s) f &&
  list_field (L "ecs.event.category.") 0 (s_cats s) f && list_field (L "ecs.event.type.") 0 (s_types s) f &&
  (if s_failure s then fhas (L "ecs.event.outcome") (L "failure") f else true) &&
  (let ff := file_fields f in match s_file s with Some want => flat_eqb want ff | None => match ff with [] => true | _ => false end end) &&
  (s_warns s <=? nwarn).

Definition first_type (rs : list rec) : N := match filter_eoe rs with r :: _ => r_type r | [] => 0%N end.

(* the property's own clause on the file summary: when the event's normalisation is about a file and the event has PATH
   records, the summary mirrors the PATH record that normalisation selects (its path index; PARENT / UNKNOWN records skipped) *)
Definition file_selected_ok (ty : N) (e : mev) (f : flat) (ws : list str) : bool :=
  if existsb (contains (L "failed to set file object")) ws then true
  else match select_norm ty e with
       | Some n => let what := L (n_what n) in
                   if (isS what "file" || isS what "filesystem") && has_file f
                   then match m_paths e with [] => true | ps => mirrors (selected ps (n_path_index n)) f end
                   else true
       | None => true
       end.

Definition judge_c09n (c : ecase) : N :=
  match judge_c09 c with
  | 0%N =>
      match c with
      | ECase rs false (Some f) ws _ _ _ =>
          match model_event rs with
          | Some e => if negb (file_selected_ok (first_type rs) e f ws) then 2%N
                      else if summ_ok (apply_norm (first_type rs) e) f (List.length ws) then 0%N else 1%N
          | None => 0%N
          end
      | _ => 0%N
      end
  | x => x
  end.
