(* Check/ChkCoalesce.v — observation-level checkers of C09 / C15 and a model of the
   part of CoalesceMessages that moves fields around (newEvent, normalizeCompound,
   addExecveRecord, addSockaddrRecord, addFieldsToEventData, addProcess), evaluated on
   the Data() maps of the input records.  The event is observed as the list of
   (dotted JSON path, value) pairs of its JSON form plus its warnings. *)
From Coq Require Import List Ascii String NArith ZArith Bool Arith.
Import ListNotations.
Require Import KV Parser IdCache ChkCache.
Require MsgTypes Dec.
Local Close Scope N_scope.
Local Open Scope nat_scope.
Local Open Scope list_scope.
Local Notation length := List.length.

Definition kvs := list (str * str).
Record rec := MkRec { r_type : N; r_seq : N; r_sec : Z; r_nsec : N; r_data : option kvs; r_tags : list str }.
Definition flat := list (str * str).       (* dotted path -> value *)

Definition has_suffix (suf s : str) : bool := has_prefix (rev suf) (rev s).
Fixpoint fget (p : str) (f : flat) : option str := match f with [] => None | (k, v) :: r => if beq k p then Some v else fget p r end.
Definition fhas (p v : str) (f : flat) : bool := match fget p f with Some x => beq x v | None => false end.
Definition contains (needle hay : str) : bool := match sindex needle hay with Some _ => true | None => false end.

(* ---------- C09: identity and error instead of a partial event ---------- *)
Definition is_eoe (r : rec) : bool := (r_type r =? MsgTypes.AUDIT_EOE)%N.
Definition filter_eoe (rs : list rec) : list rec :=
  match rev rs with l :: front => if is_eoe l then rev front else rs | [] => rs end.
Definition is_syscall (r : rec) : bool := (r_type r =? MsgTypes.AUDIT_SYSCALL)%N.
(* the code looks for a SYSCALL record only up to the first one; a special record may come first *)
Definition must_fail (rs : list rec) : bool :=
  match filter_eoe rs with
  | [] => true
  | [_] => false
  | l => negb (existsb is_syscall l)
  end.
Definition zstr (z : Z) : str := if (z <? 0)%Z then L "-" ++ Dec.dec (Z.to_N (- z)) else Dec.dec (Z.to_N z).
Definition identity_ok (rs : list rec) (f : flat) : bool :=
  match filter_eoe rs with
  | r0 :: _ => fhas (L "id.sec") (zstr (r_sec r0)) f && fhas (L "id.nsec") (Dec.dec (r_nsec r0)) f &&
               fhas (L "id.seq") (Dec.dec (r_seq r0)) f && fhas (L "id.type") (Dec.dec (r_type r0)) f
  | [] => false
  end.

(* ---------- C09: nothing is dropped ---------- *)
(* where a field named k of some record may legitimately end up *)
Definition process_path (k : str) : option str :=
  if isS k "pid" then Some (L "process.pid") else if isS k "ppid" then Some (L "process.ppid")
  else if isS k "proctitle" then Some (L "process.title") else if isS k "comm" then Some (L "process.name")
  else if isS k "exe" then Some (L "process.exe") else if isS k "cwd" then Some (L "process.cwd") else None.
Definition present (k v : str) (f : flat) : bool :=
  fhas (L "data." ++ k) v f || fhas (L "data.socket_" ++ k) v f ||
  (match process_path k with Some p => fhas p v f | None => false end) ||
  fhas (L "user.ids." ++ k) v f ||
  (has_prefix (L "subj_") k && fhas (L "user.selinux." ++ skipn 5 k) v f) ||
  (isS k "result" && fhas (L "result") v f) || (isS k "ses" && fhas (L "session") v f) ||
  (* PATH records, EXECVE arguments, addresses moved to source/destination *)
  existsb (fun e => beq (snd e) v &&
                    ((has_prefix (L "paths.") (fst e) && has_suffix (L "." ++ k) (fst e)) ||
                     has_prefix (L "process.args.") (fst e) ||
                     beq (fst e) (L "source.ip") || beq (fst e) (L "source.port") || beq (fst e) (L "source.path") ||
                     beq (fst e) (L "destination.ip") || beq (fst e) (L "destination.port") || beq (fst e) (L "destination.path"))) f.
Definition warned (k : str) (r : rec) (ws : list str) : bool :=
  existsb (fun w => contains (L "(" ++ k ++ L ")") w || contains (L "failed to parse") w || contains (L "failed to add SOCKADDR") w ||
                    contains (L "argc") w || contains (L "failed to find arg") w) ws.
Definition record_kept (single : bool) (r : rec) (f : flat) (ws : list str) : bool :=
  match r_data r with
  | None => match ws with [] => false | _ => true end      (* an unparsable record must leave a warning *)
  | Some d => forallb (fun e => present (fst e) (snd e) f || warned (fst e) r ws || (is_syscall r && negb single && isS (fst e) "items")) d
  end.
Definition nothing_dropped (rs : list rec) (f : flat) (ws : list str) : bool :=
  let l := filter_eoe rs in
  let single := match l with [_] => true | _ => false end in
  (* a compound event is built from the SYSCALL record plus every other record; the special first record included *)
  forallb (fun r => record_kept single r f ws) l.

(* ---------- C09: the file summary mirrors a PATH record ---------- *)
Definition oct_of (s : str) : option N := match s with [] => None | _ => read_num (fun c => let n := N_of_ascii c in if ((48 <=? n) && (n <=? 55))%N then Some (n - 48)%N else None) 8 s 0%N end.
Definition oct4 (m : N) : str :=
  let d i := ascii_of_N (48 + (m / 8 ^ i) mod 8)%N in
  let m' := N.land m 4095 in
  [ascii_of_N (48 + (m' / 512) mod 8)%N; ascii_of_N (48 + (m' / 64) mod 8)%N; ascii_of_N (48 + (m' / 8) mod 8)%N; ascii_of_N (48 + m' mod 8)%N].
Definition opt_same (want : option str) (got : option str) : bool :=
  match want with Some w => match got with Some g => beq g w | None => false end | None => true end.
Definition mirrors (p : kvs) (f : flat) : bool :=
  opt_same (fget (L "name") p) (fget (L "file.path") f) && opt_same (fget (L "inode") p) (fget (L "file.inode") f) &&
  opt_same (fget (L "rdev") p) (fget (L "file.device") f) && opt_same (fget (L "ouid") p) (fget (L "file.uid") f) &&
  opt_same (fget (L "ogid") p) (fget (L "file.gid") f) &&
  match fget (L "mode") p with
  | Some ms => match oct_of ms with Some m => opt_same (Some (oct4 m)) (fget (L "file.mode") f) | None => true end
  | None => true end.
Definition has_file (f : flat) : bool := existsb (fun e => has_prefix (L "file.") (fst e)) f.
Definition file_ok (rs : list rec) (f : flat) (ws : list str) : bool :=
  if existsb (contains (L "failed to set file object")) ws then true      (* the selected record's mode did not parse: reported, not mirrored *)
  else if has_file f then
    existsb (fun r => (r_type r =? MsgTypes.AUDIT_PATH)%N && match r_data r with Some d => mirrors d f | None => false end) rs
  else true.

Definition chk_C09 (rs : list rec) (res : option flat) (ws : list str) : bool :=
  if must_fail rs then match res with None => true | Some _ => false end
  else match res with
       | None => false
       | Some f => identity_ok rs f && nothing_dropped rs f ws && file_ok rs f ws
       end.

(* ---------- object type from the mode's file-type bits ---------- *)
Definition spec_type (mode : N) : str :=
  let t := N.land mode 61440 in        (* S_IFMT = 0170000 *)
  if (t =? 32768)%N then L "file" else if (t =? 16384)%N then L "directory" else if (t =? 8192)%N then L "character-device"
  else if (t =? 24576)%N then L "block-device" else if (t =? 4096)%N then L "named-pipe" else if (t =? 40960)%N then L "symlink"
  else if (t =? 49152)%N then L "socket" else L "file".
Definition valid_ifmt (mode : N) : bool :=
  let t := N.land mode 61440 in existsb (N.eqb t) [32768; 16384; 8192; 24576; 4096; 40960; 49152]%N.
(* what the pinned code computes: os.FileMode(st_mode) has no type bit set for any 16-bit value, so IsRegular() always holds *)
Definition gofilemode_type (mode : N) : str := L "file".

(* ---------- the model of the field routing ---------- *)
Definition put (k v : str) (m : kvs) : kvs := (k, v) :: filter (fun e => negb (beq (fst e) k)) m.
Definition del (k : str) (m : kvs) : kvs := filter (fun e => negb (beq (fst e) k)) m.
Record mev := { m_data : kvs; m_ids : kvs; m_sel : kvs; m_result : option str; m_session : option str; m_paths : list kvs;
                m_args : option (list str); m_warn : nat; m_src : option kvs; m_dst : option kvs }.
Definition dstep (a : mev) (kv : str * str) : mev :=
  let '(k, v) := kv in
  if isS k "result" then a else if isS k "ses" then a
  else if has_suffix (L "uid") k || has_suffix (L "gid") k
  then {| m_data := m_data a; m_ids := put k v (m_ids a); m_sel := m_sel a; m_result := m_result a; m_session := m_session a; m_paths := m_paths a; m_args := m_args a; m_warn := m_warn a; m_src := m_src a; m_dst := m_dst a |}
  else if has_prefix (L "subj_") k
  then {| m_data := m_data a; m_ids := m_ids a; m_sel := put (skipn 5 k) v (m_sel a); m_result := m_result a; m_session := m_session a; m_paths := m_paths a; m_args := m_args a; m_warn := m_warn a; m_src := m_src a; m_dst := m_dst a |}
  else {| m_data := put k v (m_data a); m_ids := m_ids a; m_sel := m_sel a; m_result := m_result a; m_session := m_session a; m_paths := m_paths a; m_args := m_args a; m_warn := m_warn a; m_src := m_src a; m_dst := m_dst a |}.
Definition dstart (d : kvs) (e : mev) : mev :=
  {| m_data := m_data e; m_ids := m_ids e; m_sel := m_sel e;
     m_result := Some (match fget (L "result") d with Some x => x | None => L "unknown" end);
     m_session := fget (L "ses") d; m_paths := m_paths e; m_args := m_args e; m_warn := m_warn e; m_src := m_src e; m_dst := m_dst e |}.
Definition distribute (d : kvs) (e : mev) : mev := fold_left dstep d (dstart d e).
Definition m0 : mev := {| m_data := []; m_ids := []; m_sel := []; m_result := None; m_session := None; m_paths := []; m_args := None; m_warn := 0; m_src := None; m_dst := None |}.
Definition warn (e : mev) : mev := {| m_data := m_data e; m_ids := m_ids e; m_sel := m_sel e; m_result := m_result e; m_session := m_session e; m_paths := m_paths e; m_args := m_args e; m_warn := S (m_warn e); m_src := m_src e; m_dst := m_dst e |}.
Definition with_data (e : mev) (d : kvs) : mev := {| m_data := d; m_ids := m_ids e; m_sel := m_sel e; m_result := m_result e; m_session := m_session e; m_paths := m_paths e; m_args := m_args e; m_warn := m_warn e; m_src := m_src e; m_dst := m_dst e |}.

Definition add_fields (d : kvs) (e : mev) : mev :=
  fold_left (fun a kv => match fget (fst kv) (m_data a) with Some _ => warn a | None => with_data a (put (fst kv) (snd kv) (m_data a)) end) d e.
Fixpoint take_args (fuel : nat) (i count : N) (d : kvs) (acc : list str) : option (list str) :=
  match fuel with
  | O => Some (rev acc)
  | S f => if (count <=? i)%N then Some (rev acc)
           else match fget (L "a" ++ Dec.dec i) d with Some v => take_args f (i + 1)%N count d (v :: acc) | None => None end
  end.
Definition add_execve (d : kvs) (e : mev) : mev :=
  match fget (L "argc") d with
  | None => warn e
  | Some argc =>
      let e1 := with_data e (put (L "argc") argc (m_data e)) in
      match argc with
      | [] => warn e1
      | _ => match read_num digit_of 10 argc 0%N with
             | Some c => if (c <? 2 ^ 32)%N then
                           match take_args (S (length d)) 0 c d [] with
                           | Some args => {| m_data := m_data e1; m_ids := m_ids e1; m_sel := m_sel e1; m_result := m_result e1; m_session := m_session e1; m_paths := m_paths e1;
                                             m_args := Some args; m_warn := m_warn e1; m_src := m_src e1; m_dst := m_dst e1 |}
                           | None => warn e1 end
                         else warn e1
             | None => warn e1 end
      end
  end.
Definition addr_of (d : kvs) : option kvs :=
  let pick (k p : str) := match fget k d with Some v => match v with [] => [] | _ => [(p, v)] end | None => [] end in
  match pick (L "addr") (L "ip") ++ pick (L "port") (L "port") ++ pick (L "path") (L "path") with [] => None | l => Some l end.
Definition add_sockaddr (d : kvs) (e : mev) : mev :=
  match fget (L "syscall") (m_data e) with
  | None => warn e
  | Some sc =>
      let e1 := with_data e (fold_left (fun a kv => put (L "socket_" ++ fst kv) (snd kv) a) d (m_data e)) in
      if isS sc "recvfrom" || isS sc "recvmsg" || isS sc "accept" || isS sc "accept4"
      then {| m_data := m_data e1; m_ids := m_ids e1; m_sel := m_sel e1; m_result := m_result e1; m_session := m_session e1; m_paths := m_paths e1; m_args := m_args e1; m_warn := m_warn e1;
              m_src := match addr_of d with Some a => Some a | None => m_src e1 end; m_dst := m_dst e1 |}
      else if isS sc "connect" || isS sc "sendto" || isS sc "sendmsg"
      then {| m_data := m_data e1; m_ids := m_ids e1; m_sel := m_sel e1; m_result := m_result e1; m_session := m_session e1; m_paths := m_paths e1; m_args := m_args e1; m_warn := m_warn e1;
              m_src := m_src e1; m_dst := match addr_of d with Some a => Some a | None => m_dst e1 end |}
      else e1
  end.
Definition route (e : mev) (r : rec) : mev :=
  if is_syscall r then e                                   (* its fields were taken by newEvent, without the item count *)
  else match r_data r with
       | None => warn e
       | Some d =>
           if (r_type r =? MsgTypes.AUDIT_PATH)%N then {| m_data := m_data e; m_ids := m_ids e; m_sel := m_sel e; m_result := m_result e; m_session := m_session e; m_paths := m_paths e ++ [d]; m_args := m_args e; m_warn := m_warn e; m_src := m_src e; m_dst := m_dst e |}
           else if (r_type r =? MsgTypes.AUDIT_SOCKADDR)%N then add_sockaddr d e
           else if (r_type r =? MsgTypes.AUDIT_EXECVE)%N then add_execve d e
           else add_fields d e
       end.
Definition model_event (rs : list rec) : option mev :=
  match filter_eoe rs with
  | [] => None
  | [r] => Some (match r_data r with Some d => distribute d m0 | None => warn m0 end)
  | l => match find is_syscall l with
         | None => None
         | Some sc => let e0 := match r_data sc with Some d => distribute (del (L "items") d) m0 | None => warn m0 end in
                      Some (fold_left route l e0)
         end
  end.

(* what the model predicts for the routed part of the flattened event; keys that applyNormalization /
   addProcess move afterwards are projected away on both sides *)
Definition moved (k : str) : bool := isS k "addr" || isS k "pid" || isS k "ppid" || isS k "proctitle" || isS k "comm" || isS k "exe" || isS k "cwd".
Definition model_flat (e : mev) : flat :=
  map (fun kv => (L "data." ++ fst kv, snd kv)) (filter (fun kv => negb (moved (fst kv))) (m_data e)) ++
  map (fun kv => (L "user.ids." ++ fst kv, snd kv)) (m_ids e) ++ map (fun kv => (L "user.selinux." ++ fst kv, snd kv)) (m_sel e) ++
  (match m_result e with Some r => [(L "result", r)] | None => [] end) ++
  (match m_session e with Some s => [(L "session", s)] | None => [(L "session", [])] end) ++
  (match m_args e with Some a => map (fun iv => (L "process.args." ++ Dec.dec (N.of_nat (fst iv)), snd iv)) (combine (seq 0 (length a)) a) | None => [] end) ++
  List.concat (map (fun ip => map (fun kv => (L "paths." ++ Dec.dec (N.of_nat (fst ip)) ++ L "." ++ fst kv, snd kv)) (snd ip)) (combine (seq 0 (length (m_paths e))) (m_paths e))).
Definition routed_part (f : flat) : flat :=
  filter (fun e => let p := fst e in
                   (has_prefix (L "data.") p && negb (moved (skipn 5 p))) || has_prefix (L "user.ids.") p || has_prefix (L "user.selinux.") p ||
                   beq p (L "result") || beq p (L "session") || has_prefix (L "process.args.") p || has_prefix (L "paths.") p) f.
Definition sub_flat (a b : flat) : bool := forallb (fun e => fhas (fst e) (snd e) b) a.
Definition flat_eqb (a b : flat) : bool := sub_flat a b && sub_flat b a && (length a =? length b).

Inductive ecase :=
| ECase (rs : list rec) (panicked : bool) (res : option flat) (ws : list str) (intact repeat_ok isolated : bool)
| MCase (mode : N) (objtype_s filemode_s : string)
| KCache (c : ccase).                                     (* a run of the id caches (C15) *)

(* which = 0 : C09, 1 : C15 *)
Definition judge_coalesce (which : N) (c : ecase) : N :=
  match c with
  | ECase rs panicked res ws intact repeat_ok isolated =>
      if (which =? 1)%N then (if panicked || negb intact || negb repeat_ok || negb isolated then 2%N else 0%N)
      else if panicked then 0%N
      else if negb (chk_C09 rs res ws) then 2%N
      else match model_event rs, res with
           | None, None => 0%N
           | Some e, Some f => if flat_eqb (model_flat e) (routed_part f) && (m_warn e <=? length ws) then 0%N else 1%N
           | _, _ => 1%N
           end
  | MCase mode objtype_s filemode_s =>
      let objtype := L objtype_s in let filemode := L filemode_s in
      if (which =? 1)%N then 0%N
      else if negb (beq filemode (oct4 mode)) then 2%N
      else if beq objtype (spec_type mode) then 0%N
      else if beq objtype (gofilemode_type mode) then 102%N       (* known finding: every mode is classified as a regular file *)
      else 2%N
  | KCache c => if (which =? 1)%N then judge_cache c else 0%N
  end.
Definition judge_c09 := judge_coalesce 0.
Definition judge_c15 := judge_coalesce 1.
