(* Check/ChkReasm.v — observation-level checkers of the Reassembler family that are
   not already defined next to their proofs (C10 cause / oldest-not-complete, C19),
   and the judges the driver evaluates on what the implementation did.

   A history as the harness records it carries, for every call, the clock stamps
   taken immediately before and after the call (ns since the start of the case).
   The model's own clock readings (one by Put, one by CleanUp) lie between them. *)
From Coq Require Import List ZArith Bool Lia.
Import ListNotations.
Require Import Reassembler ReasmC02 ReasmC03 ReasmC10 ChkBound.
Open Scope Z_scope.

Inductive hop := HPush (m : option msg) (lo hi : Z) | HMaintain (lo hi : Z) | HClose.

(* the two extreme resolutions of the stamps into clock readings *)
Definition early (h : hop) : op :=   (* events expire as early as possible *)
  match h with HPush m lo hi => Push m lo hi | HMaintain lo hi => Maintain hi | HClose => Close end.
Definition late (h : hop) : op :=    (* events expire as late as possible *)
  match h with HPush m lo hi => Push m hi lo | HMaintain lo hi => Maintain lo | HClose => Close end.
(* a model history seen as a recorded one: the readings are their own stamps *)
Definition exact (o : op) : hop :=
  match o with Push m tp tc => HPush m tp tc | Maintain now => HMaintain now now | Close => HClose end.

(* ---------- the walker: everything below is computed from observables only ---------- *)
Definition memZ (k : Z) (l : list Z) : bool := existsb (Z.eqb k) l.
Definition remZ (k : Z) (l : list Z) : list Z := filter (fun x => negb (x =? k)) l.
Fixpoint alook (k : Z) (l : list (Z * (Z * Z))) : option (Z * Z) :=
  match l with [] => None | (k', v) :: r => if k =? k' then Some v else alook k r end.
Definition arem (k : Z) (l : list (Z * (Z * Z))) := filter (fun p => negb (fst p =? k)) l.

Record wst := { wU : list msg;                 (* pushed and not yet delivered, in push order *)
                wC : list Z;                   (* buffered sequences known to be complete *)
                wOpen : list (Z * (Z * Z));    (* buffered sequence -> stamps of the call that opened it *)
                wClosed : bool }.              (* a Close has returned success *)
Definition w0 : wst := {| wU := []; wC := []; wOpen := []; wClosed := false |}.

Definition bufseqs (U : list msg) : list Z := useqs U.
(* the oldest buffered sequence: the one that orders before every other *)
Definition lessmin (l : list Z) : option Z := find (fun a => forallb (fun b => (b =? a) || less a b) l) l.

Definition w_push (w : wst) (m : msg) (lo hi : Z) : wst :=
  let k := mseq m in
  if mty m =? AUDIT_EOE
  then {| wU := wU w; wC := if memZ k (bufseqs (wU w)) then k :: wC w else wC w; wOpen := wOpen w; wClosed := wClosed w |}
  else {| wU := wU w ++ [m];
          wC := if completes (mty m) then k :: wC w else wC w;
          wOpen := if memZ k (bufseqs (wU w)) then wOpen w else (k, (lo, hi)) :: wOpen w;
          wClosed := wClosed w |}.

(* one delivery: returns the new state and whether the delivery had a cause *)
Definition w_deliver (maxsz tmo hi : Z) (w : wst) (a : Z) : wst * bool :=
  let size := Z.of_nat (length (bufseqs (wU w))) in
  let cause := memZ a (wC w) || (size >? maxsz)
               || match alook a (wOpen w) with Some (olo, _) => hi >? olo + tmo | None => false end in
  ({| wU := filter (fun m => negb (sameseq a m)) (wU w); wC := remZ a (wC w); wOpen := arem a (wOpen w); wClosed := wClosed w |}, cause).

Fixpoint w_outs (maxsz tmo hi : Z) (w : wst) (outs : list out) (causes : bool) : wst * bool :=
  match outs with
  | [] => (w, causes)
  | Complete (m0 :: _) :: r => let '(w', c) := w_deliver maxsz tmo hi w (mseq m0) in w_outs maxsz tmo hi w' r (causes && c)
  | Complete [] :: r => w_outs maxsz tmo hi w r false
  | _ :: r => w_outs maxsz tmo hi w r causes
  end.

Definition has_callbacks (outs : list out) : bool :=
  existsb (fun o => match o with Complete _ | Lost _ => true | _ => false end) outs.
Definition ret_true (outs : list out) : bool := existsb (fun o => match o with Ret true => true | _ => false end) outs.
Definition ret_false (outs : list out) : bool := existsb (fun o => match o with Ret false => true | _ => false end) outs.

(* the oldest remaining event is not one whose timeout had certainly elapsed when the call began *)
Definition not_stale (tmo lo : Z) (w : wst) : bool :=
  match lessmin (bufseqs (wU w)) with
  | Some a => match alook a (wOpen w) with Some (_, ohi) => negb (lo >? ohi + tmo) | None => true end
  | None => true
  end.
Definition oldest_incomplete (w : wst) : bool :=
  match lessmin (bufseqs (wU w)) with Some a => negb (memZ a (wC w)) | None => true end.

Record verdicts := { v_bound : bool; v_oldest : bool; v_cause : bool; v_stale : bool; v_close : bool }.
Definition vand (a b : verdicts) := {| v_bound := v_bound a && v_bound b; v_oldest := v_oldest a && v_oldest b;
  v_cause := v_cause a && v_cause b; v_stale := v_stale a && v_stale b; v_close := v_close a && v_close b |}.
Definition vtrue := {| v_bound := true; v_oldest := true; v_cause := true; v_stale := true; v_close := true |}.

Definition w_call (maxsz tmo : Z) (w : wst) (h : hop) (outs : list out) : wst * verdicts :=
  match h with
  | HPush None _ _ => (w, {| v_bound := true; v_oldest := true; v_cause := negb (has_callbacks outs); v_stale := true; v_close := true |})
  | HPush (Some m) lo hi =>
      let '(w', c) := w_outs maxsz tmo hi (w_push w m lo hi) outs true in
      (w', {| v_bound := Z.of_nat (length (bufseqs (wU w'))) <=? maxsz; v_oldest := oldest_incomplete w';
              v_cause := c; v_stale := not_stale tmo lo w'; v_close := true |})
  | HMaintain lo hi =>
      if wClosed w then (w, {| v_bound := true; v_oldest := true; v_cause := true; v_stale := true;
                               v_close := negb (has_callbacks outs) && ret_false outs && negb (ret_true outs) |})
      else let '(w', c) := w_outs maxsz tmo hi w outs true in
           (w', {| v_bound := true; v_oldest := oldest_incomplete w'; v_cause := c; v_stale := not_stale tmo lo w';
                   v_close := ret_true outs && negb (ret_false outs) |})
  | HClose =>
      if wClosed w then (w, {| v_bound := true; v_oldest := true; v_cause := true; v_stale := true;
                               v_close := negb (has_callbacks outs) && ret_false outs && negb (ret_true outs) |})
      else let '(w', _) := w_outs maxsz tmo 0 w outs true in
           ({| wU := wU w'; wC := wC w'; wOpen := wOpen w'; wClosed := true |},
            {| v_bound := true; v_oldest := true; v_cause := true; v_stale := true;
               v_close := ret_true outs && negb (ret_false outs) && match wU w' with [] => true | _ => false end |})
  end.

Fixpoint walk (maxsz tmo : Z) (w : wst) (hs : list hop) (tr : list (list out)) : verdicts :=
  match hs, tr with
  | [], [] => vtrue
  | h :: hs', outs :: tr' => let '(w', v) := w_call maxsz tmo w h outs in vand v (walk maxsz tmo w' hs' tr')
  | _, _ => {| v_bound := false; v_oldest := false; v_cause := false; v_stale := false; v_close := false |}
  end.

(* ---------- boolean version of the window hypothesis of C02 (soundness proved in Proofs/WindowB.v) ---------- *)
Definition inwinb (base x : Z) : bool := (0 <=? x) && (x <? 2^32) && ((x - base) mod 2^32 <? 2^24).
Definition fitsb (U : list msg) (x : Z) : bool :=
  existsb (fun base => (0 <=? base) && (base <? 2^32) && inwinb base x && forallb (fun m => inwinb base (mseq m)) U)
          (x :: map mseq U).
Fixpoint windowedb (U : list msg) (ops : list op) (tr : list (list out)) : bool :=
  match ops, tr with
  | o :: ops', outs :: tr' =>
      (match o with Push (Some m) _ _ => fitsb U (mseq m) | _ => true end) &&
      match chk_outs (pushU U o) outs with Some U2 => windowedb U2 ops' tr' | None => true end
  | _, _ => true
  end.

(* ---------- the property checkers on a recorded history ---------- *)
Definition chk_C10_obs (maxsz tmo : Z) (hs : list hop) (tr : list (list out)) : bool :=
  let v := walk maxsz tmo w0 hs tr in
  chk_bound maxsz [] (map early hs) tr && v_bound v && v_cause v && (if windowedb [] (map early hs) tr then v_oldest v else true).
(* "Close delivers every buffered event ... with loss accounting": the lost count a Close reports is judged as C03 judges every
   call's (ReasmC03.chk_call: the sequence numbers skipped between consecutive in-order deliveries).  The delivery cursor
   is carried through all calls; a count that is off in a call that is not a Close is C03's business, not C19's. *)
Fixpoint chk_close_lost (last : option Z) (hs : list hop) (tr : list (list out)) : bool :=
  match hs, tr with
  | h :: hs', outs :: tr' =>
      match chk_call last outs with
      | Some last' => chk_close_lost last' hs' tr'
      | None => match h with
                | HClose => false
                | _ => match replay last outs 0 with Some (_, last', _) => chk_close_lost last' hs' tr' | None => true end
                end
      end
  | _, _ => true
  end.
Definition chk_C19_obs (maxsz tmo : Z) (hs : list hop) (tr : list (list out)) : bool :=
  let v := walk maxsz tmo w0 hs tr in
  v_cause v && v_close v && (if windowedb [] (map early hs) tr then v_stale v else true) && chk_close_lost None hs tr.
Definition chk_C02_obs (hs : list hop) (tr : list (list out)) : bool :=
  if windowedb [] (map early hs) tr then chk_C02 [] (map early hs) tr else true.

(* ---------- trace equality and the judges ---------- *)
Definition out_eqb (a b : out) : bool :=
  match a, b with
  | Complete x, Complete y => list_eqb x y
  | Lost x, Lost y => x =? y
  | Ret x, Ret y => Bool.eqb x y
  | Panic, Panic => true
  | _, _ => false
  end.
Fixpoint outs_eqb (a b : list out) : bool :=
  match a, b with [], [] => true | x :: a', y :: b' => out_eqb x y && outs_eqb a' b' | _, _ => false end.
Fixpoint trace_eqb (a b : list (list out)) : bool :=
  match a, b with [], [] => true | x :: a', y :: b' => outs_eqb x y && trace_eqb a' b' | _, _ => false end.

Inductive rcase :=
| RCase (maxsz tmo : Z) (hs : list hop) (obs : list (list out))
| RNil (rejected : bool).                      (* NewReassembler with a nil Stream *)

(* 0 = model and implementation agree; 1 = they differ although the clock stamps
   leave no choice; 50 = they differ but the stamps leave an expiry comparison
   undecided (discarded) *)
Definition corr (maxsz tmo : Z) (hs : list hop) (obs : list (list out)) : N :=
  let c := {| maxSize := maxsz; timeout := tmo |} in
  let ra := run c init (map early hs) in
  if trace_eqb ra obs then 0%N else
  let rb := run c init (map late hs) in
  if trace_eqb rb obs then 0%N else if trace_eqb ra rb then 1%N else 50%N.

Definition judge_with (chk : Z -> Z -> list hop -> list (list out) -> bool) (nil_matters : bool) (c : rcase) : N :=
  match c with
  | RCase maxsz tmo hs obs => if chk maxsz tmo hs obs then corr maxsz tmo hs obs else 2%N
  | RNil rejected => if nil_matters && negb rejected then 2%N else 0%N
  end.
Definition judge_c01 := judge_with (fun _ _ hs tr => chk_C01 [] (map early hs) tr) false.
Definition judge_c02 := judge_with (fun _ _ hs tr => chk_C02_obs hs tr) false.
Definition judge_c03 := judge_with (fun _ _ hs tr => chk_C03 None tr) false.
Definition judge_c10 := judge_with chk_C10_obs false.
Definition judge_c19 := judge_with chk_C19_obs true.
Definition mk := Build_msg.
