(* Check/ChkRule.v — judges of C06, C07, C13 for the rule codec.
   chk_C06 reads the bytes rule.Build returned with the fixed-offset UAPI reader
   (Spec/UapiRule.v) and compares them, field by field, with what the structured
   rule asks for, using the UAPI numbers by name — never the model. *)
From Coq Require Import List Ascii String Arith NArith ZArith Bool Lia.
Import ListNotations.
Require Import Bytes Mach RuleTables RuleDecode Mask RuleEncode RuleText RuleValue Flags RuleBuild Uapi UapiRule.
Local Open Scope string_scope.
Local Open Scope list_scope.
Open Scope N_scope.

Fixpoint bytes_eqb (a b : str) : bool :=
  match a, b with [], [] => true | x :: a', y :: b' => Ascii.eqb x y && bytes_eqb a' b' | _, _ => false end.
Fixpoint listN_eqb (a b : list N) : bool :=
  match a, b with [], [] => true | x :: a', y :: b' => (x =? y) && listN_eqb a' b' | _, _ => false end.
Definition optb_eqb (a b : option str) : bool :=
  match a, b with Some x, Some y => bytes_eqb x y | None, None => true | _, _ => false end.

(* ---------- what the rule asks for, in UAPI numbers ---------- *)
Definition uapi_triple (it : item) : option (N * N * N * option str) :=
  match it with
  | IFilter f op (VNum n) =>
      match lookupS (s2l f) uapi_fields, lookupS (s2l op) uapi_operators with Some fc, Some oc => Some (fc, oc, n mod 4294967296, None) | _, _ => None end
  | IFilter f op (VStr sv) =>
      match lookupS (s2l f) uapi_fields, lookupS (s2l op) uapi_operators with Some fc, Some oc => Some (fc, oc, N.of_nat (List.length sv), Some sv) | _, _ => None end
  | ICompare l op r =>
      match lookupS (s2l l) uapi_fields, lookupS (s2l r) uapi_fields, lookupS (s2l op) uapi_operators with
      | Some lf, Some rf, Some oc => match uapi_compare lf rf with Some c => Some (UAPI_AUDIT_FIELD_COMPARE, oc, c, None) | None => None end
      | _, _, _ => None end
  end.
Fixpoint uapi_triples (its : list item) : option (list (N * N * N * option str)) :=
  match its with
  | [] => Some []
  | it :: r => match uapi_triple it, uapi_triples r with Some t, Some ts => Some (t :: ts) | _, _ => None end
  end.
(* AUDIT_KEY_SEPARATOR = 0x01 *)
Fixpoint uapi_join_keys (ks : list str) : str :=
  match ks with [] => [] | [k] => k | k :: r => k ++ ascii_of_N 1 :: uapi_join_keys r end.
Definition uapi_key_triple (keys : list str) : list (N * N * N * option str) :=
  match keys with [] => [] | _ => let k := uapi_join_keys keys in [(UAPI_AUDIT_FILTERKEY, UAPI_AUDIT_EQUAL, N.of_nat (List.length k), Some k)] end.

Definition pad64z (l : list N) : list N := firstn 64 (l ++ repeat 0 64).
Definition mask_bit (m : list N) (n : N) : bool := N.testbit (nth (N.to_nat (n / 32)) m 0) (n mod 32).
Definition uapi_all_mask : list N := repeat 4294967295 63 ++ [65535].
(* exactly the requested bits: every requested one is set, and the number of set bits equals the number of distinct requests *)
Fixpoint popcount (fuel : nat) (w : N) : N := match fuel with O => 0 | S f => (w mod 2) + popcount f (w / 2) end.
Fixpoint nodupN (l : list N) : list N := match l with [] => [] | x :: r => if existsb (N.eqb x) r then nodupN r else x :: nodupN r end.
Definition mask_exact (m : list N) (req : list N) : bool :=
  forallb (mask_bit m) req && (fold_left (fun a w => a + popcount 32 w) m 0 =? N.of_nat (List.length (nodupN req))).

Definition chk_wire (flags action : N) (all : bool) (req : list N) (ts : list (N * N * N * option str)) (b : str) : bool :=
  match uapi_rule_decode b with
  | None => false
  | Some u =>
      let strings := flat_map (fun t => match snd t with Some sv => sv | None => [] end) ts in
      let n := (1040 + List.length strings)%nat in
      (* a well-formed struct audit_rule_data has at most AUDIT_MAX_FIELDS = 64 triples *)
      (List.length ts <=? 64)%nat &&
      (ur_flags u =? flags) && (ur_action u =? action) && (ur_field_count u =? N.of_nat (List.length ts)) &&
      listN_eqb (ur_fields u) (pad64z (map (fun t => fst (fst (fst t))) ts)) &&
      listN_eqb (ur_fieldflags u) (pad64z (map (fun t => snd (fst (fst t))) ts)) &&
      listN_eqb (ur_values u) (pad64z (map (fun t => snd (fst t)) ts)) &&
      (ur_buflen u =? N.of_nat (List.length strings)) &&
      bytes_eqb (ur_buf u) (strings ++ repeat (ascii_of_N 0) ((4 - n mod 4) mod 4)) &&
      (if all then listN_eqb (ur_mask u) uapi_all_mask else (List.length (ur_mask u) =? 64)%nat && mask_exact (ur_mask u) req)
  end.

Definition chk_C06_rule (s : rspec) (b : str) : bool :=
  match lookupS (s2l (sp_list s)) uapi_lists, lookupS (s2l (sp_action s)) uapi_actions, uapi_triples (sp_items s) with
  | Some lc, Some ac, Some ts => chk_wire lc ac (sp_all s) (sp_syscalls s) (ts ++ uapi_key_triple (sp_keys s)) b
  | _, _, _ => false
  end.
Definition uapi_perm_bits (p : str) : N :=
  fold_left (fun acc c => N.lor acc (match N_of_ascii c with 114 => UAPI_AUDIT_PERM_READ | 119 => UAPI_AUDIT_PERM_WRITE | 120 => UAPI_AUDIT_PERM_EXEC | 97 => UAPI_AUDIT_PERM_ATTR | _ => 0 end)) p 0.
Definition chk_C06_watch (path : str) (is_dir : bool) (perms : str) (keys : list str) (b : str) : bool :=
  chk_wire 4 2 true []
    ([(if is_dir then 107 else 105, UAPI_AUDIT_EQUAL, N.of_nat (List.length path), Some path);
      (106, UAPI_AUDIT_EQUAL, match perms with [] => 15 | _ => uapi_perm_bits perms end, None)] ++ uapi_key_triple keys) b.

(* ---------- round trip observations (C07) ---------- *)
Inductive b2 := B2Same | B2Other (b : str).
Inductive rt := RTNone | RT (text1 : option str) (bytes2 : option b2) (text2 : option str).

Definition chk_C07 (r : rt) : bool :=
  match r with
  | RT (Some t1) (Some B2Same) (Some t2) => bytes_eqb t1 t2
  | _ => false
  end.
(* decode -> re-encode on the model side: the bytes Build returned must decode (structurally) and re-encode to themselves *)
Definition reencode (b : str) : option str :=
  match from_wire b with
  | Ok (h, buf) =>
      match from_audit_rule_data h buf with
      | Ok rd => Some (to_wire {| w_flags := flags h; w_action := action h; w_mask := mask h; w_triples := r_fields rd; w_strings := r_strings rd |})
      | _ => None end
  | _ => None
  end.

(* a syscall rule that ToCommandLine prints in the -w form re-derives path/dir by stat: the property
   leaves a dir= field that is not an existing directory out of its domain *)
Definition watch_shaped_dir (s : rspec) : bool :=
  streq (sp_list s) "exit" && streq (sp_action s) "always" && sp_all s &&
  match sp_items s with
  | IFilter f "=" (VStr _) :: IFilter "perm" "=" _ :: nil => streq f "dir"
  | _ => false
  end.

Inductive bcase :=
| BRule (s : rspec) (built : option str) (r : rt)
| BWatch (path : str) (is_dir : bool) (perms : str) (keys : list str) (built : option str) (r : rt)
| BVal (field : string) (text : str) (obs : option N)
| BLine (toks : list str) (built : option str)           (* the tokens shellquote.Split gave for a syscall-rule line, and what Parse + Build made of them *)
| BAlias (changed : N).                                    (* how many earlier results were found changed after a later Build *)     (* one "-F field=text" filter: the value word Build wrote, None = rejected *)

Definition judge_value (f : string) (text : str) (obs : option N) : N :=
  match lookupS (s2l f) fields_table with
  | None => match obs with None => 0 | Some _ => 1 end
  | Some fc =>
      if is_string_field fc then 0
      else match parse_value fc text, obs with
           | VLookup, _ => 0
           | VOk n, Some m => if n =? m then 0 else 1
           | VErr, None => 0
           | _, _ => 1
           end
  end.

Definition judge_c06 (c : bcase) : N :=
  match c with
  | BRule s built _ =>
      match built with
      | Some b => if negb (chk_C06_rule s b) then 2 else if optb_eqb (build_spec s) built then 0 else 1
      | None => if optb_eqb (build_spec s) None then 0 else 1
      end
  | BWatch path is_dir perms keys built _ =>
      match built with
      | Some b => if negb (chk_C06_watch path is_dir perms keys b) then 2 else if optb_eqb (build_watch path is_dir perms keys) built then 0 else 1
      | None => if optb_eqb (build_watch path is_dir perms keys) None then 0 else 1
      end
  | BVal f text obs => judge_value f text obs
  | BAlias changed => if changed =? 0 then 0 else 2
  | BLine toks built =>
      if optb_eqb (option_map to_wire (match flags_parse toks with Some p => build_prule (fun _ => false) p | None => None end)) built then 0 else 1
  end.
(* the model side of the tie: decode -> re-encode gives the bytes back, and the model of ToCommandLine prints the text the implementation printed *)
Definition text_agrees (b : str) (r : rt) : bool :=
  match r with RT t1 _ _ => optb_eqb (text_of_wire b) t1 | RTNone => true end.
(* known-finding class 103: an explicit syscall set that fills the first 63 mask words, last word not the all pattern's *)
Definition covers_all_but_last (b : str) : bool :=
  match uapi_rule_decode b with
  | Some u => forallb (N.eqb 4294967295) (firstn 63 (ur_mask u)) && negb (nth 63 (ur_mask u) 0 =? 65535)
  | None => false
  end.
(* the model's own way back: its text, split at blanks, parsed and built by the model, must be the bytes again *)
Definition rebuild_agrees (stat : bool) (b : str) : bool :=
  match text_of_wire b with
  | Some t => optb_eqb (option_map to_wire (rebuild (fun _ => stat) t)) (Some b)
  | None => false
  end.
(* the property's domain: no string value holds a white-space or quote character (ToCommandLine does not quote) *)
Definition plain_char (c : ascii) : bool :=
  let n := N_of_ascii c in negb ((n =? 32) || ((9 <=? n) && (n <=? 13)) || (n =? 34) || (n =? 39))%N.
Definition plain_item (i : item) : bool := match i with IFilter _ _ (VStr v) => forallb plain_char v | _ => true end.
Definition plain_strings (s : rspec) : bool := forallb plain_item (sp_items s) && forallb (forallb plain_char) (sp_keys s).
Definition judge_c07 (c : bcase) : N :=
  match c with
  | BRule s (Some b) r =>
      if negb (plain_strings s) then 0
      else if watch_shaped_dir s then (if text_agrees b r then 0 else 1)
      else if negb (chk_C07 r) then (if covers_all_but_last b then 103 else 2) else if optb_eqb (reencode b) (Some b) && text_agrees b r && rebuild_agrees false b then 0 else 1
  | BWatch _ is_dir _ _ (Some b) r => if negb (chk_C07 r) then 2 else if optb_eqb (reencode b) (Some b) && text_agrees b r && rebuild_agrees is_dir b then 0 else 1
  | _ => 0
  end.

(* ---------- totality (C13) ---------- *)
Inductive outc := OOk | OErr | OWireErr | OPanic | OAlloc.
Inductive tcase :=
| TWire (b : str) (o : outc)
| TBuild (nfilters : N) (o : outc) (built : option str)
| TLine (line : str) (o : outc)
| TVal (lst f op rhs : str) (o : outc) (built : option str).   (* a SyscallRule with one value filter built directly: -S 1, action always *)

(* structurally valid per the UAPI reader: field count within 64, every string field's
   length inside the buffer, the buffer inside the slice *)
Fixpoint strings_fit (fields values : list N) (n : nat) (left : N) : bool :=
  match n, fields, values with
  | O, _, _ => true
  | S k, f :: fr, v :: vr => if existsb (N.eqb f) uapi_string_fields then (v <=? left) && strings_fit fr vr k (left - v) else strings_fit fr vr k left
  | _, _, _ => false
  end.
Definition structurally_valid (b : str) : bool :=
  match uapi_rule_decode b with
  | None => false
  | Some u => (ur_field_count u <=? 64) && (ur_buflen u <=? N.of_nat (List.length (ur_buf u)))
              && strings_fit (ur_fields u) (ur_values u) (N.to_nat (ur_field_count u)) (ur_buflen u)
  end.

Definition judge_c13 (c : tcase) : N :=
  match c with
  | TWire b o =>
      match o with
      | OPanic | OAlloc => 2
      | OOk => if negb (structurally_valid b) then 2 else match decode b with Ok _ => 0 | _ => 1 end
      | OErr => match decode b with Ok _ => 0 | Err (ETooManyFields _) | Err (EFieldOverflow _) => 0 | _ => 1 end
      | OWireErr => match decode b with Err EUnexpectedEOF => 0 | _ => 1 end
      end
  | TBuild nf o built =>
      match o, built with
      | OPanic, _ | OAlloc, _ => 2
      | OOk, Some b => if structurally_valid b then 0 else 2
      | OOk, None => 2
      | _, _ => 0
      end
  | TLine _ o => match o with OPanic | OAlloc => 2 | _ => 0 end
  | TVal lst f op rhs o built =>
      match o with
      | OPanic | OAlloc => 2
      | _ =>
          (* a user or group name is looked up in the system's database: outside the model *)
          let lookup := match lookupS f fields_table with
                        | Some fc => if is_string_field fc then false else match parse_value fc rhs with VLookup => true | _ => false end
                        | None => false end in
          if lookup then 0
          else if optb_eqb (option_map to_wire (build_prule (fun _ => false) (PSyscall false lst (s2l "always") [(false, f, op, rhs)] [s2l "1"] []))) built then 0 else 1
      end
  end.
