(* Check/ChkFlags.v — judge of C14: the rule flags.Parse returned against the
   declarative reading of the line's items (code 2) and against the token-level
   model of the flag package (code 1). *)
From Coq Require Import List Ascii String Bool Arith NArith.
Import ListNotations.
Require Import KV Trim FilterRe Flags.

Fixpoint lbeq (a b : list str) : bool := match a, b with [], [] => true | x :: a', y :: b' => beq x y && lbeq a' b' | _, _ => false end.
Definition filt_eqb (a b : bool * str * str * str) : bool :=
  let '(t, x, y, z) := a in let '(t', x', y', z') := b in Bool.eqb t t' && beq x x' && beq y y' && beq z z'.
Fixpoint lfeq (a b : list (bool * str * str * str)) : bool :=
  match a, b with [], [] => true | x :: a', y :: b' => filt_eqb x y && lfeq a' b' | _, _ => false end.
Definition prule_eqb (a b : prule) : bool :=
  match a, b with
  | PDelete k, PDelete k' => lbeq k k'
  | PWatch p q k, PWatch p' q' k' => beq p p' && beq q q' && lbeq k k'
  | PSyscall pr li ac fs sc k, PSyscall pr' li' ac' fs' sc' k' => Bool.eqb pr pr' && beq li li' && beq ac ac' && lfeq fs fs' && lbeq sc sc' && lbeq k k'
  | _, _ => false
  end.
Definition oprule_eqb (a b : option prule) : bool :=
  match a, b with Some x, Some y => prule_eqb x y | None, None => true | _, _ => false end.

Inductive fcase := FCase (items : list fitem) (toks : list str) (panicked : bool) (res : option prule).

Definition judge_c14 (c : fcase) : N :=
  match c with
  | FCase items toks panicked res =>
      if panicked then 2%N
      else if negb (oprule_eqb res (expected_of_items items)) then 2%N
      else if oprule_eqb res (flags_parse toks) then 0%N else 1%N
  end.
