(* Check/ChkCache.v — judge of the id-cache runs (part of C15: resolving ids for one event must not change the outcome
   for others): an independent reading of "a lookup answers for its own key from its own cache", and the comparison with
   Model/IdCache.v. *)
From Coq Require Import List Ascii String NArith Bool Arith.
Import ListNotations.
Require Import KV Parser IdCache.
Require Dec.
Local Open Scope list_scope.

(* the scripted resolver of the harness: ids / names starting with x are unknown (empty answer, cached all the same) *)
Definition resolver (w kind t : nat) (k : str) : str :=
  match k with
  | c :: _ => if Ascii.eqb c "x"%char then [] else L "n" ++ Dec.dec (N.of_nat w) ++ Dec.dec (N.of_nat kind) ++ L ":" ++ k ++ L "." ++ Dec.dec (N.of_nat t)
  | [] => []
  end.

(* one observation per operation: None for hardcode / pause; for a lookup the value returned and what the resolver
   answered if it was asked *)
Inductive ccase := CCase (cl : eclass) (ops : list cop) (obs : list (option (str * option str))).

(* independent clause: the value returned is empty, or the resolver's answer just given, or an answer given earlier for the
   same cache, direction and key, or a value pinned for exactly that key - never something that belongs to another key,
   direction or cache *)
Definition slot := (nat * nat * str)%type.
Definition slot_eqb (a b : slot) : bool := let '(w, kd, k) := a in let '(w', kd', k') := b in Nat.eqb w w' && Nat.eqb kd kd' && beq k k'.
Definition known (s : slot) (v : str) (l : list (slot * str)) : bool := existsb (fun e => slot_eqb (fst e) s && beq (snd e) v) l.
(* pinned slots (hardcoded, or root from the constructors) never expire: a lookup of one returns the latest pinned value
   and does not ask the resolver, however much time has passed *)
Definition pinned_value (s : slot) (pinned : list (slot * str)) : option str :=
  match find (fun e => slot_eqb (fst e) s) pinned with Some e => Some (snd e) | None => None end.
Definition is_blank_key (k : str) : bool := isS k "" || isS k "unset".
Fixpoint own_values (ops : list cop) (obs : list (option (str * option str))) (seen pinned : list (slot * str)) : bool :=
  match ops, obs with
  | [], [] => true
  | CLookup w kd k :: ops', Some (v, asked) :: obs' =>
      let s := (w, kd, k) in
      match pinned_value s pinned with
      | Some pv => if is_blank_key k then own_values ops' obs' seen pinned
                   else (match asked with None => beq v pv | Some _ => false end) && own_values ops' obs' seen pinned
      | None =>
          match asked with
          | Some a => beq v a && own_values ops' obs' ((s, a) :: seen) pinned
          | None => (match v with [] => true | _ => known s v seen end) && own_values ops' obs' seen pinned
          end
      end
  | CHard w id name :: ops', None :: obs' => own_values ops' obs' seen (((w, 0, id), name) :: ((w, 1, name), id) :: pinned)
  | CPause :: ops', None :: obs' => own_values ops' obs' seen pinned
  | _, _ => false
  end.
Definition pins : list (slot * str) := [((0, 0, L "0"), L "root"); ((0, 1, L "root"), L "0"); ((1, 0, L "0"), L "root"); ((1, 1, L "root"), L "0")].

Definition obs_eqb (m : option (str * bool)) (o : option (str * option str)) (expect : str) : bool :=
  match m, o with
  | None, None => true
  | Some (v, asked), Some (v', asked') => beq v v' && match asked, asked' with true, Some a => beq a v | false, None => true | _, _ => false end
  | _, _ => false
  end.
Fixpoint all_eqb (ms : list (option (str * bool))) (os : list (option (str * option str))) : bool :=
  match ms, os with
  | [], [] => true
  | m :: ms', o :: os' => obs_eqb m o [] && all_eqb ms' os'
  | _, _ => false
  end.

Definition judge_cache (c : ccase) : N :=
  match c with
  | CCase cl ops obs =>
      if negb (own_values ops obs [] pins) then 2%N
      else if all_eqb (crun cl resolver cs0 ops) obs then 0%N else 1%N
  end.
