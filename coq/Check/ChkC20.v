(* Check/ChkC20.v — judge for the C20 correspondence: what the implementation's
   conversion functions returned, against the model over the generated tables
   (code 1 = model and implementation differ) and against the property itself
   (code 2 = the round trip fails on the implementation's own answers). *)
From Coq Require Import List NArith ZArith String Ascii Bool.
Require Import Bytes Tables.
Import ListNotations.
Open Scope N_scope.

Inductive c20case :=
| TyCase (t : N) (name : str) (back : option N) (text : str) (textback : option N)
| NameCase (name : str) (res : option N).

Definition optN_eq (a b : option N) : bool :=
  match a, b with Some x, Some y => x =? y | None, None => true | _, _ => false end.

Definition judge_c20 (c : c20case) : N :=
  match c with
  | TyCase t name back text tb =>
      if negb (optN_eq back (Some t) && optN_eq tb (Some t)) then 2
      else if str_eqb (type_name t) name && optN_eq (get_type name) back
              && str_eqb (marshal_type t) text && optN_eq (unmarshal_type text) tb then 0 else 1
  | NameCase name r => if optN_eq (get_type name) r then 0 else 1
  end.
