(* Check/ChkClient.v — observation-level checkers of C08, C16, C17 and their judges.
   The checkers read the kernel script with their own, independent reading of the
   property's fault model (spec_next) and of the UAPI layout (Spec/Uapi.v); they
   never call the model. *)
From Coq Require Import List Ascii NArith ZArith Bool Lia.
Import ListNotations.
Require Import Mach AuditConsts MsgTypes AuditClient Uapi.
Open Scope N_scope.

(* ---------- equality on observations ---------- *)
Fixpoint bytes_eqb (a b : str) : bool :=
  match a, b with [], [] => true | x :: a', y :: b' => Ascii.eqb x y && bytes_eqb a' b' | _, _ => false end.
Fixpoint listN_eqb (a b : list N) : bool :=
  match a, b with [], [] => true | x :: a', y :: b' => (x =? y) && listN_eqb a' b' | _, _ => false end.
Fixpoint lbytes_eqb (a b : list str) : bool :=
  match a, b with [], [] => true | x :: a', y :: b' => bytes_eqb x y && lbytes_eqb a' b' | _, _ => false end.
Definition cerr_eqb (a b : cerr) : bool :=
  match a, b with
  | EErrno x, EErrno y | ERecv x, ERecv y | ESend x, ESend y => Z.eqb x y
  | ERuleExists, ERuleExists | ENoReply, ENoReply | ESeq, ESeq | EAckType, EAckType | EShort, EShort
  | EReplyType, EReplyType | EEOF, EEOF => true
  | _, _ => false
  end.
Definition cres_eqb (a b : cres) : bool :=
  match a, b with
  | ROk, ROk => true
  | RStatus x, RStatus y => listN_eqb x y
  | RRules x, RRules y => lbytes_eqb x y
  | RCount x, RCount y => x =? y
  | RRaw t d, RRaw t' d' => (t =? t') && bytes_eqb d d'
  | RFail x, RFail y => cerr_eqb x y
  | _, _ => false      (* RPanicked equals nothing, not even itself *)
  end.
Definition wire_eqb (a b : wire) : bool :=
  let '(t, f, d) := a in let '(t', f', d') := b in (t =? t') && (f =? f') && bytes_eqb d d'.
Fixpoint wires_eqb (a b : list wire) : bool :=
  match a, b with [], [] => true | x :: a', y :: b' => wire_eqb x y && wires_eqb a' b' | _, _ => false end.
Definition outcome4_eqb (a b : outcome4) : bool :=
  let '(r, ws, cl, n) := a in let '(r', ws', cl', n') := b in cres_eqb r r' && wires_eqb ws ws' && Bool.eqb cl cl' && (n =? n').
Fixpoint outcomes_eqb (a b : list outcome4) : bool :=
  match a, b with [], [] => true | x :: a', y :: b' => outcome4_eqb x y && outcomes_eqb a' b' | _, _ => false end.

(* ---------- the fault model, read independently ---------- *)
Definition transientZ (e : Z) : bool := Z.eqb e 4 || Z.eqb e 11.     (* EINTR, EAGAIN *)
Inductive snext := SMsg (ty : N) (d : str) (rest : list revent) | SForeign | SOut.
(* the next message addressed to request q: any number of unsolicited (sequence 0)
   records and at most nine transient failures in a row may come first; anything
   else is outside the fault model (SOut: no requirement) *)
Fixpoint spec_next (q : N) (script : list revent) (run : nat) : snext :=
  match script with
  | [] => SOut
  | RErr e :: r => if transientZ e then (if (run <? 9)%nat then spec_next q r (S run) else SOut) else SOut
  | RNone :: _ => SOut
  | RMsg ty sq d :: r =>
      if (sq =? 0) && negb (q =? 0) then spec_next q r 0
      else if sq =? q then SMsg ty d r else SForeign
  end.
Inductive verdict := VAck (errno : Z) (rest : list revent) | VForeign | VOut.
Definition s32u (w : N) : Z := if w <? 2147483648 then Z.of_N w else Z.of_N w - 4294967296.
Definition spec_ack (q : N) (script : list revent) : verdict :=
  match spec_next q script 0 with
  | SMsg ty d rest =>
      if ty =? UAPI_NLMSG_ERROR then
        match d with
        | a :: b :: c :: e :: _ => VAck (- s32u (uword_at d 0)) rest
        | _ => VOut
        end
      else VOut
  | SForeign => VForeign
  | SOut => VOut
  end.

Definition is_fail (r : cres) : bool := match r with RFail _ => true | _ => false end.
Definition res_for_errno (addrule : bool) (n : Z) (r : cres) : bool :=
  if Z.eqb n 0 then cres_eqb r ROk
  else if addrule && Z.eqb n 17 then cres_eqb r (RFail ERuleExists)
  else cres_eqb r (RFail (EErrno n)).

(* rule payloads up to NLMSG_DONE *)
Fixpoint spec_rules (fuel : nat) (q : N) (script : list revent) (acc : list str) : option (option (list str * list revent)) :=
  (* None = out of model, Some None = must fail, Some (Some (rules, rest)) *)
  match fuel with
  | O => None
  | S f => match spec_next q script 0 with
           | SMsg ty d rest => if ty =? UAPI_NLMSG_DONE then Some (Some (rev acc, rest))
                               else if ty =? UAPI_AUDIT_LIST_RULES then spec_rules f q rest (d :: acc) else None
           | SForeign => Some None
           | SOut => None
           end
  end.
(* DeleteRules: one DEL_RULE per rule, consecutive request numbers *)
Fixpoint spec_deletes (q : N) (script : list revent) (n : nat) : option (option Z) :=
  (* None = no requirement; Some None = all acknowledged with 0; Some (Some e) = first failing errno; foreign -> no requirement on the kind of error *)
  match n with
  | O => Some None
  | S k => match spec_ack q script with
           | VAck e rest => if Z.eqb e 0 then spec_deletes (q + 1) rest k else Some (Some e)
           | _ => None
           end
  end.

(* ---------- per-call checks; q = number the transport gave to the call's first request ---------- *)
Definition fault_at (faults : list (option Z)) (i : nat) : bool := match nth_error faults i with Some (Some _) => true | _ => false end.

(* outside the fault model (a receive that fails for good, silence, a tenth transient failure, a malformed ACK) the property
   still forbids one thing: success without acknowledgement.  When no message anywhere in the script acknowledges request q
   with errno 0, the call must fail. *)
Definition acked0_somewhere (q : N) (script : list revent) : bool :=
  existsb (fun ev => match ev with
                     | RMsg ty sq d => (sq =? q) && (ty =? UAPI_NLMSG_ERROR) && (4 <=? length d)%nat && (uword_at d 0 =? 0)
                     | _ => false end) script.
Definition unacked_must_fail (q : N) (script : list revent) (r : cres) : bool := acked0_somewhere q script || is_fail r.

Definition chk_c08_call (o : cop) (q : N) (script : list revent) (r : cres) : bool :=
  match o with
  | OSet _ _ true | ODeleteRule _ =>
      match spec_ack q script with VAck e _ => res_for_errno false e r | VForeign => is_fail r | VOut => unacked_must_fail q script r end
  | OAddRule _ =>
      match spec_ack q script with VAck e _ => res_for_errno true e r | VForeign => is_fail r | VOut => unacked_must_fail q script r end
  | OGetStatus =>
      match spec_ack q script with
      | VAck e rest =>
          if Z.eqb e 0 then
            match spec_next q rest 0 with
            | SMsg ty d _ => if (ty =? UAPI_AUDIT_GET) && (32 <=? N.of_nat (length d)) then cres_eqb r (RStatus (uapi_read_status d)) else true
            | SForeign => is_fail r
            | SOut => true
            end
          else cres_eqb r (RFail (EErrno e))
      | VForeign => is_fail r
      | VOut => unacked_must_fail q script r
      end
  | OGetRules =>
      match spec_ack q script with
      | VAck e rest =>
          if Z.eqb e 0 then
            match spec_rules (S (length rest)) q rest [] with
            | Some (Some (rules, _)) => cres_eqb r (RRules rules)
            | Some None => is_fail r
            | None => true
            end
          else cres_eqb r (RFail (EErrno e))
      | VForeign => is_fail r
      | VOut => unacked_must_fail q script r
      end
  | ODeleteRules =>
      match spec_ack q script with
      | VAck e rest =>
          if Z.eqb e 0 then
            match spec_rules (S (length rest)) q rest [] with
            | Some (Some (rules, rest')) =>
                match spec_deletes (q + 1) rest' (length rules) with
                | Some None => cres_eqb r (RCount (N.of_nat (length rules)))
                | Some (Some e') => cres_eqb r (RFail (EErrno e'))
                | None => true
                end
            | Some None => is_fail r
            | None => true
            end
          else cres_eqb r (RFail (EErrno e))
      | VForeign => is_fail r
      | VOut => unacked_must_fail q script r
      end
  | _ => true
  end.

(* ---------- C16: what goes on the wire, per the UAPI ---------- *)
Definition uapi_setter_status (k : setter) (v : N) : ustatus :=
  let x := v mod 4294967296 in
  match k with
  | SRateLimit => {| u_mask := UAPI_AUDIT_STATUS_RATE_LIMIT; u_enabled := 0; u_failure := 0; u_pid := 0; u_rate_limit := x; u_backlog_limit := 0; u_lost := 0; u_backlog := 0; u_feature_bitmap := 0; u_backlog_wait_time := 0; u_backlog_wait_time_actual := 0 |}
  | SBacklogLimit => {| u_mask := UAPI_AUDIT_STATUS_BACKLOG_LIMIT; u_enabled := 0; u_failure := 0; u_pid := 0; u_rate_limit := 0; u_backlog_limit := x; u_lost := 0; u_backlog := 0; u_feature_bitmap := 0; u_backlog_wait_time := 0; u_backlog_wait_time_actual := 0 |}
  | SEnabled => {| u_mask := UAPI_AUDIT_STATUS_ENABLED; u_enabled := (if v =? 0 then 0 else 1); u_failure := 0; u_pid := 0; u_rate_limit := 0; u_backlog_limit := 0; u_lost := 0; u_backlog := 0; u_feature_bitmap := 0; u_backlog_wait_time := 0; u_backlog_wait_time_actual := 0 |}
  | SImmutable => {| u_mask := UAPI_AUDIT_STATUS_ENABLED; u_enabled := 2; u_failure := 0; u_pid := 0; u_rate_limit := 0; u_backlog_limit := 0; u_lost := 0; u_backlog := 0; u_feature_bitmap := 0; u_backlog_wait_time := 0; u_backlog_wait_time_actual := 0 |}
  | SFailure => {| u_mask := UAPI_AUDIT_STATUS_FAILURE; u_enabled := 0; u_failure := x; u_pid := 0; u_rate_limit := 0; u_backlog_limit := 0; u_lost := 0; u_backlog := 0; u_feature_bitmap := 0; u_backlog_wait_time := 0; u_backlog_wait_time_actual := 0 |}
  | SBacklogWaitTime => {| u_mask := UAPI_AUDIT_STATUS_BACKLOG_WAIT_TIME; u_enabled := 0; u_failure := 0; u_pid := 0; u_rate_limit := 0; u_backlog_limit := 0; u_lost := 0; u_backlog := 0; u_feature_bitmap := 0; u_backlog_wait_time := x; u_backlog_wait_time_actual := 0 |}
  | SPID => {| u_mask := UAPI_AUDIT_STATUS_PID; u_enabled := 0; u_failure := 0; u_pid := x; u_rate_limit := 0; u_backlog_limit := 0; u_lost := 0; u_backlog := 0; u_feature_bitmap := 0; u_backlog_wait_time := 0; u_backlog_wait_time_actual := 0 |}
  end.
Definition UAPI_REQ_ACK : N := 5.
Definition chk_c16_call (o : cop) (q : N) (script : list revent) (r : cres) (ws : list wire) : bool :=
  match o with
  | OSet k v _ => wires_eqb ws [(UAPI_AUDIT_SET, UAPI_REQ_ACK, ustatus_bytes (uapi_setter_status k v))]
  | OGetStatus =>
      wires_eqb ws [(UAPI_AUDIT_GET, UAPI_REQ_ACK, [])] &&
      match r with
      | RStatus got =>
          (* whatever was returned must be what some status reply for this request laid out *)
          match spec_ack q script with
          | VAck _ rest => match spec_next q rest 0 with
                           | SMsg _ d _ => (32 <=? N.of_nat (length d)) && listN_eqb got (uapi_read_status d)
                           | _ => true end
          | _ => true
          end
      | RFail EEOF => true
      | _ => match spec_ack q script with
             | VAck e rest => if Z.eqb e 0 then
                                match spec_next q rest 0 with
                                | SMsg ty d _ => if (ty =? UAPI_AUDIT_GET) && (N.of_nat (length d) <? 32) then false else true
                                | _ => true end
                              else true
             | _ => true end
      end
  | _ => true
  end.

(* ---------- C17: ACK bookkeeping, Close once, rule snapshots ---------- *)
Record k17 := { kp : list N;            (* NoWait requests whose ACK has not been consumed *)
                kpid : bool;            (* SetPID was called *)
                kclosed : bool;
                ktrack : bool }.        (* false once the script left the fault model inside a WaitForPendingACKs *)

(* WaitForPendingACKs per the property: consume the ACK of each pending request, in
   order; stop at the first kernel error (that ACK is consumed) *)
Fixpoint spec_wait (script : list revent) (todo : list N) : option (cres * list N * list revent) :=
  match todo with
  | [] => Some (ROk, [], script)
  | q :: rest =>
      match spec_ack q script with
      | VAck e r => if Z.eqb e 0 then spec_wait r rest else Some (RFail (EErrno e), rest, r)
      | VForeign => None
      | VOut => None
      end
  end.

(* a WaitForPendingACKs that met something outside the fault model (a receive failure, a reply to another request,
   nothing at all) still owes the property its bookkeeping: a request leaves the pending list exactly when a message
   carrying its number was delivered to this call.  [used] is what the call took from the script (observed). *)
Fixpoint after_wait (used : list revent) (todo : list N) {struct used} : list N :=
  match todo with
  | [] => []
  | q :: rest =>
      match used with
      | [] => todo
      | RErr _ :: u => after_wait u todo
      | RNone :: _ => todo
      | RMsg ty sq d :: u =>
          if (sq =? 0) && negb (q =? 0) then after_wait u todo
          else if sq =? q then
            (if ty =? UAPI_NLMSG_ERROR then
               match d with
               | a :: b :: c :: e :: _ => if Z.eqb (s32u (uword_at d 0)) 0 then after_wait u rest else rest
               | _ => rest
               end
             else rest)
          else todo
      end
  end.

Definition chk_c17_call (st : k17) (o : cop) (q : N) (faulted : bool) (script : list revent) (r : cres) (ws : list wire) (cl : bool) (consumed : N)
  : k17 * bool :=
  match o with
  | OSet k _ wait =>
      let st1 := {| kp := if negb wait && negb faulted then kp st ++ [q] else kp st; kpid := match k with SPID => true | _ => kpid st end;
                    kclosed := kclosed st; ktrack := ktrack st |} in
      (st1, (if wait then true else (if faulted then true else cres_eqb r ROk) && (consumed =? 0)) && negb cl)
  | OWaitAcks =>
      if ktrack st then
        match spec_wait script (kp st) with
        | Some (er, remaining, rest) =>
            ({| kp := remaining; kpid := kpid st; kclosed := kclosed st; ktrack := true |},
             cres_eqb r er && (consumed =? N.of_nat (length script - length rest)) && negb cl && match ws with [] => true | _ => false end)
        | None => ({| kp := after_wait (firstn (N.to_nat consumed) script) (kp st); kpid := kpid st; kclosed := kclosed st; ktrack := true |},
                   negb cl && match ws with [] => true | _ => false end)
        end
      else (st, negb cl)
  | OClose =>
      if kclosed st then (st, cres_eqb r ROk && negb cl && match ws with [] => true | _ => false end && (consumed =? 0))
      else ({| kp := if kpid st && negb faulted then kp st ++ [q] else kp st; kpid := kpid st; kclosed := true; ktrack := ktrack st |},
            cl && (consumed =? 0) &&
            (if kpid st then wires_eqb ws [(UAPI_AUDIT_SET, UAPI_REQ_ACK, ustatus_bytes (uapi_setter_status SPID 0))] && (if faulted then is_fail r else cres_eqb r ROk)
             else match ws with [] => cres_eqb r ROk | _ => false end))
  | OGetRules =>
      (* the rules handed out are the kernel's payloads, also after later traffic reused the receive buffer *)
      (st, negb cl && if faulted then true else
                      match spec_ack q script with
                      | VAck e rest => if Z.eqb e 0 then match spec_rules (S (length rest)) q rest [] with
                                                         | Some (Some (rules, _)) => cres_eqb r (RRules rules) | _ => true end else true
                      | _ => true end)
  | _ => (st, negb cl)
  end.

(* ---------- walking a recorded history ---------- *)
Definition sends_of (o4 : outcome4) : nat := let '(_, ws, _, _) := o4 in length ws.

Fixpoint walk_client (st : k17) (script : list revent) (faults : list (option Z)) (nsent : nat) (ops : list cop) (obs : list outcome4)
  : bool * bool * bool :=
  match ops, obs with
  | [], [] => (true, true, true)
  | o :: ops', (r, ws, cl, consumed) :: obs' =>
      let q := N.of_nat (S nsent) in
      let faulted := fault_at faults nsent in
      (* C08 speaks about requests the kernel received: a call any of whose sends failed (DeleteRules has several) is left out *)
      let faulted_any := existsb (fun i => fault_at faults (nsent + i)) (seq 0 (length ws)) in
      let c08 := if faulted || faulted_any then true else chk_c08_call o q script r in
      let c16 := if faulted then (match o with OSet _ _ _ => chk_c16_call o q script r ws | _ => true end) else chk_c16_call o q script r ws in
      let '(st', c17) := chk_c17_call st o q faulted script r ws cl consumed in
      let '(a, b, c) := walk_client st' (skipn (N.to_nat consumed) script) faults (nsent + length ws) ops' obs' in
      (c08 && a, c16 && b, c17 && c)
  | _, _ => (false, false, false)
  end.

Inductive kcase :=
| KCase (pid : N) (script : list revent) (faults : list (option Z)) (ops : list cop) (obs : list outcome4)
| KStorm (used_pid : bool) (closes sends : N)                       (* N goroutines calling Close at once *)
| KWire (buf : str) (res : option (list N))                         (* AuditStatus.FromWireFormat on an arbitrary buffer *)
| KConsts (silent log panic : N).                                   (* the exported failure-mode constants *)

Definition subst_pid (pid : N) (o : cop) : cop := match o with OSet SPID _ w => OSet SPID pid w | x => x end.

Definition k0 : k17 := {| kp := []; kpid := false; kclosed := false; ktrack := true |}.
Definition optl_eqb (a b : option (list N)) : bool :=
  match a, b with Some x, Some y => listN_eqb x y | None, None => true | _, _ => false end.

(* which : 0 = C08, 1 = C16, 2 = C17 *)
Definition judge_client (which : N) (c : kcase) : N :=
  match c with
  | KCase pid script faults ops obs =>
      let ops' := map (subst_pid pid) ops in
      let '(c08, c16, c17) := walk_client k0 script faults 0 ops' obs in
      let ok := match which with 0 => c08 | 1 => c16 | _ => c17 end in
      if negb ok then 2
      else if outcomes_eqb (crun cinit {| rscript := script; sfaults := faults |} ops') obs then 0 else 1
  | KStorm used closes sends =>
      if which =? 2 then (if (closes =? 1) && (sends =? (if used then 2 else 0)) then 0 else 2) else 0
  | KWire buf res =>
      if which =? 1 then
        let expect := if N.of_nat (length buf) <? UAPI_MIN_AUDIT_STATUS then None else Some (uapi_read_status buf) in
        if negb (optl_eqb res expect) then 2 else if optl_eqb (status_from_wire buf) res then 0 else 1
      else 0
  | KConsts a b c =>
      if which =? 1 then
        if (a =? UAPI_AUDIT_FAIL_SILENT) && (b =? UAPI_AUDIT_FAIL_PRINTK) && (c =? UAPI_AUDIT_FAIL_PANIC) then 0
        else if (a =? 0) && (b =? 0) && (c =? 0) then 100      (* known finding: all three constants are 0 *)
        else 2
      else 0
  end.
Definition judge_c08 := judge_client 0.
Definition judge_c16 := judge_client 1.
Definition judge_c17 := judge_client 2.
