(* Proofs/RuleWire.v — the sequential reader of the model (fromWireFormat) and the
   fixed-offset UAPI reader agree on every buffer; toWireFormat followed by either
   reader gives back the header that was written. *)
From Coq Require Import List Ascii Arith NArith ZArith Bool Lia ZifyBool ZifyN ZifyNat.
Import ListNotations.
Require Import Mach RuleDecode RuleEncode Uapi UapiRule.
Open Scope N_scope.
Local Arguments N.mul : simpl never.
Local Arguments N.add : simpl never.

Lemma byte_at_skipn : forall k b i, byte_at (skipn k b) i = byte_at b (k + i).
Proof.
  unfold byte_at. induction k as [|k IH]; intros b i; cbn [skipn plus]; auto.
  destruct b as [|x b]; cbn [nth_error]; auto. destruct i; reflexivity.
Qed.
Lemma uword_at_skipn k b i : uword_at (skipn (4 * k) b) i = uword_at b (k + i).
Proof.
  unfold uword_at. rewrite !byte_at_skipn.
  replace (4 * k + 4 * i)%nat with (4 * (k + i))%nat by lia.
  replace (4 * k + (4 * i + 1))%nat with (4 * (k + i) + 1)%nat by lia.
  replace (4 * k + (4 * i + 2))%nat with (4 * (k + i) + 2)%nat by lia.
  replace (4 * k + (4 * i + 3))%nat with (4 * (k + i) + 3)%nat by lia.
  reflexivity.
Qed.

Lemma rd32_uword s w r : rd32 s = Some (w, r) -> w = uword_at s 0 /\ r = skipn 4 s.
Proof.
  unfold rd32. destruct s as [|a [|b [|c [|d s']]]]; try discriminate.
  intros H. inversion H; subst. split; [|reflexivity].
  unfold uword_at, byte_at. cbn [nth_error Nat.mul Nat.add]. lia.
Qed.

Lemma bytes_to_words_uword : forall n s ws rest, bytes_to_words n s = Some (ws, rest) ->
  forall i, (i < n)%nat -> nth i ws 0 = uword_at s i.
Proof.
  induction n as [|n IH]; intros s ws rest H i Hi; [lia|].
  cbn [bytes_to_words] in H. destruct (rd32 s) as [[w r]|] eqn:E; [|discriminate].
  destruct (bytes_to_words n r) as [[ws' rest']|] eqn:E2; [|discriminate]. inversion H; subst.
  destruct (rd32_uword _ _ _ E) as [Hw Hr]. destruct i as [|i]; cbn [nth]; auto.
  rewrite (IH _ _ _ E2 i) by lia. subst r. change 4%nat with (4 * 1)%nat. rewrite uword_at_skipn. reflexivity.
Qed.

Lemma firstn_skipn_cons : forall off (ws : list N) len, (off < length ws)%nat ->
  firstn (S len) (skipn off ws) = nth off ws 0 :: firstn len (skipn (S off) ws).
Proof.
  induction off as [|off IH]; intros ws len H; destruct ws as [|x ws]; cbn [length] in H; try lia.
  - reflexivity.
  - cbn [skipn nth]. apply IH. lia.
Qed.
Lemma seg_as_map : forall len off ws, (off + len <= length ws)%nat -> seg off len ws = map (fun i => nth (off + i) ws 0) (seq 0 len).
Proof.
  unfold seg. induction len as [|len IH]; intros off ws H; [reflexivity|].
  rewrite firstn_skipn_cons by lia. cbn [seq map]. rewrite Nat.add_0_r. f_equal.
  rewrite IH by lia. rewrite <- seq_shift, map_map. apply map_ext. intros i. f_equal. lia.
Qed.

(* on every buffer the two readers see the same header *)
Theorem readers_agree b h buf : from_wire b = Ok (h, buf) ->
  exists u, uapi_rule_decode b = Some u /\
    ur_flags u = flags h /\ ur_action u = action h /\ ur_field_count u = fcount h /\ ur_mask u = mask h /\
    ur_fields u = fields h /\ ur_values u = values h /\ ur_fieldflags u = fflags h /\ ur_buflen u = buflen h /\
    buf = firstn (N.to_nat (buflen h)) (ur_buf u).
Proof.
  unfold from_wire, uapi_rule_decode. destruct (length b <? 1040)%nat eqn:El; [discriminate|].
  destruct (bytes_to_words 260 b) as [[ws rest]|] eqn:Eb; [|discriminate].
  destruct (bytes_to_words_sound _ _ _ _ Eb) as (Hl & _ & Hs).
  pose proof (bytes_to_words_uword _ _ _ _ Eb) as HU.
  cbn [buflen]. destruct (N.of_nat (length rest) <? wd 259 ws); [discriminate|].
  intros H. inversion H; subst h buf. eexists. split; [reflexivity|]. cbn [ur_flags ur_action ur_field_count ur_mask ur_fields ur_values ur_fieldflags ur_buflen ur_buf flags action fcount mask fields values fflags buflen].
  unfold wd. rewrite !HU by lia.
  assert (SK: skipn 1040 b = rest).
  { rewrite Hs. rewrite skipn_app. rewrite skipn_all2 by (rewrite length_words_to_bytes; lia). rewrite length_words_to_bytes, Hl. cbn [app]. reflexivity. }
  repeat split; try reflexivity.
  - rewrite seg_as_map by lia. unfold words_at. apply map_ext_in. intros i Hi. apply in_seq in Hi. change 12%nat with (4 * 3)%nat. rewrite uword_at_skipn. symmetry. apply HU. lia.
  - rewrite seg_as_map by lia. unfold words_at. apply map_ext_in. intros i Hi. apply in_seq in Hi. change 268%nat with (4 * 67)%nat. rewrite uword_at_skipn. symmetry. apply HU. lia.
  - rewrite seg_as_map by lia. unfold words_at. apply map_ext_in. intros i Hi. apply in_seq in Hi. change 524%nat with (4 * 131)%nat. rewrite uword_at_skipn. symmetry. apply HU. lia.
  - rewrite seg_as_map by lia. unfold words_at. apply map_ext_in. intros i Hi. apply in_seq in Hi. change 780%nat with (4 * 195)%nat. rewrite uword_at_skipn. symmetry. apply HU. lia.
  - rewrite SK. reflexivity.
Qed.

(* ---- toWireFormat then fromWireFormat ---- *)
Definition wf_data (d : wiredata) : Prop :=
  (length (w_triples d) <= 64)%nat /\ length (w_mask d) = 64%nat /\ w_flags d < 2^32 /\ w_action d < 2^32 /\
  Forall (fun w => w < 2^32) (w_mask d) /\ Forall (fun t => fst (fst t) < 2^32 /\ snd (fst t) < 2^32 /\ snd t < 2^32) (w_triples d) /\
  N.of_nat (length (concat (w_strings d))) < 2^32.

Lemma pad64_length l : length (pad64 l) = 64%nat.
Proof. unfold pad64. rewrite firstn_length, app_length, repeat_length. lia. Qed.
Lemma Forall_firstn_ {A} (P : A -> Prop) : forall n l, Forall P l -> Forall P (firstn n l).
Proof. induction n as [|n IH]; intros l H; cbn; [constructor|]. destruct l; [constructor|]. inversion H; subst. constructor; auto. Qed.
Lemma pad64_bound l : Forall (fun w => w < 2^32) l -> Forall (fun w => w < 2^32) (pad64 l).
Proof.
  intros H. unfold pad64. apply Forall_firstn_. apply Forall_app. split; auto.
  apply Forall_forall. intros x Hx. apply repeat_spec in Hx. subst. change (2^32) with 4294967296. lia.
Qed.

Lemma seg_mid (pre x post : list N) n m : n = length pre -> m = length x -> seg n m (pre ++ x ++ post) = x.
Proof.
  intros -> ->. unfold seg. rewrite skipn_app, skipn_all, Nat.sub_diag. cbn [skipn app].
  rewrite firstn_app, firstn_all, Nat.sub_diag. cbn [firstn]. apply app_nil_r.
Qed.

Definition hdr_words (d : wiredata) : list N :=
  [w_flags d; w_action d; N.of_nat (length (w_triples d))] ++ w_mask d
  ++ pad64 (map (fun t => fst (fst t)) (w_triples d)) ++ pad64 (map snd (w_triples d)) ++ pad64 (map (fun t => snd (fst t)) (w_triples d))
  ++ [N.of_nat (length (concat (w_strings d)))].

Lemma hdr_words_length d : length (w_mask d) = 64%nat -> length (hdr_words d) = 260%nat.
Proof. intros H. unfold hdr_words. rewrite !app_length, !pad64_length, H. reflexivity. Qed.

Theorem from_wire_to_wire d : wf_data d ->
  from_wire (to_wire d) =
    Ok ({| flags := w_flags d; action := w_action d; fcount := N.of_nat (length (w_triples d)); mask := w_mask d;
           fields := pad64 (map (fun t => fst (fst t)) (w_triples d)); values := pad64 (map snd (w_triples d));
           fflags := pad64 (map (fun t => snd (fst t)) (w_triples d)); buflen := N.of_nat (length (concat (w_strings d))) |},
        concat (w_strings d)).
Proof.
  intros (Hc & Hm & Hf & Ha & HM & HT & HB). unfold to_wire. fold (hdr_words d).
  set (buf := concat (w_strings d)) in *. set (pad := repeat (ascii_of_N 0) _).
  unfold from_wire. rewrite !app_length, length_words_to_bytes, hdr_words_length by auto.
  replace (4 * 260 + (length buf + length pad) <? 1040)%nat with false by lia.
  assert (HP: forall (f : N * N * N -> N), (forall t, In t (w_triples d) -> f t < 2^32) -> Forall (fun w => w < 2^32) (pad64 (map f (w_triples d)))).
  { intros f Hf'. apply pad64_bound. apply Forall_forall. intros x Hx. apply in_map_iff in Hx. destruct Hx as (t & <- & Ht). auto. }
  rewrite Forall_forall in HT.
  assert (HW: Forall (fun w => w < 2^32) (hdr_words d)).
  { unfold hdr_words. apply Forall_app. split.
    { repeat constructor; auto. change (2^32) with 4294967296 in *. lia. }
    apply Forall_app. split; [exact HM|].
    apply Forall_app. split; [apply HP; intros t Ht; apply HT; auto|].
    apply Forall_app. split; [apply HP; intros t Ht; apply HT; auto|].
    apply Forall_app. split; [apply HP; intros t Ht; apply HT; auto|].
    repeat constructor. exact HB. }
  rewrite <- (hdr_words_length d Hm) at 1. rewrite bytes_to_words_roundtrip by auto.
  assert (W: forall i, wd i (hdr_words d) = nth i (hdr_words d) 0) by reflexivity.
  assert (L259: wd 259 (hdr_words d) = N.of_nat (length buf)).
  { unfold wd, hdr_words. rewrite app_nth2 by (cbn [length]; lia). cbn [length]. rewrite app_nth2 by lia. rewrite Hm.
    rewrite app_nth2 by (rewrite pad64_length; lia). rewrite pad64_length. rewrite app_nth2 by (rewrite pad64_length; lia). rewrite pad64_length.
    rewrite app_nth2 by (rewrite pad64_length; lia). rewrite pad64_length. reflexivity. }
  cbn [buflen]. rewrite L259. rewrite app_length.
  replace (N.of_nat (length buf + length pad) <? N.of_nat (length buf)) with false by lia.
  f_equal. f_equal.
  - set (F := pad64 (map (fun t => fst (fst t)) (w_triples d))). set (V := pad64 (map snd (w_triples d))).
    set (O := pad64 (map (fun t => snd (fst t)) (w_triples d))). set (BL := [N.of_nat (length buf)]).
    set (H3 := [w_flags d; w_action d; N.of_nat (length (w_triples d))]).
    assert (LF: length F = 64%nat) by apply pad64_length. assert (LV: length V = 64%nat) by apply pad64_length. assert (LO: length O = 64%nat) by apply pad64_length.
    assert (E: hdr_words d = H3 ++ w_mask d ++ F ++ V ++ O ++ BL) by reflexivity.
    f_equal; try reflexivity.
    + rewrite E. apply seg_mid; [reflexivity | auto].
    + rewrite E. replace (H3 ++ w_mask d ++ F ++ V ++ O ++ BL) with ((H3 ++ w_mask d) ++ F ++ (V ++ O ++ BL)) by (rewrite <- !app_assoc; reflexivity).
      apply seg_mid; [rewrite app_length, Hm; reflexivity | auto].
    + rewrite E. replace (H3 ++ w_mask d ++ F ++ V ++ O ++ BL) with ((H3 ++ w_mask d ++ F) ++ V ++ (O ++ BL)) by (rewrite <- !app_assoc; reflexivity).
      apply seg_mid; [rewrite !app_length, Hm, LF; reflexivity | auto].
    + rewrite E. replace (H3 ++ w_mask d ++ F ++ V ++ O ++ BL) with ((H3 ++ w_mask d ++ F ++ V) ++ O ++ BL) by (rewrite <- !app_assoc; reflexivity).
      apply seg_mid; [rewrite !app_length, Hm, LF, LV; reflexivity | auto].
  - rewrite Nat2N.id. rewrite firstn_app. rewrite firstn_all. replace (length buf - length buf)%nat with 0%nat by lia. cbn [firstn]. apply app_nil_r.
Qed.
