(* Proofs/RuleWatchBack.v — C07 on the model, -w form: a built rule that ToCommandLine prints as
   "-w path -p perms [-k key]" is parsed as a file watch and built again into the same data. *)
From Coq Require Import List Ascii String Arith NArith ZArith Bool Lia.
Import ListNotations.
Require Import Bytes Dec Mach RuleTables Arch RuleDecode Mask RuleEncode RuleText RuleValue KV Trim FilterRe Flags RuleBuild.
Require Import FlagsProofs RuleWire RuleSpecWf RuleReprint RuleFlagsBack RuleFieldsBack RuleLastArch RuleMaskText RuleSyscallText RuleRoundTrip RuleDecodeBack RuleValueProofs TablesLift.
Local Open Scope string_scope.
Local Open Scope list_scope.
Open Scope N_scope.

(* ---------- what a built perm / path / key triple is ---------- *)
Lemma perm_code : lookupS (s2l "perm") fields_table = Some 106 /\ lookupN 106 reverse_fields_table = Some "perm" /\
                  lookupN 105 reverse_fields_table = Some "path" /\ lookupN 107 reverse_fields_table = Some "dir" /\ lookupN 210 reverse_fields_table = Some "key" /\
                  lookupS (s2l "path") fields_table = Some 105 /\ lookupS (s2l "dir") fields_table = Some 107.
Proof. repeat split; by_vm. Qed.

Inductive elem_fact lst : trip -> Prop :=
| ef_perm o v : 1 <= v < 16 -> elem_fact lst ((106, o, v), [])
| ef_str f o sv : is_string_field f = true ->
    (f = 210 -> N.of_nat (List.length sv) <= 256 /\ streq lst "exclude" = false) -> (f <> 210 -> N.of_nat (List.length sv) <= 4096) -> clean sv = true ->
    elem_fact lst ((f, o, N.of_nat (List.length sv)), [sv])
| ef_other f o v ss : f <> 106 -> is_string_field f = false -> elem_fact lst ((f, o, v), ss).

Lemma built_elem_facts lst : forall fs l, built lst fs l -> Forall (elem_fact lst) l.
Proof.
  induction 1 as [|f it t ss fs l H1 H2 H3 H4 IH]; constructor; auto.
  destruct f as [[[cmp lhs] o] rhs]. unfold item_of_filter in H1. destruct cmp.
  - injection H1 as <-. destruct (triple_cmp_inv _ _ _ _ _ _ H2) as (oc & a & b & tb & c & _ & _ & _ & _ & _ & _ & -> & ->).
    apply ef_other; [discriminate|reflexivity].
  - destruct (H3 eq_refl) as [Hor Hcl]. destruct (lookupS lhs fields_table) as [fc|] eqn:Ef; [|discriminate]. destruct (is_string_field fc) eqn:Es.
    + injection H1 as <-. destruct (triple_str_inv _ _ _ _ _ _ H2) as (fc' & oc & _ & Hf2 & _ & -> & -> & Hlen).
      rewrite s2l_sos, Ef in Hf2. injection Hf2 as <-.
      assert (Ef': lookupS (s2l (sos lhs)) fields_table = Some fc) by (rewrite s2l_sos; exact Ef).
      destruct (field_name_facts _ _ Ef') as (Hrf & _). destruct perm_code as (_ & _ & _ & _ & Hk & _).
      apply ef_str; auto.
      * intros ->. rewrite Hk in Hrf. injection Hrf as Hrf. rewrite <- Hrf in Hlen. cbn [streq String.eqb Ascii.eqb Bool.eqb andb] in Hlen.
        split. { destruct limits as [L1 _]. rewrite L1 in Hlen. lia. }
        unfold triple_of_item, add_item in H2. rewrite <- Hrf in H2.
        destruct (lookupS (s2l "=") operators_table); [|destruct (lookupS (s2l (sos o)) operators_table); discriminate || idtac].
        all: destruct (lookupS (s2l (sos o)) operators_table); try discriminate.
        all: destruct (lookupS (s2l "key") fields_table); try discriminate.
        all: destruct (streq lst "exclude"); [cbn in H2; discriminate|reflexivity].
      * intros Hne. assert (Hnk: streq (sos lhs) "key" = false).
        { destruct (streq (sos lhs) "key") eqn:E; auto. unfold streq in E. apply String.eqb_eq in E. rewrite E in Ef'.
          destruct key_facts as (Hkk & _). rewrite Hkk in Ef'. injection Ef' as <-. contradiction. }
        rewrite Hnk in Hlen. destruct limits as [_ L2]. rewrite L2 in Hlen. lia.
    + destruct (parse_value fc rhs) as [n| |] eqn:Epv; try discriminate. injection H1 as <-.
      destruct (triple_num_inv _ _ _ _ _ _ H2) as (fc' & oc & _ & Hf2 & _ & -> & -> & _ & _).
      rewrite s2l_sos, Ef in Hf2. injection Hf2 as <-.
      destruct (N.eq_dec fc 106) as [->|Hne].
      * unfold parse_value in Epv. cbn in Epv. destruct rhs as [|r0 rr]; [discriminate|].
        destruct (parse_perm_range _ _ _ Epv) as (Hlt & _ & Hge); [lia|]. assert (1 <= n) by (apply Hge; [discriminate|reflexivity]).
        rewrite N.mod_small by (change (2^32) with 4294967296; lia). apply ef_perm. lia.
      * apply ef_other; auto.
Qed.

Definition perm_watch_okb (v : N) : bool :=
  (v =? 0) || (forallb is_perm (perm_string v) && negb (List.length (perm_string v) =? 0)%nat && (perm_bits (perm_string v) =? v)).
Lemma perm_watch_ok : filter (fun v => negb (perm_watch_okb v)) (upto 16) = []. Proof. by_vm. Qed.
Lemma perm_watch_facts v : 1 <= v < 16 -> forallb is_perm (perm_string v) = true /\ perm_string v <> [] /\ perm_bits (perm_string v) = v /\ clean (perm_string v) = true.
Proof.
  intros Hv. assert (Hin: In v (upto 16)) by (apply In_upto; lia).
  pose proof (filter_nil_forall _ _ perm_watch_ok _ Hin) as H. unfold perm_watch_okb in H. apply orb_prop in H. destruct H as [H|H]; [lia|].
  apply andb_prop in H. destruct H as [H H3]. apply andb_prop in H. destruct H as [H1 H2].
  pose proof (filter_nil_forall _ _ perm_texts_ok _ Hin) as Hc. unfold perm_text_okb in Hc. apply orb_prop in Hc. destruct Hc as [Hc|Hc]; [lia|].
  unfold value_text_ok in Hc. apply andb_prop in Hc. destruct Hc as [Hc _].
  repeat split; auto. intros E. rewrite E in H2. discriminate. apply N.eqb_eq; exact H3.
Qed.

Lemma split_comma_one k : forallb (fun x => negb (Ascii.eqb x ","%char)) k = true -> split_comma k = [k].
Proof. intros H. unfold split_comma. rewrite split_on_nocomma by exact H. reflexivity. Qed.

(* the filesystem agrees with the rule: path= names something that is not a directory, dir= a directory *)
Definition fs_agrees (stat : str -> bool) (d : wiredata) : Prop :=
  match w_triples d, w_strings d with
  | (f0, _, _) :: _, p :: _ => stat p = (f0 =? 107)
  | _, _ => True
  end.
Definition key_trim_stable (d : wiredata) : Prop := forall k, nth_error (w_strings d) 1 = Some k -> trim_space k = k.

Theorem watch_form_round_trip (stat : str -> bool) li ac fs scs keys s d its :
  spec_of_prule li ac fs scs keys = Some s -> data_of_spec s = Some d ->
  Forall filter_ok fs -> keys_ok keys -> not_finding_103 d ->
  watch_items (w_flags d) (w_action d) (w_mask d) (w_triples d) (w_strings d) = Some its ->
  fs_agrees stat d -> key_trim_stable d ->
  Forall tok_ok its /\ flags_only its /\ exists p', flags_parse (flat_map render_item its) = Some p' /\ build_prule stat p' = Some d.
Proof.
  intros Hspec Hdata Hfok Hkeys H103 Hw Hfs Htrim.
  destruct (built_of_data _ _ _ _ _ _ _ Hspec Hdata Hfok Hkeys) as (fsK & lK & HbK & Hts & Hss).
  pose proof (built_elem_facts _ _ _ HbK) as Hfacts.
  destruct (data_inv _ _ Hdata) as (lc & acode & acc & m & Hlc & Hac & _ & _ & _ & Hlen & Hd).
  destruct d as [fl act msk ts ss]. cbn [w_flags w_action w_mask w_triples w_strings] in *. injection Hd as -> -> ->. clear acc.
  unfold watch_items in Hw. destruct (last_index 106 ts 0 None) as [pidx|] eqn:Epi; [|discriminate].
  destruct (all_syscalls m) eqn:Eall; [|discriminate]. cbn [andb] in Hw.
  destruct (is_watch lc acode {| r_fields := ts; r_strings := ss |}) eqn:Ew; [|discriminate].
  pose proof (H103 Eall) as Em. cbn [w_mask] in Em. subst m.
  unfold is_watch in Ew. cbn [r_fields r_strings] in Ew. apply andb_prop in Ew. destruct Ew as [Ew0 Ew]. apply andb_prop in Ew0. destruct Ew0 as [Efl Eact].
  apply N.eqb_eq in Efl, Eact. subst lc acode.
  destruct perm_code as (Hpc & Hr106 & Hr105 & Hr107 & Hr210 & Hpath & Hdir). destruct key_facts as (Hkc & Heq & _).
  (* shape of the field list *)
  destruct ts as [|[[f0 o0] v0] [|[[f1 o1] v1] [|[[f2 o2] v2] [|]]]]; try discriminate.
  - (* path, perm *)
    repeat (apply andb_prop in Ew; destruct Ew as [Ew ?]).
    repeat match goal with H : (_ =? _) = true |- _ => apply N.eqb_eq in H end. subst o0 o1 f1.
    destruct lK as [|[t0 s0] [|[t1 s1] [|]]]; try discriminate. cbn [map fst] in Hts. injection Hts as <- <-. cbn [flat_map snd app] in Hss. rewrite app_nil_r in Hss.
    inversion Hfacts as [|? ? F0 Fr]; subst. inversion Fr as [|? ? F1 _]; subst.
    assert (Hf0s: is_string_field f0 = true) by (match goal with H : (f0 =? 105) || (f0 =? 107) = true |- _ => apply orb_prop in H; destruct H as [H|H]; apply N.eqb_eq in H; subst f0; reflexivity end).
    inversion F0 as [| f o sv Hsf Hk210 Hn210 Hcl |f o v ss' Hn Hsfn]; subst; [discriminate| |congruence].
    inversion F1 as [o v Hrange|f o sv1 Hsf1 _ _ _ |f o v ss' Hn Hsfn1]; subst; [|discriminate Hsf1|congruence]. cbn [app] in *.
    cbn [nth nth_error] in *. injection Hw as <-.
    assert (pidx = 1%nat). { cbn [last_index] in Epi. match goal with H : (f0 =? 105) || (f0 =? 107) = true |- _ => apply orb_prop in H; destruct H as [H|H]; apply N.eqb_eq in H; subst f0 end; cbn in Epi; congruence. }
    subst pidx. cbn [nth_error].
    destruct (perm_watch_facts _ Hrange) as (Hperm & Hpne & Hbits & Hpcl).
    match goal with H : clean_abs_path sv = true |- _ => unfold clean_abs_path in H; apply andb_prop in H; destruct H as [Habs Hcln]; apply str_eqb_eq in Hcln end.
    split; [repeat constructor; auto|]. split; [repeat constructor; cbn; tauto|].
    exists (PWatch sv (perm_string v1) []). split.
    + rewrite tokens_read_as_items by (repeat constructor; cbn; tauto).
      unfold expected_of_items. cbn [apply_items app]. unfold set_flag at 1. cbn [String.eqb Ascii.eqb Bool.eqb andb p0 p_path].
      unfold set_flag at 1. cbn [String.eqb Ascii.eqb Bool.eqb andb]. rewrite Hperm. reflexivity.
    + cbn [build_prule]. destruct sv as [|c0 sv']; [discriminate|]. rewrite Habs, Hcln. unfold data_of_watch.
      rewrite Heq, Hpc. cbn in Hfs. rewrite Hfs.
      assert (Hpf: lookupS (s2l (if f0 =? 107 then "dir" else "path")) fields_table = Some f0).
      { match goal with H : (f0 =? 105) || (f0 =? 107) = true |- _ => apply orb_prop in H; destruct H as [H|H]; apply N.eqb_eq in H; subst f0 end; cbn [N.eqb Pos.eqb]; assumption. }
      rewrite Hpf. destruct limits as [_ L2]. rewrite L2.
      assert (Hnk: f0 <> 210) by (intros ->; discriminate).
      replace (4096 <? N.of_nat (List.length (c0 :: sv'))) with false by (symmetry; apply N.ltb_ge; auto).
      cbn [add_keys]. assert (Hpb: match perm_string v1 with [] => 15 | _ => perm_bits (perm_string v1) end = v1) by (destruct (perm_string v1); [contradiction|exact Hbits]).
      rewrite Hpb. reflexivity.
  - (* path, perm, key *)
    repeat (apply andb_prop in Ew; destruct Ew as [Ew ?]).
    repeat match goal with H : (_ =? _) = true |- _ => apply N.eqb_eq in H end. subst o0 o1 o2 f1 f2.
    destruct lK as [|[t0 s0] [|[t1 s1] [|[t2 s2] [|]]]]; try discriminate. cbn [map fst] in Hts. injection Hts as <- <- <-. cbn [flat_map snd app] in Hss. rewrite app_nil_r in Hss.
    inversion Hfacts as [|? ? F0 Fr]; subst. inversion Fr as [|? ? F1 Fr2]; subst. inversion Fr2 as [|? ? F2 _]; subst.
    assert (Hf0s: is_string_field f0 = true) by (match goal with H : (f0 =? 105) || (f0 =? 107) = true |- _ => apply orb_prop in H; destruct H as [H|H]; apply N.eqb_eq in H; subst f0; reflexivity end).
    inversion F0 as [| f o sv Hsf Hk210 Hn210 Hcl |f o v ss' Hn Hsfn]; subst; [discriminate| |congruence].
    inversion F1 as [o v Hrange|f o sv1 Hsf1 _ _ _ |f o v ss' Hn Hsfn1]; subst; [|discriminate Hsf1|congruence].
    inversion F2 as [| f o key Hsfk Hkk Hnk Hclk |f o v ss' Hn Hsfn2]; subst; [|discriminate]. cbn [app] in *.
    cbn [nth nth_error] in *.
    assert (pidx = 1%nat). { cbn [last_index] in Epi. match goal with H : (f0 =? 105) || (f0 =? 107) = true |- _ => apply orb_prop in H; destruct H as [H|H]; apply N.eqb_eq in H; subst f0 end; cbn in Epi; congruence. }
    subst pidx. cbn [nth_error] in Hw.
    destruct (perm_watch_facts _ Hrange) as (Hperm & Hpne & Hbits & Hpcl).
    match goal with H : clean_abs_path sv = true |- _ => unfold clean_abs_path in H; apply andb_prop in H; destruct H as [Habs Hcln]; apply str_eqb_eq in Hcln end.
    assert (Hkne: key <> []). { unfold clean in Hclk. destruct key; [discriminate|discriminate]. }
    destruct key as [|k0 key'] eqn:Ekey; [contradiction|]. rewrite <- Ekey in *. injection Hw as <-.
    assert (Hnocomma: forallb (fun x => negb (Ascii.eqb x ","%char)) key = true).
    { match goal with H : negb (existsb (Ascii.eqb ","%char) key) = true |- _ => apply negb_true_iff in H; rename H into Hex end.
      apply forallb_forall. intros x Hx. destruct (Ascii.eqb x ","%char) eqn:E; auto. apply Ascii.eqb_eq in E. subst x.
      exfalso. assert (existsb (Ascii.eqb ","%char) key = true) by (apply existsb_exists; exists ","%char; split; auto; apply Ascii.eqb_refl). congruence. }
    pose proof (Htrim key eq_refl) as Htk.
    rewrite Ekey at 1. cbv iota. rewrite <- Ekey.
    split; [repeat constructor; auto|]. split; [repeat constructor; cbn; tauto|].
    exists (PWatch sv (perm_string v1) [key]). split.
    + rewrite tokens_read_as_items by (repeat constructor; cbn; tauto).
      unfold expected_of_items. cbn [apply_items app]. unfold set_flag at 1. cbn [String.eqb Ascii.eqb Bool.eqb andb p0 p_path].
      unfold set_flag at 1. cbn [String.eqb Ascii.eqb Bool.eqb andb]. rewrite Hperm.
      unfold set_flag at 1. cbn [String.eqb Ascii.eqb Bool.eqb andb p_keys app]. rewrite (split_comma_one _ Hnocomma). cbn [map]. rewrite Htk. reflexivity.
    + cbn [build_prule]. destruct sv as [|c0 sv']; [discriminate|]. rewrite Habs, Hcln. unfold data_of_watch.
      rewrite Heq, Hpc. cbn in Hfs. rewrite Hfs.
      assert (Hpf: lookupS (s2l (if f0 =? 107 then "dir" else "path")) fields_table = Some f0).
      { match goal with H : (f0 =? 105) || (f0 =? 107) = true |- _ => apply orb_prop in H; destruct H as [H|H]; apply N.eqb_eq in H; subst f0 end; cbn [N.eqb Pos.eqb]; assumption. }
      rewrite Hpf. destruct limits as [L1 L2]. rewrite L2.
      assert (Hnk0: f0 <> 210) by (intros ->; discriminate).
      replace (4096 <? N.of_nat (List.length (c0 :: sv'))) with false by (symmetry; apply N.ltb_ge; auto).
      unfold add_keys. cbn [join_keys]. destruct (Hkk eq_refl) as [Hk256 _].
      replace (List.length key =? 0)%nat with false by (symmetry; apply Nat.eqb_neq; rewrite Ekey; cbn; lia).
      rewrite L1. replace (256 <? N.of_nat (List.length key)) with false by (symmetry; apply N.ltb_ge; exact Hk256).
      rewrite Heq. cbn [fst snd app]. assert (Hpb: match perm_string v1 with [] => 15 | _ => perm_bits (perm_string v1) end = v1) by (destruct (perm_string v1); [contradiction|exact Hbits]).
      rewrite Hpb. reflexivity.
Qed.
Print Assumptions watch_form_round_trip.
