(* Proofs/ParseProofs.v — the key=value scanner on a value the kernel wrote in double
   quotes; checked slicing of socket addresses. *)
From Coq Require Import List Ascii String NArith ZArith Bool Arith Lia.
Import ListNotations.
Require Import KV Trim Header Parser.
Require Hex.
Local Close Scope N_scope.
Local Open Scope nat_scope.
Local Open Scope list_scope.
Local Notation length := List.length.

Definition dq : ascii := ascii_of_nat 34.
Definition bs : ascii := ascii_of_nat 92.
(* what the kernel leaves in double quotes, minus the property's exclusion "ends in a backslash":
   no double quote inside (the kernel hex-encodes those) and the last byte is not a backslash *)
Fixpoint safe_body (v : str) : bool :=
  match v with
  | [] => true
  | [c] => negb (code c =? 34) && negb (code c =? 92)
  | c :: r => negb (code c =? 34) && safe_body r
  end.

Lemma quoted_safe : forall v acc fb rest, safe_body v = true ->
  quoted 34 (v ++ dq :: rest) acc fb = Some (rev acc ++ v ++ [dq], rest).
Proof.
  induction v as [|c v IH]; intros acc fb rest H.
  - cbn [app quoted]. change (code dq =? 34) with true. cbn. reflexivity.
  - cbn [app]. destruct v as [|d v'].
    + cbn [safe_body] in H. apply andb_prop in H. destruct H as [H1 H2]. apply negb_true_iff in H1, H2.
      cbn [quoted app]. rewrite H1, H2. change (code dq =? 34) with true. cbn [rev app]. rewrite <- ?app_assoc. reflexivity.
    + assert (Hc: (code c =? 34) = false /\ safe_body (d :: v') = true).
      { cbn [safe_body] in H. apply andb_prop in H. destruct H as [H1 H2]. apply negb_true_iff in H1. auto. }
      destruct Hc as [Hc Hs]. cbn [quoted]. rewrite Hc.
      assert (Hd: (code d =? 34) = false).
      { destruct v'; cbn [safe_body] in Hs; apply andb_prop in Hs; destruct Hs as [X _]; apply negb_true_iff in X; auto. }
      destruct (code c =? 92) eqn:Eb.
      * cbn [app]. rewrite Hd. change (d :: v' ++ dq :: rest) with ((d :: v') ++ dq :: rest). rewrite (IH (c :: acc) fb rest Hs). cbn [rev app]. rewrite <- ?app_assoc. reflexivity.
      * rewrite (IH (c :: acc) fb rest Hs). cbn [rev app]. rewrite <- ?app_assoc. reflexivity.
Qed.

(* a field k="v" at the head of the text is tokenised as key k with the original text "v" *)
Theorem match_here_quoted k v rest : k <> [] -> forallb is_key k = true -> safe_body v = true ->
  match_here (k ++ ascii_of_nat 61 :: dq :: v ++ dq :: rest) = Some (k, dq :: v ++ [dq], rest).
Proof.
  intros Hk Hkey Hv. unfold match_here.
  assert (Hspan: span is_key (k ++ ascii_of_nat 61 :: dq :: v ++ dq :: rest) = (k, ascii_of_nat 61 :: dq :: v ++ dq :: rest)).
  { clear Hk. induction k as [|c k IH]; cbn [app span forallb] in *.
    - reflexivity.
    - apply andb_prop in Hkey. destruct Hkey as [H1 H2]. rewrite H1. rewrite (IH H2). reflexivity. }
  rewrite Hspan. destruct k as [|c k]; [congruence|].
  change (code (ascii_of_nat 61) =? 61) with true. cbn [scan_value].
  change ((code dq =? 39) || (code dq =? 34)) with true. cbn [orb].
  change (code dq) with 34. rewrite (quoted_safe v [] None rest Hv). reflexivity.
Qed.

(* ---- socket addresses: every slice expression of parseSockaddr / hexToIP is in range ---- *)
Definition csub (s : str) (lo hi : nat) : option str := if (lo <=? hi) && (hi <=? length s) then Some (sub s lo hi) else None.
(* the slices taken on each path, in the order of the code; None anywhere = the Go code would panic *)
Definition sockaddr_slices (s : str) : list (option str) :=
  if length s <? 4 then [] else
  [csub s 2 4; csub s 0 2] ++
  match hex_to_dec (sub s 2 4 ++ sub s 0 2) with
  | None => []
  | Some fam =>
      if (fam =? 1)%Z then [csub s 4 (length s)]
      else if (fam =? 2)%Z then (if length s <? 16 then [] else [csub s 4 8; csub s 8 16; csub (sub s 8 16) 0 2; csub (sub s 8 16) 2 4; csub (sub s 8 16) 4 6; csub (sub s 8 16) 6 8])
      else if (fam =? 10)%Z then (if length s <? 48 then [] else [csub s 4 8; csub s 8 16; csub s 16 48])
      else []
  end.
Theorem sockaddr_slices_in_range s : Forall (fun o => o <> None) (sockaddr_slices s).
Proof.
  unfold sockaddr_slices. destruct (length s <? 4) eqn:E4; [constructor|]. apply Nat.ltb_ge in E4.
  assert (G: forall lo hi, lo <= hi -> hi <= length s -> csub s lo hi <> None).
  { intros lo hi H1 H2. unfold csub. replace ((lo <=? hi) && (hi <=? length s)) with true; [discriminate|].
    symmetry. apply andb_true_iff. split; apply Nat.leb_le; auto. }
  apply Forall_app. split. { repeat constructor; apply G; lia. }
  destruct (hex_to_dec _) as [fam|]; [|constructor].
  destruct (fam =? 1)%Z. { repeat constructor. apply G; lia. }
  destruct (fam =? 2)%Z.
  { destruct (length s <? 16) eqn:E16; [constructor|]. apply Nat.ltb_ge in E16.
    assert (L8: length (sub s 8 16) = 8) by (unfold sub; rewrite firstn_length, skipn_length; lia).
    assert (G8: forall lo hi, lo <= hi -> hi <= 8 -> csub (sub s 8 16) lo hi <> None).
    { intros lo hi H1 H2. unfold csub. rewrite L8. replace ((lo <=? hi) && (hi <=? 8)) with true; [discriminate|].
      symmetry. apply andb_true_iff. split; apply Nat.leb_le; auto. }
    repeat constructor; try (apply G; lia); apply G8; lia. }
  destruct (fam =? 10)%Z.
  { destruct (length s <? 48) eqn:E48; [constructor|]. apply Nat.ltb_ge in E48. repeat constructor; apply G; lia. }
  constructor.
Qed.
