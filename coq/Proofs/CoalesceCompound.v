(* Proofs/CoalesceCompound.v — normalizeCompound: the fields of the records that follow the
   SYSCALL record are kept (or a warning is counted), whatever the other records are. *)
From Coq Require Import List Ascii String NArith ZArith Bool Arith Lia.
Import ListNotations.
Require Import KV Parser ChkCoalesce CoalesceProofs.
Local Close Scope N_scope.
Local Open Scope nat_scope.
Local Open Scope list_scope.

(* keys another record type may overwrite or remove: the SYSCALL item count, EXECVE's argc, SOCKADDR's socket_* *)
Definition safe_key (k : str) : bool := negb (isS k "items") && negb (isS k "argc") && negb (has_prefix (L "socket_") k).

Lemma fget_del_other k k' (m : kvs) : beq k' k = false -> fget k (del k' m) = fget k m.
Proof. intros H. unfold del. apply fget_filter_other. exact H. Qed.

Lemma beq_sym_false a b : beq a b = false -> beq b a = false.
Proof. intros H. destruct (beq b a) eqn:E; auto. apply beq_eq in E. subst. rewrite beq_refl in H. discriminate. Qed.

(* --- add_fields --- *)
Definition af_step (a : mev) (kv : str * str) : mev :=
  match fget (fst kv) (m_data a) with Some _ => warn a | None => with_data a (put (fst kv) (snd kv) (m_data a)) end.
Lemma add_fields_fold d e : add_fields d e = fold_left af_step d e. Proof. reflexivity. Qed.

Lemma af_step_keeps a kv k v : fget k (m_data a) = Some v -> fget k (m_data (af_step a kv)) = Some v.
Proof.
  intros H. unfold af_step. destruct (fget (fst kv) (m_data a)) eqn:E; cbn [warn with_data m_data]; auto.
  rewrite fget_put_other; auto. destruct (beq (fst kv) k) eqn:Eb; auto. apply beq_eq in Eb. subst k. congruence.
Qed.
Lemma af_step_warn a kv : m_warn a <= m_warn (af_step a kv).
Proof. unfold af_step. destruct (fget _ _); cbn; lia. Qed.
Lemma af_fold_keeps : forall d a k v, fget k (m_data a) = Some v -> fget k (m_data (fold_left af_step d a)) = Some v.
Proof. induction d as [|kv d IH]; intros a k v H; cbn [fold_left]; auto. apply IH. apply af_step_keeps. exact H. Qed.
Lemma af_fold_warn : forall d a, m_warn a <= m_warn (fold_left af_step d a).
Proof. induction d as [|kv d IH]; intros a; cbn [fold_left]; auto. pose proof (af_step_warn a kv). pose proof (IH (af_step a kv)). lia. Qed.

(* every field of the record is in Data afterwards, or a warning was counted *)
Theorem add_fields_kept : forall d e k v, In (k, v) d ->
  (exists v', fget k (m_data (add_fields d e)) = Some v' /\ (fget k (m_data e) = None -> NoDup (map fst d) -> v' = v)) /\
  (fget k (m_data e) <> None -> m_warn e < m_warn (add_fields d e)).
Proof.
  intros d e k v Hin. rewrite add_fields_fold. revert e. induction d as [|kv d IH]; intros e; [contradiction|]. cbn [fold_left].
  destruct Hin as [->|Hin].
  - cbn [map fst].
    assert (Hstep: af_step e (k, v) = match fget k (m_data e) with Some _ => warn e | None => with_data e (put k v (m_data e)) end) by reflexivity.
    rewrite Hstep. destruct (fget k (m_data e)) as [x|] eqn:E.
    + split. exists x. split. apply af_fold_keeps. cbn [warn m_data]. exact E. intros C; discriminate.
      intros _. pose proof (af_fold_warn d (warn e)). cbn [warn m_warn] in *. lia.
    + split. exists v. split. apply af_fold_keeps. cbn [with_data m_data]. apply fget_put_same. auto. intros C; congruence.
  - destruct (IH Hin (af_step e kv)) as ((v' & Hg & Hv) & Hw). split.
    + exists v'. split; auto. intros Hnone Hnd. cbn [map] in Hnd. inversion Hnd as [|? ? Hnotin Hnd']; subst.
      apply Hv; auto. unfold af_step. destruct (fget (fst kv) (m_data e)); cbn [warn with_data m_data]; auto.
      rewrite fget_put_other; auto. destruct (beq (fst kv) k) eqn:Eb; auto. apply beq_eq in Eb. exfalso. apply Hnotin. rewrite Eb.
      change k with (fst (k, v)). apply in_map. exact Hin.
    + intros Hne. pose proof (af_step_warn e kv). assert (fget k (m_data (af_step e kv)) <> None).
      { destruct (fget k (m_data e)) as [x|] eqn:E; [|congruence]. rewrite (af_step_keeps e kv k x E). discriminate. }
      specialize (Hw H0). lia.
Qed.

(* --- the other routes never touch a safe key of Data, and never lower the warning count --- *)
Lemma fold_put_prefix_other : forall (d : kvs) (m : kvs) k, has_prefix (L "socket_") k = false ->
  fget k (fold_left (fun a kv => put (L "socket_" ++ fst kv) (snd kv) a) d m) = fget k m.
Proof.
  induction d as [|kv d IH]; intros m k Hk; cbn [fold_left]; auto. rewrite IH by auto. apply fget_put_other.
  destruct (beq (L "socket_" ++ fst kv) k) eqn:E; auto. apply beq_eq in E. subst k.
  assert (has_prefix (L "socket_") (L "socket_" ++ fst kv) = true) by (clear; induction (L "socket_"); cbn; auto; rewrite Ascii.eqb_refl; auto). congruence.
Qed.

Lemma route_keeps e r k v : safe_key k = true -> fget k (m_data e) = Some v -> fget k (m_data (route e r)) = Some v.
Proof.
  intros Hs H. unfold safe_key in Hs. apply andb_prop in Hs. destruct Hs as [Hs Hsock]. apply andb_prop in Hs. destruct Hs as [Hit Harg].
  apply negb_true_iff in Hit, Harg, Hsock. unfold route. destruct (is_syscall r).
  - exact H.
  - destruct (r_data r) as [d|]; [|exact H].
    destruct (N.eqb (r_type r) MsgTypes.AUDIT_PATH); [exact H|].
    destruct (N.eqb (r_type r) MsgTypes.AUDIT_SOCKADDR).
    { unfold add_sockaddr. destruct (fget (L "syscall") (m_data e)); [|exact H].
      assert (G: fget k (fold_left (fun a kv => put (L "socket_" ++ fst kv) (snd kv) a) d (m_data e)) = Some v) by (rewrite fold_put_prefix_other; auto).
      destruct (_ || _); [exact G|]. destruct (_ || _); exact G. }
    destruct (N.eqb (r_type r) MsgTypes.AUDIT_EXECVE).
    { unfold add_execve. destruct (fget (L "argc") d) as [argc|]; [|exact H].
      assert (G: fget k (put (L "argc") argc (m_data e)) = Some v).
      { rewrite fget_put_other; auto. unfold isS in Harg. apply beq_sym_false. exact Harg. }
      destruct argc; [exact G|]. destruct (read_num _ _ _ _); [|exact G]. destruct (N.ltb _ _); [|exact G]. destruct (take_args _ _ _ _ _); exact G. }
    rewrite add_fields_fold. apply af_fold_keeps. exact H.
Qed.
Lemma route_warn e r : m_warn e <= m_warn (route e r).
Proof.
  unfold route. destruct (is_syscall r); [cbn; lia|]. destruct (r_data r) as [d|]; [|cbn; lia].
  destruct (N.eqb _ _); [cbn; lia|]. destruct (N.eqb _ _).
  { unfold add_sockaddr. destruct (fget _ _); [|cbn; lia]. destruct (_ || _); [cbn; lia|]. destruct (_ || _); cbn; lia. }
  destruct (N.eqb _ _).
  { unfold add_execve. destruct (fget _ _) as [argc|]; [|cbn; lia]. destruct argc; [cbn; lia|]. destruct (read_num _ _ _ _); [|cbn; lia].
    destruct (N.ltb _ _); [|cbn; lia]. destruct (take_args _ _ _ _ _); cbn; lia. }
  rewrite add_fields_fold. apply af_fold_warn.
Qed.
Lemma routes_keep : forall l e k v, safe_key k = true -> fget k (m_data e) = Some v -> fget k (m_data (fold_left route l e)) = Some v.
Proof. induction l as [|r l IH]; intros e k v Hs H; cbn [fold_left]; auto. apply IH; auto. apply route_keeps; auto. Qed.
Lemma routes_warn : forall l e, m_warn e <= m_warn (fold_left route l e).
Proof. induction l as [|r l IH]; intros e; cbn [fold_left]; auto. pose proof (route_warn e r). pose proof (IH (route e r)). lia. Qed.
Lemma routes_paths : forall l e p, In p (m_paths e) -> In p (m_paths (fold_left route l e)).
Proof.
  induction l as [|r l IH]; intros e p H; cbn [fold_left]; auto. apply IH. unfold route. destruct (is_syscall r); [exact H|].
  destruct (r_data r) as [d|]; [|exact H]. destruct (N.eqb _ _); [cbn [m_paths]; apply in_or_app; auto|].
  destruct (N.eqb _ _).
  { unfold add_sockaddr. destruct (fget _ _); [|exact H]. destruct (_ || _); [exact H|]. destruct (_ || _); exact H. }
  destruct (N.eqb _ _).
  { unfold add_execve. destruct (fget _ _) as [argc|]; [|exact H]. destruct argc; [exact H|]. destruct (read_num _ _ _ _); [|exact H].
    destruct (N.ltb _ _); [|exact H]. destruct (take_args _ _ _ _ _); exact H. }
  rewrite add_fields_fold. clear - H. revert e H. induction d as [|kv d IHd]; intros e H; cbn [fold_left]; auto. apply IHd.
  unfold af_step. destruct (fget _ _); exact H.
Qed.

Definition generic (r : rec) : bool :=
  negb (is_syscall r) && negb (N.eqb (r_type r) MsgTypes.AUDIT_PATH) && negb (N.eqb (r_type r) MsgTypes.AUDIT_SOCKADDR) && negb (N.eqb (r_type r) MsgTypes.AUDIT_EXECVE).

(* a record in the middle of a compound event *)
Theorem compound_fields_kept l1 r l2 e0 d k v :
  generic r = true -> r_data r = Some d -> In (k, v) d -> safe_key k = true ->
  let e1 := fold_left route l1 e0 in
  let e := fold_left route (l1 ++ r :: l2) e0 in
  (exists v', fget k (m_data e) = Some v' /\ (fget k (m_data e1) = None -> NoDup (map fst d) -> v' = v)) /\
  (fget k (m_data e1) <> None -> m_warn e1 < m_warn e).
Proof.
  intros Hg Hd Hin Hs e1 e. subst e. rewrite fold_left_app. cbn [fold_left]. fold e1.
  assert (Hr: route e1 r = add_fields d e1).
  { unfold generic in Hg. repeat (apply andb_prop in Hg; destruct Hg as [Hg ?]). apply negb_true_iff in Hg.
    repeat match goal with H : negb _ = true |- _ => apply negb_true_iff in H end.
    unfold route. rewrite Hg, Hd. repeat match goal with H : N.eqb _ _ = false |- _ => rewrite H end. reflexivity. }
  rewrite Hr. destruct (add_fields_kept d e1 k v Hin) as ((v' & Hg1 & Hv) & Hw). split.
  - exists v'. split; auto. apply routes_keep; auto.
  - intros Hne. pose proof (routes_warn l2 (add_fields d e1)). specialize (Hw Hne). lia.
Qed.

Theorem compound_paths_kept l1 r l2 e0 d :
  is_syscall r = false -> N.eqb (r_type r) MsgTypes.AUDIT_PATH = true -> r_data r = Some d ->
  In d (m_paths (fold_left route (l1 ++ r :: l2) e0)).
Proof.
  intros Hs Hp Hd. rewrite fold_left_app. cbn [fold_left]. apply routes_paths. unfold route. rewrite Hs, Hd, Hp. cbn [m_paths].
  apply in_or_app. right. left. reflexivity.
Qed.
Print Assumptions compound_fields_kept.
Print Assumptions compound_paths_kept.

(* --- addExecveRecord: the arguments are all in Process.Args in order and argc is in Data, or a warning is counted --- *)
Lemma take_args_spec : forall fuel i count d acc l,
  take_args fuel i count d acc = Some l -> N.to_nat (count - i) < fuel ->
  exists vs, l = rev acc ++ vs /\ List.length vs = N.to_nat (count - i) /\
             forall j, j < List.length vs -> fget (L "a" ++ Dec.dec (i + N.of_nat j)) d = Some (nth j vs []).
Proof.
  induction fuel as [|f IH]; intros i count d acc l H Hf; [lia|]. cbn [take_args] in H.
  destruct (N.leb_spec count i) as [Hle|Hlt].
  - injection H as <-. exists []. rewrite app_nil_r. split; auto. split. cbn. lia. cbn. intros j Hj. lia.
  - destruct (fget (L "a" ++ Dec.dec i) d) as [v|] eqn:E; [|discriminate].
    destruct (IH _ _ _ _ _ H) as (vs & Hl & Hlen & Hget). lia.
    exists (v :: vs). split. rewrite Hl. cbn [rev]. rewrite <- app_assoc. reflexivity.
    split. cbn [List.length]. lia.
    intros [|j] Hj.
    + cbn [nth]. replace (i + N.of_nat 0)%N with i by lia. exact E.
    + cbn [nth]. cbn [List.length] in Hj. replace (i + N.of_nat (S j))%N with (i + 1 + N.of_nat j)%N by lia. apply Hget. lia.
Qed.
Theorem add_execve_kept d e :
  let e' := add_execve d e in
  m_warn e <= m_warn e' /\
  (m_warn e' = m_warn e ->
   exists argc c args, fget (L "argc") d = Some argc /\ fget (L "argc") (m_data e') = Some argc /\
     read_num digit_of 10 argc 0%N = Some c /\ m_args e' = Some args /\
     (N.to_nat c <= List.length d -> List.length args = N.to_nat c /\
        forall j, j < N.to_nat c -> fget (L "a" ++ Dec.dec (N.of_nat j)) d = Some (nth j args []))).
Proof.
  intros e'. subst e'. unfold add_execve. destruct (fget (L "argc") d) as [argc|]; [|cbn; split; lia].
  destruct argc as [|c0 cr]; [cbn; split; lia|]. set (argc := c0 :: cr).
  destruct (read_num digit_of 10 argc 0%N) as [c|] eqn:Er; [|cbn; split; lia].
  destruct (N.ltb c (2 ^ 32)); [|cbn; split; lia].
  destruct (take_args (S (List.length d)) 0 c d []) as [args|] eqn:Et; [|cbn; split; lia].
  cbn [m_warn with_data m_data m_args]. split; [lia|]. intros _. exists argc, c, args.
  split; [reflexivity|]. split; [apply fget_put_same|]. split; [exact Er|]. split; [reflexivity|].
  intros Hlen. destruct (take_args_spec _ _ _ _ _ _ Et) as (vs & Hl & Hvl & Hget). { rewrite N.sub_0_r. lia. }
  cbn [rev app] in Hl. subst vs. rewrite N.sub_0_r in Hvl. split; [exact Hvl|]. intros j Hj. rewrite <- (N.add_0_l (N.of_nat j)). apply Hget. lia.
Qed.

(* --- addSockaddrRecord: every field is in Data under socket_<key>, or (no syscall name) a warning is counted --- *)
Lemma fold_put_prefix_in : forall (d : kvs) (m : kvs) k v, NoDup (map fst d) -> In (k, v) d ->
  fget (L "socket_" ++ k) (fold_left (fun a kv => put (L "socket_" ++ fst kv) (snd kv) a) d m) = Some v.
Proof.
  induction d as [|[k' v'] d IH]; intros m k v Hn Hin; [contradiction|]. cbn [fold_left fst snd]. inversion Hn as [|? ? Hnot Hn']; subst.
  destruct Hin as [E|Hin].
  - injection E as -> ->. clear IH. revert m. cbn [map fst] in Hnot.
    assert (G: forall (d : kvs) m, ~ In k (map fst d) -> fget (L "socket_" ++ k) m = Some v ->
               fget (L "socket_" ++ k) (fold_left (fun a kv => put (L "socket_" ++ fst kv) (snd kv) a) d m) = Some v).
    { clear. induction d as [|[k2 v2] d IHd]; intros m Hnot H; cbn [fold_left fst snd]; auto. apply IHd.
      - intros C. apply Hnot. right. exact C.
      - rewrite fget_put_other; auto. destruct (beq (L "socket_" ++ k2) (L "socket_" ++ k)) eqn:E; auto.
        apply beq_eq in E. apply app_inv_head in E. subst k2. exfalso. apply Hnot. left. reflexivity. }
    intros m. apply G; auto. apply fget_put_same.
  - apply IH; auto.
Qed.
Theorem add_sockaddr_kept d e :
  let e' := add_sockaddr d e in
  m_warn e <= m_warn e' /\
  (m_warn e' = m_warn e -> NoDup (map fst d) -> forall k v, In (k, v) d -> fget (L "socket_" ++ k) (m_data e') = Some v).
Proof.
  intros e'. subst e'. unfold add_sockaddr. destruct (fget (L "syscall") (m_data e)) as [sc|]; [|cbn; split; [lia|intros C; lia]].
  split.
  - destruct (_ || _); [cbn; lia|]. destruct (_ || _); cbn; lia.
  - intros _ Hn k v Hin. pose proof (fold_put_prefix_in d (m_data e) k v Hn Hin) as G.
    destruct (_ || _); [exact G|]. destruct (_ || _); exact G.
Qed.
Print Assumptions add_execve_kept.
Print Assumptions add_sockaddr_kept.
