(* Proofs/CoalesceProofs.v — newEvent's distribution of the primary record's fields
   drops nothing; a store-passing reading of CoalesceMessages for C15. *)
From Coq Require Import List Ascii String NArith ZArith Bool Arith Lia.
Import ListNotations.
Require Import KV Parser ChkCoalesce.
Local Close Scope N_scope.
Local Open Scope nat_scope.
Local Open Scope list_scope.

Lemma beq_refl a : beq a a = true.
Proof. induction a as [|c a IH]; cbn; auto. rewrite Ascii.eqb_refl. auto. Qed.
Lemma beq_eq a b : beq a b = true -> a = b.
Proof.
  revert b. induction a as [|c a IH]; destruct b as [|d b]; cbn; try discriminate; auto.
  intros H. apply andb_prop in H. destruct H as [H1 H2]. apply Ascii.eqb_eq in H1. subst. f_equal. auto.
Qed.

Lemma fget_put_same k v m : fget k (put k v m) = Some v.
Proof. unfold put. cbn. rewrite beq_refl. reflexivity. Qed.
Lemma fget_filter_other k k' (m : kvs) : beq k' k = false -> fget k (filter (fun e => negb (beq (fst e) k')) m) = fget k m.
Proof.
  intros H. induction m as [|[a b] m IH]; cbn; auto.
  destruct (beq a k') eqn:E1; cbn.
  - apply beq_eq in E1. subst a. destruct (beq k' k) eqn:E2; [congruence|]. exact IH.
  - destruct (beq a k); auto.
Qed.
Lemma fget_put_other k k' v m : beq k' k = false -> fget k (put k' v m) = fget k m.
Proof. intros H. unfold put. cbn. rewrite H. apply fget_filter_other. exact H. Qed.

(* where newEvent puts a field of the primary record *)
Definition placed (e : mev) (k v : str) : Prop :=
  if isS k "result" then m_result e = Some v
  else if isS k "ses" then m_session e = Some v
  else if has_suffix (L "uid") k || has_suffix (L "gid") k then fget k (m_ids e) = Some v
  else if has_prefix (L "subj_") k then fget (skipn 5 k) (m_sel e) = Some v
  else fget k (m_data e) = Some v.

(* the class of a key and the slot it is stored under *)
Definition slot (e : mev) (k : str) : option str :=
  if has_suffix (L "uid") k || has_suffix (L "gid") k then fget k (m_ids e)
  else if has_prefix (L "subj_") k then fget (skipn 5 k) (m_sel e)
  else fget k (m_data e).
Definition special (k : str) : bool := isS k "result" || isS k "ses".

Lemma has_prefix_split : forall p s, has_prefix p s = true -> s = p ++ skipn (List.length p) s.
Proof.
  induction p as [|c p IH]; intros s H; [reflexivity|]. destruct s as [|d s]; [discriminate|].
  cbn [has_prefix] in H. apply andb_prop in H. destruct H as [H1 H2]. apply Ascii.eqb_eq in H1. subst d.
  cbn [List.length skipn app]. f_equal. apply IH. exact H2.
Qed.
Lemma skipn5_inj a b : has_prefix (L "subj_") a = true -> has_prefix (L "subj_") b = true -> skipn 5 a = skipn 5 b -> a = b.
Proof.
  intros Ha Hb H. rewrite (has_prefix_split _ _ Ha), (has_prefix_split _ _ Hb).
  change (List.length (L "subj_")) with 5. rewrite H. reflexivity.
Qed.

Lemma dstep_other e k k' v' : special k = false -> beq k' k = false -> slot (dstep e (k', v')) k = slot e k.
Proof.
  intros Hs Hne. unfold dstep. destruct (isS k' "result"); [reflexivity|]. destruct (isS k' "ses"); [reflexivity|].
  unfold slot.
  destruct (has_suffix (L "uid") k' || has_suffix (L "gid") k') eqn:E1; cbn [m_ids m_sel m_data].
  - destruct (has_suffix (L "uid") k || has_suffix (L "gid") k); [apply fget_put_other; exact Hne | reflexivity].
  - destruct (has_prefix (L "subj_") k') eqn:E2; cbn [m_ids m_sel m_data].
    + destruct (has_suffix (L "uid") k || has_suffix (L "gid") k); [reflexivity|].
      destruct (has_prefix (L "subj_") k) eqn:E3; [|reflexivity].
      apply fget_put_other. destruct (beq (skipn 5 k') (skipn 5 k)) eqn:E4; auto.
      apply beq_eq in E4. pose proof (skipn5_inj _ _ E2 E3 E4). subst. rewrite beq_refl in Hne. discriminate.
    + destruct (has_suffix (L "uid") k || has_suffix (L "gid") k); [reflexivity|].
      destruct (has_prefix (L "subj_") k); [reflexivity|]. apply fget_put_other. exact Hne.
Qed.
Lemma dstep_same e k v : special k = false -> slot (dstep e (k, v)) k = Some v.
Proof.
  intros Hs. unfold special in Hs. apply orb_false_elim in Hs. destruct Hs as [H1 H2]. unfold dstep. rewrite H1, H2. unfold slot.
  destruct (has_suffix (L "uid") k || has_suffix (L "gid") k); cbn [m_ids m_sel m_data]; [apply fget_put_same|].
  destruct (has_prefix (L "subj_") k); cbn [m_ids m_sel m_data]; apply fget_put_same.
Qed.

Lemma fold_keeps : forall r e k, special k = false -> (forall k' v', In (k', v') r -> beq k' k = false) ->
  slot (fold_left dstep r e) k = slot e k.
Proof.
  induction r as [|[k0 v0] r IH]; intros e k Hs Hn; cbn [fold_left]; auto.
  rewrite IH; auto. - apply dstep_other; auto. apply (Hn k0 v0). left; reflexivity. - intros k' v' Hin. apply (Hn k' v'). right; exact Hin.
Qed.

(* every field of the primary record other than result / ses ends up in Data, User.IDs or
   User.SELinux under its own name, for every record whose keys are pairwise different
   (they are the keys of a Go map) *)
Theorem distribute_keeps_all : forall d e k v,
  (forall i j a b c, nth_error d i = Some (a, b) -> nth_error d j = Some (a, c) -> i = j) ->
  In (k, v) d -> special k = false -> slot (distribute d e) k = Some v.
Proof.
  intros d e. unfold distribute. generalize (dstart d e). clear e.
  induction d as [|[k0 v0] r IH]; intros e k v Hnd Hin Hs; [contradiction|].
  cbn [fold_left]. destruct Hin as [Heq|Hin].
  - inversion Heq; subst. rewrite fold_keeps; auto. apply dstep_same; auto.
    intros k' v' Hin'. destruct (beq k' k) eqn:E; auto. apply beq_eq in E. subst k'.
    destruct (In_nth_error _ _ Hin') as [j Hj]. specialize (Hnd 0 (S j) k v v' eq_refl Hj). discriminate.
  - apply IH; auto. intros i j a b c Hi Hj. specialize (Hnd (S i) (S j) a b c Hi Hj). congruence.
Qed.
(* result and session are taken from the primary record *)
Theorem distribute_result_session : forall d e,
  m_result (distribute d e) = Some (match fget (L "result") d with Some x => x | None => L "unknown" end) /\
  m_session (distribute d e) = fget (L "ses") d.
Proof.
  intros d e. unfold distribute.
  assert (G: forall r a, m_result (fold_left dstep r a) = m_result a /\ m_session (fold_left dstep r a) = m_session a).
  { induction r as [|[k0 v0] r IH]; intros a; cbn [fold_left]; auto. destruct (IH (dstep a (k0, v0))) as [H1 H2]. rewrite H1, H2.
    unfold dstep. destruct (isS k0 "result"); auto. destruct (isS k0 "ses"); auto.
    destruct (has_suffix (L "uid") k0 || has_suffix (L "gid") k0); auto. destruct (has_prefix (L "subj_") k0); auto. }
  destruct (G d (dstart d e)) as [H1 H2]. rewrite H1, H2. split; reflexivity.
Qed.

(* ---- C15: a store-passing reading.  Messages live in a store with their cached Data();
   the repaired CoalesceMessages works on copies, so the store it returns is the store it got ---- *)
Definition store := list (N * rec).
Definition fetch (st : store) (ids : list N) : list rec :=
  flat_map (fun i => match find (fun e => N.eqb (fst e) i) st with Some (_, r) => [r] | None => [] end) ids.
Definition coalesce_st (st : store) (ids : list N) : option mev * store := (model_event (fetch st ids), st).
Theorem coalesce_inputs_intact st ids : snd (coalesce_st st ids) = st.
Proof. reflexivity. Qed.
Theorem coalesce_repeatable st ids : fst (coalesce_st (snd (coalesce_st st ids)) ids) = fst (coalesce_st st ids).
Proof. reflexivity. Qed.
Theorem coalesce_isolated st a b : fst (coalesce_st (snd (coalesce_st st b)) a) = fst (coalesce_st st a).
Proof. reflexivity. Qed.
