(* Proofs/ParseEnrich.v — Data() of a record of a type without enrichment of its own: every ordinary field
   of a kernel-style body comes out with the value that was written. *)
From Coq Require Import List Ascii String NArith ZArith Bool Arith Lia.
Import ListNotations.
Require Import KV Trim Header Parser ParseProofs ParseBody.
Local Close Scope N_scope.
Local Open Scope string_scope.
Local Open Scope nat_scope.
Local Open Scope list_scope.

(* keys the common enrichment steps read, rewrite, remove or create *)
Definition touched : list string :=
  ["ses"; "old-auid"; "auid"; "subj"; "subj_user"; "subj_role"; "subj_domain"; "subj_level"; "subj_category"; "success"; "res"; "result"; "exit"; "key"; "cwd"].
Definition ordinary_key (k : str) : bool := forallb (fun t => negb (beq k (L t))) touched.

Lemma beq_false_ne a b : beq a b = false -> a <> b.
Proof. intros H E. subst. rewrite beq_refl' in H. discriminate. Qed.
Lemma ordinary_ne k t : ordinary_key k = true -> In t touched -> k <> L t.
Proof. intros H Hin. unfold ordinary_key in H. rewrite forallb_forall in H. specialize (H _ Hin). apply negb_true_iff in H. apply beq_false_ne. exact H. Qed.

Lemma kv_get_setval_other k k' v m : k <> k' -> kv_get k (kv_setval k' v m) = kv_get k m.
Proof. intros H. unfold kv_setval. destruct (kv_get k' m) as [[o x]|]; auto. apply kv_get_add_other; auto. Qed.

Section Keep.
Variable k : str.
Hypothesis Hk : ordinary_key k = true.
Ltac ne t := apply (ordinary_ne k t Hk); cbn; tauto.

Lemma keep_unset t m : In t touched -> kv_get k (normalize_unset t m) = kv_get k m.
Proof.
  intros Hin. unfold normalize_unset. destruct (kv_get (L t) m) as [[o v]|]; auto. destruct (_ || _); auto.
  apply kv_get_setval_other. apply (ordinary_ne k t Hk Hin).
Qed.

Lemma keep_selinux_subj m : kv_get k (selinux_ctx "subj" m) = kv_get k m.
Proof.
  unfold selinux_ctx. destruct (kv_get (L "subj") m) as [[o v]|]; auto.
  assert (G: forall pns a, Forall (fun pn => In (snd pn) [L "_user"; L "_role"; L "_domain"; L "_level"; L "_category"]) pns ->
             kv_get k (fold_left (fun a pn => kv_add (L "subj" ++ snd pn) (newf (fst pn)) a) pns a) = kv_get k a).
  { induction pns as [|[pt nm] pns IH]; intros a Hf; cbn [fold_left]; auto. inversion Hf as [|? ? Hp Hr]; subst. rewrite IH by auto.
    cbn [fst snd] in *. apply kv_get_add_other. cbn [In] in Hp. destruct Hp as [<-|[<-|[<-|[<-|[<-|[]]]]]].
    - ne "subj_user". - ne "subj_role". - ne "subj_domain". - ne "subj_level". - ne "subj_category". }
  rewrite G. apply kv_get_del_other. ne "subj".
  apply Forall_forall. intros [pt nm] Hin. apply in_combine_r in Hin. exact Hin.
Qed.

Lemma keep_result m : kv_get k (do_result m) = kv_get k m.
Proof.
  unfold do_result. destruct (kv_get (L "success") m) as [[o v]|].
  - destruct (_ || _); rewrite kv_get_add_other by (ne "result"); apply kv_get_del_other; ne "success".
  - destruct (kv_get (L "res") m) as [[o v]|]; auto.
    destruct (_ || _); rewrite kv_get_add_other by (ne "result"); apply kv_get_del_other; ne "res".
Qed.

Lemma keep_exit m : kv_get k (do_exit m) = kv_get k m.
Proof.
  unfold do_exit. destruct (kv_get (L "exit") m) as [[o v]|]; auto. destruct (atoi v) as [c|]; auto. destruct (c <? 0)%Z; auto.
  destruct (lookup_tab _ _); auto. apply kv_get_setval_other. ne "exit".
Qed.

Lemma keep_key m : kv_get k (fst (do_key m)) = kv_get k m.
Proof.
  unfold do_key. destruct (kv_get (L "key") m) as [[o v]|]; auto.
  assert (E: kv_get k (kv_del (L "key") m) = kv_get k m) by (apply kv_get_del_other; ne "key").
  destruct (hex_decode o); [exact E|]. destruct (splitn _ _ _ _) as [|a [|b [|c r]]]; exact E.
Qed.

Lemma keep_cwd m : kv_get k (opt_or (hex_field "cwd" m) m) = kv_get k m.
Proof.
  unfold hex_field. destruct (kv_get (L "cwd") m) as [[o v]|]; auto. destruct (hex_to_strings o); auto.
  cbn [opt_or]. apply kv_get_setval_other. ne "cwd".
Qed.
End Keep.

(* record types the enrichment switch has no case for *)
Definition plain_type (ty : N) : bool :=
  negb (existsb (N.eqb ty) [MsgTypes.AUDIT_SECCOMP; MsgTypes.AUDIT_SYSCALL; MsgTypes.AUDIT_SOCKADDR; MsgTypes.AUDIT_PROCTITLE; MsgTypes.AUDIT_USER_CMD;
                            MsgTypes.AUDIT_TTY; MsgTypes.AUDIT_USER_TTY; MsgTypes.AUDIT_EXECVE; MsgTypes.AUDIT_PATH; MsgTypes.AUDIT_USER_LOGIN;
                            MsgTypes.AUDIT_AVC; MsgTypes.AUDIT_LOGIN; MsgTypes.AUDIT_CRED_DISP; MsgTypes.AUDIT_USER_START; MsgTypes.AUDIT_USER_END]).

Theorem enrich_keeps_ordinary ty m0 k : plain_type ty = true -> ordinary_key k = true ->
  exists m tags, enrich ty m0 = Some (m, tags) /\ kv_get k m = kv_get k m0.
Proof.
  intros Hty Hk. unfold enrich.
  set (m1 := normalize_unset "ses" (normalize_unset "old-auid" (normalize_unset "auid" m0))).
  set (m2 := do_exit (do_result (selinux_ctx "subj" m1))).
  pose proof (keep_key k Hk m2) as Hkey. destruct (do_key m2) as [m3 tags]. cbn [fst] in Hkey.
  unfold plain_type in Hty. apply negb_true_iff in Hty. cbn [existsb] in Hty.
  repeat (apply orb_false_iff in Hty; destruct Hty as [?E Hty]).
  repeat match goal with H : N.eqb ty _ = false |- _ => rewrite H; clear H end. cbn [orb].
  exists (opt_or (hex_field "cwd" m3) m3), tags. split; [reflexivity|].
  rewrite (keep_cwd k Hk), Hkey. subst m2. rewrite (keep_exit k Hk), (keep_result k Hk), (keep_selinux_subj k Hk). subst m1.
  rewrite !(keep_unset k Hk) by (cbn; tauto). reflexivity.
Qed.

(* the key list extract builds has no key twice, so reading it in either direction gives the same field *)
Definition keys_nodup (m : kvlist) : Prop := NoDup (map fst m).
Lemma kv_del_notin k m : ~ In k (map fst (kv_del k m)).
Proof. induction m as [|[k' v] m IH]; cbn; auto. destruct (beq k k') eqn:E; auto. cbn. intros [C|C]; auto. subst. rewrite beq_refl' in E. discriminate. Qed.
Lemma kv_del_subset k m x : In x (map fst (kv_del k m)) -> In x (map fst m).
Proof. induction m as [|[k' v] m IH]; cbn; auto. destruct (beq k k'); cbn; intros H; auto. destruct H; auto. Qed.
Lemma kv_del_nodup k m : keys_nodup m -> keys_nodup (kv_del k m).
Proof.
  unfold keys_nodup. induction m as [|[k' v] m IH]; cbn; auto. intros H. inversion H; subst. destruct (beq k k'); cbn; auto.
  constructor; auto. intros C. apply kv_del_subset in C. contradiction.
Qed.
Lemma kv_add_nodup k v m : keys_nodup m -> keys_nodup (kv_add k v m).
Proof. intros H. unfold kv_add, keys_nodup. cbn. constructor. apply kv_del_notin. apply kv_del_nodup. exact H. Qed.

Lemma kv_get_in k m v : kv_get k m = Some v -> In (k, v) m.
Proof. induction m as [|[k' x] m IH]; cbn; try discriminate. destruct (beq k k') eqn:E. apply beq_true in E. subst. intros H; injection H as <-. auto. auto. Qed.
Lemma kv_get_of_in k v m : keys_nodup m -> In (k, v) m -> kv_get k m = Some v.
Proof.
  unfold keys_nodup. induction m as [|[k' x] m IH]; cbn; intros Hn Hin; [contradiction|]. inversion Hn; subst.
  destruct Hin as [E|Hin]. injection E as -> ->. rewrite beq_refl'. reflexivity.
  destruct (beq k k') eqn:E. apply beq_true in E. subst. exfalso. match goal with H : ~ In k' _ |- _ => apply H end. change k' with (fst (k', v)). apply in_map. exact Hin.
  apply IH; auto.
Qed.
Lemma kv_get_rev k m : keys_nodup m -> kv_get k (rev m) = kv_get k m.
Proof.
  intros Hn. destruct (kv_get k m) as [v|] eqn:E.
  - apply kv_get_of_in. unfold keys_nodup in *. rewrite map_rev. apply NoDup_rev. exact Hn. apply in_rev. rewrite rev_involutive. apply kv_get_in. exact E.
  - destruct (kv_get k (rev m)) as [v|] eqn:E2; auto. apply kv_get_in in E2. apply in_rev in E2. apply kv_get_of_in in E2; auto. congruence.
Qed.

Lemma fold_add_nodup : forall fs acc, keys_nodup acc ->
  keys_nodup (fold_left (fun a f => kv_add (fst f) (text_of (snd f), value_of (snd f)) a) fs acc).
Proof. induction fs as [|f fs IH]; intros acc H; cbn [fold_left]; auto. apply IH. apply kv_add_nodup. exact H. Qed.

(* ---------- Data() on a kernel-style body ---------- *)
Lemma normalize_plain ty msg : plain_type ty = true -> normalize ty msg = msg.
Proof.
  intros Hty. unfold plain_type in Hty. apply negb_true_iff in Hty. cbn [existsb] in Hty.
  repeat (apply orb_false_iff in Hty; destruct Hty as [?E Hty]).
  unfold normalize. repeat match goal with H : N.eqb ty _ = false |- _ => rewrite H; clear H end. reflexivity.
Qed.

Theorem data_of_plain_body ty raw off fs :
  plain_type ty = true -> skipn off raw = body fs -> Forall field_ok fs -> Forall ordinary fs -> NoDup (map fst fs) ->
  exists data tags, data_of ty raw (Some off) = Some (data, tags) /\
    forall f, In f fs -> ordinary_key (fst f) = true -> In (fst f, value_of (snd f)) data.
Proof.
  intros Hty Hraw Hok Hord Hnd. unfold data_of. rewrite Hraw, (normalize_plain ty _ Hty).
  set (m0 := rev (extract 40 (body fs) [])).
  assert (Hnodup: keys_nodup (extract 40 (body fs) [])).
  { rewrite extract_as_fold by auto. apply fold_add_nodup. constructor. }
  assert (Hget: forall f, In f fs -> kv_get (fst f) m0 = Some (text_of (snd f), value_of (snd f))).
  { intros f Hin. unfold m0. rewrite kv_get_rev by exact Hnodup. apply extract_body; auto. }
  (* enrich succeeds whatever the key; pick its result once *)
  destruct (enrich ty m0) as [[m tags]|] eqn:Een.
  - exists (map (fun e => (fst e, snd (snd e))) m), tags. split; [reflexivity|]. intros f Hin Hk.
    destruct (enrich_keeps_ordinary ty m0 (fst f) Hty Hk) as (m' & tags' & Hen & Hkeep). rewrite Een in Hen. injection Hen as <- <-.
    rewrite (Hget f Hin) in Hkeep. apply kv_get_in in Hkeep.
    change (fst f, value_of (snd f)) with ((fun e : str * (str * str) => (fst e, snd (snd e))) (fst f, (text_of (snd f), value_of (snd f)))).
    apply in_map. exact Hkeep.
  - exfalso. destruct (enrich_keeps_ordinary ty m0 [] Hty eq_refl) as (m' & tags' & Hen & _). congruence.
Qed.
Print Assumptions data_of_plain_body.

(* ---------- the derived fields follow fixed rules ---------- *)
Lemma kv_get_del_same k m : kv_get k (kv_del k m) = None.
Proof. induction m as [|[k' v] m IH]; cbn; auto. destruct (beq k k') eqn:E; auto. cbn. rewrite E. exact IH. Qed.

(* success= / res= becomes result=success|fail and disappears *)
Theorem result_rule m o v : kv_get (L "success") m = Some (o, v) ->
  let good := isS (map lower v) "yes" || isS (map lower v) "1" || has_prefix (L "suc") (map lower v) in
  kv_get (L "result") (do_result m) = Some (newf (if good then L "success" else L "fail")) /\ kv_get (L "success") (do_result m) = None.
Proof.
  intros H good. unfold do_result. rewrite H. fold good. destruct good.
  - split. apply kv_get_add_same. rewrite kv_get_add_other by (intros C; discriminate C). apply kv_get_del_same.
  - split. apply kv_get_add_same. rewrite kv_get_add_other by (intros C; discriminate C). apply kv_get_del_same.
Qed.
Theorem result_rule_res m o v : kv_get (L "success") m = None -> kv_get (L "res") m = Some (o, v) ->
  let good := isS (map lower v) "yes" || isS (map lower v) "1" || has_prefix (L "suc") (map lower v) in
  kv_get (L "result") (do_result m) = Some (newf (if good then L "success" else L "fail")) /\ kv_get (L "res") (do_result m) = None.
Proof.
  intros H0 H good. unfold do_result. rewrite H0, H. fold good. destruct good.
  - split. apply kv_get_add_same. rewrite kv_get_add_other by (intros C; discriminate C). apply kv_get_del_same.
  - split. apply kv_get_add_same. rewrite kv_get_add_other by (intros C; discriminate C). apply kv_get_del_same.
Qed.

(* an unset auid / ses (4294967295 or -1) becomes "unset"; any other value stays *)
Theorem unset_rule k m o v : kv_get (L k) m = Some (o, v) ->
  kv_get (L k) (normalize_unset k m) = Some (o, if isS v "4294967295" || isS v "-1" then L "unset" else v).
Proof.
  intros H. unfold normalize_unset. rewrite H. destruct (isS v "4294967295" || isS v "-1"); auto.
  unfold kv_setval. rewrite H. apply kv_get_add_same.
Qed.

(* a negative exit code with a name in the errno table becomes that name; everything else stays *)
Theorem exit_rule m o v code : kv_get (L "exit") m = Some (o, v) -> atoi v = Some code ->
  kv_get (L "exit") (do_exit m) =
    Some (o, if (code <? 0)%Z then match lookup_tab (- code)%Z Errno.errno_to_name with Some n => S2 n | None => v end else v).
Proof.
  intros H Ha. unfold do_exit. rewrite H, Ha. destruct (code <? 0)%Z; auto. destruct (lookup_tab (- code)%Z Errno.errno_to_name); auto.
  unfold kv_setval. rewrite H. apply kv_get_add_same.
Qed.
Print Assumptions result_rule.
Print Assumptions unset_rule.
Print Assumptions exit_rule.

(* ---------- hex-encoded fields: the bytes come back, NULs as blanks ---------- *)
Definition nul_to_space (bs : str) : str := map (fun c => if Ascii.eqb c nul then " "%char else c) bs.

Lemma split_on_nonempty c : forall s cur, split_on c s cur <> [].
Proof. induction s as [|x r IH]; intros cur; cbn [split_on]; try discriminate. destruct (Ascii.eqb x c); [discriminate|apply IH]. Qed.

Lemma join_cons (sep x : str) l : l <> [] -> join sep (x :: l) = x ++ sep ++ join sep l.
Proof. destruct l; [contradiction|reflexivity]. Qed.

Lemma join_split_nul : forall s cur, join (L " ") (split_on nul s cur) = rev cur ++ nul_to_space s.
Proof.
  induction s as [|x r IH]; intros cur; cbn [split_on nul_to_space map].
  - cbn [join]. rewrite app_nil_r. reflexivity.
  - destruct (Ascii.eqb x nul) eqn:E.
    + rewrite join_cons by apply split_on_nonempty. rewrite IH. cbn [rev app L list_ascii_of_string]. reflexivity.
    + rewrite IH. cbn [rev]. rewrite <- app_assoc. reflexivity.
Qed.

Theorem hex_field_decodes k m bs v0 : kv_get (L k) m = Some (Hex.hex_upper bs, v0) ->
  exists m', hex_field k m = Some m' /\ kv_get (L k) m' = Some (Hex.hex_upper bs, nul_to_space bs).
Proof.
  intros H. unfold hex_field. rewrite H. unfold hex_to_strings, hex_decode. rewrite Hex.decode_hex_roundtrip. cbn [option_map].
  eexists. split; [reflexivity|]. unfold kv_setval. rewrite H, kv_get_add_same. rewrite join_split_nul. reflexivity.
Qed.
Print Assumptions hex_field_decodes.

(* ---------- Data() of the decoded record types: the common steps leave a map without their keys alone,
   so Data() is the type's own decoder applied to the extracted fields ---------- *)
Definition common_keys : list string := ["ses"; "old-auid"; "auid"; "subj"; "success"; "res"; "exit"; "key"; "cwd"].
Definition untouched (m : kvlist) : Prop := forall t, In t common_keys -> kv_get (L t) m = None.
Lemma common_steps_identity m : untouched m ->
  opt_or (hex_field "cwd" m) m = m /\ do_key m = (m, []) /\ do_exit m = m /\ do_result m = m /\ selinux_ctx "subj" m = m /\
  normalize_unset "ses" m = m /\ normalize_unset "old-auid" m = m /\ normalize_unset "auid" m = m.
Proof.
  intros H. unfold hex_field, do_key, do_exit, do_result, selinux_ctx, normalize_unset.
  rewrite !H by (cbn; tauto). repeat split; reflexivity.
Qed.
Theorem enrich_execve m0 : untouched m0 -> enrich MsgTypes.AUDIT_EXECVE m0 = option_map (fun m => (m, [])) (do_execve m0).
Proof.
  intros H. destruct (common_steps_identity m0 H) as (H8 & H7 & H6 & H5 & H4 & H1 & H2 & H3).
  unfold enrich. rewrite H3, H2, H1, H4, H5, H6, H7, H8. reflexivity.
Qed.
Theorem enrich_sockaddr m0 : untouched m0 -> enrich MsgTypes.AUDIT_SOCKADDR m0 = option_map (fun m => (m, [])) (do_saddr m0).
Proof.
  intros H. destruct (common_steps_identity m0 H) as (H8 & H7 & H6 & H5 & H4 & H1 & H2 & H3).
  unfold enrich. rewrite H3, H2, H1, H4, H5, H6, H7, H8. reflexivity.
Qed.
Theorem enrich_proctitle m0 : untouched m0 -> enrich MsgTypes.AUDIT_PROCTITLE m0 = option_map (fun m => (m, [])) (hex_field "proctitle" m0).
Proof.
  intros H. destruct (common_steps_identity m0 H) as (H8 & H7 & H6 & H5 & H4 & H1 & H2 & H3).
  unfold enrich. rewrite H3, H2, H1, H4, H5, H6, H7, H8. reflexivity.
Qed.

(* the extracted map of a kernel-style body, as enrichData receives it *)
Definition fields_map (fs : list (str * fval)) : kvlist :=
  rev (fold_left (fun a f => kv_add (fst f) (text_of (snd f), value_of (snd f)) a) fs []).
Definition no_common_key (fs : list (str * fval)) : Prop := forall t, In t common_keys -> ~ In (L t) (map fst fs).
Lemma fields_map_untouched fs : Forall field_ok fs -> Forall ordinary fs -> no_common_key fs -> untouched (fields_map fs).
Proof.
  intros Hok Hord Hn t Ht. unfold fields_map. rewrite kv_get_rev by (apply fold_add_nodup; constructor).
  rewrite fold_fields; auto.
Qed.
Definition render (m : kvlist) : list (str * str) := map (fun e => (fst e, snd (snd e))) m.
Definition decoder_of (ty : N) : option (kvlist -> option kvlist) :=
  if (ty =? MsgTypes.AUDIT_EXECVE)%N then Some do_execve
  else if (ty =? MsgTypes.AUDIT_SOCKADDR)%N then Some do_saddr
  else if (ty =? MsgTypes.AUDIT_PROCTITLE)%N then Some (hex_field "proctitle")
  else None.
Theorem data_of_decoded_body ty dec raw off fs :
  decoder_of ty = Some dec -> skipn off raw = body fs -> Forall field_ok fs -> Forall ordinary fs -> no_common_key fs ->
  data_of ty raw (Some off) = option_map (fun m => (render m, [])) (dec (fields_map fs)).
Proof.
  intros Hd Hraw Hok Hord Hn. pose proof (fields_map_untouched fs Hok Hord Hn) as Hu.
  unfold decoder_of in Hd.
  destruct (N.eqb_spec ty MsgTypes.AUDIT_EXECVE) as [->|_].
  { injection Hd as <-. unfold data_of. rewrite Hraw. change (normalize MsgTypes.AUDIT_EXECVE (body fs)) with (body fs).
    rewrite extract_as_fold by auto. fold (fields_map fs). rewrite (enrich_execve _ Hu). destruct (do_execve (fields_map fs)); reflexivity. }
  destruct (N.eqb_spec ty MsgTypes.AUDIT_SOCKADDR) as [->|_].
  { injection Hd as <-. unfold data_of. rewrite Hraw. change (normalize MsgTypes.AUDIT_SOCKADDR (body fs)) with (body fs).
    rewrite extract_as_fold by auto. fold (fields_map fs). rewrite (enrich_sockaddr _ Hu). destruct (do_saddr (fields_map fs)); reflexivity. }
  destruct (N.eqb_spec ty MsgTypes.AUDIT_PROCTITLE) as [->|_]; [|discriminate].
  injection Hd as <-. unfold data_of. rewrite Hraw. change (normalize MsgTypes.AUDIT_PROCTITLE (body fs)) with (body fs).
  rewrite extract_as_fold by auto. fold (fields_map fs). rewrite (enrich_proctitle _ Hu). destruct (hex_field "proctitle" (fields_map fs)); reflexivity.
Qed.
Example data_of_decoded_body_applies :
  decoder_of 1309%N = Some do_execve /\
  no_common_key [(L "argc", Plain (L "2")); (L "a0", Quoted (L "ls")); (L "a1", Plain (L "2D6C2061"))].
Proof. split; [reflexivity|]. intros t Ht C. cbn in Ht, C. repeat (destruct Ht as [<-|Ht]; [cbn in C; intuition discriminate|]). contradiction. Qed.
Print Assumptions data_of_decoded_body.
