From Coq Require Import ZArith Bool Lia ZifyBool.
Require Import Reassembler.
Open Scope Z_scope.
Ltac Zify.zify_post_hook ::= Z.div_mod_to_equations.

Definition off (base x : Z) := (x - base) mod 2^32.
Definition inwin (base x : Z) := 0 <= x < 2^32 /\ off base x < 2^24.

Lemma less_in_window base a b : 0 <= base < 2^32 -> inwin base a -> inwin base b ->
  less a b = true <-> off base a < off base b.
Proof.
  unfold inwin, off, less, maxSortRange. intros Hb [Ha Hoa] [Hb' Hob].
  change (2^32) with 4294967296 in *. change (2^24) with 16777216 in *.
  destruct (Z.abs (a - b) >? 16777216 - 1) eqn:E; lia.
Qed.
Print Assumptions less_in_window.
