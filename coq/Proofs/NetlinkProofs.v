(* Proofs/NetlinkProofs.v — the audit message parser against the fixed-offset
   reading of struct nlmsghdr; the decision logic of Receive; distinct sequence
   numbers. *)
From Coq Require Import List Ascii NArith ZArith Bool Lia ZifyBool ZifyN ZifyNat.
Import ListNotations.
Require Import Mach Netlink Uapi ChkC18.
Open Scope N_scope.

Theorem parse_audit_message_spec buf :
  ((length buf < 16)%nat -> parse_audit_message buf = None) /\
  ((16 <= length buf)%nat -> exists h, parse_audit_message buf = Some (h, skipn 16 buf) /\
     (nl_len h, nl_type h, nl_flags h, nl_seq h, nl_pid h) = uapi_hdr buf).
Proof.
  unfold parse_audit_message. split; intros H.
  - replace (length buf <? 16)%nat with true by lia. reflexivity.
  - replace (length buf <? 16)%nat with false by lia.
    do 16 (destruct buf as [|? buf]; [cbn in H; lia|]).
    eexists. split; [reflexivity|]. reflexivity.
Qed.

(* NetlinkClient.Receive: what it does with nr bytes received from a sender *)
Inductive rres {A} := RecvErr | RecvOk (a : A).
Definition receive {A} (nr : nat) (sender_is_netlink : bool) (sender_pid : N) (buf : str) (parser : str -> option A) : @rres A :=
  if (nr <? 16)%nat then RecvErr
  else if negb sender_is_netlink || negb (sender_pid =? 0) then RecvErr
  else match parser (firstn nr buf) with Some a => RecvOk a | None => RecvErr end.

Theorem receive_kernel_only {A} nr isnl pid buf (parser : str -> option A) a :
  receive nr isnl pid buf parser = RecvOk a -> isnl = true /\ pid = 0 /\ (16 <= nr)%nat /\ parser (firstn nr buf) = Some a.
Proof.
  unfold receive. destruct (nr <? 16)%nat eqn:E1; [discriminate|]. destruct isnl; cbn [negb orb]; [|discriminate].
  destruct (pid =? 0) eqn:E2; cbn [negb]; [|discriminate]. destruct (parser (firstn nr buf)); [|discriminate].
  intros H. inversion H. apply N.eqb_eq in E2. repeat split; auto. lia.
Qed.

(* each Send is one atomic increment of the counter, so however goroutines interleave,
   the values returned are those of consecutive sends: pairwise distinct *)
Lemma sends_nth : forall n c, cseq c + N.of_nat n < 2^32 -> forall i a, nth_error (sends c n) i = Some a -> a = cseq c + 1 + N.of_nat i.
Proof.
  induction n as [|n IH]; intros c H i a Hi; cbn [sends] in Hi. destruct i; discriminate.
  unfold send in Hi. cbn [cseq port] in Hi. change (2^32) with 4294967296 in *.
  destruct i as [|i]; cbn [nth_error] in Hi.
  - inversion Hi. rewrite N.mod_small by lia. lia.
  - apply IH in Hi; cbn [cseq] in *; rewrite N.mod_small in * by lia; lia.
Qed.
Theorem sends_nodup n c : cseq c + N.of_nat n < 2^32 -> NoDup (sends c n).
Proof.
  intros H. apply NoDup_nth_error. intros i j Hi Hij.
  destruct (nth_error (sends c n) i) as [a|] eqn:Ea; [|apply nth_error_None in Ea; lia].
  symmetry in Hij. pose proof (sends_nth n c H i a Ea) as H1. pose proof (sends_nth n c H j a Hij) as H2. lia.
Qed.
