(* Proofs/ParseEnrichIds.v — Data() of a record type without enrichment of its own: an unset auid / old-auid / ses
   (4294967295 or -1) is reported as "unset", any other value as written - whichever of the three fields the record
   carries, and whatever else it carries. *)
From Coq Require Import List Ascii String NArith ZArith Bool Arith Lia.
Import ListNotations.
Require Import KV Trim Header Parser ParseProofs ParseBody ParseEnrich.
Local Close Scope N_scope.
Local Open Scope string_scope.
Local Open Scope nat_scope.
Local Open Scope list_scope.

(* keys the steps after the three normalize_unset calls read, rewrite, remove or create *)
Definition later_touched : list string :=
  ["subj"; "subj_user"; "subj_role"; "subj_domain"; "subj_level"; "subj_category"; "success"; "res"; "result"; "exit"; "key"; "cwd"].
Definition id_key (k : str) : bool := forallb (fun t => negb (beq k (L t))) later_touched.
Lemma id_ne k t : id_key k = true -> In t later_touched -> k <> L t.
Proof. intros H Hin. unfold id_key in H. rewrite forallb_forall in H. specialize (H _ Hin). apply negb_true_iff in H. apply beq_false_ne. exact H. Qed.

Section KeepId.
Variable k : str.
Hypothesis Hk : id_key k = true.
Ltac ne t := apply (id_ne k t Hk); cbn; tauto.

Lemma keepi_selinux_subj m : kv_get k (selinux_ctx "subj" m) = kv_get k m.
Proof.
  unfold selinux_ctx. destruct (kv_get (L "subj") m) as [[o v]|]; auto.
  assert (G: forall pns a, Forall (fun pn => In (snd pn) [L "_user"; L "_role"; L "_domain"; L "_level"; L "_category"]) pns ->
             kv_get k (fold_left (fun a pn => kv_add (L "subj" ++ snd pn) (newf (fst pn)) a) pns a) = kv_get k a).
  { induction pns as [|[pt nm] pns IH]; intros a Hf; cbn [fold_left]; auto. inversion Hf as [|? ? Hp Hr]; subst. rewrite IH by auto.
    cbn [fst snd] in *. apply kv_get_add_other. cbn [In] in Hp. destruct Hp as [<-|[<-|[<-|[<-|[<-|[]]]]]].
    - ne "subj_user". - ne "subj_role". - ne "subj_domain". - ne "subj_level". - ne "subj_category". }
  rewrite G. apply kv_get_del_other. ne "subj".
  apply Forall_forall. intros [pt nm] Hin. apply in_combine_r in Hin. exact Hin.
Qed.
Lemma keepi_result m : kv_get k (do_result m) = kv_get k m.
Proof.
  unfold do_result. destruct (kv_get (L "success") m) as [[o v]|].
  - destruct (_ || _); rewrite kv_get_add_other by (ne "result"); apply kv_get_del_other; ne "success".
  - destruct (kv_get (L "res") m) as [[o v]|]; auto.
    destruct (_ || _); rewrite kv_get_add_other by (ne "result"); apply kv_get_del_other; ne "res".
Qed.
Lemma keepi_exit m : kv_get k (do_exit m) = kv_get k m.
Proof.
  unfold do_exit. destruct (kv_get (L "exit") m) as [[o v]|]; auto. destruct (atoi v) as [c|]; auto. destruct (c <? 0)%Z; auto.
  destruct (lookup_tab _ _); auto. apply kv_get_setval_other. ne "exit".
Qed.
Lemma keepi_key m : kv_get k (fst (do_key m)) = kv_get k m.
Proof.
  unfold do_key. destruct (kv_get (L "key") m) as [[o v]|]; auto.
  assert (E: kv_get k (kv_del (L "key") m) = kv_get k m) by (apply kv_get_del_other; ne "key").
  destruct (hex_decode o); [exact E|]. destruct (splitn _ _ _ _) as [|a [|b [|c r]]]; exact E.
Qed.
Lemma keepi_cwd m : kv_get k (opt_or (hex_field "cwd" m) m) = kv_get k m.
Proof.
  unfold hex_field. destruct (kv_get (L "cwd") m) as [[o v]|]; auto. destruct (hex_to_strings o); auto.
  cbn [opt_or]. apply kv_get_setval_other. ne "cwd".
Qed.
End KeepId.

Definition unset_of (v : str) : str := if isS v "4294967295" || isS v "-1" then L "unset" else v.
Lemma unset_other t k m : L k <> L t -> kv_get (L k) (normalize_unset t m) = kv_get (L k) m.
Proof.
  intros Hne. unfold normalize_unset. destruct (kv_get (L t) m) as [[o v]|]; auto. destruct (_ || _); auto.
  apply kv_get_setval_other. exact Hne.
Qed.

Theorem enrich_unset_ids ty m0 k o v : plain_type ty = true -> In k ["auid"; "old-auid"; "ses"] ->
  kv_get (L k) m0 = Some (o, v) ->
  exists m tags, enrich ty m0 = Some (m, tags) /\ kv_get (L k) m = Some (o, unset_of v).
Proof.
  intros Hty Hin Hget. unfold enrich.
  set (m1 := normalize_unset "ses" (normalize_unset "old-auid" (normalize_unset "auid" m0))).
  assert (H1: kv_get (L k) m1 = Some (o, unset_of v)).
  { unfold m1, unset_of. cbn [In] in Hin. destruct Hin as [<-|[<-|[<-|[]]]].
    - rewrite !unset_other by discriminate. apply unset_rule. exact Hget.
    - rewrite unset_other by discriminate. apply unset_rule. rewrite unset_other by discriminate. exact Hget.
    - apply unset_rule. rewrite !unset_other by discriminate. exact Hget. }
  assert (Hk: id_key (L k) = true). { cbn [In] in Hin. destruct Hin as [<-|[<-|[<-|[]]]]; reflexivity. }
  set (m2 := do_exit (do_result (selinux_ctx "subj" m1))).
  pose proof (keepi_key (L k) Hk m2) as Hkey. destruct (do_key m2) as [m3 tags]. cbn [fst] in Hkey.
  unfold plain_type in Hty. apply negb_true_iff in Hty. cbn [existsb] in Hty.
  repeat (apply orb_false_iff in Hty; destruct Hty as [?E Hty]).
  repeat match goal with H : N.eqb ty _ = false |- _ => rewrite H; clear H end. cbn [orb].
  exists (opt_or (hex_field "cwd" m3) m3), tags. split; [reflexivity|].
  rewrite (keepi_cwd (L k) Hk), Hkey. subst m2. rewrite (keepi_exit (L k) Hk), (keepi_result (L k) Hk), (keepi_selinux_subj (L k) Hk). exact H1.
Qed.
Print Assumptions enrich_unset_ids.
