(* Proofs/RuleDecodeBack.v — decoding the wire form of built data gives back its triples and strings,
   so the text of the wire form is the text of the data. *)
From Coq Require Import List Ascii String Arith NArith ZArith Bool Lia ZifyBool ZifyN ZifyNat.
Import ListNotations.
Require Import Bytes Dec Mach RuleTables RuleDecode Mask RuleEncode RuleText RuleValue Flags RuleBuild.
Require Import RuleWire RuleSpecWf RuleReprint RuleFieldsBack.
Local Open Scope list_scope.
Open Scope N_scope.

(* each string-valued triple carries the length of its one string; the others carry no string *)
Definition aligned (e : trip) : Prop :=
  let '((f, _, v), ss) := e in if is_string_field f then exists sv, ss = [sv] /\ v = N.of_nat (List.length sv) else ss = [].

Lemma built_aligned lst : forall fs l, built lst fs l -> Forall aligned l.
Proof.
  induction 1 as [|f it t ss fs l H1 H2 H3 H4 IH]; constructor; auto.
  destruct f as [[[cmp lhs] o] rhs]. unfold item_of_filter in H1. destruct cmp.
  - injection H1 as <-. destruct (triple_cmp_inv _ _ _ _ _ _ H2) as (oc & a & b & tb & c & _ & _ & _ & _ & _ & _ & -> & ->). reflexivity.
  - destruct (lookupS lhs fields_table) as [fc|]; [|discriminate]. destruct (is_string_field fc) eqn:Es.
    + injection H1 as <-. destruct (triple_str_inv _ _ _ _ _ _ H2) as (fc' & oc & _ & _ & Hs & -> & -> & _). unfold aligned. rewrite Hs. eauto.
    + destruct (parse_value fc rhs); try discriminate. injection H1 as <-.
      destruct (triple_num_inv _ _ _ _ _ _ H2) as (fc' & oc & _ & _ & Hs & -> & -> & _). unfold aligned. rewrite Hs. reflexivity.
Qed.

Lemma nth_error_firstn_lt {A} : forall n (l : list A) i, (i < n)%nat -> nth_error (firstn n l) i = nth_error l i.
Proof. induction n as [|n IH]; intros l i H; [lia|]. destruct l as [|x l]; cbn [firstn]; auto. destruct i; cbn [nth_error]; auto. apply IH. lia. Qed.

Lemma nth_error_pad64 (xs : list N) i : (i < List.length xs)%nat -> (List.length xs <= 64)%nat -> nth_error (pad64 xs) i = nth_error xs i.
Proof.
  intros Hi Hl. unfold pad64. rewrite nth_error_firstn_lt by lia. rewrite nth_error_app1 by lia. reflexivity.
Qed.

Lemma slice_mid (a b c : str) : slice (a ++ b ++ c) (List.length a) (List.length a + List.length b) = Some b.
Proof.
  unfold slice. rewrite !app_length.
  replace ((List.length a <=? List.length a + List.length b)%nat && (List.length a + List.length b <=? List.length a + (List.length b + List.length c))%nat) with true by lia.
  f_equal. rewrite skipn_app, skipn_all, Nat.sub_diag. cbn [skipn app].
  replace (List.length a + List.length b - List.length a)%nat with (List.length b) by lia.
  rewrite firstn_app, firstn_all, Nat.sub_diag. cbn [firstn]. apply app_nil_r.
Qed.

Section Walk.
Variable h : hdr.
Variable l : list trip.
Hypothesis Hlen : (List.length l <= 64)%nat.
Hypothesis Hf : fields h = pad64 (map (fun t => fst (fst t)) (map fst l)).
Hypothesis Hv : values h = pad64 (map snd (map fst l)).
Hypothesis Ho : fflags h = pad64 (map (fun t => snd (fst t)) (map fst l)).
Hypothesis Hb : buflen h = N.of_nat (List.length (List.concat (flat_map snd l))).

Lemma walk_built : forall rem pre acc, l = pre ++ rem -> Forall aligned rem ->
  walk (List.length rem) (List.length pre) h (List.concat (flat_map snd l)) (N.of_nat (List.length (List.concat (flat_map snd pre)))) acc =
  Ok {| r_fields := r_fields acc ++ map fst rem; r_strings := r_strings acc ++ flat_map snd rem |}.
Proof.
  induction rem as [|[[[f o] v] ss] rem IH]; intros pre acc Hl Hal; cbn [List.length walk].
  - cbn. rewrite !app_nil_r. destruct acc; reflexivity.
  - inversion Hal as [|? ? Ha Hr]; subst.
    assert (Hi: (List.length pre < List.length (pre ++ ((f, o, v), ss) :: rem))%nat) by (rewrite app_length; cbn [List.length]; lia).
    assert (Hn: forall (g : N * N * N -> N), nth_error (pad64 (map g (map fst (pre ++ ((f, o, v), ss) :: rem)))) (List.length pre) = Some (g (f, o, v))).
    { intros g. rewrite nth_error_pad64 by (rewrite !map_length; lia). rewrite !map_app. rewrite nth_error_app2 by (rewrite !map_length; lia).
      rewrite !map_length, Nat.sub_diag. reflexivity. }
    rewrite Hf, Ho, Hv. rewrite (Hn (fun t => fst (fst t))), (Hn (fun t => snd (fst t))), (Hn snd). cbn [fst snd].
    specialize (IH (pre ++ [((f, o, v), ss)])). rewrite <- app_assoc in IH. cbn [app] in IH.
    assert (Hlen1: List.length (pre ++ [((f, o, v), ss)]) = S (List.length pre)) by (rewrite app_length; cbn; lia).
    unfold aligned in Ha. destruct (is_string_field f).
    + destruct Ha as (sv & -> & ->). rewrite Hb.
      rewrite flat_map_app. cbn [flat_map snd app]. rewrite !concat_app. cbn [List.concat]. rewrite !app_length.
      replace (N.of_nat (List.length (List.concat (flat_map snd pre)) + (List.length sv + (List.length (List.concat (flat_map snd rem)))))%nat
               - N.of_nat (List.length (List.concat (flat_map snd pre))) <? N.of_nat (List.length sv)) with false by lia.
      replace (N.to_nat (N.of_nat (List.length (List.concat (flat_map snd pre))))) with (List.length (List.concat (flat_map snd pre))) by lia.
      replace (N.to_nat (N.of_nat (List.length (List.concat (flat_map snd pre))) + N.of_nat (List.length sv)))
        with (List.length (List.concat (flat_map snd pre)) + List.length sv)%nat by lia.
      rewrite ?app_nil_r. rewrite slice_mid.
      rewrite <- Hlen1.
      replace (N.of_nat (List.length (List.concat (flat_map snd pre))) + N.of_nat (List.length sv))
        with (N.of_nat (List.length (List.concat (flat_map snd (pre ++ [((f, o, N.of_nat (List.length sv)), [sv])]))))).
      2:{ rewrite flat_map_app, concat_app, app_length. cbn. rewrite ?app_nil_r. lia. }
      assert (E: List.concat (flat_map snd pre) ++ sv ++ List.concat (flat_map snd rem) =
                 List.concat (flat_map snd (pre ++ ((f, o, N.of_nat (List.length sv)), [sv]) :: rem))).
      { rewrite flat_map_app, concat_app. cbn [flat_map snd app List.concat]. reflexivity. }
      rewrite E. rewrite IH; auto. cbn [r_fields r_strings map fst flat_map snd app]. rewrite <- !app_assoc. reflexivity.
    + subst ss. rewrite <- Hlen1.
      replace (N.of_nat (List.length (List.concat (flat_map snd pre))))
        with (N.of_nat (List.length (List.concat (flat_map snd (pre ++ [((f, o, v), [])]))))).
      2:{ rewrite flat_map_app, concat_app, app_length. cbn. lia. }
      rewrite IH; auto. cbn [r_fields r_strings map fst flat_map snd app]. rewrite <- !app_assoc. reflexivity.
Qed.
End Walk.

Theorem decode_of_built d l : wf_data d -> w_triples d = map fst l -> w_strings d = flat_map snd l -> Forall aligned l ->
  exists h buf, from_wire (to_wire d) = Ok (h, buf) /\ flags h = w_flags d /\ action h = w_action d /\ mask h = w_mask d /\
                from_audit_rule_data h buf = Ok {| r_fields := w_triples d; r_strings := w_strings d |}.
Proof.
  intros Hwf Ht Hs Hal. rewrite (from_wire_to_wire d Hwf).
  match goal with |- exists h buf, Ok (?H, ?B) = _ /\ _ => set (h := H); exists h, B end.
  split; [reflexivity|]. subst h. cbn [flags action mask]. repeat split; auto.
  unfold from_audit_rule_data. cbn [fcount].
  destruct Hwf as (Hlen & _). rewrite Ht, map_length in Hlen.
  replace (64 <? N.of_nat (List.length (w_triples d))) with false by (rewrite Ht, map_length; lia).
  rewrite Ht, Hs, map_length, Nat2N.id.
  match goal with |- walk _ _ ?H _ _ _ = _ => set (h := H) end.
  assert (Hf: fields h = pad64 (map (fun t => fst (fst t)) (map fst l))) by reflexivity.
  assert (Hv: values h = pad64 (map snd (map fst l))) by reflexivity.
  assert (Ho: fflags h = pad64 (map (fun t => snd (fst t)) (map fst l))) by reflexivity.
  assert (Hb: buflen h = N.of_nat (List.length (List.concat (flat_map snd l)))) by reflexivity.
  pose proof (walk_built h l Hlen Hf Hv Ho Hb l [] {| r_fields := []; r_strings := [] |} eq_refl Hal) as Hw.
  cbn [List.length flat_map List.concat r_fields r_strings app] in Hw. exact Hw.
Qed.
Print Assumptions decode_of_built.
