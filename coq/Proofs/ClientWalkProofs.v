(* Proofs/ClientWalkProofs.v — the C17 clause of the judge (Check/ChkClient.chk_c17_call, with the bookkeeping the checker
   keeps in its own state k17) accepts EVERY run of the model: every operation sequence, kernel script and send-fault
   script.  Judge and model are written independently; this is the simulation between them. *)
From Coq Require Import List Ascii NArith ZArith Bool Lia.
Import ListNotations.
Require Import Mach AuditConsts MsgTypes AuditClient Uapi ChkClient RuleWire ClientProofs ClientAckProofs ClientSpecProofs StatusProofs.
Open Scope N_scope.

(* the checker's bookkeeping mirrors the client's *)
Definition tracks (s : cstate) (st : k17) : Prop :=
  kp st = pending s /\ kpid st = clear_pid s /\ kclosed st = closed s /\ ktrack st = true.

Definition head_fault (w : world) : bool := match sfaults w with Some _ :: _ => true | _ => false end.
Definition used (w w' : world) : N := N.of_nat (length (rscript w) - length (rscript w')).

(* one call of the model, judged by the checker's C17 clause *)
Definition judged_step (st : k17) (s : cstate) (w : world) (o : cop) : k17 * bool * cstate * world :=
  let '(s', w', (res, ws, cl)) := cstep s w o in
  let '(st', ok) := chk_c17_call st o (next_seq s) (head_fault w) (rscript w) res ws cl (used w w') in
  (st', ok, s', w').

Lemma cerr_eqb_refl e : cerr_eqb e e = true.
Proof. destruct e; cbn [cerr_eqb]; try reflexivity; apply Z.eqb_refl. Qed.
Lemma cres_fail_refl e : cres_eqb (RFail e) (RFail e) = true.
Proof. cbn [cres_eqb]. apply cerr_eqb_refl. Qed.
Lemma firstn_used {A} (u r : list A) : firstn (length (u ++ r) - length r) (u ++ r) = u.
Proof.
  rewrite app_length. replace (length u + length r - length r)%nat with (length u) by lia.
  rewrite firstn_app, Nat.sub_diag, firstn_all. cbn [firstn]. apply app_nil_r.
Qed.
Lemma pid_clear_wire : wires_eqb [(AuditSet, REQ_ACK, status_bytes AuditStatusPID off_st_pid 0)]
                                 [(UAPI_AUDIT_SET, UAPI_REQ_ACK, ustatus_bytes (uapi_setter_status SPID 0))] = true.
Proof. vm_compute. reflexivity. Qed.

(* ---- calls that leave the bookkeeping alone ---- *)
Definition same3 (s s1 : cstate) : Prop := pending s1 = pending s /\ clear_pid s1 = clear_pid s /\ closed s1 = closed s.
Lemma same3_refl s : same3 s s. Proof. repeat split. Qed.
Lemma same3_trans a b c : same3 a b -> same3 b c -> same3 a c.
Proof. intros (A & B & C) (D & E & F). repeat split; congruence. Qed.

Lemma ack_cmd_same s w ty d s1 w1 e ws : ack_cmd s w ty d = (s1, w1, e, ws) -> same3 s s1.
Proof.
  unfold ack_cmd, do_send. destruct (sfaults w) as [|[x|] fs].
  - destruct (reply _ _). intros H. injection H as <- _ _ _. repeat split.
  - intros H. injection H as <- _ _ _. repeat split.
  - destruct (reply _ _). intros H. injection H as <- _ _ _. repeat split.
Qed.
Lemma get_status_same s w s1 w1 r ws : get_status s w = (s1, w1, r, ws) -> same3 s s1.
Proof.
  unfold get_status, do_send. destruct (sfaults w) as [|[x|] fs].
  - destruct (reply _ _) as [r0 rest]. destruct (check_ack r0); [|destruct (reply _ _)]; intros H; injection H as <- _ _ _; repeat split.
  - intros H. injection H as <- _ _ _. repeat split.
  - destruct (reply _ _) as [r0 rest]. destruct (check_ack r0); [|destruct (reply _ _)]; intros H; injection H as <- _ _ _; repeat split.
Qed.
Lemma get_rules_same s w s1 w1 r ws : get_rules s w = (s1, w1, r, ws) -> same3 s s1.
Proof.
  unfold get_rules, do_send. destruct (sfaults w) as [|[x|] fs].
  - destruct (reply _ _) as [r0 rest]. destruct (check_ack r0); [|destruct (collect_rules _ _ _ _)]; intros H; injection H as <- _ _ _; repeat split.
  - intros H. injection H as <- _ _ _. repeat split.
  - destruct (reply _ _) as [r0 rest]. destruct (check_ack r0); [|destruct (collect_rules _ _ _ _)]; intros H; injection H as <- _ _ _; repeat split.
Qed.
Lemma delete_all_same : forall rules s w sent s1 w1 e ws, delete_all s w rules sent = (s1, w1, e, ws) -> same3 s s1.
Proof.
  induction rules as [|r rules IH]; intros s w sent s1 w1 e ws H; cbn [delete_all] in H.
  - injection H as <- _ _ _. apply same3_refl.
  - destruct (ack_cmd s w AUDIT_DEL_RULE r) as [[[s2 w2] e2] ws2] eqn:E. pose proof (ack_cmd_same _ _ _ _ _ _ _ _ E) as H2.
    destruct e2.
    + injection H as <- _ _ _. exact H2.
    + eapply same3_trans; [exact H2|]. eapply IH. exact H.
Qed.

Lemma tracks_same s s1 st : tracks s st -> same3 s s1 -> tracks s1 st.
Proof. intros (A & B & C & D) (E & F & G). unfold tracks. rewrite E, F, G. auto. Qed.

(* ---- GetRules: what is handed out is what the kernel listed ---- *)
Lemma get_rules_listed s w e rest0 rules rest1 : head_fault w = false ->
  spec_ack (next_seq s) (rscript w) = VAck e rest0 -> Z.eqb e 0 = true ->
  spec_rules (S (length rest0)) (next_seq s) rest0 [] = Some (Some (rules, rest1)) ->
  result_of (snd (cstep s w OGetRules)) = RRules rules.
Proof.
  intros Hf Ea Ee Esr.
  assert (Hn : no_fault w). { unfold no_fault, head_fault in *. destruct (sfaults w) as [|[x|] fs]; try exact I. discriminate. }
  rewrite (get_rules_is s w Hn). unfold get_rules_result.
  destruct (spec_ack_reply _ _ _ _ Ea) as (ty & d & Hr & Hck). rewrite Ee in Hck. rewrite Hr, Hck.
  pose proof (spec_rules_collect (S (length rest0)) (next_seq s) rest0 []) as HS. rewrite Esr in HS. rewrite HS. reflexivity.
Qed.

(* ---- the step ---- *)
Theorem judged_step_ok st s w o : tracks s st ->
  let '(st', ok, s', w') := judged_step st s w o in ok = true /\ tracks s' st'.
Proof.
  intros T. pose proof T as (Hp & Hi & Hc & Ht). unfold judged_step.
  destruct o as [| | d| d| |k v wait| | |].
  - (* GetStatus *) cbn [cstep]. destruct (get_status s w) as [[[s1 w1] r] ws] eqn:E. cbn [chk_c17_call].
    split; [reflexivity|]. eapply tracks_same; [exact T|]. eapply get_status_same; exact E.
  - (* GetRules *)
    pose proof (get_rules_listed s w) as HL. cbn [cstep] in *.
    destruct (get_rules s w) as [[[s1 w1] r] ws] eqn:E. cbn [chk_c17_call]. cbn [snd result_of fst] in HL.
    split; [|eapply tracks_same; [exact T|]; eapply get_rules_same; exact E].
    cbn [negb andb]. destruct (head_fault w) eqn:Hf; [reflexivity|].
    destruct (spec_ack (next_seq s) (rscript w)) as [e rest0| |] eqn:Ea; try reflexivity.
    destruct (Z.eqb e 0) eqn:Ee; [|reflexivity].
    destruct (spec_rules (S (length rest0)) (next_seq s) rest0 []) as [[[rules rest1]|]|] eqn:Esr; try reflexivity.
    rewrite (HL e rest0 rules rest1 eq_refl eq_refl Ee Esr).
    match goal with |- context [match ?r with inl _ => _ | inr _ => _ end] => idtac | _ => idtac end.
    cbn [cres_eqb]. apply lbytes_eqb_refl'.
  - (* AddRule *) cbn [cstep]. destruct (ack_cmd s w AUDIT_ADD_RULE d) as [[[s1 w1] e] ws] eqn:E. cbn [chk_c17_call].
    split; [reflexivity|]. eapply tracks_same; [exact T|]. eapply ack_cmd_same; exact E.
  - (* DeleteRule *) cbn [cstep]. destruct (ack_cmd s w AUDIT_DEL_RULE d) as [[[s1 w1] e] ws] eqn:E. cbn [chk_c17_call].
    split; [reflexivity|]. eapply tracks_same; [exact T|]. eapply ack_cmd_same; exact E.
  - (* DeleteRules *) cbn [cstep]. destruct (get_rules s w) as [[[s1 w1] r] ws] eqn:E.
    pose proof (get_rules_same _ _ _ _ _ _ E) as H1. destruct r as [e|rs].
    + cbn [chk_c17_call]. split; [reflexivity|]. eapply tracks_same; eauto.
    + destruct (delete_all s1 w1 rs ws) as [[[s2 w2] e2] ws2] eqn:E2. cbn [chk_c17_call]. split; [reflexivity|].
      eapply tracks_same; [exact T|]. eapply same3_trans; [exact H1|]. eapply delete_all_same; exact E2.
  - (* Set* *)
    cbn [cstep]. unfold cset.
    set (s0 := match k with SPID => _ | _ => s end).
    assert (H0 : pending s0 = pending s /\ closed s0 = closed s /\ nseq s0 = nseq s /\
                 clear_pid s0 = match k with SPID => true | _ => clear_pid s end) by (destruct k; repeat split).
    destruct H0 as (A0 & C0 & N0 & P0).
    unfold do_send, head_fault, used. rewrite N0. fold (next_seq s).
    destruct (sfaults w) as [|[x|] fs]; cbn [rscript].
    + (* no fault scripted *)
      destruct wait.
      * destruct (reply (next_seq s) (rscript w)) as [r rest]. cbn [chk_c17_call negb andb].
        split; [reflexivity|]. unfold tracks. cbn [kp kpid kclosed ktrack pending clear_pid closed].
        rewrite A0, C0, P0, Hp, Hc, Ht. repeat split. destruct k; try exact Hi; reflexivity.
      * cbn [chk_c17_call negb andb rscript]. rewrite Nat.sub_diag. cbn [N.of_nat N.eqb andb cres_eqb].
        split; [reflexivity|]. unfold tracks. cbn [kp kpid kclosed ktrack pending clear_pid closed].
        rewrite A0, C0, P0, Hp, Hc, Ht. repeat split. destruct k; try exact Hi; reflexivity.
    + (* the send fails *)
      cbn [chk_c17_call negb andb rscript]. rewrite Nat.sub_diag. cbn [N.of_nat N.eqb andb].
      split; [destruct wait; reflexivity|]. unfold tracks. cbn [kp kpid kclosed ktrack pending clear_pid closed].
      rewrite A0, C0, P0, Hp, Hc, Ht. repeat split; [destruct wait; reflexivity|]. destruct k; try exact Hi; reflexivity.
    + destruct wait.
      * destruct (reply (next_seq s) (rscript w)) as [r rest]. cbn [chk_c17_call negb andb].
        split; [reflexivity|]. unfold tracks. cbn [kp kpid kclosed ktrack pending clear_pid closed].
        rewrite A0, C0, P0, Hp, Hc, Ht. repeat split. destruct k; try exact Hi; reflexivity.
      * cbn [chk_c17_call negb andb rscript]. rewrite Nat.sub_diag. cbn [N.of_nat N.eqb andb cres_eqb].
        split; [reflexivity|]. unfold tracks. cbn [kp kpid kclosed ktrack pending clear_pid closed].
        rewrite A0, C0, P0, Hp, Hc, Ht. repeat split. destruct k; try exact Hi; reflexivity.
  - (* WaitForPendingACKs *)
    cbn [cstep]. destruct (wait_acks s (rscript w) (pending s)) as [[s1 rest] e] eqn:E.
    cbn [chk_c17_call]. rewrite Ht, Hp. unfold used. cbn [rscript with_script].
    assert (F : clear_pid s1 = clear_pid s /\ closed s1 = closed s).
    { clear -E. revert E. generalize (rscript w) as script. generalize (pending s) as todo.
      induction todo as [|q todo IH]; intros script E; cbn [wait_acks] in E.
      - injection E as <- _ _. split; reflexivity.
      - destruct (reply q script) as [[e1|[[ty sq] d]] r].
        + injection E as <- _ _. split; reflexivity.
        + destruct (check_ack (inr (ty, sq, d))).
          * injection E as <- _ _. split; reflexivity.
          * exact (IH _ E). }
    destruct F as (F1 & F2).
    destruct (spec_wait (rscript w) (pending s)) as [[[er remaining] rest']|] eqn:Esw.
    + pose proof (c17_wait_clause_accepts_model s _ _ _ _ _ Esw) as HW. rewrite E in HW. destruct HW as (W1 & W2 & W3).
      subst rest' er. split.
      * rewrite N.eqb_refl. cbn [negb andb].
        destruct e; [rewrite cres_fail_refl|]; reflexivity.
      * unfold tracks. cbn [kp kpid kclosed ktrack]. rewrite W1, F1, F2. auto.
    + split; [reflexivity|].
      destruct (wait_acks_pending s _ _ _ _ _ E) as (u & Hu & Hpend).
      unfold tracks. cbn [kp kpid kclosed ktrack]. rewrite F1, F2. repeat split; auto.
      rewrite Nat2N.id. rewrite Hu. rewrite firstn_used. symmetry. exact Hpend.
  - (* Close *)
    cbn [cstep chk_c17_call]. rewrite Hc.
    destruct (closed s) eqn:Ecl.
    + unfold used. rewrite Nat.sub_diag. split; [reflexivity|exact T].
    + rewrite Hi. destruct (clear_pid s) eqn:Epid.
      * unfold do_send, head_fault, used. cbn [nseq sfaults]. fold (next_seq s).
        destruct (sfaults w) as [|[x|] fs]; cbn [rscript]; rewrite Nat.sub_diag; cbn [N.of_nat N.eqb andb negb];
          rewrite pid_clear_wire; cbn [andb is_fail cres_eqb];
          (split; [reflexivity|]); unfold tracks; cbn [kp kpid kclosed ktrack pending clear_pid closed]; rewrite ?Hp, ?Ht, ?Hi, ?Epid; repeat split; reflexivity.
      * unfold used. rewrite Nat.sub_diag. cbn [N.of_nat N.eqb andb cres_eqb]. split; [reflexivity|].
        unfold tracks. cbn [kp kpid kclosed ktrack pending clear_pid closed]. rewrite ?Hp, ?Ht, ?Hi, ?Epid. repeat split; reflexivity.
  - (* Receive *)
    cbn [cstep]. destruct (rscript w) as [|[e|ty sq d|] r]; cbn [chk_c17_call]; (split; [reflexivity|exact T]).
Qed.

(* ---- whole runs ---- *)
Fixpoint judged_run (st : k17) (s : cstate) (w : world) (ops : list cop) : bool :=
  match ops with
  | [] => true
  | o :: r => let '(st', ok, s', w') := judged_step st s w o in ok && judged_run st' s' w' r
  end.

Theorem judged_run_ok : forall ops st s w, tracks s st -> judged_run st s w ops = true.
Proof.
  induction ops as [|o ops IH]; intros st s w T; cbn [judged_run]; [reflexivity|].
  pose proof (judged_step_ok st s w o T) as H. destruct (judged_step st s w o) as [[[st' ok] s'] w'].
  destruct H as [-> T']. cbn [andb]. exact (IH _ _ _ T').
Qed.

Definition k17_init : k17 := {| kp := []; kpid := false; kclosed := false; ktrack := true |}.
Lemma tracks_init : tracks cinit k17_init.
Proof. repeat split. Qed.

(* ---------- C16: what goes on the wire and what GetStatus hands back, as the judge reads them ---------- *)
Lemma wire_eqb_refl (x : wire) : wire_eqb x x = true.
Proof. destruct x as [[t f] d]. cbn [wire_eqb]. rewrite !N.eqb_refl. cbn [andb]. apply bytes_eqb_refl'. Qed.
Lemma wires_eqb_refl (l : list wire) : wires_eqb l l = true.
Proof. induction l as [|x l IH]; [reflexivity|]. cbn [wires_eqb]. rewrite wire_eqb_refl. exact IH. Qed.

Lemma get_status_sends s w s1 w1 r ws : get_status s w = (s1, w1, r, ws) -> ws = [(AuditGet, REQ_ACK, [])].
Proof.
  unfold get_status, do_send. destruct (sfaults w) as [|[x|] fs].
  - destruct (reply _ _) as [r0 rest]. destruct (check_ack r0); [|destruct (reply _ _)]; intros H; injection H as _ _ _ <-; reflexivity.
  - intros H. injection H as _ _ _ <-. reflexivity.
  - destruct (reply _ _) as [r0 rest]. destruct (check_ack r0); [|destruct (reply _ _)]; intros H; injection H as _ _ _ <-; reflexivity.
Qed.

(* the judge's C16 clause accepts the model's Set* on every script and fault, and its GetStatus whenever the request was sent *)
Theorem chk_c16_accepts_set s w k v wait :
  let '(_, _, (r, ws, _)) := cstep s w (OSet k v wait) in chk_c16_call (OSet k v wait) (next_seq s) (rscript w) r ws = true.
Proof.
  cbn [cstep]. pose proof (setter_sends s w k v wait) as H. destruct (cset s w k v wait) as [[[s1 w1] r] ws]. cbn [snd] in H.
  cbn [chk_c16_call]. rewrite H. apply wires_eqb_refl.
Qed.

Theorem chk_c16_accepts_get_status s w : no_fault w ->
  let '(_, _, (r, ws, _)) := cstep s w OGetStatus in chk_c16_call OGetStatus (next_seq s) (rscript w) r ws = true.
Proof.
  intros Hn. pose proof (get_status_is s w Hn) as HR. cbn [cstep] in *.
  destruct (get_status s w) as [[[s1 w1] r] ws] eqn:E. cbn [snd result_of fst] in HR.
  rewrite (get_status_sends _ _ _ _ _ _ E). cbn [chk_c16_call].
  assert (Hw : wires_eqb [(AuditGet, REQ_ACK, [])] [(UAPI_AUDIT_GET, UAPI_REQ_ACK, [])] = true) by (vm_compute; reflexivity).
  rewrite Hw. cbn [andb]. clear Hw E.
  set (q := next_seq s) in *. set (script := rscript w) in *. unfold get_status_result in HR.
  destruct (spec_ack q script) as [e rest0| |] eqn:Ea.
  - destruct (spec_ack_reply _ _ _ _ Ea) as (ty & d & Hr & Hc). rewrite Hr, Hc in HR.
    destruct (Z.eqb e 0) eqn:Ee.
    + pose proof (spec_reply q rest0) as HS.
      destruct (spec_next q rest0 0) as [ty2 d2 rest2| |].
      * rewrite HS in HR. change AuditGet with UAPI_AUDIT_GET in HR.
        destruct (ty2 =? UAPI_AUDIT_GET) eqn:Et.
        -- rewrite StatusProofs.from_wire_spec in HR. change UAPI_MIN_AUDIT_STATUS with 32 in HR.
           destruct (N.ltb_spec (N.of_nat (length d2)) 32) as [Hlt|Hge].
           ++ subst r. reflexivity.
           ++ subst r. apply N.leb_le in Hge. rewrite Hge. cbn [andb]. apply listN_eqb_refl.
        -- subst r. cbn [andb]. reflexivity.
      * destruct HS as [r' HS]. rewrite HS in HR. subst r. reflexivity.
      * destruct r as [|got|rs|n|ty' d'|er|]; try reflexivity; destruct er; reflexivity.
    + subst r. reflexivity.
  - destruct (spec_ack_foreign _ _ Ea) as [r' Hr]. rewrite Hr in HR. cbn [check_ack] in HR. subst r. reflexivity.
  - destruct r as [|got|rs|n|ty' d'|er|]; try reflexivity; destruct er; reflexivity.
Qed.
