From Coq Require Import List ZArith Bool Lia Permutation.
Import ListNotations.
Require Import Reassembler ReasmInv ReasmC01 ReasmConc.
Open Scope Z_scope.

Definition groups (outs : list out) : list msg := flat_map (fun o => match o with Complete g => g | _ => [] end) outs.

Lemma filter_partition_perm (f : msg -> bool) U : Permutation U (filter f U ++ filter (fun m => negb (f m)) U).
Proof.
  induction U as [|m U IH]; cbn; auto. destruct (f m); cbn.
  - constructor; auto.
  - apply Permutation_cons_app; auto.
Qed.

Lemma list_eqb_eq a b : list_eqb a b = true -> a = b.
Proof.
  revert b. induction a as [|x a IH]; destruct b as [|y b]; cbn; try discriminate; auto.
  intros H. apply andb_prop in H. destruct H as [H1 H2]. unfold msg_eqb in H1.
  apply andb_prop in H1. destruct H1 as [H1 H3]. apply andb_prop in H1. destruct H1 as [H1 H4].
  apply Z.eqb_eq in H1, H3, H4. destruct x, y; cbn in *; subst. f_equal. apply IH; auto.
Qed.

Lemma chk_outs_perm : forall outs U U', chk_outs U outs = Some U' -> Permutation U (groups outs ++ U').
Proof.
  induction outs as [|o outs IH]; intros U U' H; cbn in *.
  - inversion H; auto.
  - destruct o; cbn; auto; try discriminate.
    destruct ms as [|m0 g]; try discriminate.
    destruct (list_eqb (m0 :: g) (filter (sameseq (mseq m0)) U)) eqn:E; try discriminate.
    apply list_eqb_eq in E. apply IH in H. rewrite E. rewrite <- app_assoc.
    rewrite (filter_partition_perm (sameseq (mseq m0)) U) at 1. apply Permutation_app_head. exact H.
Qed.

Definition pth (th : thread) : list msg := flat_map pending_f (stack th).

Lemma pending_upd : forall t ths th, nth_error ths t = Some th ->
  exists R, Permutation (pending ths) (pth th ++ R) /\ forall th', Permutation (pending (upd t th' ths)) (pth th' ++ R).
Proof.
  induction t as [|t IH]; intros [|x ths] th H; cbn in H; try discriminate.
  - inversion H; subst. exists (pending ths). split; cbn; auto.
  - destruct (IH ths th H) as (R & H1 & H2). exists (pth x ++ R). split.
    + cbn. fold (pth x). rewrite H1. rewrite !app_assoc. apply Permutation_app_tail. apply Permutation_app_comm.
    + intros th'. cbn. fold (pth x). rewrite (H2 th'). rewrite !app_assoc. apply Permutation_app_tail. apply Permutation_app_comm.
Qed.

Lemma pth_deliver_frames outs rest : flat_map pending_f (deliver_frames outs ++ rest) = groups outs ++ flat_map pending_f rest.
Proof.
  rewrite flat_map_app. f_equal. unfold deliver_frames, groups.
  induction outs as [|o outs IH]; cbn; auto. destruct o; cbn; auto; rewrite IH; rewrite ?app_nil_r; auto.
Qed.

Lemma pth_calls cs rest : flat_map pending_f (map FCall cs ++ rest) = flat_map pending_f rest.
Proof. rewrite flat_map_app. replace (flat_map pending_f (map FCall cs)) with (@nil msg); auto. induction cs; cbn; auto. Qed.

Section Proofs.
Variable cb : list msg -> list call.
Variable cfg : config.

Definition CInv (ths : list thread) (s : state) (tr : list ev) : Prop :=
  exists U, InvL U (seqs s) (events s) /\ Permutation (putmsgs tr) (delivered tr ++ pending ths ++ U) /\
            (closed s = false -> cas_oks tr = 0%nat) /\ (closed s = true -> cas_oks tr = 1%nat).

Lemma putmsgs_app a b : putmsgs (a ++ b) = putmsgs a ++ putmsgs b. Proof. apply flat_map_app. Qed.
Lemma delivered_app a b : delivered (a ++ b) = delivered a ++ delivered b. Proof. apply flat_map_app. Qed.
Lemma cas_oks_app a b : cas_oks (a ++ b) = (cas_oks a + cas_oks b)%nat. Proof. unfold cas_oks. rewrite filter_app, app_length. auto. Qed.

Lemma perm4 (A B C D : list msg) : Permutation ((A ++ B) ++ C ++ D) ((C ++ A) ++ B ++ D).
Proof. rewrite <- !app_assoc. rewrite (app_assoc A B). rewrite Permutation_app_swap_app. rewrite <- !app_assoc. auto. Qed.

Lemma perm_move (A B C D : list msg) : Permutation (A ++ (B ++ C) ++ D) (A ++ (B ++ D) ++ C).
Proof. apply Permutation_app_head. rewrite <- !app_assoc. apply Permutation_app_head. apply Permutation_app_comm. Qed.

(* a step that leaves the shared list alone, emits no put/complete/cas event and keeps the thread's pending groups *)
Lemma CInv_keep t ths s tr th th' evs : nth_error ths t = Some th -> CInv ths s tr ->
  pth th' = pth th -> putmsgs evs = [] -> delivered evs = [] -> cas_oks evs = 0%nat ->
  CInv (upd t th' ths) s (tr ++ evs).
Proof.
  intros Hn (U & HI & HP & Hc0 & Hc1) Hp He1 He2 He3.
  destruct (pending_upd t ths th Hn) as (R & HR1 & HR2).
  exists U. split; [exact HI|]. split; [|split].
  - rewrite putmsgs_app, delivered_app, He1, He2, !app_nil_r. rewrite (HR2 th'), Hp, <- HR1. exact HP.
  - intros H. rewrite cas_oks_app, He3, Nat.add_0_r. auto.
  - intros H. rewrite cas_oks_app, He3, Nat.add_0_r. auto.
Qed.

Lemma tstep_inv t now ths s tr th : nth_error ths t = Some th -> CInv ths s tr ->
  let '(th', s', evs) := tstep cb cfg t now th s in CInv (upd t th' ths) s' (tr ++ evs).
Proof.
  intros Hn HCI.
  unfold tstep. destruct (stack th) as [|f rest] eqn:Es.
  - destruct (todo th) as [|c cs].
    + apply (CInv_keep t ths s tr th); auto.
    + apply (CInv_keep t ths s tr th); auto. unfold pth. rewrite Es. cbn. auto.
  - assert (Hpth: pth th = pending_f f ++ flat_map pending_f rest) by (unfold pth; rewrite Es; auto).
    destruct f as [[m| |] | m | | | | | g | n | c ok]; cbn [exec].
    + apply (CInv_keep t ths s tr th); auto.
    + apply (CInv_keep t ths s tr th); auto.
    + apply (CInv_keep t ths s tr th); auto.
    + (* FPut *)
      destruct HCI as (U & HI & HP & Hc0 & Hc1). destruct (pending_upd t ths th Hn) as (R & HR1 & HR2).
      exists (pushU U (Push (Some m) now now)). split; [apply put_inv; auto|]. split; [|split].
      * rewrite putmsgs_app, delivered_app. cbn [putmsgs delivered flat_map]. rewrite !app_nil_r. rewrite (HR2 _). unfold pth at 1; cbn [stack flat_map app].
        rewrite HP, HR1, Hpth. cbn [pending_f app pushU]. destruct (mty m =? AUDIT_EOE); rewrite ?app_nil_r; auto.
        rewrite !app_assoc. apply Permutation_app_tail. auto.
      * rewrite cas_oks_app. cbn. rewrite Nat.add_0_r. unfold put. destruct (lookup _ _); destruct (mty m =? _); cbn; auto.
      * rewrite cas_oks_app. cbn. rewrite Nat.add_0_r. unfold put. destruct (lookup _ _); destruct (mty m =? _); cbn; auto.
    + (* FCleanUp *)
      destruct HCI as (U & HI & HP & Hc0 & Hc1). destruct (pending_upd t ths th Hn) as (R & HR1 & HR2).
      pose proof (cleanup_ok false cfg now s U HI) as HC. destruct (cleanup false cfg now s) as [s' outs].
      destruct HC as (U' & Hchk & HI' & _ & Hcl). rewrite app_nil_r. exists U'. split; auto. split; [|rewrite Hcl; auto].
      rewrite (HR2 _). unfold pth at 1; cbn [stack]. rewrite pth_deliver_frames. rewrite HP, HR1, Hpth. cbn [pending_f app].
      rewrite (chk_outs_perm _ _ _ Hchk). apply Permutation_app_head.
      rewrite <- (app_assoc (groups outs ++ flat_map pending_f rest) R U'). apply perm4.
    + (* FLoad *)
      destruct (closed s); apply (CInv_keep t ths s tr th); auto.
    + (* FCas *)
      destruct (closed s) eqn:Ecl.
      * apply (CInv_keep t ths s tr th); auto.
      * destruct HCI as (U & HI & HP & Hc0 & Hc1). destruct (pending_upd t ths th Hn) as (R & HR1 & HR2).
        exists U. cbn [seqs events closed]. split; auto. split; [|split; [discriminate|]].
        -- rewrite putmsgs_app, delivered_app. cbn [putmsgs delivered flat_map]. rewrite !app_nil_r. rewrite (HR2 _). unfold pth at 1; cbn [stack flat_map app pending_f].
           rewrite HP, HR1, Hpth. auto.
        -- intros _. rewrite cas_oks_app. rewrite Hc0; auto.
    + (* FClear *)
      destruct HCI as (U & HI & HP & Hc0 & Hc1). destruct (pending_upd t ths th Hn) as (R & HR1 & HR2).
      pose proof (cleanup_ok true cfg now s U HI) as HC. destruct (cleanup true cfg now s) as [s' outs].
      destruct HC as (U' & Hchk & HI' & _ & Hcl). exists U'. split; auto. split; [|rewrite Hcl, cas_oks_app; cbn; rewrite Nat.add_0_r; auto].
      rewrite putmsgs_app, delivered_app. cbn [putmsgs delivered flat_map]. rewrite !app_nil_r.
      rewrite (HR2 _). unfold pth at 1; cbn [stack]. rewrite pth_deliver_frames. rewrite HP, HR1, Hpth. cbn [pending_f app].
      rewrite (chk_outs_perm _ _ _ Hchk). apply Permutation_app_head.
      rewrite <- (app_assoc (groups outs ++ flat_map pending_f rest) R U'). apply perm4.
    + (* FDeliver *)
      destruct HCI as (U & HI & HP & Hc0 & Hc1). destruct (pending_upd t ths th Hn) as (R & HR1 & HR2).
      exists U. split; auto. split; [|rewrite cas_oks_app; cbn; rewrite Nat.add_0_r; auto].
      rewrite putmsgs_app, delivered_app. cbn [putmsgs delivered flat_map]. rewrite !app_nil_r.
      rewrite (HR2 _). unfold pth at 1; cbn [stack]. rewrite pth_calls. rewrite HP, HR1, Hpth. cbn [pending_f].
      rewrite <- !app_assoc. apply Permutation_app_head. rewrite !app_assoc. apply Permutation_app_tail.
      rewrite <- !app_assoc. auto.
    + apply (CInv_keep t ths s tr th); auto.
    + apply (CInv_keep t ths s tr th); auto.
Qed.
End Proofs.
