(* Proofs/RuleSpecWf.v — every rule data the Build model produces is well-formed, so that
   C06_wire_exact applies to every rule Build accepts. *)
From Coq Require Import List Ascii String Arith NArith ZArith Bool Lia ZifyBool ZifyN ZifyNat.
Import ListNotations.
Require Import Bytes Mach RuleTables RuleDecode Mask RuleEncode RuleWire.
Local Open Scope string_scope.
Local Open Scope list_scope.
Open Scope N_scope.
Local Notation length := List.length.

(* finite obligations: every code in the generated tables fits a 32-bit word *)
Definition small_snd {A} (e : A * N) : bool := snd e <? 2^32.
Lemma fields_small : forallb small_snd fields_table = true. Proof. vm_compute. reflexivity. Qed.
Lemma ops_small : forallb small_snd operators_table = true. Proof. vm_compute. reflexivity. Qed.
Lemma comparisons_small : forallb (fun e : N * list (N * N) => forallb small_snd (snd e)) comparisons_table = true. Proof. vm_compute. reflexivity. Qed.

Lemma lookupS_small {t : list (string * N)} k v : forallb small_snd t = true -> lookupS k t = Some v -> v < 2^32.
Proof.
  intros Hs Hl. destruct (lookupS_In _ _ _ Hl) as (k' & Hin & _). rewrite forallb_forall in Hs. specialize (Hs _ Hin).
  unfold small_snd in Hs. cbn [snd] in Hs. apply N.ltb_lt in Hs. exact Hs.
Qed.
Lemma lookupN_In {V} k (t : list (N * V)) v : lookupN k t = Some v -> In (k, v) t.
Proof. apply alookup_In. intros a b H. apply N.eqb_eq. exact H. Qed.
Lemma comparison_small l r t c : lookupN l comparisons_table = Some t -> lookupN r t = Some c -> c < 2^32.
Proof.
  intros H1 H2. apply lookupN_In in H1. apply lookupN_In in H2. pose proof comparisons_small as Hs. rewrite forallb_forall in Hs.
  specialize (Hs _ H1). cbn [snd] in Hs. rewrite forallb_forall in Hs. specialize (Hs _ H2). unfold small_snd in Hs. cbn [snd] in Hs. apply N.ltb_lt in Hs. exact Hs.
Qed.

Definition triple_ok (t : N * N * N) : Prop := fst (fst t) < 2^32 /\ snd (fst t) < 2^32 /\ snd t < 2^32.
Definition acc_ok (acc : list (N * N * N) * list str) : Prop :=
  Forall triple_ok (fst acc) /\ Forall (fun sv => (length sv <= 4096)%nat) (snd acc) /\ (length (snd acc) <= length (fst acc))%nat.

Lemma limits : max_key_length = 256 /\ path_max = 4096. Proof. split; reflexivity. Qed.

Lemma add_item_ok lst acc it acc' : acc_ok acc -> add_item lst acc it = Some acc' -> acc_ok acc'.
Proof.
  intros (Ht & Hs & Hl) H. destruct acc as [ts ss]. cbn [fst snd] in *. unfold add_item in H. destruct it as [f op v | l op r].
  - destruct (lookupS (s2l op) operators_table) as [oc|] eqn:Eo; [|discriminate].
    destruct (lookupS (s2l f) fields_table) as [fc|] eqn:Ef; [|discriminate].
    pose proof (lookupS_small _ _ ops_small Eo) as Hoc. pose proof (lookupS_small _ _ fields_small Ef) as Hfc.
    repeat match type of H with (if ?b then _ else _) = _ => destruct b; [discriminate|] end.
    destruct v as [n | sv].
    + repeat match type of H with (if ?b then _ else _) = _ => destruct b; [discriminate|] end.
      inversion H; subst. unfold acc_ok. cbn [fst snd]. split; [|split; auto].
      * apply Forall_app. split; auto. constructor; [|constructor]. unfold triple_ok. cbn [fst snd]. repeat split; auto. apply N.mod_lt. discriminate.
      * rewrite app_length. cbn [length]. lia.
    + destruct (negb (is_string_field fc)); [discriminate|].
      destruct ((if streq f "key" then max_key_length else path_max) <? N.of_nat (length sv)) eqn:El; [discriminate|].
      inversion H; subst. destruct limits as [L1 L2].
      assert (Hlen: (length sv <= 4096)%nat) by (destruct (streq f "key"); rewrite ?L1, ?L2 in El; lia).
      unfold acc_ok. cbn [fst snd]. split; [|split].
      * apply Forall_app. split; auto. constructor; [|constructor]. unfold triple_ok. cbn [fst snd]. repeat split; auto. change (2^32) with 4294967296. lia.
      * apply Forall_app. split; auto.
      * rewrite !app_length. cbn [length]. lia.
  - destruct (lookupS (s2l op) operators_table) as [oc|] eqn:Eo; [|discriminate].
    destruct (lookupS (s2l l) fields_table) as [lf|] eqn:E1; [|discriminate].
    destruct (lookupS (s2l r) fields_table) as [rf|] eqn:E2; [|discriminate].
    destruct (eq_ne op); [|discriminate].
    destruct (lookupN lf comparisons_table) as [t|] eqn:E3; [|discriminate].
    destruct (lookupN rf t) as [c|] eqn:E4; [|discriminate].
    inversion H; subst. unfold acc_ok. cbn [fst snd]. split; [|split; auto].
    + apply Forall_app. split; auto. constructor; [|constructor]. unfold triple_ok. cbn [fst snd].
      split; [reflexivity|]. split; [apply (lookupS_small _ _ ops_small Eo) | apply (comparison_small _ _ _ _ E3 E4)].
    + rewrite app_length. cbn [length]. lia.
Qed.
Lemma add_items_ok lst : forall its acc acc', acc_ok acc -> add_items lst acc its = Some acc' -> acc_ok acc'.
Proof.
  induction its as [|it its IH]; intros acc acc' Ha H; cbn [add_items] in H; [inversion H; subst; auto|].
  destruct (add_item lst acc it) as [a|] eqn:E; [|discriminate]. apply (IH a); auto. eapply add_item_ok; eauto.
Qed.

Lemma join_keys_nonempty_ok acc keys acc' : acc_ok acc -> add_keys acc keys = Some acc' -> acc_ok acc'.
Proof.
  intros (Ht & Hs & Hl) H. unfold add_keys in H. destruct keys as [|k ks]; [inversion H; subst; repeat split; auto|].
  cbv zeta in H. set (jk := join_keys (k :: ks)) in *. clearbody jk.
  destruct (length jk =? 0)%nat eqn:Ez; [discriminate|].
  destruct (max_key_length <? N.of_nat (length jk)) eqn:El; [discriminate|].
  destruct (lookupS (s2l "=") operators_table) as [eqc|] eqn:Eo; [|discriminate]. inversion H; subst.
  destruct limits as [L1 _]. rewrite L1 in El. unfold acc_ok. cbn [fst snd]. split; [|split].
  - apply Forall_app. split; auto. constructor; [|constructor]. unfold triple_ok. cbn [fst snd].
    split; [reflexivity|]. split; [apply (lookupS_small _ _ ops_small Eo) | change (2^32) with 4294967296; lia].
  - apply Forall_app. split; auto. constructor; [lia|constructor].
  - rewrite !app_length. cbn [length]. lia.
Qed.

(* the mask *)
Lemma lor_small a b : a < 2^32 -> b < 2^32 -> N.lor a b < 2^32.
Proof.
  intros Ha Hb. destruct (N.eq_dec (N.lor a b) 0) as [E|E]; [rewrite E; reflexivity|].
  apply N.log2_lt_pow2; [lia|]. rewrite N.log2_lor.
  assert (G: forall x, x < 2^32 -> N.log2 x < 32).
  { intros x Hx. destruct (N.eq_dec x 0) as [->|Nx]; [reflexivity|]. apply N.log2_lt_pow2; [lia|exact Hx]. }
  apply N.max_lub_lt; auto.
Qed.
Lemma upd_small : forall i f (l l' : list N), (forall w, w < 2^32 -> f w < 2^32) -> Forall (fun w => w < 2^32) l -> upd i f l = Some l' -> Forall (fun w => w < 2^32) l'.
Proof.
  induction i as [|i IH]; intros f [|x r] l' Hf Hl H; cbn [upd] in H; try discriminate.
  - inversion H; subst. inversion Hl; subst. constructor; auto.
  - destruct (upd i f r) as [r'|] eqn:E; [|discriminate]. inversion H; subst. inversion Hl; subst. constructor; auto. eapply IH; eauto.
Qed.
Lemma set_syscall_ok m n m' : Forall (fun w => w < 2^32) m -> set_syscall m n = Some m' -> Forall (fun w => w < 2^32) m' /\ length m' = length m.
Proof.
  intros Hm H. unfold set_syscall in H. destruct (N.of_nat (length m) <=? n / 32); [discriminate|].
  split; [|eapply upd_length; eauto].
  eapply upd_small; [|exact Hm|exact H]. intros w Hw. apply lor_small; auto.
  assert (n mod 32 < 32) by (apply N.mod_lt; discriminate). apply N.pow_lt_mono_r; lia.
Qed.
Lemma build_mask_ok : forall l m m', Forall (fun w => w < 2^32) m -> build_mask m l = Some m' -> Forall (fun w => w < 2^32) m' /\ length m' = length m.
Proof.
  induction l as [|n l IH]; intros m m' Hm H; cbn [build_mask] in H; [inversion H; subst; auto|].
  destruct (set_syscall m n) as [m1|] eqn:E; [|discriminate]. destruct (set_syscall_ok _ _ _ Hm E) as [H1 H2].
  destruct (IH _ _ H1 H) as [H3 H4]. split; auto. congruence.
Qed.

Lemma concat_length_bound (ss : list str) : Forall (fun sv => (length sv <= 4096)%nat) ss -> (length (List.concat ss) <= 4096 * length ss)%nat.
Proof. induction 1 as [|x l Hx Hl IH]; cbn [List.concat length]; [lia|]. rewrite app_length. lia. Qed.

Theorem data_of_spec_wf s d : data_of_spec s = Some d -> wf_data d.
Proof.
  unfold data_of_spec. destruct (list_code (sp_list s)) as [lc|] eqn:El; [|discriminate].
  destruct (action_code (sp_action s)) as [ac|] eqn:Ea; [|discriminate].
  destruct (add_items (sp_list s) ([], []) (sp_items s)) as [acc|] eqn:Ei; [|discriminate].
  assert (A0: acc_ok ([], [])) by (repeat split; constructor).
  pose proof (add_items_ok _ _ _ _ A0 Ei) as A1.
  destruct (if sp_all s then Some all_mask else set_all (repeat 0 64) (sp_syscalls s)) as [m|] eqn:Em; [|discriminate].
  assert (Hm: Forall (fun w => w < 2^32) m /\ length m = 64%nat).
  { destruct (sp_all s).
    - inversion Em; subst. split; [|reflexivity]. unfold all_mask. apply Forall_app. split.
      + apply Forall_forall. intros x Hx. apply repeat_spec in Hx. subst. reflexivity. + repeat constructor.
    - unfold set_all in Em. apply build_mask_ok in Em. + destruct Em as [H1 H2]. rewrite repeat_length in H2. auto.
      + apply Forall_forall. intros x Hx. apply repeat_spec in Hx. subst. reflexivity. }
  set (K := if streq (sp_list s) "exclude" then match sp_keys s with [] => Some acc | _ => None end else add_keys acc (sp_keys s)).
  assert (A2: forall acc2, K = Some acc2 -> acc_ok acc2).
  { unfold K. intros acc2 H. destruct (streq (sp_list s) "exclude").
    - destruct (sp_keys s); [inversion H; subst; auto | discriminate].
    - eapply join_keys_nonempty_ok; eauto. }
  fold K. destruct K as [[ts ss]|] eqn:EK; [|discriminate]. specialize (A2 _ eq_refl). destruct A2 as (Ht & Hs & Hl). cbn [fst snd] in *.
  destruct (64 <? length ts)%nat eqn:E64; [discriminate|]. intros H. inversion H; subst. unfold wf_data. cbn [w_triples w_mask w_flags w_action w_strings].
  destruct Hm as [Hm1 Hm2].
  assert (Hflags: lc < 2^32).
  { unfold list_code in El. repeat match type of El with (if ?b then _ else _) = _ => destruct b; [inversion El; reflexivity|] end. discriminate. }
  assert (Hact: ac < 2^32).
  { unfold action_code in Ea. repeat match type of Ea with (if ?b then _ else _) = _ => destruct b; [inversion Ea; reflexivity|] end. discriminate. }
  assert (Hbuf: N.of_nat (length (List.concat ss)) < 2^32).
  { pose proof (concat_length_bound ss Hs). change (2^32) with 4294967296. lia. }
  split; [lia|]. split; [exact Hm2|]. split; [exact Hflags|]. split; [exact Hact|]. split; [exact Hm1|]. split; [|exact Hbuf].
  apply Forall_forall. intros t Ht'. rewrite Forall_forall in Ht. apply (Ht t Ht').
Qed.
