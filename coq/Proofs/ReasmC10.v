(* Check/ChkC10.v (prototype, the bound) — after every Push at most maxInFlight events stay buffered. *)
From Coq Require Import List ZArith Bool Lia Permutation.
Import ListNotations.
Require Import Reassembler ReasmInv ReasmC01.
Open Scope Z_scope.

(* buffered sequences reconstructed from the observable trace: distinct sequences of undelivered messages *)
Definition useqs (U : list msg) : list Z := nodup Z.eq_dec (map mseq U).

(* a missing map entry would stop the loop with a Panic output, which C01 excludes; the bound is stated
   for the list length of panic-free runs. *)
Lemma evict_len c now : forall sqs em last has, 0 <= maxSize c ->
  let '(sqs', _, _, _, outs, _) := evict false c now sqs em last has in
  In Panic outs \/ Z.of_nat (length sqs') <= maxSize c.
Proof.
  induction sqs as [|sq rest IH]; intros em last has Hm; cbn [evict].
  - right. cbn. lia.
  - destruct (lookup sq em) as [e|] eqn:El.
    + destruct (false || complete e || (Z.of_nat (length (sq :: rest)) >? maxSize c) || (now >? expire e)) eqn:Ec.
      * destruct (advance last has sq) as [[d l'] h']. specialize (IH (remove sq em) l' h' Hm).
        destruct (evict false c now rest (remove sq em) l' h') as [[[[[sqs' em'] l''] h''] outs] lost].
        destruct IH as [IH|IH]; [left; right; auto | right; auto].
      * right. cbn [orb] in Ec. apply orb_false_elim in Ec. destruct Ec as [Ec _]. apply orb_false_elim in Ec. destruct Ec as [_ Ec]. lia.
    + left. left. auto.
Qed.

Lemma useqs_length U sqs em : InvL U sqs em -> length (useqs U) = length sqs.
Proof.
  intros (Hnd & Hin & Hmsgs & HU). unfold useqs. apply Permutation_length. apply NoDup_Permutation; auto. apply NoDup_nodup.
  intros k. rewrite nodup_In, in_map_iff. split.
  - intros (m & <- & Hm). auto.
  - intros Hk. apply Hin in Hk. destruct (lookup k em) as [e|] eqn:El; [|congruence]. destruct (Hmsgs _ _ El) as [Hm Hne].
    destruct (msgs e) as [|m0 g] eqn:Eg; [congruence|]. assert (Hi: In m0 (filter (sameseq k) U)) by (rewrite <- Hm; left; auto).
    apply filter_In in Hi. destruct Hi as [Hi He]. exists m0. split; auto. unfold sameseq in He. apply Z.eqb_eq in He. auto.
Qed.

(* after a Push the number of distinct undelivered sequences is at most maxSize *)
Theorem push_bound c now now2 m s U : 0 <= maxSize c -> InvL U (seqs s) (events s) ->
  let '(s', outs) := step c s (Push (Some m) now now2) in
  exists U', chk_outs (pushU U (Push (Some m) now now2)) outs = Some U' /\ InvL U' (seqs s') (events s') /\
             Z.of_nat (length (useqs U')) <= maxSize c.
Proof.
  intros Hm HI. cbn [step]. pose proof (put_inv c now now2 m s U HI) as HP.
  pose proof (cleanup_ok false c now2 (put c now m s) _ HP) as HC.
  pose proof (evict_len c now2 (seqs (put c now m s)) (events (put c now m s)) (lastSeq (put c now m s)) (hasLast (put c now m s)) Hm) as HL.
  unfold cleanup in *. destruct (evict false c now2 _ _ _ _) as [[[[[sqs' em'] l'] h'] outs] lost].
  destruct HC as (U' & Hc & HI' & _ & _). exists U'. split; auto. split; auto.
  cbn [seqs events] in HI'. rewrite (useqs_length U' sqs' em' HI').
  destruct HL as [HL|HL]; auto. exfalso.
  (* a Panic output contradicts chk_outs = Some *)
  assert (G: forall o t U0 U1, In Panic o -> chk_outs U0 (o ++ t) = Some U1 -> False).
  { induction o as [|x o IH]; intros t U0 U1 Hin Hx; cbn [In app] in *; [contradiction|].
    destruct Hin as [->|Hin]; [cbn in Hx; discriminate|].
    destruct x as [[|m0 g]| | |]; cbn [chk_outs] in Hx; try discriminate; eauto.
    destruct (list_eqb _ _); try discriminate. eauto. }
  eapply G; eauto.
Qed.
Print Assumptions push_bound.
