(* Proofs/RuleFieldsBack.v — the field items ToCommandLine prints for a built rule, with the -S item
   after the last arch filter, are read back as filters that build the same triples and leave the
   same architecture in force. *)
From Coq Require Import List Ascii String Arith NArith ZArith Bool Lia.
Import ListNotations.
Require Import Bytes Dec Mach RuleTables Arch RuleDecode Mask RuleEncode RuleText RuleValue KV Trim FilterRe Flags RuleBuild.
Require Import FlagsProofs RuleReprint RuleFlagsBack.
Local Open Scope string_scope.
Local Open Scope list_scope.
Open Scope N_scope.

Notation trip := ((N * N * N) * list str)%type.

Inductive built (lst : string) : list flt -> list trip -> Prop :=
| built_nil : built lst [] []
| built_cons f it t ss fs l :
    item_of_filter f = Some it -> triple_of_item lst it = Some (t, ss) -> filter_ok f -> built lst fs l ->
    built lst (f :: fs) ((t, ss) :: l).

Lemma built_intro lst : forall fs its l, items_of_filters fs = Some its -> triples_of_items lst its = Some l -> Forall filter_ok fs -> built lst fs l.
Proof.
  induction fs as [|f fs IH]; intros its l Hi Ht Hf; cbn [items_of_filters] in Hi.
  - injection Hi as <-. cbn in Ht. injection Ht as <-. constructor.
  - destruct (item_of_filter f) as [it|] eqn:E1; [|discriminate]. destruct (items_of_filters fs) as [its'|] eqn:E2; [|discriminate]. injection Hi as <-.
    cbn [triples_of_items] in Ht. destruct (triple_of_item lst it) as [[t ss]|] eqn:E3; [|discriminate].
    destruct (triples_of_items lst its') as [l'|] eqn:E4; [|discriminate]. injection Ht as <-.
    inversion Hf; subst. econstructor; eauto.
Qed.
Lemma built_elim lst : forall fs l, built lst fs l -> exists its, items_of_filters fs = Some its /\ triples_of_items lst its = Some l.
Proof.
  induction 1 as [|f it t ss fs l H1 H2 H3 H4 (its & Hi & Ht)]. exists []; auto.
  exists (it :: its). cbn [items_of_filters triples_of_items]. rewrite H1, Hi, H2, Ht. auto.
Qed.
Lemma built_app lst : forall a la b lb, built lst a la -> built lst b lb -> built lst (a ++ b) (la ++ lb).
Proof. induction 1; intros Hb; cbn [app]; auto. econstructor; eauto. Qed.

(* position of the -S item *)
Fixpoint hits (l : list trip) (idx : nat) (la : option nat) : bool :=
  match l with
  | [] => false
  | ((f, _, _), _) :: r => ((f =? 11) && match la with Some k => (k =? idx)%nat | None => false end) || hits r (S idx) la
  end.
Lemma hits_ge : forall l i k, hits l i (Some k) = true -> (i <= k)%nat.
Proof.
  induction l as [|[[[f o] v] ss] r IH]; intros i k H; cbn [hits] in H; [discriminate|].
  apply orb_prop in H. destruct H as [H|H]. apply andb_prop in H. destruct H as [_ H]. apply Nat.eqb_eq in H. lia.
  apply IH in H. lia.
Qed.

(* the architecture the printer names syscalls with, for an arch value *)
Definition arch_name_of (v : N) : str :=
  match display_arch v with Some d => match printer_arch d with Some A => A | None => [] end | None => [] end.
Fixpoint arch_fold (l : list trip) (cur : str) : str :=
  match l with [] => cur | ((f, _, v), _) :: r => arch_fold r (if f =? 11 then arch_name_of v else cur) end.

Definition tok_ok (fi : fitem) : Prop := match fi with FFlag n v => clean v = true | _ => False end.

Theorem print_fields_built lst sargs st la : effect sargs = Some ([], st) -> Forall tok_ok sargs ->
  forall fs l, built lst fs l -> forall idx cur,
  exists pf fs',
    print_fields (map fst l) idx (flat_map snd l) la sargs = Some pf /\
    effect pf = Some (fs', if hits l idx la then st else []) /\
    built lst fs' l /\ Forall tok_ok pf /\ arch_in_force fs' cur = arch_fold l cur.
Proof.
  intros Hsa Hsat. induction 1 as [|f it t ss fs l H1 H2 H3 H4 IH]; intros idx cur.
  - exists [], []. cbn. repeat split; constructor.
  - destruct (reprint_filter _ _ _ _ _ H1 H2 H3) as (fi & f' & it' & Hp & Hsc & Hi' & Ht' & Htok & Hok' & Hss & Harch).
    destruct t as [[f0 o] v]. cbn [fst snd] in Hss, Harch.
    set (cur' := if f0 =? 11 then arch_name_of v else cur).
    destruct (IH (S idx) cur') as (pf & fs' & Hpf & Heff & Hb & Htoks & Haf).
    set (here := (f0 =? 11) && match la with Some k => (k =? idx)%nat | None => false end).
    exists (fi :: (if here then sargs else []) ++ pf), (f' :: fs').
    assert (Hfi: exists n v', fi = FFlag n v' /\ (n = "F" \/ n = "C") /\ clean v' = true).
    { destruct fi as [n v'| | |]; cbn in Htok; try contradiction. destruct Htok. eauto. }
    destruct Hfi as (n & v' & -> & Hn & Hcl).
    split; [|split; [|split; [|split]]].
    + cbn [map fst flat_map snd print_fields]. 
      assert (Hstr: (if is_string_field f0 then match ss ++ flat_map snd l with sv :: st0 => Some (sv, st0) | [] => None end else Some ([], ss ++ flat_map snd l))
                    = Some (hd [] ss, flat_map snd l)).
      { destruct (is_string_field f0); rewrite Hss; reflexivity. }
      rewrite Hstr, Hp, Hpf. reflexivity.
    + assert (Hn': String.eqb n "S" = false /\ (String.eqb n "F" || String.eqb n "C") = true) by (destruct Hn as [-> | ->]; split; reflexivity).
      destruct Hn' as [Hn1 Hn2]. cbn [effect]. rewrite Hn1, Hn2, Hsc.
      assert (Hrest: effect ((if here then sargs else []) ++ pf) = Some (fs', if hits ((f0, o, v, ss) :: l) idx la then st else [])).
      { cbn [hits]. fold here. destruct here eqn:Eh.
        - rewrite (effect_app _ _ _ _ _ _ Hsa Heff). cbn [app orb].
          destruct (hits l (S idx) la) eqn:Eh2; [|rewrite app_nil_r; reflexivity].
          exfalso. unfold here in Eh. apply andb_prop in Eh. destruct Eh as [_ Eh]. destruct la as [k|]; [|discriminate]. apply Nat.eqb_eq in Eh. subst k.
          apply hits_ge in Eh2. lia.
        - cbn [app orb]. exact Heff. }
      rewrite Hrest. reflexivity.
    + econstructor; eauto.
    + constructor. exact Hcl. apply Forall_app. split; auto. destruct here; auto.
    + cbn [arch_in_force arch_fold]. fold cur'. rewrite <- Haf.
      destruct f' as [[[cmp lhs] o'] rhs]. subst cur'. destruct (f0 =? 11) eqn:E11.
      * destruct Harch as (o2 & d & A & Hf' & Hd & Hga & Hpa). injection Hf' as -> -> -> ->.
        replace (negb false && str_eqb_s (s2l "arch") "arch") with true by reflexivity. rewrite Hga.
        unfold arch_name_of. rewrite Hd, Hpa. reflexivity.
      * unfold is_arch_filter in Harch. rewrite Harch. reflexivity.
Qed.
Print Assumptions print_fields_built.
