(* Proofs/ParseLine.v — C04 on whole log lines: "type=T msg=audit(S.mmm:N)<rest>" is parsed by
   ParseLogLine into the message with exactly that type, time, sequence and raw text. *)
From Coq Require Import List Ascii String NArith ZArith Bool Arith Lia.
Import ListNotations.
Require Import Bytes Dec KV Trim Header Parser MsgType MsgTypeFwd TablesLift.
Local Open Scope list_scope.

(* strings.Index: a match found inside a prefix is found at the same place in any extension *)
Lemma has_prefix_app p : forall x y, has_prefix p x = true -> has_prefix p (x ++ y) = true.
Proof.
  induction p as [|a p IH]; intros x y H; cbn in *; auto. destruct x as [|b x]; [discriminate|]. cbn [app].
  apply andb_prop in H. destruct H as [H1 H2]. rewrite H1. cbn. auto.
Qed.
(* a non-match inside a prefix that is long enough stays a non-match *)
Lemma has_prefix_app_false p : forall x y, (List.length p <= List.length x)%nat -> has_prefix p x = false -> has_prefix p (x ++ y) = false.
Proof.
  induction p as [|a p IH]; intros x y Hl H; cbn in *. discriminate. destruct x as [|b x]; [cbn in Hl; lia|]. cbn [app].
  destruct (Ascii.eqb a b); cbn in *; auto. apply IH; auto. lia.
Qed.

(* index restricted to positions where the whole needle fits inside x *)
Fixpoint index_in (p x : str) : option nat :=
  match x with
  | [] => None
  | c :: r => if (List.length p <=? List.length x)%nat && has_prefix p x then Some O else option_map S (index_in p r)
  end.
Lemma index_of_ext p : forall x y fuel i, p <> [] -> index_in p x = Some i -> (List.length (x ++ y) < fuel)%nat -> index_of fuel p (x ++ y) = Some i.
Proof.
  induction x as [|c r IH]; intros y fuel i Hp H Hf; cbn [index_in] in H. discriminate.
  destruct fuel as [|fuel]; [lia|]. cbn [index_of].
  destruct ((List.length p <=? List.length (c :: r))%nat && has_prefix p (c :: r)) eqn:E.
  - injection H as <-. apply andb_prop in E. destruct E as [_ E]. rewrite (has_prefix_app _ _ y E). reflexivity.
  - destruct (index_in p r) as [j|] eqn:Ej; [|discriminate]. injection H as <-.
    assert (Hnp: has_prefix p ((c :: r) ++ y) = false).
    { destruct (List.length p <=? List.length (c :: r))%nat eqn:El; cbn [andb] in E.
      - apply has_prefix_app_false; auto. apply Nat.leb_le; auto.
      - (* the needle does not fit in x at this position, yet a later full match exists in r: impossible *)
        exfalso. clear - Ej El. apply Nat.leb_gt in El.
        assert (G: forall r j, index_in p r = Some j -> (List.length p <= List.length r)%nat).
        { induction r0 as [|d r0 IHr]; intros j0 Hj; cbn [index_in] in Hj; [discriminate|].
          destruct ((List.length p <=? List.length (d :: r0))%nat && has_prefix p (d :: r0)) eqn:E2.
          - apply andb_prop in E2. destruct E2 as [E2 _]. apply Nat.leb_le in E2. exact E2.
          - destruct (index_in p r0) eqn:E3; [|discriminate]. specialize (IHr _ eq_refl). cbn [List.length]. lia. }
        specialize (G _ _ Ej). cbn [List.length] in El. lia. }
    rewrite Hnp. cbn [app]. rewrite (IH y fuel j Hp eq_refl). reflexivity. cbn [app List.length] in Hf. lia.
Qed.

Lemma sindex_ext p x y i : p <> [] -> index_in p x = Some i -> sindex p (x ++ y) = Some i.
Proof. intros Hp H. unfold sindex. apply index_of_ext; auto. Qed.

(* every record-type name, written as "type=NAME msg=", has its first "msg=" right after the name *)
Definition line_prefix (t : N) : str := L "type=" ++ type_name t ++ L " msg=".
Definition type_line_okb (t : N) : bool :=
  match index_in (L "msg=") (line_prefix t) with
  | Some i => (i =? 6 + List.length (type_name t))%nat && (6 <=? i)%nat &&
              Parser.beq (sub (line_prefix t) 5 (i - 1)) (type_name t)
  | None => false
  end.
Lemma type_lines_ok : filter (fun t => negb (type_line_okb t)) all_types = []. Proof. by_vm. Qed.

Lemma sub_app_prefix (x y : str) lo hi : (hi <= List.length x)%nat -> sub (x ++ y) lo hi = sub x lo hi.
Proof.
  intros H. unfold sub. destruct (le_lt_dec lo hi) as [Hle|Hgt].
  - rewrite skipn_app. replace (lo - List.length x)%nat with O by lia. cbn [skipn]. rewrite firstn_app.
    rewrite skipn_length. replace (hi - lo - (List.length x - lo))%nat with O by lia. cbn [firstn]. apply app_nil_r.
  - replace (hi - lo)%nat with O by lia. reflexivity.
Qed.

Lemma pbeq_true : forall a b, Parser.beq a b = true -> a = b.
Proof. induction a as [|x a IH]; intros [|y b] H; cbn in H; try discriminate; auto.
  apply andb_prop in H. destruct H as [H1 H2]. apply Ascii.eqb_eq in H1. subst. f_equal. auto. Qed.

Lemma s64_small z : (0 <= z < 2 ^ 63)%Z -> s64 z = z.
Proof. intros H. unfold s64. rewrite Z.mod_small by lia. lia. Qed.

Theorem parse_log_line_render t S m N rest :
  (t < 65536)%N -> (S < 2 ^ 34)%N -> (m < 1000)%N -> (N < 2 ^ 32)%N ->
  let msg := render_header (L "audit") S m N rest in
  trim_space msg = msg ->
  parse_log_line (L "type=" ++ type_name t ++ L " msg=" ++ msg) =
    Some {| a_type := t; a_sec := Z.of_N S; a_nsec := (Z.of_N m * 1000000)%Z; a_seq := N; a_raw := msg;
            a_off := index_func (fun c => (code c =? 58)%nat || (code c =? 32)%nat) (L ")" ++ rest) |}.
Proof.
  intros Ht HS Hm HN msg Htrim.
  assert (Hline: L "type=" ++ type_name t ++ L " msg=" ++ msg = line_prefix t ++ msg).
  { unfold line_prefix. rewrite <- !app_assoc. reflexivity. }
  rewrite Hline. unfold parse_log_line.
  pose proof (filter_nil_forall _ _ type_lines_ok _ (In_all_types t Ht)) as Hok. unfold type_line_okb in Hok.
  destruct (index_in (L "msg=") (line_prefix t)) as [i|] eqn:Ei; [|discriminate].
  apply andb_prop in Hok. destruct Hok as [Hok Hsub]. apply andb_prop in Hok. destruct Hok as [Hi H6].
  apply Nat.eqb_eq in Hi. apply Nat.leb_le in H6.
  assert (Hne: L "msg=" <> []) by (vm_compute; discriminate).
  rewrite (sindex_ext _ _ msg i Hne Ei).
  replace (i <? 6)%nat with false by (symmetry; apply Nat.ltb_ge; exact H6).
  assert (Hlen: List.length (line_prefix t) = (i + 4)%nat).
  { unfold line_prefix. rewrite !app_length. cbn [List.length L list_ascii_of_string]. lia. }
  rewrite sub_app_prefix by lia.
  assert (Hs: sub (line_prefix t) 5 (i - 1) = type_name t).
  { apply pbeq_true. exact Hsub. }
  unfold bytes_of. rewrite Hs.
  pose proof (filter_nil_forall msgtype_fwd_okb all_types msgtypes_fwd_ok t (In_all_types t Ht)) as Hty. apply optN_eqb_eq in Hty. rewrite Hty.
  rewrite skipn_app, <- Hlen, skipn_all, Nat.sub_diag. cbn [skipn app].
  unfold parse. rewrite Htrim. unfold msg at 1. rewrite parse_render_header; auto.
  cbn [h_sec h_msec h_seq h_after].
  assert (Hm2: (0 <= Z.of_N m * 1000000 < 1000000000)%Z) by lia.
  rewrite (s64_small (Z.of_N m * 1000000)) by lia.
  rewrite (Z.div_small (Z.of_N m * 1000000) 1000000000) by lia. rewrite Z.add_0_r.
  rewrite s64_small by (change (2^34)%N with 17179869184%N in HS; lia).
  rewrite Z.mod_small by lia. reflexivity.
Qed.
Print Assumptions parse_log_line_render.
