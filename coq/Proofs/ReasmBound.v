(* Proofs/ReasmBound.v — the C10 bound for every history. *)
From Coq Require Import List ZArith Bool Lia Permutation.
Import ListNotations.
Require Import Reassembler ReasmInv ReasmC01 ReasmC10 ChkBound.
Open Scope Z_scope.

Theorem run_chk_bound : forall c ops s U, 0 <= maxSize c -> InvL U (seqs s) (events s) ->
  chk_bound (maxSize c) U ops (run c s ops) = true.
Proof.
  intros c. induction ops as [|o ops IH]; intros s U Hm HI; cbn [run chk_bound]; auto.
  destruct o as [[m|] now now2 | now | ].
  - pose proof (push_bound c now now2 m s U Hm HI) as HB.
    destruct (step c s (Push (Some m) now now2)) as [s' outs]. destruct HB as (U' & Hc & HI' & Hlen).
    rewrite Hc. apply andb_true_iff. split; [apply Z.leb_le; auto|]. apply IH; auto.
  - cbn. apply IH; auto.
  - cbn [step]. destruct (closed s). cbn. apply IH; auto.
    pose proof (cleanup_ok false c now s U HI) as HC.
    destruct (cleanup false c now s) as [s' outs]. destruct HC as (U' & Hc & HI' & _ & _).
    cbn [pushU]. rewrite (chk_outs_app _ _ _ _ Hc). cbn. apply IH; auto.
  - cbn [step]. destruct (closed s) eqn:Ecl. cbn. apply IH; auto.
    set (s1 := {| seqs := seqs s; events := events s; lastSeq := lastSeq s; hasLast := hasLast s; closed := true |}).
    pose proof (cleanup_ok true c 0 s1 U HI) as HC.
    destruct (cleanup true c 0 s1) as [s' outs]. destruct HC as (U' & Hc & HI' & Hf & _).
    cbn [pushU]. rewrite (chk_outs_app _ _ _ _ Hc). cbn. apply IH; auto.
Qed.
