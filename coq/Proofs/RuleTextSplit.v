(* Proofs/RuleTextSplit.v — the printed line, cut at blanks, is the list of tokens it was joined from. *)
From Coq Require Import List Ascii String Arith NArith Bool Lia.
Import ListNotations.
Require Import Bytes RuleText Flags RuleBuild FlagsProofs RuleReprint RuleFieldsBack.
Local Open Scope string_scope.
Local Open Scope list_scope.

Definition no_sh_blank (t : str) : bool := forallb (fun c => negb (is_sh_blank c)) t.

Lemma split_aux_word : forall t rest cur, no_sh_blank t = true -> split_ws_aux (t ++ rest) cur = split_ws_aux rest (rev t ++ cur).
Proof.
  induction t as [|c t IH]; intros rest cur H; cbn [app rev]. reflexivity.
  cbn in H. apply andb_prop in H. destruct H as [Hc Ht]. apply negb_true_iff in Hc. cbn [split_ws_aux]. rewrite Hc, IH by auto.
  rewrite <- app_assoc. reflexivity.
Qed.

Theorem split_ws_join : forall toks, Forall (fun t => t <> [] /\ no_sh_blank t = true) toks -> split_ws (join_with [" "%char] toks) = toks.
Proof.
  unfold split_ws. induction toks as [|t r IH]; intros H. reflexivity.
  inversion H as [|? ? [Hne Hnb] Hr]; subst. destruct r as [|t2 r'].
  - cbn [join_with]. rewrite <- (app_nil_r t) at 1. rewrite split_aux_word by auto. cbn [split_ws_aux]. rewrite app_nil_r.
    destruct (rev t) eqn:E. { apply (f_equal (@rev _)) in E. rewrite rev_involutive in E. contradiction. }
    rewrite <- E, rev_involutive. reflexivity.
  - change (join_with [" "%char] (t :: t2 :: r')) with (t ++ " "%char :: join_with [" "%char] (t2 :: r')).
    rewrite split_aux_word by auto. cbn [split_ws_aux]. replace (is_sh_blank " "%char) with true by reflexivity. rewrite app_nil_r.
    destruct (rev t) eqn:E. { apply (f_equal (@rev _)) in E. rewrite rev_involutive in E. contradiction. }
    rewrite <- E, rev_involutive. cbn [app]. f_equal. apply IH. exact Hr.
Qed.

Lemma clean_no_sh_blank v : clean v = true -> v <> [] /\ no_sh_blank v = true.
Proof.
  unfold clean, no_sh_blank. intros H. apply andb_prop in H. destruct H as [Hn Hc]. split. { destruct v; [discriminate|discriminate]. }
  rewrite forallb_forall in *. intros x Hx. specialize (Hc x Hx). unfold tok_char_ok in Hc. apply andb_prop in Hc. tauto.
Qed.

Theorem printed_text_splits its : Forall tok_ok its -> flags_only its -> split_ws (text_of_items its) = flat_map render_item its.
Proof.
  intros Ht Hf. unfold text_of_items. apply split_ws_join.
  apply Forall_forall. intros t Hin. apply in_flat_map in Hin. destruct Hin as (it & Hit & Hin).
  rewrite Forall_forall in Ht. specialize (Ht _ Hit). unfold flags_only in Hf. rewrite Forall_forall in Hf. specialize (Hf _ Hit).
  destruct it as [n v| | |]; cbn in Ht, Hf; try contradiction. cbn [render_item] in Hin. destruct Hin as [<-|[<-|[]]].
  - unfold flag_names in Hf. cbn [In] in Hf. destruct Hf as [<-|[<-|[<-|[<-|[<-|[<-|[<-|[<-|[]]]]]]]]]; split; try discriminate; reflexivity.
  - apply clean_no_sh_blank. exact Ht.
Qed.
Print Assumptions printed_text_splits.
