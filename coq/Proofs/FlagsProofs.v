(* Proofs/FlagsProofs.v — C14: the value scanners return the complete text around the
   operator; validate enforces exclusivity; the flag package's reading of the tokens
   coincides with the declarative reading of the items (nothing is skipped). *)
From Coq Require Import List Ascii String Bool Arith Lia.
Import ListNotations.
Require Import KV Trim FilterRe Flags RegexPins.
Local Open Scope string_scope.
Local Open Scope list_scope.

(* the patterns the scanners model are the ones compiled into the package *)
Lemma regex_pins_ok :
  (filter_regex_src, comparison_regex_src) = ("(?s)^(\w+)\s*(<=|>=|&=|=|!=|<|>|&)(.+)$", "^(\w+)\s*(!?=)(\w+)$").
Proof. vm_compute. reflexivity. Qed.

Theorem scan_compare_complete v lhs o rhs : scan_compare v = Some (lhs, o, rhs) ->
  exists ws, v = lhs ++ ws ++ o ++ rhs /\ lhs <> [] /\ forallb is_word lhs = true /\ forallb is_blank ws = true /\
             (o = l "=" \/ o = l "!=") /\ rhs <> [] /\ forallb is_word rhs = true.
Proof.
  unfold scan_compare. pose proof (span_app is_word v) as H1. destruct (span is_word v) as [w r1]. destruct H1 as [-> Hw].
  destruct w as [|c w]; try discriminate.
  pose proof (span_app is_blank r1) as H2. destruct (span is_blank r1) as [ws r2]. destruct H2 as [-> Hb].
  destruct r2 as [|a r2]; try discriminate.
  destruct (Ascii.eqb a "!"%char) eqn:E1.
  - apply Ascii.eqb_eq in E1. subst a. destruct r2 as [|b r2]; try discriminate.
    destruct (Ascii.eqb b "="%char) eqn:E2.
    + apply Ascii.eqb_eq in E2. subst b. cbn. destruct r2 as [|x r2]; try discriminate.
      destruct (forallb is_word (x :: r2)) eqn:Ef; try discriminate. intros H; inversion H; subst.
      exists ws. repeat split; auto; try discriminate.
    + assert (b <> "="%char) by (intros ->; rewrite Ascii.eqb_refl in E2; discriminate).
      destruct b as [[] [] [] [] [] [] [] []]; try discriminate; try congruence.
  - assert (Ha: a <> "!"%char) by (intros ->; rewrite Ascii.eqb_refl in E1; discriminate).
    destruct (Ascii.eqb a "="%char) eqn:E2.
    + apply Ascii.eqb_eq in E2. subst a. cbn. destruct r2 as [|x r2]; try discriminate.
      destruct (forallb is_word (x :: r2)) eqn:Ef; try discriminate. intros H; inversion H; subst.
      exists ws. repeat split; auto; try discriminate.
    + assert (a <> "="%char) by (intros ->; rewrite Ascii.eqb_refl in E2; discriminate).
      destruct a as [[] [] [] [] [] [] [] []]; try discriminate; try congruence.
Qed.

(* validate: exactly one kind of rule; a syscall rule has exactly one of -a / -A *)
Theorem validate_exclusive p r : validate p = Some r ->
  match r with
  | PDelete _ => seen_any p ["D"] = true /\ seen_any p ["w"; "p"] = false /\ seen_any p ["a"; "A"; "C"; "F"; "S"] = false
  | PWatch _ _ _ => seen_any p ["D"] = false /\ seen_any p ["w"; "p"] = true /\ seen_any p ["a"; "A"; "C"; "F"; "S"] = false
  | PSyscall pre _ _ _ _ _ => seen_any p ["D"] = false /\ seen_any p ["w"; "p"] = false /\ seen_any p ["a"; "A"; "C"; "F"; "S"] = true /\
                              (if pre then p_append p = None /\ p_prepend p <> None else p_append p <> None /\ p_prepend p = None)
  end.
Proof.
  unfold validate. destruct (seen_any p ["D"]), (seen_any p ["w"; "p"]), (seen_any p ["a"; "A"; "C"; "F"; "S"]); try discriminate.
  - intros H; inversion H; subst. auto.
  - intros H; inversion H; subst. auto.
  - destruct (p_append p) as [[li ac]|], (p_prepend p) as [[li' ac']|]; try discriminate; intros H; inversion H; subst; repeat split; auto; discriminate.
Qed.

(* canonical rendering of a line's items: "-x value", "-D", "--" *)
Definition flag_names : list string := ["a"; "A"; "C"; "F"; "S"; "k"; "p"; "w"].
Definition flags_only (its : list fitem) : Prop :=
  Forall (fun it => match it with FFlag n _ => In n flag_names | FDel => True | _ => False end) its.

Lemma parse_tokens_items : forall its p fuel, flags_only its -> (List.length (flat_map render_item its) < fuel)%nat ->
  parse_tokens fuel p (flat_map render_item its) = apply_items p its.
Proof.
  induction its as [|it its IH]; intros p fuel Hf Hl; cbn [flat_map apply_items].
  - destruct fuel; [cbn in Hl; lia|]. reflexivity.
  - inversion Hf as [|? ? Hit Hrest]; subst. destruct it as [n v| | |]; try contradiction.
    + cbn [flat_map render_item app List.length] in Hl. cbn [render_item app]. destruct fuel as [|fuel]; [lia|].
      assert (Hl' : (List.length (flat_map render_item its) < fuel)%nat) by lia.
      cbn in Hit.
      destruct Hit as [<-|[<-|[<-|[<-|[<-|[<-|[<-|[<-|[]]]]]]]]]; cbn -[set_flag apply_items flat_map];
        (destruct (set_flag p _ v) as [p'|]; [apply IH; auto | reflexivity]).
    + cbn [flat_map render_item app List.length] in Hl. cbn [render_item app]. destruct fuel as [|fuel]; [lia|].
      cbn -[apply_items flat_map]. apply IH; auto. lia.
Qed.

Theorem tokens_read_as_items its : flags_only its -> flags_parse (flat_map render_item its) = expected_of_items its.
Proof.
  intros H. unfold flags_parse, expected_of_items. rewrite parse_tokens_items; auto.
Qed.

(* ---------- the same for lines with stray words and the "--" terminator ---------- *)
(* a stray word is any token that is not of the form "-x…" *)
Definition stray_ok (w : str) : Prop := match w with "-"%char :: _ :: _ => False | _ => True end.
Definition items_ok (its : list fitem) : Prop :=
  Forall (fun it => match it with FFlag n _ => In n flag_names | FDel => True | FStray w => stray_ok w | FTerm => True end) its.

Lemma parse_tokens_all_items : forall its p fuel, items_ok its -> (List.length (flat_map render_item its) < fuel)%nat ->
  parse_tokens fuel p (flat_map render_item its) = apply_items p its.
Proof.
  induction its as [|it its IH]; intros p fuel Hf Hl; cbn [flat_map apply_items].
  - destruct fuel; [cbn in Hl; lia|]. reflexivity.
  - inversion Hf as [|? ? Hit Hrest]; subst. destruct it as [n v| |w|].
    + cbn [flat_map render_item app List.length] in Hl. cbn [render_item app]. destruct fuel as [|fuel]; [lia|].
      assert (Hl' : (List.length (flat_map render_item its) < fuel)%nat) by lia.
      cbn in Hit.
      destruct Hit as [<-|[<-|[<-|[<-|[<-|[<-|[<-|[<-|[]]]]]]]]]; cbn -[set_flag apply_items flat_map];
        (destruct (set_flag p _ v) as [p'|]; [apply IH; auto | reflexivity]).
    + cbn [flat_map render_item app List.length] in Hl. cbn [render_item app]. destruct fuel as [|fuel]; [lia|].
      cbn -[apply_items flat_map]. apply IH; auto. lia.
    + (* a stray word: the flag package stops there; the line is rejected *)
      cbn [render_item app]. destruct fuel as [|fuel]; [cbn in Hl; lia|]. cbn [parse_tokens].
      cbn in Hit. destruct w as [|c [|c2 r]]; try reflexivity.
      * destruct (Ascii.eqb c "-"%char) eqn:E. apply Ascii.eqb_eq in E. subst c. reflexivity.
        destruct c as [[] [] [] [] [] [] [] []]; try reflexivity; discriminate E.
      * destruct c as [[] [] [] [] [] [] [] []]; try reflexivity; contradiction.
    + (* "--": nothing may follow *)
      cbn [render_item app]. destruct fuel as [|fuel]; [cbn in Hl; lia|].
      destruct its as [|it2 its2]; [reflexivity|].
      cbn -[flat_map]. destruct (flat_map render_item (it2 :: its2)) eqn:E; [|reflexivity].
      exfalso. destruct it2; cbn in E; discriminate.
Qed.

Theorem tokens_read_as_all_items its : items_ok its -> flags_parse (flat_map render_item its) = expected_of_items its.
Proof. intros H. unfold flags_parse, expected_of_items. rewrite parse_tokens_all_items; auto. Qed.

(* hence the parser itself rejects a line with a stray word anywhere, and anything after "--" *)
Theorem parser_rejects_stray a w b : items_ok (a ++ FStray w :: b) -> flags_parse (flat_map render_item (a ++ FStray w :: b)) = None.
Proof.
  intros H. rewrite tokens_read_as_all_items by exact H. unfold expected_of_items.
  assert (G: forall p, apply_items p (a ++ FStray w :: b) = None).
  { clear H. induction a as [|it a IH]; intros p; cbn [app apply_items]; auto.
    destruct it as [n v| |w'|]; auto.
    - destruct (set_flag p n v); auto.
    - destruct (a ++ FStray w :: b) eqn:E; auto. destruct a; discriminate. }
  rewrite G. reflexivity.
Qed.
Theorem parser_rejects_after_terminator a x b : items_ok (a ++ FTerm :: x :: b) -> flags_parse (flat_map render_item (a ++ FTerm :: x :: b)) = None.
Proof.
  intros H. rewrite tokens_read_as_all_items by exact H. unfold expected_of_items.
  assert (G: forall p, apply_items p (a ++ FTerm :: x :: b) = None).
  { clear H. induction a as [|it a IH]; intros p; cbn [app apply_items]; auto.
    destruct it as [n v| |w'|]; auto.
    - destruct (set_flag p n v); auto.
    - destruct (a ++ FTerm :: x :: b) eqn:E; auto. destruct a; discriminate. }
  rewrite G. reflexivity.
Qed.
Print Assumptions parser_rejects_stray.
