(* Proofs/TrimPad.v — strings.TrimSpace removes ASCII white space around a text that neither starts nor ends with a
   white-space rune: Parse / ParseLogLine see the same message whatever the padding. *)
From Coq Require Import List Ascii String NArith ZArith Bool Arith Lia.
Import ListNotations.
Require Import KV Trim Header Parser.
Local Close Scope N_scope.
Local Open Scope nat_scope.
Local Open Scope list_scope.
Local Notation length := List.length.

Definition ascii_ws (c : ascii) : bool := existsb (Nat.eqb (code c)) [9; 10; 11; 12; 13; 32].
Definition no_ws_ends (s : str) : Prop := drop_space_rune s = None /\ drop_space_rune_rev (rev s) = None.

Lemma ascii_ws_cases c : ascii_ws c = true -> In (code c) [9; 10; 11; 12; 13; 32].
Proof.
  unfold ascii_ws. intros H. apply existsb_exists in H. destruct H as (n & Hin & E). apply Nat.eqb_eq in E. rewrite E. exact Hin.
Qed.
Lemma code_inj_ws c n : code c = n -> n < 256 -> c = ascii_of_nat n.
Proof. intros <- _. unfold code. rewrite ascii_nat_embedding. reflexivity. Qed.
Lemma drop_ws_byte c rest : ascii_ws c = true -> drop_space_rune (c :: rest) = Some rest.
Proof.
  intros H. apply ascii_ws_cases in H. cbn [In] in H.
  destruct H as [H|[H|[H|[H|[H|[H|[]]]]]]]; symmetry in H; apply code_inj_ws in H; try lia; subst c; reflexivity.
Qed.
Lemma drop_ws_byte_rev c rest : ascii_ws c = true -> drop_space_rune_rev (c :: rest) = Some rest.
Proof.
  intros H. apply ascii_ws_cases in H. cbn [In] in H.
  destruct H as [H|[H|[H|[H|[H|[H|[]]]]]]]; symmetry in H; apply code_inj_ws in H; try lia; subst c; reflexivity.
Qed.
Lemma trim_left_pad : forall p fuel s, forallb ascii_ws p = true -> length p <= fuel -> drop_space_rune s = None -> trim_left fuel (p ++ s) = s.
Proof.
  induction p as [|c p IH]; intros fuel s Hp Hf Hs; cbn [app].
  - destruct fuel; cbn [trim_left]; auto. rewrite Hs. reflexivity.
  - cbn [forallb] in Hp. apply andb_prop in Hp. destruct Hp as [Hc Hp]. destruct fuel as [|f]; [cbn in Hf; lia|]. cbn [trim_left].
    rewrite drop_ws_byte by exact Hc. apply IH; auto. cbn in Hf. lia.
Qed.
Lemma trim_left_rev_pad : forall p fuel s, forallb ascii_ws p = true -> length p <= fuel -> drop_space_rune_rev s = None -> trim_left_rev fuel (p ++ s) = s.
Proof.
  induction p as [|c p IH]; intros fuel s Hp Hf Hs; cbn [app].
  - destruct fuel; cbn [trim_left_rev]; auto. rewrite Hs. reflexivity.
  - cbn [forallb] in Hp. apply andb_prop in Hp. destruct Hp as [Hc Hp]. destruct fuel as [|f]; [cbn in Hf; lia|]. cbn [trim_left_rev].
    rewrite drop_ws_byte_rev by exact Hc. apply IH; auto. cbn in Hf. lia.
Qed.

(* TrimSpace of padded text *)
Theorem trim_space_padded p1 msg p2 : forallb ascii_ws p1 = true -> forallb ascii_ws p2 = true -> no_ws_ends msg -> msg <> [] ->
  drop_space_rune (msg ++ p2) = None ->
  trim_space (p1 ++ msg ++ p2) = msg.
Proof.
  intros H1 H2 [Hs He] Hne Hs2. unfold trim_space.
  rewrite (trim_left_pad p1 (length (p1 ++ msg ++ p2)) (msg ++ p2) H1); [|rewrite app_length; lia|exact Hs2].
  rewrite rev_app_distr.
  assert (H2r: forallb ascii_ws (rev p2) = true).
  { rewrite forallb_forall in *. intros x Hx. apply H2. apply in_rev. exact Hx. }
  rewrite (trim_left_rev_pad (rev p2) (length (msg ++ p2)) (rev msg) H2r); [|rewrite app_length, rev_length; lia|exact He].
  apply rev_involutive.
Qed.
Corollary trim_space_fixed msg : no_ws_ends msg -> msg <> [] -> trim_space msg = msg.
Proof.
  intros Hn Hne. pose proof (trim_space_padded [] msg [] eq_refl eq_refl Hn Hne) as H. cbn [app] in H. rewrite app_nil_r in H. apply H. apply Hn.
Qed.
Print Assumptions trim_space_padded.
