(* Proofs/ClientSpecProofs.v — the checker's independent reading of the kernel script (Check/ChkClient.spec_next, written from
   the property's fault model) against the model's getReply, and from there: the C08 clause the judge applies to a Set* in
   WaitForReply mode, an AddRule or a DeleteRule accepts what the model returns, for EVERY script - in the fault model
   (the errno decides), on a foreign reply (failure), and outside it (success only with an acknowledgement). *)
From Coq Require Import List Ascii NArith ZArith Bool Lia.
Import ListNotations.
Require Import Mach AuditConsts MsgTypes AuditClient Uapi ChkClient RuleWire ClientProofs ClientAckProofs StatusProofs.
Open Scope N_scope.

(* getReply whose first receive has k attempts left *)
Definition get_reply_k (f k : nat) (seq : N) (script : list revent) : (cerr + (N * N * str)) * list revent :=
  match recv_retry k script with
  | ((Some e, _), r) => (inl e, r)
  | ((None, None), r) => (inl ENoReply, r)
  | ((None, Some (ty, sq, d)), r) =>
      if (sq =? 0) && negb (seq =? 0) then get_reply f seq r
      else if sq =? seq then (inr (ty, sq, d), r) else (inl ESeq, r)
  end.
Lemma get_reply_S f q script : get_reply (S f) q script = get_reply_k f 10 q script.
Proof. reflexivity. Qed.
Lemma transient_same e : transientZ e = (Z.eqb e EINTR || Z.eqb e EAGAIN).
Proof. reflexivity. Qed.

(* run transient failures have been read since the last message; k attempts are left *)
Lemma spec_next_reply q : forall script f k run, (k + run = 10)%nat -> (run <= 9)%nat -> (length script <= f)%nat ->
  match spec_next q script run with
  | SMsg ty d rest => get_reply_k f k q script = (inr (ty, q, d), rest)
  | SForeign => exists r, get_reply_k f k q script = (inl ESeq, r)
  | SOut => True
  end.
Proof.
  induction script as [|ev script IH]; intros f k run Hk Hr Hf; cbn [spec_next]; [exact I|].
  destruct ev as [e|ty sq d|].
  - rewrite transient_same. destruct (Z.eqb e EINTR || Z.eqb e EAGAIN) eqn:Et; [|exact I].
    destruct (run <? 9)%nat eqn:E9; [|exact I]. apply Nat.ltb_lt in E9.
    destruct k as [|k']; [lia|].
    assert (Hs : get_reply_k f (S k') q (RErr e :: script) = get_reply_k f k' q script).
    { unfold get_reply_k. cbn [recv_retry]. rewrite Et. reflexivity. }
    rewrite Hs. apply IH; cbn [length] in Hf; lia.
  - destruct k as [|k']; [lia|]. unfold get_reply_k. cbn [recv_retry].
    destruct ((sq =? 0) && negb (q =? 0)) eqn:Esk.
    + destruct f as [|f']; [cbn [length] in Hf; lia|]. rewrite get_reply_S. apply (IH f' 10%nat 0%nat); cbn [length] in Hf; lia.
    + destruct (sq =? q) eqn:Eq.
      * apply N.eqb_eq in Eq. subst sq. reflexivity.
      * eexists. reflexivity.
  - exact I.
Qed.

(* the checker's reading and the model's getReply agree wherever the checker commits itself *)
Theorem spec_reply q script :
  match spec_next q script 0 with
  | SMsg ty d rest => reply q script = (inr (ty, q, d), rest)
  | SForeign => exists r, reply q script = (inl ESeq, r)
  | SOut => True
  end.
Proof. unfold reply. rewrite get_reply_S. apply spec_next_reply; lia. Qed.

(* how cstep turns the ACK check into a result (AddRule maps EEXIST to "rule exists") *)
Definition ack_result (addrule : bool) (e : option cerr) : cres :=
  match e with
  | None => ROk
  | Some (EErrno n) => if addrule && Z.eqb n EEXIST then RFail ERuleExists else RFail (EErrno n)
  | Some x => RFail x
  end.
Lemma ack_result_fails addrule x : is_fail (ack_result addrule (Some x)) = true.
Proof. destruct x; cbn [ack_result is_fail]; try reflexivity. destruct (addrule && Z.eqb n EEXIST); reflexivity. Qed.

Lemma s32_same w : s32 w = s32u w.
Proof. reflexivity. Qed.
Lemma neg_s32u_zero w : w < 2^32 -> Z.eqb (- s32u w) 0 = (w =? 0).
Proof.
  intros H. rewrite <- (s32u_zero w H). destruct (Z.eqb_spec (s32u w) 0) as [E|E].
  - rewrite E. reflexivity.
  - apply Z.eqb_neq. lia.
Qed.
Lemma cres_eqb_refl_fail n : cres_eqb (RFail (EErrno n)) (RFail (EErrno n)) = true.
Proof. cbn [cres_eqb cerr_eqb]. apply Z.eqb_refl. Qed.

Theorem c08_ack_clause_accepts_model addrule q script r rest : reply q script = (r, rest) ->
  match spec_ack q script with
  | VAck e _ => res_for_errno addrule e (ack_result addrule (check_ack r))
  | VForeign => is_fail (ack_result addrule (check_ack r))
  | VOut => unacked_must_fail q script (ack_result addrule (check_ack r))
  end = true.
Proof.
  intros H. unfold spec_ack. pose proof (spec_reply q script) as HS.
  assert (Hout : unacked_must_fail q script (ack_result addrule (check_ack r)) = true).
  { unfold unacked_must_fail. destruct (check_ack r) as [x|] eqn:Ec.
    - rewrite ack_result_fails. apply orb_true_r.
    - rewrite (success_only_if_acked _ _ _ _ H Ec). reflexivity. }
  destruct (spec_next q script 0) as [ty d rest'| |]; [| |exact Hout].
  - rewrite H in HS. injection HS as -> ->.
    destruct (ty =? UAPI_NLMSG_ERROR) eqn:Et; [|exact Hout].
    destruct d as [|a [|b [|c [|x d']]]]; try exact Hout.
    set (d := a :: b :: c :: x :: d') in *.
    cbn [check_ack]. change NLMSG_ERROR with UAPI_NLMSG_ERROR. rewrite Et. unfold parse_netlink_error.
    destruct (rd32 d) as [[w r1]|] eqn:E; [|discriminate].
    destruct (rd32_uword _ _ _ E) as [Hw _]. destruct (rd32_bound _ _ _ E) as [Hb _]. rewrite <- Hw. clear Hw.
    unfold res_for_errno. rewrite (neg_s32u_zero w Hb). rewrite s32_same.
    destruct (w =? 0); cbn [ack_result]; [reflexivity|].
    change EEXIST with 17%Z. destruct (addrule && Z.eqb (- s32u w) 17); [reflexivity|apply cres_eqb_refl_fail].
  - destruct HS as [r' HS]. rewrite H in HS. injection HS as -> _. reflexivity.
Qed.

(* ---------- at the level of whole calls ---------- *)
Lemma cset_wait_result s w k v : no_fault w ->
  exists r rest, reply (next_seq s) (rscript w) = (r, rest) /\
                 result_of (snd (cstep s w (OSet k v true))) = ack_result false (check_ack r).
Proof.
  intros Hn. cbn [cstep]. unfold cset. set (s0 := match k with SPID => _ | _ => s end).
  assert (Hq : nseq s0 = nseq s) by (destruct k; reflexivity).
  unfold do_send, no_fault, next_seq in *. rewrite Hq.
  destruct (sfaults w) as [|f fs]; cbn [rscript].
  - destruct (reply ((nseq s + 1) mod 2 ^ 32) (rscript w)) as [r rest] eqn:E. exists r, rest. split; [reflexivity|].
    cbn [snd result_of fst]. destruct (check_ack r) as [[]|]; reflexivity.
  - destruct f as [e|]; [destruct Hn|].
    destruct (reply ((nseq s + 1) mod 2 ^ 32) (rscript w)) as [r rest] eqn:E. exists r, rest. split; [reflexivity|].
    cbn [snd result_of fst]. destruct (check_ack r) as [[]|]; reflexivity.
Qed.

Lemma ack_cmd_result s w ty data : no_fault w ->
  exists r rest, reply (next_seq s) (rscript w) = (r, rest) /\
                 (let '(_, _, e, _) := ack_cmd s w ty data in e) = check_ack r.
Proof.
  intros Hn. unfold ack_cmd, do_send, no_fault, next_seq in *.
  destruct (sfaults w) as [|f fs]; cbn [rscript].
  - destruct (reply ((nseq s + 1) mod 2 ^ 32) (rscript w)) as [r rest] eqn:E. exists r, rest. split; reflexivity.
  - destruct f as [e|]; [destruct Hn|].
    destruct (reply ((nseq s + 1) mod 2 ^ 32) (rscript w)) as [r rest] eqn:E. exists r, rest. split; reflexivity.
Qed.

(* the judge's C08 clause accepts the model's Set* (WaitForReply), DeleteRule and AddRule on every script *)
Theorem chk_c08_accepts_set s w k v : no_fault w ->
  chk_c08_call (OSet k v true) (next_seq s) (rscript w) (result_of (snd (cstep s w (OSet k v true)))) = true.
Proof.
  intros Hn. destruct (cset_wait_result s w k v Hn) as (r & rest & E & ->). cbn [chk_c08_call].
  exact (c08_ack_clause_accepts_model false _ _ _ _ E).
Qed.

Theorem chk_c08_accepts_delete_rule s w d : no_fault w ->
  chk_c08_call (ODeleteRule d) (next_seq s) (rscript w) (result_of (snd (cstep s w (ODeleteRule d)))) = true.
Proof.
  intros Hn. destruct (ack_cmd_result s w AUDIT_DEL_RULE d Hn) as (r & rest & E & He). cbn [chk_c08_call cstep].
  destruct (ack_cmd s w AUDIT_DEL_RULE d) as [[[s1 w1] e] ws]. subst e. cbn [snd result_of fst].
  pose proof (c08_ack_clause_accepts_model false _ _ _ _ E) as H.
  assert (Hr : match check_ack r with None => ROk | Some x => RFail x end = ack_result false (check_ack r))
    by (destruct (check_ack r) as [[]|]; reflexivity).
  rewrite Hr. exact H.
Qed.

Theorem chk_c08_accepts_add_rule s w d : no_fault w ->
  chk_c08_call (OAddRule d) (next_seq s) (rscript w) (result_of (snd (cstep s w (OAddRule d)))) = true.
Proof.
  intros Hn. destruct (ack_cmd_result s w AUDIT_ADD_RULE d Hn) as (r & rest & E & He). cbn [chk_c08_call cstep].
  destruct (ack_cmd s w AUDIT_ADD_RULE d) as [[[s1 w1] e] ws]. subst e. cbn [snd result_of fst].
  pose proof (c08_ack_clause_accepts_model true _ _ _ _ E) as H.
  assert (Hr : match check_ack r with None => ROk | Some (EErrno n) => if Z.eqb n EEXIST then RFail ERuleExists else RFail (EErrno n) | Some x => RFail x end
               = ack_result true (check_ack r)) by (destruct (check_ack r) as [[]|]; reflexivity).
  rewrite Hr. exact H.
Qed.

(* ---------- C17: the wait clause inside the fault model ---------- *)
Lemma spec_ack_reply q script e r : spec_ack q script = VAck e r ->
  exists ty d, reply q script = (inr (ty, q, d), r) /\
               check_ack (inr (ty, q, d)) = (if Z.eqb e 0 then None else Some (EErrno e)).
Proof.
  unfold spec_ack. pose proof (spec_reply q script) as HS.
  destruct (spec_next q script 0) as [ty d rest'| |]; try discriminate.
  destruct (ty =? UAPI_NLMSG_ERROR) eqn:Et; [|discriminate].
  destruct d as [|a [|b [|c [|x d']]]]; try discriminate.
  set (d := a :: b :: c :: x :: d') in *. intros H. injection H as <- <-.
  exists ty, d. split; [exact HS|].
  cbn [check_ack]. change NLMSG_ERROR with UAPI_NLMSG_ERROR. rewrite Et. unfold parse_netlink_error.
  destruct (rd32 d) as [[w r1]|] eqn:E; [|discriminate].
  destruct (rd32_uword _ _ _ E) as [Hw _]. destruct (rd32_bound _ _ _ E) as [Hb _]. rewrite <- Hw.
  rewrite (neg_s32u_zero w Hb). rewrite s32_same. destruct (w =? 0); reflexivity.
Qed.

(* wherever the checker's reading of WaitForPendingACKs commits itself (every pending request answered inside the fault
   model up to the first kernel error), the model returns that result, leaves that list pending and that script unread *)
Theorem c17_wait_clause_accepts_model s : forall todo script er remaining rest,
  spec_wait script todo = Some (er, remaining, rest) ->
  let '(s', rest', e) := wait_acks s script todo in
  pending s' = remaining /\ rest' = rest /\ match e with None => ROk | Some x => RFail x end = er.
Proof.
  induction todo as [|q todo IH]; intros script er remaining rest H; cbn [spec_wait wait_acks] in *.
  - injection H as <- <- <-. repeat split.
  - destruct (spec_ack q script) as [e r| |] eqn:Ea; try discriminate.
    destruct (spec_ack_reply _ _ _ _ Ea) as (ty & d & Hr & Hc). rewrite Hr. rewrite Hc.
    destruct (Z.eqb e 0).
    + exact (IH _ _ _ _ H).
    + injection H as <- <- <-. repeat split.
Qed.

(* ---------- GetStatus ---------- *)
Lemma listN_eqb_refl l : listN_eqb l l = true.
Proof. induction l as [|x l IH]; [reflexivity|]. cbn [listN_eqb]. rewrite N.eqb_refl. exact IH. Qed.

Lemma spec_ack_foreign q script : spec_ack q script = VForeign -> exists r, reply q script = (inl ESeq, r).
Proof.
  unfold spec_ack. pose proof (spec_reply q script) as HS.
  destruct (spec_next q script 0) as [ty d rest'| |]; try discriminate.
  - destruct (ty =? UAPI_NLMSG_ERROR); [|discriminate]. destruct d as [|a [|b [|c [|x d']]]]; discriminate.
  - intros _. exact HS.
Qed.

Definition get_status_result (q : N) (script : list revent) : cres :=
  let '(r, rest) := reply q script in
  match check_ack r with
  | Some e => RFail e
  | None =>
      let '(r2, _) := reply q rest in
      match r2 with
      | inl e => RFail e
      | inr (ty, _, d) => if ty =? AuditGet then match status_from_wire d with Some ws => RStatus ws | None => RFail EEOF end
                          else RFail EReplyType
      end
  end.

Lemma get_status_is s w : no_fault w -> result_of (snd (cstep s w OGetStatus)) = get_status_result (next_seq s) (rscript w).
Proof.
  intros Hn. cbn [cstep]. unfold get_status, get_status_result, do_send, no_fault, next_seq in *.
  destruct (sfaults w) as [|f fs]; cbn [rscript].
  - destruct (reply ((nseq s + 1) mod 2 ^ 32) (rscript w)) as [r rest]. destruct (check_ack r); [reflexivity|].
    destruct (reply ((nseq s + 1) mod 2 ^ 32) rest) as [r2 rest']. reflexivity.
  - destruct f as [e|]; [destruct Hn|].
    destruct (reply ((nseq s + 1) mod 2 ^ 32) (rscript w)) as [r rest]. destruct (check_ack r); [reflexivity|].
    destruct (reply ((nseq s + 1) mod 2 ^ 32) rest) as [r2 rest']. reflexivity.
Qed.

Theorem chk_c08_accepts_get_status s w : no_fault w ->
  chk_c08_call OGetStatus (next_seq s) (rscript w) (result_of (snd (cstep s w OGetStatus))) = true.
Proof.
  intros Hn. rewrite (get_status_is s w Hn). set (q := next_seq s). set (script := rscript w).
  cbn [chk_c08_call]. unfold get_status_result.
  destruct (spec_ack q script) as [e rest0| |] eqn:Ea.
  - destruct (spec_ack_reply _ _ _ _ Ea) as (ty & d & Hr & Hc). rewrite Hr, Hc.
    destruct (Z.eqb e 0); [|apply cres_eqb_refl_fail].
    pose proof (spec_reply q rest0) as HS.
    destruct (spec_next q rest0 0) as [ty2 d2 rest2| |]; [| |reflexivity].
    + rewrite HS. change AuditGet with UAPI_AUDIT_GET.
      destruct (ty2 =? UAPI_AUDIT_GET); cbn [andb]; [|reflexivity].
      destruct (32 <=? N.of_nat (length d2)) eqn:E32; [|reflexivity].
      rewrite StatusProofs.from_wire_spec. change UAPI_MIN_AUDIT_STATUS with 32.
      apply N.leb_le in E32. destruct (N.ltb_spec (N.of_nat (length d2)) 32) as [Hlt|_]; [lia|].
      cbn [cres_eqb]. apply listN_eqb_refl.
    + destruct HS as [r' HS]. rewrite HS. reflexivity.
  - destruct (spec_ack_foreign _ _ Ea) as [r' Hr]. rewrite Hr. reflexivity.
  - destruct (reply q script) as [r rest] eqn:Hr. unfold unacked_must_fail.
    destruct (check_ack r) as [x|] eqn:Ec; [apply orb_true_r|].
    rewrite (success_only_if_acked _ _ _ _ Hr Ec). reflexivity.
Qed.

(* ---------- GetRules ---------- *)
Lemma bytes_eqb_refl' (a : str) : bytes_eqb a a = true.
Proof. induction a as [|x a IH]; [reflexivity|]. cbn [bytes_eqb]. rewrite Ascii.eqb_refl. exact IH. Qed.
Lemma lbytes_eqb_refl' (l : list str) : lbytes_eqb l l = true.
Proof. induction l as [|x l IH]; [reflexivity|]. cbn [lbytes_eqb]. rewrite bytes_eqb_refl'. exact IH. Qed.

Lemma spec_rules_collect : forall fuel q script acc,
  match spec_rules fuel q script acc with
  | Some (Some (rules, rest)) => collect_rules fuel q script acc = (inr rules, rest)
  | Some None => exists e r, collect_rules fuel q script acc = (inl e, r)
  | None => True
  end.
Proof.
  induction fuel as [|f IH]; intros q script acc; cbn [spec_rules collect_rules]; [exact I|].
  pose proof (spec_reply q script) as HS.
  destruct (spec_next q script 0) as [ty d rest| |]; [| |exact I].
  - rewrite HS. change UAPI_NLMSG_DONE with NLMSG_DONE. change UAPI_AUDIT_LIST_RULES with AUDIT_LIST_RULES.
    destruct (ty =? NLMSG_DONE); [reflexivity|]. destruct (ty =? AUDIT_LIST_RULES); [apply IH|exact I].
  - destruct HS as [r HS]. rewrite HS. eexists. eexists. reflexivity.
Qed.

Definition get_rules_result (q : N) (script : list revent) : cres :=
  let '(r, rest) := reply q script in
  match check_ack r with
  | Some e => RFail e
  | None => match fst (collect_rules (S (length rest)) q rest []) with inl e => RFail e | inr rs => RRules rs end
  end.

Lemma get_rules_is s w : no_fault w -> result_of (snd (cstep s w OGetRules)) = get_rules_result (next_seq s) (rscript w).
Proof.
  intros Hn. cbn [cstep]. unfold get_rules, get_rules_result, do_send, no_fault, next_seq in *.
  destruct (sfaults w) as [|f fs]; cbn [rscript].
  - destruct (reply ((nseq s + 1) mod 2 ^ 32) (rscript w)) as [r rest]. destruct (check_ack r); [reflexivity|].
    destruct (collect_rules (S (length rest)) ((nseq s + 1) mod 2 ^ 32) rest []) as [rr rest']. reflexivity.
  - destruct f as [e|]; [destruct Hn|].
    destruct (reply ((nseq s + 1) mod 2 ^ 32) (rscript w)) as [r rest]. destruct (check_ack r); [reflexivity|].
    destruct (collect_rules (S (length rest)) ((nseq s + 1) mod 2 ^ 32) rest []) as [rr rest']. reflexivity.
Qed.

Theorem chk_c08_accepts_get_rules s w : no_fault w ->
  chk_c08_call OGetRules (next_seq s) (rscript w) (result_of (snd (cstep s w OGetRules))) = true.
Proof.
  intros Hn. rewrite (get_rules_is s w Hn). set (q := next_seq s). set (script := rscript w).
  cbn [chk_c08_call]. unfold get_rules_result.
  destruct (spec_ack q script) as [e rest0| |] eqn:Ea.
  - destruct (spec_ack_reply _ _ _ _ Ea) as (ty & d & Hr & Hc). rewrite Hr, Hc.
    destruct (Z.eqb e 0); [|apply cres_eqb_refl_fail].
    pose proof (spec_rules_collect (S (length rest0)) q rest0 []) as HS.
    destruct (spec_rules (S (length rest0)) q rest0 []) as [[[rules rest1]|]|]; [| |reflexivity].
    + rewrite HS. cbn [fst cres_eqb]. apply lbytes_eqb_refl'.
    + destruct HS as (e' & r' & HS). rewrite HS. reflexivity.
  - destruct (spec_ack_foreign _ _ Ea) as [r' Hr]. rewrite Hr. reflexivity.
  - destruct (reply q script) as [r rest] eqn:Hr. unfold unacked_must_fail.
    destruct (check_ack r) as [x|] eqn:Ec; [apply orb_true_r|].
    rewrite (success_only_if_acked _ _ _ _ Hr Ec). reflexivity.
Qed.

(* ---------- DeleteRules: the listing, then one DEL_RULE per rule with consecutive request numbers ---------- *)
Lemma ack_cmd_steps s w ty data : sfaults w = [] ->
  exists r rest, reply (next_seq s) (rscript w) = (r, rest) /\
    ack_cmd s w ty data = ({| pending := pending s; clear_pid := clear_pid s; closed := closed s; nseq := next_seq s |},
                           with_script w rest, check_ack r, [(ty, REQ_ACK, data)]).
Proof.
  intros Hf. unfold ack_cmd, do_send, next_seq. rewrite Hf. cbn [rscript].
  destruct (reply ((nseq s + 1) mod 2 ^ 32) (rscript w)) as [r rest] eqn:E. exists r, rest. split; reflexivity.
Qed.

Lemma spec_deletes_model : forall rules q s w sent, sfaults w = [] -> next_seq s = q ->
  q + N.of_nat (length rules) < 2^32 ->
  match spec_deletes q (rscript w) (length rules) with
  | Some None => (let '(_, _, e, _) := delete_all s w rules sent in e) = None
  | Some (Some e') => (let '(_, _, e, _) := delete_all s w rules sent in e) = Some (EErrno e')
  | None => True
  end.
Proof.
  induction rules as [|r rules IH]; intros q s w sent Hf Hq Hb; cbn [spec_deletes length delete_all]; [reflexivity|].
  destruct (spec_ack q (rscript w)) as [e rest| |] eqn:Ea; try exact I.
  destruct (spec_ack_reply _ _ _ _ Ea) as (ty & d & Hr & Hc).
  destruct (ack_cmd_steps s w AUDIT_DEL_RULE r Hf) as (r0 & rest0 & Hr0 & Hack). rewrite Hq, Hr in Hr0. injection Hr0 as <- <-.
  rewrite Hack, Hc. destruct (Z.eqb e 0); [|reflexivity].
  set (s1 := {| pending := pending s; clear_pid := clear_pid s; closed := closed s; nseq := next_seq s |}).
  assert (Hq' : next_seq s1 = q + 1).
  { unfold next_seq at 1. unfold s1. cbn [nseq]. rewrite Hq. apply N.mod_small. cbn [length] in Hb. lia. }
  assert (Hb' : q + 1 + N.of_nat (length rules) < 2 ^ 32) by (cbn [length] in Hb; lia).
  exact (IH (q + 1) s1 (with_script w rest) (sent ++ [(AUDIT_DEL_RULE, REQ_ACK, r)]) Hf Hq' Hb').
Qed.

Lemma get_rules_steps s w : sfaults w = [] ->
  let q := next_seq s in
  let '(r, rest) := reply q (rscript w) in
  get_rules s w =
    match check_ack r with
    | Some e => ({| pending := pending s; clear_pid := clear_pid s; closed := closed s; nseq := q |}, with_script w rest, inl e, [(AUDIT_LIST_RULES, REQ_ACK, [])])
    | None => let '(rr, rest') := collect_rules (S (length rest)) q rest [] in
              ({| pending := pending s; clear_pid := clear_pid s; closed := closed s; nseq := q |}, with_script w rest', rr, [(AUDIT_LIST_RULES, REQ_ACK, [])])
    end.
Proof.
  intros Hf. unfold get_rules, do_send, next_seq. rewrite Hf. cbn [rscript].
  destruct (reply ((nseq s + 1) mod 2 ^ 32) (rscript w)) as [r rest]. destruct (check_ack r); [reflexivity|].
  destruct (collect_rules (S (length rest)) ((nseq s + 1) mod 2 ^ 32) rest []) as [rr rest']. reflexivity.
Qed.

(* a listing cannot hold more rules than the script has events *)
Lemma spec_next_shorter q : forall script run ty d rest, spec_next q script run = SMsg ty d rest -> (length rest < length script)%nat.
Proof.
  induction script as [|ev script IH]; intros run ty d rest H; cbn [spec_next] in H; [discriminate|].
  destruct ev as [e|ty1 sq d1|]; [| |discriminate].
  - destruct (transientZ e); [|discriminate]. destruct (run <? 9)%nat; [|discriminate].
    apply IH in H. cbn [length]. lia.
  - destruct ((sq =? 0) && negb (q =? 0)).
    + apply IH in H. cbn [length]. lia.
    + destruct (sq =? q); [|discriminate]. injection H as _ _ <-. cbn [length]. lia.
Qed.
Lemma spec_ack_shorter q script e rest : spec_ack q script = VAck e rest -> (length rest < length script)%nat.
Proof.
  unfold spec_ack. destruct (spec_next q script 0) as [ty d rest'| |] eqn:E; try discriminate.
  destruct (ty =? UAPI_NLMSG_ERROR); [|discriminate]. destruct d as [|a [|b [|c [|x d']]]]; try discriminate.
  intros H. injection H as _ <-. exact (spec_next_shorter _ _ _ _ _ _ E).
Qed.
Lemma spec_rules_len : forall fuel q script acc rules rest, spec_rules fuel q script acc = Some (Some (rules, rest)) ->
  (length rules + length rest <= length acc + length script)%nat.
Proof.
  induction fuel as [|f IH]; intros q script acc rules rest H; cbn [spec_rules] in H; [discriminate|].
  destruct (spec_next q script 0) as [ty d rest'| |] eqn:E; try discriminate.
  pose proof (spec_next_shorter _ _ _ _ _ _ E) as Hs.
  destruct (ty =? UAPI_NLMSG_DONE).
  - injection H as <- <-. rewrite rev_length. lia.
  - destruct (ty =? UAPI_AUDIT_LIST_RULES); [|discriminate]. apply IH in H. cbn [length] in H. lia.
Qed.

(* the checker numbers the deletes q+1, q+2, ... without wrapping; the theorem is stated where the client's numbers do not wrap either *)
Theorem chk_c08_accepts_delete_rules s w : sfaults w = [] ->
  next_seq s + 1 + N.of_nat (length (rscript w)) < 2^32 ->
  chk_c08_call ODeleteRules (next_seq s) (rscript w) (result_of (snd (cstep s w ODeleteRules))) = true.
Proof.
  intros Hf Hb.
  assert (Hlen : forall e rest rules rest', spec_ack (next_seq s) (rscript w) = VAck e rest ->
     spec_rules (S (length rest)) (next_seq s) rest [] = Some (Some (rules, rest')) -> (length rules <= length (rscript w))%nat).
  { intros e rest rules rest' Ha Hs. apply spec_ack_shorter in Ha. apply spec_rules_len in Hs. cbn [length] in Hs. lia. }
  set (q := next_seq s) in *. set (script := rscript w) in *.
  pose proof (get_rules_steps s w Hf) as HG. cbv zeta in HG. fold q script in HG.
  cbn [chk_c08_call cstep].
  destruct (spec_ack q script) as [e rest0| |] eqn:Ea.
  - destruct (spec_ack_reply _ _ _ _ Ea) as (ty & d & Hr & Hc). rewrite Hr, Hc in HG.
    destruct (Z.eqb e 0) eqn:Ee.
    + pose proof (spec_rules_collect (S (length rest0)) q rest0 []) as HS.
      destruct (spec_rules (S (length rest0)) q rest0 []) as [[[rules rest1]|]|] eqn:Esr.
      * rewrite HS in HG. rewrite HG.
        set (s1 := {| pending := pending s; clear_pid := clear_pid s; closed := closed s; nseq := q |}).
        pose proof (spec_deletes_model rules (q + 1) s1 (with_script w rest1) [(AUDIT_LIST_RULES, REQ_ACK, [])]) as HD.
        cbn [rscript with_script sfaults] in HD.
        assert (Hl : (length rules <= length script)%nat) by (eapply Hlen; eauto).
        assert (Hq1 : next_seq s1 = q + 1).
        { unfold next_seq, s1. cbn [nseq]. apply N.mod_small. lia. }
        specialize (HD Hf Hq1). assert (Hb2 : q + 1 + N.of_nat (length rules) < 2 ^ 32) by lia. specialize (HD Hb2).
        destruct (delete_all s1 (with_script w rest1) rules [(AUDIT_LIST_RULES, REQ_ACK, [])]) as [[[s2 w2] e2] ws2].
        cbn [snd result_of fst].
        destruct (spec_deletes (q + 1) rest1 (length rules)) as [[e'|]|]; [| |reflexivity].
        -- rewrite HD. apply cres_eqb_refl_fail.
        -- rewrite HD. cbn [cres_eqb]. apply N.eqb_refl.
      * destruct HS as (e' & r' & HS). rewrite HS in HG. rewrite HG. reflexivity.
      * reflexivity.
    + rewrite HG. cbn [snd result_of fst]. apply cres_eqb_refl_fail.
  - destruct (spec_ack_foreign _ _ Ea) as [r' Hr]. rewrite Hr in HG. cbn [check_ack] in HG. rewrite HG. reflexivity.
  - destruct (reply q script) as [r rest] eqn:Hr. unfold unacked_must_fail.
    destruct (check_ack r) as [x|] eqn:Ec.
    + rewrite HG. cbn [snd result_of fst is_fail]. apply orb_true_r.
    + rewrite (success_only_if_acked _ _ _ _ Hr Ec). reflexivity.
Qed.
