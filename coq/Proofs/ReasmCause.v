(* Proofs/ReasmCause.v — C10 / C19 on the model's state: CleanUp evicts an event only for
   cause, leaves a head that may not be evicted, and an event's expiry is fixed when it
   is opened. *)
From Coq Require Import List ZArith Bool Lia.
Import ListNotations.
Require Import Reassembler ReasmInv ReasmC01.
Open Scope Z_scope.

(* evict with a ghost log: for every eviction the sequence, the event as it was, and the number
   of buffered sequences at that moment *)
Fixpoint evict_log (force : bool) (c : config) (now : Z) (sqs : list Z) (em : emap) : list (Z * event * Z) :=
  match sqs with
  | [] => []
  | sq :: rest =>
      match lookup sq em with
      | None => []
      | Some e =>
          if force || complete e || (Z.of_nat (length sqs) >? maxSize c) || (now >? expire e)
          then (sq, e, Z.of_nat (length sqs)) :: evict_log force c now rest (remove sq em)
          else []
      end
  end.

Definition outs_of (o : list out) : list (list msg) := flat_map (fun x => match x with Complete g => [g] | _ => [] end) o.

(* the log is the list of deliveries evict makes, in order *)
Lemma evict_log_outs force c now : forall sqs em last has,
  let '(_, _, _, _, outs, _) := evict force c now sqs em last has in
  (In Panic outs \/ outs_of outs = map (fun t => msgs (snd (fst t))) (evict_log force c now sqs em)).
Proof.
  induction sqs as [|sq rest IH]; intros em last has; cbn [evict evict_log]; [right; reflexivity|].
  destruct (lookup sq em) as [e|]; [|left; left; reflexivity].
  destruct (force || complete e || (Z.of_nat (length (sq :: rest)) >? maxSize c) || (now >? expire e)); [|right; reflexivity].
  destruct (advance last has sq) as [[d l'] h']. specialize (IH (remove sq em) l' h').
  destruct (evict force c now rest (remove sq em) l' h') as [[[[[sqs' em'] l''] h''] outs] lost].
  destruct IH as [IH|IH]; [left; right; exact IH|]. right. cbn [outs_of flat_map app map fst snd]. f_equal. exact IH.
Qed.

(* every eviction made outside Close has a cause: complete, or more than maxInFlight buffered, or expired *)
Theorem evictions_have_cause c now : forall sqs em t, In t (evict_log false c now sqs em) ->
  let '(sq, e, size) := t in complete e = true \/ size > maxSize c \/ now > expire e.
Proof.
  induction sqs as [|sq rest IH]; intros em t Hin; cbn [evict_log] in Hin; [contradiction|].
  destruct (lookup sq em) as [e|]; [|contradiction].
  destruct (false || complete e || (Z.of_nat (length (sq :: rest)) >? maxSize c) || (now >? expire e)) eqn:Ec; [|contradiction].
  destruct Hin as [<-|Hin].
  - cbn [orb] in Ec. apply orb_prop in Ec. destruct Ec as [Ec|Ec]; [apply orb_prop in Ec; destruct Ec as [Ec|Ec]|].
    + left. exact Ec. + right. left. lia. + right. right. lia.
  - apply (IH _ _ Hin).
Qed.

(* what CleanUp leaves at the head may not be evicted: not complete, not over the bound, not expired —
   so a stale event is delivered by the first call made after its timeout once it is the oldest *)
Theorem head_after_cleanup c now : forall sqs em last has,
  let '(sqs', em', _, _, outs, _) := evict false c now sqs em last has in
  In Panic outs \/
  match sqs' with
  | [] => True
  | k :: _ => exists e, lookup k em' = Some e /\ complete e = false /\ Z.of_nat (length sqs') <= maxSize c /\ now <= expire e
  end.
Proof.
  induction sqs as [|sq rest IH]; intros em last has; cbn [evict]; [right; exact I|].
  destruct (lookup sq em) as [e|] eqn:El; [|left; left; reflexivity].
  destruct (false || complete e || (Z.of_nat (length (sq :: rest)) >? maxSize c) || (now >? expire e)) eqn:Ec.
  - destruct (advance last has sq) as [[d l'] h']. specialize (IH (remove sq em) l' h').
    destruct (evict false c now rest (remove sq em) l' h') as [[[[[sqs' em'] l''] h''] outs] lost].
    destruct IH as [IH|IH]; [left; right; exact IH | right; exact IH].
  - right. exists e. cbn [orb] in Ec. apply orb_false_elim in Ec. destruct Ec as [Ec E3]. apply orb_false_elim in Ec. destruct Ec as [E1 E2].
    repeat split; auto; lia.
Qed.

(* the expiry of an event is the clock reading of the Put that opened it plus the timeout, and no later Put changes it *)
Theorem put_opens_with_timeout c now m s : lookup (mseq m) (events s) = None -> (mty m =? AUDIT_EOE) = false ->
  exists e, lookup (mseq m) (events (put c now m s)) = Some e /\ expire e = now + timeout c.
Proof.
  intros Hl Ht. unfold put. rewrite Hl, Ht. cbn [events set_list]. rewrite lookup_update_same. eexists. split; reflexivity.
Qed.
Theorem put_keeps_expiry c now m s k e : lookup k (events s) = Some e ->
  exists e', lookup k (events (put c now m s)) = Some e' /\ expire e' = expire e.
Proof.
  intros Hk. unfold put. destruct (lookup (mseq m) (events s)) as [e0|] eqn:El.
  - destruct (mty m =? AUDIT_EOE); cbn [events set_list];
      (destruct (Z.eq_dec k (mseq m)) as [->|N];
       [rewrite lookup_update_same; assert (e0 = e) by congruence; subst; eexists; split; reflexivity
       | rewrite lookup_update_other by auto; exists e; auto]).
  - destruct (mty m =? AUDIT_EOE); cbn [events set_list]; [exists e; auto|].
    destruct (Z.eq_dec k (mseq m)) as [->|N]; [congruence|]. rewrite lookup_update_other by auto. exists e; auto.
Qed.
