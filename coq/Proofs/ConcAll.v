From Coq Require Import List ZArith Bool Lia Permutation.
Import ListNotations.
Require Import Reassembler ReasmInv ReasmC01 ReasmConc ConcStep.
Open Scope Z_scope.

Section T.
Variable cb : list msg -> list call.
Variable cfg : config.

Lemma crun_inv : forall sched ths s tr, CInv ths s tr ->
  let '(ths', s', evs) := crun cb cfg sched ths s in CInv ths' s' (tr ++ evs).
Proof.
  induction sched as [|[t now] sched IH]; intros ths s tr H; cbn [crun].
  - rewrite app_nil_r. exact H.
  - destruct (nth_error ths t) as [th|] eqn:En.
    + pose proof (tstep_inv cb cfg t now ths s tr th En H) as HS.
      destruct (tstep cb cfg t now th s) as [[th' s'] evs].
      specialize (IH (upd t th' ths) s' (tr ++ evs) HS).
      destruct (crun cb cfg sched (upd t th' ths) s') as [[ths'' s''] evs'].
      rewrite app_assoc. exact IH.
    + apply IH; auto.
Qed.

Lemma CInv_init ths : pending ths = [] -> CInv ths init [].
Proof.
  intros Hp. exists []. split; [apply InvL_init|]. split; [|split]; cbn; auto. rewrite Hp. auto. discriminate.
Qed.

Theorem C11_all_schedules : forall sched ths, pending ths = [] ->
  let '(ths', s', tr) := crun cb cfg sched ths init in
  (exists rest, Permutation (putmsgs tr) (delivered tr ++ rest)) /\ (cas_oks tr <= 1)%nat.
Proof.
  intros sched ths Hp. pose proof (crun_inv sched ths init [] (CInv_init ths Hp)) as H.
  destruct (crun cb cfg sched ths init) as [[ths' s'] tr]. cbn [app] in H.
  destruct H as (U & HI & HP & H0 & H1). split.
  - exists (pending ths' ++ U). exact HP.
  - destruct (closed s'); [rewrite H1 | rewrite H0]; auto.
Qed.
End T.
Print Assumptions C11_all_schedules.
