(* Proofs/ConcFlush.v — concurrent Reassembler, the clauses beyond at-most-once:
   everything put before Close's Clear step has been delivered once all frames have run;
   a Close that returned means the Reassembler is closed (so exactly one CAS won);
   delivered groups hold one sequence number. *)
From Coq Require Import List ZArith Bool Lia Permutation.
Import ListNotations.
Require Import Reassembler ReasmInv ReasmC01 ReasmConc ConcStep ConcAll.
Open Scope Z_scope.

Definition is_clear (e : ev) : bool := match e with EvClear _ => true | _ => false end.
Definition cleared (tr : list ev) : bool := existsb is_clear tr.
Fixpoint before_clear (tr : list ev) : list ev :=
  match tr with [] => [] | e :: r => if is_clear e then [] else e :: before_clear r end.
Lemma cleared_app a b : cleared (a ++ b) = cleared a || cleared b.
Proof. apply existsb_app. Qed.
Lemma before_clear_app a b : before_clear (a ++ b) = if cleared a then before_clear a else a ++ before_clear b.
Proof.
  induction a as [|e a IH]; cbn [app before_clear cleared existsb]; auto.
  destruct (is_clear e); cbn [orb]; auto. fold (cleared a). rewrite IH. destruct (cleared a); auto.
Qed.

Section F.
Variable cb : list msg -> list call.
Variable cfg : config.

(* delivered ++ pending only grows *)
Lemma tstep_mono t now ths s tr th : nth_error ths t = Some th ->
  let '(th', s', evs) := tstep cb cfg t now th s in
  exists G, Permutation (delivered (tr ++ evs) ++ pending (upd t th' ths)) (delivered tr ++ pending ths ++ G).
Proof.
  intros Hn. destruct (pending_upd t ths th Hn) as (R & HR1 & HR2).
  assert (Keep: forall th' evs, pth th' = pth th -> delivered evs = [] ->
                exists G, Permutation (delivered (tr ++ evs) ++ pending (upd t th' ths)) (delivered tr ++ pending ths ++ G)).
  { intros th' evs Hp Hd. exists []. rewrite delivered_app, Hd, !app_nil_r. rewrite (HR2 th'), Hp, <- HR1. auto. }
  unfold tstep. destruct (stack th) as [|f rest] eqn:Es.
  - destruct (todo th) as [|c cs]; apply Keep; auto. unfold pth. rewrite Es. reflexivity.
  - assert (Hpth: pth th = pending_f f ++ flat_map pending_f rest) by (unfold pth; rewrite Es; auto).
    assert (Grow: forall outs evs, delivered evs = [] -> pending_f f = [] ->
                  exists G, Permutation (delivered (tr ++ evs) ++ pending (upd t {| stack := deliver_frames outs ++ rest; todo := todo th |} ths))
                                        (delivered tr ++ pending ths ++ G)).
    { intros outs evs Hd Hf. exists (groups outs). rewrite delivered_app, Hd, !app_nil_r. rewrite (HR2 _). unfold pth at 1; cbn [stack].
      rewrite pth_deliver_frames, HR1, Hpth, Hf. cbn [app]. apply Permutation_app_head.
      rewrite <- !app_assoc. rewrite Permutation_app_comm. rewrite <- !app_assoc. reflexivity. }
    destruct f as [[m| |] | m | | | | | g | n | c ok]; cbn [exec].
    + apply Keep; auto.
    + apply Keep; auto.
    + apply Keep; auto.
    + apply Keep; auto.
    + destruct (cleanup false cfg now s) as [s' outs]. apply Grow; auto.
    + destruct (closed s); apply Keep; auto.
    + destruct (closed s); apply Keep; auto.
    + destruct (cleanup true cfg now s) as [s' outs]. apply Grow; auto.
    + exists []. rewrite delivered_app. cbn [delivered flat_map]. rewrite !app_nil_r. rewrite (HR2 _). unfold pth at 1; cbn [stack]. rewrite pth_calls.
      rewrite HR1, Hpth. cbn [pending_f]. rewrite <- !app_assoc. apply Permutation_app_head. reflexivity.
    + apply Keep; auto.
    + apply Keep; auto.
Qed.

Definition Flush (ths : list thread) (tr : list ev) : Prop :=
  cleared tr = true -> exists R, Permutation (delivered tr ++ pending ths) (putmsgs (before_clear tr) ++ R).

Lemma evs_no_clear t now th s : match stack th with FClear :: _ => False | _ => True end ->
  let '(_, _, evs) := tstep cb cfg t now th s in cleared evs = false.
Proof.
  unfold tstep. destruct (stack th) as [|f rest]. destruct (todo th); reflexivity.
  destruct f as [[m| |] | m | | | | | g | n | c ok]; cbn [exec]; intros H; try reflexivity; try contradiction.
  - destruct (cleanup false cfg now s); reflexivity.
  - destruct (closed s); reflexivity.
  - destruct (closed s); reflexivity.
Qed.

Lemma tstep_flush t now ths s tr th : nth_error ths t = Some th -> CInv ths s tr -> Flush ths tr ->
  let '(th', s', evs) := tstep cb cfg t now th s in Flush (upd t th' ths) (tr ++ evs).
Proof.
  intros Hn HCI HF. pose proof (tstep_mono t now ths s tr th Hn) as HM.
  destruct (cleared tr) eqn:Ecl.
  - (* already cleared: monotone *)
    destruct (tstep cb cfg t now th s) as [[th' s'] evs]. intros _. destruct HM as (G & HG). destruct (HF Ecl) as (R & HR).
    exists (G ++ R). rewrite before_clear_app, Ecl. rewrite HG. rewrite app_assoc, HR. rewrite <- !app_assoc. apply Permutation_app_head. apply Permutation_app_comm.
  - destruct (stack th) as [|f rest] eqn:Es.
    + pose proof (evs_no_clear t now th s) as HN. rewrite Es in HN. specialize (HN I).
      destruct (tstep cb cfg t now th s) as [[th' s'] evs]. intros C. rewrite cleared_app, Ecl, HN in C. discriminate.
    + destruct f as [[m| |] | m | | | | | g | n | c ok];
        try (pose proof (evs_no_clear t now th s) as HN; rewrite Es in HN; specialize (HN I);
             destruct (tstep cb cfg t now th s) as [[th' s'] evs]; intros C; rewrite cleared_app, Ecl, HN in C; discriminate).
      (* the Clear step itself *)
      clear HM. unfold tstep. rewrite Es. cbn [exec].
      destruct HCI as (U & HI & HP & Hc0 & Hc1). destruct (pending_upd t ths th Hn) as (R & HR1 & HR2).
      pose proof (cleanup_ok true cfg now s U HI) as HC. destruct (cleanup true cfg now s) as [s' outs].
      destruct HC as (U' & Hchk & HI' & HU' & Hcl). rewrite (HU' eq_refl) in Hchk.
      intros _. exists []. rewrite before_clear_app, Ecl. cbn [before_clear is_clear]. rewrite !app_nil_r.
      rewrite delivered_app. cbn [delivered flat_map]. rewrite app_nil_r.
      rewrite (HR2 _). unfold pth at 1; cbn [stack]. rewrite pth_deliver_frames.
      rewrite HP, HR1. unfold pth. rewrite Es. cbn [flat_map pending_f app].
      apply Permutation_app_head. rewrite (chk_outs_perm _ _ _ Hchk), app_nil_r.
      rewrite <- app_assoc. apply Permutation_app_comm.
Qed.

Lemma crun_flush : forall sched ths s tr, CInv ths s tr -> Flush ths tr ->
  let '(ths', s', evs) := crun cb cfg sched ths s in Flush ths' (tr ++ evs).
Proof.
  induction sched as [|[t now] sched IH]; intros ths s tr HCI HF; cbn [crun].
  - rewrite app_nil_r. exact HF.
  - destruct (nth_error ths t) as [th|] eqn:En.
    + pose proof (tstep_inv cb cfg t now ths s tr th En HCI) as HS. pose proof (tstep_flush t now ths s tr th En HCI HF) as HF'.
      destruct (tstep cb cfg t now th s) as [[th' s'] evs].
      specialize (IH (upd t th' ths) s' (tr ++ evs) HS HF').
      destruct (crun cb cfg sched (upd t th' ths) s') as [[ths'' s''] evs'].
      rewrite app_assoc. exact IH.
    + apply IH; auto.
Qed.

(* once every frame has run, whatever was put before Close's Clear step has been delivered *)
Theorem flushed_after_close : forall sched ths, pending ths = [] ->
  let '(ths', s', tr) := crun cb cfg sched ths init in
  cleared tr = true -> Forall (fun th => stack th = []) ths' ->
  exists R, Permutation (delivered tr) (putmsgs (before_clear tr) ++ R).
Proof.
  intros sched ths Hp. pose proof (crun_flush sched ths init [] (CInv_init ths Hp)) as H.
  assert (F0: Flush ths []) by (intros C; discriminate). specialize (H F0).
  destruct (crun cb cfg sched ths init) as [[ths' s'] tr]. cbn [app] in H. intros Hc Hdone.
  destruct (H Hc) as (R & HR). exists R. rewrite <- HR.
  assert (Hpe: pending ths' = []).
  { clear - Hdone. induction ths' as [|th r IH]; auto. inversion Hdone; subst. cbn. unfold pending in IH. rewrite IH; auto.
    match goal with H : stack th = [] |- _ => rewrite H end. reflexivity. }
  rewrite Hpe, app_nil_r. reflexivity.
Qed.

(* ---------- a Close that returned means the Reassembler is closed ---------- *)
Definition bad_frame (f : frame) : bool := match f with FRet CClose _ => true | FClear => true | _ => false end.
Definition nobad (ths : list thread) : Prop := Forall (fun th => Forall (fun f => bad_frame f = false) (stack th)) ths.
Definition is_close_ret (e : ev) : bool := match e with EvRet _ CClose _ => true | _ => false end.
Definition I2 (ths : list thread) (s : state) (tr : list ev) : Prop := closed s = false -> nobad ths /\ existsb is_close_ret tr = false.

Lemma Forall_upd {A} (P : A -> Prop) : forall t (l : list A) x, Forall P l -> P x -> Forall P (upd t x l).
Proof. induction t as [|t IH]; intros [|y l] x Hl Hx; cbn; auto; inversion Hl; subst; constructor; auto. Qed.
Lemma Forall_nth {A} (P : A -> Prop) : forall t (l : list A) x, Forall P l -> nth_error l t = Some x -> P x.
Proof. intros t l x Hl Hn. rewrite Forall_forall in Hl. apply Hl. eapply nth_error_In; eauto. Qed.

Lemma cleanup_closed' force now s : closed (fst (cleanup force cfg now s)) = closed s.
Proof. unfold cleanup. destruct (evict force cfg now (seqs s) (events s) (lastSeq s) (hasLast s)) as [[[[[a b] c] d] e] f]. reflexivity. Qed.
Lemma put_closed' now m s : closed (put cfg now m s) = closed s.
Proof. unfold put. destruct (lookup _ _); destruct (mty m =? _); reflexivity. Qed.

Lemma deliver_frames_nobad outs : Forall (fun f => bad_frame f = false) (deliver_frames outs).
Proof. unfold deliver_frames. apply Forall_forall. intros f Hf. apply in_flat_map in Hf. destruct Hf as (o & _ & Hf). destruct o; cbn in Hf; try contradiction; destruct Hf as [<-|[]]; reflexivity. Qed.

Lemma tstep_I2 t now ths s tr th : nth_error ths t = Some th -> I2 ths s tr ->
  let '(th', s', evs) := tstep cb cfg t now th s in I2 (upd t th' ths) s' (tr ++ evs).
Proof.
  intros Hn HI. unfold tstep. destruct (stack th) as [|f rest] eqn:Es.
  - destruct (todo th) as [|c cs]; intros Hc; destruct (HI Hc) as [Hnb Hnr]; (split; [|rewrite existsb_app, Hnr; reflexivity]).
    + apply Forall_upd; auto. apply (Forall_nth _ _ _ _ Hnb Hn).
    + apply Forall_upd; auto. cbn [stack]. repeat constructor.
  - assert (Main: forall s' fs evs, (closed s' = false -> closed s = false) ->
                  (bad_frame f = false -> closed s' = false -> Forall (fun f => bad_frame f = false) fs /\ existsb is_close_ret evs = false) ->
                  I2 (upd t {| stack := fs ++ rest; todo := todo th |} ths) s' (tr ++ evs)).
    { intros s' fs evs Hmono Hnew Hc. destruct (HI (Hmono Hc)) as [Hnb Hnr].
      pose proof (Forall_nth _ _ _ _ Hnb Hn) as Hth. cbv beta in Hth. rewrite Es in Hth. inversion Hth as [|? ? Hf Hrest]; subst.
      destruct (Hnew Hf Hc) as [Hfs Hevs]. split.
      - apply Forall_upd; auto. cbn [stack]. apply Forall_app; auto.
      - rewrite existsb_app, Hnr, Hevs. reflexivity. }
    destruct f as [[m| |] | m | | | | | g | n | c ok]; cbn [exec].
    + apply Main; [auto | intros _ _; split; [repeat (apply Forall_cons; [reflexivity|]); apply Forall_nil | reflexivity]].
    + apply Main; [auto | intros _ _; split; [repeat (apply Forall_cons; [reflexivity|]); apply Forall_nil | reflexivity]].
    + apply Main; [auto | intros _ _; split; [repeat (apply Forall_cons; [reflexivity|]); apply Forall_nil | reflexivity]].
    + apply Main; [rewrite put_closed'; auto|intros _ _; split; [apply Forall_nil|reflexivity]].
    + pose proof (cleanup_closed' false now s) as Hc. destruct (cleanup false cfg now s) as [s' outs]. cbn [fst] in Hc.
      apply Main; [rewrite Hc; auto|intros _ _; split; [apply deliver_frames_nobad|reflexivity]].
    + destruct (closed s) eqn:Ecl; (apply Main; [intros C; congruence | intros _ _; split; [repeat (apply Forall_cons; [reflexivity|]); apply Forall_nil | reflexivity]]).
    + destruct (closed s) eqn:Ecl.
      * apply Main; [intros C; congruence|intros _ C; congruence].
      * apply Main; [cbn [closed]; discriminate|intros _ C; cbn [closed] in C; discriminate].
    + pose proof (cleanup_closed' true now s) as Hc. destruct (cleanup true cfg now s) as [s' outs]. cbn [fst] in Hc.
      apply Main; [rewrite Hc; auto|intros Hb; discriminate Hb].
    + apply Main; [auto|]. intros _ _. split; [|reflexivity]. apply Forall_forall. intros f Hf. apply in_map_iff in Hf. destruct Hf as (c & <- & _). reflexivity.
    + apply Main; [auto|]. intros _ _. split; [apply Forall_nil|reflexivity].
    + apply Main; [auto|]. intros Hb _. split; [apply Forall_nil|]. destruct c; try reflexivity. discriminate Hb.
Qed.

Lemma crun_I2 : forall sched ths s tr, I2 ths s tr -> let '(ths', s', evs) := crun cb cfg sched ths s in I2 ths' s' (tr ++ evs).
Proof.
  induction sched as [|[t now] sched IH]; intros ths s tr HI; cbn [crun].
  - rewrite app_nil_r. exact HI.
  - destruct (nth_error ths t) as [th|] eqn:En.
    + pose proof (tstep_I2 t now ths s tr th En HI) as HS. destruct (tstep cb cfg t now th s) as [[th' s'] evs].
      specialize (IH (upd t th' ths) s' (tr ++ evs) HS). destruct (crun cb cfg sched (upd t th' ths) s') as [[ths'' s''] evs'].
      rewrite app_assoc. exact IH.
    + apply IH; auto.
Qed.

(* if any Close call returned, exactly one compare-and-swap won *)
Theorem close_returned_one_winner : forall sched ths, Forall (fun th => stack th = []) ths ->
  let '(ths', s', tr) := crun cb cfg sched ths init in
  existsb is_close_ret tr = true -> cas_oks tr = 1%nat.
Proof.
  intros sched ths H0.
  assert (Hp: pending ths = []).
  { clear - H0. induction ths as [|th r IH]; auto. inversion H0; subst. cbn. unfold pending in IH. rewrite IH; auto.
    match goal with H : stack th = [] |- _ => rewrite H end. reflexivity. }
  assert (HI0: I2 ths init []).
  { intros _. split; [|reflexivity]. eapply Forall_impl; [|exact H0]. intros th E. rewrite E. constructor. }
  pose proof (crun_I2 sched ths init [] HI0) as H2. pose proof (crun_inv cb cfg sched ths init [] (CInv_init ths Hp)) as H1.
  destruct (crun cb cfg sched ths init) as [[ths' s'] tr]. cbn [app] in *.
  intros Hr. destruct H1 as (U & _ & _ & _ & Hc1). apply Hc1.
  destruct (closed s') eqn:E; auto. destruct (H2 E) as [_ C]. congruence.
Qed.

(* ---------- delivered groups hold one sequence number ---------- *)
Definition one_seq (g : list msg) : Prop := match g with [] => False | m0 :: r => Forall (fun m => mseq m = mseq m0) r end.
Definition frame_ok (f : frame) : Prop := match f with FDeliver g => one_seq g | _ => True end.
Definition ev_ok (e : ev) : Prop := match e with EvComplete _ g => one_seq g | _ => True end.
Definition I3 (ths : list thread) (tr : list ev) : Prop := Forall (fun th => Forall frame_ok (stack th)) ths /\ Forall ev_ok tr.

Lemma chk_outs_one_seq : forall outs U U', chk_outs U outs = Some U' -> Forall frame_ok (deliver_frames outs).
Proof.
  induction outs as [|o outs IH]; intros U U' H; cbn [chk_outs deliver_frames flat_map] in *. constructor.
  destruct o as [g|n|b|]; try discriminate; cbn [app]; try (eapply IH; eauto; fail).
  - destruct g as [|m0 g]; try discriminate. destruct (list_eqb (m0 :: g) (filter (sameseq (mseq m0)) U)) eqn:E; try discriminate.
    apply list_eqb_eq in E. constructor; [|eapply IH; eauto]. cbn [frame_ok one_seq].
    apply Forall_forall. intros m Hm. assert (Hin: In m (filter (sameseq (mseq m0)) U)) by (rewrite <- E; right; exact Hm).
    apply filter_In in Hin. destruct Hin as [_ Hs]. unfold sameseq in Hs. apply Z.eqb_eq in Hs. exact Hs.
  - constructor; [exact I|]. eapply IH; eauto.
Qed.

Lemma tstep_I3 t now ths s tr th : nth_error ths t = Some th -> CInv ths s tr -> I3 ths tr ->
  let '(th', s', evs) := tstep cb cfg t now th s in I3 (upd t th' ths) (tr ++ evs).
Proof.
  intros Hn HCI [Hst Htr]. pose proof (Forall_nth _ _ _ _ Hst Hn) as Hth. unfold tstep. destruct (stack th) as [|f rest] eqn:Es.
  - destruct (todo th) as [|c cs]; (split; [|rewrite app_nil_r; auto]); apply Forall_upd; auto. cbn [stack]. repeat constructor.
  - cbv beta in Hth. rewrite Es in Hth. inversion Hth as [|? ? Hf Hrest]; subst.
    assert (Main: forall fs evs, Forall frame_ok fs -> Forall ev_ok evs -> I3 (upd t {| stack := fs ++ rest; todo := todo th |} ths) (tr ++ evs)).
    { intros fs evs H1 H2. split. apply Forall_upd; auto. cbn [stack]. apply Forall_app; auto. apply Forall_app; auto. }
    destruct HCI as (U & HI & _).
    destruct f as [[m| |] | m | | | | | g | n | c ok]; cbn [exec]; try (apply Main; repeat constructor; fail).
    + pose proof (cleanup_ok false cfg now s U HI) as HC. destruct (cleanup false cfg now s) as [s' outs]. destruct HC as (U' & Hchk & _).
      apply Main; [eapply chk_outs_one_seq; eauto|constructor].
    + destruct (closed s); apply Main; repeat constructor.
    + destruct (closed s); apply Main; repeat constructor.
    + pose proof (cleanup_ok true cfg now s U HI) as HC. destruct (cleanup true cfg now s) as [s' outs]. destruct HC as (U' & Hchk & _).
      apply Main; [eapply chk_outs_one_seq; eauto|repeat constructor].
    + apply Main. apply Forall_forall. intros f Hf'. apply in_map_iff in Hf'. destruct Hf' as (c & <- & _). exact I. repeat constructor. exact Hf.
Qed.

Lemma crun_I3 : forall sched ths s tr, CInv ths s tr -> I3 ths tr -> let '(ths', s', evs) := crun cb cfg sched ths s in I3 ths' (tr ++ evs).
Proof.
  induction sched as [|[t now] sched IH]; intros ths s tr HCI HI; cbn [crun].
  - rewrite app_nil_r. exact HI.
  - destruct (nth_error ths t) as [th|] eqn:En.
    + pose proof (tstep_inv cb cfg t now ths s tr th En HCI) as HS. pose proof (tstep_I3 t now ths s tr th En HCI HI) as H3.
      destruct (tstep cb cfg t now th s) as [[th' s'] evs].
      specialize (IH (upd t th' ths) s' (tr ++ evs) HS H3). destruct (crun cb cfg sched (upd t th' ths) s') as [[ths'' s''] evs'].
      rewrite app_assoc. exact IH.
    + apply IH; auto.
Qed.

Theorem groups_single_sequence : forall sched ths, Forall (fun th => stack th = []) ths ->
  let '(ths', s', tr) := crun cb cfg sched ths init in Forall ev_ok tr.
Proof.
  intros sched ths H0.
  assert (Hp: pending ths = []).
  { clear - H0. induction ths as [|th r IH]; auto. inversion H0; subst. cbn. unfold pending in IH. rewrite IH; auto.
    match goal with H : stack th = [] |- _ => rewrite H end. reflexivity. }
  assert (HI0: I3 ths []). { split; [|constructor]. eapply Forall_impl; [|exact H0]. intros th E. rewrite E. constructor. }
  pose proof (crun_I3 sched ths init [] (CInv_init ths Hp) HI0) as H3.
  destruct (crun cb cfg sched ths init) as [[ths' s'] tr]. cbn [app] in H3. exact (proj2 H3).
Qed.
End F.
Print Assumptions flushed_after_close.
Print Assumptions close_returned_one_winner.
Print Assumptions groups_single_sequence.
