(* Proofs/ConcFlush.v — concurrent Reassembler, the clauses beyond at-most-once:
   everything put before Close's Clear step has been delivered once all frames have run;
   a Close that returned means the Reassembler is closed (so exactly one CAS won);
   delivered groups hold one sequence number. *)
From Coq Require Import List ZArith Bool Lia Permutation.
Import ListNotations.
Require Import Reassembler ReasmInv ReasmC01 ReasmConc ConcStep ConcAll.
Open Scope Z_scope.

Definition is_clear (e : ev) : bool := match e with EvClear _ => true | _ => false end.
Definition cleared (tr : list ev) : bool := existsb is_clear tr.
Fixpoint before_clear (tr : list ev) : list ev :=
  match tr with [] => [] | e :: r => if is_clear e then [] else e :: before_clear r end.
Lemma cleared_app a b : cleared (a ++ b) = cleared a || cleared b.
Proof. apply existsb_app. Qed.
Lemma before_clear_app a b : before_clear (a ++ b) = if cleared a then before_clear a else a ++ before_clear b.
Proof.
  induction a as [|e a IH]; cbn [app before_clear cleared existsb]; auto.
  destruct (is_clear e); cbn [orb]; auto. fold (cleared a). rewrite IH. destruct (cleared a); auto.
Qed.

Section F.
Variable cb : list msg -> list call.
Variable cfg : config.

(* delivered ++ pending only grows *)
Lemma tstep_mono t now ths s tr th : nth_error ths t = Some th ->
  let '(th', s', evs) := tstep cb cfg t now th s in
  exists G, Permutation (delivered (tr ++ evs) ++ pending (upd t th' ths)) (delivered tr ++ pending ths ++ G).
Proof.
  intros Hn. destruct (pending_upd t ths th Hn) as (R & HR1 & HR2).
  assert (Keep: forall th' evs, pth th' = pth th -> delivered evs = [] ->
                exists G, Permutation (delivered (tr ++ evs) ++ pending (upd t th' ths)) (delivered tr ++ pending ths ++ G)).
  { intros th' evs Hp Hd. exists []. rewrite delivered_app, Hd, !app_nil_r. rewrite (HR2 th'), Hp, <- HR1. auto. }
  unfold tstep. destruct (stack th) as [|f rest] eqn:Es.
  - destruct (todo th) as [|c cs]; apply Keep; auto. unfold pth. rewrite Es. reflexivity.
  - assert (Hpth: pth th = pending_f f ++ flat_map pending_f rest) by (unfold pth; rewrite Es; auto).
    assert (Grow: forall outs evs, delivered evs = [] -> pending_f f = [] ->
                  exists G, Permutation (delivered (tr ++ evs) ++ pending (upd t {| stack := deliver_frames outs ++ rest; todo := todo th |} ths))
                                        (delivered tr ++ pending ths ++ G)).
    { intros outs evs Hd Hf. exists (groups outs). rewrite delivered_app, Hd, !app_nil_r. rewrite (HR2 _). unfold pth at 1; cbn [stack].
      rewrite pth_deliver_frames, HR1, Hpth, Hf. cbn [app]. apply Permutation_app_head.
      rewrite <- !app_assoc. rewrite Permutation_app_comm. rewrite <- !app_assoc. reflexivity. }
    destruct f as [[m| |] | m | | | | | g | n | c ok]; cbn [exec].
    + apply Keep; auto.
    + apply Keep; auto.
    + apply Keep; auto.
    + apply Keep; auto.
    + destruct (cleanup false cfg now s) as [s' outs]. apply Grow; auto.
    + destruct (closed s); apply Keep; auto.
    + destruct (closed s); apply Keep; auto.
    + destruct (cleanup true cfg now s) as [s' outs]. apply Grow; auto.
    + exists []. rewrite delivered_app. cbn [delivered flat_map]. rewrite !app_nil_r. rewrite (HR2 _). unfold pth at 1; cbn [stack]. rewrite pth_calls.
      rewrite HR1, Hpth. cbn [pending_f]. rewrite <- !app_assoc. apply Permutation_app_head. reflexivity.
    + apply Keep; auto.
    + apply Keep; auto.
Qed.

Definition Flush (ths : list thread) (tr : list ev) : Prop :=
  cleared tr = true -> exists R, Permutation (delivered tr ++ pending ths) (putmsgs (before_clear tr) ++ R).

Lemma evs_no_clear t now th s : match stack th with FClear :: _ => False | _ => True end ->
  let '(_, _, evs) := tstep cb cfg t now th s in cleared evs = false.
Proof.
  unfold tstep. destruct (stack th) as [|f rest]. destruct (todo th); reflexivity.
  destruct f as [[m| |] | m | | | | | g | n | c ok]; cbn [exec]; intros H; try reflexivity; try contradiction.
  - destruct (cleanup false cfg now s); reflexivity.
  - destruct (closed s); reflexivity.
  - destruct (closed s); reflexivity.
Qed.

Lemma tstep_flush t now ths s tr th : nth_error ths t = Some th -> CInv ths s tr -> Flush ths tr ->
  let '(th', s', evs) := tstep cb cfg t now th s in Flush (upd t th' ths) (tr ++ evs).
Proof.
  intros Hn HCI HF. pose proof (tstep_mono t now ths s tr th Hn) as HM.
  destruct (cleared tr) eqn:Ecl.
  - (* already cleared: monotone *)
    destruct (tstep cb cfg t now th s) as [[th' s'] evs]. intros _. destruct HM as (G & HG). destruct (HF Ecl) as (R & HR).
    exists (G ++ R). rewrite before_clear_app, Ecl. rewrite HG. rewrite app_assoc, HR. rewrite <- !app_assoc. apply Permutation_app_head. apply Permutation_app_comm.
  - destruct (stack th) as [|f rest] eqn:Es.
    + pose proof (evs_no_clear t now th s) as HN. rewrite Es in HN. specialize (HN I).
      destruct (tstep cb cfg t now th s) as [[th' s'] evs]. intros C. rewrite cleared_app, Ecl, HN in C. discriminate.
    + destruct f as [[m| |] | m | | | | | g | n | c ok];
        try (pose proof (evs_no_clear t now th s) as HN; rewrite Es in HN; specialize (HN I);
             destruct (tstep cb cfg t now th s) as [[th' s'] evs]; intros C; rewrite cleared_app, Ecl, HN in C; discriminate).
      (* the Clear step itself *)
      clear HM. unfold tstep. rewrite Es. cbn [exec].
      destruct HCI as (U & HI & HP & Hc0 & Hc1). destruct (pending_upd t ths th Hn) as (R & HR1 & HR2).
      pose proof (cleanup_ok true cfg now s U HI) as HC. destruct (cleanup true cfg now s) as [s' outs].
      destruct HC as (U' & Hchk & HI' & HU' & Hcl). rewrite (HU' eq_refl) in Hchk.
      intros _. exists []. rewrite before_clear_app, Ecl. cbn [before_clear is_clear]. rewrite !app_nil_r.
      rewrite delivered_app. cbn [delivered flat_map]. rewrite app_nil_r.
      rewrite (HR2 _). unfold pth at 1; cbn [stack]. rewrite pth_deliver_frames.
      rewrite HP, HR1. unfold pth. rewrite Es. cbn [flat_map pending_f app].
      apply Permutation_app_head. rewrite (chk_outs_perm _ _ _ Hchk), app_nil_r.
      rewrite <- app_assoc. apply Permutation_app_comm.
Qed.

Lemma crun_flush : forall sched ths s tr, CInv ths s tr -> Flush ths tr ->
  let '(ths', s', evs) := crun cb cfg sched ths s in Flush ths' (tr ++ evs).
Proof.
  induction sched as [|[t now] sched IH]; intros ths s tr HCI HF; cbn [crun].
  - rewrite app_nil_r. exact HF.
  - destruct (nth_error ths t) as [th|] eqn:En.
    + pose proof (tstep_inv cb cfg t now ths s tr th En HCI) as HS. pose proof (tstep_flush t now ths s tr th En HCI HF) as HF'.
      destruct (tstep cb cfg t now th s) as [[th' s'] evs].
      specialize (IH (upd t th' ths) s' (tr ++ evs) HS HF').
      destruct (crun cb cfg sched (upd t th' ths) s') as [[ths'' s''] evs'].
      rewrite app_assoc. exact IH.
    + apply IH; auto.
Qed.

(* once every frame has run, whatever was put before Close's Clear step has been delivered *)
Theorem flushed_after_close : forall sched ths, pending ths = [] ->
  let '(ths', s', tr) := crun cb cfg sched ths init in
  cleared tr = true -> Forall (fun th => stack th = []) ths' ->
  exists R, Permutation (delivered tr) (putmsgs (before_clear tr) ++ R).
Proof.
  intros sched ths Hp. pose proof (crun_flush sched ths init [] (CInv_init ths Hp)) as H.
  assert (F0: Flush ths []) by (intros C; discriminate). specialize (H F0).
  destruct (crun cb cfg sched ths init) as [[ths' s'] tr]. cbn [app] in H. intros Hc Hdone.
  destruct (H Hc) as (R & HR). exists R. rewrite <- HR.
  assert (Hpe: pending ths' = []).
  { clear - Hdone. induction ths' as [|th r IH]; auto. inversion Hdone; subst. cbn. unfold pending in IH. rewrite IH; auto.
    match goal with H : stack th = [] |- _ => rewrite H end. reflexivity. }
  rewrite Hpe, app_nil_r. reflexivity.
Qed.
End F.
Print Assumptions flushed_after_close.
