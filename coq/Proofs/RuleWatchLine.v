(* Proofs/RuleWatchLine.v — a file watch (-w line) builds the same data as the syscall rule
   "-a always,exit -F path|dir=<cleaned path> -F perm=<perms> -k ..." does. *)
From Coq Require Import List Ascii String Arith NArith ZArith Bool Lia.
Import ListNotations.
Require Import Bytes Dec Mach RuleTables Arch RuleDecode Mask RuleEncode RuleText RuleValue KV Trim FilterRe Flags RuleBuild.
Require Import RuleReprint RuleFlagsBack RuleRoundTrip RuleWatchBack.
Local Open Scope string_scope.
Local Open Scope list_scope.
Open Scope N_scope.

Lemma parse_perm_bits : forall p acc, forallb is_perm p = true -> parse_perm p acc = VOk (fold_left (fun a c => N.lor a (match N_of_ascii c with 114 => 4 | 119 => 2 | 120 => 1 | 97 => 8 | _ => 0 end)) p acc).
Proof.
  induction p as [|c r IH]; intros acc H; cbn [parse_perm fold_left forallb] in *. reflexivity.
  apply andb_prop in H. destruct H as [Hc Hr]. unfold is_perm, is, beq, Flags.l in Hc. cbn in Hc.
  repeat rewrite andb_true_r in Hc.
  destruct (Ascii.eqb c "r") eqn:E1; [apply Ascii.eqb_eq in E1; subst c; cbn; apply IH; auto|].
  destruct (Ascii.eqb c "w") eqn:E2; [apply Ascii.eqb_eq in E2; subst c; cbn; apply IH; auto|].
  destruct (Ascii.eqb c "x") eqn:E3; [apply Ascii.eqb_eq in E3; subst c; cbn; apply IH; auto|].
  destruct (Ascii.eqb c "a") eqn:E4; [apply Ascii.eqb_eq in E4; subst c; cbn; apply IH; auto|]. discriminate.
Qed.

Definition watch_perm_text (perms : str) : str := match perms with [] => s2l "rwxa" | _ => perms end.
Definition watch_filters (path' : str) (is_dir : bool) (perms : str) : list flt :=
  [(false, s2l (if is_dir then "dir" else "path"), s2l "=", path'); (false, s2l "perm", s2l "=", watch_perm_text perms)].

Theorem watch_line_as_syscall_rule path' is_dir perms keys d :
  data_of_watch path' is_dir perms keys = Some d -> forallb is_perm perms = true -> path' <> [] ->
  exists s, spec_of_prule (s2l "exit") (s2l "always") (watch_filters path' is_dir perms) [] keys = Some s /\ data_of_spec s = Some d.
Proof.
  intros Hd Hp Hne. destruct perm_code as (Hpc & _ & _ & _ & _ & Hpath & Hdir). destruct key_facts as (_ & Heq & _).
  unfold data_of_watch in Hd. rewrite Heq, Hpc in Hd.
  assert (Hpf: lookupS (s2l (if is_dir then "dir" else "path")) fields_table = Some (if is_dir then 107 else 105)) by (destruct is_dir; assumption).
  rewrite Hpf in Hd. destruct (path_max <? N.of_nat (List.length path')) eqn:El; [discriminate|].
  set (bits := match perms with [] => 15 | _ => perm_bits perms end) in *.
  destruct (add_keys ([(if is_dir then 107 else 105, 1073741824, N.of_nat (List.length path')); (106, 1073741824, bits)], [path']) keys) as [[ts ss]|] eqn:Ek; [|discriminate].
  injection Hd as <-.
  assert (Hpv: parse_value 106 (watch_perm_text perms) = VOk bits).
  { unfold parse_value. cbn [existsb uid_fields gid_fields N.eqb Pos.eqb orb]. unfold watch_perm_text, bits. destruct perms as [|p0 pr]; [reflexivity|].
    rewrite parse_perm_bits by exact Hp. reflexivity. }
  assert (Hbits: bits < 16).
  { unfold parse_value in Hpv. cbn [existsb uid_fields gid_fields N.eqb Pos.eqb orb] in Hpv. destruct (parse_perm_range _ _ _ Hpv); lia. }
  unfold spec_of_prule, watch_filters. cbn [items_of_filters item_of_filter].
  rewrite Hpf, Hpc. replace (is_string_field (if is_dir then 107 else 105)) with true by (destruct is_dir; reflexivity).
  replace (is_string_field 106) with false by reflexivity. rewrite Hpv.
  replace (arch_in_force _ []) with (@nil ascii) by (destruct is_dir; reflexivity).
  destruct printer_arch_none_is_runtime as (rs & _ & _ & Hc). rewrite Hc. cbn [syscalls_of_texts].
  eexists. split; [reflexivity|]. unfold data_of_spec. cbn [sp_list sp_action sp_items sp_all sp_syscalls sp_keys].
  rewrite !sos_s2l. replace (list_code "exit") with (Some 4) by reflexivity. replace (action_code "always") with (Some 2) by reflexivity.
  cbn [add_items]. unfold add_item at 1. rewrite Heq, Hpf.
  replace (streq "exit" "exclude") with false by reflexivity. cbn [andb].
  replace (mem (if is_dir then "dir" else "path") exit_only && negb (streq "exit" "exit")) with false by (destruct is_dir; reflexivity).
  replace (streq (if is_dir then "dir" else "path") "msgtype") with false by (destruct is_dir; reflexivity). cbn [andb].
  replace ((streq (if is_dir then "dir" else "path") "arch" || streq (if is_dir then "dir" else "path") "inode")) with false by (destruct is_dir; reflexivity). cbn [andb].
  replace (streq (if is_dir then "dir" else "path") "perm") with false by (destruct is_dir; reflexivity). cbn [andb].
  replace (is_string_field (if is_dir then 107 else 105)) with true by (destruct is_dir; reflexivity). cbn [negb].
  replace (streq (if is_dir then "dir" else "path") "key") with false by (destruct is_dir; reflexivity). rewrite El.
  unfold add_item at 1. rewrite Heq, Hpc.
  replace (streq "exit" "exclude") with false by reflexivity. cbn [andb].
  replace (mem "perm" exit_only && negb (streq "exit" "exit")) with false by reflexivity.
  replace (streq "perm" "msgtype") with false by reflexivity. cbn [andb].
  replace (streq "perm" "arch" || streq "perm" "inode") with false by reflexivity. cbn [andb].
  replace (streq "perm" "perm" && negb (streq "=" "=")) with false by reflexivity.
  replace (is_string_field 106) with false by reflexivity. replace (streq "perm" "saddr_fam") with false by reflexivity. cbn [andb app].
  rewrite N.mod_small by (change (2^32) with 4294967296; lia).
  rewrite Ek. destruct (64 <? List.length ts)%nat eqn:E64.
  - exfalso. destruct keys as [|k0 kr].
    + cbn [add_keys] in Ek. inversion Ek; subst. discriminate.
    + unfold add_keys in Ek. destruct (List.length (join_keys (k0 :: kr)) =? 0)%nat; [discriminate|]. destruct (max_key_length <? _); [discriminate|]. rewrite Heq in Ek. inversion Ek; subst. vm_compute in E64. discriminate.
  - reflexivity.
Qed.
Print Assumptions watch_line_as_syscall_rule.
