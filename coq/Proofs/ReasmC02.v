(* Check/ChkC02.v + proof (prototype) — every delivered event is the lowest buffered one (roll-over aware),
   for histories whose buffered sequences stay inside one 2^24 window. *)
From Coq Require Import List ZArith Bool Lia Permutation Sorted.
Import ListNotations.
Require Import Reassembler ReasmInv ReasmC01 Window SortAppend.
Open Scope Z_scope.

(* checker: at each Complete g (sequence a), every other undelivered sequence b satisfies less a b *)
Fixpoint chk_outs2 (U : list msg) (outs : list out) : option (list msg) :=
  match outs with
  | [] => Some U
  | Complete (m0 :: _) :: r =>
      let a := mseq m0 in
      if forallb (fun m => (mseq m =? a) || less a (mseq m)) U
      then chk_outs2 (filter (fun m => negb (sameseq a m)) U) r else None
  | Complete [] :: _ => None
  | _ :: r => chk_outs2 U r
  end.
Fixpoint chk_C02 (U : list msg) (ops : list op) (tr : list (list out)) : bool :=
  match ops, tr with
  | [], [] => true
  | o :: ops', outs :: tr' => match chk_outs2 (pushU U o) outs with Some U2 => chk_C02 U2 ops' tr' | None => false end
  | _, _ => false
  end.

(* the property's quantifier: whenever a message is pushed, its sequence and the undelivered ones fit one window *)
Definition fits (U : list msg) (x : Z) : Prop := exists base, 0 <= base < 2^32 /\ inwin base x /\ Forall (fun m => inwin base (mseq m)) U.
Fixpoint windowed (U : list msg) (ops : list op) (tr : list (list out)) : Prop :=
  match ops, tr with
  | o :: ops', outs :: tr' =>
      (match o with Push (Some m) _ _ => fits U (mseq m) | _ => True end) /\
      (forall U2, chk_outs (pushU U o) outs = Some U2 -> windowed U2 ops' tr')
  | _, _ => True
  end.

Definition sorted (l : list Z) := StronglySorted lt_less l.

Lemma sorted_tail a l : sorted (a :: l) -> sorted l. Proof. intros H. inversion H; auto. Qed.
Lemma sorted_head a l b : sorted (a :: l) -> In b l -> less a b = true.
Proof. intros H Hb. inversion H as [|? ? _ Hf]; subst. rewrite Forall_forall in Hf. apply Hf; auto. Qed.

Lemma put_sorted c now m s U : InvL U (seqs s) (events s) -> sorted (seqs s) -> fits U (mseq m) -> sorted (seqs (put c now m s)).
Proof.
  intros (Hnd & Hin & Hmsgs & HU) Hs (base & Hb & Hx & Hw). unfold put.
  destruct (lookup (mseq m) (events s)) as [e|] eqn:El; destruct (mty m =? AUDIT_EOE); cbn [seqs set_list]; auto.
  apply (sort_append_sorted base); auto.
  - (* every buffered sequence is the sequence of some undelivered message *)
    apply Forall_forall. intros k Hk. apply Hin in Hk. destruct (lookup k (events s)) as [e|] eqn:Ek; [|congruence].
    destruct (Hmsgs _ _ Ek) as [Hm Hne]. destruct (msgs e) as [|m0 g] eqn:Eg; [congruence|].
    assert (Hi: In m0 (filter (sameseq k) U)) by (rewrite <- Hm; left; auto). apply filter_In in Hi. destruct Hi as [Hi He].
    unfold sameseq in He. apply Z.eqb_eq in He. subst k. rewrite Forall_forall in Hw. auto.
  - intros C. apply Hin in C. congruence.
Qed.

Lemma evict_order force c now : forall sqs em last has U, InvL U sqs em -> sorted sqs ->
  let '(sqs', em', _, _, outs, _) := evict force c now sqs em last has in
  exists U', chk_outs2 U outs = Some U' /\ chk_outs U outs = Some U' /\ sorted sqs'.
Proof.
  induction sqs as [|sq rest IH]; intros em last has U HI Hs; cbn [evict].
  - exists U. auto.
  - destruct HI as (Hnd & Hin & Hmsgs & HU).
    destruct (lookup sq em) as [e|] eqn:El; [|exfalso; apply (proj1 (Hin sq)); auto; left; auto].
    destruct (force || complete e || (Z.of_nat (length (sq :: rest)) >? maxSize c) || (now >? expire e)) eqn:Ec.
    + destruct (advance last has sq) as [[d l'] h']. destruct (Hmsgs _ _ El) as [Hm Hne].
      set (U1 := filter (fun m => negb (sameseq sq m)) U).
      assert (HI1: InvL U1 rest (remove sq em)).
      { inversion Hnd as [|? ? Hnotin Hnd']; subst. repeat split; auto.
        - intros H. rewrite lookup_remove_other. apply Hin; right; auto. intros ->; contradiction.
        - intros H. destruct (Z.eq_dec k sq) as [->|N]. rewrite lookup_remove_same in H; congruence.
          rewrite lookup_remove_other in H by auto. apply Hin in H. destruct H; auto. congruence.
        - destruct (Z.eq_dec k sq) as [->|N]. rewrite lookup_remove_same in H; congruence.
          rewrite lookup_remove_other in H by auto. unfold U1. rewrite filter_filter_other by auto. apply (Hmsgs _ _ H).
        - destruct (Z.eq_dec k sq) as [->|N]. rewrite lookup_remove_same in H; congruence.
          rewrite lookup_remove_other in H by auto. apply (Hmsgs _ _ H).
        - intros m Hm'. unfold U1 in Hm'. apply filter_In in Hm'. destruct Hm' as [HmU Hneq].
          apply HU in HmU. destruct HmU as [E|]; auto. unfold sameseq in Hneq. rewrite <- E, Z.eqb_refl in Hneq. discriminate. }
      specialize (IH (remove sq em) l' h' U1 HI1 (sorted_tail _ _ Hs)).
      destruct (evict force c now rest (remove sq em) l' h') as [[[[[sqs' em'] l''] h''] outs] lost].
      destruct IH as (U' & H2 & H1 & Hs'). exists U'.
      destruct (msgs e) as [|m0 g] eqn:Eg; [congruence|].
      assert (Hm0: mseq m0 = sq).
      { assert (In m0 (filter (sameseq sq) U)) by (rewrite <- Hm; left; auto).
        apply filter_In in H. destruct H as [_ H]. unfold sameseq in H. apply Z.eqb_eq in H. auto. }
      split; [|split; auto].
      * cbn [chk_outs2]. rewrite Hm0.
        replace (forallb (fun m => (mseq m =? sq) || less sq (mseq m)) U) with true; auto.
        symmetry. apply forallb_forall. intros m Hmu. destruct (mseq m =? sq) eqn:E; auto. cbn [orb].
        apply HU in Hmu. destruct Hmu as [Hq|Hq]. apply Z.eqb_neq in E. congruence. apply (sorted_head sq rest); auto.
      * cbn [chk_outs]. rewrite Hm0, Hm, list_eqb_refl. exact H1.
    + exists U. auto.
Qed.

Lemma chk_outs2_app U o1 o2 U1 : chk_outs2 U o1 = Some U1 -> chk_outs2 U (o1 ++ o2) = chk_outs2 U1 o2.
Proof.
  revert U. induction o1 as [|x o1 IH]; intros U H; cbn in *. inversion H; auto.
  destruct x as [[|m0 g]| | |]; try discriminate; auto. destruct (forallb _ U); try discriminate. auto.
Qed.

Theorem run_chk_C02 : forall c ops s U, InvL U (seqs s) (events s) -> sorted (seqs s) -> windowed U ops (run c s ops) ->
  chk_C02 U ops (run c s ops) = true.
Proof.
  intros c. induction ops as [|o ops IH]; intros s U HI Hs Hw; cbn [run chk_C02]; auto.
  assert (STEP: forall s1 U1 tail, InvL U1 (seqs s1) (events s1) -> sorted (seqs s1) ->
     forall force now, let '(s', outs) := cleanup force c now s1 in
     exists U', chk_outs2 U1 (outs ++ tail) = chk_outs2 U' tail /\ chk_outs U1 (outs ++ tail) = chk_outs U' tail /\
                InvL U' (seqs s') (events s') /\ sorted (seqs s')).
  { intros s1 U1 tail HI1 Hs1 force now. unfold cleanup.
    pose proof (evict_order force c now (seqs s1) (events s1) (lastSeq s1) (hasLast s1) U1 HI1 Hs1) as HE.
    pose proof (evict_ok force c now (seqs s1) (events s1) (lastSeq s1) (hasLast s1) U1 HI1) as HO.
    destruct (evict force c now (seqs s1) (events s1) (lastSeq s1) (hasLast s1)) as [[[[[sqs' em'] l'] h'] outs] lost].
    destruct HE as (U' & H2 & H1 & Hs'). destruct HO as (U'' & H1' & HI' & _). assert (U'' = U') by congruence. subst U''.
    exists U'. cbn [seqs events]. split; [|split; [|split; auto]].
    - rewrite <- app_assoc. rewrite (chk_outs2_app _ _ _ _ H2). destruct (lost >? 0); auto.
    - rewrite <- app_assoc. rewrite (chk_outs_app _ _ _ _ H1). destruct (lost >? 0); auto. }
  cbn [run] in Hw. destruct (step c s o) as [s' outs] eqn:Est. cbn [windowed] in Hw. destruct Hw as [Hf Hw].
  destruct o as [[m|] now now2 | now | ]; cbn [step] in Est.
  - pose proof (put_inv c now now2 m s U HI) as HP. pose proof (put_sorted c now m s U HI Hs Hf) as HS.
    specialize (STEP (put c now m s) _ [] HP HS false now2). rewrite Est in STEP.
    destruct STEP as (U' & H2 & H1 & HI' & Hs'). rewrite app_nil_r in *. cbn [chk_outs2 chk_outs] in H2, H1. rewrite H2. apply IH; auto.
  - inversion Est; subst. cbn. apply IH; auto.
  - destruct (closed s).
    + inversion Est; subst. cbn. apply IH; auto.
    + specialize (STEP s U [Ret true] HI Hs false now). destruct (cleanup false c now s) as [s1 outs1]. inversion Est; subst.
      destruct STEP as (U' & H2 & H1 & HI' & Hs'). cbn [pushU] in *. rewrite H2. cbn [chk_outs2]. apply IH; auto.
  - destruct (closed s) eqn:Ecl.
    + inversion Est; subst. cbn. apply IH; auto.
    + set (s1 := {| seqs := seqs s; events := events s; lastSeq := lastSeq s; hasLast := hasLast s; closed := true |}) in *.
      specialize (STEP s1 U [Ret true] HI Hs true 0). destruct (cleanup true c 0 s1) as [s2 outs2]. inversion Est; subst.
      destruct STEP as (U' & H2 & H1 & HI' & Hs'). cbn [pushU] in *. rewrite H2. cbn [chk_outs2]. apply IH; auto.
Qed.
Theorem C02_order : forall c ops, windowed [] ops (run c init ops) -> chk_C02 [] ops (run c init ops) = true.
Proof. intros. apply run_chk_C02; auto. apply InvL_init. constructor. Qed.
Print Assumptions C02_order.
