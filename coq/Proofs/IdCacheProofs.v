(* Proofs/IdCacheProofs.v — what a lookup returns: the resolver's answer for that very key, given now or - while the entry
   is fresh - at the time it was stored; a pinned value; nothing else.  A lookup or a hardcode of one key never changes what
   the cache holds for another key. *)
From Coq Require Import List Ascii String NArith Bool Arith Lia.
Import ListNotations.
Require Import KV Parser IdCache.
Local Open Scope list_scope.

Section OneCache.
Variable cl : eclass.
Variable R : nat -> str -> str.

(* every entry that is not pinned holds the resolver's answer for its key at the tick it was stored, not in the future *)
Definition entry_ok (now : nat) (e : entry) : Prop := e_pinned e = true \/ (e_val e = R (e_tick e) (e_key e) /\ e_tick e <= now).
Definition cache_ok (now : nat) (c : cache) : Prop := Forall (entry_ok now) c.

Lemma beq_eq' a b : beq a b = true -> a = b.
Proof. revert b; induction a as [|x a IH]; intros [|y b] H; cbn in H; try discriminate; auto. apply andb_prop in H. destruct H as [H1 H2]. apply Ascii.eqb_eq in H1. subst. f_equal. auto. Qed.
Lemma cfind_key k c e : cfind k c = Some e -> e_key e = k /\ In e c.
Proof. unfold cfind. intros H. apply find_some in H. destruct H as [Hin Hb]. split; [apply beq_eq'; exact Hb|exact Hin]. Qed.
Lemma store_ok now k v c : cache_ok now c -> v = R now k -> cache_ok now (store k v now false c).
Proof.
  intros H Hv. unfold cache_ok in *. unfold store. constructor.
  - right. cbn. split; [exact Hv|lia].
  - apply Forall_forall. intros e He. apply filter_In in He. rewrite Forall_forall in H. apply H. tauto.
Qed.
Lemma cache_ok_later now now' c : now <= now' -> cache_ok now c -> cache_ok now' c.
Proof. intros Hle H. unfold cache_ok in *. eapply Forall_impl; [|exact H]. intros e [Hp|[Hv Ht]]; [left; exact Hp|right; split; [exact Hv|lia]]. Qed.

(* the value a lookup returns *)
Theorem lookup_value now c k : cache_ok now c ->
  let '(c', v, asked) := lookup cl R now c k in
  cache_ok now c' /\
  (if asked then v = R now k
   else v = [] /\ (isS k "" || isS k "unset" = true) \/
        exists e, cfind k c = Some e /\ v = e_val e /\
                  (e_pinned e = true \/ (v = R (e_tick e) k /\ e_tick e <= now /\ match cl with Never => True | Always => False | AfterPause => e_tick e = now end))).
Proof.
  intros H. unfold lookup. destruct (isS k "" || isS k "unset") eqn:Ek. { split; [exact H|]. left. auto. }
  destruct (cfind k c) as [e|] eqn:Ef.
  - destruct (fresh cl now e) eqn:Efr.
    + split; [exact H|]. right. exists e. split; [reflexivity|]. split; [reflexivity|].
      destruct (cfind_key _ _ _ Ef) as [Hk Hin]. pose proof H as H'. unfold cache_ok in H. rewrite Forall_forall in H. specialize (H e Hin).
      unfold fresh in Efr. destruct (e_pinned e) eqn:Ep; [left; reflexivity|]. right. cbn [orb] in Efr.
      destruct H as [Hp|[Hv Ht]]; [congruence|]. rewrite Hk in Hv. split; [exact Hv|]. split; [exact Ht|].
      destruct cl; [exact I|discriminate|apply Nat.eqb_eq; exact Efr].
    + split; [apply store_ok; auto|reflexivity].
  - split; [apply store_ok; auto|reflexivity].
Qed.

(* other keys are left alone *)
Lemma beq_refl'' a : beq a a = true.
Proof. induction a as [|c a IH]; cbn; auto. rewrite Ascii.eqb_refl, IH. reflexivity. Qed.
Lemma cfind_store_other k k' v t pin c : beq k k' = false -> cfind k' (store k v t pin c) = cfind k' c.
Proof.
  intros Hne. unfold cfind, store. cbn [find e_key]. rewrite Hne.
  induction c as [|e c IH]; cbn [filter find]; auto. destruct (beq (e_key e) k) eqn:E; cbn [negb].
  - destruct (beq (e_key e) k') eqn:E2.
    + apply beq_eq' in E. apply beq_eq' in E2. rewrite <- E, <- E2 in Hne. rewrite beq_refl'' in Hne. discriminate.
    + exact IH.
  - cbn [find]. destruct (beq (e_key e) k'); auto.
Qed.
Theorem lookup_other_keys now c k k' : beq k k' = false ->
  let '(c', _, _) := lookup cl R now c k in cfind k' c' = cfind k' c.
Proof.
  intros Hne. unfold lookup. destruct (_ || _); [reflexivity|]. destruct (cfind k c) as [e|]; [destruct (fresh cl now e); [reflexivity|]|]; apply cfind_store_other; exact Hne.
Qed.
Theorem hardcode_other_keys now c k v k' : beq k k' = false -> cfind k' (hardcode k v now c) = cfind k' c.
Proof. intros Hne. apply cfind_store_other. exact Hne. Qed.
(* a pinned entry is what every later lookup of that key returns, without asking *)
Theorem hardcoded_is_returned now now' c k v : isS k "" || isS k "unset" = false ->
  lookup cl R now' (hardcode k v now c) k = (hardcode k v now c, v, false).
Proof.
  intros Hk. unfold lookup, hardcode, store, cfind. rewrite Hk. cbn [find e_key].
  rewrite beq_refl''. reflexivity.
Qed.
End OneCache.

(* the user cache and the group cache are separate: an operation on one leaves the other as it was *)
Theorem caches_separate cl R s o : 
  match o with
  | CLookup w _ _ | CHard w _ _ => match w with O => groups (fst (cstep2 cl R s o)) = groups s | _ => users (fst (cstep2 cl R s o)) = users s end
  | CPause => users (fst (cstep2 cl R s o)) = users s /\ groups (fst (cstep2 cl R s o)) = groups s
  end.
Proof.
  destruct o as [w kind k|w id name|]; cbn [cstep2].
  - destruct kind; [destruct (lookup cl _ (tick s) (by_id (get_ec s w)) k) as [[c' v] a]|destruct (lookup cl _ (tick s) (by_name (get_ec s w)) k) as [[c' v] a]];
      destruct w; reflexivity.
  - destruct w; reflexivity.
  - split; reflexivity.
Qed.
Print Assumptions lookup_value.
Print Assumptions lookup_other_keys.
Print Assumptions caches_separate.

(* ---------- whole runs: the invariant holds from the constructors' state through every operation ---------- *)
Definition ec_ok (R : nat -> nat -> nat -> str -> str) (w now : nat) (e : ecache) : Prop :=
  cache_ok (fun t => R w 0 t) now (by_id e) /\ cache_ok (fun t => R w 1 t) now (by_name e).
Definition state_ok (R : nat -> nat -> nat -> str -> str) (s : cstate2) : Prop :=
  ec_ok R 0 (tick s) (users s) /\ ec_ok R 1 (tick s) (groups s).
Lemma new_ecache_ok R w now : ec_ok R w now new_ecache.
Proof. split; (constructor; [left; reflexivity|constructor]). Qed.
Lemma state_ok_init R : state_ok R cs0.
Proof. split; apply new_ecache_ok. Qed.
Lemma hardcode_ok R now k v c : cache_ok R now c -> cache_ok R now (hardcode k v now c).
Proof.
  intros H. unfold cache_ok in *. unfold hardcode, store. constructor; [left; reflexivity|].
  apply Forall_forall. intros e He. apply filter_In in He. rewrite Forall_forall in H. apply H. tauto.
Qed.
Lemma get_set_ok R s w e : state_ok R s -> ec_ok R w (tick s) e -> (w = 0 \/ w = 1) -> state_ok R (set_ec s w e).
Proof. intros [Hu Hg] He [-> | ->]; split; cbn; auto. Qed.
Lemma get_ec_ok R s w : state_ok R s -> (w = 0 \/ w = 1) -> ec_ok R w (tick s) (get_ec s w).
Proof. intros [Hu Hg] [-> | ->]; cbn; auto. Qed.
Definition op_wf (o : cop) : Prop := match o with CLookup w _ _ | CHard w _ _ => w = 0 \/ w = 1 | CPause => True end.

Theorem step_keeps_invariant cl R s o : op_wf o -> state_ok R s -> state_ok R (fst (cstep2 cl R s o)).
Proof.
  intros Hw H. destruct o as [w kind k|w id name|]; cbn [cstep2 op_wf] in *.
  - pose proof (get_ec_ok R s w H Hw) as [Hi Hn]. destruct kind.
    + pose proof (lookup_value cl (fun t => R w 0 t) (tick s) (by_id (get_ec s w)) k Hi) as L.
      destruct (lookup cl (fun t => R w 0 t) (tick s) (by_id (get_ec s w)) k) as [[c' v] a]. destruct L as [L _]. cbn [fst].
      apply get_set_ok; auto. split; cbn; auto.
    + pose proof (lookup_value cl (fun t => R w 1 t) (tick s) (by_name (get_ec s w)) k Hn) as L.
      destruct (lookup cl (fun t => R w 1 t) (tick s) (by_name (get_ec s w)) k) as [[c' v] a]. destruct L as [L _]. cbn [fst].
      apply get_set_ok; auto. split; cbn; auto.
  - pose proof (get_ec_ok R s w H Hw) as [Hi Hn]. cbn [fst]. apply get_set_ok; auto. split; cbn; apply hardcode_ok; auto.
  - destruct H as [[H1 H2] [H3 H4]]. cbn [fst]. split; split; cbn [users groups tick]; (eapply cache_ok_later; [|eassumption]; lia).
Qed.
Theorem run_keeps_invariant cl R : forall ops s, Forall op_wf ops -> state_ok R s ->
  state_ok R (fold_left (fun st o => fst (cstep2 cl R st o)) ops s).
Proof.
  induction ops as [|o ops IH]; intros s Hw H; cbn [fold_left]; auto. inversion Hw; subst. apply IH; auto. apply step_keeps_invariant; auto.
Qed.
Print Assumptions run_keeps_invariant.
