(* Proofs/RuleFlagsBack.v — flags.Parse on the items ToCommandLine prints for a syscall rule:
   "-a action,list" followed by -F / -C / -S items is read as that list and action, the scanned
   filters in order and the comma-split syscalls. *)
From Coq Require Import List Ascii String Arith NArith Bool Lia.
Import ListNotations.
Require Import Bytes RuleText KV Trim FilterRe Flags RuleBuild FlagsProofs RuleReprint.
Local Open Scope string_scope.
Local Open Scope list_scope.

Notation flt := (bool * str * str * str)%type.
Fixpoint effect (pf : list fitem) : option (list flt * list str) :=
  match pf with
  | [] => Some ([], [])
  | FFlag n v :: r =>
      if String.eqb n "S" then match effect r with Some (f, s) => Some (f, map trim_space (split_comma v) ++ s) | None => None end
      else if String.eqb n "F" || String.eqb n "C" then
        match scan_item (FFlag n v), effect r with Some x, Some (f, s) => Some (x :: f, s) | _, _ => None end
      else None
  | _ => None
  end.
Definition names_of (pf : list fitem) : list string := flat_map (fun it => match it with FFlag n _ => [n] | _ => [] end) pf.

Definition with_effect (p : parsed) (f : list flt) (s : list str) (seen : list string) : parsed :=
  {| p_del := p_del p; p_append := p_append p; p_prepend := p_prepend p; p_filters := p_filters p ++ f; p_syscalls := p_syscalls p ++ s;
     p_path := p_path p; p_perms := p_perms p; p_keys := p_keys p; p_seen := seen ++ p_seen p |}.

Lemma with_effect_nil p : with_effect p [] [] [] = p.
Proof. destruct p. unfold with_effect. cbn. rewrite !app_nil_r. reflexivity. Qed.

Lemma apply_items_effect : forall pf p f s, effect pf = Some (f, s) -> apply_items p pf = Some (with_effect p f s (rev (names_of pf))).
Proof.
  induction pf as [|it pf IH]; intros p f s H; cbn [effect] in H.
  - injection H as <- <-. cbn [apply_items names_of flat_map rev]. rewrite with_effect_nil. reflexivity.
  - destruct it as [n v| | |]; try discriminate. cbn [apply_items].
    destruct (String.eqb n "S") eqn:ES.
    + apply String.eqb_eq in ES. subst n. destruct (effect pf) as [[f' s']|] eqn:E; [|discriminate]. injection H as <- <-.
      cbn [set_flag String.eqb Ascii.eqb Bool.eqb andb]. rewrite (IH _ _ _ eq_refl). f_equal. unfold with_effect. cbn.
      rewrite <- !app_assoc. reflexivity.
    + destruct (String.eqb n "F") eqn:EF; [|destruct (String.eqb n "C") eqn:EC; [|discriminate]].
      * apply String.eqb_eq in EF. subst n. cbn [orb] in H. unfold scan_item in H. cbn [String.eqb Ascii.eqb Bool.eqb andb] in H.
        destruct (scan_filter v) as [[[a b] c]|] eqn:Es; [|discriminate]. destruct (effect pf) as [[f' s']|] eqn:E; [|discriminate]. injection H as <- <-.
        cbn [set_flag String.eqb Ascii.eqb Bool.eqb andb]. rewrite Es. rewrite (IH _ _ _ eq_refl). f_equal. unfold with_effect. cbn.
        rewrite <- !app_assoc. reflexivity.
      * apply String.eqb_eq in EC. subst n. cbn [orb] in H. unfold scan_item in H. cbn [String.eqb Ascii.eqb Bool.eqb andb] in H.
        destruct (scan_compare v) as [[[a b] c]|] eqn:Es; [|discriminate]. destruct (effect pf) as [[f' s']|] eqn:E; [|discriminate]. injection H as <- <-.
        cbn [set_flag String.eqb Ascii.eqb Bool.eqb andb]. rewrite Es. rewrite (IH _ _ _ eq_refl). f_equal. unfold with_effect. cbn.
        rewrite <- !app_assoc. reflexivity.
Qed.

Definition fcs (n : string) : Prop := n = "F" \/ n = "C" \/ n = "S".
Lemma effect_names : forall pf r, effect pf = Some r -> Forall fcs (names_of pf) /\ flags_only pf.
Proof.
  induction pf as [|it pf IH]; intros r H; cbn [effect] in H. split; constructor.
  destruct it as [n v| | |]; try discriminate. cbn [names_of flat_map app].
  destruct (String.eqb n "S") eqn:ES.
  - apply String.eqb_eq in ES. subst n. destruct (effect pf) as [[f' s']|] eqn:E; [|discriminate]. destruct (IH _ eq_refl) as [H1 H2].
    split; constructor; auto. right; right; reflexivity. cbn; tauto.
  - destruct (String.eqb n "F") eqn:EF; [|destruct (String.eqb n "C") eqn:EC; [|discriminate]]; cbn [orb] in H;
      destruct (scan_item (FFlag n v)); try discriminate; destruct (effect pf) as [[f' s']|] eqn:E; try discriminate; destruct (IH _ eq_refl) as [H1 H2].
    + apply String.eqb_eq in EF. subst n. split; constructor; auto. left; reflexivity. cbn; tauto.
    + apply String.eqb_eq in EC. subst n. split; constructor; auto. right; left; reflexivity. cbn; tauto.
Qed.

Lemma effect_app : forall a b fa sa fb sb, effect a = Some (fa, sa) -> effect b = Some (fb, sb) -> effect (a ++ b) = Some (fa ++ fb, sa ++ sb).
Proof.
  induction a as [|it a IH]; intros b fa sa fb sb Ha Hb; cbn [effect app] in *. injection Ha as <- <-. exact Hb.
  destruct it as [n v| | |]; try discriminate.
  destruct (String.eqb n "S").
  - destruct (effect a) as [[f' s']|] eqn:E; [|discriminate]. injection Ha as <- <-. rewrite (IH _ _ _ _ _ eq_refl Hb). rewrite <- app_assoc. reflexivity.
  - destruct (_ || _); [|discriminate]. destruct (scan_item (FFlag n v)); [|discriminate].
    destruct (effect a) as [[f' s']|] eqn:E; [|discriminate]. injection Ha as <- <-. rewrite (IH _ _ _ _ _ eq_refl Hb). reflexivity.
Qed.

(* the "-a" value *)
Lemma parse_add_printed fl act ln an : list_name fl = Some ln -> action_name act = Some an ->
  parse_add (s2l an ++ ","%char :: s2l ln) = Some (s2l ln, s2l an).
Proof.
  unfold list_name, action_name. intros Hl Ha.
  destruct (N.eqb fl 4); [|destruct (N.eqb fl 1); [|destruct (N.eqb fl 0); [|destruct (N.eqb fl 5); [|discriminate]]]]; injection Hl as <-;
    (destruct (N.eqb act 2); [|destruct (N.eqb act 0); [|discriminate]]); injection Ha as <-; vm_compute; reflexivity.
Qed.

Lemma seen_none names seen : Forall (fun n => ~ In n names) seen -> existsb (fun n => existsb (String.eqb n) seen) names = false.
Proof.
  intros H. destruct (existsb _ names) eqn:E; auto. apply existsb_exists in E. destruct E as (n & Hn & He).
  apply existsb_exists in He. destruct He as (x & Hx & Hex). apply String.eqb_eq in Hex. subst x.
  rewrite Forall_forall in H. exfalso. apply (H n); auto.
Qed.

Theorem printed_syscall_rule_parses fl act ln an rest f s :
  list_name fl = Some ln -> action_name act = Some an -> effect rest = Some (f, s) ->
  flags_parse (flat_map render_item (FFlag "a" (s2l an ++ ","%char :: s2l ln) :: rest)) = Some (PSyscall false (s2l ln) (s2l an) f s []).
Proof.
  intros Hl Ha He. destruct (effect_names _ _ He) as [Hn Hfo].
  rewrite tokens_read_as_items. 2:{ constructor; auto. cbn; tauto. }
  unfold expected_of_items. cbn [apply_items]. unfold set_flag at 1. cbn [String.eqb Ascii.eqb Bool.eqb andb p0 p_append].
  rewrite (parse_add_printed _ _ _ _ Hl Ha). rewrite (apply_items_effect _ _ _ _ He).
  unfold validate, seen_any, with_effect. cbn [p0 p_seen p_append p_prepend p_filters p_syscalls p_keys app].
  assert (Hall: Forall (fun n => n = "a" \/ fcs n) (rev (names_of rest) ++ ["a"])).
  { apply Forall_app. split. apply Forall_rev. eapply Forall_impl; [|exact Hn]. auto. constructor; auto. }
  rewrite (seen_none ["D"]). 2:{ eapply Forall_impl; [|exact Hall]. intros n [->|[->|[->| ->]]] [C|[]]; discriminate. }
  rewrite (seen_none ["w"; "p"]). 2:{ eapply Forall_impl; [|exact Hall]. intros n [->|[->|[->| ->]]] [C|[C|[]]]; discriminate. }
  assert (Hs: existsb (fun n => existsb (String.eqb n) (rev (names_of rest) ++ ["a"])) ["a"; "A"; "C"; "F"; "S"] = true).
  { cbn [existsb]. rewrite existsb_app. cbn. rewrite orb_true_r. reflexivity. }
  rewrite Hs. reflexivity.
Qed.
Print Assumptions printed_syscall_rule_parses.
