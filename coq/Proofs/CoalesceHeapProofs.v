(* Proofs/CoalesceHeapProofs.v — the heap reading of CoalesceMessages (Model/CoalesceHeap.v):
   (1) frame: a call changes no cell that existed before it - so the input messages' cached maps
       and every previously returned event are what they were;
   (2) refinement: the event read back from the heap is the event of the functional model
       (ChkCoalesce.model_event) on the maps the messages held;
   (3) ownership: the maps of the returned event are cells allocated by this call, its Paths are
       the input messages' own maps. *)
From Coq Require Import List Ascii String NArith ZArith Bool Arith Lia.
Import ListNotations.
Require Import KV Parser ChkCoalesce CoalesceProofs CoalesceCompound CoalesceHeap.
Require MsgTypes Dec.
Local Close Scope N_scope.
Local Open Scope nat_scope.
Local Open Scope list_scope.
Local Notation length := List.length.

(* ---------- cells ---------- *)
Lemma hset_length : forall h l v, length (hset h l v) = length h.
Proof. induction h as [|x h IH]; intros [|l] v; cbn; auto. Qed.
Lemma hread_hset_same : forall h l v, l < length h -> hread (hset h l v) l = v.
Proof. unfold hread. induction h as [|x h IH]; intros [|l] v H; cbn in *; try lia; auto. apply IH. lia. Qed.
Lemma hread_hset_other : forall h l l' v, l <> l' -> hread (hset h l v) l' = hread h l'.
Proof. unfold hread. induction h as [|x h IH]; intros [|l] [|l'] v H; cbn; auto; try lia. Qed.
Lemma hupd_length h l f : length (hupd h l f) = length h. Proof. apply hset_length. Qed.
Lemma hread_hupd_same h l f : l < length h -> hread (hupd h l f) l = f (hread h l). Proof. apply hread_hset_same. Qed.
Lemma hread_hupd_other h l l' f : l <> l' -> hread (hupd h l f) l' = hread h l'. Proof. apply hread_hset_other. Qed.
Lemma hread_alloc_old h v l : l < length h -> hread (h ++ [v]) l = hread h l.
Proof. intros H. unfold hread. apply app_nth1. exact H. Qed.
Lemma hread_alloc_new h v : hread (h ++ [v]) (length h) = v.
Proof. unfold hread. rewrite app_nth2 by lia. rewrite Nat.sub_diag. reflexivity. Qed.

(* h' extends h without touching the cells below n *)
Definition agree_below (n : nat) (h h' : heap) : Prop := length h <= length h' /\ forall l, l < n -> hread h' l = hread h l.
Lemma agree_refl n h : agree_below n h h. Proof. split; auto. Qed.
Lemma agree_trans n h1 h2 h3 : agree_below n h1 h2 -> agree_below n h2 h3 -> agree_below n h1 h3.
Proof. intros [L1 A1] [L2 A2]. split; [lia|]. intros l Hl. rewrite A2, A1; auto. Qed.
Lemma agree_alloc n h v : n <= length h -> agree_below n h (h ++ [v]).
Proof. intros H. split. rewrite app_length. cbn. lia. intros l Hl. apply hread_alloc_old. lia. Qed.
Lemma agree_upd n h l f : n <= l -> agree_below n h (hupd h l f).
Proof. intros H. split. rewrite hupd_length. lia. intros l' Hl. apply hread_hupd_other. lia. Qed.

(* ---------- an event whose own maps are cells at or above n and whose paths are below n ---------- *)
Record wf_ev (n : nat) (h : heap) (e : hev) : Prop := {
  wf_d : n <= he_data e < length h; wf_i : n <= he_ids e < length h; wf_s : n <= he_sel e < length h;
  wf_di : he_data e <> he_ids e; wf_ds : he_data e <> he_sel e; wf_is : he_ids e <> he_sel e;
  wf_p : Forall (fun l => l < n) (he_paths e) }.
Lemma wf_len n h h' e : wf_ev n h e -> length h <= length h' -> wf_ev n h' e.
Proof. intros [] Hl. constructor; auto; lia. Qed.
Lemma wf_warn n h e : wf_ev n h e -> wf_ev n h (warn_h e).
Proof. intros []. constructor; auto. Qed.
Lemma deref_warn h e : deref h (warn_h e) = warn (deref h e). Proof. reflexivity. Qed.

Lemma paths_same n h h' ps : Forall (fun l => l < n) ps -> (forall l, l < n -> hread h' l = hread h l) -> map (hread h') ps = map (hread h) ps.
Proof. intros Hp Ha. apply map_ext_in. intros l Hl. rewrite Forall_forall in Hp. apply Ha. apply Hp. exact Hl. Qed.

(* a write into one of the event's own maps *)
Lemma deref_upd_data n h e f : wf_ev n h e ->
  deref (hupd h (he_data e) f) e = with_data (deref h e) (f (hread h (he_data e))).
Proof.
  intros []. unfold deref, with_data. cbn [m_data m_ids m_sel m_result m_session m_paths m_args m_warn m_src m_dst].
  rewrite hread_hupd_same by lia. rewrite !hread_hupd_other by auto.
  rewrite (paths_same n h) ; auto. intros l Hl. apply hread_hupd_other. lia.
Qed.

(* ---------- newEvent's loop ---------- *)
Lemma dstep_h_refines n h e kv : wf_ev n h e ->
  deref (dstep_h e h kv) e = dstep (deref h e) kv /\ length (dstep_h e h kv) = length h /\ agree_below n h (dstep_h e h kv).
Proof.
  intros W. destruct kv as [k v]. unfold dstep_h, dstep.
  destruct (isS k "result"); [split; [reflexivity|split; [reflexivity|apply agree_refl]]|].
  destruct (isS k "ses"); [split; [reflexivity|split; [reflexivity|apply agree_refl]]|].
  pose proof W as W'. destruct W'.
  assert (P: forall l f, n <= l -> map (hread (hupd h l f)) (he_paths e) = map (hread h) (he_paths e)).
  { intros l f Hl. apply (paths_same n); auto. intros l' Hl'. apply hread_hupd_other. lia. }
  destruct (_ || _).
  { split; [|split; [apply hupd_length|apply agree_upd; lia]]. unfold deref. cbn [m_data m_ids m_sel m_result m_session m_paths m_args m_warn m_src m_dst].
    rewrite hread_hupd_same by lia. rewrite !hread_hupd_other by auto. rewrite P by lia. reflexivity. }
  destruct (has_prefix _ _).
  { split; [|split; [apply hupd_length|apply agree_upd; lia]]. unfold deref. cbn [m_data m_ids m_sel m_result m_session m_paths m_args m_warn m_src m_dst].
    rewrite hread_hupd_same by lia. rewrite !hread_hupd_other by auto. rewrite P by lia. reflexivity. }
  split; [|split; [apply hupd_length|apply agree_upd; lia]]. unfold deref. cbn [m_data m_ids m_sel m_result m_session m_paths m_args m_warn m_src m_dst].
  rewrite hread_hupd_same by lia. rewrite !hread_hupd_other by auto. rewrite P by lia. reflexivity.
Qed.
Lemma fold_dstep_h_refines n : forall d h e, wf_ev n h e ->
  let h' := fold_left (dstep_h e) d h in
  deref h' e = fold_left dstep d (deref h e) /\ length h' = length h /\ agree_below n h h'.
Proof.
  induction d as [|kv d IH]; intros h e W; cbn [fold_left].
  - split; [reflexivity|split; [reflexivity|apply agree_refl]].
  - destruct (dstep_h_refines n h e kv W) as (R & Ln & A).
    assert (W1: wf_ev n (dstep_h e h kv) e) by (apply (wf_len n h); auto; lia).
    destruct (IH _ _ W1) as (R' & Ln' & A'). split; [rewrite R', R; reflexivity|]. split; [lia|]. eapply agree_trans; eauto.
Qed.

(* dstep ignores result / ses, so deleting them first changes nothing *)
Lemma isS_beq k s : isS k s = beq k (L s). Proof. reflexivity. Qed.
Lemma fold_dstep_del key : (key = "result"%string \/ key = "ses"%string) -> forall d a, fold_left dstep (del (L key) d) a = fold_left dstep d a.
Proof.
  intros Hk. induction d as [|[k v] d IH]; intros a; cbn [del filter fst]; auto. fold (del (L key) d).
  destruct (beq k (L key)) eqn:E; cbn [negb fold_left].
  - rewrite IH. f_equal. unfold dstep. destruct Hk as [->| ->]; rewrite !isS_beq.
    + rewrite E. reflexivity.
    + rewrite E. destruct (beq k (L "result")); reflexivity.
  - apply IH.
Qed.
Lemma fget_del_same k (m : kvs) : fget k (del k m) = None.
Proof. induction m as [|[k' v] m IH]; cbn; auto. destruct (beq k' k) eqn:E; cbn; auto. rewrite E. exact IH. Qed.

(* ---------- newEvent ---------- *)
Definition pre_data (sys : bool) (d : kvs) : kvs := if sys then del (L "items") d else d.
Definition new_event_f (sys : bool) (data : option kvs) : mev :=
  match data with Some d => distribute (pre_data sys d) m0 | None => warn m0 end.

Theorem new_event_h_refines h sys data :
  (forall l, data = Some l -> l < length h) ->
  let '(h', e) := new_event_h h sys data in
  deref h' e = new_event_f sys (option_map (hread h) data) /\ wf_ev (length h) h' e /\ agree_below (length h) h h' /\ he_paths e = [].
Proof.
  intros Hl. unfold new_event_h, halloc. cbv beta iota zeta. set (n := length h).
  set (h1 := h ++ @cons kvs [] []). set (h2 := h1 ++ @cons kvs [] []). set (h3 := h2 ++ @cons kvs [] []).
  assert (L1: length h1 = S n) by (unfold h1; rewrite app_length; cbn; lia).
  assert (L2: length h2 = S (S n)) by (unfold h2; rewrite app_length; cbn; lia).
  assert (L3: length h3 = S (S (S n))) by (unfold h3; rewrite app_length; cbn; lia).
  assert (A3: agree_below n h h3).
  { eapply agree_trans; [apply (agree_alloc n h []); lia|]. eapply agree_trans; [apply (agree_alloc n h1 []); lia|]. apply agree_alloc. lia. }
  assert (R1: hread h3 n = []).
  { unfold h3, h2. rewrite !hread_alloc_old by (rewrite ?app_length; cbn; fold n; lia). apply hread_alloc_new. }
  assert (R2: hread h3 (length h1) = []).
  { unfold h3. rewrite hread_alloc_old by lia. apply hread_alloc_new. }
  assert (R3: hread h3 (length h2) = []) by apply hread_alloc_new.
  destruct data as [l|]; cbn [option_map new_event_f].
  - specialize (Hl l eq_refl). fold n in Hl.
    set (h4 := h3 ++ [hread h3 l]). set (c := length h3).
    assert (L4: length h4 = S c) by (unfold h4; rewrite app_length; cbn; lia).
    assert (Hd: hread h3 l = hread h l) by (apply A3; exact Hl).
    set (h5 := if sys then hupd h4 c (del (L "items")) else h4).
    assert (L5: length h5 = S c) by (unfold h5; destruct sys; rewrite ?hupd_length; exact L4).
    assert (R5: hread h5 c = pre_data sys (hread h l)).
    { unfold h5, pre_data. destruct sys.
      - rewrite hread_hupd_same by lia. unfold h4, c. rewrite hread_alloc_new, Hd. reflexivity.
      - unfold h4, c. rewrite hread_alloc_new, Hd. reflexivity. }
    assert (O5: forall l', l' < c -> hread h5 l' = hread h3 l').
    { intros l' Hl'. unfold h5. destruct sys; [rewrite hread_hupd_other by lia|]; unfold h4; apply hread_alloc_old; exact Hl'. }
    set (d := pre_data sys (hread h l)) in *.
    set (h6 := hupd h5 c (del (L "result"))). set (h7 := hupd h6 c (del (L "ses"))).
    assert (L7: length h7 = S c) by (unfold h7, h6; rewrite !hupd_length; exact L5).
    assert (R7: hread h7 c = del (L "ses") (del (L "result") d)).
    { unfold h7, h6. rewrite hread_hupd_same by (rewrite hupd_length; lia). rewrite hread_hupd_same by lia. rewrite R5. reflexivity. }
    assert (O7: forall l', l' < c -> hread h7 l' = hread h3 l').
    { intros l' Hl'. unfold h7, h6. rewrite !hread_hupd_other by lia. apply O5. exact Hl'. }
    rewrite R5, R7.
    set (e1 := {| he_data := n; he_ids := length h1; he_sel := length h2;
                  he_result := Some match fget (L "result") d with Some x => x | None => L "unknown" end;
                  he_session := fget (L "ses") d; he_paths := []; he_args := None; he_warn := 0; he_src := None; he_dst := None |}).
    assert (W: wf_ev n h7 e1).
    { unfold e1. constructor; cbn [he_data he_ids he_sel he_paths]; unfold c in *; fold n; try lia. constructor. }
    destruct (fold_dstep_h_refines n (del (L "ses") (del (L "result") d)) h7 e1 W) as (R & Ln & A).
    split; [|split; [|split]].
    + rewrite R. rewrite (fold_dstep_del "ses") by auto. rewrite (fold_dstep_del "result") by auto.
      unfold distribute. f_equal. unfold deref, dstart, m0, e1.
      cbn [he_data he_ids he_sel he_result he_session he_paths he_args he_warn he_src he_dst m_data m_ids m_sel m_paths m_args m_warn m_src m_dst map].
      rewrite !O7 by (unfold c; lia). rewrite R1, R2, R3. reflexivity.
    + apply (wf_len n h7); auto. lia.
    + eapply agree_trans; [exact A3|]. eapply agree_trans; [|exact A]. split; [lia|]. intros l' Hl'. apply O7. unfold c. lia.
    + reflexivity.
  - split; [|split; [|split]]; try reflexivity.
    + unfold deref, warn, m0. cbn [warn_h he_data he_ids he_sel he_result he_session he_paths he_args he_warn he_src he_dst m_data m_ids m_sel m_paths m_args m_warn m_src m_dst map m_result m_session].
      rewrite R1, R2, R3. reflexivity.
    + constructor; cbn [warn_h he_data he_ids he_sel he_paths]; fold n; try lia. constructor.
    + exact A3.
Qed.

(* ---------- a write that only changes the event's Data cell ---------- *)
Lemma deref_frame n h h' e X : wf_ev n h e -> hread h' (he_data e) = X ->
  (forall l, l = he_ids e \/ l = he_sel e \/ l < n -> hread h' l = hread h l) -> deref h' e = with_data (deref h e) X.
Proof.
  intros W HX Ho. destruct W. unfold deref, with_data. cbn [m_data m_ids m_sel m_result m_session m_paths m_args m_warn m_src m_dst].
  rewrite HX. rewrite !Ho by auto. rewrite (paths_same n h); auto.
Qed.
Lemma with_data_same (a : mev) : with_data a (m_data a) = a. Proof. destruct a; reflexivity. Qed.

(* ---------- addFieldsToEventData ---------- *)
Lemma af_step_h_refines n h e kv : wf_ev n h e ->
  let '(h', e') := af_step_h (h, e) kv in
  deref h' e' = af_step (deref h e) kv /\ wf_ev n h' e' /\ agree_below n h h'.
Proof.
  intros W. unfold af_step_h, af_step. change (m_data (deref h e)) with (hread h (he_data e)).
  destruct (fget (fst kv) (hread h (he_data e))).
  - split; [apply deref_warn|]. split; [apply wf_warn; exact W|apply agree_refl].
  - pose proof W as W'. destruct W'. split; [|split].
    + apply (deref_upd_data n); exact W.
    + apply (wf_len n h); auto. rewrite hupd_length. lia.
    + apply agree_upd. lia.
Qed.
Lemma add_fields_h_refines n : forall d h e, wf_ev n h e ->
  let '(h', e') := fold_left af_step_h d (h, e) in
  deref h' e' = fold_left af_step d (deref h e) /\ wf_ev n h' e' /\ agree_below n h h'.
Proof.
  induction d as [|kv d IH]; intros h e W; cbn [fold_left].
  - split; [reflexivity|]. split; [exact W|apply agree_refl].
  - pose proof (af_step_h_refines n h e kv W) as S1. destruct (af_step_h (h, e) kv) as [h1 e1]. destruct S1 as (R1 & W1 & A1).
    pose proof (IH h1 e1 W1) as S2. destruct (fold_left af_step_h d (h1, e1)) as [h2 e2]. destruct S2 as (R2 & W2 & A2).
    split; [rewrite R2, R1; reflexivity|]. split; [exact W2|eapply agree_trans; eauto].
Qed.

(* ---------- addSockaddrRecord ---------- *)
Definition sock_puts_h (ld : loc) (d : kvs) (h : heap) : heap := fold_left (fun a kv => hupd a ld (put (L "socket_" ++ fst kv) (snd kv))) d h.
Lemma fold_put_h ld : forall (d : kvs) h, ld < length h ->
  hread (sock_puts_h ld d h) ld = fold_left (fun a kv => put (L "socket_" ++ fst kv) (snd kv) a) d (hread h ld) /\ length (sock_puts_h ld d h) = length h /\
  forall l, l <> ld -> hread (sock_puts_h ld d h) l = hread h l.
Proof.
  unfold sock_puts_h. induction d as [|kv d IH]; intros h Hl; cbn [fold_left].
  - auto.
  - destruct (IH (hupd h ld (put (L "socket_" ++ fst kv) (snd kv)))) as (R & Ln & O). rewrite hupd_length; exact Hl.
    split; [etransitivity; [apply R|]; rewrite hread_hupd_same by exact Hl; reflexivity|]. split; [etransitivity; [apply Ln|apply hupd_length]|].
    intros l Hne. etransitivity; [apply O; exact Hne|]. apply hread_hupd_other. auto.
Qed.
Lemma add_sockaddr_h_refines n h e l : wf_ev n h e -> l < n ->
  let '(h', e') := add_sockaddr_h h e l in
  deref h' e' = add_sockaddr (hread h l) (deref h e) /\ wf_ev n h' e' /\ agree_below n h h'.
Proof.
  intros W Hl. unfold add_sockaddr_h, add_sockaddr. change (m_data (deref h e)) with (hread h (he_data e)).
  destruct (fget (L "syscall") (hread h (he_data e))) as [sc|].
  2:{ split; [apply deref_warn|]. split; [apply wf_warn; exact W|apply agree_refl]. }
  pose proof W as W'. destruct W'.
  destruct (fold_put_h (he_data e) (hread h l) h) as (R & Ln & O). lia.
  fold (sock_puts_h (he_data e) (hread h l) h). set (h1 := sock_puts_h (he_data e) (hread h l) h) in *.
  assert (A: agree_below n h h1). { split; [lia|]. intros l' Hl'. apply O. lia. }
  assert (D: forall e2, he_data e2 = he_data e -> he_ids e2 = he_ids e -> he_sel e2 = he_sel e -> he_paths e2 = he_paths e ->
             deref h1 e2 = {| m_data := fold_left (fun a kv => put (L "socket_" ++ fst kv) (snd kv) a) (hread h l) (hread h (he_data e));
                              m_ids := hread h (he_ids e); m_sel := hread h (he_sel e); m_result := he_result e2; m_session := he_session e2;
                              m_paths := map (hread h) (he_paths e); m_args := he_args e2; m_warn := he_warn e2; m_src := he_src e2; m_dst := he_dst e2 |}).
  { intros e2 E1 E2 E3 E4. unfold deref. rewrite E1, E2, E3, E4, R. rewrite !O by auto. rewrite (paths_same n h); auto. intros l' Hl'. apply O. lia. }
  assert (Wk: forall e2, he_data e2 = he_data e -> he_ids e2 = he_ids e -> he_sel e2 = he_sel e -> he_paths e2 = he_paths e -> wf_ev n h1 e2).
  { intros e2 E1 E2 E3 E4. constructor; rewrite ?E1, ?E2, ?E3, ?E4; auto; lia. }
  destruct (_ || _); [split; [apply D; reflexivity|split; [apply Wk; reflexivity|exact A]]|].
  destruct (_ || _); (split; [apply D; reflexivity|split; [apply Wk; reflexivity|exact A]]).
Qed.

(* ---------- addExecveRecord ---------- *)
Lemma akey_inj i j : L "a" ++ Dec.dec i = L "a" ++ Dec.dec j -> i = j.
Proof. intros H. apply app_inv_head in H. pose proof (Dec.parse_dec_dec i) as Hi. rewrite H, Dec.parse_dec_dec in Hi. congruence. Qed.
Lemma take_args_h_refines d c : forall fuel i cnt h acc, c < length h ->
  (forall j, (i <= j)%N -> fget (L "a" ++ Dec.dec j) (hread h c) = fget (L "a" ++ Dec.dec j) d) ->
  let '(h', r) := take_args_h fuel i cnt h c acc in
  r = take_args fuel i cnt d acc /\ length h' = length h /\ forall l, l <> c -> hread h' l = hread h l.
Proof.
  induction fuel as [|f IH]; intros i cnt h acc Hc Hk; cbn [take_args_h take_args]; auto.
  destruct (cnt <=? i)%N; auto.
  rewrite (Hk i) by lia. destruct (fget (L "a" ++ Dec.dec i) d) as [v|]; auto.
  set (h1 := hupd h c (del (L "a" ++ Dec.dec i))).
  assert (Hc1: c < length h1) by (unfold h1; rewrite hupd_length; exact Hc).
  assert (Hk1: forall j, (i + 1 <= j)%N -> fget (L "a" ++ Dec.dec j) (hread h1 c) = fget (L "a" ++ Dec.dec j) d).
  { intros j Hj. unfold h1. rewrite hread_hupd_same by exact Hc. rewrite fget_del_other. apply Hk. lia.
    destruct (beq (L "a" ++ Dec.dec i) (L "a" ++ Dec.dec j)) eqn:E; auto. apply beq_eq in E. apply akey_inj in E. lia. }
  pose proof (IH (i + 1)%N cnt h1 (v :: acc) Hc1 Hk1) as St. destruct (take_args_h f (i + 1) cnt h1 c (v :: acc)) as [h' r].
  destruct St as (R & Ln & O). split; [exact R|]. split; [rewrite Ln; apply hupd_length|].
  intros l Hne. rewrite O by exact Hne. apply hread_hupd_other. auto.
Qed.
Lemma add_execve_h_refines n h e l : wf_ev n h e -> l < n ->
  let '(h', e') := add_execve_h h e l in
  deref h' e' = add_execve (hread h l) (deref h e) /\ wf_ev n h' e' /\ agree_below n h h'.
Proof.
  intros W Hl. pose proof W as W'. destruct W'. unfold add_execve_h, add_execve, halloc. cbv beta iota zeta.
  set (d := hread h l). set (h1 := h ++ @cons kvs d []). set (c := length h).
  assert (L1: length h1 = S c) by (unfold h1; rewrite app_length; cbn; lia).
  assert (Rc: hread h1 c = d) by apply hread_alloc_new.
  assert (A1: agree_below n h h1) by (apply agree_alloc; lia).
  assert (O1: forall l', l' < c -> hread h1 l' = hread h l') by (intros l' Hl'; apply hread_alloc_old; exact Hl').
  assert (W1: wf_ev n h1 e) by (apply (wf_len n h); auto; lia).
  assert (D1: deref h1 e = deref h e).
  { rewrite (deref_frame n h h1 e (hread h (he_data e)) W); [apply with_data_same| apply O1; unfold c; lia|]. intros l' Hl'. apply O1. unfold c. lia. }
  rewrite Rc. destruct (fget (L "argc") d) as [argc|].
  2:{ split; [rewrite deref_warn, D1; reflexivity|]. split; [apply wf_warn; exact W1|exact A1]. }
  set (h2 := hupd h1 (he_data e) (put (L "argc") argc)).
  assert (L2: length h2 = S c) by (unfold h2; rewrite hupd_length; exact L1).
  assert (W2: wf_ev n h2 e) by (apply (wf_len n h1); auto; lia).
  assert (A2: agree_below n h h2). { eapply agree_trans; [exact A1|]. apply agree_upd. lia. }
  assert (D2: deref h2 e = with_data (deref h e) (put (L "argc") argc (m_data (deref h e)))).
  { unfold h2. rewrite (deref_upd_data n) by exact W1. rewrite D1. f_equal. change (m_data (deref h e)) with (hread h (he_data e)).
    f_equal. apply O1. unfold c. lia. }
  assert (Rc2: hread h2 c = d). { unfold h2. rewrite hread_hupd_other by (unfold c; lia). exact Rc. }
  destruct argc as [|c0 cr].
  { split; [rewrite deref_warn, D2; reflexivity|]. split; [apply wf_warn; exact W2|exact A2]. }
  destruct (read_num digit_of 10 (c0 :: cr) 0%N) as [cnt|].
  2:{ split; [rewrite deref_warn, D2; reflexivity|]. split; [apply wf_warn; exact W2|exact A2]. }
  destruct (N.ltb cnt (2 ^ 32)).
  2:{ split; [rewrite deref_warn, D2; reflexivity|]. split; [apply wf_warn; exact W2|exact A2]. }
  rewrite Rc2.
  pose proof (take_args_h_refines d c (S (length d)) 0%N cnt h2 [] ltac:(lia) ltac:(intros j _; rewrite Rc2; reflexivity)) as St.
  destruct (take_args_h (S (length d)) 0 cnt h2 c []) as [h3 r]. destruct St as (R & Ln & O).
  assert (W3: wf_ev n h3 e) by (apply (wf_len n h2); auto; lia).
  assert (A3: agree_below n h h3). { eapply agree_trans; [exact A2|]. split; [lia|]. intros l' Hl'. apply O. unfold c. lia. }
  assert (D3: deref h3 e = deref h2 e).
  { rewrite (deref_frame n h2 h3 e (hread h2 (he_data e)) W2); [apply with_data_same|apply O; unfold c; lia|]. intros l' Hl'. apply O. unfold c. lia. }
  rewrite <- R. destruct r as [args|].
  - split; [|split; [|exact A3]].
    + unfold deref in *. cbn [with_args he_data he_ids he_sel he_result he_session he_paths he_args he_warn he_src he_dst].
      injection D3 as E1 E2 E3 E4. injection D2 as F1 F2 F3 F4. rewrite E1, E2, E3, E4, F1, F2, F3, F4. reflexivity.
    + destruct W3. constructor; auto.
  - split; [rewrite deref_warn, D3, D2; reflexivity|]. split; [apply wf_warn; exact W3|exact A3].
Qed.

(* ---------- one record of a compound event ---------- *)
Definition rec_valid (n : nat) (r : hrec) : Prop := forall l, hr_data r = Some l -> l < n.
Lemma route_h_refines n h e r : wf_ev n h e -> rec_valid n r ->
  let '(h', e') := route_h (h, e) r in
  deref h' e' = route (deref h e) (to_rec h r) /\ wf_ev n h' e' /\ agree_below n h h'.
Proof.
  intros W Hv. unfold route_h, route. change (is_syscall (to_rec h r)) with (is_syscall_h r).
  destruct (is_syscall_h r). { split; [reflexivity|]. split; [exact W|apply agree_refl]. }
  cbn [to_rec r_data r_type]. destruct (hr_data r) as [l|] eqn:Ed; cbn [option_map].
  2:{ split; [apply deref_warn|]. split; [apply wf_warn; exact W|apply agree_refl]. }
  specialize (Hv l Ed).
  destruct (N.eqb (hr_type r) MsgTypes.AUDIT_PATH).
  { split; [|split; [|apply agree_refl]].
    - unfold deref. cbn [he_data he_ids he_sel he_result he_session he_paths he_args he_warn he_src he_dst]. rewrite map_app. reflexivity.
    - destruct W. constructor; cbn [he_data he_ids he_sel he_paths]; auto. apply Forall_app. split; auto. }
  destruct (N.eqb (hr_type r) MsgTypes.AUDIT_SOCKADDR). { apply add_sockaddr_h_refines; auto. }
  destruct (N.eqb (hr_type r) MsgTypes.AUDIT_EXECVE). { apply add_execve_h_refines; auto. }
  unfold add_fields_h. rewrite add_fields_fold. apply add_fields_h_refines. exact W.
Qed.
Lemma to_rec_agree n h h' r : rec_valid n r -> agree_below n h h' -> to_rec h' r = to_rec h r.
Proof. intros Hv [_ A]. unfold to_rec. destruct (hr_data r) as [l|] eqn:E; cbn [option_map]; auto. rewrite A; auto. Qed.
Lemma routes_h_refine n h0 : forall rs h e, Forall (rec_valid n) rs -> wf_ev n h e -> agree_below n h0 h ->
  let '(h', e') := fold_left route_h rs (h, e) in
  deref h' e' = fold_left route (map (to_rec h0) rs) (deref h e) /\ wf_ev n h' e' /\ agree_below n h0 h'.
Proof.
  induction rs as [|r rs IH]; intros h e Hv W A; cbn [fold_left map].
  - split; [reflexivity|]. split; [exact W|exact A].
  - inversion Hv as [|? ? Hr Hrs]; subst.
    pose proof (route_h_refines n h e r W Hr) as S1. destruct (route_h (h, e) r) as [h1 e1]. destruct S1 as (R1 & W1 & A1).
    assert (A01: agree_below n h0 h1) by (eapply agree_trans; eauto).
    pose proof (IH h1 e1 Hrs W1 A01) as S2. destruct (fold_left route_h rs (h1, e1)) as [h2 e2]. destruct S2 as (R2 & W2 & A2).
    split; [|split; [exact W2|exact A2]]. rewrite R2, R1. rewrite (to_rec_agree n h0 h r Hr A). reflexivity.
Qed.

(* ---------- the record list ---------- *)
Lemma filter_eoe_map h rs : map (to_rec h) (filter_eoe_h rs) = filter_eoe (map (to_rec h) rs).
Proof.
  unfold filter_eoe_h, filter_eoe. rewrite <- map_rev. destruct (rev rs) as [|l front]; cbn [map]; auto.
  change (is_eoe (to_rec h l)) with (is_eoe_h l). destruct (is_eoe_h l); auto. rewrite map_rev. reflexivity.
Qed.
Lemma filter_eoe_h_incl rs r : In r (filter_eoe_h rs) -> In r rs.
Proof.
  unfold filter_eoe_h. destruct (rev rs) as [|l front] eqn:E; auto. destruct (is_eoe_h l); auto.
  intros H. apply in_rev. rewrite E. right. apply in_rev. exact H.
Qed.
Lemma find_map h : forall l, find is_syscall (map (to_rec h) l) = option_map (to_rec h) (find is_syscall_h l).
Proof. induction l as [|r l IH]; cbn [map find]; auto. change (is_syscall (to_rec h r)) with (is_syscall_h r). destruct (is_syscall_h r); auto. Qed.

(* ---------- CoalesceMessages ---------- *)
Theorem coalesce_h_refines h rs : Forall (rec_valid (length h)) rs ->
  let '(h', oe) := coalesce_h h rs in
  option_map (deref h') oe = model_event (map (to_rec h) rs) /\
  agree_below (length h) h h' /\
  match oe with Some e => wf_ev (length h) h' e | None => h' = h end.
Proof.
  intros Hv. unfold coalesce_h, model_event. rewrite <- filter_eoe_map.
  assert (Hv': Forall (rec_valid (length h)) (filter_eoe_h rs)).
  { apply Forall_forall. intros r Hr. rewrite Forall_forall in Hv. apply Hv. apply filter_eoe_h_incl. exact Hr. }
  destruct (filter_eoe_h rs) as [|r1 [|r2 l]] eqn:E; cbn [map].
  - split; [reflexivity|]. split; [apply agree_refl|reflexivity].
  - inversion Hv' as [|? ? Hr1 _]; subst.
    pose proof (new_event_h_refines h false (hr_data r1) Hr1) as S1. destruct (new_event_h h false (hr_data r1)) as [h1 e].
    destruct S1 as (R & W & A & _). split; [|split; [exact A|exact W]]. cbn [option_map]. rewrite R. cbn [to_rec r_data].
    destruct (hr_data r1); reflexivity.
  - set (l2 := r1 :: r2 :: l) in *. change (to_rec h r1 :: to_rec h r2 :: map (to_rec h) l) with (map (to_rec h) l2).
    rewrite find_map. destruct (find is_syscall_h l2) as [sc|] eqn:Ef; cbn [option_map].
    2:{ split; [reflexivity|]. split; [apply agree_refl|reflexivity]. }
    assert (Hsc: rec_valid (length h) sc). { apply find_some in Ef. destruct Ef as [Hin _]. rewrite Forall_forall in Hv'. apply Hv'. exact Hin. }
    pose proof (new_event_h_refines h true (hr_data sc) Hsc) as S1. destruct (new_event_h h true (hr_data sc)) as [h1 e0].
    destruct S1 as (R0 & W0 & A0 & _).
    pose proof (routes_h_refine (length h) h l2 h1 e0 Hv' W0 A0) as S2. destruct (fold_left route_h l2 (h1, e0)) as [h2 e].
    destruct S2 as (R & W & A). split; [|split; [exact A|exact W]]. cbn [option_map]. rewrite R, R0. cbn [to_rec r_data].
    destruct (hr_data sc); reflexivity.
Qed.

(* ---------- what C15 asks, on the heap ---------- *)
(* what a message reports afterwards is what it reported before *)
Theorem coalesce_h_inputs_intact h rs : Forall (rec_valid (length h)) rs ->
  forall r, rec_valid (length h) r -> to_rec (fst (coalesce_h h rs)) r = to_rec h r.
Proof.
  intros Hv r Hr. pose proof (coalesce_h_refines h rs Hv) as S. destruct (coalesce_h h rs) as [h' oe]. destruct S as (_ & A & _).
  apply (to_rec_agree (length h)); auto.
Qed.
(* every event returned earlier reads the same afterwards: all its cells existed before the call *)
Definition ev_below (n : nat) (e : hev) : Prop := he_data e < n /\ he_ids e < n /\ he_sel e < n /\ Forall (fun l => l < n) (he_paths e).
Theorem coalesce_h_isolated h rs e0 : Forall (rec_valid (length h)) rs -> ev_below (length h) e0 ->
  deref (fst (coalesce_h h rs)) e0 = deref h e0.
Proof.
  intros Hv (H1 & H2 & H3 & H4). pose proof (coalesce_h_refines h rs Hv) as S. destruct (coalesce_h h rs) as [h' oe]. destruct S as (_ & [_ A] & _).
  cbn [fst]. unfold deref. rewrite !A by assumption. rewrite (paths_same (length h) h); auto.
Qed.
(* the returned event lives in cells of its own (and the inputs' maps for Paths): it is below the new heap's end *)
Lemma wf_ev_below n h e : wf_ev n h e -> n <= length h -> ev_below (length h) e.
Proof. intros [] Hn. repeat split; try lia. eapply Forall_impl; [|eassumption]. cbn. intros. lia. Qed.
(* coalescing the same messages again, after any number of other calls, gives an equal event *)
Theorem coalesce_h_repeatable h rs h2 : Forall (rec_valid (length h)) rs -> agree_below (length h) h h2 ->
  let '(ha, ea) := coalesce_h h rs in
  let '(hb, eb) := coalesce_h h2 rs in
  option_map (deref hb) eb = option_map (deref ha) ea.
Proof.
  intros Hv A. assert (Hv2: Forall (rec_valid (length h2)) rs).
  { eapply Forall_impl; [|exact Hv]. intros r Hr l Hl. specialize (Hr l Hl). destruct A. lia. }
  pose proof (coalesce_h_refines h rs Hv) as S1. destruct (coalesce_h h rs) as [ha ea]. destruct S1 as (R1 & _).
  pose proof (coalesce_h_refines h2 rs Hv2) as S2. destruct (coalesce_h h2 rs) as [hb eb]. destruct S2 as (R2 & _).
  rewrite R1, R2. f_equal. apply map_ext_in. intros r Hr. rewrite Forall_forall in Hv. apply (to_rec_agree (length h)); auto.
Qed.
(* any sequence of calls: the heap only grows and never changes below its earlier end *)
Fixpoint run_calls (h : heap) (calls : list (list hrec)) : heap :=
  match calls with [] => h | rs :: rest => run_calls (fst (coalesce_h h rs)) rest end.
Theorem run_calls_frame : forall calls h, Forall (Forall (rec_valid (length h))) calls -> agree_below (length h) h (run_calls h calls).
Proof.
  induction calls as [|rs rest IH]; intros h Hv; cbn [run_calls]; [apply agree_refl|].
  inversion Hv as [|? ? Hrs Hrest]; subst.
  pose proof (coalesce_h_refines h rs Hrs) as S. destruct (coalesce_h h rs) as [h1 oe]. destruct S as (_ & A & _). cbn [fst].
  assert (Hv1: Forall (Forall (rec_valid (length h1))) rest).
  { eapply Forall_impl; [|exact Hrest]. intros rs' H'. eapply Forall_impl; [|exact H']. intros r Hr l Hl. specialize (Hr l Hl). destruct A. lia. }
  specialize (IH h1 Hv1). destruct A as [L1 A1]. destruct IH as [L2 A2]. split; [lia|]. intros l Hl. rewrite A2 by lia. apply A1. exact Hl.
Qed.
Print Assumptions coalesce_h_refines.
Print Assumptions coalesce_h_repeatable.
Print Assumptions run_calls_frame.

(* ---------- the theorems are about the writes: the pinned tree's newEvent, which deleted from the map
   Data() returned instead of from a copy, fails them ---------- *)
Definition new_event_h_pinned (h : heap) (sys : bool) (l : loc) : heap :=
  let h5 := if sys then hupd h l (del (L "items")) else h in
  hupd (hupd h5 l (del (L "result"))) l (del (L "ses")).
Example pinned_variant_changes_its_input :
  let h := [[(L "result", L "success"); (L "pid", L "1")]] in
  hread (new_event_h_pinned h false 0) 0 <> hread h 0 /\
  hread (fst (new_event_h h false (Some 0))) 0 = hread h 0.
Proof. split; [discriminate|reflexivity]. Qed.
