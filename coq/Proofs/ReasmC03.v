(* Check/ChkC03.v + proof (prototype) — EventsLost equals the skipped sequence numbers, reported in the same call. *)
From Coq Require Import List ZArith Bool Lia Permutation.
Import ListNotations.
Require Import Reassembler ReasmInv ReasmC01.
Open Scope Z_scope.

(* the checker's own notion of order: serial-number arithmetic on uint32 *)
Definition ahead (a b : Z) : bool := let d := (b - a) mod 2^32 in (1 <=? d) && (d <? 2^31).
Definition gap (a b : Z) : Z := (b - a) mod 2^32 - 1.

(* replay deliveries: last = None until the first delivery *)
Definition contrib (last : option Z) (s : Z) : Z * option Z :=
  match last with
  | None => (0, Some s)
  | Some l => if ahead l s then (gap l s, Some s) else (0, Some l)
  end.
Fixpoint replay (last : option Z) (outs : list out) (acc : Z) : option (Z * option Z * list out) :=
  match outs with
  | Complete (m0 :: g) :: r => let '(c, last') := contrib last (mseq m0) in replay last' r (acc + c)
  | Complete [] :: _ => None
  | rest => Some (acc, last, rest)                 (* first non-Complete output: the rest of the call *)
  end.
Definition lost_part (rest : list out) : list Z := flat_map (fun o => match o with Lost n => [n] | _ => [] end) rest.
Definition no_complete (rest : list out) : bool := forallb (fun o => match o with Complete _ => false | _ => true end) rest.

Definition chk_call (last : option Z) (outs : list out) : option (option Z) :=
  match replay last outs 0 with
  | None => None
  | Some (e, last', rest) =>
      if no_complete rest && (match lost_part rest with
                              | [] => e <=? 0
                              | [n] => (0 <? e) && (n =? e)
                              | _ => false end)
      then Some last' else None
  end.
Fixpoint chk_C03 (last : option Z) (tr : list (list out)) : bool :=
  match tr with
  | [] => true
  | outs :: r => match chk_call last outs with Some last' => chk_C03 last' r | None => false end
  end.

(* ---------- proof ---------- *)
Definition last_of (s : state) : option Z := if hasLast s then Some (lastSeq s) else None.

Lemma advance_contrib last has sq : advance last has sq =
  (let '(c, l') := contrib (if has then Some last else None) sq in
   (c, match l' with Some l => l | None => 0 end, true)).
Proof.
  unfold advance, contrib, ahead, gap, w32. destruct has; cbn [negb]; auto.
  set (d := (sq - last) mod 2^32).
  assert (0 <= d < 2^32) by (apply Z.mod_pos_bound; lia).
  destruct (d =? 0) eqn:E0; destruct (d >=? 2^31) eqn:E1; cbn [orb];
    destruct (1 <=? d) eqn:E2; destruct (d <? 2^31) eqn:E3; cbn [andb]; auto; lia.
Qed.

Lemma replay_app_nc outs rest last acc : no_complete rest = true ->
  forall e l r, replay last outs acc = Some (e, l, r) -> r = [] -> replay last (outs ++ rest) acc = Some (e, l, rest).
Proof.
  intros Hnc. revert last acc. induction outs as [|o outs IH]; intros last acc e l r H Hr; cbn [app].
  - cbn in H. inversion H; subst. destruct rest as [|o r']; auto. destruct o; cbn in Hnc; try discriminate; auto.
  - destruct o as [[|m0 g]| | |]; cbn in H |- *; try discriminate; try (inversion H; subst; discriminate).
    destruct (contrib last (mseq m0)) as [c l']. eapply IH; eauto.
Qed.

(* evict emits only Completes, each with the evicted sequence at its head, and its lost total is the replay sum *)
Lemma evict_replay force c now : forall sqs em last has U, InvL U sqs em ->
  let '(sqs', em', last', has', outs, lost) := evict force c now sqs em last has in
  forall acc, replay (if has then Some last else None) outs acc = Some (acc + lost, (if has' then Some last' else None), [])
  /\ (has = true -> has' = true).
Proof.
  induction sqs as [|sq rest IH]; intros em last has U HI; cbn [evict].
  - intros acc. cbn. split; auto. f_equal. f_equal. f_equal. lia.
  - destruct HI as (Hnd & Hin & Hmsgs & HU).
    destruct (lookup sq em) as [e|] eqn:El; [|exfalso; apply (proj1 (Hin sq)); auto; left; auto].
    destruct (force || complete e || (Z.of_nat (length (sq :: rest)) >? maxSize c) || (now >? expire e)) eqn:Ec.
    + rewrite advance_contrib. destruct (contrib (if has then Some last else None) sq) as [cc l'] eqn:Ecn.
      destruct (Hmsgs _ _ El) as [Hm Hne].
      set (U1 := filter (fun m => negb (sameseq sq m)) U).
      assert (HI1: InvL U1 rest (remove sq em)).
      { inversion Hnd as [|? ? Hnotin Hnd']; subst. repeat split; auto.
        - intros H. rewrite lookup_remove_other. apply Hin; right; auto. intros ->; contradiction.
        - intros H. destruct (Z.eq_dec k sq) as [->|N]. rewrite lookup_remove_same in H; congruence.
          rewrite lookup_remove_other in H by auto. apply Hin in H. destruct H; auto. congruence.
        - destruct (Z.eq_dec k sq) as [->|N]. rewrite lookup_remove_same in H; congruence.
          rewrite lookup_remove_other in H by auto. unfold U1. rewrite filter_filter_other by auto. apply (Hmsgs _ _ H).
        - destruct (Z.eq_dec k sq) as [->|N]. rewrite lookup_remove_same in H; congruence.
          rewrite lookup_remove_other in H by auto. apply (Hmsgs _ _ H).
        - intros m Hm'. unfold U1 in Hm'. apply filter_In in Hm'. destruct Hm' as [HmU Hneq].
          apply HU in HmU. destruct HmU as [E|]; auto. unfold sameseq in Hneq. rewrite <- E, Z.eqb_refl in Hneq. discriminate. }
      specialize (IH (remove sq em) (match l' with Some l => l | None => 0 end) true U1 HI1).
      destruct (evict force c now rest (remove sq em) _ true) as [[[[[sqs' em'] last''] has''] outs] lost].
      intros acc. destruct (msgs e) as [|m0 g] eqn:Eg; [congruence|].
      assert (Hm0: mseq m0 = sq).
      { assert (In m0 (filter (sameseq sq) U)) by (rewrite <- Hm; left; auto).
        apply filter_In in H. destruct H as [_ H]. unfold sameseq in H. apply Z.eqb_eq in H. auto. }
      cbn [replay]. rewrite Hm0, Ecn.
      assert (Hl': l' <> None) by (unfold contrib in Ecn; destruct has; [destruct (ahead last sq)|]; inversion Ecn; discriminate).
      destruct l' as [l|]; [|congruence]. destruct (IH (acc + cc)) as [IH1 IH2]. split.
      { rewrite IH1. f_equal. f_equal. f_equal. lia. }
      { intros _. apply IH2; auto. }
    + intros acc. cbn. split; auto. f_equal. f_equal. f_equal. lia.
Qed.

Lemma cleanup_chk force c now s U : InvL U (seqs s) (events s) ->
  let '(s', outs) := cleanup force c now s in
  forall tail, no_complete tail = true -> lost_part tail = [] ->
    chk_call (last_of s) (outs ++ tail) = Some (last_of s').
Proof.
  intros HI. unfold cleanup, last_of. pose proof (evict_replay force c now (seqs s) (events s) (lastSeq s) (hasLast s) U HI) as H.
  destruct (evict force c now (seqs s) (events s) (lastSeq s) (hasLast s)) as [[[[[sqs' em'] last'] has'] outs] lost].
  intros tail Hnc Hlp. destruct (H 0) as [Hr _]. cbn [hasLast lastSeq]. unfold chk_call. rewrite <- app_assoc.
  rewrite (replay_app_nc outs _ _ 0 ) with (e := 0 + lost) (l := if has' then Some last' else None) (r := []); auto.
  - destruct (lost >? 0) eqn:E; cbn [app].
    + change (no_complete (Lost lost :: tail)) with (no_complete tail). change (lost_part (Lost lost :: tail)) with (lost :: lost_part tail).
      rewrite Hnc, Hlp. replace (0 <? 0 + lost) with true by lia. replace (lost =? 0 + lost) with true by lia. auto.
    + rewrite Hnc, Hlp. replace (0 + lost <=? 0) with true by lia. auto.
  - destruct (lost >? 0); cbn; auto.
Qed.

Lemma put_last c now m s : last_of (put c now m s) = last_of s.
Proof. unfold put, last_of. destruct (lookup _ _); destruct (mty m =? _); auto. Qed.

Theorem run_chk_C03 : forall c ops s U, InvL U (seqs s) (events s) -> chk_C03 (last_of s) (run c s ops) = true.
Proof.
  intros c. induction ops as [|o ops IH]; intros s U HI; cbn [run chk_C03]; auto.
  destruct o as [[m|] now now2 | now | ]; cbn [step].
  - pose proof (put_inv c now now2 m s U HI) as HP.
    pose proof (cleanup_chk false c now2 (put c now m s) _ HP) as HC. pose proof (cleanup_ok false c now2 (put c now m s) _ HP) as HO.
    destruct (cleanup false c now2 (put c now m s)) as [s' outs]. destruct HO as (U' & _ & HI' & _ & _).
    specialize (HC [] eq_refl eq_refl). rewrite app_nil_r, put_last in HC. cbn [chk_C03]. rewrite HC. eapply IH; eauto.
  - cbn [chk_C03]. cbn. eapply IH; eauto.
  - destruct (closed s).
    + cbn [chk_C03]. cbn. eapply IH; eauto.
    + pose proof (cleanup_chk false c now s U HI) as HC. pose proof (cleanup_ok false c now s U HI) as HO.
      destruct (cleanup false c now s) as [s' outs]. destruct HO as (U' & _ & HI' & _ & _).
      specialize (HC [Ret true] eq_refl eq_refl). cbn [chk_C03]. rewrite HC. eapply IH; eauto.
  - destruct (closed s) eqn:Ecl.
    + cbn [chk_C03]. cbn. eapply IH; eauto.
    + set (s1 := {| seqs := seqs s; events := events s; lastSeq := lastSeq s; hasLast := hasLast s; closed := true |}).
      pose proof (cleanup_chk true c 0 s1 U HI) as HC. pose proof (cleanup_ok true c 0 s1 U HI) as HO.
      destruct (cleanup true c 0 s1) as [s' outs]. destruct HO as (U' & _ & HI' & _ & _).
      specialize (HC [Ret true] eq_refl eq_refl). cbn [chk_C03]. unfold last_of in HC at 1. cbn [hasLast lastSeq s1] in HC. fold (last_of s) in HC.
      rewrite HC. eapply IH; eauto.
Qed.
Theorem C03_lost_exact : forall c ops, chk_C03 None (run c init ops) = true.
Proof. intros. apply (run_chk_C03 c ops init []). apply InvL_init. Qed.
Print Assumptions C03_lost_exact.
