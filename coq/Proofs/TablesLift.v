(* Proofs/TablesLift.v — lifting "the list of offending entries is empty" to
   quantified statements. *)
From Coq Require Import List NArith ZArith Bool String Lia.
Require Import Bytes Tables.
Import ListNotations.

Lemma filter_nil_forall {A} (f : A -> bool) l : filter (fun x => negb (f x)) l = [] -> forall x, In x l -> f x = true.
Proof.
  induction l as [|y r IH]; cbn; intros H x Hin; [contradiction|].
  destruct (f y) eqn:E; cbn in H; [|discriminate]. destruct Hin as [<-|Hin]; auto.
Qed.

Lemma in_flat_pairs {A B} (l : list (A * list B)) a t x :
  In (a, t) l -> In x t -> In (a, x) (flat_map (fun e => map (fun x => (fst e, x)) (snd e)) l).
Proof. intros H1 H2. apply in_flat_map. exists (a, t). split; auto. cbn. apply in_map; auto. Qed.

Lemma In_all_types t : (t < 65536)%N -> In t all_types.
Proof. intros H. unfold all_types. apply In_upto; exact H. Qed.

Lemma optN_eqb_eq a b : optN_eqb a b = true -> a = Some b.
Proof. destruct a; cbn; [|discriminate]. intros H. apply N.eqb_eq in H. congruence. Qed.
Lemma optZ_eqb_eq a b : optZ_eqb a b = true -> a = Some b.
Proof. destruct a; cbn; [|discriminate]. intros H. apply Z.eqb_eq in H. congruence. Qed.
Lemma optS_eqb_eq a b : optS_eqb a b = true -> a = Some b.
Proof. destruct a; cbn; [|discriminate]. intros H. apply String.eqb_eq in H. congruence. Qed.
