(* Proofs/ParseExecve.v — EXECVE: every argument a0 .. a(argc-1) is decoded when it is hex, kept otherwise,
   and nothing else changes. *)
From Coq Require Import List Ascii String NArith ZArith Bool Arith Lia ZifyNat ZifyN.
Import ListNotations.
Require Import Bytes Dec KV Trim Header Parser ParseProofs ParseBody ParseEnrich.
Require Hex.
Local Close Scope N_scope.
Local Open Scope string_scope.
Local Open Scope list_scope.

Definition akey (i : N) : str := L "a" ++ Dec.dec i.
Lemma akey_inj i j : akey i = akey j -> i = j.
Proof.
  unfold akey. intros H. apply app_inv_head in H. pose proof (Dec.parse_dec_dec i) as Hi. pose proof (Dec.parse_dec_dec j) as Hj.
  rewrite H in Hi. congruence.
Qed.
Definition decoded (orig v : str) : str := match hex_to_string orig with Some a => a | None => v end.

Lemma loop_spec : forall fuel i count m, (N.to_nat (count - i) <= fuel)%nat ->
  (forall j, (i <= j < count)%N -> kv_get (akey j) m <> None) ->
  exists m', execve_loop fuel i count m = Some m' /\
    (forall k, (forall j, (i <= j < count)%N -> k <> akey j) -> kv_get k m' = kv_get k m) /\
    (forall j orig v, (i <= j < count)%N -> kv_get (akey j) m = Some (orig, v) -> kv_get (akey j) m' = Some (orig, decoded orig v)).
Proof.
  induction fuel as [|fuel IH]; intros i count m Hf Hall.
  - exists m. cbn [execve_loop]. split; auto. split; auto. intros j orig v Hj. lia.
  - cbn [execve_loop]. destruct (count <=? i)%N eqn:Ec.
    + exists m. split; auto. split; auto. intros j orig v Hj. apply N.leb_le in Ec. lia.
    + apply N.leb_gt in Ec. fold (akey i). destruct (kv_get (akey i) m) as [[orig v]|] eqn:Eg. 2:{ exfalso. apply (Hall i); auto. lia. }
      set (m1 := match hex_to_string orig with Some a => kv_setval (akey i) a m | None => m end).
      assert (H1: forall k, k <> akey i -> kv_get k m1 = kv_get k m).
      { intros k Hk. unfold m1. destruct (hex_to_string orig); auto. apply kv_get_setval_other. exact Hk. }
      assert (H2: kv_get (akey i) m1 = Some (orig, decoded orig v)).
      { unfold m1, decoded. destruct (hex_to_string orig); auto. unfold kv_setval. rewrite Eg. apply kv_get_add_same. }
      destruct (IH (i + 1)%N count m1) as (m' & Hrun & Hother & Hargs).
      * lia.
      * intros j Hj. rewrite H1. apply Hall. lia. intros C. apply akey_inj in C. lia.
      * exists m'. split; [exact Hrun|]. split.
        -- intros k Hk. rewrite Hother. apply H1. apply Hk. lia. intros j Hj. apply Hk. lia.
        -- intros j o' v' Hj Hget. destruct (N.eq_dec j i) as [->|Hne].
           ++ rewrite Eg in Hget. injection Hget as <- <-. rewrite Hother. exact H2. intros j Hj' C. apply akey_inj in C. lia.
           ++ apply Hargs. lia. rewrite H1. exact Hget. intros C. apply akey_inj in C. contradiction.
Qed.

(* do_execve: argc numeric and every argument present *)
Theorem execve_arguments m o argc count : kv_get (L "argc") m = Some (o, argc) -> argc <> [] ->
  read_num digit_of 10 argc 0%N = Some count -> (count < 2 ^ 32)%N -> (N.to_nat count <= List.length m)%nat ->
  (forall j, (j < count)%N -> kv_get (akey j) m <> None) ->
  exists m', do_execve m = Some m' /\
    (forall k, (forall j, (j < count)%N -> k <> akey j) -> kv_get k m' = kv_get k m) /\
    (forall j orig v, (j < count)%N -> kv_get (akey j) m = Some (orig, v) -> kv_get (akey j) m' = Some (orig, decoded orig v)).
Proof.
  intros Ha Hne Hr Hc Hlen Hall. unfold do_execve. rewrite Ha, Hr. destruct argc as [|c0 cr]; [contradiction|].
  replace (count <? 2 ^ 32)%N with true by (symmetry; apply N.ltb_lt; exact Hc).
  destruct (loop_spec (S (List.length m)) 0%N count m) as (m' & Hrun & Hother & Hargs).
  - lia.
  - intros j Hj. apply Hall. lia.
  - exists m'. split; [exact Hrun|]. split.
    + intros k Hk. apply Hother. intros j Hj. apply Hk. lia.
    + intros j orig v Hj. apply Hargs. lia.
Qed.

(* a hex argument decodes to the bytes before its first NUL *)
Lemma decoded_hex bs v : forallb (fun x => negb (Ascii.eqb x nul)) bs = true -> decoded (Hex.hex_upper bs) v = bs.
Proof.
  intros H. unfold decoded, hex_to_string, hex_decode. rewrite Hex.decode_hex_roundtrip. cbn [option_map].
  assert (E: split_on nul bs [] = [bs]).
  { clear v. assert (G: forall s cur, forallb (fun x => negb (Ascii.eqb x nul)) s = true -> split_on nul s cur = [rev cur ++ s]).
    { induction s as [|x r IH]; intros cur Hs; cbn [split_on]. rewrite app_nil_r; reflexivity.
      cbn [forallb] in Hs. apply andb_prop in Hs. destruct Hs as [H1 H2]. apply negb_true_iff in H1. rewrite H1, IH by auto. cbn [rev]. rewrite <- app_assoc. reflexivity. }
    apply G. exact H. }
  rewrite E. reflexivity.
Qed.
Print Assumptions execve_arguments.
Print Assumptions decoded_hex.
