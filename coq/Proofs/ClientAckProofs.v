(* Proofs/ClientAckProofs.v — the pending-ACK list of the model for EVERY kernel script, inside the fault model or not:
   a request leaves the list exactly when a message carrying its number was delivered to WaitForPendingACKs.
   The right-hand side is the checker's own reading (Check/ChkClient.after_wait), so the theorem also says that the
   bookkeeping clause of the C17 checker accepts every run of the model. *)
From Coq Require Import List Ascii NArith ZArith Bool Lia.
Import ListNotations.
Require Import Mach AuditConsts MsgTypes AuditClient Uapi ChkClient RuleWire.
Open Scope N_scope.

(* events WaitForPendingACKs reads past while it waits for request q *)
Definition skip_ev (q : N) (ev : revent) : Prop :=
  match ev with RErr _ => True | RMsg _ sq _ => sq = 0 /\ q <> 0 | RNone => False end.

Lemma after_wait_skips q rest pre u : Forall (skip_ev q) pre -> after_wait (pre ++ u) (q :: rest) = after_wait u (q :: rest).
Proof.
  induction 1 as [|ev pre Hev _ IH]; [reflexivity|].
  destruct ev as [e|ty sq d|]; cbn [app after_wait].
  - exact IH.
  - destruct Hev as [-> Hq]. apply N.eqb_neq in Hq. rewrite Hq. cbn [N.eqb andb negb]. exact IH.
  - destruct Hev.
Qed.

Definition is_err (ev : revent) : Prop := exists e, ev = RErr e.
Lemma errs_skip q errs : Forall is_err errs -> Forall (skip_ev q) errs.
Proof. intros H. eapply Forall_impl; [|exact H]. intros ev [e ->]. exact I. Qed.

Lemma recv_retry_shape k : forall script oe om r, recv_retry k script = ((oe, om), r) ->
  exists errs, Forall is_err errs /\
   ((exists e, oe = Some (ERecv e) /\ script = errs ++ RErr e :: r) \/
    (exists ty sq d, oe = None /\ om = Some (ty, sq, d) /\ script = errs ++ RMsg ty sq d :: r) \/
    (oe = None /\ om = None /\ (script = errs ++ r \/ script = errs ++ RNone :: r))).
Proof.
  induction k as [|k IH]; intros script oe om r H; cbn [recv_retry] in H.
  - injection H as <- <- <-. exists []. split; [constructor|]. right. right. auto.
  - destruct script as [|ev script].
    + injection H as <- <- <-. exists []. split; [constructor|]. right. right. auto.
    + destruct ev as [e|ty sq d|].
      * destruct (Z.eqb e EINTR || Z.eqb e EAGAIN).
        -- destruct (IH _ _ _ _ H) as (errs & He & Hs). exists (RErr e :: errs). split; [constructor; [exists e; reflexivity|exact He]|].
           destruct Hs as [(e' & -> & ->)|[(ty & sq & d & -> & -> & ->)|(-> & -> & [->| ->])]].
           ++ left. exists e'. auto.
           ++ right. left. exists ty, sq, d. auto.
           ++ right. right. auto.
           ++ right. right. auto.
        -- injection H as <- <- <-. exists []. split; [constructor|]. left. exists e. auto.
      * injection H as <- <- <-. exists []. split; [constructor|]. right. left. exists ty, sq, d. auto.
      * injection H as <- <- <-. exists []. split; [constructor|]. right. right. auto.
Qed.

Lemma same_q_not_skipped q : (q =? 0) && negb (q =? 0) = false.
Proof. destruct (q =? 0); reflexivity. Qed.

(* getReply failed: whatever it took from the script, no message for q was among it *)
Lemma get_reply_err fuel : forall q script e r rest, get_reply fuel q script = (inl e, r) ->
  exists used, script = used ++ r /\ after_wait used (q :: rest) = q :: rest.
Proof.
  induction fuel as [|f IH]; intros q script e r rest H; cbn [get_reply] in H.
  - injection H as _ <-. exists []. split; reflexivity.
  - destruct (recv_retry 10 script) as [[oe om] r1] eqn:E.
    destruct (recv_retry_shape _ _ _ _ _ E) as (errs & He & Hs). apply (errs_skip q) in He.
    destruct Hs as [(e' & -> & ->)|[(ty & sq & d & -> & -> & ->)|(-> & -> & Hs)]].
    + injection H as _ <-. exists (errs ++ [RErr e']). split; [rewrite <- app_assoc; reflexivity|].
      rewrite after_wait_skips by exact He. reflexivity.
    + destruct ((sq =? 0) && negb (q =? 0)) eqn:Esk.
      * destruct (IH _ _ _ _ rest H) as (used & -> & Hu). exists (errs ++ RMsg ty sq d :: used). split; [rewrite <- app_assoc; reflexivity|].
        rewrite after_wait_skips by exact He. cbn [after_wait]. rewrite Esk. exact Hu.
      * destruct (sq =? q) eqn:Eq; [discriminate|]. injection H as _ <-.
        exists (errs ++ [RMsg ty sq d]). split; [rewrite <- app_assoc; reflexivity|].
        rewrite after_wait_skips by exact He. cbn [after_wait]. rewrite Esk, Eq. reflexivity.
    + injection H as _ <-. destruct Hs as [->| ->].
      * exists errs. split; [reflexivity|]. rewrite <- (app_nil_r errs) at 1. rewrite after_wait_skips by exact He. reflexivity.
      * exists (errs ++ [RNone]). split; [rewrite <- app_assoc; reflexivity|]. rewrite after_wait_skips by exact He. reflexivity.
Qed.

(* getReply succeeded: it read past skippable events only and delivered a message carrying q *)
Lemma get_reply_ok fuel : forall q script ty sq d r, get_reply fuel q script = (inr (ty, sq, d), r) ->
  sq = q /\ exists pre, Forall (skip_ev q) pre /\ script = pre ++ RMsg ty q d :: r.
Proof.
  induction fuel as [|f IH]; intros q script ty sq d r H; cbn [get_reply] in H; [discriminate|].
  destruct (recv_retry 10 script) as [[oe om] r1] eqn:E.
  destruct (recv_retry_shape _ _ _ _ _ E) as (errs & He & Hs). apply (errs_skip q) in He.
  destruct Hs as [(e' & -> & ->)|[(ty1 & sq1 & d1 & -> & -> & ->)|(-> & -> & Hs)]]; try discriminate.
  destruct ((sq1 =? 0) && negb (q =? 0)) eqn:Esk.
  - destruct (IH _ _ _ _ _ _ H) as (-> & pre & Hp & ->). split; [reflexivity|].
    exists (errs ++ RMsg ty1 sq1 d1 :: pre). split; [|rewrite <- app_assoc; reflexivity].
    apply Forall_app. split; [exact He|]. constructor; [|exact Hp].
    apply andb_true_iff in Esk. destruct Esk as [A B]. apply N.eqb_eq in A. apply negb_true_iff, N.eqb_neq in B. split; assumption.
  - destruct (sq1 =? q) eqn:Eq; [|discriminate]. injection H as <- <- <- <-. apply N.eqb_eq in Eq. subst sq1.
    split; [reflexivity|]. exists errs. split; [exact He|reflexivity].
Qed.

Lemma s32u_zero w : w < 2^32 -> (Z.eqb (s32u w) 0 = (w =? 0)).
Proof.
  intros H. change (2^32) with 4294967296 in H. unfold s32u. destruct (w <? 2147483648) eqn:E.
  - destruct (N.eqb_spec w 0) as [->|Hn]; [reflexivity|]. apply Z.eqb_neq. lia.
  - apply N.ltb_ge in E. destruct (N.eqb_spec w 0) as [->|Hn]; [lia|]. apply Z.eqb_neq. lia.
Qed.

(* the message that answers q, as the checker reads it, against check_ack of the model *)
Lemma after_wait_answer q rest ty d u :
  after_wait (RMsg ty q d :: u) (q :: rest) =
  match check_ack (inr (ty, q, d)) with None => after_wait u rest | Some _ => rest end.
Proof.
  cbn [after_wait]. rewrite same_q_not_skipped, N.eqb_refl. cbn [check_ack].
  change UAPI_NLMSG_ERROR with NLMSG_ERROR. destruct (ty =? NLMSG_ERROR); [|reflexivity].
  unfold parse_netlink_error. destruct (rd32 d) as [[w r]|] eqn:E.
  - destruct (rd32_uword _ _ _ E) as [Hw _]. destruct (rd32_bound _ _ _ E) as [Hb _].
    destruct d as [|a [|b [|c [|e d']]]]; try discriminate.
    rewrite <- Hw. rewrite s32u_zero by exact Hb. destruct (w =? 0); reflexivity.
  - destruct d as [|a [|b [|c [|e d']]]]; try reflexivity. discriminate.
Qed.

(* WaitForPendingACKs of the model on any script: the part of the script it used determines the list it leaves *)
Theorem wait_acks_pending s : forall todo script s' rest e, wait_acks s script todo = (s', rest, e) ->
  exists used, script = used ++ rest /\ pending s' = after_wait used todo.
Proof.
  induction todo as [|q todo IH]; intros script s' rest e H; cbn [wait_acks] in H.
  - injection H as <- <- _. exists []. split; reflexivity.
  - unfold reply in H. destruct (get_reply (S (length script)) q script) as [[e1|[[ty sq] d]] r] eqn:E.
    + injection H as <- <- _. destruct (get_reply_err _ _ _ _ _ todo E) as (used & -> & Hu). exists used. split; [reflexivity|].
      cbn [pending]. symmetry. exact Hu.
    + destruct (get_reply_ok _ _ _ _ _ _ _ E) as (-> & pre & Hp & ->).
      pose proof (after_wait_answer q todo ty d) as HA.
      destruct (check_ack (inr (ty, q, d))) as [e1|] eqn:Ec.
      * injection H as <- <- _. exists (pre ++ [RMsg ty q d]). split; [rewrite <- app_assoc; reflexivity|].
        rewrite after_wait_skips by exact Hp. rewrite HA. reflexivity.
      * destruct (IH _ _ _ _ H) as (used & -> & Hu). exists (pre ++ RMsg ty q d :: used). split; [rewrite <- app_assoc; reflexivity|].
        rewrite after_wait_skips by exact Hp. rewrite HA. exact Hu.
Qed.

(* read back: the list left is a tail of the list found - requests leave from the front, in order, none is skipped *)
Lemma after_wait_suffix : forall used todo, exists gone, todo = gone ++ after_wait used todo.
Proof.
  induction used as [|ev used IH]; intros todo.
  - exists []. destruct todo; reflexivity.
  - destruct todo as [|q rest]; [exists []; reflexivity|].
    destruct ev as [e|ty sq d|]; cbn [after_wait].
    + apply IH.
    + destruct ((sq =? 0) && negb (q =? 0)); [apply IH|].
      destruct (sq =? q); [|exists []; reflexivity].
      assert (Hr : exists gone, q :: rest = gone ++ rest) by (exists [q]; reflexivity).
      destruct (ty =? UAPI_NLMSG_ERROR); [|exact Hr].
      destruct d as [|a [|b [|c [|x d']]]]; try exact Hr.
      destruct (Z.eqb _ 0); [|exact Hr].
      destruct (IH rest) as (gone & Hg). exists (q :: gone). cbn [app]. f_equal. exact Hg.
    + exists []. reflexivity.
Qed.

(* nothing delivered, nothing forgotten: a call that took no message for the head request leaves the list as it was *)
Lemma after_wait_nothing_for q rest used :
  Forall (fun ev => match ev with RMsg _ sq _ => sq <> q | _ => True end) used -> after_wait used (q :: rest) = q :: rest.
Proof.
  induction 1 as [|ev used Hev _ IH]; [reflexivity|].
  destruct ev as [e|ty sq d|]; cbn [after_wait]; [exact IH| |reflexivity].
  destruct ((sq =? 0) && negb (q =? 0)); [exact IH|]. apply N.eqb_neq in Hev. rewrite Hev. reflexivity.
Qed.

(* ---------- success only with acknowledgement, for every script ---------- *)
Lemma existsb_mid {A} (f : A -> bool) pre x post : f x = true -> existsb f (pre ++ x :: post) = true.
Proof. intros H. rewrite existsb_app. cbn [existsb]. rewrite H. apply orb_true_iff. right. reflexivity. Qed.

(* whatever the kernel script holds: when the reply getReply hands back passes the ACK check, the script contains an
   NLMSG_ERROR message with this request's number and errno 0 *)
Theorem success_only_if_acked q script r rest : reply q script = (r, rest) -> check_ack r = None -> acked0_somewhere q script = true.
Proof.
  unfold reply. intros H Hc. destruct r as [e|[[ty sq] d]]; [discriminate|].
  destruct (get_reply_ok _ _ _ _ _ _ _ H) as (-> & pre & _ & ->).
  cbn [check_ack] in Hc. destruct (ty =? NLMSG_ERROR) eqn:Et; [|discriminate].
  unfold parse_netlink_error in Hc. destruct (rd32 d) as [[w r1]|] eqn:E; [|discriminate].
  destruct (w =? 0) eqn:Ew; [|discriminate]. apply N.eqb_eq in Ew. subst w.
  destruct (rd32_uword _ _ _ E) as [Hw _].
  unfold acked0_somewhere. apply existsb_mid. rewrite N.eqb_refl. change UAPI_NLMSG_ERROR with NLMSG_ERROR. rewrite Et. rewrite <- Hw.
  destruct d as [|a [|b [|c [|x d']]]]; try discriminate. reflexivity.
Qed.

Lemma do_send_script s w : let '(_, w1, _, _) := do_send s w in rscript w1 = rscript w.
Proof. unfold do_send. destruct (sfaults w); reflexivity. Qed.

(* a Set* call in WaitForReply mode returns nil only if the kernel script acknowledges its request with errno 0 *)
Theorem set_nil_only_if_acked s w k v s' w' ws : cset s w k v true = (s', w', ROk, ws) ->
  acked0_somewhere ((nseq s + 1) mod 2^32) (rscript w) = true.
Proof.
  unfold cset. set (s0 := match k with SPID => _ | _ => s end).
  assert (Hn : nseq s0 = nseq s) by (destruct k; reflexivity).
  pose proof (do_send_script s0 w) as Hs. unfold do_send in *. rewrite Hn in *.
  destruct (sfaults w) as [|f fs]; cbn [rscript] in *.
  - destruct (reply ((nseq s + 1) mod 2 ^ 32) (rscript w)) as [r rest] eqn:E. intros H.
    destruct (check_ack r) eqn:Ec; [discriminate|]. exact (success_only_if_acked _ _ _ _ E Ec).
  - destruct f as [e|]; [discriminate|].
    destruct (reply ((nseq s + 1) mod 2 ^ 32) (rscript w)) as [r rest] eqn:E. intros H.
    destruct (check_ack r) eqn:Ec; [discriminate|]. exact (success_only_if_acked _ _ _ _ E Ec).
Qed.

(* AddRule / DeleteRule: no error only if acknowledged *)
Theorem ack_cmd_nil_only_if_acked s w ty data s' w' ws : ack_cmd s w ty data = (s', w', None, ws) ->
  acked0_somewhere ((nseq s + 1) mod 2^32) (rscript w) = true.
Proof.
  unfold ack_cmd, do_send. destruct (sfaults w) as [|f fs]; cbn [rscript].
  - destruct (reply ((nseq s + 1) mod 2 ^ 32) (rscript w)) as [r rest] eqn:E. intros H. injection H as _ _ Hc _.
    exact (success_only_if_acked _ _ _ _ E Hc).
  - destruct f as [e|]; [discriminate|].
    destruct (reply ((nseq s + 1) mod 2 ^ 32) (rscript w)) as [r rest] eqn:E. intros H. injection H as _ _ Hc _.
    exact (success_only_if_acked _ _ _ _ E Hc).
Qed.
