(* Proofs/NormProofs.v — setFileObject: the file summary mirrors one PATH record of the event. *)
From Coq Require Import List Ascii String NArith ZArith Bool Arith Lia ZifyNat.
Import ListNotations.
Require Import Bytes KV Parser MsgType Norms ChkCoalesce ChkNorm CoalesceProofs.
Local Close Scope N_scope.
Local Open Scope string_scope.
Local Open Scope nat_scope.
Local Open Scope list_scope.

Lemma selected_in paths hint : paths <> [] -> In (selected paths hint) paths.
Proof.
  intros Hne. unfold selected. set (idx := if (Z.of_nat (List.length paths) >? hint)%Z then Z.to_nat hint else 0).
  match goal with |- context[find ?f (skipn idx paths)] => destruct (find f (skipn idx paths)) as [p|] eqn:E end.
  - apply find_some in E. destruct E as [E _]. clearbody idx. clear - E. revert paths E. induction idx as [|i IH]; intros [|x l] E; cbn in E; auto; try contradiction. right. auto.
  - apply nth_In. subst idx. destruct paths as [|x l]; [contradiction|].
    destruct (Z.of_nat (List.length (x :: l)) >? hint)%Z eqn:Eh; [|cbn; lia]. apply Z.gtb_lt in Eh. cbn [List.length] in *. lia.
Qed.

Lemma land_low mode : (N.land (mode mod 2 ^ 32) 4095 = N.land mode 4095)%N.
Proof.
  apply N.bits_inj. intros b. rewrite !N.land_spec. destruct (N.ltb_spec b 32).
  - rewrite N.mod_pow2_bits_low by lia. reflexivity.
  - replace (N.testbit 4095 b) with false. rewrite !andb_false_r. reflexivity.
    symmetry. apply N.bits_above_log2. change (N.log2 4095) with 11%N. lia.
Qed.

Definition pick1 (path : kvs) (k nm : string) : kvs := match fget (L k) path with Some v => [(L nm, v)] | None => [] end.
Lemma fget_pick1 path k nm key : fget (L key) (pick1 path k nm) = if beq (L nm) (L key) then fget (L k) path else None.
Proof. unfold pick1. destruct (fget (L k) path); cbn; destruct (beq (L nm) (L key)); reflexivity. Qed.
Lemma fget_app (a b : kvs) k : fget k (a ++ b) = match fget k a with Some v => Some v | None => fget k b end.
Proof. induction a as [|[x y] a IH]; cbn; auto. destruct (beq x k); auto. Qed.
Lemma fget_selinux_none (path : kvs) key : has_prefix (L "selinux.") (L key) = false ->
  fget (L key) (flat_map (fun kv => if has_prefix (L "obj_") (fst kv) then [(L "selinux." ++ skipn 4 (fst kv), snd kv)] else []) path) = None.
Proof.
  intros H. induction path as [|[a b] p IH]; cbn [flat_map]; [reflexivity|]. cbn [fst snd]. destruct (has_prefix (L "obj_") a).
  - cbn [app fget]. destruct (beq (L "selinux." ++ skipn 4 a) (L key)) eqn:E; [|exact IH]. apply beq_eq in E. rewrite <- E in H.
    assert (has_prefix (L "selinux.") (L "selinux." ++ skipn 4 a) = true) by (clear; induction (L "selinux."); cbn; auto; rewrite Ascii.eqb_refl; auto). congruence.
  - cbn [app]. exact IH.
Qed.

(* the file object: path, inode, device always; mode (permission bits, four octal digits), owner ids when the mode parses *)
Theorem file_object_mirrors paths hint what op0 :
  paths <> [] ->
  let p := selected paths hint in
  let '(f, op, ot, bad) := set_file_object paths hint what op0 in
  In p paths /\
  fget (L "path") f = fget (L "name") p /\ fget (L "inode") f = fget (L "inode") p /\ fget (L "device") f = fget (L "rdev") p /\
  op = match fget (L "name") p with Some v => v | None => op0 end /\
  (bad = false ->
     fget (L "uid") f = fget (L "ouid") p /\ fget (L "gid") f = fget (L "ogid") p /\
     forall ms, fget (L "mode") p = Some ms -> exists mode, oct64 ms = Some mode /\ fget (L "mode") f = Some (oct04 (N.land mode 4095))).
Proof.
  intros Hne p. pose proof (selected_in paths hint Hne) as Hin. unfold set_file_object. fold p.
  change (match fget (L "name") p with Some v => [(L "path", v)] | None => [] end) with (pick1 p "name" "path").
  change (match fget (L "inode") p with Some v => [(L "inode", v)] | None => [] end) with (pick1 p "inode" "inode").
  change (match fget (L "rdev") p with Some v => [(L "device", v)] | None => [] end) with (pick1 p "rdev" "device").
  change (match fget (L "ouid") p with Some v => [(L "uid", v)] | None => [] end) with (pick1 p "ouid" "uid").
  change (match fget (L "ogid") p with Some v => [(L "gid", v)] | None => [] end) with (pick1 p "ogid" "gid").
  assert (Hid: forall x : option str, match x with Some v => Some v | None => None end = x) by (intros [x|]; reflexivity).
  destruct (fget (L "mode") p) as [ms|] eqn:Em.
  - destruct (oct64 ms) as [mode|] eqn:Eo.
    + cbv iota beta. split; auto. rewrite !fget_app, !fget_pick1. cbn [fget]. rewrite ?fget_app, ?fget_pick1.
      rewrite !fget_selinux_none by reflexivity.
      repeat match goal with |- context[beq (L ?a) (L ?b)] => let v := eval vm_compute in (beq (L a) (L b)) in change (beq (L a) (L b)) with v end.
      cbv iota. rewrite !Hid. repeat split; auto.
      intros ms0 Hms. injection Hms as <-. exists mode. split; [exact Eo|]. rewrite land_low. reflexivity.
    + cbv iota beta. split; auto. rewrite !fget_app, !fget_pick1.
      repeat match goal with |- context[beq (L ?a) (L ?b)] => let v := eval vm_compute in (beq (L a) (L b)) in change (beq (L a) (L b)) with v end.
      cbv iota. rewrite !Hid. repeat split; auto; discriminate.
  - cbv iota beta. split; auto. rewrite !fget_app, !fget_pick1. rewrite !fget_selinux_none by reflexivity.
    repeat match goal with |- context[beq (L ?a) (L ?b)] => let v := eval vm_compute in (beq (L a) (L b)) in change (beq (L a) (L b)) with v end.
    cbv iota. rewrite !Hid. repeat split; auto. intros ms0 C. discriminate.
Qed.
Print Assumptions file_object_mirrors.

(* the object type the normaliser computes *)
Lemma small_bit (m i : N) : (m < 2 ^ 19 -> 19 <= i -> N.testbit m i = false)%N.
Proof.
  intros Hm Hi. destruct (N.eq_dec m 0) as [->|Hz]; [apply N.bits_0|].
  apply N.bits_above_log2. assert (N.log2 m < 19)%N by (apply N.log2_lt_pow2; lia). lia.
Qed.
(* every mode a PATH record can carry for a unix file (type bits 0170000 and below: under 2^19) is read as
   Go's os.FileMode, whose type bits start at 2^19 - so it is classified "file" *)
Theorem object_type_of_unix_mode mode dflt : (mode < 2 ^ 19)%N -> obj_type_of_mode mode dflt = L "file".
Proof.
  intros Hm. unfold obj_type_of_mode. rewrite (N.mod_small mode (2 ^ 32)) by (eapply N.lt_trans; [exact Hm|reflexivity]).
  rewrite !(small_bit mode) by (try exact Hm; discriminate). reflexivity.
Qed.
Theorem file_object_type paths hint what op0 :
  let p := selected paths hint in
  let '(_, _, ot, bad) := set_file_object paths hint what op0 in
  match fget (L "mode") p with
  | None => ot = what /\ bad = false
  | Some ms => match oct64 ms with
               | None => ot = what /\ bad = true
               | Some mode => ot = obj_type_of_mode mode what /\ bad = false
               end
  end.
Proof.
  cbv zeta. unfold set_file_object. destruct (fget (L "mode") (selected paths hint)) as [ms|]; [|split; reflexivity].
  destruct (oct64 ms); split; reflexivity.
Qed.
