(* Proofs/RuleValueProofs.v — every value ToCommandLine prints is read back by addFilter's
   parser as the same 32-bit value (the value-codec half of C07). *)
From Coq Require Import List Ascii String Arith NArith ZArith Bool Lia ZifyBool ZifyN ZifyNat.
Import ListNotations.
Require Import Bytes Dec Strconv Mach RuleTables Arch Errno Syscalls MsgType RuleDecode RuleText RuleValue TablesLift.
Local Open Scope string_scope.
Local Open Scope list_scope.
Open Scope N_scope.
Local Arguments N.mul : simpl never.
Local Arguments N.add : simpl never.
Local Arguments N.pow : simpl never.

(* ---------- decimal numerals through ParseUint in base 10 and base 0 ---------- *)
Lemma dec_head v : exists c r, dec v = c :: r /\ is_digit c = true /\ forallb is_digit r = true.
Proof.
  pose proof (dec_all_digits v) as Hd. pose proof (parse_dec_dec v) as Hp.
  destruct (dec v) as [|c r]. discriminate. cbn in Hd. apply andb_prop in Hd. destruct Hd. eauto.
Qed.

Lemma parse_uint10_dec v bits : v <= 2 ^ bits - 1 -> parse_uint (dec v) 10 bits = POk v.
Proof.
  intros Hv. pose proof (parse_dec_dec v) as Hp. pose proof (dec_all_digits v) as Hd.
  destruct (dec_head v) as (c & r & E & Hc & Hr). unfold parse_dec in Hp. rewrite E in *.
  unfold parse_uint. replace (10 =? 0) with false by reflexivity.
  rewrite (uloop_digits (2 ^ bits - 1) false (c :: r) 0 v); auto.
Qed.

Lemma parse_uint0_dec v : v < 2 ^ 32 -> parse_uint (dec v) 0 32 = POk v.
Proof.
  intros Hv. pose proof (parse_num_dec v Hv) as H. unfold parse_num in H.
  destruct (dec_head v) as (c & r & E & Hc & Hr). rewrite E in *.
  replace (code c =? 45) with false in H. exact H. unfold is_digit, code in *. lia.
Qed.

Lemma digit_not_sign c : is_digit c = true -> (code c =? 43) = false /\ (code c =? 45) = false.
Proof. unfold is_digit, code. lia. Qed.

Lemma parse_int10_dec v bits : 0 < bits -> v < 2 ^ (bits - 1) -> parse_int (dec v) 10 bits = ZOk (Z.of_N v).
Proof.
  intros Hb Hv. destruct (dec_head v) as (c & r & E & Hc & Hr).
  assert (Hle: v <= 2 ^ bits - 1).
  { assert (2 ^ (bits - 1) <= 2 ^ bits) by (apply N.pow_le_mono_r; lia). lia. }
  pose proof (parse_uint10_dec v bits Hle) as Hu. rewrite E in *.
  unfold parse_int. destruct (digit_not_sign c Hc) as [-> ->]. rewrite Hu.
  replace (2 ^ (bits - 1) <=? v) with false by lia. cbn. reflexivity.
Qed.

Lemma parse_int10_neg m bits : 0 < bits -> m <= 2 ^ (bits - 1) -> parse_int ("-"%char :: dec m) 10 bits = ZOk (- Z.of_N m).
Proof.
  intros Hb Hm.
  assert (Hle: m <= 2 ^ bits - 1).
  { assert (2 ^ (bits - 1) < 2 ^ bits) by (apply N.pow_lt_mono_r; lia). lia. }
  unfold parse_int. replace (code "-"%char =? 43) with false by reflexivity. replace (code "-"%char =? 45) with true by reflexivity.
  rewrite (parse_uint10_dec m bits Hle). cbn [negb andb]. replace (2 ^ (bits - 1) <? m) with false by lia. reflexivity.
Qed.

Lemma parse_int0_dec v : v < 2 ^ 31 -> parse_int (dec v) 0 32 = ZOk (Z.of_N v).
Proof.
  intros Hv. destruct (dec_head v) as (c & r & E & Hc & Hr).
  assert (Hv32: v < 2 ^ 32) by (change (2^31) with 2147483648 in Hv; change (2^32) with 4294967296; lia).
  pose proof (parse_uint0_dec v Hv32) as Hu. rewrite E in *.
  unfold parse_int. destruct (digit_not_sign c Hc) as [-> ->]. rewrite Hu.
  change (2 ^ (32 - 1)) with 2147483648. change (2^31) with 2147483648 in Hv.
  replace (2147483648 <=? v) with false by lia. reflexivity.
Qed.

Lemma parse_int0_neg m : m <= 2 ^ 31 -> parse_int ("-"%char :: dec m) 0 32 = ZOk (- Z.of_N m).
Proof.
  intros Hm. assert (Hv32: m < 2 ^ 32) by (change (2^31) with 2147483648 in Hm; change (2^32) with 4294967296; lia).
  unfold parse_int. replace (code "-"%char =? 43) with false by reflexivity. replace (code "-"%char =? 45) with true by reflexivity.
  rewrite (parse_uint0_dec m Hv32). cbn [negb andb]. change (2 ^ (32 - 1)) with 2147483648. change (2^31) with 2147483648 in Hm.
  replace (2147483648 <? m) with false by lia. reflexivity.
Qed.

(* ---------- uid / gid ---------- *)
Lemma u32_of_neg m : 0 < m -> m <= 4294967296 -> u32_of_Z (- Z.of_N m) = 4294967296 - m.
Proof. intros H1 H2. unfold u32_of_Z. Local Open Scope Z_scope. assert ((- Z.of_N m) mod 4294967296 = 4294967296 - Z.of_N m) by (symmetry; apply Z.mod_unique with (q := -1); lia). rewrite H. lia. Qed.
Local Close Scope Z_scope.
Lemma u32_of_pos v : v < 4294967296 -> u32_of_Z (Z.of_N v) = v.
Proof. intros H. unfold u32_of_Z. rewrite Z.mod_small by lia. lia. Qed.

Lemma not_unset_digit c r : (is_digit c = true \/ c = "-"%char) -> str_eqb_s (c :: r) "unset" = false.
Proof.
  intros H. destruct (str_eqb_s (c :: r) "unset") eqn:E; auto. apply str_eqb_s_eq in E. cbn in E. injection E as E1 _. subst c.
  destruct H as [H|H]; [vm_compute in H|]; discriminate.
Qed.

Theorem parse_id_print v : v < 2 ^ 32 -> parse_id (dec_i32 v) = VOk v.
Proof.
  change (2^32) with 4294967296. intros Hv. unfold dec_i32. destruct (v <? 2147483648) eqn:Es.
  - destruct (dec_head v) as (c & r & E & Hc & Hr). unfold parse_id.
    assert (Hu: str_eqb_s (dec v) "unset" = false) by (rewrite E; apply not_unset_digit; auto). rewrite Hu.
    rewrite parse_int10_dec by (change (2 ^ (32 - 1)) with 2147483648; lia).
    replace (Z.of_N v <? 0)%Z with false by lia. rewrite parse_uint10_dec by (change (2^32) with 4294967296; lia). reflexivity.
  - unfold parse_id. rewrite not_unset_digit by auto.
    rewrite parse_int10_neg by (change (2 ^ (32 - 1)) with 2147483648; lia).
    replace (- Z.of_N (4294967296 - v) <? 0)%Z with true by lia. rewrite u32_of_neg by lia. f_equal. lia.
Qed.

(* ---------- exit codes ---------- *)
Definition errno_print_okb (e : Z * string) : bool :=
  match parse_exit ("-"%char :: s2l (snd e)) with VOk n => n =? u32_of_Z (- fst e) | _ => false end.
Definition bad_errno_prints : list (Z * string) := filter (fun e => negb (errno_print_okb e)) errno_to_name.
Lemma errno_prints_ok : filter (fun e => negb (errno_print_okb e)) errno_to_name = [].
Proof. by_vm. Qed.

Lemma parse_exit_dec_i32 v : v < 2 ^ 32 -> parse_exit (dec_i32 v) = VOk v.
Proof.
  change (2^32) with 4294967296. intros Hv. unfold dec_i32, parse_exit. destruct (v <? 2147483648) eqn:Es.
  - rewrite parse_int0_dec by (change (2^31) with 2147483648; lia). rewrite u32_of_pos by lia. reflexivity.
  - rewrite parse_int0_neg by (change (2^31) with 2147483648; lia). rewrite u32_of_neg by lia. f_equal. lia.
Qed.

Theorem parse_exit_print v t : v < 2 ^ 32 -> print_value 103 v = Some t -> parse_exit t = VOk v.
Proof.
  change (2^32) with 4294967296. intros Hv. unfold print_value. cbn [N.eqb Pos.eqb].
  set (code := if v <? 2147483648 then Z.of_N v else (Z.of_N v - 4294967296)%Z).
  destruct (lookupZ (- code)%Z errno_to_name) as [nm|] eqn:El; intros H; injection H as <-.
  - apply (alookup_In Z.eqb) in El. 2:{ intros a b; apply Z.eqb_eq. }
    pose proof (filter_nil_forall _ _ errno_prints_ok _ El) as Hok. unfold errno_print_okb in Hok. cbn [fst snd] in Hok.
    destruct (parse_exit ("-"%char :: s2l nm)) as [n| |]; try discriminate. apply N.eqb_eq in Hok. subst n. f_equal.
    replace (- - code)%Z with code by lia. subst code. destruct (v <? 2147483648) eqn:Es.
    + apply u32_of_pos; lia.
    + replace (Z.of_N v - 4294967296)%Z with (- Z.of_N (4294967296 - v))%Z by lia. rewrite u32_of_neg by lia. lia.
  - apply parse_exit_dec_i32. exact Hv.
Qed.

(* ---------- msgtype ---------- *)
Definition msgtype_print_okb (t : N) : bool := match parse_msgtype (type_name t) with VOk n => n =? t | _ => false end.
Definition bad_msgtype_prints : list N := filter (fun t => negb (msgtype_print_okb t)) all_types.
Lemma msgtype_prints_ok : filter (fun t => negb (msgtype_print_okb t)) all_types = [].
Proof. by_vm. Qed.

Theorem parse_msgtype_print v t : v < 2 ^ 32 -> print_value 12 v = Some t -> parse_msgtype t = VOk v.
Proof.
  intros Hv. unfold print_value. cbn [N.eqb Pos.eqb existsb uid_fields gid_fields orb]. destruct (v <=? 65535) eqn:E; intros H; injection H as <-.
  - apply N.leb_le in E. assert (Hlt: v < 65536) by (clear - E; lia). pose proof (In_all_types v Hlt) as Hin.
    pose proof (filter_nil_forall _ _ msgtype_prints_ok _ Hin) as Hok. unfold msgtype_print_okb in Hok. clear Hin.
    destruct (parse_msgtype (type_name v)) as [n| |]; try discriminate Hok. apply N.eqb_eq in Hok. congruence.
  - unfold parse_msgtype. rewrite parse_uint0_dec by exact Hv. reflexivity.
Qed.

(* ---------- perm ---------- *)
Definition perm_print_okb (v : N) : bool := match parse_perm (perm_string v) 0 with VOk n => n =? v | _ => false end.
Definition bad_perm_prints : list N := filter (fun v => negb (perm_print_okb v)) (upto 16).
Lemma perm_prints_ok : filter (fun v => negb (perm_print_okb v)) (upto 16) = [].
Proof. by_vm. Qed.
Theorem parse_perm_print v : v < 16 -> parse_perm (perm_string v) 0 = VOk v.
Proof.
  intros Hv. assert (Hin: In v (upto 16)) by (apply In_upto; lia).
  pose proof (filter_nil_forall _ _ perm_prints_ok _ Hin) as Hok. unfold perm_print_okb in Hok.
  destruct (parse_perm (perm_string v) 0) as [n| |]; try discriminate. apply N.eqb_eq in Hok. congruence.
Qed.

(* ---------- arch ---------- *)
Definition arch_value_of (s : string) : option N := match get_arch (s2l s) with Some (_, v) => Some v | None => None end.
Definition arch_name_okb (e : N * string) : bool := optN_eqb (arch_value_of (snd e)) (fst e).
Definition bad_arch_names : list (N * string) := filter (fun e => negb (arch_name_okb e)) arch_names.
Lemma arch_names_ok : filter (fun e => negb (arch_name_okb e)) arch_names = [].
Proof. by_vm. Qed.
(* the b64 / b32 abbreviations, for whichever architecture the tables were generated on *)
Definition arch_abbrev_okb : bool :=
  match runtime_arch with
  | None => true
  | Some rs =>
      match lookupS (s2l rs) reverse_arch with
      | None => true
      | Some ra =>
          let is64 := existsb (N.eqb ra) [AUDIT_ARCH_AARCH64; AUDIT_ARCH_X86_64; AUDIT_ARCH_PPC64; AUDIT_ARCH_S390X] in
          let is32 := existsb (N.eqb ra) [AUDIT_ARCH_ARM; AUDIT_ARCH_I386; AUDIT_ARCH_PPC; AUDIT_ARCH_S390] in
          (if is64 then optN_eqb (arch_value_of "b64") ra else true) &&
          (if is32 then optN_eqb (arch_value_of "b32") ra else true) &&
          (if ra =? AUDIT_ARCH_AARCH64 then optN_eqb (arch_value_of "b32") AUDIT_ARCH_ARM else true) &&
          (if ra =? AUDIT_ARCH_X86_64 then optN_eqb (arch_value_of "b32") AUDIT_ARCH_I386 else true) &&
          (if ra =? AUDIT_ARCH_PPC64 then optN_eqb (arch_value_of "b32") AUDIT_ARCH_PPC else true) &&
          (if ra =? AUDIT_ARCH_S390X then optN_eqb (arch_value_of "b32") AUDIT_ARCH_S390 else true)
      end
  end.
Lemma arch_abbrev_ok : arch_abbrev_okb = true.
Proof. by_vm. Qed.

Theorem parse_arch_print v t : display_arch v = Some t -> exists nm, get_arch t = Some (nm, v).
Proof.
  assert (G: forall s, arch_value_of s = Some v -> exists nm, get_arch (s2l s) = Some (nm, v)).
  { intros s. unfold arch_value_of. destruct (get_arch (s2l s)) as [[nm x]|]; try discriminate. intros H. injection H as ->. eauto. }
  pose proof arch_abbrev_ok as HA. unfold arch_abbrev_okb in HA. unfold display_arch.
  destruct runtime_arch as [rs|]; try discriminate. destruct (lookupS (s2l rs) reverse_arch) as [ra|]; try discriminate.
  cbv zeta in HA. repeat (apply andb_prop in HA; destruct HA as [HA ?]).
  destruct (v =? ra) eqn:Eq.
  - apply N.eqb_eq in Eq. subst v. cbn [andb negb].
    destruct (existsb (N.eqb ra) [AUDIT_ARCH_AARCH64; AUDIT_ARCH_X86_64; AUDIT_ARCH_PPC64; AUDIT_ARCH_S390X]).
    { intros E; injection E as <-. apply (G "b64"). apply optN_eqb_eq; assumption. }
    destruct (existsb (N.eqb ra) [AUDIT_ARCH_ARM; AUDIT_ARCH_I386; AUDIT_ARCH_PPC; AUDIT_ARCH_S390]).
    { intros E; injection E as <-. apply (G "b32"). apply optN_eqb_eq; assumption. }
    intros E. destruct (lookupN ra arch_names) as [nm|] eqn:El; try discriminate. injection E as <-.
    apply (alookup_In N.eqb) in El. 2:{ intros a b; apply N.eqb_eq. }
    pose proof (filter_nil_forall _ _ arch_names_ok _ El) as Hok. apply (G nm). apply optN_eqb_eq. exact Hok.
  - cbn [andb negb].
    destruct (((ra =? AUDIT_ARCH_AARCH64) && (v =? AUDIT_ARCH_ARM) || (ra =? AUDIT_ARCH_X86_64) && (v =? AUDIT_ARCH_I386)
               || (ra =? AUDIT_ARCH_PPC64) && (v =? AUDIT_ARCH_PPC) || (ra =? AUDIT_ARCH_S390X) && (v =? AUDIT_ARCH_S390))) eqn:Ec.
    + intros E; injection E as <-. apply (G "b32"). apply optN_eqb_eq.
      repeat (apply orb_prop in Ec; destruct Ec as [Ec|Ec]); apply andb_prop in Ec; destruct Ec as [E1 E2]; apply N.eqb_eq in E2; subst v;
        match goal with Hx : (if ra =? ?A then _ else true) = true |- optN_eqb _ _ = true => rewrite E1 in Hx; first [exact Hx | fail 1] end.
    + intros E. destruct (lookupN v arch_names) as [nm|] eqn:El; try discriminate. injection E as <-.
      apply (alookup_In N.eqb) in El. 2:{ intros a b; apply N.eqb_eq. }
      pose proof (filter_nil_forall _ _ arch_names_ok _ El) as Hok. apply (G nm). apply optN_eqb_eq. exact Hok.
Qed.

(* ---------- filetype (printed as a number when ids are not resolved) ---------- *)
Lemma lower_digit c : is_digit c = true -> lower_ascii c = c.
Proof.
  intros H. rewrite <- (ascii_N_embedding c). unfold is_digit in H.
  assert (Hb: N_of_ascii c < 58) by lia. assert (Hl: 48 <= N_of_ascii c) by lia. clear H.
  assert (G: forallb (fun n => Ascii.eqb (lower_ascii (ascii_of_N n)) (ascii_of_N n)) (upto 58) = true) by (vm_compute; reflexivity).
  pose proof (forallb_upto _ _ G _ Hb) as H. apply Ascii.eqb_eq in H. exact H.
Qed.
Lemma digit_ne_letter c x : is_digit c = true -> 58 <= N_of_ascii x -> Ascii.eqb c x = false.
Proof. intros H Hx. destruct (Ascii.eqb c x) eqn:E; auto. apply Ascii.eqb_eq in E. subst x. unfold is_digit in H. lia. Qed.

Lemma filetype_name_miss v : lookupS (to_lower_ascii (dec v)) filetype_names = None.
Proof.
  destruct (dec_head v) as (c & r & E & Hc & Hr). rewrite E. cbn [to_lower_ascii map]. rewrite (lower_digit c Hc).
  unfold filetype_names. cbn [lookupS str_eqb_s s2l list_ascii_of_string str_eqb].
  repeat (rewrite (digit_ne_letter c _ Hc) by (vm_compute; discriminate); cbn [andb]). reflexivity.
Qed.
Theorem parse_filetype_print v : v < 2 ^ 32 -> parse_filetype (dec v) = VOk v.
Proof. intros Hv. unfold parse_filetype. rewrite filetype_name_miss, parse_uint0_dec by exact Hv. reflexivity. Qed.

Theorem parse_numv_print v : v < 2 ^ 32 -> parse_numv (dec v) = VOk v.
Proof. intros Hv. unfold parse_numv. rewrite parse_num_dec by exact Hv. reflexivity. Qed.

(* ---------- all non-string fields at once ---------- *)
Definition value_in_range (f v : N) : Prop :=
  v < 2 ^ 32 /\ (f = 106 -> v < 16) /\ (f = 113 -> v = 2 \/ v = 10).

Theorem value_round_trip f v t : f <> 111 -> value_in_range f v -> print_value f v = Some t -> parse_value f t = VOk v.
Proof.
  intros Hc (Hv & Hp & Hs) H. unfold parse_value.
  destruct (existsb (N.eqb f) uid_fields || existsb (N.eqb f) gid_fields) eqn:Eid.
  { unfold print_value in H. rewrite Eid in H.
    assert (f =? 11 = false /\ f =? 103 = false) as [E1 E2].
    { assert (G: forallb (fun x => negb (x =? 11) && negb (x =? 103)) (uid_fields ++ gid_fields) = true) by (vm_compute; reflexivity).
      rewrite forallb_forall in G. rewrite <- existsb_app in Eid. apply existsb_exists in Eid. destruct Eid as (x & Hx & Ex).
      apply N.eqb_eq in Ex. subst x. specialize (G _ Hx). apply andb_prop in G. destruct G as [G1 G2].
      apply negb_true_iff in G1, G2. auto. }
    rewrite E1, E2 in H. injection H as <-. apply parse_id_print; exact Hv. }
  destruct (f =? 103) eqn:E103. { apply N.eqb_eq in E103. subst f. eapply parse_exit_print; eauto. }
  destruct (f =? 12) eqn:E12. { apply N.eqb_eq in E12. subst f. eapply parse_msgtype_print; eauto. }
  destruct (f =? 11) eqn:E11.
  { apply N.eqb_eq in E11. subst f. unfold print_value in H. cbn [N.eqb Pos.eqb] in H.
    destruct (parse_arch_print _ _ H) as (nm & ->). reflexivity. }
  unfold print_value in H. rewrite E11, E103, Eid, E12 in H.
  destruct (f =? 106) eqn:E106.
  { injection H as <-. apply N.eqb_eq in E106. apply parse_perm_print; auto. }
  injection H as <-.
  destruct (f =? 108) eqn:E108. { apply parse_filetype_print; exact Hv. }
  destruct (f =? 113) eqn:E113.
  { rewrite parse_numv_print by exact Hv. apply N.eqb_eq in E113. destruct (Hs E113) as [-> | ->]; reflexivity. }
  apply parse_numv_print; exact Hv.
Qed.

(* ---------- syscalls: the text printed for a syscall number reads back as the number ---------- *)
Definition sc_name_okb (e : string * (Z * string)) : bool :=
  match syscall_number (s2l (fst e)) (s2l (snd (snd e))) with Some n => n =? u32_of_Z (fst (snd e)) | None => false end.
Definition bad_sc_names : list (string * (Z * string)) := filter (fun e => negb (sc_name_okb e)) Tables.syscalls_flat.
Lemma sc_names_ok : filter (fun e => negb (sc_name_okb e)) Tables.syscalls_flat = [].
Proof. by_vm. Qed.

Lemma parse_int10_64_dec n : n < 2 ^ 32 -> parse_int (dec n) 10 64 = ZOk (Z.of_N n).
Proof.
  intros H. apply parse_int10_dec. lia. change (2^32) with 4294967296 in H. change (2 ^ (64 - 1)) with 9223372036854775808. lia.
Qed.

Theorem syscall_text_reads_back arch t n :
  n < 2 ^ 32 -> lookupS (s2l arch) syscalls = Some t -> syscall_number (s2l arch) (syscall_text t n) = Some n.
Proof.
  intros Hn Ht. unfold syscall_text. destruct (lookupZ (Z.of_N n) t) as [nm|] eqn:El.
  - apply (alookup_In Z.eqb) in El. 2:{ intros a b; apply Z.eqb_eq. }
    destruct (lookupS_In _ _ _ Ht) as (k' & Hin & Hk).
    assert (Hf: In (k', (Z.of_N n, nm)) Tables.syscalls_flat) by (eapply in_flat_pairs; eauto).
    pose proof (filter_nil_forall _ _ sc_names_ok _ Hf) as Hok. unfold sc_name_okb in Hok. cbn [fst snd] in Hok. rewrite Hk in Hok.
    destruct (syscall_number (s2l arch) (s2l nm)) as [m|]; try discriminate. apply N.eqb_eq in Hok. subst m.
    change (2^32) with 4294967296 in Hn. rewrite u32_of_pos by lia. reflexivity.
  - unfold syscall_number. rewrite parse_int10_64_dec by exact Hn. change (2^32) with 4294967296 in Hn. rewrite u32_of_pos by lia. reflexivity.
Qed.

Print Assumptions value_round_trip.
Print Assumptions syscall_text_reads_back.
