(* Proofs/ParseSockaddr.v — an IPv4 or unix socket address written as hex of struct sockaddr is decoded
   to its family, address and port / path. *)
From Coq Require Import List Ascii String NArith ZArith Bool Arith Lia.
Import ListNotations.
Require Import Bytes Dec KV Trim Header Parser ParseProofs ParseBody ParseEnrich TablesLift.
Require Hex.
Local Close Scope N_scope.
Local Open Scope string_scope.
Local Open Scope nat_scope.
Local Open Scope list_scope.

Definition byte (n : N) : ascii := ascii_of_N n.

(* two hex digits read as the byte, four as the big-endian 16-bit number *)
Definition hex2_okb (n : N) : bool := match hex_to_dec (Hex.hex_upper [byte n]) with Some z => Z.eqb z (Z.of_N n) | None => false end.
Lemma hex2_ok : filter (fun n => negb (hex2_okb n)) (upto 256) = []. Proof. by_vm. Qed.
Definition hex4_okb (n : N) : bool :=
  match hex_to_dec (Hex.hex_upper [byte (n / 256); byte (n mod 256)]) with Some z => Z.eqb z (Z.of_N n) | None => false end.
Lemma hex4_ok : filter (fun n => negb (hex4_okb n)) (upto 65536) = []. Proof. by_vm. Qed.

Lemma hex2_dec n : (n < 256)%N -> hex_to_dec (Hex.hex_upper [byte n]) = Some (Z.of_N n).
Proof.
  intros H. assert (Hin: In n (upto 256)) by (apply In_upto; exact H).
  pose proof (filter_nil_forall _ _ hex2_ok _ Hin) as Hok. unfold hex2_okb in Hok.
  destruct (hex_to_dec (Hex.hex_upper [byte n])) as [z|]; [|discriminate]. apply Z.eqb_eq in Hok. congruence.
Qed.
Lemma hex4_dec hi lo : (hi < 256)%N -> (lo < 256)%N -> hex_to_dec (Hex.hex_upper [byte hi; byte lo]) = Some (Z.of_N (hi * 256 + lo)).
Proof.
  intros H1 H2. set (n := (hi * 256 + lo)%N). assert (Hn: (n < 65536)%N) by (unfold n; lia).
  assert (Hin: In n (upto 65536)) by (apply In_upto; exact Hn).
  pose proof (filter_nil_forall _ _ hex4_ok _ Hin) as Hok. unfold hex4_okb in Hok.
  assert (E1: (n / 256 = hi)%N) by (unfold n; symmetry; apply (N.div_unique _ 256 hi lo); lia).
  assert (E2: (n mod 256 = lo)%N) by (unfold n; symmetry; apply (N.mod_unique _ 256 hi lo); lia).
  rewrite E1, E2 in Hok. destruct (hex_to_dec _) as [z|]; [|discriminate]. apply Z.eqb_eq in Hok. congruence.
Qed.

Lemma itoa_N n : itoa (Z.of_N n) = Dec.dec n.
Proof. unfold itoa. replace (Z.of_N n <? 0)%Z with false by lia. rewrite N2Z.id. reflexivity. Qed.

(* struct sockaddr_in: family 2 (host order, little-endian), port and address in network order *)
Theorem sockaddr_in4 p1 p2 a b c d rest : (p1 < 256)%N -> (p2 < 256)%N -> (a < 256)%N -> (b < 256)%N -> (c < 256)%N -> (d < 256)%N ->
  parse_sockaddr (Hex.hex_upper [byte 2; byte 0; byte p1; byte p2; byte a; byte b; byte c; byte d] ++ rest) =
    Some [(L "family", L "ipv4");
          (L "addr", Dec.dec a ++ L "." ++ Dec.dec b ++ L "." ++ Dec.dec c ++ L "." ++ Dec.dec d);
          (L "port", Dec.dec (p1 * 256 + p2))].
Proof.
  intros Hp1 Hp2 Ha Hb Hc Hd. unfold parse_sockaddr.
  cbn [Hex.hex_upper app List.length Nat.ltb Nat.leb sub skipn firstn Nat.sub].
  change (hex_to_dec (Hex.hex_char (N_of_ascii (byte 0) / 16) :: Hex.hex_char (N_of_ascii (byte 0) mod 16) :: Hex.hex_char (N_of_ascii (byte 2) / 16) :: Hex.hex_char (N_of_ascii (byte 2) mod 16) :: nil))
    with (hex_to_dec (Hex.hex_upper [byte 0; byte 2])).
  rewrite (hex4_dec 0 2) by lia. cbn [N.mul N.add Z.of_N Z.eqb Pos.eqb].
  change (hex_to_dec [Hex.hex_char (N_of_ascii (byte p1) / 16); Hex.hex_char (N_of_ascii (byte p1) mod 16); Hex.hex_char (N_of_ascii (byte p2) / 16); Hex.hex_char (N_of_ascii (byte p2) mod 16)])
    with (hex_to_dec (Hex.hex_upper [byte p1; byte p2])).
  rewrite (hex4_dec p1 p2) by auto.
  unfold hex_to_ip. cbn [List.length Nat.eqb].
  change (hex_to_dec [Hex.hex_char (N_of_ascii (byte a) / 16); Hex.hex_char (N_of_ascii (byte a) mod 16)]) with (hex_to_dec (Hex.hex_upper [byte a])).
  change (hex_to_dec [Hex.hex_char (N_of_ascii (byte b) / 16); Hex.hex_char (N_of_ascii (byte b) mod 16)]) with (hex_to_dec (Hex.hex_upper [byte b])).
  change (hex_to_dec [Hex.hex_char (N_of_ascii (byte c) / 16); Hex.hex_char (N_of_ascii (byte c) mod 16)]) with (hex_to_dec (Hex.hex_upper [byte c])).
  change (hex_to_dec [Hex.hex_char (N_of_ascii (byte d) / 16); Hex.hex_char (N_of_ascii (byte d) mod 16)]) with (hex_to_dec (Hex.hex_upper [byte d])).
  rewrite !hex2_dec by auto. rewrite !itoa_N. reflexivity.
Qed.
Print Assumptions sockaddr_in4.

(* struct sockaddr_un: family 1, then the path, NUL-terminated, whatever follows the NUL *)
Lemma split_on_first c : forall p cur rest, forallb (fun x => negb (Ascii.eqb x c)) p = true ->
  exists tl, split_on c (p ++ c :: rest) cur = (rev cur ++ p) :: tl.
Proof.
  induction p as [|x p IH]; intros cur rest H; cbn [app split_on].
  - rewrite Ascii.eqb_refl. rewrite app_nil_r. eauto.
  - cbn in H. apply andb_prop in H. destruct H as [H1 H2]. apply negb_true_iff in H1. rewrite H1.
    destruct (IH (x :: cur) rest H2) as (tl & E). rewrite E. cbn [rev]. rewrite <- app_assoc. eauto.
Qed.
Lemma hex_upper_app a b : Hex.hex_upper (a ++ b) = Hex.hex_upper a ++ Hex.hex_upper b.
Proof. induction a as [|x a IH]; cbn [app Hex.hex_upper]; auto. rewrite IH. reflexivity. Qed.

Theorem sockaddr_unix path junk : forallb (fun x => negb (Ascii.eqb x nul)) path = true ->
  parse_sockaddr (Hex.hex_upper ([byte 1; byte 0] ++ path ++ nul :: junk)) = Some [(L "family", L "unix"); (L "path", path)].
Proof.
  intros Hp. rewrite hex_upper_app. unfold parse_sockaddr.
  cbn [Hex.hex_upper app List.length Nat.ltb Nat.leb sub skipn firstn Nat.sub].
  change (hex_to_dec (Hex.hex_char (N_of_ascii (byte 0) / 16) :: Hex.hex_char (N_of_ascii (byte 0) mod 16) :: Hex.hex_char (N_of_ascii (byte 1) / 16) :: Hex.hex_char (N_of_ascii (byte 1) mod 16) :: nil))
    with (hex_to_dec (Hex.hex_upper [byte 0; byte 1])).
  rewrite (hex4_dec 0 1) by lia. cbn [N.mul N.add Z.of_N Z.eqb Pos.eqb].
  unfold hex_to_string, hex_decode. rewrite Hex.decode_hex_roundtrip. cbn [option_map].
  destruct (split_on_first nul path [] junk Hp) as (tl & E). rewrite E. reflexivity.
Qed.
Print Assumptions sockaddr_unix.
