(* Proofs/SliceHeapProofs.v — a table slice without spare capacity cannot be written through an event that
   shares it; one with spare capacity can (two events then share the appended element). *)
From Coq Require Import List Arith Bool Lia.
Import ListNotations.
Require Import SliceHeap.
Local Open Scope list_scope.

Section P.
Variable A : Type.
Notation aheap := (aheap A).

Lemma aset_length : forall (h : aheap) l v, length (aset A h l v) = length h.
Proof. induction h as [|x h IH]; intros [|l] v; cbn; auto. Qed.
Lemma nth_aset_other : forall (h : aheap) l l' v, l <> l' -> nth l' (aset A h l v) [] = nth l' h [].
Proof. induction h as [|x h IH]; intros [|l] [|l'] v H; cbn [aset nth]; auto; try lia; try (destruct l'; reflexivity); try (destruct l; reflexivity). Qed.

(* full = no spare capacity, and the slice is a valid one *)
Definition full (h : aheap) (s : slice) : Prop := s_arr s < length h /\ cap A h s = s_len s.

(* appending anything non-empty to a full slice allocates: every existing array is left as it was, and the result reads
   as the old contents followed by the new values *)
Theorem append_to_full_allocates (h : aheap) (s : slice) (xs : list A) : full h s -> xs <> [] ->
  let '(h', s') := sappend A h s xs in
  (forall l, l < length h -> nth l h' [] = nth l h []) /\ s_arr s' = length h /\ sread A h' s' = sread A h s ++ xs.
Proof.
  intros [Hl Hc] Hx. unfold sappend, cap in *. destruct xs as [|x xs]; [contradiction|].
  destruct (Nat.leb_spec (s_len s + length (x :: xs)) (length (nth (s_arr s) h []))) as [Hle|Hgt]. { cbn [length] in Hle. lia. }
  split; [|split].
  - intros l Hlt. apply app_nth1. exact Hlt.
  - reflexivity.
  - unfold sread. cbn [s_arr s_len]. rewrite app_nth2 by lia. rewrite Nat.sub_diag. cbn [nth].
    rewrite firstn_all2; [reflexivity|]. rewrite app_length, firstn_length. cbn [length]. lia.
Qed.
(* so with every table slice full, any number of events merge their categories without touching the tables or one another:
   each merge leaves all earlier arrays alone *)
Theorem ecs_merge_isolated (h : aheap) (table : slice) (extra : option slice) :
  full h table -> (forall e, extra = Some e -> sread A h e <> []) ->
  let '(h', s') := ecs_merge A h table extra in
  (forall l, l < length h -> nth l h' [] = nth l h []) /\ length h <= length h' /\
  sread A h' s' = sread A h table ++ match extra with Some e => sread A h e | None => [] end.
Proof.
  intros Hf Hne. unfold ecs_merge. destruct extra as [e|].
  - pose proof (append_to_full_allocates h table (sread A h e) Hf (Hne e eq_refl)) as H.
    destruct (sappend A h table (sread A h e)) as [h' s'] eqn:E. destruct H as (H1 & H2 & H3). split; [exact H1|]. split; [|exact H3].
    unfold sappend in E. destruct (_ <=? _) in E; injection E as <- <-; rewrite ?aset_length, ?app_length; cbn; lia.
  - split; [auto|]. split; [lia|]. rewrite app_nil_r. reflexivity.
Qed.
End P.

(* with spare capacity the same code shares the appended slot: the second event's append overwrites what the first event reads *)
Example spare_capacity_breaks_isolation :
  let h := [[1; 2; 0]; [7]; [9]] in                         (* a table array of capacity 3 holding [1; 2], and two one-element slices *)
  let table := {| s_arr := 0; s_len := 2 |} in
  let '(h1, ev1) := ecs_merge nat h table (Some {| s_arr := 1; s_len := 1 |}) in
  let '(h2, ev2) := ecs_merge nat h1 table (Some {| s_arr := 2; s_len := 1 |}) in
  sread nat h1 ev1 = [1; 2; 7] /\ sread nat h2 ev1 = [1; 2; 9].
Proof. vm_compute. split; reflexivity. Qed.
Print Assumptions ecs_merge_isolated.
