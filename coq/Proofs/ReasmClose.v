(* Proofs/ReasmClose.v — Close is final: once closed, the Reassembler stays closed,
   Maintain and Close answer with the error and make no callback. *)
From Coq Require Import List ZArith Bool Lia.
Import ListNotations.
Require Import Reassembler ReasmInv ReasmC01.
Open Scope Z_scope.

Fixpoint exec (c : config) (s : state) (ops : list op) : state :=
  match ops with [] => s | o :: r => exec c (fst (step c s o)) r end.

Lemma exec_app c s a b : exec c s (a ++ b) = exec c (exec c s a) b.
Proof. revert s. induction a as [|o a IH]; intros s; cbn; auto. Qed.

Lemma put_closed c now m s : closed (put c now m s) = closed s.
Proof. unfold put. destruct (lookup _ _); destruct (mty m =? AUDIT_EOE); auto. Qed.
Lemma cleanup_closed force c now s : closed (fst (cleanup force c now s)) = closed s.
Proof. unfold cleanup. destruct (evict _ _ _ _ _ _ _) as [[[[[? ?] ?] ?] ?] ?]. auto. Qed.

Lemma step_keeps_closed c s o : closed s = true -> closed (fst (step c s o)) = true.
Proof.
  intros H. destruct o as [[m|] tp tc | now | ]; cbn [step].
  - rewrite cleanup_closed, put_closed. auto.
  - auto.
  - rewrite H. auto.
  - rewrite H. auto.
Qed.
Lemma exec_keeps_closed c ops : forall s, closed s = true -> closed (exec c s ops) = true.
Proof. induction ops as [|o ops IH]; intros s H; cbn; auto. apply IH. apply step_keeps_closed; auto. Qed.

Lemma close_closes c s : closed (fst (step c s Close)) = true.
Proof.
  cbn [step]. destruct (closed s) eqn:E; auto.
  match goal with |- context [cleanup true c 0 ?s1] => pose proof (cleanup_closed true c 0 s1) as H; destruct (cleanup true c 0 s1) as [s' o] end.
  cbn in *. auto.
Qed.

Theorem closed_is_final c ops1 ops2 now :
  let s := exec c init (ops1 ++ [Close] ++ ops2) in
  step c s (Maintain now) = (s, [Ret false]) /\ step c s Close = (s, [Ret false]).
Proof.
  intros s. assert (H: closed s = true).
  { unfold s. rewrite !exec_app. apply exec_keeps_closed. cbn [exec]. apply close_closes. }
  cbn [step]. rewrite H. auto.
Qed.

(* the first Close succeeds and hands over everything that is buffered (C01 states that
   nothing pushed remains undelivered after it) *)
Theorem first_close_succeeds c s : closed s = false -> In (Ret true) (snd (step c s Close)).
Proof.
  intros H. cbn [step]. rewrite H.
  match goal with |- context [cleanup true c 0 ?s1] => destruct (cleanup true c 0 s1) as [s' o] end.
  cbn. apply in_or_app. right. left. auto.
Qed.
