(* Proofs/RuleSyscallText.v — the "-S a,b,c" argument ToCommandLine prints is read back, by the comma
   splitting and trimming of the flag and by addSyscall, as the same numbers in the same order. *)
From Coq Require Import List Ascii String Arith NArith ZArith Bool Lia ZifyBool ZifyN ZifyNat.
Import ListNotations.
Require Import Bytes Dec Strconv Mach Syscalls RuleDecode RuleText RuleValue KV Trim FilterRe Flags RuleBuild.
Require Import Tables TablesLift RuleValueProofs.
Local Open Scope string_scope.
Local Open Scope list_scope.
Open Scope N_scope.

(* ---------- trimming leaves a word alone ---------- *)
Lemma drop_none_word c r : is_word c = true -> drop_space_rune (c :: r) = None.
Proof. destruct c as [[] [] [] [] [] [] [] []]; intros H; vm_compute in H; try discriminate H; vm_compute; reflexivity. Qed.
Lemma drop_rev_none_word c r : is_word c = true -> drop_space_rune_rev (c :: r) = None.
Proof. destruct c as [[] [] [] [] [] [] [] []]; intros H; vm_compute in H; try discriminate H; vm_compute; reflexivity. Qed.

Lemma trim_space_word s : s <> [] -> forallb is_word s = true -> trim_space s = s.
Proof.
  intros Hne Hw. unfold trim_space.
  assert (H1: trim_left (List.length s) s = s).
  { destruct s as [|c r]; [contradiction|]. cbn in Hw. apply andb_prop in Hw. destruct Hw as [Hc _].
    cbn [List.length trim_left]. rewrite drop_none_word; auto. }
  rewrite H1.
  assert (H2: trim_left_rev (List.length s) (rev s) = rev s).
  { destruct (rev s) as [|c r] eqn:E. { destruct (List.length s); reflexivity. }
    assert (Hc: is_word c = true). { rewrite forallb_forall in Hw. apply Hw. apply in_rev. rewrite E. left; auto. }
    destruct s as [|x xs]; [contradiction|]. cbn [List.length trim_left_rev]. rewrite drop_rev_none_word; auto. }
  rewrite H2. apply rev_involutive.
Qed.

(* ---------- splitting at commas ---------- *)
Lemma split_on_nocomma c : forall s cur, forallb (fun x => negb (Ascii.eqb x c)) s = true -> split_on c s cur = [rev cur ++ s].
Proof.
  induction s as [|x r IH]; intros cur H; cbn [split_on]. rewrite app_nil_r; reflexivity.
  cbn in H. apply andb_prop in H. destruct H as [H1 H2]. apply negb_true_iff in H1. rewrite H1, IH; auto. cbn [rev]. rewrite <- app_assoc. reflexivity.
Qed.
Lemma split_on_app c : forall s cur rest, forallb (fun x => negb (Ascii.eqb x c)) s = true ->
  split_on c (s ++ c :: rest) cur = (rev cur ++ s) :: split_on c rest [].
Proof.
  induction s as [|x r IH]; intros cur rest H; cbn [split_on app].
  - rewrite Ascii.eqb_refl, app_nil_r. reflexivity.
  - cbn in H. apply andb_prop in H. destruct H as [H1 H2]. apply negb_true_iff in H1. rewrite H1, IH; auto. cbn [rev]. rewrite <- app_assoc. reflexivity.
Qed.
Lemma split_comma_join : forall ts, ts <> [] -> Forall (fun t => forallb (fun x => negb (Ascii.eqb x ","%char)) t = true) ts ->
  split_comma (join_with [","%char] ts) = ts.
Proof.
  unfold split_comma. induction ts as [|t r IH]; intros Hne Hf; [contradiction|]. inversion Hf as [|? ? Ht Hr]; subst.
  destruct r as [|t2 r']. { cbn [join_with]. rewrite split_on_nocomma; auto. }
  change (join_with [","%char] (t :: t2 :: r')) with (t ++ ","%char :: join_with [","%char] (t2 :: r')).
  rewrite split_on_app; auto. cbn [rev app]. f_equal. apply IH; auto. discriminate.
Qed.

(* ---------- names in the syscall tables ---------- *)
Definition sc_name_text_okb (e : string * (Z * string)) : bool :=
  let nm := s2l (snd (snd e)) in
  negb (str_eqb_s nm "all") && negb (List.length nm =? 0)%nat && forallb is_word nm.
Lemma sc_name_texts_ok : filter (fun e => negb (sc_name_text_okb e)) syscalls_flat = []. Proof. by_vm. Qed.

Lemma word_not_comma c : is_word c = true -> negb (Ascii.eqb c ","%char) = true.
Proof. intros H. destruct (Ascii.eqb c ","%char) eqn:E; auto. apply Ascii.eqb_eq in E. subst c. discriminate. Qed.
Lemma digit_is_word c : is_digit c = true -> is_word c = true.
Proof.
  intros H. rewrite <- (ascii_N_embedding c). unfold is_digit in H.
  assert (Hb: N_of_ascii c < 58) by lia. assert (Hl: 48 <= N_of_ascii c) by lia. clear H.
  assert (G: forallb (fun n => (n <? 48) || is_word (ascii_of_N n)) (upto 58) = true) by (vm_compute; reflexivity).
  pose proof (forallb_upto _ _ G _ Hb) as H. apply orb_prop in H. destruct H as [H|H]; [lia|exact H].
Qed.

(* the text printed for one number: a non-empty word, not "all", that addSyscall reads as the number *)
Lemma syscall_text_facts (arch : str) n : n < 2 ^ 32 ->
  let t := syscall_text (sc_table arch) n in
  t <> [] /\ forallb is_word t = true /\ str_eqb_s t "all" = false /\ syscall_number arch t = Some n.
Proof.
  intros Hn t. subst t. unfold syscall_text, sc_table.
  destruct (lookupS arch syscalls) as [tb|] eqn:Et.
  - destruct (lookupZ (Z.of_N n) tb) as [nm|] eqn:El.
    + apply (alookup_In Z.eqb) in El. 2:{ intros a b; apply Z.eqb_eq. }
      destruct (lookupS_In _ _ _ Et) as (k' & Hin & Hk).
      assert (Hf: In (k', (Z.of_N n, nm)) syscalls_flat) by (eapply in_flat_pairs; eauto).
      pose proof (filter_nil_forall _ _ sc_name_texts_ok _ Hf) as H1. unfold sc_name_text_okb in H1. cbn [fst snd] in H1.
      apply andb_prop in H1. destruct H1 as [H1 Hw]. apply andb_prop in H1. destruct H1 as [Hall Hne].
      pose proof (filter_nil_forall _ _ sc_names_ok _ Hf) as Hok. unfold sc_name_okb in Hok. cbn [fst snd] in Hok. rewrite Hk in Hok.
      destruct (syscall_number arch (s2l nm)) as [m|]; try discriminate. apply N.eqb_eq in Hok. subst m.
      change (2^32) with 4294967296 in Hn. rewrite u32_of_pos by lia.
      repeat split; auto. { intros E. rewrite E in Hne. discriminate. } { apply negb_true_iff in Hall. exact Hall. }
    + destruct (dec_head n) as (c & r & E & Hc & Hr). rewrite E.
      assert (Hw: forallb is_word (c :: r) = true).
      { cbn. rewrite (digit_is_word c Hc). cbn. clear - Hr. induction r as [|x r IH]; cbn in *; auto. apply andb_prop in Hr. destruct Hr. rewrite digit_is_word, IH; auto. }
      split; [discriminate|]. split; [exact Hw|]. split.
      * destruct (str_eqb_s (c :: r) "all") eqn:Ea; auto. apply str_eqb_s_eq in Ea. cbn in Ea. injection Ea as -> _. discriminate Hc.
      * rewrite <- E. unfold syscall_number. rewrite parse_int10_64_dec by exact Hn. change (2^32) with 4294967296 in Hn. rewrite u32_of_pos by lia. reflexivity.
  - cbn [lookupZ alookup]. destruct (dec_head n) as (c & r & E & Hc & Hr).
    assert (Hw: forallb is_word (c :: r) = true).
    { cbn. rewrite (digit_is_word c Hc). cbn. clear - Hr. induction r as [|x r IH]; cbn in *; auto. apply andb_prop in Hr. destruct Hr. rewrite digit_is_word, IH; auto. }
    change (lookupZ (Z.of_N n) []) with (@None string). cbv iota. rewrite E.
    split; [discriminate|]. split; [exact Hw|]. split.
    * destruct (str_eqb_s (c :: r) "all") eqn:Ea; auto. apply str_eqb_s_eq in Ea. cbn in Ea. injection Ea as -> _. discriminate Hc.
    * rewrite <- E. unfold syscall_number. rewrite parse_int10_64_dec by exact Hn. change (2^32) with 4294967296 in Hn. rewrite u32_of_pos by lia. reflexivity.
Qed.

Lemma syscalls_of_texts_back (arch : str) : forall ns all explicit acc, Forall (fun n => n < 2 ^ 32) ns ->
  syscalls_of_texts arch (map (syscall_text (sc_table arch)) ns) all explicit acc =
  Some (match ns with [] => all | _ => if explicit then all else false end, acc ++ ns).
Proof.
  induction ns as [|n r IH]; intros all explicit acc Hf; cbn [map syscalls_of_texts]. rewrite app_nil_r; reflexivity.
  inversion Hf as [|? ? Hn Hr]; subst. destruct (syscall_text_facts arch n Hn) as (_ & _ & Hall & Hnum).
  rewrite Hall, Hnum, IH by auto. rewrite <- app_assoc. cbn [app]. destruct r, explicit; reflexivity.
Qed.

(* the whole -S argument *)
Theorem syscall_arg_reads_back (arch : str) ns : ns <> [] -> Forall (fun n => n < 2 ^ 32) ns ->
  let v := join_with [","%char] (map (syscall_text (sc_table arch)) ns) in
  syscalls_of_texts arch (map trim_space (split_comma v)) true false [] = Some (false, ns) /\ v <> [] /\ forallb (fun c => is_word c || Ascii.eqb c ","%char) v = true.
Proof.
  intros Hne Hf v.
  assert (Hts: Forall (fun t => t <> [] /\ forallb is_word t = true) (map (syscall_text (sc_table arch)) ns)).
  { apply Forall_forall. intros t Ht. apply in_map_iff in Ht. destruct Ht as (n & <- & Hin). rewrite Forall_forall in Hf.
    destruct (syscall_text_facts arch n (Hf _ Hin)) as (H1 & H2 & _). auto. }
  assert (Hsplit: split_comma v = map (syscall_text (sc_table arch)) ns).
  { apply split_comma_join. destruct ns; [contradiction|discriminate].
    eapply Forall_impl; [|exact Hts]. intros t [_ Hw]. rewrite forallb_forall in *. intros x Hx. apply word_not_comma, Hw, Hx. }
  assert (Htrim: map trim_space (map (syscall_text (sc_table arch)) ns) = map (syscall_text (sc_table arch)) ns).
  { rewrite <- (map_id (map (syscall_text (sc_table arch)) ns)) at 2. apply map_ext_in. intros t Ht. rewrite Forall_forall in Hts.
    destruct (Hts _ Ht). apply trim_space_word; auto. }
  rewrite Hsplit, Htrim, syscalls_of_texts_back by auto. split. destruct ns; [contradiction|reflexivity]. split.
  - subst v. destruct ns as [|n r]; [contradiction|]. cbn [map]. inversion Hts as [|? ? [Hn _] _]; subst.
    destruct (syscall_text (sc_table arch) n) eqn:E; [contradiction|]. destruct (map _ r); cbn; discriminate.
  - subst v. clear - Hts. induction (map (syscall_text (sc_table arch)) ns) as [|t r IH]; [reflexivity|].
    inversion Hts as [|? ? [_ Hw] Hr]; subst. specialize (IH Hr).
    assert (Hwt: forallb (fun c => is_word c || Ascii.eqb c ","%char) t = true).
    { rewrite forallb_forall in *. intros x Hx. rewrite (Hw x Hx). reflexivity. }
    destruct r as [|t2 r']; cbn [join_with]; [exact Hwt|]. rewrite forallb_app, Hwt. cbn [forallb app]. rewrite Ascii.eqb_refl, orb_true_r. exact IH.
Qed.
Print Assumptions syscall_arg_reads_back.
