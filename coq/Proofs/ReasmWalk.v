(* Proofs/ReasmWalk.v — the trace walker of Check/ChkReasm.v (which reconstructs buffered
   sequences, completeness and opening times from observables only) accepts every run of
   the model: simulation between the walker's state and the model's state. *)
From Coq Require Import List ZArith Bool Lia Permutation Sorted.
Import ListNotations.
Require Import Reassembler ReasmInv ReasmC01 Window SortAppend ReasmC02 ReasmC03 ReasmC10 ChkBound ReasmBound ChkReasm WindowB ReasmClose ReasmCause.
Open Scope Z_scope.

(* ---------- small lemmas on the walker's lists ---------- *)
Lemma memZ_cons k x l : memZ k (x :: l) = (k =? x) || memZ k l.
Proof. reflexivity. Qed.
Lemma memZ_In k l : memZ k l = true <-> In k l.
Proof.
  unfold memZ. rewrite existsb_exists. split.
  - intros (x & Hx & He). apply Z.eqb_eq in He. subst. exact Hx.
  - intros H. exists k. split; auto. apply Z.eqb_refl.
Qed.
Lemma memZ_remZ k sq l : memZ k (remZ sq l) = memZ k l && negb (k =? sq).
Proof.
  unfold remZ. induction l as [|x l IH]; cbn [filter]; [reflexivity|].
  destruct (x =? sq) eqn:E; cbn [negb].
  - rewrite IH. rewrite memZ_cons. apply Z.eqb_eq in E. subst x. destruct (k =? sq); cbn; [rewrite andb_false_r; reflexivity | reflexivity].
  - rewrite !memZ_cons. rewrite IH. destruct (k =? x) eqn:E2; cbn [orb]; [|reflexivity].
    apply Z.eqb_eq in E2. subst k. rewrite E. reflexivity.
Qed.
Lemma alook_arem k sq l : k <> sq -> alook k (arem sq l) = alook k l.
Proof.
  intros H. unfold arem. induction l as [|[x v] l IH]; cbn [filter fst]; [reflexivity|].
  destruct (x =? sq) eqn:E; cbn [negb].
  - apply Z.eqb_eq in E. subst x. cbn [alook]. destruct (k =? sq) eqn:E2; [apply Z.eqb_eq in E2; contradiction|]. exact IH.
  - cbn [alook]. destruct (k =? x); auto.
Qed.

(* buffered sequences of the walker = keys of the model's table *)
Lemma bufseqs_In U sqs em k : InvL U sqs em -> (In k (bufseqs U) <-> In k sqs).
Proof.
  intros (Hnd & Hin & Hmsgs & HU). unfold bufseqs, useqs. rewrite nodup_In, in_map_iff. split.
  - intros (m & <- & Hm). auto.
  - intros Hk. apply Hin in Hk. destruct (lookup k em) as [e|] eqn:El; [|congruence]. destruct (Hmsgs _ _ El) as [Hm Hne].
    destruct (msgs e) as [|m0 g] eqn:Eg; [congruence|]. assert (Hi: In m0 (filter (sameseq k) U)) by (rewrite <- Hm; left; auto).
    apply filter_In in Hi. destruct Hi as [Hi He]. exists m0. split; auto. unfold sameseq in He. apply Z.eqb_eq in He. auto.
Qed.
Lemma memZ_bufseqs U sqs em k : InvL U sqs em -> memZ k (bufseqs U) = match lookup k em with Some _ => true | None => false end.
Proof.
  intros HI. pose proof (bufseqs_In U sqs em k HI) as H. destruct HI as (Hnd & Hin & _ & _).
  destruct (lookup k em) as [e|] eqn:El.
  - apply memZ_In. apply H. apply Hin. congruence.
  - destruct (memZ k (bufseqs U)) eqn:E; auto. apply memZ_In in E. apply H in E. apply Hin in E. congruence.
Qed.

Section Sim.
Variable c : config.

Definition SimL (w : wst) (sqs : list Z) (em : emap) : Prop :=
  InvL (wU w) sqs em /\
  (forall k e, lookup k em = Some e -> complete e = memZ k (wC w)) /\
  (forall k, memZ k (wC w) = true -> lookup k em <> None) /\
  (forall k e, lookup k em = Some e -> exists olo ohi, alook k (wOpen w) = Some (olo, ohi) /\ expire e = olo + timeout c /\ olo <= ohi).

Lemma SimL_init : SimL w0 [] [].
Proof.
  split; [apply InvL_init|]. split; [intros k e H; discriminate|]. split; [intros k H; discriminate | intros k e H; discriminate].
Qed.

(* ---------- Put against w_push ---------- *)
Lemma put_sim w s m tp tc : tp <= tc -> SimL w (seqs s) (events s) ->
  SimL (w_push w m tp tc) (seqs (put c tp m s)) (events (put c tp m s)).
Proof.
  intros Hclk (HI & H2 & H3 & H4).
  pose proof (put_inv c tp tc m s (wU w) HI) as HP.
  pose proof (memZ_bufseqs _ _ _ (mseq m) HI) as HB.
  unfold SimL. unfold w_push. unfold put in *. cbn [pushU] in HP.
  destruct (lookup (mseq m) (events s)) as [e|] eqn:El.
  - destruct (mty m =? AUDIT_EOE) eqn:Et; cbn [seqs events set_list wU wC wOpen] in *; rewrite HB; cbv beta iota; cbn [wU wC wOpen wClosed].
    + (* EOE for a buffered event *)
      split; [exact HP|]. split; [|split].
      * intros k e' Hk. rewrite memZ_cons. destruct (Z.eq_dec k (mseq m)) as [->|N].
        -- rewrite lookup_update_same in Hk. inversion Hk; subst. cbn. rewrite Z.eqb_refl. reflexivity.
        -- rewrite lookup_update_other in Hk by auto. replace (k =? mseq m) with false by (symmetry; apply Z.eqb_neq; auto). cbn. apply H2; auto.
      * intros k Hk. rewrite memZ_cons in Hk. destruct (Z.eq_dec k (mseq m)) as [->|N]; [rewrite lookup_update_same; discriminate|].
        rewrite lookup_update_other by auto. apply H3. replace (k =? mseq m) with false in Hk by (symmetry; apply Z.eqb_neq; auto). exact Hk.
      * intros k e' Hk. destruct (Z.eq_dec k (mseq m)) as [->|N].
        -- rewrite lookup_update_same in Hk. inversion Hk; subst. cbn [expire]. apply (H4 _ _ El).
        -- rewrite lookup_update_other in Hk by auto. apply (H4 _ _ Hk).
    + (* another record for a buffered event *)
      split; [exact HP|]. split; [|split].
      * intros k e' Hk. destruct (Z.eq_dec k (mseq m)) as [->|N].
        -- rewrite lookup_update_same in Hk. inversion Hk; subst. cbn [complete]. rewrite (H2 _ _ El).
           destruct (completes (mty m)); [rewrite memZ_cons, Z.eqb_refl, orb_true_r; reflexivity | rewrite orb_false_r; reflexivity].
        -- rewrite lookup_update_other in Hk by auto. rewrite (H2 _ _ Hk).
           destruct (completes (mty m)); [rewrite memZ_cons; replace (k =? mseq m) with false by (symmetry; apply Z.eqb_neq; auto); reflexivity | reflexivity].
      * intros k Hk. destruct (Z.eq_dec k (mseq m)) as [->|N]; [rewrite lookup_update_same; discriminate|].
        rewrite lookup_update_other by auto. apply H3. destruct (completes (mty m)); [|exact Hk].
        rewrite memZ_cons in Hk. replace (k =? mseq m) with false in Hk by (symmetry; apply Z.eqb_neq; auto). exact Hk.
      * intros k e' Hk. destruct (Z.eq_dec k (mseq m)) as [->|N].
        -- rewrite lookup_update_same in Hk. inversion Hk; subst. cbn [expire]. apply (H4 _ _ El).
        -- rewrite lookup_update_other in Hk by auto. apply (H4 _ _ Hk).
  - destruct (mty m =? AUDIT_EOE) eqn:Et; cbn [seqs events set_list wU wC wOpen] in *; rewrite HB; cbv beta iota; cbn [wU wC wOpen wClosed].
    + (* EOE for nothing that is buffered *)
      split; [exact HP|]. split; [exact H2|]. split; [exact H3|exact H4].
    + (* a new event *)
      assert (Hnot: memZ (mseq m) (wC w) = false).
      { destruct (memZ (mseq m) (wC w)) eqn:E; auto. apply H3 in E. congruence. }
      split; [exact HP|]. split; [|split].
      * intros k e' Hk. destruct (Z.eq_dec k (mseq m)) as [->|N].
        -- rewrite lookup_update_same in Hk. inversion Hk; subst. cbn [complete].
           destruct (completes (mty m)); [rewrite memZ_cons, Z.eqb_refl; reflexivity | symmetry; exact Hnot].
        -- rewrite lookup_update_other in Hk by auto. rewrite (H2 _ _ Hk).
           destruct (completes (mty m)); [rewrite memZ_cons; replace (k =? mseq m) with false by (symmetry; apply Z.eqb_neq; auto); reflexivity | reflexivity].
      * intros k Hk. destruct (Z.eq_dec k (mseq m)) as [->|N]; [rewrite lookup_update_same; discriminate|].
        rewrite lookup_update_other by auto. apply H3. destruct (completes (mty m)); [|exact Hk].
        rewrite memZ_cons in Hk. replace (k =? mseq m) with false in Hk by (symmetry; apply Z.eqb_neq; auto). exact Hk.
      * intros k e' Hk. destruct (Z.eq_dec k (mseq m)) as [->|N].
        -- rewrite lookup_update_same in Hk. inversion Hk; subst. cbn [expire alook]. rewrite Z.eqb_refl. exists tp, tc. auto.
        -- rewrite lookup_update_other in Hk by auto. cbn [alook]. replace (k =? mseq m) with false by (symmetry; apply Z.eqb_neq; auto). apply (H4 _ _ Hk).
Qed.

(* ---------- removing the head event ---------- *)
Lemma InvL_remove_head U sq rest em : InvL U (sq :: rest) em ->
  InvL (filter (fun m => negb (sameseq sq m)) U) rest (remove sq em).
Proof.
  intros (Hnd & Hin & Hmsgs & HU). inversion Hnd as [|? ? Hnotin Hnd']; subst. repeat split; auto.
  - intros H. rewrite lookup_remove_other. apply Hin; right; auto. intros ->; contradiction.
  - intros H. destruct (Z.eq_dec k sq) as [->|N]. rewrite lookup_remove_same in H; congruence.
    rewrite lookup_remove_other in H by auto. apply Hin in H. destruct H; auto. congruence.
  - destruct (Z.eq_dec k sq) as [->|N]. rewrite lookup_remove_same in H; congruence.
    rewrite lookup_remove_other in H by auto. rewrite filter_filter_other by auto. apply (Hmsgs _ _ H).
  - destruct (Z.eq_dec k sq) as [->|N]. rewrite lookup_remove_same in H; congruence.
    rewrite lookup_remove_other in H by auto. apply (Hmsgs _ _ H).
  - intros m Hm'. apply filter_In in Hm'. destruct Hm' as [HmU Hneq].
    apply HU in HmU. destruct HmU as [E|]; auto. unfold sameseq in Hneq. rewrite <- E, Z.eqb_refl in Hneq. discriminate.
Qed.

Lemma SimL_remove_head w sq rest em : SimL w (sq :: rest) em ->
  SimL {| wU := filter (fun m => negb (sameseq sq m)) (wU w); wC := remZ sq (wC w); wOpen := arem sq (wOpen w); wClosed := wClosed w |} rest (remove sq em).
Proof.
  intros (HI & H2 & H3 & H4). unfold SimL. cbn [wU wC wOpen wClosed]. split; [apply InvL_remove_head; exact HI|]. split; [|split].
  - intros k e Hk. destruct (Z.eq_dec k sq) as [->|N]; [rewrite lookup_remove_same in Hk; discriminate|].
    rewrite lookup_remove_other in Hk by auto. rewrite memZ_remZ. replace (k =? sq) with false by (symmetry; apply Z.eqb_neq; auto).
    rewrite andb_true_r. apply (H2 _ _ Hk).
  - intros k Hk. rewrite memZ_remZ in Hk. apply andb_prop in Hk. destruct Hk as [Hk1 Hk2]. apply negb_true_iff in Hk2. apply Z.eqb_neq in Hk2.
    rewrite lookup_remove_other by auto. apply H3; auto.
  - intros k e Hk. destruct (Z.eq_dec k sq) as [->|N]; [rewrite lookup_remove_same in Hk; discriminate|].
    rewrite lookup_remove_other in Hk by auto. rewrite alook_arem by auto. apply (H4 _ _ Hk).
Qed.

(* ---------- CleanUp / Clear against w_outs ---------- *)
Lemma evict_sim force now : forall sqs em last has w cf, SimL w sqs em ->
  let '(sqs', em', _, _, outs, _) := evict force c now sqs em last has in
  let '(w', cf') := w_outs (maxSize c) (timeout c) now w outs cf in
  SimL w' sqs' em' /\ (force = false -> cf' = cf) /\ wClosed w' = wClosed w /\ (force = true -> wU w' = []) /\
  ret_true outs = false /\ ret_false outs = false /\ chk_outs (wU w) outs = Some (wU w').
Proof.
  induction sqs as [|sq rest IH]; intros em last has w cf HS; cbn [evict].
  - cbn [w_outs]. split; [exact HS|]. split; [auto|]. split; [reflexivity|]. split; [|split; [reflexivity|split; reflexivity]].
    intros _. destruct HS as ((_ & _ & _ & HU) & _). destruct (wU w) as [|m0 U0]; auto. exfalso. apply (HU m0). left; auto.
  - pose proof HS as (HI & H2 & H3 & H4). pose proof HI as (Hnd & Hin & Hmsgs & HU).
    destruct (lookup sq em) as [e|] eqn:El; [|exfalso; apply (proj1 (Hin sq)); auto; left; auto].
    destruct (force || complete e || (Z.of_nat (length (sq :: rest)) >? maxSize c) || (now >? expire e)) eqn:Ec.
    + destruct (advance last has sq) as [[d l'] h'].
      destruct (Hmsgs _ _ El) as [Hm Hne]. destruct (msgs e) as [|m0 g] eqn:Eg; [congruence|].
      assert (Hm0: mseq m0 = sq).
      { assert (Hi: In m0 (filter (sameseq sq) (wU w))) by (rewrite <- Hm; left; auto).
        apply filter_In in Hi. destruct Hi as [_ Hi]. unfold sameseq in Hi. apply Z.eqb_eq in Hi. auto. }
      pose proof (SimL_remove_head _ _ _ _ HS) as HS1.
      set (w1 := {| wU := filter (fun m => negb (sameseq sq m)) (wU w); wC := remZ sq (wC w); wOpen := arem sq (wOpen w); wClosed := wClosed w |}) in *.
      (* the cause the walker computes is the model's eviction condition without the force flag *)
      destruct (H4 _ _ El) as (olo & ohi & Ha & Hexp & _).
      assert (Hcause: snd (w_deliver (maxSize c) (timeout c) now w sq) = complete e || (Z.of_nat (length (sq :: rest)) >? maxSize c) || (now >? expire e)).
      { unfold w_deliver. cbn [snd]. rewrite Ha. rewrite <- (H2 _ _ El). unfold bufseqs. rewrite (useqs_length _ _ _ HI). rewrite Hexp. reflexivity. }
      assert (Hw1: fst (w_deliver (maxSize c) (timeout c) now w sq) = w1) by reflexivity.
      specialize (IH (remove sq em) l' h' w1 (cf && snd (w_deliver (maxSize c) (timeout c) now w sq)) HS1).
      destruct (evict force c now rest (remove sq em) l' h') as [[[[[sqs' em'] l''] h''] outs] lost].
      cbn [w_outs]. rewrite Hm0. destruct (w_deliver (maxSize c) (timeout c) now w sq) as [wd cd] eqn:Ed. cbn [fst snd] in Hw1, Hcause, IH. subst wd.
      destruct (w_outs (maxSize c) (timeout c) now w1 outs (cf && cd)) as [w' cf'].
      destruct IH as (IS & Icf & Icl & IU & Irt & Irf & Ichk). split; [exact IS|]. split; [|split; [exact Icl|split; [exact IU|split; [exact Irt|split; [exact Irf|]]]]].
      * intros Hf. rewrite (Icf Hf). subst force. cbn [orb] in Ec. rewrite Hcause, Ec. apply andb_true_r.
      * cbn [chk_outs]. rewrite Hm0, Hm, list_eqb_refl. exact Ichk.
    + cbn [w_outs]. split; [exact HS|]. split; [auto|]. split; [reflexivity|]. split; [|split; [reflexivity|split; reflexivity]].
      intros ->. cbn in Ec. discriminate.
Qed.

(* ---------- w_outs over the tail of a call's outputs ---------- *)
Lemma w_outs_app maxsz tmo hi : forall o1 o2 w cf,
  w_outs maxsz tmo hi w (o1 ++ o2) cf = let '(w1, c1) := w_outs maxsz tmo hi w o1 cf in w_outs maxsz tmo hi w1 o2 c1.
Proof.
  induction o1 as [|x o1 IH]; intros o2 w cf; cbn [app w_outs]; [reflexivity|].
  destruct x as [[|m0 g]| | |]; try apply IH; destruct (w_deliver maxsz tmo hi w (mseq m0)) as [w' c']; apply IH.
Qed.
Lemma w_outs_lost maxsz tmo hi w cf lost : w_outs maxsz tmo hi w (if lost >? 0 then [Lost lost] else []) cf = (w, cf).
Proof. destruct (lost >? 0); reflexivity. Qed.

Lemma ret_app_true a b : ret_true (a ++ b) = ret_true a || ret_true b. Proof. unfold ret_true. apply existsb_app. Qed.
Lemma ret_app_false a b : ret_false (a ++ b) = ret_false a || ret_false b. Proof. unfold ret_false. apply existsb_app. Qed.
Lemma ret_lost_true lost : ret_true (if lost >? 0 then [Lost lost] else []) = false. Proof. destruct (lost >? 0); reflexivity. Qed.
Lemma ret_lost_false lost : ret_false (if lost >? 0 then [Lost lost] else []) = false. Proof. destruct (lost >? 0); reflexivity. Qed.

(* CleanUp / Clear as a whole *)
Lemma cleanup_sim force now s w cf : SimL w (seqs s) (events s) ->
  let '(s', outs) := cleanup force c now s in
  let '(w', cf') := w_outs (maxSize c) (timeout c) now w outs cf in
  SimL w' (seqs s') (events s') /\ (force = false -> cf' = cf) /\ wClosed w' = wClosed w /\ (force = true -> wU w' = []) /\
  ret_true outs = false /\ ret_false outs = false /\ chk_outs (wU w) outs = Some (wU w') /\ closed s' = closed s.
Proof.
  intros HS. unfold cleanup. pose proof (evict_sim force now (seqs s) (events s) (lastSeq s) (hasLast s) w cf HS) as HE.
  destruct (evict force c now (seqs s) (events s) (lastSeq s) (hasLast s)) as [[[[[sqs' em'] l'] h'] outs] lost].
  rewrite w_outs_app. destruct (w_outs (maxSize c) (timeout c) now w outs cf) as [w' cf'] eqn:Ew. rewrite w_outs_lost.
  destruct HE as (IS & Icf & Icl & IU & Irt & Irf & Ichk). cbn [seqs events closed].
  split; [exact IS|]. split; [exact Icf|]. split; [exact Icl|]. split; [exact IU|].
  split; [rewrite ret_app_true, Irt, ret_lost_true; reflexivity|]. split; [rewrite ret_app_false, Irf, ret_lost_false; reflexivity|].
  split; [|reflexivity]. rewrite (chk_outs_app _ _ _ _ Ichk). destruct (lost >? 0); reflexivity.
Qed.

(* what CleanUp leaves at the head, seen from the walker *)
Lemma less_asym a b : less a b = true -> less b a = false.
Proof.
  unfold less, maxSortRange. replace (Z.abs (b - a)) with (Z.abs (a - b)) by lia.
  destruct (Z.abs (a - b) >? 2 ^ 24 - 1); intros H; lia.
Qed.
Lemma find_unique (P : Z -> bool) k : forall l, In k l -> P k = true -> (forall a, In a l -> a <> k -> P a = false) -> find P l = Some k.
Proof.
  induction l as [|x l IH]; intros Hin Hk Hother; [contradiction|]. cbn [find].
  destruct (Z.eq_dec x k) as [->|N]; [rewrite Hk; reflexivity|].
  rewrite (Hother x) by (auto; left; reflexivity). apply IH; auto.
  - destruct Hin as [E|Hin]; [congruence|exact Hin].
  - intros a Ha. apply Hother. right; exact Ha.
Qed.
Lemma lessmin_head U k rest em : InvL U (k :: rest) em -> sorted (k :: rest) -> lessmin (bufseqs U) = Some k.
Proof.
  intros HI Hs. unfold lessmin. apply find_unique.
  - apply (bufseqs_In _ _ _ k HI). left; reflexivity.
  - apply forallb_forall. intros b Hb. apply (bufseqs_In _ _ _ b HI) in Hb. destruct Hb as [<-|Hb]; [rewrite Z.eqb_refl; reflexivity|].
    rewrite (sorted_head k rest b Hs Hb). apply orb_true_r.
  - intros a Ha Hne. apply (bufseqs_In _ _ _ a HI) in Ha. destruct Ha as [E|Ha]; [congruence|].
    apply not_true_is_false. intros HP. rewrite forallb_forall in HP.
    assert (Hk: In k (bufseqs U)) by (apply (bufseqs_In _ _ _ k HI); left; reflexivity).
    specialize (HP k Hk). apply orb_prop in HP. destruct HP as [HP|HP]; [apply Z.eqb_eq in HP; congruence|].
    pose proof (sorted_head k rest a Hs Ha) as Hka. apply less_asym in Hka. congruence.
Qed.
Lemma lessmin_nil U em : InvL U [] em -> lessmin (bufseqs U) = None.
Proof.
  intros HI. destruct (bufseqs U) as [|x l] eqn:E; [reflexivity|].
  exfalso. assert (In x (bufseqs U)) by (rewrite E; left; reflexivity). apply (bufseqs_In _ _ _ x HI) in H. exact H.
Qed.

Lemma evict_suffix force now : forall sqs em last has,
  let '(sqs', _, _, _, _, _) := evict force c now sqs em last has in exists pre, sqs = pre ++ sqs'.
Proof.
  induction sqs as [|sq rest IH]; intros em last has; cbn [evict]; [exists []; reflexivity|].
  destruct (lookup sq em) as [e|]; [|exists []; reflexivity].
  destruct (force || complete e || (Z.of_nat (length (sq :: rest)) >? maxSize c) || (now >? expire e)); [|exists []; reflexivity].
  destruct (advance last has sq) as [[d l'] h']. specialize (IH (remove sq em) l' h').
  destruct (evict force c now rest (remove sq em) l' h') as [[[[[sqs' em'] l''] h''] outs] lost].
  destruct IH as [pre Hp]. exists (sq :: pre). rewrite Hp. reflexivity.
Qed.
Lemma sorted_suffix pre l : sorted (pre ++ l) -> sorted l.
Proof. induction pre as [|x pre IH]; cbn [app]; auto. intros H. apply IH. eapply sorted_tail; eauto. Qed.
Lemma cleanup_sorted force now s : sorted (seqs s) -> sorted (seqs (fst (cleanup force c now s))).
Proof.
  intros Hs. unfold cleanup. pose proof (evict_suffix force now (seqs s) (events s) (lastSeq s) (hasLast s)) as H.
  destruct (evict force c now (seqs s) (events s) (lastSeq s) (hasLast s)) as [[[[[sqs' em'] l'] h'] outs] lost].
  destruct H as [pre Hp]. cbn [fst seqs]. rewrite Hp in Hs. eapply sorted_suffix; eauto.
Qed.

(* ---------- one call ---------- *)
Lemma no_panic_of_chk : forall o t U0 U1, In Panic o -> chk_outs U0 (o ++ t) = Some U1 -> False.
Proof.
  induction o as [|x o IH]; intros t U0 U1 Hin Hx; cbn [In app] in *; [contradiction|].
  destruct Hin as [->|Hin]; [cbn in Hx; discriminate|].
  destruct x as [[|m0 g]| | |]; cbn [chk_outs] in Hx; try discriminate; eauto.
  destruct (list_eqb _ _); try discriminate. eauto.
Qed.

Lemma cleanup_head now s :
  let '(s', outs) := cleanup false c now s in
  In Panic outs \/
  match seqs s' with
  | [] => True
  | k :: _ => exists e, lookup k (events s') = Some e /\ complete e = false /\ Z.of_nat (length (seqs s')) <= maxSize c /\ now <= expire e
  end.
Proof.
  unfold cleanup. pose proof (ReasmCause.head_after_cleanup c now (seqs s) (events s) (lastSeq s) (hasLast s)) as H.
  destruct (evict false c now (seqs s) (events s) (lastSeq s) (hasLast s)) as [[[[[sqs' em'] l'] h'] outs] lost].
  cbn [seqs events]. destruct H as [H|H]; [left; apply in_or_app; left; exact H | right; exact H].
Qed.

Definition op_clock_ok (o : op) : Prop := match o with Push _ tp tc => tp <= tc | _ => True end.
Definition vgood (v : verdicts) : Prop := v_bound v = true /\ v_cause v = true /\ v_close v = true.
Definition vfull (v : verdicts) : Prop := v_oldest v = true /\ v_stale v = true.

(* the head facts seen through the walker's state *)
Lemma head_verdicts w s' lo now : SimL w (seqs s') (events s') -> sorted (seqs s') -> lo <= now ->
  match seqs s' with
  | [] => True
  | k :: _ => exists e, lookup k (events s') = Some e /\ complete e = false /\ Z.of_nat (length (seqs s')) <= maxSize c /\ now <= expire e
  end ->
  oldest_incomplete w = true /\ not_stale (timeout c) lo w = true.
Proof.
  intros (HI & H2 & H3 & H4) Hs Hlo Hhead. unfold oldest_incomplete, not_stale.
  destruct (seqs s') as [|k rest] eqn:Es.
  - rewrite (lessmin_nil _ _ HI). auto.
  - rewrite (lessmin_head _ _ _ _ HI Hs). destruct Hhead as (e & He & Hc & _ & Hexp).
    rewrite <- (H2 _ _ He), Hc. split; [reflexivity|].
    destruct (H4 _ _ He) as (olo & ohi & Ha & Hx & Hle). rewrite Ha. apply negb_true_iff. lia.
Qed.

Lemma wU_w_push w m lo hi : wU (w_push w m lo hi) = pushU (wU w) (Push (Some m) lo hi).
Proof. unfold w_push. cbn [pushU]. destruct (mty m =? AUDIT_EOE); reflexivity. Qed.
Lemma wClosed_w_push w m lo hi : wClosed (w_push w m lo hi) = wClosed w.
Proof. unfold w_push. destruct (mty m =? AUDIT_EOE); reflexivity. Qed.

Lemma step_sim o s w : SimL w (seqs s) (events s) -> wClosed w = closed s -> op_clock_ok o -> 0 <= maxSize c ->
  let '(s', outs) := step c s o in
  let '(w', v) := w_call (maxSize c) (timeout c) w (exact o) outs in
  SimL w' (seqs s') (events s') /\ wClosed w' = closed s' /\ chk_outs (pushU (wU w) o) outs = Some (wU w') /\ vgood v /\
  (sorted (seqs s) -> (match o with Push (Some m) _ _ => fits (wU w) (mseq m) | _ => True end) -> sorted (seqs s') /\ vfull v).
Proof.
  intros HS Hcl Hclk Hmax. destruct o as [[m|] tp tc | now | ]; cbn [step exact].
  - (* PushMessage *)
    cbn [op_clock_ok] in Hclk. pose proof (put_sim w s m tp tc Hclk HS) as HS1.
    pose proof (cleanup_sim false tc (put c tp m s) (w_push w m tp tc) true HS1) as HC.
    pose proof (cleanup_head tc (put c tp m s)) as HH.
    pose proof (push_bound c tp tc m s (wU w) Hmax (proj1 HS)) as HB. cbn [step] in HB.
    destruct (cleanup false c tc (put c tp m s)) as [s' outs] eqn:Ecl. cbn [w_call].
    destruct (w_outs (maxSize c) (timeout c) tc (w_push w m tp tc) outs true) as [w' cf'] eqn:Ew.
    destruct HC as (IS & Icf & Icl & _ & Irt & Irf & Ichk & Iclosed). rewrite wU_w_push in Ichk.
    destruct HB as (U' & HcU & HIU & Hlen). assert (U' = wU w') by congruence. subst U'.
    assert (Hnp: ~ In Panic outs). { intros Hp. eapply (no_panic_of_chk outs []); [exact Hp | rewrite app_nil_r; exact Ichk]. }
    split; [exact IS|]. split; [rewrite Icl, wClosed_w_push, Iclosed, put_closed; exact Hcl|]. split; [exact Ichk|].
    split. { unfold vgood. cbn [v_bound v_cause v_close]. split; [apply Z.leb_le; exact Hlen|]. split; [apply Icf; reflexivity | reflexivity]. }
    intros Hsorted Hfits. pose proof (put_sorted c tp m s (wU w) (proj1 HS) Hsorted Hfits) as Hs1.
    pose proof (cleanup_sorted false tc (put c tp m s) Hs1) as Hs'. rewrite Ecl in Hs'. cbn [fst] in Hs'. split; [exact Hs'|].
    destruct HH as [HH|HH]; [contradiction|]. unfold vfull. cbn [v_oldest v_stale]. apply (head_verdicts w' s' tp tc IS Hs' Hclk HH).
  - (* nil message *)
    cbn [w_call]. split; [exact HS|]. split; [exact Hcl|]. split; [reflexivity|]. split; [repeat split|]. intros Hs _. split; [exact Hs|split; reflexivity].
  - (* Maintain *)
    destruct (closed s) eqn:Ecs.
    + cbn [w_call]. rewrite Hcl. split; [exact HS|]. split; [congruence|]. split; [reflexivity|]. split; [repeat split|]. intros Hs _. split; [exact Hs|split; reflexivity].
    + pose proof (cleanup_sim false now s w true HS) as HC. pose proof (cleanup_head now s) as HH.
      destruct (cleanup false c now s) as [s' o] eqn:Ecl. cbn [w_call]. rewrite Hcl. rewrite w_outs_app.
      destruct (w_outs (maxSize c) (timeout c) now w o true) as [w' cf'] eqn:Ew. cbn [w_outs].
      destruct HC as (IS & Icf & Icl & _ & Irt & Irf & Ichk & Iclosed).
      assert (Hnp: ~ In Panic o). { intros Hp. eapply (no_panic_of_chk o []); [exact Hp | rewrite app_nil_r; exact Ichk]. }
      split; [exact IS|]. split; [congruence|]. split; [cbn [pushU]; rewrite (chk_outs_app _ _ _ _ Ichk); reflexivity|].
      split. { unfold vgood. cbn [v_bound v_cause v_close]. split; [reflexivity|]. split; [apply Icf; reflexivity|]. rewrite ret_app_true, ret_app_false, Irt, Irf. reflexivity. }
      intros Hsorted _. pose proof (cleanup_sorted false now s Hsorted) as Hs'. rewrite Ecl in Hs'. cbn [fst] in Hs'. split; [exact Hs'|].
      destruct HH as [HH|HH]; [contradiction|]. unfold vfull. cbn [v_oldest v_stale]. apply (head_verdicts w' s' now now IS Hs' (Z.le_refl now) HH).
  - (* Close *)
    destruct (closed s) eqn:Ecs.
    + cbn [w_call]. rewrite Hcl. split; [exact HS|]. split; [congruence|]. split; [reflexivity|]. split; [repeat split|]. intros Hs _. split; [exact Hs|split; reflexivity].
    + set (s1 := {| seqs := seqs s; events := events s; lastSeq := lastSeq s; hasLast := hasLast s; closed := true |}).
      pose proof (cleanup_sim true 0 s1 w true HS) as HC.
      destruct (cleanup true c 0 s1) as [s' o] eqn:Ecl. cbn [w_call]. rewrite Hcl. rewrite w_outs_app.
      destruct (w_outs (maxSize c) (timeout c) 0 w o true) as [w' cf'] eqn:Ew. cbn [w_outs wU wC wOpen wClosed].
      destruct HC as (IS & _ & Icl & IU & Irt & Irf & Ichk & Iclosed). specialize (IU eq_refl).
      split; [exact IS|]. split; [rewrite Iclosed; reflexivity|]. split; [cbn [pushU]; rewrite (chk_outs_app _ _ _ _ Ichk); reflexivity|].
      split. { unfold vgood. cbn [v_bound v_cause v_close]. split; [reflexivity|]. split; [reflexivity|]. rewrite ret_app_true, ret_app_false, Irt, Irf, IU. reflexivity. }
      intros Hsorted _. pose proof (cleanup_sorted true 0 s1 Hsorted) as Hs'. rewrite Ecl in Hs'. cbn [fst] in Hs'. split; [exact Hs'|split; reflexivity].
Qed.

(* ---------- a whole history ---------- *)
Definition clock_ok (ops : list op) : Prop := Forall op_clock_ok ops.

Theorem walk_run : forall ops s w, SimL w (seqs s) (events s) -> wClosed w = closed s -> clock_ok ops -> 0 <= maxSize c ->
  let v := walk (maxSize c) (timeout c) w (map exact ops) (run c s ops) in
  vgood v /\ (sorted (seqs s) -> windowed (wU w) ops (run c s ops) -> vfull v).
Proof.
  induction ops as [|o ops IH]; intros s w HS Hcl Hclk Hmax; cbn [map run walk].
  - split; [repeat split|intros; split; reflexivity].
  - inversion Hclk as [|? ? Ho Hrest]; subst. pose proof (step_sim o s w HS Hcl Ho Hmax) as HStep.
    destruct (step c s o) as [s' outs] eqn:Est. cbn [walk].
    destruct (w_call (maxSize c) (timeout c) w (exact o) outs) as [w' v] eqn:Ecall.
    destruct HStep as (IS & Icl & Ichk & Ivg & Ifull). specialize (IH s' w' IS Icl Hrest Hmax). cbn zeta in IH.
    destruct IH as [IHg IHf]. destruct Ivg as (V1 & V2 & V3). destruct IHg as (W1 & W2 & W3).
    split.
    + unfold vgood, vand. cbn [v_bound v_cause v_close]. rewrite V1, V2, V3, W1, W2, W3. repeat split.
    + intros Hsorted Hwin. cbn [windowed] in Hwin. destruct Hwin as [Hfit Hwin]. specialize (Hwin _ Ichk).
      destruct (Ifull Hsorted Hfit) as [Hs' [F1 F2]]. destruct (IHf Hs' Hwin) as [G1 G2].
      unfold vfull, vand. cbn [v_oldest v_stale]. rewrite F1, F2, G1, G2. split; reflexivity.
Qed.
End Sim.

(* ---------- the checkers the judge evaluates accept every run of the model ---------- *)
Theorem chk_C10_obs_run c ops : 0 <= maxSize c -> clock_ok ops ->
  chk_C10_obs (maxSize c) (timeout c) (map exact ops) (run c init ops) = true.
Proof.
  intros Hmax Hclk. unfold chk_C10_obs. rewrite early_exact.
  pose proof (walk_run c ops init w0 (SimL_init c) eq_refl Hclk Hmax) as [(V1 & V2 & V3) Hfull]. cbn zeta in *.
  rewrite (run_chk_bound c ops init [] Hmax InvL_init). rewrite V1, V2. cbn [andb].
  destruct (windowedb [] ops (run c init ops)) eqn:Ew; [|reflexivity].
  apply windowedb_windowed in Ew. destruct (Hfull ltac:(constructor) Ew) as [F1 _]. exact F1.
Qed.
(* what C03's checker accepts call by call, the Close-only reading accepts *)
Lemma chk_C03_close_lost : forall tr last hs, chk_C03 last tr = true -> chk_close_lost last hs tr = true.
Proof.
  induction tr as [|outs tr IH]; intros last hs H; destruct hs as [|h hs]; cbn [chk_close_lost]; try reflexivity.
  cbn [chk_C03] in H. destruct (chk_call last outs) as [last'|]; [|discriminate]. apply IH. exact H.
Qed.
Theorem chk_C19_obs_run c ops : 0 <= maxSize c -> clock_ok ops ->
  chk_C19_obs (maxSize c) (timeout c) (map exact ops) (run c init ops) = true.
Proof.
  intros Hmax Hclk. unfold chk_C19_obs. rewrite early_exact.
  pose proof (walk_run c ops init w0 (SimL_init c) eq_refl Hclk Hmax) as [(V1 & V2 & V3) Hfull]. cbn zeta in *.
  rewrite V2, V3. cbn [andb].
  rewrite (chk_C03_close_lost _ None (map exact ops) (run_chk_C03 c ops init [] InvL_init)). rewrite andb_true_r.
  destruct (windowedb [] ops (run c init ops)) eqn:Ew; [|reflexivity].
  apply windowedb_windowed in Ew. destruct (Hfull ltac:(constructor) Ew) as [_ F2]. exact F2.
Qed.
