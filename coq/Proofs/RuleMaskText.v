(* Proofs/RuleMaskText.v — the syscall numbers ToCommandLine lists for a mask rebuild exactly that mask. *)
From Coq Require Import List NArith ZArith Bool Lia ZifyBool ZifyN ZifyNat.
Import ListNotations.
Require Import Bytes Mask RuleText.
Open Scope N_scope.
Local Arguments N.mul : simpl never.
Local Arguments N.add : simpl never.
Local Arguments N.testbit : simpl never.

Lemma In_bits_of w word : forall fuel b k,
  In k (bits_of w word b fuel) <-> exists j, (b <= j < b + fuel)%nat /\ N.testbit w (N.of_nat j) = true /\ k = word * 32 + N.of_nat j.
Proof.
  induction fuel as [|fuel IH]; intros b k; cbn [bits_of].
  - split; [contradiction|]. intros (j & Hj & _). lia.
  - rewrite in_app_iff, IH. split.
    + intros [H|(j & Hj & Ht & Hk)].
      * destruct (N.testbit w (N.of_nat b)) eqn:E; [|contradiction]. destruct H as [<-|[]]. exists b. repeat split; auto; lia.
      * exists j. repeat split; auto; lia.
    + intros (j & Hj & Ht & Hk). destruct (Nat.eq_dec j b) as [->|Hne].
      * left. rewrite Ht. left. auto.
      * right. exists j. repeat split; auto; lia.
Qed.

Lemma In_syscalls_of : forall m word k,
  In k (syscalls_of m word) <-> exists i j, (i < length m)%nat /\ (j < 32)%nat /\ N.testbit (nth i m 0) (N.of_nat j) = true /\ k = (word + N.of_nat i) * 32 + N.of_nat j.
Proof.
  induction m as [|w r IH]; intros word k; cbn [syscalls_of].
  - split; [contradiction|]. intros (i & j & Hi & _). cbn in Hi. lia.
  - rewrite in_app_iff, In_bits_of, IH. split.
    + intros [(j & Hj & Ht & Hk)|(i & j & Hi & Hj & Ht & Hk)].
      * exists O, j. cbn [nth length]. repeat split; auto; try lia.
      * exists (S i), j. cbn [nth length]. repeat split; auto; try lia.
    + intros (i & j & Hi & Hj & Ht & Hk). destruct i as [|i].
      * left. exists j. cbn [nth] in Ht. repeat split; auto; try lia.
      * right. exists i, j. cbn [nth length] in *. repeat split; auto; try lia.
Qed.

Definition mask_wf (m : list N) : Prop := length m = 64%nat /\ Forall (fun w => w < 2 ^ 32) m.

Lemma word_small_bits w j : w < 2 ^ 32 -> 32 <= j -> N.testbit w j = false.
Proof.
  intros Hw Hj. destruct (N.eq_dec w 0) as [->|Hz]; [apply N.bits_0|]. apply N.bits_above_log2.
  assert (N.log2 w < 32) by (apply N.log2_lt_pow2; lia). lia.
Qed.

Lemma In_syscalls_testbit m k : mask_wf m -> (In k (syscalls_of m 0) <-> testbit_mask m k = true).
Proof.
  intros [Hl Hw]. rewrite In_syscalls_of. unfold testbit_mask.
  pose proof (N.div_mod k 32 ltac:(lia)) as Ek. pose proof (N.mod_lt k 32 ltac:(lia)) as Hm.
  split.
  - intros (i & j & Hi & Hj & Ht & Hk).
    assert (k / 32 = N.of_nat i /\ k mod 32 = N.of_nat j) as [E1 E2].
    { assert (k = 32 * N.of_nat i + N.of_nat j) by lia. split.
      - symmetry. apply (N.div_unique k 32 (N.of_nat i) (N.of_nat j)); lia.
      - symmetry. apply (N.mod_unique k 32 (N.of_nat i) (N.of_nat j)); lia. }
    rewrite E1, E2, Nat2N.id. exact Ht.
  - intros Ht. exists (N.to_nat (k / 32)), (N.to_nat (k mod 32)).
    assert (Hi: (N.to_nat (k / 32) < length m)%nat).
    { destruct (le_lt_dec (length m) (N.to_nat (k / 32))) as [Hge|]; auto. rewrite nth_overflow in Ht by lia. rewrite N.bits_0 in Ht. discriminate. }
    rewrite !N2Nat.id. repeat split; auto; lia.
Qed.

Lemma mask_ext m1 m2 : mask_wf m1 -> mask_wf m2 -> (forall k, testbit_mask m1 k = testbit_mask m2 k) -> m1 = m2.
Proof.
  intros [L1 W1] [L2 W2] H. apply (nth_ext _ _ 0 0); [lia|]. intros i Hi.
  rewrite Forall_forall in W1, W2.
  assert (Hw1: nth i m1 0 < 2 ^ 32) by (apply W1, nth_In; lia).
  assert (Hw2: nth i m2 0 < 2 ^ 32) by (apply W2, nth_In; lia).
  apply N.bits_inj. intros b. destruct (N.lt_ge_cases b 32) as [Hb|Hb].
  - specialize (H (N.of_nat i * 32 + b)). unfold testbit_mask in H.
    assert ((N.of_nat i * 32 + b) / 32 = N.of_nat i) as E1 by (symmetry; apply (N.div_unique _ 32 (N.of_nat i) b); lia).
    assert ((N.of_nat i * 32 + b) mod 32 = b) as E2 by (symmetry; apply (N.mod_unique _ 32 (N.of_nat i) b); lia).
    rewrite E1, E2, Nat2N.id in H. exact H.
  - rewrite !word_small_bits; auto.
Qed.

Theorem mask_of_listed_syscalls m : mask_wf m -> build_mask (repeat 0 64) (syscalls_of m 0) = Some m.
Proof.
  intros Hwf. pose proof Hwf as [Hl Hw].
  assert (Hex: forall l acc, length acc = 64%nat -> Forall (fun n => n < 2048) l -> exists m', build_mask acc l = Some m' /\ length m' = 64%nat).
  { induction l as [|n r IH]; intros acc Ha Hf; cbn [build_mask]; [eauto|]. inversion Hf as [|? ? Hn Hr]; subst.
    destruct (set_syscall_total acc n) as (m1 & E1 & L1); [rewrite Ha; lia|]. rewrite E1. apply IH; auto. lia. }
  assert (Hsmall: Forall (fun n => n < 2048) (syscalls_of m 0)).
  { apply Forall_forall. intros k Hk. apply In_syscalls_of in Hk. destruct Hk as (i & j & Hi & Hj & _ & ->). lia. }
  destruct (Hex _ (repeat 0 64) (repeat_length _ _) Hsmall) as (m' & Hb & Hl').
  rewrite Hb. f_equal. apply mask_ext; auto.
  - split; auto.
    assert (G: forall l acc m'', Forall (fun w => w < 2 ^ 32) acc -> build_mask acc l = Some m'' -> Forall (fun w => w < 2 ^ 32) m'').
    { induction l as [|n r IH]; intros acc m'' Ha Hbm; cbn [build_mask] in Hbm; [injection Hbm as <-; auto|].
      destruct (set_syscall acc n) as [m1|] eqn:E1; [|discriminate]. apply (IH m1); auto.
      unfold set_syscall in E1. destruct (_ <=? _); [discriminate|].
      apply Forall_forall. intros x Hx. destruct (In_nth _ _ 0 Hx) as (j & Hj & <-). rewrite (upd_nth _ _ _ _ j E1).
      rewrite Forall_forall in Ha. rewrite (upd_length _ _ _ _ E1) in Hj.
      destruct (Nat.eqb _ j); [|apply Ha, nth_In; lia].
      assert (Hx1: nth j acc 0 < 2 ^ 32) by (apply Ha, nth_In; lia).
      assert (Hbit: n mod 32 < 32) by (apply N.mod_lt; lia).
      destruct (N.eq_dec (N.lor (nth j acc 0) (2 ^ (n mod 32))) 0) as [->|Hnz]; [reflexivity|].
      apply N.log2_lt_pow2; [lia|]. rewrite N.log2_lor, N.log2_pow2 by lia.
      destruct (N.eq_dec (nth j acc 0) 0) as [->|Hz]; [cbn; lia|]. assert (N.log2 (nth j acc 0) < 32) by (apply N.log2_lt_pow2; lia). lia. }
    assert (Hz: Forall (fun w => w < 2 ^ 32) (repeat 0 64)).
    { apply Forall_forall. intros x Hx. apply repeat_spec in Hx. subst x. reflexivity. }
    exact (G _ _ _ Hz Hb).
  - intros k. rewrite (build_mask_bits _ _ _ k Hb).
    assert (Z0: testbit_mask (repeat 0 64) k = false).
    { unfold testbit_mask. replace (nth (N.to_nat (k / 32)) (repeat 0 64) 0) with 0. apply N.bits_0.
      symmetry. destruct (le_lt_dec 64 (N.to_nat (k / 32))). apply nth_overflow. rewrite repeat_length. lia. apply nth_repeat. }
    rewrite Z0, orb_false_r. destruct (testbit_mask m k) eqn:Et.
    + apply In_syscalls_testbit in Et; auto. apply existsb_exists. exists k. split; auto. apply N.eqb_refl.
    + destruct (existsb (N.eqb k) (syscalls_of m 0)) eqn:Ee; auto. apply existsb_exists in Ee. destruct Ee as (x & Hx & He).
      apply N.eqb_eq in He. subst x. apply In_syscalls_testbit in Hx; auto. congruence.
Qed.
Print Assumptions mask_of_listed_syscalls.
