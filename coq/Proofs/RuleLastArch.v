(* Proofs/RuleLastArch.v — list facts: the index of the last arch field, where the -S item goes,
   and which architecture is in force after all filters. *)
From Coq Require Import List Ascii String Arith NArith ZArith Bool Lia.
Import ListNotations.
Require Import Bytes RuleDecode RuleText Flags RuleBuild RuleFieldsBack.
Local Open Scope list_scope.
Open Scope N_scope.

Lemma last_index_app f : forall l1 l2 i acc,
  last_index f (l1 ++ l2) i acc = last_index f l2 (i + List.length l1)%nat (last_index f l1 i acc).
Proof.
  induction l1 as [|[[f' o] v] r IH]; intros l2 i acc; cbn [app last_index List.length]. rewrite Nat.add_0_r; reflexivity.
  rewrite IH. f_equal. lia.
Qed.
Lemma hits_app : forall l1 l2 i la, hits (l1 ++ l2) i la = hits l1 i la || hits l2 (i + List.length l1)%nat la.
Proof.
  induction l1 as [|[[[f o] v] ss] r IH]; intros l2 i la; cbn [app hits List.length]. rewrite Nat.add_0_r; reflexivity.
  rewrite IH. rewrite orb_assoc. do 2 f_equal. lia.
Qed.
Lemma arch_fold_app : forall l1 l2 cur, arch_fold (l1 ++ l2) cur = arch_fold l2 (arch_fold l1 cur).
Proof. induction l1 as [|[[[f o] v] ss] r IH]; intros l2 cur; cbn [app arch_fold]; auto. Qed.

Lemma last_index_bound f : forall l k, last_index f l 0 None = Some k -> (k < List.length l)%nat.
Proof.
  induction l as [|x l IH] using rev_ind; intros k H. discriminate.
  rewrite last_index_app in H. destruct x as [[f' o] v]. cbn [last_index] in H. rewrite app_length. cbn [List.length].
  destruct (f' =? f). injection H as <-. lia. apply IH in H. lia.
Qed.

Theorem last_arch_facts (l : list trip) cur :
  let la := last_index 11 (map fst l) 0 None in
  hits l 0 la = (match la with Some _ => true | None => false end) /\
  arch_fold l cur = match la with
                    | Some k => match nth_error (map fst l) k with Some (_, _, v) => arch_name_of v | None => cur end
                    | None => cur
                    end.
Proof.
  cbv zeta. induction l as [|x l IH] using rev_ind. split; reflexivity.
  destruct IH as [IH1 IH2]. destruct x as [[[f o] v] ss].
  rewrite map_app, last_index_app, hits_app, arch_fold_app. cbn [map fst last_index hits arch_fold List.length]. rewrite map_length. cbn [Nat.add].
  destruct (f =? 11) eqn:E.
  - rewrite Nat.eqb_refl. cbn [andb]. rewrite !orb_true_r. split; auto.
    rewrite nth_error_app2 by (rewrite map_length; lia). rewrite map_length, Nat.sub_diag. reflexivity.
  - cbn [andb]. rewrite !orb_false_r. split; [exact IH1|]. rewrite IH2.
    destruct (last_index 11 (map fst l) 0 None) as [k|] eqn:Ek; rewrite ?Ek; auto.
    apply last_index_bound in Ek. rewrite map_length in Ek. rewrite nth_error_app1 by (rewrite map_length; lia). reflexivity.
Qed.
Print Assumptions last_arch_facts.

Lemma last_index_is f : forall l k, last_index f l 0 None = Some k -> exists o v, nth_error l k = Some (f, o, v).
Proof.
  induction l as [|x l IH] using rev_ind; intros k H. discriminate.
  rewrite last_index_app in H. destruct x as [[f' o] v]. cbn [last_index] in H. cbn [Nat.add] in H.
  destruct (f' =? f) eqn:E.
  - injection H as <-. apply N.eqb_eq in E. subst f'. exists o, v. rewrite nth_error_app2 by lia. rewrite Nat.sub_diag. reflexivity.
  - pose proof (last_index_bound _ _ _ H) as Hb. destruct (IH _ H) as (o' & v' & Hn). exists o', v'. rewrite nth_error_app1; auto.
Qed.
