(* Proofs/ClientProofs.v — getReply finds the ACK of its own request through any
   admissible noise; verdict theorems for the commands; ACK bookkeeping; Close once. *)
From Coq Require Import List Ascii NArith ZArith Bool Lia ZifyBool ZifyN ZifyNat.
Import ListNotations.
Require Import Mach AuditConsts MsgTypes AuditClient.
Open Scope N_scope.
Ltac Zify.zify_post_hook ::= Z.div_mod_to_equations.

(* ---- the property's fault model ---- *)
Definition transient (e : revent) := match e with RErr n => (Z.eqb n EINTR) || (Z.eqb n EAGAIN) | _ => false end.
Definition unsolicited (e : revent) := match e with RMsg _ 0 _ => true | _ => false end.
(* noise: blocks of at most 9 transient failures, each followed by an unsolicited record *)
Inductive noise : list revent -> Prop :=
| noise_nil : noise []
| noise_block ts u rest : (length ts <= 9)%nat -> forallb transient ts = true -> unsolicited u = true -> noise rest ->
    noise (ts ++ u :: rest).
(* the errno word of an ACK payload: the kernel writes -errno as a 32-bit integer *)
Definition errno_word (errno : Z) : N := Z.to_N ((- errno) mod 2^32).
Definition ack_msg (seq : N) (errno : Z) (extra : str) : revent := RMsg NLMSG_ERROR seq (le32 (errno_word errno) ++ extra).
(* the kernel answers request [seq] with [errno] after any noise and at most 9 transient failures *)
Definition answers (seq : N) (errno : Z) (script rest : list revent) : Prop :=
  exists ns ts extra, noise ns /\ (length ts <= 9)%nat /\ forallb transient ts = true /\
    script = ns ++ ts ++ ack_msg seq errno extra :: rest.
(* likewise for a data message of a given type *)
Definition delivers (seq ty : N) (d : str) (script rest : list revent) : Prop :=
  exists ns ts, noise ns /\ (length ts <= 9)%nat /\ forallb transient ts = true /\ script = ns ++ ts ++ RMsg ty seq d :: rest.

Lemma recv_retry_transient : forall ts k e r, forallb transient ts = true -> (length ts < k)%nat -> transient e = false ->
  recv_retry k (ts ++ e :: r) = recv_retry (k - length ts) (e :: r).
Proof.
  induction ts as [|t ts IH]; intros k e r Ht Hl He; cbn [length app].
  - rewrite Nat.sub_0_r. auto.
  - destruct k as [|k]; [cbn in Hl; lia|]. cbn in Ht. apply andb_prop in Ht. destruct Ht as [Ht1 Ht2].
    cbn [recv_retry]. destruct t; cbn in Ht1; try discriminate. rewrite Ht1. rewrite IH; auto. cbn in Hl. lia.
Qed.

(* after any admissible noise and at most 9 transient failures the addressed message is found *)
Lemma get_reply_finds : forall ns, noise ns -> forall seq ty d ts rest fuel, seq <> 0 ->
  (length ts <= 9)%nat -> forallb transient ts = true -> (length ns < fuel)%nat ->
  get_reply fuel seq (ns ++ ts ++ RMsg ty seq d :: rest) = (inr (ty, seq, d), rest).
Proof.
  induction 1 as [|ts0 u rest0 Hl0 Ht0 Hu Hn IH]; intros seq ty d ts rest fuel Hs Hl Ht Hf.
  - cbn [app]. destruct fuel as [|f]; [cbn in Hf; lia|]. cbn [get_reply].
    rewrite recv_retry_transient; auto; try lia. destruct (10 - length ts)%nat eqn:E; [lia|]. cbn [recv_retry].
    replace ((seq =? 0) && negb (seq =? 0)) with false by (destruct (seq =? 0); auto). rewrite N.eqb_refl. auto.
  - destruct fuel as [|f]; [cbn in Hf; lia|]. cbn [get_reply]. rewrite <- !app_assoc. cbn [app].
    destruct u as [e|ty' sq w|]; cbn in Hu; try discriminate. destruct sq; try discriminate.
    rewrite recv_retry_transient; auto; try lia. destruct (10 - length ts0)%nat eqn:E; [lia|]. cbn [recv_retry].
    replace ((0 =? 0) && negb (seq =? 0)) with true by (cbn; destruct (seq =? 0) eqn:E0; auto; apply N.eqb_eq in E0; lia).
    apply IH; auto. rewrite app_length in Hf. cbn in Hf. lia.
Qed.

Lemma reply_delivers seq ty d script rest : seq <> 0 -> delivers seq ty d script rest -> reply seq script = (inr (ty, seq, d), rest).
Proof.
  intros Hs (ns & ts & Hn & Hl & Ht & ->). unfold reply. apply get_reply_finds; auto. rewrite !app_length. cbn. lia.
Qed.
Lemma answers_delivers seq errno script rest : answers seq errno script rest ->
  exists extra, delivers seq NLMSG_ERROR (le32 (errno_word errno) ++ extra) script rest.
Proof. intros (ns & ts & extra & Hn & Hl & Ht & ->). exists extra, ns, ts. auto. Qed.

(* ParseNetlinkError recovers the errno *)
Lemma errno_word_bound e : errno_word e < 2^32.
Proof. unfold errno_word. change (2^32) with 4294967296. change (2^32)%Z with 4294967296%Z. lia. Qed.
Lemma parse_errno errno extra : (0 <= errno < 2^31)%Z ->
  parse_netlink_error (le32 (errno_word errno) ++ extra) = if Z.eqb errno 0 then None else Some (EErrno errno).
Proof.
  intros H. unfold parse_netlink_error. rewrite rd32_le32 by apply errno_word_bound.
  unfold errno_word, s32. change (2^32)%Z with 4294967296%Z in *. change (2^31)%Z with 2147483648%Z in *. change (2^31) with 2147483648.
  destruct (Z.eqb errno 0) eqn:E.
  - apply Z.eqb_eq in E. subst. reflexivity.
  - apply Z.eqb_neq in E.
    assert (Hm: ((- errno) mod 4294967296 = 4294967296 - errno)%Z) by lia. rewrite Hm.
    destruct (Z.to_N (4294967296 - errno) =? 0) eqn:E0; [lia|].
    destruct (Z.to_N (4294967296 - errno) <? 2147483648) eqn:E1; [lia|]. f_equal. f_equal. lia.
Qed.

(* the verdict of an ACK-only exchange *)
Theorem ack_verdict seq errno script rest : seq <> 0 -> (0 <= errno < 2^31)%Z -> answers seq errno script rest ->
  let '(r, rest') := reply seq script in
  check_ack r = (if Z.eqb errno 0 then None else Some (EErrno errno)) /\ rest' = rest.
Proof.
  intros Hs He Ha. destruct (answers_delivers _ _ _ _ Ha) as (extra & Hd).
  rewrite (reply_delivers _ _ _ _ _ Hs Hd). split; auto. unfold check_ack. rewrite N.eqb_refl. apply parse_errno; auto.
Qed.

(* a reply carrying a different request's sequence number is never accepted *)
Theorem foreign_seq_rejected seq q ty d ns ts rest : seq <> 0 -> q <> 0 -> q <> seq -> noise ns -> (length ts <= 9)%nat -> forallb transient ts = true ->
  exists e, check_ack (fst (reply seq (ns ++ ts ++ RMsg ty q d :: rest))) = Some e.
Proof.
  intros Hs Hq Hne Hn Hl Ht.
  assert (G: forall fuel, (length ns < fuel)%nat -> fst (get_reply fuel seq (ns ++ ts ++ RMsg ty q d :: rest)) = inl ESeq).
  { clear - Hs Hq Hne Hn Hl Ht. revert ts rest Hl Ht. induction Hn as [|ts0 u rest0 Hl0 Ht0 Hu Hn IH]; intros ts rest Hl Ht fuel Hf.
    - cbn [app]. destruct fuel as [|f]; [cbn in Hf; lia|]. cbn [get_reply].
      rewrite recv_retry_transient; auto; try lia. destruct (10 - length ts)%nat eqn:E; [lia|]. cbn [recv_retry].
      replace ((q =? 0) && negb (seq =? 0)) with false by (symmetry; apply andb_false_iff; left; apply N.eqb_neq; auto).
      replace (q =? seq) with false by (symmetry; apply N.eqb_neq; auto). auto.
    - destruct fuel as [|f]; [cbn in Hf; lia|]. cbn [get_reply]. rewrite <- !app_assoc. cbn [app].
      destruct u as [e|ty' sq w'|]; cbn in Hu; try discriminate. destruct sq; try discriminate.
      rewrite recv_retry_transient; auto; try lia. destruct (10 - length ts0)%nat eqn:E; [lia|]. cbn [recv_retry].
      replace ((0 =? 0) && negb (seq =? 0)) with true by (cbn; destruct (seq =? 0) eqn:E0; auto; apply N.eqb_eq in E0; lia).
      apply IH; auto. rewrite app_length in Hf. cbn in Hf. lia. }
  unfold reply. rewrite G by (rewrite !app_length; cbn; lia). cbn. eauto.
Qed.

(* ---- commands: what cstep returns when the kernel answers the request ---- *)
Definition next_seq (s : cstate) : N := (nseq s + 1) mod 2^32.
Definition no_fault (w : world) : Prop := match sfaults w with Some _ :: _ => False | _ => True end.

Lemma do_send_ok s w : no_fault w -> exists w', do_send s w = ({| pending := pending s; clear_pid := clear_pid s; closed := closed s; nseq := next_seq s |}, w', next_seq s, None) /\ rscript w' = rscript w.
Proof.
  unfold no_fault, do_send, next_seq. destruct (sfaults w) as [|[e|] r]; intros H; try contradiction; eexists; split; eauto.
Qed.

Definition result_of (o : outcome) : cres := fst (fst o).

Theorem set_wait_verdict s w k v errno rest : no_fault w -> next_seq s <> 0 -> (0 <= errno < 2^31)%Z ->
  answers (next_seq s) errno (rscript w) rest ->
  result_of (snd (cstep s w (OSet k v true))) = if Z.eqb errno 0 then ROk else RFail (EErrno errno).
Proof.
  intros Hf Hs He Ha. cbn [cstep]. unfold cset.
  set (s0 := match k with SPID => _ | _ => s end).
  assert (Hn: next_seq s0 = next_seq s) by (unfold s0; destruct k; reflexivity).
  destruct (do_send_ok s0 w Hf) as (w' & Hd & Hr). rewrite Hd. rewrite Hn, Hr.
  pose proof (ack_verdict _ _ _ _ Hs He Ha) as HV. destruct (reply (next_seq s) (rscript w)) as [r rest']. destruct HV as [HV _].
  cbn. unfold result_of. cbn. rewrite HV. destruct (Z.eqb errno 0); auto.
Qed.

Theorem delete_rule_verdict s w d errno rest : no_fault w -> next_seq s <> 0 -> (0 <= errno < 2^31)%Z ->
  answers (next_seq s) errno (rscript w) rest ->
  result_of (snd (cstep s w (ODeleteRule d))) = if Z.eqb errno 0 then ROk else RFail (EErrno errno).
Proof.
  intros Hf Hs He Ha. cbn [cstep]. unfold ack_cmd.
  destruct (do_send_ok s w Hf) as (w' & Hd & Hr). rewrite Hd. rewrite Hr.
  pose proof (ack_verdict _ _ _ _ Hs He Ha) as HV. destruct (reply (next_seq s) (rscript w)) as [r rest']. destruct HV as [HV _].
  cbn. unfold result_of. cbn. rewrite HV. destruct (Z.eqb errno 0); auto.
Qed.

Theorem add_rule_verdict s w d errno rest : no_fault w -> next_seq s <> 0 -> (0 <= errno < 2^31)%Z ->
  answers (next_seq s) errno (rscript w) rest ->
  result_of (snd (cstep s w (OAddRule d))) =
    if Z.eqb errno 0 then ROk else if Z.eqb errno EEXIST then RFail ERuleExists else RFail (EErrno errno).
Proof.
  intros Hf Hs He Ha. cbn [cstep]. unfold ack_cmd.
  destruct (do_send_ok s w Hf) as (w' & Hd & Hr). rewrite Hd. rewrite Hr.
  pose proof (ack_verdict _ _ _ _ Hs He Ha) as HV. destruct (reply (next_seq s) (rscript w)) as [r rest']. destruct HV as [HV _].
  cbn. unfold result_of. cbn. rewrite HV. destruct (Z.eqb errno 0); auto.
Qed.

(* GetStatus: ACK with 0, then the status reply with the request's sequence *)
Theorem get_status_verdict s w errno mid d rest : no_fault w -> next_seq s <> 0 -> (0 <= errno < 2^31)%Z ->
  answers (next_seq s) errno (rscript w) mid -> delivers (next_seq s) AuditGet d mid rest ->
  result_of (snd (cstep s w OGetStatus)) =
    if Z.eqb errno 0 then match status_from_wire d with Some ws => RStatus ws | None => RFail EEOF end else RFail (EErrno errno).
Proof.
  intros Hf Hs He Ha Hd2. cbn [cstep]. unfold get_status.
  destruct (do_send_ok s w Hf) as (w' & Hd & Hr). rewrite Hd. rewrite Hr.
  pose proof (ack_verdict _ _ _ _ Hs He Ha) as HV. destruct (reply (next_seq s) (rscript w)) as [r rest']. destruct HV as [HV ->].
  rewrite HV. destruct (Z.eqb errno 0); [|reflexivity].
  rewrite (reply_delivers _ _ _ _ _ Hs Hd2). unfold result_of. cbn [fst snd]. rewrite N.eqb_refl. reflexivity.
Qed.

(* ---- ACK bookkeeping ---- *)
(* the script holds, in order, an ACK with errno 0 for each listed request *)
Inductive acked : list N -> list revent -> list revent -> Prop :=
| acked_nil rest : acked [] rest rest
| acked_cons q qs script mid rest : q <> 0 -> answers q 0 script mid -> acked qs mid rest -> acked (q :: qs) script rest.

Lemma wait_acks_all s : forall todo script rest, acked todo script rest ->
  wait_acks s script todo = ({| pending := []; clear_pid := clear_pid s; closed := closed s; nseq := nseq s |}, rest, None).
Proof.
  induction todo as [|q qs IH]; intros script rest H; inversion H; subst; cbn [wait_acks]; auto.
  match goal with Ha : answers q 0 script ?mid |- _ =>
    pose proof (ack_verdict q 0%Z script mid ltac:(auto) ltac:(lia) Ha) as HV end.
  destruct (reply q script) as [r rest']. destruct HV as [HV ->].
  destruct r as [e|[[ty sq] d]]; [cbn in HV; discriminate|]. rewrite HV. apply IH; auto.
Qed.

(* every pending request's ACK is consumed exactly once, in order; calling again waits for nothing *)
Theorem wait_twice s w rest : acked (pending s) (rscript w) rest ->
  let '(s1, w1, o1) := cstep s w OWaitAcks in
  let '(s2, w2, o2) := cstep s1 w1 OWaitAcks in
  result_of o1 = ROk /\ rscript w1 = rest /\ pending s1 = [] /\ result_of o2 = ROk /\ rscript w2 = rest.
Proof.
  intros H. cbn [cstep]. rewrite (wait_acks_all s _ _ _ H). cbn. auto.
Qed.

(* the first kernel error is what WaitForPendingACKs returns: the ACKs before it are consumed, the failed
   request leaves the list too, the later ones stay pending and their ACKs stay unread *)
Theorem wait_first_error s : forall pre q post script mid rest errno,
  acked pre script mid -> q <> 0 -> (0 < errno < 2^31)%Z -> answers q errno mid rest ->
  wait_acks s script (pre ++ q :: post) =
    ({| pending := post; clear_pid := clear_pid s; closed := closed s; nseq := nseq s |}, rest, Some (EErrno errno)).
Proof.
  induction pre as [|p pre IH]; intros q post script mid rest errno Ha Hq He Hans; inversion Ha; subst; cbn [app wait_acks].
  - destruct (answers_delivers _ _ _ _ Hans) as (extra & Hd). rewrite (reply_delivers _ _ _ _ _ Hq Hd).
    unfold check_ack. rewrite N.eqb_refl. rewrite parse_errno by lia.
    replace (Z.eqb errno 0) with false by (symmetry; apply Z.eqb_neq; lia). reflexivity.
  - match goal with Hx : answers p 0 script ?m |- _ => pose proof (ack_verdict p 0%Z script m ltac:(auto) ltac:(lia) Hx) as HV end.
    destruct (reply p script) as [r rest']. destruct HV as [HV ->].
    destruct r as [e|[[ty sq] d]]; [cbn in HV; discriminate|]. rewrite HV. eapply IH; eauto.
Qed.

(* ---- Close closes the socket at most once, and exactly once if it is ever called ---- *)
Definition closes_socket (o : outcome4) : bool := let '(_, _, cl, _) := o in cl.
Fixpoint count_closes (l : list outcome4) : nat := match l with [] => O | o :: r => (if closes_socket o then 1 else 0) + count_closes r end.

Lemma do_send_closed s w : closed (fst (fst (fst (do_send s w)))) = closed s.
Proof. unfold do_send. destruct (sfaults w) as [|f r]; reflexivity. Qed.
Lemma cset_closed s w k v wait : closed (fst (fst (fst (cset s w k v wait)))) = closed s.
Proof.
  unfold cset. set (s0 := match k with SPID => _ | _ => s end).
  assert (H0: closed s0 = closed s) by (unfold s0; destruct k; reflexivity).
  pose proof (do_send_closed s0 w) as H. destruct (do_send s0 w) as [[[s1 w1] sq] f]. cbn [fst] in H.
  destruct f; [cbn [fst]; congruence|]. destruct wait.
  - destruct (reply sq (rscript w1)). cbn [fst]. congruence.
  - cbn [fst closed]. congruence.
Qed.
Lemma ack_cmd_closed s w ty d : closed (fst (fst (fst (ack_cmd s w ty d)))) = closed s.
Proof.
  unfold ack_cmd. pose proof (do_send_closed s w) as H. destruct (do_send s w) as [[[s1 w1] sq] f]. cbn [fst] in H.
  destruct f; [cbn [fst]; congruence|]. destruct (reply sq (rscript w1)). cbn [fst]. congruence.
Qed.
Lemma get_status_closed s w : closed (fst (fst (fst (get_status s w)))) = closed s.
Proof.
  unfold get_status. pose proof (do_send_closed s w) as H. destruct (do_send s w) as [[[s1 w1] sq] f]. cbn [fst] in H.
  destruct f; [cbn [fst]; congruence|]. destruct (reply sq (rscript w1)) as [rr rest]. destruct (check_ack rr); [cbn [fst]; congruence|].
  destruct (reply sq rest). cbn [fst]. congruence.
Qed.
Lemma get_rules_closed s w : closed (fst (fst (fst (get_rules s w)))) = closed s.
Proof.
  unfold get_rules. pose proof (do_send_closed s w) as H. destruct (do_send s w) as [[[s1 w1] sq] f]. cbn [fst] in H.
  destruct f; [cbn [fst]; congruence|]. destruct (reply sq (rscript w1)) as [rr rest]. destruct (check_ack rr); [cbn [fst]; congruence|].
  destruct (collect_rules _ _ _ _). cbn [fst]. congruence.
Qed.
Lemma delete_all_closed : forall rules s w sent, closed (fst (fst (fst (delete_all s w rules sent)))) = closed s.
Proof.
  induction rules as [|r rs IH]; intros s w sent; cbn [delete_all]; auto.
  pose proof (ack_cmd_closed s w AUDIT_DEL_RULE r) as H. destruct (ack_cmd s w AUDIT_DEL_RULE r) as [[[s1 w1] e] ws]. cbn in H.
  destruct e; cbn; auto. rewrite IH. auto.
Qed.
Lemma wait_acks_closed s : forall todo script, closed (fst (fst (wait_acks s script todo))) = closed s.
Proof.
  induction todo as [|q qs IH]; intros script; cbn [wait_acks]; auto.
  destruct (reply q script) as [[e|[[ty sq] d]] r]; [reflexivity|].
  destruct (check_ack (inr (ty, sq, d))); [reflexivity|]. apply IH.
Qed.

Lemma cstep_closed s w o : closed s = true ->
  closed (fst (fst (cstep s w o))) = true /\ snd (snd (cstep s w o)) = false.
Proof.
  intros H. destruct o; cbn [cstep].
  - pose proof (get_status_closed s w) as G. destruct (get_status s w) as [[[s1 w1] r] ws]. cbn in *. rewrite G. auto.
  - pose proof (get_rules_closed s w) as G. destruct (get_rules s w) as [[[s1 w1] r] ws]. cbn in *. rewrite G. auto.
  - pose proof (ack_cmd_closed s w AUDIT_ADD_RULE r) as G. destruct (ack_cmd _ _ _ _) as [[[s1 w1] e] ws]. cbn in *. rewrite G. auto.
  - pose proof (ack_cmd_closed s w AUDIT_DEL_RULE r) as G. destruct (ack_cmd _ _ _ _) as [[[s1 w1] e] ws]. cbn in *. rewrite G. auto.
  - pose proof (get_rules_closed s w) as G. destruct (get_rules s w) as [[[s1 w1] r] ws]. cbn in G. destruct r as [e|rs]; cbn; [rewrite G; auto|].
    pose proof (delete_all_closed rs s1 w1 ws) as G2. destruct (delete_all s1 w1 rs ws) as [[[s2 w2] e] ws2]. cbn in *. rewrite G2, G. auto.
  - pose proof (cset_closed s w k v wait) as G. destruct (cset s w k v wait) as [[[s1 w1] r] ws]. cbn in *. rewrite G. auto.
  - pose proof (wait_acks_closed s (pending s) (rscript w)) as G. destruct (wait_acks _ _ _) as [[s1 rest] e]. cbn in *. rewrite G. auto.
  - rewrite H. cbn. auto.
  - destruct (rscript w) as [|[e| ty sq d|] r]; cbn; auto.
Qed.

Lemma cstep_closes s w o : snd (snd (cstep s w o)) = true -> closed (fst (fst (cstep s w o))) = true.
Proof.
  destruct o; cbn [cstep].
  - destruct (get_status s w) as [[[s1 w1] r] ws]. cbn. discriminate.
  - destruct (get_rules s w) as [[[s1 w1] r] ws]. cbn. discriminate.
  - destruct (ack_cmd _ _ _ _) as [[[s1 w1] e] ws]. cbn. discriminate.
  - destruct (ack_cmd _ _ _ _) as [[[s1 w1] e] ws]. cbn. discriminate.
  - destruct (get_rules s w) as [[[s1 w1] r] ws]. destruct r as [e|rs]; cbn; try discriminate.
    destruct (delete_all s1 w1 rs ws) as [[[s2 w2] e] ws2]. cbn. discriminate.
  - destruct (cset s w k v wait) as [[[s1 w1] r] ws]. cbn. discriminate.
  - destruct (wait_acks _ _ _) as [[s1 rest] e]. cbn. discriminate.
  - destruct (closed s) eqn:E; cbn; [discriminate|]. destruct (clear_pid s); cbn; auto.
    unfold do_send. destruct (sfaults w) as [|[e|] r]; cbn; auto.
  - destruct (rscript w) as [|[e| ty sq d|] r]; cbn; discriminate.
Qed.

Theorem closes_at_most_once : forall ops s w, (count_closes (crun s w ops) <= 1)%nat /\ (closed s = true -> count_closes (crun s w ops) = 0%nat).
Proof.
  induction ops as [|o ops IH]; intros s w; cbn [crun count_closes]; [split; auto|].
  pose proof (cstep_closed s w o) as HC. pose proof (cstep_closes s w o) as HO.
  destruct (cstep s w o) as [[s' w'] [[res ws] cl]]. cbn [fst snd] in *. cbn [count_closes closes_socket].
  destruct (IH s' w') as [IH1 IH2]. split.
  - destruct cl; [rewrite IH2 by (apply HO; auto); lia | lia].
  - intros Hc. destruct (HC Hc) as [Hc' ->]. rewrite IH2 by auto. lia.
Qed.

(* a Close on an open client closes the socket, after clearing the PID iff SetPID was used *)
Theorem first_close s w : closed s = false ->
  let '(s', _, (_, ws, cl)) := cstep s w OClose in
  cl = true /\ closed s' = true /\
  (clear_pid s = false -> ws = []) /\
  (clear_pid s = true -> ws = [(AuditSet, REQ_ACK, status_bytes AuditStatusPID off_st_pid 0)]).
Proof.
  intros H. cbn [cstep]. rewrite H. destruct (clear_pid s) eqn:E; cbn.
  - unfold do_send. destruct (sfaults w) as [|[e|] r]; cbn; repeat split; auto; discriminate.
  - repeat split; auto; discriminate.
Qed.

(* ---- GetRules: the ACK, then one AUDIT_LIST_RULES message per rule, then NLMSG_DONE, each found
   through any admissible noise ---- *)
Inductive rule_stream (q : N) : list str -> list revent -> list revent -> Prop :=
| rs_done d script rest : delivers q NLMSG_DONE d script rest -> rule_stream q [] script rest
| rs_rule r rs script mid rest : delivers q AUDIT_LIST_RULES r script mid -> rule_stream q rs mid rest -> rule_stream q (r :: rs) script rest.

Lemma list_rules_is_not_done : (AUDIT_LIST_RULES =? NLMSG_DONE) = false.
Proof. vm_compute. reflexivity. Qed.

Lemma delivers_shrinks q ty d script rest : delivers q ty d script rest -> (length rest < length script)%nat.
Proof. intros (ns & ts & _ & _ & _ & ->). rewrite !app_length. cbn [length]. lia. Qed.
Lemma rule_stream_length q rs script rest : rule_stream q rs script rest -> (length rs + length rest < length script)%nat.
Proof.
  induction 1 as [d script rest Hd | r rs script mid rest Hd Hs IH].
  - apply delivers_shrinks in Hd. cbn [length]. lia.
  - apply delivers_shrinks in Hd. cbn [length]. lia.
Qed.

Lemma collect_rules_stream q rs script rest : q <> 0 -> rule_stream q rs script rest ->
  forall acc fuel, (length rs < fuel)%nat -> collect_rules fuel q script acc = (inr (rev acc ++ rs), rest).
Proof.
  intros Hq. induction 1 as [d script rest Hd | r rs script mid rest Hd Hs IH]; intros acc fuel Hf.
  - destruct fuel as [|f]; [cbn in Hf; lia|]. cbn [collect_rules]. rewrite (reply_delivers _ _ _ _ _ Hq Hd). rewrite N.eqb_refl. rewrite app_nil_r. reflexivity.
  - destruct fuel as [|f]; [cbn in Hf; lia|]. cbn [collect_rules]. rewrite (reply_delivers _ _ _ _ _ Hq Hd).
    rewrite list_rules_is_not_done, N.eqb_refl. rewrite IH by (cbn [length] in Hf; lia). cbn [rev]. rewrite <- app_assoc. reflexivity.
Qed.

Theorem get_rules_verdict s w errno mid rs rest : no_fault w -> next_seq s <> 0 -> (0 <= errno < 2^31)%Z ->
  answers (next_seq s) errno (rscript w) mid -> rule_stream (next_seq s) rs mid rest ->
  result_of (snd (cstep s w OGetRules)) = if Z.eqb errno 0 then RRules rs else RFail (EErrno errno).
Proof.
  intros Hf Hs He Ha Hr. cbn [cstep]. unfold get_rules.
  destruct (do_send_ok s w Hf) as (w' & Hd & Hrs). rewrite Hd. rewrite Hrs.
  pose proof (ack_verdict _ _ _ _ Hs He Ha) as HV. destruct (reply (next_seq s) (rscript w)) as [r rest']. destruct HV as [HV ->].
  rewrite HV. destruct (Z.eqb errno 0); [|reflexivity].
  rewrite (collect_rules_stream _ _ _ _ Hs Hr) by (pose proof (rule_stream_length _ _ _ _ Hr); lia).
  reflexivity.
Qed.

(* ---- DeleteRules: list the rules, delete each; the first failing delete is the verdict ---- *)
(* the deletes are answered in turn: errno 0 for each rule of [ok], then optionally errno e <> 0 for the next one *)
Inductive dels_answered : N -> list str -> list revent -> list revent -> Prop :=
| da_nil n sc : dels_answered n [] sc sc
| da_cons n r rs sc mid rest : (n + 1) mod 2^32 <> 0 -> answers ((n + 1) mod 2^32) 0 sc mid -> dels_answered ((n + 1) mod 2^32) rs mid rest ->
    dels_answered n (r :: rs) sc rest.

Definition del_wire (r : str) : wire := (AUDIT_DEL_RULE, REQ_ACK, r).

Lemma ack_cmd_verdict s w ty d errno rest : sfaults w = [] -> next_seq s <> 0 -> (0 <= errno < 2^31)%Z -> answers (next_seq s) errno (rscript w) rest ->
  ack_cmd s w ty d = ({| pending := pending s; clear_pid := clear_pid s; closed := closed s; nseq := next_seq s |}, with_script w rest,
                      (if Z.eqb errno 0 then None else Some (EErrno errno)), [(ty, REQ_ACK, d)]).
Proof.
  intros Hf Hs He Ha. unfold ack_cmd, do_send. rewrite Hf. fold (next_seq s).
  pose proof (ack_verdict _ _ _ _ Hs He Ha) as HV. destruct (reply (next_seq s) (rscript w)) as [r rest']. destruct HV as [HV ->]. rewrite HV. reflexivity.
Qed.

Theorem delete_all_ok : forall rules s w sent rest, sfaults w = [] -> dels_answered (nseq s) rules (rscript w) rest ->
  exists s', delete_all s w rules sent = (s', with_script w rest, None, sent ++ map del_wire rules).
Proof.
  induction rules as [|r rs IH]; intros s w sent rest Hf Hd; inversion Hd; subst; cbn [delete_all map].
  - exists s. rewrite app_nil_r. destruct w; unfold with_script; cbn in *. subst. reflexivity.
  - fold (next_seq s) in *. rewrite (ack_cmd_verdict s w AUDIT_DEL_RULE r 0%Z mid Hf) by (auto; lia). cbn [Z.eqb].
    destruct (IH {| pending := pending s; clear_pid := clear_pid s; closed := closed s; nseq := next_seq s |} (with_script w mid) (sent ++ [(AUDIT_DEL_RULE, REQ_ACK, r)]) rest) as (s' & Hs'); auto.
    exists s'. rewrite Hs'. unfold with_script. cbn. rewrite <- app_assoc. reflexivity.
Qed.

Theorem delete_all_first_error : forall ok s w sent r later mid rest errno, sfaults w = [] -> dels_answered (nseq s) ok (rscript w) mid ->
  (0 < errno < 2^31)%Z ->
  let n := fold_left (fun a (_ : str) => (a + 1) mod 2^32) ok (nseq s) in
  (n + 1) mod 2^32 <> 0 -> answers ((n + 1) mod 2^32) errno mid rest ->
  exists s', delete_all s w (ok ++ r :: later) sent = (s', with_script w rest, Some (EErrno errno), sent ++ map del_wire ok ++ [del_wire r]).
Proof.
  induction ok as [|o ok IH]; intros s w sent r later mid rest errno Hf Hd He n Hn Ha; inversion Hd; subst; subst n; cbn [app delete_all map fold_left] in *.
  - fold (next_seq s) in *. rewrite (ack_cmd_verdict s w AUDIT_DEL_RULE r errno rest Hf Hn) by (auto; lia).
    replace (Z.eqb errno 0) with false by (symmetry; apply Z.eqb_neq; lia). eexists. reflexivity.
  - fold (next_seq s) in *. rewrite (ack_cmd_verdict s w AUDIT_DEL_RULE o 0%Z mid0 Hf) by (auto; lia). cbn [Z.eqb].
    destruct (IH {| pending := pending s; clear_pid := clear_pid s; closed := closed s; nseq := next_seq s |} (with_script w mid0) (sent ++ [(AUDIT_DEL_RULE, REQ_ACK, o)]) r later mid rest errno) as (s' & Hs'); auto.
    exists s'. rewrite Hs'. unfold with_script. cbn. rewrite <- !app_assoc. reflexivity.
Qed.

(* DeleteRules as a whole: the listing succeeds and every delete is acknowledged with 0 -> the count of rules *)
Theorem delete_rules_verdict s w mid rs mid2 rest : sfaults w = [] -> next_seq s <> 0 ->
  answers (next_seq s) 0 (rscript w) mid -> rule_stream (next_seq s) rs mid mid2 -> dels_answered (next_seq s) rs mid2 rest ->
  result_of (snd (cstep s w ODeleteRules)) = RCount (N.of_nat (length rs)).
Proof.
  intros Hf Hs Ha Hr Hd. cbn [cstep]. unfold get_rules, do_send. rewrite Hf. fold (next_seq s).
  pose proof (ack_verdict (next_seq s) 0%Z (rscript w) mid Hs ltac:(lia) Ha) as HV. destruct (reply (next_seq s) (rscript w)) as [r rest']. destruct HV as [HV ->].
  rewrite HV. cbn [Z.eqb].
  rewrite (collect_rules_stream _ _ _ _ Hs Hr) by (pose proof (rule_stream_length _ _ _ _ Hr); lia).
  cbn [rev app].
  destruct (delete_all_ok rs {| pending := pending s; clear_pid := clear_pid s; closed := closed s; nseq := next_seq s |} (with_script w mid2) [(AUDIT_LIST_RULES, REQ_ACK, [])] rest) as (s' & Hs'); auto.
  rewrite Hs'. reflexivity.
Qed.
