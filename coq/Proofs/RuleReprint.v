(* Proofs/RuleReprint.v — one filter at a time: what ToCommandLine prints for the triple a filter was
   built into is read by the -F / -C scanners and by addFilter as the same triple again. *)
From Coq Require Import List Ascii String Arith NArith ZArith Bool Lia ZifyBool ZifyN ZifyNat.
Import ListNotations.
Require Import Bytes Dec Strconv Mach RuleTables Arch Errno Syscalls MsgType RuleDecode Mask RuleEncode RuleText RuleValue FilterRe Flags RuleBuild.
Require Import Tables TablesLift TablesOk RuleValueProofs.
Local Open Scope string_scope.
Local Open Scope list_scope.
Open Scope N_scope.

(* ---------- the -F scanner reads name ++ op ++ rhs back ---------- *)
Definition op_head_ok (o : str) : bool := match o with c :: _ => negb (is_word c) && negb (is_blank c) | [] => false end.
Lemma ops_heads : forallb op_head_ok ops = true. Proof. reflexivity. Qed.

Lemma span_word_stop nm rest : forallb is_word nm = true -> (match rest with c :: _ => is_word c = false | [] => True end) ->
  span is_word (nm ++ rest) = (nm, rest).
Proof.
  induction nm as [|c nm IH]; intros Hw Hr; cbn [app].
  - destruct rest as [|c r]; cbn; auto. rewrite Hr. reflexivity.
  - cbn in Hw. apply andb_prop in Hw. destruct Hw as [Hc Hn]. cbn [span]. rewrite Hc, IH; auto.
Qed.

(* the operator the scanner picks is the longest one: a bare < > & is not followed by '=' *)
Definition op_rhs_ok (o rhs : str) : bool :=
  match rhs with
  | c :: _ => negb ((beq o (l "<") || beq o (l ">") || beq o (l "&")) && Ascii.eqb c "="%char)
  | [] => false
  end.

Lemma pick_op_exact o rhs : In o ops -> op_rhs_ok o rhs = true -> pick_op ops (o ++ rhs) = Some (o, rhs).
Proof.
  intros Ho Hr. destruct rhs as [|c r]; [discriminate|]. unfold op_rhs_ok in Hr.
  unfold ops in Ho. cbn [map In] in Ho.
  destruct Ho as [<-|[<-|[<-|[<-|[<-|[<-|[<-|[<-|[]]]]]]]]]; try reflexivity;
    (destruct c as [[] [] [] [] [] [] [] []]; first [reflexivity | discriminate Hr]).
Qed.

Lemma scan_filter_render nm o rhs : nm <> [] -> forallb is_word nm = true -> In o ops -> op_rhs_ok o rhs = true ->
  scan_filter (nm ++ o ++ rhs) = Some (nm, o, rhs).
Proof.
  intros Hn Hw Ho Hr. unfold scan_filter.
  pose proof ops_heads as Hh. rewrite forallb_forall in Hh. specialize (Hh o Ho). unfold op_head_ok in Hh.
  destruct o as [|c0 o']; [discriminate|]. apply andb_prop in Hh. destruct Hh as [Hh1 Hh2].
  rewrite span_word_stop; auto. 2:{ cbn. destruct (is_word c0); auto; discriminate. }
  destruct nm as [|n0 nm']; [contradiction|].
  assert (Hsb: span is_blank ((c0 :: o') ++ rhs) = ([], (c0 :: o') ++ rhs)).
  { cbn [app span]. destruct (is_blank c0); [discriminate|reflexivity]. }
  rewrite Hsb. rewrite pick_op_exact; auto.
Qed.

Lemma scan_compare_render a o b : a <> [] -> b <> [] -> forallb is_word a = true -> forallb is_word b = true ->
  (o = l "=" \/ o = l "!=") -> scan_compare (a ++ o ++ b) = Some (a, o, b).
Proof.
  intros Ha Hb Hwa Hwb Ho. unfold scan_compare.
  rewrite span_word_stop; auto. 2:{ destruct Ho as [-> | ->]; cbn; reflexivity. }
  destruct a as [|a0 a']; [contradiction|]. destruct b as [|b0 b']; [contradiction|].
  destruct Ho as [-> | ->]; cbn -[forallb is_blank]; change (is_blank "="%char) with false; try change (is_blank "!"%char) with false;
    cbn -[forallb]; rewrite Hwb; reflexivity.
Qed.

(* ---------- add_item appends one triple (and at most one string), whatever was there ---------- *)
Definition triple_of_item (lst : string) (it : item) : option ((N * N * N) * list str) :=
  match add_item lst ([], []) it with Some ([t], ss) => Some (t, ss) | _ => None end.

Lemma add_item_acc lst ts ss it :
  add_item lst (ts, ss) it = match triple_of_item lst it with Some (t, sv) => Some (ts ++ [t], ss ++ sv) | None => None end.
Proof.
  unfold triple_of_item, add_item. destruct it as [f op v|lf op rf].
  - destruct (lookupS (s2l op) operators_table) as [oc|]; [|reflexivity].
    destruct (lookupS (s2l f) fields_table) as [fc|]; [|reflexivity].
    destruct (streq lst "exclude" && negb (mem f exclude_ok)); [reflexivity|].
    destruct (mem f exit_only && negb (streq lst "exit")); [reflexivity|].
    destruct (streq f "msgtype" && negb (streq lst "user" || streq lst "exclude")); [reflexivity|].
    destruct ((streq f "arch" || streq f "inode") && negb (eq_ne op)); [reflexivity|].
    destruct (streq f "perm" && negb (streq op "=")); [reflexivity|].
    destruct v as [n|sv].
    + destruct (is_string_field fc); [reflexivity|].
      destruct (streq f "saddr_fam" && negb ((n =? 2) || (n =? 10))); [reflexivity|]. cbn [app]. rewrite app_nil_r. reflexivity.
    + destruct (negb (is_string_field fc)); [reflexivity|].
      destruct ((if streq f "key" then max_key_length else path_max) <? N.of_nat (List.length sv)); [reflexivity|]. cbn [app]. reflexivity.
  - destruct (lookupS (s2l op) operators_table) as [oc|]; [|reflexivity].
    destruct (lookupS (s2l lf) fields_table) as [a|]; [|reflexivity].
    destruct (lookupS (s2l rf) fields_table) as [b|]; [|reflexivity].
    destruct (eq_ne op); [|reflexivity].
    destruct (lookupN a comparisons_table) as [t|]; [|reflexivity].
    destruct (lookupN b t) as [c|]; [|reflexivity]. cbn [app]. rewrite app_nil_r. reflexivity.
Qed.

(* add_items is the list of the triples, in order *)
Fixpoint triples_of_items (lst : string) (its : list item) : option (list ((N * N * N) * list str)) :=
  match its with
  | [] => Some []
  | it :: r => match triple_of_item lst it, triples_of_items lst r with Some t, Some ts => Some (t :: ts) | _, _ => None end
  end.
Lemma add_items_triples lst : forall its ts ss,
  add_items lst (ts, ss) its =
  match triples_of_items lst its with Some l => Some (ts ++ map fst l, ss ++ flat_map snd l) | None => None end.
Proof.
  induction its as [|it its IH]; intros ts ss; cbn [add_items triples_of_items].
  - cbn. rewrite !app_nil_r. reflexivity.
  - rewrite add_item_acc. destruct (triple_of_item lst it) as [[t sv]|]; [|reflexivity].
    rewrite IH. destruct (triples_of_items lst its) as [l|]; [|reflexivity].
    cbn [map flat_map fst snd]. rewrite <- !app_assoc. reflexivity.
Qed.

(* ---------- finite facts about the generated tables ---------- *)
Definition word_name (s : string) : bool := negb (String.eqb s "") && forallb is_word (s2l s).
Definition field_names_okb (e : string * N) : bool := word_name (fst e) && negb (snd e =? 111).
Lemma field_names_ok : filter (fun e => negb (field_names_okb e)) fields_table = []. Proof. by_vm. Qed.
Definition op_names_okb (e : string * N) : bool := existsb (beq (s2l (fst e))) ops.
Lemma op_names_ok : filter (fun e => negb (op_names_okb e)) operators_table = []. Proof. by_vm. Qed.
Lemma arch_is_11 : lookupN 11 reverse_fields_table = Some "arch". Proof. by_vm. Qed.
Lemma string_fields_not_special : is_string_field 11 = false /\ is_string_field 111 = false. Proof. split; reflexivity. Qed.

Definition compare_print_okb (e : N * N * N) : bool :=
  let '(_, _, c) := e in
  match lookupN c reverse_comparisons_table with
  | Some (a, b) =>
      let '(a, b) := if b <? a then (b, a) else (a, b) in
      match lookupN a reverse_fields_table, lookupN b reverse_fields_table with
      | Some an, Some bn =>
          word_name an && word_name bn && optN_eqb (lookupS (s2l an) fields_table) a && optN_eqb (lookupS (s2l bn) fields_table) b &&
          optN_eqb (Tables.comparison a b) c
      | _, _ => false
      end
  | None => false
  end.
Lemma compare_print_ok : filter (fun e => negb (compare_print_okb e)) Tables.comparisons_flat = []. Proof. by_vm. Qed.

Lemma sos_s2l x : sos (s2l x) = x.
Proof. apply string_of_list_ascii_of_string. Qed.
Lemma s2l_sos x : s2l (sos x) = x.
Proof. apply list_ascii_of_string_of_list_ascii. Qed.
Lemma s2l_inj a b : s2l a = s2l b -> a = b.
Proof. intros H. rewrite <- (sos_s2l a), <- (sos_s2l b), H. reflexivity. Qed.

Lemma beq_eq a b : beq a b = true -> a = b.
Proof. revert b; induction a as [|x a IH]; intros [|y b] H; cbn in H; try discriminate; auto.
  apply andb_prop in H. destruct H as [H1 H2]. apply Ascii.eqb_eq in H1. subst. f_equal. auto. Qed.

(* a name that is in the forward table: printing its code gives the name back, and the name scans as a word *)
Lemma field_name_facts f fc : lookupS (s2l f) fields_table = Some fc ->
  lookupN fc reverse_fields_table = Some f /\ s2l f <> [] /\ forallb is_word (s2l f) = true /\ fc <> 111.
Proof.
  intros H. destruct (lookupS_In _ _ _ H) as (k' & Hin & Hk). apply s2l_inj in Hk. subst k'.
  pose proof (filter_nil_forall _ _ fields_fwd_ok _ Hin) as H1. unfold Tables.fields_fwd_okb in H1. cbn [fst snd] in H1.
  pose proof (filter_nil_forall _ _ field_names_ok _ Hin) as H2. unfold field_names_okb, word_name in H2. cbn [fst snd] in H2.
  apply andb_prop in H2. destruct H2 as [H2 H3]. apply andb_prop in H2. destruct H2 as [H2 H4].
  split; [|split; [|split]].
  - destruct (lookupN fc reverse_fields_table) as [x|]; cbn in H1; try discriminate. apply String.eqb_eq in H1. congruence.
  - intros E. destruct f; cbn in *; try discriminate.
  - exact H4.
  - intros E. subst fc. discriminate.
Qed.
Lemma op_name_facts op oc : lookupS (s2l op) operators_table = Some oc ->
  lookupN oc reverse_operators_table = Some op /\ In (s2l op) ops.
Proof.
  intros H. destruct (lookupS_In _ _ _ H) as (k' & Hin & Hk). apply s2l_inj in Hk. subst k'.
  pose proof (filter_nil_forall _ _ ops_fwd_ok _ Hin) as H1. unfold Tables.ops_fwd_okb in H1. cbn [fst snd] in H1.
  pose proof (filter_nil_forall _ _ op_names_ok _ Hin) as H2. unfold op_names_okb in H2. cbn [fst] in H2.
  split.
  - destruct (lookupN oc reverse_operators_table) as [x|]; cbn in H1; try discriminate. apply String.eqb_eq in H1. congruence.
  - apply existsb_exists in H2. destruct H2 as (o & Ho & Hb). apply beq_eq in Hb. rewrite Hb. exact Ho.
Qed.

(* ---------- what is printed is one clean token ---------- *)
Definition tok_char_ok (c : ascii) : bool := negb (is_sh_blank c) && negb (is_blank c).
Definition clean (s : str) : bool := negb (List.length s =? 0)%nat && forallb tok_char_ok s.
Definition head_not_eq (s : str) : bool := match s with c :: _ => negb (Ascii.eqb c "="%char) | [] => false end.
Definition value_text_ok (s : str) : bool := clean s && head_not_eq s.

Lemma digit_tok_ok c : is_digit c = true -> tok_char_ok c = true.
Proof.
  intros H. rewrite <- (ascii_N_embedding c). unfold is_digit in H.
  assert (Hb: N_of_ascii c < 58) by lia. assert (Hl: 48 <= N_of_ascii c) by lia. clear H.
  assert (G: forallb (fun n => (n <? 48) || tok_char_ok (ascii_of_N n)) (upto 58) = true) by (vm_compute; reflexivity).
  pose proof (forallb_upto _ _ G _ Hb) as H. apply orb_prop in H. destruct H as [H|H]; [lia|exact H].
Qed.
Lemma digits_clean s : forallb is_digit s = true -> forallb tok_char_ok s = true.
Proof. induction s as [|c r IH]; cbn; auto. intros H. apply andb_prop in H. destruct H as [H1 H2]. rewrite digit_tok_ok, IH; auto. Qed.
Lemma dec_value_ok v : value_text_ok (dec v) = true.
Proof.
  destruct (dec_head v) as (c & r & E & Hc & Hr). unfold value_text_ok, clean. rewrite E. cbn [List.length Nat.eqb negb andb forallb head_not_eq].
  rewrite (digit_tok_ok c Hc), (digits_clean r Hr). cbn. rewrite (digit_ne_letter c "="%char Hc) by (vm_compute; discriminate). reflexivity.
Qed.
Lemma dec_i32_value_ok v : value_text_ok (dec_i32 v) = true.
Proof.
  unfold dec_i32. destruct (v <? 2147483648). apply dec_value_ok.
  pose proof (dec_value_ok (4294967296 - v)) as H. unfold value_text_ok, clean in *. apply andb_prop in H. destruct H as [H _]. apply andb_prop in H. destruct H as [_ H].
  cbn [List.length Nat.eqb negb andb forallb head_not_eq]. rewrite H. reflexivity.
Qed.

Definition errno_text_okb (e : Z * string) : bool := value_text_ok ("-"%char :: s2l (snd e)).
Lemma errno_texts_ok : filter (fun e => negb (errno_text_okb e)) errno_to_name = []. Proof. by_vm. Qed.
Definition msgtype_text_value_okb (t : N) : bool := value_text_ok (type_name t).
Lemma msgtype_texts_ok : filter (fun t => negb (msgtype_text_value_okb t)) all_types = []. Proof. by_vm. Qed.
Definition perm_text_okb (v : N) : bool := (v =? 0) || value_text_ok (perm_string v).
Lemma perm_texts_ok : filter (fun v => negb (perm_text_okb v)) (upto 16) = []. Proof. by_vm. Qed.
Definition arch_text_okb (e : N * string) : bool := value_text_ok (s2l (snd e)).
Lemma arch_texts_ok : filter (fun e => negb (arch_text_okb e)) arch_names = []. Proof. by_vm. Qed.

Lemma display_arch_cases v d : display_arch v = Some d -> d = s2l "b64" \/ d = s2l "b32" \/ exists nm, In (v, nm) arch_names /\ d = s2l nm.
Proof.
  unfold display_arch. destruct runtime_arch as [rs|]; try discriminate. destruct (lookupS (s2l rs) reverse_arch) as [ra|]; try discriminate.
  cbv zeta. destruct (_ && _). { intros H; injection H as <-; auto. }
  destruct (_ && _). { intros H; injection H as <-; auto. }
  destruct (_ && _). { intros H; injection H as <-; auto. }
  destruct (lookupN v arch_names) as [nm|] eqn:El; try discriminate. intros H; injection H as <-.
  right; right. exists nm. split; auto. apply (alookup_In N.eqb) in El; auto. intros a b; apply N.eqb_eq.
Qed.
Lemma display_arch_value_ok v d : display_arch v = Some d -> value_text_ok d = true.
Proof.
  intros H. destruct (display_arch_cases _ _ H) as [-> | [-> | (nm & Hin & ->)]]; try reflexivity.
  exact (filter_nil_forall _ _ arch_texts_ok _ Hin).
Qed.

Lemma print_value_ok f v t : (f = 106 -> 1 <= v < 16) -> print_value f v = Some t -> value_text_ok t = true.
Proof.
  intros Hp. unfold print_value.
  destruct (f =? 11). { apply display_arch_value_ok. }
  destruct (f =? 103).
  { destruct (lookupZ _ errno_to_name) as [nm|] eqn:El; intros H; injection H as <-.
    - apply (alookup_In Z.eqb) in El. 2:{ intros a b; apply Z.eqb_eq. } exact (filter_nil_forall _ _ errno_texts_ok _ El).
    - apply dec_i32_value_ok. }
  destruct (existsb (N.eqb f) uid_fields || existsb (N.eqb f) gid_fields). { intros H; injection H as <-. apply dec_i32_value_ok. }
  destruct (f =? 12).
  { destruct (v <=? 65535) eqn:E; intros H; injection H as <-; [|apply dec_value_ok].
    apply N.leb_le in E. assert (Hlt: v < 65536) by (clear - E; lia). pose proof (In_all_types v Hlt) as Hin.
    exact (filter_nil_forall _ _ msgtype_texts_ok _ Hin). }
  destruct (f =? 106) eqn:E106.
  { apply N.eqb_eq in E106. specialize (Hp E106). intros H; injection H as <-.
    assert (Hin: In v (upto 16)) by (apply In_upto; lia).
    pose proof (filter_nil_forall _ _ perm_texts_ok _ Hin) as Hok. unfold perm_text_okb in Hok.
    apply orb_prop in Hok. destruct Hok as [Hok|Hok]; [lia|exact Hok]. }
  intros H; injection H as <-. apply dec_value_ok.
Qed.

(* ---------- arch: the name the re-parsed filter leaves in force is the one the printer resolved syscalls with ---------- *)
Definition arch_of (s : string) : option (str * N) := get_arch (s2l s).
Definition pair_eqb (a : option (str * N)) (nm : option str) (v : N) : bool :=
  match a, nm with Some (x, y), Some z => str_eqb x z && (y =? v) | _, _ => false end.
Definition arch_name_full_okb (e : N * string) : bool :=
  pair_eqb (arch_of (snd e)) (printer_arch (s2l (snd e))) (fst e) && negb (String.eqb (snd e) "b64") && negb (String.eqb (snd e) "b32").
Lemma arch_names_full_ok : filter (fun e => negb (arch_name_full_okb e)) arch_names = []. Proof. by_vm. Qed.
Definition arch_abbrev_full_okb : bool :=
  match runtime_arch with
  | None => true
  | Some rs =>
      match lookupS (s2l rs) reverse_arch with
      | None => true
      | Some ra =>
          let is64 := existsb (N.eqb ra) [AUDIT_ARCH_AARCH64; AUDIT_ARCH_X86_64; AUDIT_ARCH_PPC64; AUDIT_ARCH_S390X] in
          let is32 := existsb (N.eqb ra) [AUDIT_ARCH_ARM; AUDIT_ARCH_I386; AUDIT_ARCH_PPC; AUDIT_ARCH_S390] in
          (if is64 then pair_eqb (arch_of "b64") (printer_arch (s2l "b64")) ra else true) &&
          (if is32 then pair_eqb (arch_of "b32") (printer_arch (s2l "b32")) ra else true) &&
          (if ra =? AUDIT_ARCH_AARCH64 then pair_eqb (arch_of "b32") (printer_arch (s2l "b32")) AUDIT_ARCH_ARM else true) &&
          (if ra =? AUDIT_ARCH_X86_64 then pair_eqb (arch_of "b32") (printer_arch (s2l "b32")) AUDIT_ARCH_I386 else true) &&
          (if ra =? AUDIT_ARCH_PPC64 then pair_eqb (arch_of "b32") (printer_arch (s2l "b32")) AUDIT_ARCH_PPC else true) &&
          (if ra =? AUDIT_ARCH_S390X then pair_eqb (arch_of "b32") (printer_arch (s2l "b32")) AUDIT_ARCH_S390 else true)
      end
  end.
Lemma arch_abbrev_full_ok : arch_abbrev_full_okb = true. Proof. by_vm. Qed.

Lemma pair_eqb_eq a nm v : pair_eqb a nm v = true -> exists A, a = Some (A, v) /\ nm = Some A.
Proof.
  destruct a as [[x y]|], nm as [z|]; cbn; try discriminate. intros H. apply andb_prop in H. destruct H as [H1 H2].
  apply str_eqb_eq in H1. apply N.eqb_eq in H2. subst. eauto.
Qed.

Theorem display_get_arch v d : display_arch v = Some d -> exists A, get_arch d = Some (A, v) /\ printer_arch d = Some A.
Proof.
  pose proof arch_abbrev_full_ok as HA. unfold arch_abbrev_full_okb in HA. unfold display_arch.
  destruct runtime_arch as [rs|] eqn:Ers; try discriminate. destruct (lookupS (s2l rs) reverse_arch) as [ra|]; try discriminate.
  cbv zeta in HA. repeat (apply andb_prop in HA; destruct HA as [HA ?]).
  assert (Gn: forall nm, In (v, nm) arch_names -> exists A, get_arch (s2l nm) = Some (A, v) /\ printer_arch (s2l nm) = Some A).
  { intros nm Hin. pose proof (filter_nil_forall _ _ arch_names_full_ok _ Hin) as Hok. unfold arch_name_full_okb in Hok. cbn [fst snd] in Hok.
    apply andb_prop in Hok. destruct Hok as [Hok _]. apply andb_prop in Hok. destruct Hok as [Hok _]. apply pair_eqb_eq in Hok. exact Hok. }
  destruct (v =? ra) eqn:Eq.
  - apply N.eqb_eq in Eq. subst v. cbn [andb negb].
    destruct (existsb (N.eqb ra) [AUDIT_ARCH_AARCH64; AUDIT_ARCH_X86_64; AUDIT_ARCH_PPC64; AUDIT_ARCH_S390X]).
    { intros E; injection E as <-. apply pair_eqb_eq; assumption. }
    destruct (existsb (N.eqb ra) [AUDIT_ARCH_ARM; AUDIT_ARCH_I386; AUDIT_ARCH_PPC; AUDIT_ARCH_S390]).
    { intros E; injection E as <-. apply pair_eqb_eq; assumption. }
    intros E. destruct (lookupN ra arch_names) as [nm|] eqn:El; try discriminate. injection E as <-.
    apply (alookup_In N.eqb) in El. 2:{ intros a b; apply N.eqb_eq. } apply Gn; exact El.
  - cbn [andb negb].
    destruct (((ra =? AUDIT_ARCH_AARCH64) && (v =? AUDIT_ARCH_ARM) || (ra =? AUDIT_ARCH_X86_64) && (v =? AUDIT_ARCH_I386)
               || (ra =? AUDIT_ARCH_PPC64) && (v =? AUDIT_ARCH_PPC) || (ra =? AUDIT_ARCH_S390X) && (v =? AUDIT_ARCH_S390))) eqn:Ec.
    + intros E; injection E as <-. apply pair_eqb_eq.
      repeat (apply orb_prop in Ec; destruct Ec as [Ec|Ec]); apply andb_prop in Ec; destruct Ec as [E1 E2]; apply N.eqb_eq in E2; subst v;
        match goal with Hx : (if ra =? ?A then _ else true) = true |- pair_eqb _ _ _ = true => rewrite E1 in Hx; first [exact Hx | fail 1] end.
    + intros E. destruct (lookupN v arch_names) as [nm|] eqn:El; try discriminate. injection E as <-.
      apply (alookup_In N.eqb) in El. 2:{ intros a b; apply N.eqb_eq. } apply Gn; exact El.
Qed.

(* ---------- perm values ---------- *)
Lemma parse_perm_range : forall s acc v, parse_perm s acc = VOk v -> acc < 16 -> v < 16 /\ acc <= v /\ (s <> [] -> acc = 0 -> 1 <= v).
Proof.
  assert (L: forall a b, a < 16 -> b < 16 -> N.lor a b < 16).
  { intros a b Ha Hb. assert (G: forallb (fun a => forallb (fun b => N.lor a b <? 16) (upto 16)) (upto 16) = true) by (vm_compute; reflexivity).
    pose proof (forallb_upto _ _ G _ Ha) as G1. cbv beta in G1. pose proof (forallb_upto _ _ G1 _ Hb) as G2. cbv beta in G2. lia. }
  assert (M: forall a b, a < 16 -> b < 16 -> a <= N.lor a b).
  { intros a b Ha Hb. assert (G: forallb (fun a => forallb (fun b => a <=? N.lor a b) (upto 16)) (upto 16) = true) by (vm_compute; reflexivity).
    pose proof (forallb_upto _ _ G _ Ha) as G1. cbv beta in G1. pose proof (forallb_upto _ _ G1 _ Hb) as G2. cbv beta in G2. lia. }
  induction s as [|c r IH]; intros acc v H Hacc; cbn [parse_perm] in H.
  - injection H as <-. repeat split; auto; try lia. intros C; contradiction.
  - assert (G: forall bit, bit < 16 -> 1 <= bit -> parse_perm r (N.lor acc bit) = VOk v -> v < 16 /\ acc <= v /\ (c :: r <> [] -> acc = 0 -> 1 <= v)).
    { intros bit Hb Hb1 Hr. destruct (IH _ _ Hr (L _ _ Hacc Hb)) as (H1 & H2 & _). split; auto. split. pose proof (M acc bit Hacc Hb). lia.
      intros _ ->. rewrite N.lor_0_l in H2. lia. }
    destruct (N_of_ascii c) as [|p]; try discriminate.
    repeat (destruct p as [p|p|]; try discriminate); refine (G _ _ _ H); lia.
Qed.

(* ---------- inversion of add_item on each kind of item ---------- *)
Lemma triple_str_inv lst f op sv t ss : triple_of_item lst (IFilter f op (VStr sv)) = Some (t, ss) ->
  exists fc oc, lookupS (s2l op) operators_table = Some oc /\ lookupS (s2l f) fields_table = Some fc /\ is_string_field fc = true /\
                t = (fc, oc, N.of_nat (List.length sv)) /\ ss = [sv] /\
                ((if streq f "key" then max_key_length else path_max) <? N.of_nat (List.length sv)) = false.
Proof.
  unfold triple_of_item, add_item.
  destruct (lookupS (s2l op) operators_table) as [oc|]; [|discriminate].
  destruct (lookupS (s2l f) fields_table) as [fc|]; [|discriminate].
  destruct (streq lst "exclude" && negb (mem f exclude_ok)); [discriminate|].
  destruct (mem f exit_only && negb (streq lst "exit")); [discriminate|].
  destruct (streq f "msgtype" && negb (streq lst "user" || streq lst "exclude")); [discriminate|].
  destruct ((streq f "arch" || streq f "inode") && negb (eq_ne op)); [discriminate|].
  destruct (streq f "perm" && negb (streq op "=")); [discriminate|].
  destruct (is_string_field fc) eqn:Es; cbn [negb]; [|discriminate].
  destruct ((if streq f "key" then max_key_length else path_max) <? N.of_nat (List.length sv)); [discriminate|].
  cbn [app]. intros H. injection H as <- <-. exists fc, oc. auto 10.
Qed.

Lemma saddr_is_113 : lookupS (s2l "saddr_fam") fields_table = Some 113 /\ lookupN 113 reverse_fields_table = Some "saddr_fam".
Proof. split; by_vm. Qed.

Lemma triple_num_inv lst f op n t ss : triple_of_item lst (IFilter f op (VNum n)) = Some (t, ss) ->
  exists fc oc, lookupS (s2l op) operators_table = Some oc /\ lookupS (s2l f) fields_table = Some fc /\ is_string_field fc = false /\
                t = (fc, oc, n mod 2 ^ 32) /\ ss = [] /\ (fc = 113 -> n = 2 \/ n = 10) /\
                triple_of_item lst (IFilter f op (VNum (n mod 2 ^ 32))) = Some (t, ss).
Proof.
  unfold triple_of_item, add_item.
  destruct (lookupS (s2l op) operators_table) as [oc|]; [|discriminate].
  destruct (lookupS (s2l f) fields_table) as [fc|] eqn:Ef; [|discriminate].
  destruct (streq lst "exclude" && negb (mem f exclude_ok)); [discriminate|].
  destruct (mem f exit_only && negb (streq lst "exit")); [discriminate|].
  destruct (streq f "msgtype" && negb (streq lst "user" || streq lst "exclude")); [discriminate|].
  destruct ((streq f "arch" || streq f "inode") && negb (eq_ne op)); [discriminate|].
  destruct (streq f "perm" && negb (streq op "=")); [discriminate|].
  destruct (is_string_field fc) eqn:Es; [discriminate|].
  destruct (streq f "saddr_fam" && negb ((n =? 2) || (n =? 10))) eqn:Esa; [discriminate|].
  cbn [app]. intros H. injection H as <- <-. exists fc, oc.
  assert (Hs: fc = 113 -> n = 2 \/ n = 10).
  { intros ->. destruct (field_name_facts _ _ Ef) as (Hr & _). destruct saddr_is_113 as [_ H113]. rewrite H113 in Hr. injection Hr as <-.
    unfold streq in Esa. cbn [String.eqb Ascii.eqb Bool.eqb andb] in Esa. lia. }
  repeat split; auto.
  assert (Hsa': streq f "saddr_fam" && negb ((n mod 2 ^ 32 =? 2) || (n mod 2 ^ 32 =? 10)) = false).
  { destruct (streq f "saddr_fam") eqn:E1; [|reflexivity]. cbn [andb] in Esa |- *.
    assert (n = 2 \/ n = 10) as [-> | ->] by lia; reflexivity. }
  rewrite Hsa'. rewrite N.mod_mod by (change (2^32) with 4294967296; lia). reflexivity.
Qed.

Lemma triple_cmp_inv lst lf op rf t ss : triple_of_item lst (ICompare lf op rf) = Some (t, ss) ->
  exists oc a b tb c, lookupS (s2l op) operators_table = Some oc /\ lookupS (s2l lf) fields_table = Some a /\ lookupS (s2l rf) fields_table = Some b /\
                eq_ne op = true /\ lookupN a comparisons_table = Some tb /\ lookupN b tb = Some c /\ t = (111, oc, c) /\ ss = [].
Proof.
  unfold triple_of_item, add_item.
  destruct (lookupS (s2l op) operators_table) as [oc|] eqn:E1; [|discriminate].
  destruct (lookupS (s2l lf) fields_table) as [a|] eqn:E2; [|discriminate].
  destruct (lookupS (s2l rf) fields_table) as [b|] eqn:E3; [|discriminate].
  destruct (eq_ne op) eqn:E4; [|discriminate].
  destruct (lookupN a comparisons_table) as [tb|] eqn:E5; [|discriminate].
  destruct (lookupN b tb) as [c|] eqn:E6; [|discriminate].
  cbn [app]. intros H. injection H as <- <-. exists oc, a, b, tb, c. auto 10.
Qed.
Lemma triple_cmp_intro lst lf op rf oc a b tb c :
  lookupS (s2l op) operators_table = Some oc -> lookupS (s2l lf) fields_table = Some a -> lookupS (s2l rf) fields_table = Some b ->
  eq_ne op = true -> lookupN a comparisons_table = Some tb -> lookupN b tb = Some c ->
  triple_of_item lst (ICompare lf op rf) = Some ((111, oc, c), []).
Proof. intros H1 H2 H3 H4 H5 H6. unfold triple_of_item, add_item. rewrite H1, H2, H3, H4, H5, H6. reflexivity. Qed.

(* ---------- more finite facts ---------- *)
Lemma word_tok_ok c : is_word c = true -> tok_char_ok c = true.
Proof.
  intros H. assert (Hb: N_of_ascii c < 256) by apply N_ascii_bounded.
  assert (G: forallb (fun n => negb (is_word (ascii_of_N n)) || tok_char_ok (ascii_of_N n)) (upto 256) = true) by (vm_compute; reflexivity).
  pose proof (forallb_upto _ _ G _ Hb) as H'. cbv beta in H'. rewrite ascii_N_embedding in H'. rewrite H in H'. exact H'.
Qed.
Lemma words_clean s : forallb is_word s = true -> forallb tok_char_ok s = true.
Proof. induction s as [|c r IH]; cbn; auto. intros H. apply andb_prop in H. destruct H as [H1 H2]. rewrite word_tok_ok, IH; auto. Qed.
Lemma ops_clean : forallb (forallb tok_char_ok) ops = true. Proof. reflexivity. Qed.
Definition arch_displayable_okb (e : string * N) : bool := match display_arch (snd e) with Some _ => true | None => false end.
Lemma arch_displayable_ok : filter (fun e => negb (arch_displayable_okb e)) reverse_arch = []. Proof. by_vm. Qed.
Lemma arch_code : lookupS (s2l "arch") fields_table = Some 11. Proof. by_vm. Qed.

Lemma clean_app3 a b c : forallb tok_char_ok a = true -> forallb tok_char_ok b = true -> clean c = true -> clean (a ++ b ++ c) = true.
Proof.
  intros Ha Hb Hc. unfold clean in *. apply andb_prop in Hc. destruct Hc as [Hn Hc]. rewrite !forallb_app, Ha, Hb, Hc.
  rewrite !app_length. destruct c; [discriminate|]. cbn [List.length]. replace (_ =? 0)%nat with false by (symmetry; apply Nat.eqb_neq; lia). reflexivity.
Qed.

(* ---------- one filter ---------- *)
Definition scan_item (fi : fitem) : option (bool * str * str * str) :=
  match fi with
  | FFlag n v =>
      if String.eqb n "F" then match scan_filter v with Some (a, b, c) => Some (false, a, b, c) | None => None end
      else if String.eqb n "C" then match scan_compare v with Some (a, b, c) => Some (true, a, b, c) | None => None end
      else None
  | _ => None
  end.
Definition filter_ok (flt : bool * str * str * str) : Prop :=
  let '(cmp, lhs, o, rhs) := flt in cmp = false -> op_rhs_ok o rhs = true /\ clean rhs = true.
Definition item_tok_ok (fi : fitem) : Prop :=
  match fi with FFlag n v => (n = "F" \/ n = "C") /\ clean v = true | _ => False end.
Definition is_arch_filter (flt : bool * str * str * str) : bool := let '(cmp, lhs, _, _) := flt in negb cmp && str_eqb_s lhs "arch".

Lemma head_ok_op_rhs o rhs : value_text_ok rhs = true -> op_rhs_ok o rhs = true.
Proof.
  unfold value_text_ok, head_not_eq, op_rhs_ok. intros H. apply andb_prop in H. destruct H as [_ H]. destruct rhs as [|c r]; [discriminate|].
  apply negb_true_iff in H. rewrite H, andb_false_r. reflexivity.
Qed.

Theorem reprint_filter lst flt it t ss :
  item_of_filter flt = Some it -> triple_of_item lst it = Some (t, ss) -> filter_ok flt ->
  exists fi flt' it',
    print_triple t (hd [] ss) = Some fi /\ scan_item fi = Some flt' /\ item_of_filter flt' = Some it' /\
    triple_of_item lst it' = Some (t, ss) /\ item_tok_ok fi /\ filter_ok flt' /\
    ss = (if is_string_field (fst (fst t)) then [hd [] ss] else []) /\
    (if fst (fst t) =? 11
     then exists o d A, flt' = (false, s2l "arch", o, d) /\ display_arch (snd t) = Some d /\ get_arch d = Some (A, snd t) /\ printer_arch d = Some A
     else is_arch_filter flt' = false).
Proof.
  destruct flt as [[[cmp lhs] o] rhs]. unfold item_of_filter. intros Hit Ht Hok.
  destruct cmp.
  - (* -C *)
    injection Hit as <-. destruct (triple_cmp_inv _ _ _ _ _ _ Ht) as (oc & a & b & tb & c & Ho & Ha & Hb & He & Hta & Htb & -> & ->).
    rewrite s2l_sos in *. destruct (op_name_facts (sos o) oc) as [Hro _]. { rewrite s2l_sos. exact Ho. }
    assert (Hin: In (a, b, c) comparisons_flat).
    { apply (alookup_In N.eqb) in Hta, Htb; try (intros x y; apply N.eqb_eq). unfold comparisons_flat. apply in_flat_map. exists (a, tb). split; auto.
      cbn [fst snd]. apply in_map_iff. exists (b, c). auto. }
    pose proof (filter_nil_forall _ _ compare_print_ok _ Hin) as Hc. unfold compare_print_okb in Hc.
    destruct (lookupN c reverse_comparisons_table) as [[x y]|] eqn:Erc; [|discriminate].
    set (xy := if y <? x then (y, x) else (x, y)) in *. destruct xy as [a' b'] eqn:Exy.
    destruct (lookupN a' reverse_fields_table) as [an|] eqn:Ean; [|discriminate].
    destruct (lookupN b' reverse_fields_table) as [bn|] eqn:Ebn; [|discriminate].
    apply andb_prop in Hc. destruct Hc as [Hc Hcmp]. apply andb_prop in Hc. destruct Hc as [Hc Hlb].
    apply andb_prop in Hc. destruct Hc as [Hc Hla]. apply andb_prop in Hc. destruct Hc as [Hwa Hwb].
    apply optN_eqb_eq in Hcmp, Hlb, Hla.
    unfold word_name in Hwa, Hwb. apply andb_prop in Hwa, Hwb. destruct Hwa as [Hna Hwa], Hwb as [Hnb Hwb].
    assert (Han: s2l an <> []) by (intros E; destruct an; cbn in *; discriminate).
    assert (Hbn: s2l bn <> []) by (intros E; destruct bn; cbn in *; discriminate).
    assert (Hoo: o = l "=" \/ o = l "!=").
    { unfold eq_ne, streq in He. apply orb_prop in He. destruct He as [He|He]; apply String.eqb_eq in He;
        [left|right]; rewrite <- (s2l_sos o), He; reflexivity. }
    exists (FFlag "C" (s2l an ++ o ++ s2l bn)), (true, s2l an, o, s2l bn), (ICompare an (sos o) bn).
    split; [|split; [|split; [|split; [|split; [|split; [|split]]]]]].
    + unfold print_triple. rewrite Hro. cbn [N.eqb Pos.eqb]. rewrite Erc. fold xy. rewrite Exy, Ean, Ebn, s2l_sos. reflexivity.
    + cbn [scan_item String.eqb Ascii.eqb Bool.eqb andb]. rewrite scan_compare_render; auto.
    + rewrite !sos_s2l. reflexivity.
    + unfold comparison in Hcmp. destruct (lookupN a' comparisons_table) as [tb'|] eqn:Et'; [|discriminate].
      eapply triple_cmp_intro; eauto. rewrite s2l_sos. exact Ho.
    + split; [auto|]. apply clean_app3. apply words_clean; auto.
      { destruct Hoo as [-> | ->]; reflexivity. }
      unfold clean. rewrite (words_clean _ Hwb). destruct (s2l bn); [contradiction|reflexivity].
    + intros C; discriminate.
    + reflexivity.
    + reflexivity.
  - (* -F *)
    destruct (Hok eq_refl) as [Hor Hcl]. clear Hok.
    destruct (lookupS lhs fields_table) as [fc|] eqn:Ef; [|discriminate].
    assert (Ef': lookupS (s2l (sos lhs)) fields_table = Some fc) by (rewrite s2l_sos; exact Ef).
    destruct (field_name_facts _ _ Ef') as (Hrf & Hne & Hw & H111). rewrite s2l_sos in Hne, Hw.
    destruct (is_string_field fc) eqn:Es.
    + (* string-valued *)
      injection Hit as <-. destruct (triple_str_inv _ _ _ _ _ _ Ht) as (fc' & oc & Ho & Hf2 & _ & -> & -> & _).
      rewrite Ef' in Hf2. injection Hf2 as <-.
      destruct (op_name_facts _ _ Ho) as [Hro Hin]. rewrite s2l_sos in Hin.
      assert (H11: fc =? 11 = false). { destruct (fc =? 11) eqn:E; auto. apply N.eqb_eq in E. subst fc. discriminate. }
      assert (H111': fc =? 111 = false) by (apply N.eqb_neq; exact H111).
      exists (FFlag "F" (lhs ++ o ++ rhs)), (false, lhs, o, rhs), (IFilter (sos lhs) (sos o) (VStr rhs)).
      split; [|split; [|split; [|split; [|split; [|split; [|split]]]]]].
      * unfold print_triple. cbn [hd]. rewrite Hro, H11, H111', Hrf, Es, !s2l_sos. reflexivity.
      * cbn [scan_item String.eqb Ascii.eqb Bool.eqb andb]. rewrite scan_filter_render; auto.
      * unfold item_of_filter. rewrite Ef, Es. reflexivity.
      * exact Ht.
      * split; [auto|]. apply clean_app3; auto. apply words_clean; auto.
        pose proof ops_clean as Hoc. rewrite forallb_forall in Hoc. apply Hoc; auto.
      * intros _. auto.
      * cbn [fst]. rewrite Es. reflexivity.
      * cbn [fst]. rewrite H11. unfold is_arch_filter. cbn [negb andb].
        destruct (str_eqb_s lhs "arch") eqn:E; auto. apply str_eqb_s_eq in E. subst lhs. rewrite arch_code in Ef. injection Ef as <-. discriminate.
    + (* numeric *)
      destruct (parse_value fc rhs) as [n| |] eqn:Epv; try discriminate. injection Hit as <-.
      destruct (triple_num_inv _ _ _ _ _ _ Ht) as (fc' & oc & Ho & Hf2 & _ & -> & -> & Hsad & Ht').
      rewrite Ef' in Hf2. injection Hf2 as <-. set (v := n mod 2 ^ 32) in *.
      assert (Hv: v < 2 ^ 32) by (apply N.mod_lt; change (2^32) with 4294967296; lia).
      destruct (op_name_facts _ _ Ho) as [Hro Hin]. rewrite s2l_sos in Hin.
      assert (H111': fc =? 111 = false) by (apply N.eqb_neq; exact H111).
      assert (Hperm: fc = 106 -> 1 <= v < 16).
      { intros ->. unfold parse_value in Epv. cbn in Epv. destruct rhs as [|r0 rr]; [discriminate|].
        destruct (parse_perm_range _ _ _ Epv) as (H1 & _ & H2); [lia|]. assert (1 <= n) by (apply H2; [discriminate|reflexivity]).
        subst v. rewrite N.mod_small by (change (2^32) with 4294967296; lia). lia. }
      assert (Hrange: value_in_range fc v).
      { split; [exact Hv|]. split. intros E; apply Hperm in E; lia.
        intros E. destruct (Hsad E) as [-> | ->]; subst v; [left|right]; reflexivity. }
      (* what is printed *)
      assert (Hpr: exists rhs', print_value fc v = Some rhs').
      { unfold print_value. destruct (fc =? 11) eqn:E11.
        2:{ destruct (fc =? 103); [eauto|]. destruct (_ || _); [eauto|]. destruct (fc =? 12); [eauto|]. destruct (fc =? 106); eauto. }
        apply N.eqb_eq in E11. subst fc. unfold parse_value in Epv. cbn in Epv.
        destruct (get_arch rhs) as [[nm x]|] eqn:Ega; [|discriminate]. injection Epv as <-.
        unfold get_arch in Ega. destruct (if str_eqb_s _ "b64" then _ else _) as [ra|]; [|discriminate].
        destruct (lookupS ra reverse_arch) as [x'|] eqn:El; [|discriminate]. injection Ega as _ <-.
        destruct (lookupS_In _ _ _ El) as (k' & Hin' & _).
        pose proof (filter_nil_forall _ _ arch_displayable_ok _ Hin') as Hd. unfold arch_displayable_okb in Hd. cbn [snd] in Hd.
        assert (Hx: x' < 2 ^ 32).
        { assert (G: forallb (fun e : string * N => snd e <? 2 ^ 32) reverse_arch = true) by (vm_compute; reflexivity).
          rewrite forallb_forall in G. specialize (G _ Hin'). cbn [snd] in G. lia. }
        subst v. rewrite N.mod_small by exact Hx. destruct (display_arch x'); [eauto|discriminate]. }
      destruct Hpr as (rhs' & Hpr).
      pose proof (print_value_ok _ _ _ Hperm Hpr) as Hvt.
      pose proof (value_round_trip _ _ _ H111 Hrange Hpr) as Hback.
      assert (Hcl': clean rhs' = true) by (unfold value_text_ok in Hvt; apply andb_prop in Hvt; tauto).
      exists (FFlag "F" (lhs ++ o ++ rhs')), (false, lhs, o, rhs'), (IFilter (sos lhs) (sos o) (VNum v)).
      split; [|split; [|split; [|split; [|split; [|split; [|split]]]]]].
      * unfold print_triple. rewrite Hro. destruct (fc =? 11) eqn:E11.
        -- apply N.eqb_eq in E11. subst fc. unfold print_value in Hpr. cbn [N.eqb Pos.eqb] in Hpr. rewrite Hpr.
           rewrite arch_is_11 in Hrf. injection Hrf as Hrf. rewrite <- (s2l_sos lhs), <- Hrf, s2l_sos. reflexivity.
        -- rewrite H111', Hrf, Es, Hpr, !s2l_sos. reflexivity.
      * cbn [scan_item String.eqb Ascii.eqb Bool.eqb andb]. rewrite scan_filter_render; auto. apply head_ok_op_rhs; auto.
      * unfold item_of_filter. rewrite Ef, Es, Hback. reflexivity.
      * exact Ht'.
      * split; [auto|]. apply clean_app3; auto. apply words_clean; auto.
        pose proof ops_clean as Hoc. rewrite forallb_forall in Hoc. apply Hoc; auto.
      * intros _. split; auto. apply head_ok_op_rhs; auto.
      * cbn [fst]. rewrite Es. reflexivity.
      * cbn [fst snd]. destruct (fc =? 11) eqn:E11.
        -- apply N.eqb_eq in E11. subst fc. unfold print_value in Hpr. cbn [N.eqb Pos.eqb] in Hpr.
           destruct (display_get_arch _ _ Hpr) as (A & HA1 & HA2). exists o, rhs', A.
           rewrite arch_is_11 in Hrf. injection Hrf as Hrf. rewrite <- (s2l_sos lhs), <- Hrf. auto.
        -- unfold is_arch_filter. cbn [negb andb].
           destruct (str_eqb_s lhs "arch") eqn:E; auto. apply str_eqb_s_eq in E. subst lhs. rewrite arch_code in Ef. injection Ef as <-. discriminate.
Qed.
Print Assumptions reprint_filter.

(* ---------- what flags.Parse returns satisfies the operator condition of filter_ok ---------- *)
(* the -F scanner takes the longest operator: a bare < > & it returns is followed by '=' only when that '=' is the whole value *)
Lemma pick_op_rhs_ok l o rhs : pick_op ops l = Some (o, rhs) -> op_rhs_ok o rhs = true \/ rhs = ["="%char].
Proof.
  intros H. destruct (pick_op_spec _ _ _ _ H) as (Hin & Hl & Hne). subst l.
  destruct rhs as [|c r]; [contradiction|].
  unfold ops in Hin. cbn [map In] in Hin.
  destruct Hin as [<-|[<-|[<-|[<-|[<-|[<-|[<-|[<-|[]]]]]]]]]; try (left; reflexivity);
    (destruct (Ascii.eqb c "="%char) eqn:E;
     [ apply Ascii.eqb_eq in E; subst c; destruct r as [|c2 r2]; [right; reflexivity | cbn in H; discriminate H]
     | left; unfold op_rhs_ok; cbn; rewrite E; reflexivity ]).
Qed.
Theorem scan_filter_rhs_ok v lhs o rhs : scan_filter v = Some (lhs, o, rhs) -> op_rhs_ok o rhs = true \/ rhs = ["="%char].
Proof.
  unfold scan_filter. destruct (span is_word v) as [w r1]. destruct w; [discriminate|]. destruct (span is_blank r1) as [ws r2].
  destruct (pick_op ops r2) as [[o' rhs']|] eqn:E; [|discriminate]. intros H; injection H as _ <- <-. eapply pick_op_rhs_ok; eauto.
Qed.
Print Assumptions scan_filter_rhs_ok.
