(* Proofs/HeaderIdxProofs.v — every slice expression of parseAuditHeader, Parse and ParseLogLine is inside the
   string, for every input; and the index reading cuts the line exactly where the split reading of
   Model/Header.v / Model/Parser.v (the one run against the implementation) cuts it. *)
From Coq Require Import List Ascii String NArith ZArith Bool Arith Lia.
Import ListNotations.
Require Import Dec KV Trim Header Parser HeaderIdx.
Local Close Scope N_scope.
Local Open Scope nat_scope.
Local Open Scope list_scope.
Local Notation length := List.length.

Lemma slice_some s lo hi : lo <= hi -> hi <= length s -> slice s lo hi = Some (firstn (hi - lo) (skipn lo s)).
Proof. intros H1 H2. unfold slice. destruct (Nat.leb_spec lo hi); [|lia]. destruct (Nat.leb_spec hi (length s)); [|lia]. reflexivity. Qed.
Lemma slice_from_some s lo : lo <= length s -> slice_from s lo = Some (skipn lo s).
Proof. intros H. unfold slice_from. rewrite slice_some by lia. rewrite <- (skipn_length lo s). rewrite firstn_all. reflexivity. Qed.
Lemma skipn_exact {A} (p x : list A) : skipn (length p) (p ++ x) = x.
Proof. induction p; cbn; auto. Qed.
Lemma firstn_exact {A} (p x : list A) : firstn (length p) (p ++ x) = p.
Proof. induction p; cbn; auto. f_equal. auto. Qed.

(* the first occurrence of c cuts s into pre ++ d :: r, and split_at returns the same cut *)
Lemma index_char_decomp c : forall s i, index_char c s = Some i ->
  exists pre d r, s = pre ++ d :: r /\ length pre = i /\ ceq c d = true /\ split_at c s = Some (pre, r).
Proof.
  induction s as [|x s IH]; intros i H; cbn [index_char] in H; [discriminate|]. cbn [split_at].
  destruct (ceq c x) eqn:E.
  - injection H as <-. exists [], x, s. auto.
  - destruct (index_char c s) as [j|] eqn:Ej; [|discriminate]. injection H as <-.
    destruct (IH j eq_refl) as (pre & d & r & -> & Hl & Hc & Hs). exists (x :: pre), d, r. rewrite Hs. cbn. auto.
Qed.
Lemma index_char_none c : forall s, index_char c s = None -> split_at c s = None.
Proof.
  induction s as [|x s IH]; intros H; cbn [index_char] in H; cbn [split_at]; auto.
  destruct (ceq c x); [discriminate|]. destruct (index_char c s); [discriminate|]. rewrite IH; auto.
Qed.
Lemma ceq_excl (c1 c2 d : ascii) : N_of_ascii c1 <> N_of_ascii c2 -> ceq c1 d = true -> ceq c2 d = false.
Proof. unfold ceq. intros Hne H. apply N.eqb_eq in H. apply N.eqb_neq. congruence. Qed.
(* looking for c2 in a text that starts with a different character c1 *)
Lemma index_char_skip_head c2 d r : ceq c2 d = false -> index_char c2 (d :: r) = option_map S (index_char c2 r).
Proof. intros H. cbn [index_char]. rewrite H. reflexivity. Qed.

(* ---------- parseAuditHeader ---------- *)
Theorem header_pieces_spec line :
  match header_pieces line with
  | POk (a, b, c, e) =>
      exists pre r1 r2 r3 rest,
        split_at "("%char line = Some (pre, r1) /\ split_at "."%char r1 = Some (a, r2) /\
        split_at ":"%char r2 = Some (b, r3) /\ split_at ")"%char r3 = Some (c, rest) /\
        e < length line /\ skipn (S e) line = rest
  | PErr => split_at "("%char line = None \/
            exists pre r1, split_at "("%char line = Some (pre, r1) /\
              (split_at "."%char r1 = None \/ exists a r2, split_at "."%char r1 = Some (a, r2) /\
                 (split_at ":"%char r2 = None \/ exists b r3, split_at ":"%char r2 = Some (b, r3) /\ split_at ")"%char r3 = None))
  | PPanic => False
  end.
Proof.
  unfold header_pieces.
  destruct (index_char "("%char line) as [start|] eqn:E1; [|left; apply index_char_none; exact E1].
  destruct (index_char_decomp _ _ _ E1) as (pre & p & r1 & Hline & Hstart & Hp & S1).
  assert (Hs1: slice_from line start = Some (p :: r1)).
  { rewrite slice_from_some by (subst line; rewrite !app_length; cbn [length]; lia). subst line start. rewrite skipn_exact. reflexivity. }
  rewrite Hs1. rewrite index_char_skip_head by (apply (ceq_excl "("%char); [discriminate|exact Hp]).
  destruct (index_char "."%char r1) as [d0|] eqn:E2; cbn [option_map].
  2:{ right. exists pre, r1. split; [exact S1|]. left. apply index_char_none. exact E2. }
  destruct (index_char_decomp _ _ _ E2) as (a & q & r2 & Hr1 & Hd0 & Hq & S2).
  assert (Hl2: line = (pre ++ p :: a) ++ q :: r2) by (rewrite Hline, Hr1; repeat rewrite <- app_assoc; reflexivity).
  assert (Hdot: S d0 + start = length (pre ++ p :: a)) by (rewrite !app_length; cbn [length]; lia).
  assert (Hs2: slice_from line (S d0 + start) = Some (q :: r2)).
  { rewrite slice_from_some by (rewrite Hdot, Hl2, !app_length; cbn [length]; lia). rewrite Hdot. rewrite Hl2 at 1. rewrite skipn_exact. reflexivity. }
  rewrite Hs2. rewrite index_char_skip_head by (apply (ceq_excl "."%char); [discriminate|exact Hq]).
  destruct (index_char ":"%char r2) as [s0|] eqn:E3; cbn [option_map].
  2:{ right. exists pre, r1. split; [exact S1|]. right. exists a, r2. split; [exact S2|]. left. apply index_char_none. exact E3. }
  destruct (index_char_decomp _ _ _ E3) as (b & r & r3 & Hr2 & Hs0 & Hr & S3).
  assert (Hl3: line = ((pre ++ p :: a) ++ q :: b) ++ r :: r3) by (rewrite Hl2, Hr2; repeat rewrite <- app_assoc; reflexivity).
  assert (Hsep: S s0 + (S d0 + start) = length ((pre ++ p :: a) ++ q :: b)) by (rewrite !app_length; cbn [length]; lia).
  assert (Hs3: slice_from line (S s0 + (S d0 + start)) = Some (r :: r3)).
  { rewrite slice_from_some by (rewrite Hsep, Hl3, !app_length; cbn [length]; lia). rewrite Hsep. rewrite Hl3 at 1. rewrite skipn_exact. reflexivity. }
  rewrite Hs3. rewrite index_char_skip_head by (apply (ceq_excl ":"%char); [discriminate|exact Hr]).
  destruct (index_char ")"%char r3) as [e0|] eqn:E4; cbn [option_map].
  2:{ right. exists pre, r1. split; [exact S1|]. right. exists a, r2. split; [exact S2|]. right. exists b, r3. split; [exact S3|]. apply index_char_none. exact E4. }
  destruct (index_char_decomp _ _ _ E4) as (c & t & rest & Hr3 & He0 & Ht & S4).
  assert (Hl4: line = (((pre ++ p :: a) ++ q :: b) ++ r :: c) ++ t :: rest) by (rewrite Hl3, Hr3; repeat rewrite <- app_assoc; reflexivity).
  assert (Hend: S e0 + (S s0 + (S d0 + start)) = length (((pre ++ p :: a) ++ q :: b) ++ r :: c)) by (rewrite !app_length; cbn [length]; lia).
  (* the three number texts *)
  assert (Ha: slice line (start + 1) (S d0 + start) = Some a).
  { rewrite slice_some; [|lia|rewrite Hdot, Hl2, !app_length; cbn [length]; lia].
    replace (start + 1) with (length (pre ++ [p])) by (rewrite !app_length; cbn [length]; lia).
    replace line with ((pre ++ [p]) ++ a ++ q :: r2) at 1 by (rewrite Hl2; repeat rewrite <- app_assoc; reflexivity).
    rewrite skipn_exact. replace (S d0 + start - length (pre ++ [p])) with (length a) by (rewrite !app_length; cbn [length]; lia).
    rewrite firstn_exact. reflexivity. }
  assert (Hb: slice line (S d0 + start + 1) (S s0 + (S d0 + start)) = Some b).
  { rewrite slice_some; [|lia|rewrite Hsep, Hl3, !app_length; cbn [length]; lia].
    replace (S d0 + start + 1) with (length ((pre ++ p :: a) ++ [q])) by (rewrite !app_length; cbn [length]; lia).
    replace line with (((pre ++ p :: a) ++ [q]) ++ b ++ r :: r3) at 1 by (rewrite Hl3; repeat rewrite <- app_assoc; reflexivity).
    rewrite skipn_exact. replace (S s0 + (S d0 + start) - length ((pre ++ p :: a) ++ [q])) with (length b) by (rewrite !app_length; cbn [length]; lia).
    rewrite firstn_exact. reflexivity. }
  assert (Hc: slice line (S s0 + (S d0 + start) + 1) (S e0 + (S s0 + (S d0 + start))) = Some c).
  { rewrite slice_some; [|lia|rewrite Hend, Hl4, !app_length; cbn [length]; lia].
    replace (S s0 + (S d0 + start) + 1) with (length (((pre ++ p :: a) ++ q :: b) ++ [r])) by (rewrite !app_length; cbn [length]; lia).
    replace line with ((((pre ++ p :: a) ++ q :: b) ++ [r]) ++ c ++ t :: rest) at 1 by (rewrite Hl4; repeat rewrite <- app_assoc; reflexivity).
    rewrite skipn_exact. replace (S e0 + (S s0 + (S d0 + start)) - length (((pre ++ p :: a) ++ q :: b) ++ [r])) with (length c) by (rewrite !app_length; cbn [length]; lia).
    rewrite firstn_exact. reflexivity. }
  rewrite Ha, Hb, Hc. exists pre, r1, r2, r3, rest. repeat split; auto.
  - rewrite Hend, Hl4, !app_length. cbn [length]. lia.
  - replace (S (S e0 + (S s0 + (S d0 + start)))) with (length ((((pre ++ p :: a) ++ q :: b) ++ r :: c) ++ [t])) by (rewrite !app_length; cbn [length]; lia).
    replace line with (((((pre ++ p :: a) ++ q :: b) ++ r :: c) ++ [t]) ++ rest) at 1 by (rewrite Hl4; repeat rewrite <- app_assoc; reflexivity).
    apply skipn_exact.
Qed.
Theorem header_pieces_no_panic line : header_pieces line <> PPanic.
Proof. pose proof (header_pieces_spec line) as H. destruct (header_pieces line) as [[[[a b] c] e]| |]; [discriminate|discriminate|contradiction]. Qed.

(* the split reading of Model/Header.v is the index reading followed by the three strconv calls *)
Definition numbers_of (a b c rest : str) : hres header :=
  match parse_int10_64 a with HErr => HErr | HOk sec =>
  match parse_int10_64 b with HErr => HErr | HOk msec =>
  match parse_uint10 32 c with HErr => HErr | HOk sq => HOk {| h_sec := sec; h_msec := msec; h_seq := sq; h_after := rest |} end end end.
Theorem parse_audit_header_by_index line :
  parse_audit_header line =
  match header_pieces line with
  | POk (a, b, c, e) => numbers_of a b c (skipn (S e) line)
  | _ => HErr
  end.
Proof.
  pose proof (header_pieces_spec line) as H. unfold parse_audit_header. destruct (header_pieces line) as [[[[a b] c] e]| |].
  - destruct H as (pre & r1 & r2 & r3 & rest & -> & -> & -> & -> & _ & ->). reflexivity.
  - destruct H as [->|(pre & r1 & -> & [->|(a & r2 & -> & [->|(b & r3 & -> & ->)])])]; reflexivity.
  - contradiction.
Qed.

(* Parse: message[end:] is inside the message whenever the header parsed *)
Theorem parse_tail_no_panic message : match header_pieces message with POk (_, _, _, e) => parse_tail message e <> PPanic | _ => True end.
Proof.
  pose proof (header_pieces_spec message) as H. destruct (header_pieces message) as [[[[a b] c] e]| |]; auto.
  destruct H as (_ & _ & _ & _ & _ & _ & _ & _ & _ & He & _). unfold parse_tail. rewrite slice_from_some by lia. discriminate.
Qed.

(* ---------- ParseLogLine ---------- *)
Lemma has_prefix_length p : forall s, has_prefix p s = true -> length p <= length s.
Proof. induction p as [|x p IH]; intros [|y s] H; cbn in *; try lia; try discriminate. apply andb_prop in H. destruct H as [_ H]. apply IH in H. lia. Qed.
Lemma index_of_bound p : forall fuel s i, index_of fuel p s = Some i -> i + length p <= length s.
Proof.
  induction fuel as [|f IH]; intros s i H; cbn [index_of] in H; [discriminate|].
  destruct (has_prefix p s) eqn:E. { injection H as <-. apply has_prefix_length in E. lia. }
  destruct s as [|x s]; [discriminate|]. destruct (index_of f p s) as [j|] eqn:Ej; [|discriminate]. injection H as <-.
  apply IH in Ej. cbn [length]. lia.
Qed.
Theorem log_line_pieces_no_panic line : log_line_pieces line <> PPanic.
Proof.
  unfold log_line_pieces. destruct (sindex (L "msg=") line) as [mi|] eqn:E; [|discriminate].
  destruct (Nat.ltb_spec mi 6); [discriminate|]. apply index_of_bound in E. cbn [length L list_ascii_of_string] in E.
  rewrite slice_some by lia. rewrite slice_from_some by lia. discriminate.
Qed.
(* ---------- only well-formed headers parse ---------- *)
Lemma ceq_eq c d : ceq c d = true -> d = c.
Proof. unfold ceq. intros H. apply N.eqb_eq in H. rewrite <- (ascii_N_embedding d), <- H, ascii_N_embedding. reflexivity. Qed.
Lemma split_at_spec c : forall s a r, split_at c s = Some (a, r) -> s = a ++ c :: r /\ ~ In c a.
Proof.
  induction s as [|x s IH]; intros a r H; cbn [split_at] in H; [discriminate|]. destruct (ceq c x) eqn:E.
  - injection H as <- <-. apply ceq_eq in E. subst x. split; [reflexivity|intros []].
  - destruct (split_at c s) as [[a' r']|] eqn:Es; [|discriminate]. injection H as <- <-. destruct (IH a' r' eq_refl) as [-> Hn].
    split; [reflexivity|]. intros [C|C]; [|contradiction]. subst x. unfold ceq in E. rewrite N.eqb_refl in E. discriminate.
Qed.
(* parseAuditHeader succeeds exactly on   pre ( sec . msec : seq ) rest   with the first ( . : ) of the line as delimiters
   and three numbers strconv accepts - a malformed header is an error *)
Theorem header_accepted_only_if_wellformed line h : parse_audit_header line = HOk h ->
  exists pre a b c, line = pre ++ "("%char :: a ++ "."%char :: b ++ ":"%char :: c ++ ")"%char :: h_after h /\
    ~ In "("%char pre /\ ~ In "."%char a /\ ~ In ":"%char b /\ ~ In ")"%char c /\
    parse_int10_64 a = HOk (h_sec h) /\ parse_int10_64 b = HOk (h_msec h) /\ parse_uint10 32 c = HOk (h_seq h).
Proof.
  unfold parse_audit_header. intros H.
  destruct (split_at "("%char line) as [[pre r1]|] eqn:E1; [|discriminate].
  destruct (split_at "."%char r1) as [[a r2]|] eqn:E2; [|discriminate].
  destruct (split_at ":"%char r2) as [[b r3]|] eqn:E3; [|discriminate].
  destruct (split_at ")"%char r3) as [[c rest]|] eqn:E4; [|discriminate].
  destruct (parse_int10_64 a) as [sec|] eqn:Pa; [|discriminate]. destruct (parse_int10_64 b) as [msec|] eqn:Pb; [|discriminate].
  destruct (parse_uint10 32 c) as [sq|] eqn:Pc; [|discriminate]. injection H as <-. cbn [h_sec h_msec h_seq h_after].
  apply split_at_spec in E1, E2, E3, E4. destruct E1 as [-> N1]. destruct E2 as [-> N2]. destruct E3 as [-> N3]. destruct E4 as [-> N4].
  exists pre, a, b, c. repeat split; auto.
Qed.
Print Assumptions header_accepted_only_if_wellformed.
Print Assumptions header_pieces_spec.
Print Assumptions parse_audit_header_by_index.
Print Assumptions log_line_pieces_no_panic.
