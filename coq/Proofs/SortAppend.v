From Coq Require Import List ZArith Bool Lia Permutation Sorted ZifyBool.
Import ListNotations.
Require Import Reassembler ReasmInv ReasmC01 Window.
Open Scope Z_scope.
Ltac Zify.zify_post_hook ::= Z.div_mod_to_equations.

Definition lt_less (a b : Z) : Prop := less a b = true.
Definition win (base : Z) (l : list Z) : Prop := 0 <= base < 2^32 /\ Forall (inwin base) l.

Lemma less_trans base a b c : 0 <= base < 2^32 -> inwin base a -> inwin base b -> inwin base c ->
  less a b = true -> less b c = true -> less a c = true.
Proof. intros Hb Ha Hb' Hc H1 H2. rewrite (less_in_window base) in *; auto. lia. Qed.
Lemma less_total base a b : 0 <= base < 2^32 -> inwin base a -> inwin base b -> a <> b -> less a b = false -> less b a = true.
Proof.
  intros Hb Ha Hb' Hne H. rewrite (less_in_window base); auto.
  assert (~ off base a < off base b) by (rewrite <- (less_in_window base a b); auto; congruence).
  assert (off base a <> off base b).
  { unfold off, inwin in *. change (2^32) with 4294967296 in *. lia. }
  lia.
Qed.

(* rev-prefix is descending *)
Definition desc (l : list Z) := StronglySorted (fun a b => less b a = true) l.

Lemma insert_back_desc base x : forall rp, 0 <= base < 2^32 -> inwin base x -> Forall (inwin base) rp -> ~ In x rp ->
  desc rp -> desc (insert_back rp x) /\ (forall y, In y (insert_back rp x) <-> y = x \/ In y rp).
Proof.
  induction rp as [|p r IH]; intros Hb Hx Hw Hni Hd; cbn.
  - split. repeat constructor. intros y. cbn. intuition.
  - inversion Hw as [|? ? Hp Hr]; subst. inversion Hd as [|? ? Hd' Hall]; subst.
    assert (Hni' : ~ In x r) by (intros C; apply Hni; right; auto).
    destruct (less x p) eqn:E.
    + destruct (IH Hb Hx Hr Hni' Hd') as [IH1 IH2]. split.
      * constructor; auto. apply Forall_forall. intros y Hy. apply IH2 in Hy. destruct Hy as [->|Hy]; auto.
        rewrite Forall_forall in Hall. apply Hall; auto.
      * intros y. cbn. rewrite IH2. intuition.
    + split.
      * assert (Hpx: less p x = true). { apply (less_total base); auto. intros ->. apply Hni. left; auto. }
        constructor; [exact Hd|]. constructor; [exact Hpx|]. apply Forall_forall. intros y Hy. rewrite Forall_forall in Hall, Hr.
        apply (less_trans base y p x); auto.
      * intros y. cbn. intuition.
Qed.

Lemma desc_rev_sorted l : desc (rev l) <-> StronglySorted lt_less l.
Proof.
  unfold desc, lt_less. induction l as [|a l IH]; cbn.
  - split; constructor.
  - split; intros H.
    + assert (H1: StronglySorted (fun a b => less b a = true) (rev l) /\ Forall (fun y => less a y = true) (rev l)).
      { clear IH. induction (rev l) as [|y r IHr]; cbn in *. split; constructor.
        inversion H as [|? ? Hs Hf]; subst. destruct (IHr Hs) as [A B]. split.
        - constructor; auto. apply Forall_forall. intros z Hz. rewrite Forall_forall in Hf. apply Hf. apply in_or_app; auto.
        - constructor; auto. rewrite Forall_forall in Hf. apply Hf. apply in_or_app; right; left; auto. }
      destruct H1 as [A B]. constructor. apply IH; auto. apply Forall_forall. intros y Hy. rewrite Forall_forall in B. apply B. apply in_rev in Hy. auto.
    + inversion H as [|? ? Hs Hf]; subst. apply IH in Hs.
      clear IH H. assert (B: Forall (fun y => less a y = true) (rev l)).
      { apply Forall_forall. intros y Hy. rewrite Forall_forall in Hf. apply Hf. apply in_rev; auto. }
      induction (rev l) as [|y r IHr]; cbn. repeat constructor.
      inversion Hs as [|? ? Hs' Hf']; subst. inversion B; subst. constructor; auto.
      apply Forall_forall. intros z Hz. apply in_app_or in Hz. destruct Hz as [Hz|[<-|[]]]; auto. rewrite Forall_forall in Hf'. auto.
Qed.

Theorem sort_append_sorted base l x : 0 <= base < 2^32 -> inwin base x -> Forall (inwin base) l -> ~ In x l ->
  StronglySorted lt_less l -> StronglySorted lt_less (sort_append l x).
Proof.
  intros Hb Hx Hw Hni Hs. unfold sort_append. apply (proj1 (desc_rev_sorted _)). rewrite rev_involutive.
  apply (insert_back_desc base x (rev l)); auto.
  - apply Forall_rev; auto.
  - intros C. apply Hni. apply in_rev; auto.
  - apply (proj2 (desc_rev_sorted _)). auto.
Qed.
Print Assumptions sort_append_sorted.
