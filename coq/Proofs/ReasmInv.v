From Coq Require Import List ZArith Bool Lia Permutation.
Import ListNotations.
Require Import Reassembler.
Open Scope Z_scope.

(* ---------- assoc-list lemmas ---------- *)
Lemma lookup_remove_same k m : lookup k (remove k m) = None.
Proof. induction m as [|[k' e] m IH]; cbn; auto. destruct (k =? k') eqn:E; auto. cbn. rewrite E. auto. Qed.
Lemma lookup_remove_other k k' m : k <> k' -> lookup k (remove k' m) = lookup k m.
Proof.
  intros H. induction m as [|[k2 e] m IH]; cbn; auto.
  destruct (k' =? k2) eqn:E1.
  - apply Z.eqb_eq in E1. subst. destruct (k =? k2) eqn:E2; auto. apply Z.eqb_eq in E2. lia.
  - cbn. rewrite IH. reflexivity.
Qed.
Lemma lookup_update_same k e m : lookup k (update k e m) = Some e.
Proof. unfold update. cbn. rewrite Z.eqb_refl. auto. Qed.
Lemma lookup_update_other k k' e m : k <> k' -> lookup k (update k' e m) = lookup k m.
Proof. intros H. unfold update. cbn. destruct (k =? k') eqn:E. apply Z.eqb_eq in E; lia. apply lookup_remove_other; auto. Qed.

(* ---------- list_eqb ---------- *)
Lemma msg_eqb_refl m : msg_eqb m m = true.
Proof. unfold msg_eqb. rewrite !Z.eqb_refl. auto. Qed.
Lemma list_eqb_refl l : list_eqb l l = true.
Proof. induction l; cbn; auto. rewrite msg_eqb_refl. auto. Qed.

(* ---------- filters ---------- *)
Lemma filter_filter_other k sq (U : list msg) : k <> sq ->
  filter (sameseq k) (filter (fun m => negb (sameseq sq m)) U) = filter (sameseq k) U.
Proof.
  intros H. induction U as [|m U IH]; cbn; auto.
  unfold sameseq in *. destruct (mseq m =? sq) eqn:E1; cbn.
  - apply Z.eqb_eq in E1. destruct (mseq m =? k) eqn:E2. apply Z.eqb_eq in E2; lia. auto.
  - destruct (mseq m =? k); cbn; rewrite IH; auto.
Qed.
Lemma filter_app_one k (U : list msg) m : filter (sameseq k) (U ++ [m]) = filter (sameseq k) U ++ (if sameseq k m then [m] else []).
Proof. rewrite filter_app. cbn. destruct (sameseq k m); auto. Qed.

Lemma not_in_nil_filter {A} (f : A -> bool) l : (forall x, In x l -> f x = false) -> filter f l = [].
Proof. induction l as [|a l IH]; cbn; auto. intros H. rewrite (H a) by auto. apply IH. intros; apply H; auto. Qed.

(* ---------- invariant ---------- *)
Definition InvL (U : list msg) (sqs : list Z) (em : emap) : Prop :=
  NoDup sqs /\
  (forall k, In k sqs <-> lookup k em <> None) /\
  (forall k e, lookup k em = Some e -> msgs e = filter (sameseq k) U /\ msgs e <> []) /\
  (forall m, In m U -> In (mseq m) sqs).

Lemma sort_append_perm l x : Permutation (sort_append l x) (x :: l).
Proof.
  unfold sort_append.
  assert (H: forall r, Permutation (insert_back r x) (x :: r)).
  { induction r as [|p r IH]; cbn; auto. destruct (less x p); auto.
    rewrite IH. apply perm_swap. }
  rewrite <- Permutation_rev. rewrite H. constructor. rewrite <- Permutation_rev. auto.
Qed.

Lemma InvL_init : InvL [] [] [].
Proof. repeat split; try constructor; cbn; intros; try contradiction; try discriminate. Qed.

Lemma put_inv c now now2 m s U : InvL U (seqs s) (events s) ->
  InvL (pushU U (Push (Some m) now now2)) (seqs (put c now m s)) (events (put c now m s)).
Proof.
  intros (Hnd & Hin & Hmsgs & HU). unfold put, pushU.
  destruct (lookup (mseq m) (events s)) as [e|] eqn:El.
  - assert (Hk: In (mseq m) (seqs s)) by (apply Hin; congruence).
    destruct (mty m =? AUDIT_EOE) eqn:Et; cbn.
    + (* EOE found *)
      repeat split; auto.
      * intros H. destruct (Z.eq_dec k (mseq m)) as [->|N]. rewrite lookup_update_same; discriminate.
        rewrite lookup_update_other by auto. apply Hin; auto.
      * intros H. destruct (Z.eq_dec k (mseq m)) as [->|N]; auto. rewrite lookup_update_other in H by auto. apply Hin; auto.
      * destruct (Z.eq_dec k (mseq m)) as [->|N]. rewrite lookup_update_same in H. inversion H; subst; cbn. apply Hmsgs; auto.
        rewrite lookup_update_other in H by auto. apply Hmsgs; auto.
      * destruct (Z.eq_dec k (mseq m)) as [->|N]. rewrite lookup_update_same in H. inversion H; subst; cbn. apply (Hmsgs _ _ El).
        rewrite lookup_update_other in H by auto. apply (Hmsgs _ _ H).
    + repeat split; auto.
      * intros H. destruct (Z.eq_dec k (mseq m)) as [->|N]. rewrite lookup_update_same; discriminate.
        rewrite lookup_update_other by auto. apply Hin; auto.
      * intros H. destruct (Z.eq_dec k (mseq m)) as [->|N]; auto. rewrite lookup_update_other in H by auto. apply Hin; auto.
      * destruct (Z.eq_dec k (mseq m)) as [->|N].
        -- rewrite lookup_update_same in H. inversion H; subst; cbn. rewrite filter_app_one. unfold sameseq at 2. rewrite Z.eqb_refl.
           f_equal. apply (Hmsgs _ _ El).
        -- rewrite lookup_update_other in H by auto. rewrite filter_app_one. unfold sameseq at 2.
           destruct (mseq m =? k) eqn:E. apply Z.eqb_eq in E; lia. rewrite app_nil_r. apply (Hmsgs _ _ H).
      * destruct (Z.eq_dec k (mseq m)) as [->|N].
        -- rewrite lookup_update_same in H. inversion H; subst; cbn. intros C. apply app_eq_nil in C. destruct C; discriminate.
        -- rewrite lookup_update_other in H by auto. apply (Hmsgs _ _ H).
      * intros m' Hm'. apply in_app_or in Hm'. destruct Hm' as [Hm'|[<-|[]]]; auto.
  - destruct (mty m =? AUDIT_EOE) eqn:Et; cbn.
    + exact (conj Hnd (conj Hin (conj Hmsgs HU))).
    + assert (Hnk: ~ In (mseq m) (seqs s)) by (intros C; apply Hin in C; congruence).
      assert (HP := sort_append_perm (seqs s) (mseq m)).
      repeat split.
      * eapply Permutation_NoDup. symmetry; exact HP. constructor; auto.
      * intros H. apply (Permutation_in _ HP) in H. destruct H as [<-|H]. rewrite lookup_update_same; discriminate.
        destruct (Z.eq_dec k (mseq m)) as [->|N]. contradiction. rewrite lookup_update_other by auto. apply Hin; auto.
      * intros H. apply (Permutation_in _ (Permutation_sym HP)). destruct (Z.eq_dec k (mseq m)) as [->|N]. left; auto.
        right. rewrite lookup_update_other in H by auto. apply Hin; auto.
      * destruct (Z.eq_dec k (mseq m)) as [->|N].
        -- rewrite lookup_update_same in H. inversion H; subst; cbn. rewrite filter_app_one. unfold sameseq at 2. rewrite Z.eqb_refl.
           replace (filter (sameseq (mseq m)) U) with (@nil msg); auto.
           symmetry. apply not_in_nil_filter. intros x Hx. unfold sameseq. destruct (mseq x =? mseq m) eqn:E; auto.
           apply Z.eqb_eq in E. apply HU in Hx. rewrite E in Hx. contradiction.
        -- rewrite lookup_update_other in H by auto. rewrite filter_app_one. unfold sameseq at 2.
           destruct (mseq m =? k) eqn:E. apply Z.eqb_eq in E; lia. rewrite app_nil_r. apply (Hmsgs _ _ H).
      * destruct (Z.eq_dec k (mseq m)) as [->|N].
        -- rewrite lookup_update_same in H. inversion H; subst; cbn. discriminate.
        -- rewrite lookup_update_other in H by auto. apply (Hmsgs _ _ H).
      * intros m' Hm'. apply (Permutation_in _ (Permutation_sym HP)). apply in_app_or in Hm'. destruct Hm' as [Hm'|[<-|[]]]; cbn; auto.
Qed.
