(* Proofs/RuleRoundTrip.v — C07 on the model, syscall form: for every rule the text-level Build model
   accepts, the items ToCommandLine prints are parsed by flags.Parse and built again into the same data. *)
From Coq Require Import List Ascii String Arith NArith ZArith Bool Lia.
Import ListNotations.
Require Import Bytes Dec Mach RuleTables Arch RuleDecode Mask RuleEncode RuleText RuleValue KV Trim FilterRe Flags RuleBuild.
Require Import FlagsProofs RuleWire RuleSpecWf RuleReprint RuleFlagsBack RuleFieldsBack RuleLastArch RuleMaskText RuleSyscallText.
Local Open Scope string_scope.
Local Open Scope list_scope.
Open Scope N_scope.

(* ---------- inversion of the two model stages ---------- *)
Lemma spec_inv li ac fs scs keys s : spec_of_prule li ac fs scs keys = Some s ->
  exists its arch all nums,
    items_of_filters fs = Some its /\
    arch_choice (arch_in_force fs []) = Some arch /\
    syscalls_of_texts arch scs true false [] = Some (all, nums) /\
    s = {| sp_list := sos li; sp_action := sos ac; sp_items := its; sp_all := all; sp_syscalls := nums; sp_keys := keys |}.
Proof.
  unfold spec_of_prule. destruct (items_of_filters fs) as [its|] eqn:E1; [|discriminate].
  destruct (arch_choice (arch_in_force fs [])) as [arch|] eqn:E2; [|discriminate].
  destruct (syscalls_of_texts arch scs true false []) as [[all nums]|] eqn:E3; [|discriminate].
  intros H. injection H as <-. exists its, arch, all, nums. repeat split; auto.
Qed.

Lemma data_inv s d : data_of_spec s = Some d ->
  exists lc acode acc m,
    list_code (sp_list s) = Some lc /\ action_code (sp_action s) = Some acode /\
    add_items (sp_list s) ([], []) (sp_items s) = Some acc /\
    (if sp_all s then Some all_mask else build_mask (repeat 0 64) (sp_syscalls s)) = Some m /\
    (if streq (sp_list s) "exclude" then match sp_keys s with [] => Some acc | _ => None end else add_keys acc (sp_keys s)) = Some (w_triples d, w_strings d) /\
    (List.length (w_triples d) <= 64)%nat /\
    d = {| w_flags := lc; w_action := acode; w_mask := m; w_triples := w_triples d; w_strings := w_strings d |}.
Proof.
  unfold data_of_spec. destruct (list_code (sp_list s)) as [lc|] eqn:E1; [|discriminate].
  destruct (action_code (sp_action s)) as [acode|] eqn:E2; [|discriminate].
  destruct (add_items (sp_list s) ([], []) (sp_items s)) as [acc|] eqn:E3; [|discriminate].
  unfold set_all. destruct (if sp_all s then Some all_mask else build_mask (repeat 0 64) (sp_syscalls s)) as [m|] eqn:E4; [|discriminate].
  destruct (if streq (sp_list s) "exclude" then _ else _) as [[ts ss]|] eqn:E5; [|discriminate].
  destruct (64 <? List.length ts)%nat eqn:E; [discriminate|]. intros H. injection H as <-. cbn [w_triples w_strings].
  exists lc, acode, acc, m. apply Nat.ltb_ge in E. repeat split; auto.
Qed.

(* ---------- names of lists and actions ---------- *)
Lemma list_code_name lst lc : list_code lst = Some lc -> list_name lc = Some lst.
Proof.
  unfold list_code, streq. intros H.
  destruct (String.eqb lst "user") eqn:E1; [apply String.eqb_eq in E1; subst; injection H as <-; reflexivity|].
  destruct (String.eqb lst "task") eqn:E2; [apply String.eqb_eq in E2; subst; injection H as <-; reflexivity|].
  destruct (String.eqb lst "exit") eqn:E3; [apply String.eqb_eq in E3; subst; injection H as <-; reflexivity|].
  destruct (String.eqb lst "exclude") eqn:E4; [apply String.eqb_eq in E4; subst; injection H as <-; reflexivity|]. discriminate.
Qed.
Lemma action_code_name a c : action_code a = Some c -> action_name c = Some a.
Proof.
  unfold action_code, streq. intros H.
  destruct (String.eqb a "never") eqn:E1; [apply String.eqb_eq in E1; subst; injection H as <-; reflexivity|].
  destruct (String.eqb a "always") eqn:E2; [apply String.eqb_eq in E2; subst; injection H as <-; reflexivity|]. discriminate.
Qed.

(* ---------- the keys are one more filter ---------- *)
Definition key_filter (k : str) : flt := (false, s2l "key", s2l "=", k).
Lemma key_facts : lookupS (s2l "key") fields_table = Some 210 /\ lookupS (s2l "=") operators_table = Some 1073741824 /\ is_string_field 210 = true.
Proof. repeat split; by_vm. Qed.

Lemma keys_as_filter lst acc keys ts ss : streq lst "exclude" = false -> keys <> [] ->
  add_keys acc keys = Some (ts, ss) ->
  let k := join_keys keys in
  item_of_filter (key_filter k) = Some (IFilter "key" "=" (VStr k)) /\
  exists t, triple_of_item lst (IFilter "key" "=" (VStr k)) = Some (t, [k]) /\ ts = fst acc ++ [t] /\ ss = snd acc ++ [k] /\ k <> [].
Proof.
  intros Hex Hne H k. destruct key_facts as (Hk & Ho & Hs).
  split. { unfold item_of_filter, key_filter. rewrite Hk, Hs. reflexivity. }
  unfold add_keys in H. destruct keys as [|k0 kr]; [contradiction|]. fold k in H.
  destruct (List.length k =? 0)%nat eqn:Ez; [discriminate|].
  destruct (max_key_length <? N.of_nat (List.length k)) eqn:El; [discriminate|]. rewrite Ho in H. injection H as <- <-.
  exists (210, 1073741824, N.of_nat (List.length k)). split.
  - unfold triple_of_item, add_item. rewrite Ho, Hk, Hex, Hs. cbn [andb negb]. 
    replace (mem "key" exit_only) with false by reflexivity. replace (streq "key" "msgtype") with false by reflexivity.
    replace (streq "key" "arch" || streq "key" "inode") with false by reflexivity. replace (streq "key" "perm") with false by reflexivity.
    cbn [andb]. replace (streq "key" "key") with true by reflexivity. rewrite El. reflexivity.
  - repeat split; auto. intros E. rewrite E in Ez. discriminate.
Qed.

(* ---------- the architecture names are never empty ---------- *)
Definition runtime_names_okb : bool :=
  match runtime_arch with
  | Some rs => negb (String.eqb rs "") && match arch32_of rs with Some x => negb (String.eqb x "") | None => true end
  | None => false
  end.
Lemma runtime_names_ok : runtime_names_okb = true. Proof. by_vm. Qed.

Lemma printer_arch_nonempty d A : printer_arch d = Some A -> A <> [].
Proof.
  pose proof runtime_names_ok as H. unfold runtime_names_okb in H. unfold printer_arch.
  destruct runtime_arch as [rs|]; [|discriminate]. apply andb_prop in H. destruct H as [H1 H2].
  destruct (str_eqb_s d "b32").
  - destruct (arch32_of rs) as [x|]; [|discriminate]. cbn. intros E; injection E as <-. destruct x; [discriminate|]. discriminate.
  - destruct (negb (List.length d =? 0)%nat && negb (str_eqb_s d "b64")) eqn:E.
    + intros E'; injection E' as <-. apply andb_prop in E. destruct E as [E _]. destruct d; [discriminate|]. discriminate.
    + intros E'; injection E' as <-. destruct rs; [discriminate|]. discriminate.
Qed.
Lemma printer_arch_none_is_runtime : exists rs, runtime_arch = Some rs /\ printer_arch [] = Some (s2l rs) /\ arch_choice [] = Some (s2l rs).
Proof.
  pose proof runtime_names_ok as H. unfold runtime_names_okb in H. unfold printer_arch, arch_choice.
  destruct runtime_arch as [rs|]; [|discriminate]. exists rs. repeat split; reflexivity.
Qed.

Lemma built_arch_display lst : forall fs l, built lst fs l -> forall o v ss, In ((11, o, v), ss) l ->
  exists d A, display_arch v = Some d /\ printer_arch d = Some A.
Proof.
  induction 1 as [|f it t ss0 fs l H1 H2 H3 H4 IH]; intros o v ss Hin. contradiction.
  destruct Hin as [E|Hin]; [|eauto]. injection E as -> ->.
  destruct (reprint_filter _ _ _ _ _ H1 H2 H3) as (fi & f' & it' & _ & _ & _ & _ & _ & _ & _ & Harch).
  cbn [fst snd N.eqb Pos.eqb] in Harch. destruct Harch as (o2 & d & A & _ & Hd & _ & Hp). eauto.
Qed.

(* ---------- the -S item ---------- *)
Lemma sot_inv arch : forall ts all ex acc all' nums, syscalls_of_texts arch ts all ex acc = Some (all', nums) ->
  (all = true \/ acc <> []) -> (all' = true \/ nums <> []).
Proof.
  induction ts as [|t r IH]; intros all ex acc all' nums H Hi; cbn [syscalls_of_texts] in H. injection H as <- <-. exact Hi.
  destruct (str_eqb_s t "all"). eapply IH; eauto.
  destruct (syscall_number arch t) as [n|]; [|discriminate]. eapply IH; eauto. right. destruct acc; discriminate.
Qed.

Lemma comma_tok_ok : tok_char_ok ","%char = true. Proof. reflexivity. Qed.
Lemma all_syscalls_all_mask : all_syscalls all_mask = true. Proof. reflexivity. Qed.
Lemma split_all : map trim_space (split_comma (s2l "all")) = [s2l "all"]. Proof. by_vm. Qed.

Lemma sargs_facts lc m rarch A : mask_wf m -> printer_arch rarch = Some A -> (all_syscalls m = true \/ syscalls_of m 0 <> []) ->
  exists sargs st all' nums',
    syscall_args lc m rarch = Some sargs /\ effect sargs = Some ([], st) /\ Forall tok_ok sargs /\
    syscalls_of_texts A st true false [] = Some (all', nums') /\
    (if all' then all_syscalls m = true else build_mask (repeat 0 64) nums' = Some m).
Proof.
  intros Hwf HA Hm. unfold syscall_args. destruct (all_syscalls m) eqn:Eall.
  - destruct ((lc =? 4) || (lc =? 2)).
    + exists [FFlag "S" (s2l "all")], [s2l "all"], true, []. split; [reflexivity|]. split.
      { cbn [effect String.eqb Ascii.eqb Bool.eqb andb]. rewrite split_all. reflexivity. }
      split. { repeat constructor. } split; reflexivity.
    + exists [], [], true, []. repeat split; constructor.
  - destruct Hm as [Hm|Hm]; [discriminate|]. destruct (syscalls_of m 0) as [|n0 nr] eqn:Ens; [contradiction|]. rewrite HA.
    set (ns := n0 :: nr) in *.
    assert (Hsmall: Forall (fun n => n < 2 ^ 32) ns).
    { apply Forall_forall. intros k Hk. rewrite <- Ens in Hk. apply In_syscalls_of in Hk. destruct Hk as (i & j & Hi & Hj & _ & ->).
      destruct Hwf as [Hl _]. change (2^32) with 4294967296. lia. }
    destruct (syscall_arg_reads_back A ns ltac:(discriminate) Hsmall) as (Hback & Hne & Hch).
    exists [FFlag "S" (join_with [","%char] (map (syscall_text (sc_table A)) ns))], (map trim_space (split_comma (join_with [","%char] (map (syscall_text (sc_table A)) ns)))), false, ns.
    split; [reflexivity|]. split. { cbn [effect String.eqb Ascii.eqb Bool.eqb andb]. rewrite app_nil_r. reflexivity. }
    split.
    { constructor; [|constructor]. cbn [tok_ok]. unfold clean. destruct (join_with _ _) as [|c r] eqn:E; [contradiction|]. cbn [List.length Nat.eqb negb andb].
      rewrite forallb_forall in *. intros x Hx. specialize (Hch x Hx). apply orb_prop in Hch. destruct Hch as [Hc|Hc].
      apply word_tok_ok; auto. apply Ascii.eqb_eq in Hc. subst x. reflexivity. }
    split; [exact Hback|]. rewrite <- Ens. apply mask_of_listed_syscalls. exact Hwf.
Qed.

(* ---------- the theorem, syscall form ---------- *)
Definition keys_ok (keys : list str) : Prop := keys = [] \/ clean (join_keys keys) = true.
(* known finding 103 is outside: a mask whose first 63 words are all ones is the all-syscalls pattern *)
Definition not_finding_103 (d : wiredata) : Prop := all_syscalls (w_mask d) = true -> w_mask d = all_mask.

Lemma add_value_clean fl act ln an : list_name fl = Some ln -> action_name act = Some an -> clean (s2l an ++ ","%char :: s2l ln) = true.
Proof.
  unfold list_name, action_name. intros Hl Ha.
  destruct (N.eqb fl 4); [|destruct (N.eqb fl 1); [|destruct (N.eqb fl 0); [|destruct (N.eqb fl 5); [|discriminate]]]]; injection Hl as <-;
    (destruct (N.eqb act 2); [|destruct (N.eqb act 0); [|discriminate]]); injection Ha as <-; vm_compute; reflexivity.
Qed.

Lemma key_filter_ok k : k <> [] -> clean k = true -> filter_ok (key_filter k).
Proof. intros Hne Hc _. split; auto. destruct k; [contradiction|reflexivity]. Qed.

Lemma built_of_data li ac fs scs keys s d :
  spec_of_prule li ac fs scs keys = Some s -> data_of_spec s = Some d -> Forall filter_ok fs -> keys_ok keys ->
  exists fsK lK, built (sos li) fsK lK /\ w_triples d = map fst lK /\ w_strings d = flat_map snd lK.
Proof.
  intros Hspec Hdata Hfok Hkeys.
  destruct (spec_inv _ _ _ _ _ _ Hspec) as (its & arch & all & nums & Hits & Harch & Hsot & ->).
  destruct (data_inv _ _ Hdata) as (lc & acode & acc & m & Hlc & Hac & Hadd & Hm & Hk & Hlen & Hd). cbn [sp_list sp_action sp_items sp_all sp_syscalls sp_keys] in *.
  set (lst := sos li) in *.
  rewrite add_items_triples in Hadd. destruct (triples_of_items lst its) as [l|] eqn:Etr; [|discriminate]. cbn [app] in Hadd. injection Hadd as <-.
  pose proof (built_intro _ _ _ _ Hits Etr Hfok) as Hbuilt.
  destruct (streq lst "exclude") eqn:Eex.
  - destruct keys; [|discriminate]. injection Hk as <- <-. exists fs, l. auto.
  - destruct keys as [|k0 kr] eqn:Ekeys.
    + cbn [add_keys] in Hk. injection Hk as <- <-. exists fs, l. auto.
    + rewrite <- Ekeys in *. assert (Hne: keys <> []) by (rewrite Ekeys; discriminate).
      destruct (keys_as_filter lst _ _ _ _ Eex Hne Hk) as (Hif & t & Htr & Hts & Hss & Hkne). cbn [fst snd] in Hts, Hss.
      destruct Hkeys as [->|Hcl]; [contradiction|].
      exists (fs ++ [key_filter (join_keys keys)]), (l ++ [(t, [join_keys keys])]). split; [|split].
      * apply built_app; auto. econstructor; eauto. apply key_filter_ok; auto. constructor.
      * rewrite map_app. exact Hts.
      * rewrite flat_map_app. cbn [flat_map snd app]. exact Hss.
Qed.

Theorem syscall_form_round_trip (stat : str -> bool) li ac fs scs keys s d :
  spec_of_prule li ac fs scs keys = Some s -> data_of_spec s = Some d ->
  Forall filter_ok fs -> keys_ok keys -> not_finding_103 d ->
  watch_items (w_flags d) (w_action d) (w_mask d) (w_triples d) (w_strings d) = None ->
  exists its, cmd_items (w_flags d) (w_action d) (w_mask d) (w_triples d) (w_strings d) = Some its /\ Forall tok_ok its /\ flags_only its /\
    exists p', flags_parse (flat_map render_item its) = Some p' /\ build_prule stat p' = Some d.
Proof.
  intros Hspec Hdata Hfok Hkeys H103 Hwatch.
  pose proof (data_of_spec_wf _ _ Hdata) as Hwf.
  destruct (spec_inv _ _ _ _ _ _ Hspec) as (its & arch & all & nums & Hits & Harch & Hsot & ->).
  destruct (data_inv _ _ Hdata) as (lc & acode & acc & m & Hlc & Hac & Hadd & Hm & Hk & Hlen & Hd). cbn [sp_list sp_action sp_items sp_all sp_syscalls sp_keys] in *.
  set (lst := sos li) in *. set (an := sos ac) in *.
  rewrite add_items_triples in Hadd. destruct (triples_of_items lst its) as [l|] eqn:Etr; [|discriminate]. cbn [app] in Hadd. injection Hadd as <-.
  pose proof (built_intro _ _ _ _ Hits Etr Hfok) as Hbuilt.
  (* the keys as one more filter *)
  assert (HK: exists fsK lK, built lst fsK lK /\ w_triples d = map fst lK /\ w_strings d = flat_map snd lK).
  { destruct (streq lst "exclude") eqn:Eex.
    - destruct keys; [|discriminate]. injection Hk as <- <-. exists fs, l. auto.
    - destruct keys as [|k0 kr] eqn:Ekeys.
      + cbn [add_keys] in Hk. injection Hk as <- <-. exists fs, l. auto.
      + rewrite <- Ekeys in *. assert (Hne: keys <> []) by (rewrite Ekeys; discriminate).
        destruct (keys_as_filter lst _ _ _ _ Eex Hne Hk) as (Hif & t & Htr & Hts & Hss & Hkne). cbn [fst snd] in Hts, Hss.
        destruct Hkeys as [->|Hcl]; [contradiction|].
        exists (fs ++ [key_filter (join_keys keys)]), (l ++ [(t, [join_keys keys])]). split; [|split].
        * apply built_app; auto. econstructor; eauto. apply key_filter_ok; auto. constructor.
        * rewrite map_app. exact Hts.
        * rewrite flat_map_app. cbn [flat_map snd app]. exact Hss. }
  destruct HK as (fsK & lK & HbK & Hts & Hss). clear Hbuilt Hk.
  rewrite Hd in *. cbn [w_flags w_action w_mask w_triples w_strings] in *. rewrite Hts, Hss in *.
  assert (Hmwf: mask_wf m). { destruct Hwf as (_ & Hl & _ & _ & Hmw & _). cbn [w_mask] in *. split; auto. }
  assert (Hmask: all_syscalls m = true \/ syscalls_of m 0 <> []).
  { destruct all. injection Hm as <-. left; reflexivity.
    destruct (sot_inv _ _ _ _ _ _ _ Hsot (or_introl eq_refl)) as [C|Hn]; [discriminate|]. right.
    destruct nums as [|n nr]; [contradiction|]. intros E.
    assert (Hin: In n (syscalls_of m 0)). { apply In_syscalls_testbit; auto. apply (build_mask_exact _ _ n Hm). left; reflexivity. }
    rewrite E in Hin. contradiction. }
  pose proof (list_code_name _ _ Hlc) as Hln. pose proof (action_code_name _ _ Hac) as Han.
  unfold cmd_items. rewrite Hln, Han, Hwatch. unfold syscall_items.
  destruct (last_arch_facts lK []) as [Hhits Hfold].
  (* the arch the printer resolves syscalls with *)
  assert (HA: exists rarch A, (match last_index 11 (map fst lK) 0 None with
                               | Some la => match nth_error (map fst lK) la with Some (_, _, v) => display_arch v | None => None end
                               | None => Some [] end) = Some rarch /\ printer_arch rarch = Some A /\
                              arch_choice (arch_fold lK []) = Some A).
  { destruct (last_index 11 (map fst lK) 0 None) as [k|] eqn:Ela.
    - destruct (last_index_is _ _ _ Ela) as (o & v & Hn). rewrite Hn in *.
      assert (Hin: exists ss, In ((11, o, v), ss) lK).
      { apply nth_error_In in Hn. apply in_map_iff in Hn. destruct Hn as ([t ss] & Ht & Hin). cbn [fst] in Ht. subst t. eauto. }
      destruct Hin as (ss & Hin). destruct (built_arch_display _ _ _ HbK _ _ _ Hin) as (d0 & A & Hd0 & HpA).
      exists d0, A. rewrite Hfold. unfold arch_name_of. rewrite Hd0, HpA. repeat split; auto.
      pose proof (printer_arch_nonempty _ _ HpA) as HAne. destruct A; [contradiction|reflexivity].
    - destruct printer_arch_none_is_runtime as (rs & _ & Hp & Hc). exists [], (s2l rs). rewrite Hfold. auto. }
  destruct HA as (rarch & A & Hrarch & HpA & Hchoice). rewrite Hrarch.
  destruct (sargs_facts lc m rarch A Hmwf HpA Hmask) as (sargs & st & all' & nums' & Hsa & Heffs & Htoks & Hsot' & Hmask').
  rewrite Hsa.
  destruct (print_fields_built lst sargs st (last_index 11 (map fst lK) 0 None) Heffs Htoks _ _ HbK 0%nat []) as (pf & fs' & Hpf & Heffpf & Hb' & Htokpf & Haf).
  rewrite Hpf.
  set (rest := (match last_index 11 (map fst lK) 0 None with None => sargs | Some _ => [] end) ++ pf).
  assert (Heffrest: effect rest = Some (fs', st)).
  { subst rest. rewrite Hhits in Heffpf. destruct (last_index 11 (map fst lK) 0 None).
    - exact Heffpf.
    - rewrite (effect_app _ _ _ _ _ _ Heffs Heffpf). rewrite app_nil_r. reflexivity. }
  exists (FFlag "a" (s2l an ++ ","%char :: s2l lst) :: rest). split; [reflexivity|]. split; [|split].
  - constructor. cbn [tok_ok]. eapply add_value_clean; eauto. subst rest. apply Forall_app. split; auto. destruct (last_index _ _ _ _); auto.
  - constructor. cbn; tauto. apply (proj2 (effect_names _ _ Heffrest)).
  - exists (PSyscall false (s2l lst) (s2l an) fs' st []). split.
    + eapply printed_syscall_rule_parses; eauto.
    + cbn [build_prule]. unfold spec_of_prule. destruct (built_elim _ _ _ Hb') as (its' & Hits' & Htr').
      rewrite Hits', Haf, Hchoice, Hsot'. rewrite !sos_s2l. unfold data_of_spec. cbn [sp_list sp_action sp_items sp_all sp_syscalls sp_keys].
      rewrite Hlc, Hac, add_items_triples, Htr'. cbn [app].
      assert (Hm': (if all' then Some all_mask else set_all (repeat 0 64) nums') = Some m).
      { destruct all'. pose proof (H103 Hmask') as E103. cbn [w_mask] in E103. rewrite E103. reflexivity. exact Hmask'. }
      rewrite Hm'.
      apply Nat.ltb_ge in Hlen.
      destruct (streq lst "exclude"); cbv iota; cbn [add_keys]; rewrite Hlen; reflexivity.
Qed.
Print Assumptions syscall_form_round_trip.
