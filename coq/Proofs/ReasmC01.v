From Coq Require Import List ZArith Bool Lia Permutation.
Import ListNotations.
Require Import Reassembler ReasmInv.
Open Scope Z_scope.

Lemma evict_ok force c now : forall sqs em last has U,
  InvL U sqs em ->
  let '(sqs', em', last', has', outs, lost) := evict force c now sqs em last has in
  exists U', chk_outs U outs = Some U' /\ InvL U' sqs' em' /\ (force = true -> U' = []).
Proof.
  induction sqs as [|sq rest IH]; intros em last has U (Hnd & Hin & Hmsgs & HU); cbn [evict].
  - exists U. split; auto. split. { exact (conj Hnd (conj Hin (conj Hmsgs HU))). }
    intros _. destruct U as [|m0 U0]; auto. exfalso. apply (HU m0). left; auto.
  - destruct (lookup sq em) as [e|] eqn:El.
    2:{ exfalso. apply (proj1 (Hin sq)); auto. left; auto. }
    destruct (force || complete e || (Z.of_nat (length (sq :: rest)) >? maxSize c) || (now >? expire e)) eqn:Ec.
    + destruct (advance last has sq) as [[d last'] has'].
      destruct (Hmsgs _ _ El) as [Hm Hne].
      set (U1 := filter (fun m => negb (sameseq sq m)) U).
      assert (HI1: InvL U1 rest (remove sq em)).
      { inversion Hnd as [|? ? Hnotin Hnd']; subst. repeat split; auto.
        - intros H. rewrite lookup_remove_other. apply Hin; right; auto. intros ->; contradiction.
        - intros H. destruct (Z.eq_dec k sq) as [->|N]. rewrite lookup_remove_same in H; congruence.
          rewrite lookup_remove_other in H by auto. apply Hin in H. destruct H; auto. congruence.
        - destruct (Z.eq_dec k sq) as [->|N]. rewrite lookup_remove_same in H; congruence.
          rewrite lookup_remove_other in H by auto. unfold U1. rewrite filter_filter_other by auto. apply (Hmsgs _ _ H).
        - destruct (Z.eq_dec k sq) as [->|N]. rewrite lookup_remove_same in H; congruence.
          rewrite lookup_remove_other in H by auto. apply (Hmsgs _ _ H).
        - intros m Hm'. unfold U1 in Hm'. apply filter_In in Hm'. destruct Hm' as [HmU Hneq].
          apply HU in HmU. destruct HmU as [E|]; auto. unfold sameseq in Hneq. rewrite <- E, Z.eqb_refl in Hneq. discriminate. }
      specialize (IH (remove sq em) last' has' U1 HI1).
      destruct (evict force c now rest (remove sq em) last' has') as [[[[[sqs' em'] last''] has''] outs] lost].
      destruct IH as (U' & Hchk & HI' & Hf).
      exists U'. split; [|split; auto].
      cbn [chk_outs]. destruct (msgs e) as [|m0 g] eqn:Eg; [congruence|].
      assert (Hm0: mseq m0 = sq).
      { assert (In m0 (filter (sameseq sq) U)) by (rewrite <- Hm; left; auto).
        apply filter_In in H. destruct H as [_ H]. unfold sameseq in H. apply Z.eqb_eq in H. auto. }
      rewrite Hm0. rewrite Hm. rewrite list_eqb_refl. exact Hchk.
    + exists U. split; auto. split. { exact (conj Hnd (conj Hin (conj Hmsgs HU))). }
      intros ->. cbn in Ec. discriminate.
Qed.

Lemma chk_outs_app U o1 o2 U1 : chk_outs U o1 = Some U1 -> chk_outs U (o1 ++ o2) = chk_outs U1 o2.
Proof.
  revert U. induction o1 as [|x o1 IH]; intros U H; cbn in *. inversion H; auto.
  destruct x; auto. destruct ms as [|m0 g]; try discriminate.
  destruct (list_eqb _ _); try discriminate. apply IH; auto. discriminate.
Qed.

Lemma cleanup_ok force c now s U : InvL U (seqs s) (events s) ->
  let '(s', outs) := cleanup force c now s in
  exists U', chk_outs U outs = Some U' /\ InvL U' (seqs s') (events s') /\ (force = true -> U' = []) /\ closed s' = closed s.
Proof.
  intros HI. unfold cleanup. pose proof (evict_ok force c now (seqs s) (events s) (lastSeq s) (hasLast s) U HI) as H.
  destruct (evict force c now (seqs s) (events s) (lastSeq s) (hasLast s)) as [[[[[sqs' em'] last'] has'] outs] lost].
  destruct H as (U' & Hc & HI' & Hf). exists U'. split; [|split; [|split]]; auto.
  rewrite (chk_outs_app _ _ _ _ Hc). destruct (lost >? 0); auto.
Qed.

Definition no_ret_true (outs : list out) := existsb (fun x => match x with Ret true => true | _ => false end) outs = false.

Theorem run_chk_C01 : forall c ops s U, InvL U (seqs s) (events s) -> chk_C01 U ops (run c s ops) = true.
Proof.
  intros c. induction ops as [|o ops IH]; intros s U HI; cbn [run chk_C01]; auto.
  destruct o as [[m|] now now2 | now | ].
  - (* push some *)
    cbn [step]. pose proof (put_inv c now now2 m s U HI) as HP.
    pose proof (cleanup_ok false c now2 (put c now m s) _ HP) as HC.
    destruct (cleanup false c now2 (put c now m s)) as [s' outs]. destruct HC as (U' & Hc & HI' & _ & _).
    rewrite Hc. apply IH; auto.
  - (* push nil *) cbn. apply IH; auto.
  - (* maintain *)
    cbn [step]. destruct (closed s). cbn. apply IH; auto.
    pose proof (cleanup_ok false c now s U HI) as HC.
    destruct (cleanup false c now s) as [s' outs]. destruct HC as (U' & Hc & HI' & _ & _).
    cbn [pushU]. rewrite (chk_outs_app _ _ _ _ Hc). cbn. apply IH; auto.
  - (* close *)
    cbn [step]. destruct (closed s) eqn:Ecl. cbn. apply IH; auto.
    set (s1 := {| seqs := seqs s; events := events s; lastSeq := lastSeq s; hasLast := hasLast s; closed := true |}).
    pose proof (cleanup_ok true c 0 s1 U HI) as HC.
    destruct (cleanup true c 0 s1) as [s' outs]. destruct HC as (U' & Hc & HI' & Hf & _).
    cbn [pushU]. rewrite (chk_outs_app _ _ _ _ Hc). cbn [chk_outs]. rewrite (Hf eq_refl).
    rewrite IH by (rewrite <- (Hf eq_refl); auto). rewrite andb_true_r.
    destruct (existsb _ _); auto.
Qed.

Theorem C01_exactly_once_grouped : forall c ops, chk_C01 [] ops (run c init ops) = true.
Proof. intros. apply run_chk_C01. apply InvL_init. Qed.
Print Assumptions C01_exactly_once_grouped.
