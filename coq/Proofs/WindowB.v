(* Proofs/WindowB.v — the boolean window test the judge evaluates implies the
   window hypothesis of the C02/C10/C19 theorems; early/exact round trip. *)
From Coq Require Import List ZArith Bool Lia.
Import ListNotations.
Require Import Reassembler ReasmInv ReasmC01 Window SortAppend ReasmC02 ReasmC03 ReasmC10 ChkReasm.
Open Scope Z_scope.

Lemma inwinb_inwin base x : inwinb base x = true -> inwin base x.
Proof.
  unfold inwinb, inwin, off. rewrite !andb_true_iff. intros [[H1 H2] H3].
  apply Z.leb_le in H1. apply Z.ltb_lt in H2. apply Z.ltb_lt in H3. auto.
Qed.

Lemma fitsb_fits U x : fitsb U x = true -> fits U x.
Proof.
  unfold fitsb, fits. intros H. apply existsb_exists in H. destruct H as (base & _ & H).
  rewrite !andb_true_iff in H. destruct H as [[[H1 H2] H3] H4].
  exists base. apply Z.leb_le in H1. apply Z.ltb_lt in H2. split; [lia|]. split; [apply inwinb_inwin; auto|].
  apply Forall_forall. intros m Hm. rewrite forallb_forall in H4. apply inwinb_inwin. auto.
Qed.

Lemma windowedb_windowed : forall ops tr U, windowedb U ops tr = true -> windowed U ops tr.
Proof.
  induction ops as [|o ops IH]; intros tr U H; destruct tr as [|outs tr]; cbn [windowed]; auto.
  cbn [windowedb] in H. apply andb_true_iff in H. destruct H as [H1 H2]. split.
  - destruct o as [[m|] ? ?| |]; auto. apply fitsb_fits; auto.
  - intros U2 HU2. rewrite HU2 in H2. apply IH; auto.
Qed.

Lemma early_exact ops : map early (map exact ops) = ops.
Proof. induction ops as [|o ops IH]; cbn; auto. rewrite IH. destruct o; auto. Qed.
