(* Proofs/ParseBody.v — a whole record body written the way the kernel writes it (fields
   key=value separated by one blank, a value either in double quotes or one plain token such as a
   number or upper-case hex) is cut by the kvRegex scanner into exactly those fields, in order. *)
From Coq Require Import List Ascii String NArith ZArith Bool Arith Lia.
Import ListNotations.
Require Import KV Trim Header Parser ParseProofs.
Local Close Scope N_scope.
Local Open Scope nat_scope.
Local Open Scope list_scope.
Local Notation length := List.length.

Inductive fval := Quoted (v : str) | Plain (v : str).
Definition text_of (x : fval) : str := match x with Quoted v => dq :: v ++ [dq] | Plain v => v end.
Definition fval_ok (x : fval) : Prop :=
  match x with Quoted v => safe_body v = true | Plain v => v <> [] /\ forallb is_plain v = true end.
Definition field_ok (f : str * fval) : Prop := fst f <> [] /\ forallb is_key (fst f) = true /\ fval_ok (snd f).
Definition sp : ascii := ascii_of_nat 32.
Definition eqc : ascii := ascii_of_nat 61.
Definition render1 (f : str * fval) : str := fst f ++ eqc :: text_of (snd f).
Fixpoint body (fs : list (str * fval)) : str :=
  match fs with [] => [] | [f] => render1 f | f :: r => render1 f ++ sp :: body r end.

Lemma span_key_stop k rest : forallb is_key k = true -> span is_key (k ++ eqc :: rest) = (k, eqc :: rest).
Proof.
  induction k as [|c k IH]; intros H; cbn [app span forallb] in *. reflexivity.
  apply andb_prop in H. destruct H as [H1 H2]. rewrite H1, (IH H2). reflexivity.
Qed.
Lemma span_plain_stop v rest : forallb is_plain v = true -> (match rest with c :: _ => is_plain c = false | [] => True end) ->
  span is_plain (v ++ rest) = (v, rest).
Proof.
  induction v as [|c v IH]; intros H Hr; cbn [app span forallb] in *.
  - destruct rest as [|c r]; cbn; auto. rewrite Hr. reflexivity.
  - apply andb_prop in H. destruct H as [H1 H2]. rewrite H1, (IH H2 Hr). reflexivity.
Qed.

(* one field at the head of the text, followed by nothing or by a blank *)
Lemma match_here_field f rest : field_ok f -> (rest = [] \/ exists r, rest = sp :: r) ->
  match_here (render1 f ++ rest) = Some (fst f, text_of (snd f), rest).
Proof.
  destruct f as [k x]. intros (Hk & Hkey & Hv) Hrest. unfold render1. cbn [fst snd] in *.
  destruct x as [v|v]; cbn [text_of fval_ok] in *.
  - rewrite <- app_assoc. cbn [app]. rewrite <- app_assoc. cbn [app]. apply match_here_quoted; auto.
  - destruct Hv as [Hne Hp]. rewrite <- app_assoc. cbn [app]. unfold match_here. rewrite span_key_stop by auto.
    destruct k as [|c k]; [contradiction|]. change (code eqc =? 61) with true. cbv iota.
    destruct v as [|c0 v]; [contradiction|]. cbn [app scan_value].
    assert (Hc0: (code c0 =? 39) || (code c0 =? 34) = false).
    { cbn in Hp. apply andb_prop in Hp. destruct Hp as [Hp _]. unfold is_plain in Hp. apply negb_true_iff in Hp.
      destruct (code c0 =? 34), (code c0 =? 39); cbn in *; auto; discriminate. }
    rewrite Hc0. change (c0 :: v ++ rest) with ((c0 :: v) ++ rest). rewrite span_plain_stop; auto.
    destruct Hrest as [-> | (r & ->)]; [exact I|reflexivity].
Qed.

Lemma match_here_blank r : match_here (sp :: r) = None.
Proof. reflexivity. Qed.

Lemma body_cons f r : r <> [] -> body (f :: r) = render1 f ++ sp :: body r.
Proof. destruct r; [contradiction|reflexivity]. Qed.

Lemma render1_len f : field_ok f -> 2 <= length (render1 f).
Proof. destruct f as [k x]. intros (Hk & _). unfold render1. cbn [fst]. rewrite app_length. destruct k; [contradiction|]. cbn. lia. Qed.

Theorem find_all_body : forall fs fuel, Forall field_ok fs -> length (body fs) < fuel ->
  find_all fuel (body fs) = map (fun f => (fst f, text_of (snd f))) fs.
Proof.
  induction fs as [|f r IH]; intros fuel Hok Hl.
  - destruct fuel; reflexivity.
  - inversion Hok as [|? ? Hf Hr]; subst. destruct fuel as [|fuel]; [lia|].
    destruct r as [|f2 r'].
    + cbn [body map]. pose proof (render1_len f Hf) as H2. cbn [find_all]. destruct (render1 f) as [|c0 t] eqn:E; [cbn in H2; lia|].
      rewrite <- E. rewrite <- (app_nil_r (render1 f)). rewrite match_here_field; auto. destruct fuel; reflexivity.
    + rewrite body_cons in * by discriminate. cbn [map]. pose proof (render1_len f Hf) as H2.
      assert (Hl2: length (render1 f) + S (length (body (f2 :: r'))) < S fuel) by (rewrite app_length in Hl; cbn [length] in Hl; exact Hl).
      cbn [find_all].
      destruct (render1 f ++ sp :: body (f2 :: r')) as [|c0 t] eqn:E. { destruct (render1 f); [cbn in H2; lia|discriminate]. }
      rewrite <- E. rewrite match_here_field; eauto. f_equal.
      destruct fuel as [|fuel]; [lia|]. cbn [find_all]. rewrite match_here_blank. apply IH; auto. lia.
Qed.

Theorem body_tokenised fs : Forall field_ok fs -> kv_find_all (body fs) = map (fun f => (fst f, text_of (snd f))) fs.
Proof. intros H. unfold kv_find_all. apply find_all_body; auto. Qed.
Print Assumptions body_tokenised.

(* ---------- trimming of the token: quotes go, the value stays ---------- *)
Definition qs_char : ascii -> bool := in_set (L "'"" ").
(* the value neither begins nor ends with a quote character or a blank *)
Definition inner_clean (v : str) : Prop :=
  match v with [] => True | c :: _ => qs_char c = false end /\ match rev v with [] => True | c :: _ => qs_char c = false end.

Lemma drop_while_head p (c : ascii) r : p c = false -> drop_while p (c :: r) = c :: r.
Proof. intros H. cbn. rewrite H. reflexivity. Qed.

Lemma trim_qs_clean v : inner_clean v -> trim_qs v = v.
Proof.
  intros [H1 H2]. unfold trim_qs, trim_set, trim_right. change (in_set (L "'"" ")) with qs_char.
  assert (E1: drop_while qs_char v = v) by (destruct v; [reflexivity|apply drop_while_head; exact H1]).
  rewrite E1. assert (E2: drop_while qs_char (rev v) = rev v) by (destruct (rev v); [reflexivity|apply drop_while_head; exact H2]).
  rewrite E2. apply rev_involutive.
Qed.

Lemma trim_qs_quoted v : inner_clean v -> trim_qs (dq :: v ++ [dq]) = v.
Proof.
  intros [H1 H2]. unfold trim_qs, trim_set, trim_right. change (in_set (L "'"" ")) with qs_char.
  cbn [drop_while]. replace (qs_char dq) with true by reflexivity.
  destruct v as [|c v].
  - reflexivity.
  - cbn [app]. rewrite drop_while_head by exact H1.
    change (c :: v ++ [dq]) with ((c :: v) ++ [dq]). rewrite rev_app_distr. cbn [rev app drop_while].
    replace (qs_char dq) with true by reflexivity.
    destruct (rev v ++ [c]) as [|x r] eqn:E. { destruct (rev v); discriminate. }
    cbn [rev] in H2. rewrite E in H2. rewrite drop_while_head by exact H2. rewrite <- E. rewrite rev_app_distr, rev_involutive. reflexivity.
Qed.

Lemma plain_inner_clean v : forallb is_plain v = true -> inner_clean v.
Proof.
  assert (G: forall c, is_plain c = true -> qs_char c = false).
  { intros c H. unfold is_plain in H. apply negb_true_iff in H. unfold qs_char, in_set. cbn [existsb L list_ascii_of_string].
    destruct (Ascii.eqb c "'"%char) eqn:E1. { apply Ascii.eqb_eq in E1. subst c. discriminate H. }
    destruct (Ascii.eqb c """"%char) eqn:E2. { apply Ascii.eqb_eq in E2. subst c. discriminate H. }
    destruct (Ascii.eqb c " "%char) eqn:E3. { apply Ascii.eqb_eq in E3. subst c. discriminate H. }
    reflexivity. }
  intros H. rewrite forallb_forall in H. split.
  - destruct v as [|c r]; auto. apply G, H. left; auto.
  - destruct (rev v) as [|c r] eqn:E; auto. apply G, H. apply in_rev. rewrite E. left; auto.
Qed.

(* the value a field carries *)
Definition value_of (x : fval) : str := match x with Quoted v => v | Plain v => v end.
Definition value_ok (x : fval) : Prop := match x with Quoted v => inner_clean v | Plain _ => True end.
Lemma trim_text x : fval_ok x -> value_ok x -> trim_qs (text_of x) = value_of x.
Proof.
  destruct x as [v|v]; cbn [fval_ok value_ok text_of value_of]; intros H1 H2.
  - apply trim_qs_quoted; auto.
  - apply trim_qs_clean. apply plain_inner_clean. tauto.
Qed.

(* ---------- extract on such a body ---------- *)
Lemma beq_refl' a : beq a a = true.
Proof. induction a as [|c a IH]; cbn; auto. rewrite Ascii.eqb_refl, IH. reflexivity. Qed.
Lemma beq_true a b : beq a b = true -> a = b.
Proof. revert b; induction a as [|x a IH]; intros [|y b] H; cbn in H; try discriminate; auto.
  apply andb_prop in H. destruct H as [H1 H2]. apply Ascii.eqb_eq in H1. subst. f_equal. auto. Qed.
Lemma kv_get_del_other k k' m : k <> k' -> kv_get k (kv_del k' m) = kv_get k m.
Proof.
  intros Hne. induction m as [|[k2 v] m IH]; cbn; auto.
  destruct (beq k' k2) eqn:E1.
  - apply beq_true in E1. subst k2. destruct (beq k k') eqn:E2; [apply beq_true in E2; contradiction|exact IH].
  - cbn. destruct (beq k k2); auto.
Qed.
Lemma kv_get_add_same k v m : kv_get k (kv_add k v m) = Some v.
Proof. unfold kv_add. cbn. rewrite beq_refl'. reflexivity. Qed.
Lemma kv_get_add_other k k' v m : k <> k' -> kv_get k (kv_add k' v m) = kv_get k m.
Proof. intros Hne. unfold kv_add. cbn. destruct (beq k k') eqn:E; [apply beq_true in E; contradiction|]. apply kv_get_del_other; auto. Qed.

Definition ordinary (f : str * fval) : Prop :=
  isS (fst f) "msg" = false /\ placeholder (value_of (snd f)) = false /\ value_ok (snd f).

Definition estep (a : kvlist) (kv : str * str) : kvlist :=
  let '(k, orig) := kv in let v := trim_qs orig in
  if placeholder v then a else if isS k "msg" then fold_left (fun a' e => kv_add (fst e) (snd e) a') (rev (extract 0 v [])) a else kv_add k (orig, v) a.

Lemma fold_fields : forall fs acc k, Forall field_ok fs -> Forall ordinary fs -> ~ In k (map fst fs) ->
  kv_get k (fold_left (fun a f => kv_add (fst f) (text_of (snd f), value_of (snd f)) a) fs acc) = kv_get k acc.
Proof.
  induction fs as [|f r IH]; intros acc k Hok Hord Hn; cbn [fold_left]; auto.
  inversion Hok; inversion Hord; subst. rewrite IH; auto. apply kv_get_add_other. intros E. apply Hn. left; auto.
  intros Hin. apply Hn. right; auto.
Qed.

Lemma fold_get_in : forall fs acc f, Forall field_ok fs -> Forall ordinary fs -> NoDup (map fst fs) -> In f fs ->
  kv_get (fst f) (fold_left (fun a f0 => kv_add (fst f0) (text_of (snd f0), value_of (snd f0)) a) fs acc) = Some (text_of (snd f), value_of (snd f)).
Proof.
  induction fs as [|g r IH]; intros acc f Hok Hord Hnd Hin; [contradiction|]. cbn [fold_left].
  inversion Hok; inversion Hord; subst. cbn [map] in Hnd. inversion Hnd as [|? ? Hnotin Hnd']; subst.
  destruct Hin as [->|Hin].
  - rewrite fold_fields; auto. apply kv_get_add_same.
  - apply IH; auto.
Qed.

Lemma extract_fold_acc d : forall l acc, Forall field_ok l -> Forall ordinary l ->
  fold_left (fun a kv => let '(k, orig) := kv in let v := trim_qs orig in
                         if placeholder v then a
                         else if isS k "msg" then fold_left (fun a' e => kv_add (fst e) (snd e) a') (rev (extract d v [])) a
                         else kv_add k (orig, v) a)
            (map (fun f => (fst f, text_of (snd f))) l) acc
  = fold_left (fun a f => kv_add (fst f) (text_of (snd f), value_of (snd f)) a) l acc.
Proof.
  induction l as [|g l IH]; intros acc H1 H2; cbn [map fold_left]; auto.
  inversion H1 as [|? ? (Hk & Hkey & Hv) H1']; inversion H2 as [|? ? (Hm & Hp & Hvo) H2']; subst.
  rewrite (trim_text _ Hv Hvo), Hp, Hm. apply IH; auto.
Qed.
Lemma extract_as_fold d fs : Forall field_ok fs -> Forall ordinary fs ->
  extract (S d) (body fs) [] = fold_left (fun a f => kv_add (fst f) (text_of (snd f), value_of (snd f)) a) fs [].
Proof. intros Hok Hord. cbn [extract]. rewrite (body_tokenised fs Hok). apply extract_fold_acc; auto. Qed.

Theorem extract_body d fs : Forall field_ok fs -> Forall ordinary fs -> NoDup (map fst fs) ->
  forall f, In f fs -> kv_get (fst f) (extract (S d) (body fs) []) = Some (text_of (snd f), value_of (snd f)).
Proof.
  intros Hok Hord Hnd f Hin. rewrite extract_as_fold by auto. apply fold_get_in; auto.
Qed.
Print Assumptions extract_body.

(* placeholders: a field whose trimmed value is empty, ?, ?, or (null) leaves no entry at all *)
Definition is_dropped (f : str * fval) : bool := placeholder (trim_qs (text_of (snd f))).
Lemma ordinary_not_dropped f : field_ok f -> ordinary f -> is_dropped f = false.
Proof. intros (_ & _ & Hv) (_ & Hp & Hvo). unfold is_dropped. rewrite (trim_text _ Hv Hvo). exact Hp. Qed.
Lemma extract_fold_acc_dropping d : forall l acc, Forall field_ok l -> Forall (fun f => ordinary f \/ is_dropped f = true) l ->
  fold_left (fun a kv => let '(k, orig) := kv in let v := trim_qs orig in
                         if placeholder v then a
                         else if isS k "msg" then fold_left (fun a' e => kv_add (fst e) (snd e) a') (rev (extract d v [])) a
                         else kv_add k (orig, v) a)
            (map (fun f => (fst f, text_of (snd f))) l) acc
  = fold_left (fun a f => kv_add (fst f) (text_of (snd f), value_of (snd f)) a) (filter (fun f => negb (is_dropped f)) l) acc.
Proof.
  induction l as [|g l IH]; intros acc H1 H2; cbn [map fold_left filter]; auto.
  inversion H1 as [|? ? Hg H1']; inversion H2 as [|? ? Hc H2']; subst. destruct Hc as [Ho|Hd].
  - rewrite (ordinary_not_dropped _ Hg Ho). cbn [negb fold_left]. destruct Hg as (Hk & Hkey & Hv). destruct Ho as (Hm & Hp & Hvo).
    rewrite (trim_text _ Hv Hvo), Hp, Hm. apply IH; auto.
  - rewrite Hd. cbn [negb]. unfold is_dropped in Hd. rewrite Hd. apply IH; auto.
Qed.
Theorem placeholders_dropped d fs : Forall field_ok fs -> Forall (fun f => ordinary f \/ is_dropped f = true) fs ->
  extract (S d) (body fs) [] =
  fold_left (fun a f => kv_add (fst f) (text_of (snd f), value_of (snd f)) a) (filter (fun f => negb (is_dropped f)) fs) [].
Proof. intros Hok Hc. cbn [extract]. rewrite (body_tokenised fs Hok). apply extract_fold_acc_dropping; auto. Qed.
(* so a key that only ever appears with a placeholder value is absent, and an ordinary field is still found *)
Theorem placeholder_key_absent d fs k : Forall field_ok fs -> Forall (fun f => ordinary f \/ is_dropped f = true) fs ->
  (forall f, In f fs -> fst f = k -> is_dropped f = true) -> kv_get k (extract (S d) (body fs) []) = None.
Proof.
  intros Hok Hc Hk. rewrite placeholders_dropped by auto.
  set (fs' := filter (fun f => negb (is_dropped f)) fs).
  assert (Hok': Forall field_ok fs'). { apply Forall_forall. intros f Hf. apply filter_In in Hf. rewrite Forall_forall in Hok. apply Hok. tauto. }
  assert (Hord': Forall ordinary fs').
  { apply Forall_forall. intros f Hf. apply filter_In in Hf. destruct Hf as [Hin Hn]. rewrite Forall_forall in Hc.
    destruct (Hc f Hin) as [Ho|Hd]; auto. rewrite Hd in Hn. discriminate. }
  rewrite fold_fields; auto.
  intros Hin. apply in_map_iff in Hin. destruct Hin as (f & Hf & Hin). apply filter_In in Hin. destruct Hin as [Hin Hn].
  rewrite (Hk f Hin Hf) in Hn. discriminate.
Qed.
Example placeholders_dropped_example :
  extract 2 (body [(L "pid", Plain (L "1")); (L "hostname", Plain (L "?")); (L "exe", Quoted []); (L "addr", Plain (L "(null)"))]) []
  = [(L "pid", (L "1", L "1"))].
Proof. vm_compute. reflexivity. Qed.
Print Assumptions placeholders_dropped.
Print Assumptions placeholder_key_absent.
