(* Proofs/StatusProofs.v — audit_status on the wire agrees with the UAPI layout. *)
From Coq Require Import List Ascii NArith ZArith Bool Lia ZifyBool ZifyN ZifyNat.
Import ListNotations.
Require Import Mach AuditConsts MsgTypes AuditClient Uapi ChkClient.
Open Scope N_scope.

(* finite obligations over the generated constants and offsets *)
Lemma layout_ok :
  (sizeof_audit_status, min_sizeof_audit_status, status_num_fields,
   off_st_mask, off_st_enabled, off_st_failure, off_st_pid, off_st_rate_limit, off_st_backlog_limit, off_st_lost, off_st_backlog,
   off_st_feature_bitmap, off_st_backlog_wait_time, off_st_backlog_wait_time_actual, native_little_endian)
  = (UAPI_SIZEOF_AUDIT_STATUS, UAPI_MIN_AUDIT_STATUS, 11, 0, 4, 8, 12, 16, 20, 24, 28, 32, 36, 40, true).
Proof. vm_compute. reflexivity. Qed.
Lemma consts_ok :
  (AuditGet, AuditSet, AuditStatusEnabled, AuditStatusFailure, AuditStatusPID, AuditStatusRateLimit, AuditStatusBacklogLimit,
   AuditStatusBacklogWaitTime, AuditStatusLost,
   AuditFeatureBitmapBacklogLimit, AuditFeatureBitmapBacklogWaitTime, AuditFeatureBitmapExecutablePath,
   AuditFeatureBitmapExcludeExtend, AuditFeatureBitmapSessionIDFilter, AuditFeatureBitmapLostReset,
   NLM_F_REQUEST, NLM_F_ACK, NLMSG_ERROR, NLMSG_DONE, NLMSG_HDRLEN, AUDIT_LIST_RULES, AUDIT_ADD_RULE, AUDIT_DEL_RULE)
  = (UAPI_AUDIT_GET, UAPI_AUDIT_SET, UAPI_AUDIT_STATUS_ENABLED, UAPI_AUDIT_STATUS_FAILURE, UAPI_AUDIT_STATUS_PID, UAPI_AUDIT_STATUS_RATE_LIMIT,
     UAPI_AUDIT_STATUS_BACKLOG_LIMIT, UAPI_AUDIT_STATUS_BACKLOG_WAIT_TIME, UAPI_AUDIT_STATUS_LOST,
     UAPI_AUDIT_FEATURE_BITMAP_BACKLOG_LIMIT, UAPI_AUDIT_FEATURE_BITMAP_BACKLOG_WAIT_TIME, UAPI_AUDIT_FEATURE_BITMAP_EXECUTABLE_PATH,
     UAPI_AUDIT_FEATURE_BITMAP_EXCLUDE_EXTEND, UAPI_AUDIT_FEATURE_BITMAP_SESSIONID_FILTER, UAPI_AUDIT_FEATURE_BITMAP_LOST_RESET,
     UAPI_NLM_F_REQUEST, UAPI_NLM_F_ACK, UAPI_NLMSG_ERROR, UAPI_NLMSG_DONE, UAPI_NLMSG_HDRLEN, UAPI_AUDIT_LIST_RULES, UAPI_AUDIT_ADD_RULE, UAPI_AUDIT_DEL_RULE).
Proof. vm_compute. reflexivity. Qed.
(* the failure modes: either the UAPI numbers, or the pinned tree's known defect
   (all three are 0, see known_findings.json); any third combination fails here *)
Lemma failure_modes_ok :
  (SilentOnFailure, LogOnFailure, PanicOnFailure) = (UAPI_AUDIT_FAIL_SILENT, UAPI_AUDIT_FAIL_PRINTK, UAPI_AUDIT_FAIL_PANIC)
  \/ (SilentOnFailure, LogOnFailure, PanicOnFailure) = (0, 0, 0).
Proof. first [left; vm_compute; reflexivity | right; vm_compute; reflexivity]. Qed.

(* every setter: the payload the model builds from the generated offsets and masks is
   the UAPI struct with exactly that mask bit and that field *)
Lemma setter_payload k v : status_bytes (setter_mask k) (setter_off k) (setter_value k v) = ustatus_bytes (uapi_setter_status k v).
Proof. destruct k; reflexivity. Qed.
Lemma req_ack_ok : REQ_ACK = UAPI_REQ_ACK. Proof. vm_compute. reflexivity. Qed.

Lemma do_send_wires s w k v wait : snd (cset s w k v wait) = [(AuditSet, REQ_ACK, status_bytes (setter_mask k) (setter_off k) (setter_value k v))].
Proof.
  unfold cset. destruct (do_send _ w) as [[[s1 w1] sq] f]. destruct f; [reflexivity|]. destruct wait; [|reflexivity].
  destruct (reply sq (rscript w1)). reflexivity.
Qed.
Theorem setter_sends s w k v wait :
  snd (cset s w k v wait) = [(UAPI_AUDIT_SET, UAPI_REQ_ACK, ustatus_bytes (uapi_setter_status k v))].
Proof. rewrite do_send_wires, setter_payload, req_ack_ok. reflexivity. Qed.

(* FromWireFormat *)
Definition nthb (buf : str) (i : nat) : ascii := nth i buf zero.
Lemma firstn_pad : forall n buf m, (n <= m)%nat -> firstn n (buf ++ repeat zero m) = map (fun i => nth i buf zero) (seq 0 n).
Proof.
  induction n as [|n IH]; intros buf m H; cbn [firstn seq map]; auto.
  destruct buf as [|a buf]; cbn [app].
  - destruct m as [|m]; [lia|]. cbn [repeat firstn nth]. f_equal. rewrite <- seq_shift, map_map.
    specialize (IH [] m). cbn [app] in IH. rewrite IH by lia. apply map_ext. intros i. destruct i; reflexivity.
  - cbn [firstn nth]. f_equal. rewrite <- seq_shift, map_map. rewrite IH by lia. apply map_ext. reflexivity.
Qed.
Lemma pad_to_nth : forall n buf, pad_to n buf = map (nthb buf) (seq 0 n).
Proof. intros. unfold pad_to, nthb. apply firstn_pad. lia. Qed.
Lemma byte_at_nthb buf i : byte_at buf i = N_of_ascii (nthb buf i).
Proof.
  unfold byte_at, nthb. destruct (nth_error buf i) as [c|] eqn:E.
  - rewrite (nth_error_nth _ _ zero E). reflexivity.
  - apply nth_error_None in E. rewrite nth_overflow by lia. reflexivity.
Qed.

Theorem from_wire_spec buf :
  status_from_wire buf = if (N.of_nat (length buf) <? UAPI_MIN_AUDIT_STATUS) then None else Some (uapi_read_status buf).
Proof.
  unfold status_from_wire.
  replace (N.to_nat min_sizeof_audit_status) with 32%nat by reflexivity.
  replace (N.to_nat sizeof_audit_status) with 44%nat by reflexivity.
  unfold UAPI_MIN_AUDIT_STATUS.
  destruct (length buf <? 32)%nat eqn:E.
  - replace (N.of_nat (length buf) <? 32) with true by lia. reflexivity.
  - replace (N.of_nat (length buf) <? 32) with false by lia.
    rewrite pad_to_nth. unfold uapi_read_status, uword_at. rewrite !byte_at_nthb || idtac.
    cbn [seq map bytes_to_words rd32]. repeat rewrite byte_at_nthb. cbn [Nat.mul Nat.add]. reflexivity.
Qed.
