(* Proofs/TrimPadRunes.v — strings.TrimSpace removes any run of Unicode white-space runes (all 25 of unicode.IsSpace,
   in their UTF-8 encodings) around a text that neither starts nor ends with one. *)
From Coq Require Import List Ascii String NArith ZArith Bool Arith Lia.
Import ListNotations.
Require Import KV Trim Header Parser TrimPad.
Local Close Scope N_scope.
Local Open Scope nat_scope.
Local Open Scope list_scope.
Local Notation length := List.length.

Lemma drop_rune p rest : In p space_runes -> drop_space_rune (p ++ rest) = Some rest.
Proof.
  intros H. unfold space_runes in H. cbn [map] in H.
  repeat (destruct H as [<-|H]; [reflexivity|]). contradiction.
Qed.
Lemma drop_rune_rev p rest : In p space_runes -> drop_space_rune_rev (rev p ++ rest) = Some rest.
Proof.
  intros H. unfold space_runes in H. cbn [map] in H.
  repeat (destruct H as [<-|H]; [reflexivity|]). contradiction.
Qed.
Lemma rune_nonempty p : In p space_runes -> 1 <= length p.
Proof.
  intros H. unfold space_runes in H. cbn [map] in H.
  repeat (destruct H as [<-|H]; [cbn; lia|]). contradiction.
Qed.

Lemma trim_left_runes : forall rs fuel s, Forall (fun p => In p space_runes) rs -> length (List.concat rs) <= fuel ->
  drop_space_rune s = None -> trim_left fuel (List.concat rs ++ s) = s.
Proof.
  induction rs as [|p rs IH]; intros fuel s Hr Hf Hs; cbn [List.concat app].
  - destruct fuel; cbn [trim_left]; auto. rewrite Hs. reflexivity.
  - inversion Hr as [|? ? Hp Hr']; subst. pose proof (rune_nonempty p Hp) as Hl.
    cbn [List.concat] in Hf. rewrite app_length in Hf. destruct fuel as [|f]; [lia|]. cbn [trim_left].
    rewrite <- app_assoc. rewrite (drop_rune p _ Hp). apply IH; auto. lia.
Qed.
Lemma trim_left_rev_runes : forall (rs : list (list ascii)) fuel s, Forall (fun p => In p space_runes) rs -> length (List.concat rs) <= fuel ->
  drop_space_rune_rev s = None -> trim_left_rev fuel (List.concat (map (@rev ascii) rs) ++ s) = s.
Proof.
  induction rs as [|p rs IH]; intros fuel s Hr Hf Hs; cbn [List.concat map app].
  - destruct fuel; cbn [trim_left_rev]; auto. rewrite Hs. reflexivity.
  - inversion Hr as [|? ? Hp Hr']; subst. pose proof (rune_nonempty p Hp) as Hl.
    cbn [List.concat] in Hf. rewrite app_length in Hf. destruct fuel as [|f]; [lia|]. cbn [trim_left_rev].
    rewrite <- app_assoc. rewrite (drop_rune_rev p _ Hp). apply IH; auto. lia.
Qed.
Lemma rev_concat {A} (l : list (list A)) : rev (List.concat l) = List.concat (map (@rev A) (rev l)).
Proof.
  induction l as [|x l IH]; cbn [List.concat rev map]; auto. rewrite rev_app_distr, IH, map_app, List.concat_app. cbn [map List.concat]. rewrite app_nil_r. reflexivity.
Qed.

Lemma length_concat_rev (l : list (list ascii)) : length (List.concat (rev l)) = length (List.concat l).
Proof.
  induction l as [|x l IH]; cbn [rev List.concat]; auto. rewrite List.concat_app, !app_length, IH. cbn [List.concat]. rewrite app_nil_r. lia.
Qed.

(* TrimSpace of a text padded with white-space runes on both sides *)
Theorem trim_space_rune_padded rs1 msg rs2 :
  Forall (fun p => In p space_runes) rs1 -> Forall (fun p => In p space_runes) rs2 -> no_ws_ends msg -> msg <> [] ->
  drop_space_rune (msg ++ List.concat rs2) = None ->
  trim_space (List.concat rs1 ++ msg ++ List.concat rs2) = msg.
Proof.
  intros H1 H2 [Hs He] Hne Hs2. unfold trim_space.
  rewrite (trim_left_runes rs1 (length (List.concat rs1 ++ msg ++ List.concat rs2)) (msg ++ List.concat rs2) H1); [|rewrite app_length; lia|exact Hs2].
  rewrite rev_app_distr, rev_concat.
  assert (H2r: Forall (fun p => In p space_runes) (rev rs2)).
  { apply Forall_forall. intros x Hx. rewrite Forall_forall in H2. apply H2. apply in_rev. exact Hx. }
  match goal with |- rev ?t = _ => replace t with (rev msg) end; [apply rev_involutive|].
  symmetry. apply trim_left_rev_runes; [exact H2r| |exact He].
  pose proof (length_concat_rev rs2) as E. pose proof (app_length msg (List.concat rs2)) as L.
  etransitivity; [apply Nat.eq_le_incl; exact E|]. rewrite L. lia.
Qed.
Print Assumptions trim_space_rune_padded.
