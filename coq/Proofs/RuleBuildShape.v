(* Proofs/RuleBuildShape.v — what Build makes of a parsed line: one field / operator / value triple per
   filter, in the order given, then the joined keys; values through the parsers; strings back to back. *)
From Coq Require Import List Ascii String Arith NArith ZArith Bool Lia.
Import ListNotations.
Require Import Bytes Dec Mach RuleTables RuleDecode Mask RuleEncode RuleText RuleValue FilterRe Flags RuleBuild.
Require Import RuleReprint RuleRoundTrip.
Local Open Scope string_scope.
Local Open Scope list_scope.
Open Scope N_scope.

(* the triple one filter is built into, by the tables and the value parsers *)
Definition triple_spec (flt : bool * str * str * str) (t : (N * N * N) * list str) : Prop :=
  let '(cmp, lhs, o, rhs) := flt in
  let '((f, oc, v), ss) := t in
  lookupS o operators_table = Some oc /\
  if cmp then
    exists a b tb, lookupS lhs fields_table = Some a /\ lookupS rhs fields_table = Some b /\
                   lookupN a comparisons_table = Some tb /\ lookupN b tb = Some v /\ f = 111 /\ ss = []
  else
    lookupS lhs fields_table = Some f /\
    if is_string_field f then v = N.of_nat (List.length rhs) /\ ss = [rhs]
    else exists n, parse_value f rhs = VOk n /\ v = n mod 2 ^ 32 /\ ss = [].

Lemma one_filter lst flt it t ss : item_of_filter flt = Some it -> triple_of_item lst it = Some (t, ss) -> triple_spec flt (t, ss).
Proof.
  destruct flt as [[[cmp lhs] o] rhs]. unfold item_of_filter. intros Hit Ht. destruct cmp.
  - injection Hit as <-. destruct (triple_cmp_inv _ _ _ _ _ _ Ht) as (oc & a & b & tb & c & Ho & Ha & Hb & _ & Hta & Htb & -> & ->).
    rewrite s2l_sos in *. unfold triple_spec. split; auto. exists a, b, tb. auto 10.
  - destruct (lookupS lhs fields_table) as [fc|] eqn:Ef; [|discriminate]. destruct (is_string_field fc) eqn:Es.
    + injection Hit as <-. destruct (triple_str_inv _ _ _ _ _ _ Ht) as (fc' & oc & Ho & Hf2 & _ & -> & -> & _).
      rewrite s2l_sos in *. rewrite Ef in Hf2. injection Hf2 as <-. unfold triple_spec. rewrite Es. auto.
    + destruct (parse_value fc rhs) as [n| |] eqn:Epv; try discriminate. injection Hit as <-.
      destruct (triple_num_inv _ _ _ _ _ _ Ht) as (fc' & oc & Ho & Hf2 & _ & -> & -> & _).
      rewrite s2l_sos in *. rewrite Ef in Hf2. injection Hf2 as <-. unfold triple_spec. rewrite Es. split; auto. split; auto. exists n. auto.
Qed.

Theorem build_shape li ac fs scs keys s d :
  spec_of_prule li ac fs scs keys = Some s -> data_of_spec s = Some d ->
  exists l, List.length l = List.length fs /\ Forall2 triple_spec fs l /\
    w_triples d = map fst l ++ (match keys with [] => [] | _ => [(210, 1073741824, N.of_nat (List.length (join_keys keys)))] end) /\
    w_strings d = flat_map snd l ++ (match keys with [] => [] | _ => [join_keys keys] end) /\
    list_code (sos li) = Some (w_flags d) /\ action_code (sos ac) = Some (w_action d).
Proof.
  intros Hspec Hdata.
  destruct (spec_inv _ _ _ _ _ _ Hspec) as (its & arch & all & nums & Hits & _ & _ & ->).
  destruct (data_inv _ _ Hdata) as (lc & acode & acc & m & Hlc & Hac & Hadd & _ & Hk & _ & Hd). cbn [sp_list sp_action sp_items sp_keys] in *.
  rewrite add_items_triples in Hadd. destruct (triples_of_items (sos li) its) as [l|] eqn:Etr; [|discriminate]. cbn [app] in Hadd. injection Hadd as <-.
  assert (HF: forall fs its l, items_of_filters fs = Some its -> triples_of_items (sos li) its = Some l -> List.length l = List.length fs /\ Forall2 triple_spec fs l).
  { induction fs0 as [|f fs0 IH]; intros its0 l0 H1 H2; cbn [items_of_filters] in H1.
    - injection H1 as <-. cbn in H2. injection H2 as <-. split; constructor.
    - destruct (item_of_filter f) as [it|] eqn:E1; [|discriminate]. destruct (items_of_filters fs0) as [its'|] eqn:E2; [|discriminate]. injection H1 as <-.
      cbn [triples_of_items] in H2. destruct (triple_of_item (sos li) it) as [[t ss]|] eqn:E3; [|discriminate].
      destruct (triples_of_items (sos li) its') as [l'|] eqn:E4; [|discriminate]. injection H2 as <-.
      destruct (IH _ _ eq_refl E4) as [Hl HF2]. split; [cbn; lia|]. constructor; auto. eapply one_filter; eauto. }
  destruct (HF _ _ _ Hits Etr) as [Hlen HF2]. exists l. split; auto. split; auto.
  rewrite Hd. cbn [w_flags w_action w_triples w_strings]. 
  assert (Hts: w_triples d = map fst l ++ match keys with [] => [] | _ => [(210, 1073741824, N.of_nat (List.length (join_keys keys)))] end /\
               w_strings d = flat_map snd l ++ match keys with [] => [] | _ => [join_keys keys] end).
  { destruct (streq (sos li) "exclude") eqn:Eex.
    - destruct keys; [|discriminate]. injection Hk as <- <-. rewrite !app_nil_r. auto.
    - destruct keys as [|k0 kr] eqn:Ekeys.
      + cbn [add_keys] in Hk. injection Hk as <- <-. rewrite !app_nil_r. auto.
      + rewrite <- Ekeys in *. assert (Hne: keys <> []) by (rewrite Ekeys; discriminate).
        destruct (keys_as_filter (sos li) _ _ _ _ Eex Hne Hk) as (_ & t & Htr & Hts & Hss & _). cbn [fst snd] in Hts, Hss.
        destruct (triple_str_inv _ _ _ _ _ _ Htr) as (fc & oc & Ho & Hf & _ & -> & _ & _).
        destruct key_facts as (Hk1 & Hk2 & _). rewrite Hk2 in Ho. injection Ho as <-. rewrite Hk1 in Hf. injection Hf as <-.
        rewrite Ekeys in *. split; assumption. }
  destruct Hts as [H1 H2]. rewrite H1, H2. auto.
Qed.
Print Assumptions build_shape.
