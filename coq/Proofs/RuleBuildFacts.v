(* Proofs/RuleBuildFacts.v — further facts about the data and bytes of every rule the Build model accepts:
   list and action codes are the UAPI numbers, the mask holds exactly the requested syscalls (or the
   all-syscalls pattern), the wire form is padded to a multiple of four bytes. *)
From Coq Require Import List Ascii String Arith NArith ZArith Bool Lia ZifyNat ZifyN.
Import ListNotations.
Require Import Bytes Dec Mach RuleTables RuleDecode Mask RuleEncode Uapi UapiRule RuleWire RuleSpecWf RuleRoundTrip.
Local Open Scope string_scope.
Local Open Scope list_scope.
Open Scope N_scope.
Ltac Zify.zify_post_hook ::= Z.div_mod_to_equations.

(* list and action names carry the UAPI numbers *)
Lemma list_codes_are_uapi nm c : list_code nm = Some c -> lookupS (s2l nm) uapi_lists = Some c.
Proof.
  unfold list_code, streq. intros H.
  destruct (String.eqb nm "user") eqn:E1; [apply String.eqb_eq in E1; subst; injection H as <-; reflexivity|].
  destruct (String.eqb nm "task") eqn:E2; [apply String.eqb_eq in E2; subst; injection H as <-; reflexivity|].
  destruct (String.eqb nm "exit") eqn:E3; [apply String.eqb_eq in E3; subst; injection H as <-; reflexivity|].
  destruct (String.eqb nm "exclude") eqn:E4; [apply String.eqb_eq in E4; subst; injection H as <-; reflexivity|]. discriminate.
Qed.
Lemma action_codes_are_uapi nm c : action_code nm = Some c -> lookupS (s2l nm) uapi_actions = Some c.
Proof.
  unfold action_code, streq. intros H.
  destruct (String.eqb nm "never") eqn:E1; [apply String.eqb_eq in E1; subst; injection H as <-; reflexivity|].
  destruct (String.eqb nm "always") eqn:E2; [apply String.eqb_eq in E2; subst; injection H as <-; reflexivity|]. discriminate.
Qed.

Theorem accepted_rule_codes_and_mask s d : data_of_spec s = Some d ->
  lookupS (s2l (sp_list s)) uapi_lists = Some (w_flags d) /\ lookupS (s2l (sp_action s)) uapi_actions = Some (w_action d) /\
  (if sp_all s then w_mask d = repeat 4294967295 63 ++ [65535]
   else forall k, testbit_mask (w_mask d) k = true <-> In k (sp_syscalls s)).
Proof.
  intros H. destruct (data_inv _ _ H) as (lc & acode & acc & m & Hlc & Hac & _ & Hm & _ & _ & Hd). rewrite Hd. cbn [w_flags w_action w_mask].
  split; [apply list_codes_are_uapi; exact Hlc|]. split; [apply action_codes_are_uapi; exact Hac|].
  destruct (sp_all s).
  - injection Hm as <-. reflexivity.
  - intros k. apply (build_mask_exact _ _ k Hm).
Qed.

(* total length is a multiple of four *)
Theorem wire_length_padded d : (List.length (to_wire d) mod 4 = 0)%nat.
Proof.
  unfold to_wire. rewrite !app_length, length_words_to_bytes, repeat_length.
  set (b := List.length (List.concat (w_strings d))). set (h := List.length _).
  assert (E: forall x y : nat, ((4 * x + (y + (4 - (1040 + y) mod 4) mod 4)) mod 4 = 0)%nat) by (intros x y; lia).
  apply E.
Qed.
Print Assumptions accepted_rule_codes_and_mask.
Print Assumptions wire_length_padded.
