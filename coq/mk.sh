#!/bin/sh
# Regenerate _CoqProject and Makefile.coq from the .v files present, then build.
# Usage: mk.sh [make args]
cd "$(dirname "$0")"
{ echo "-R . LA"; echo "-arg -w -arg -notation-overridden,-deprecated"; find Base Gen Spec Model Check Proofs Inst Properties Extract -name '*.v' 2>/dev/null | grep -v '/cases_' | sort; } > _CoqProject.new
if ! cmp -s _CoqProject.new _CoqProject 2>/dev/null || [ ! -f Makefile.coq ]; then
  mv _CoqProject.new _CoqProject
  coq_makefile -f _CoqProject -o Makefile.coq >/dev/null
else
  rm -f _CoqProject.new
fi
exec timeout ${MK_TIMEOUT:-1500} make -f Makefile.coq "$@"
