(* Finite obligation of C20: every record type and syscall named in the built-in
   normalisation table is one the parser can produce. *)
From Coq Require Import List String Bool.
Require Import Bytes Tables Norms.
Import ListNotations.
Lemma norm_record_types_ok : filter (fun rt => negb (record_type_producible rt)) norm_record_type_names = [].
Proof. by_vm. Qed.
Lemma norm_syscalls_ok : filter (fun sc => negb (syscall_producible sc)) norm_syscalls = [].
Proof. by_vm. Qed.
