(* Finite obligation of C20: every record type and syscall named in the built-in
   normalisation table is one the parser can produce. *)
From Coq Require Import List String.
Require Import Bytes Tables.
Lemma norm_record_types_ok : bad_norm_record_types = nil. Proof. vm_compute. reflexivity. Qed.
Lemma norm_syscalls_ok : bad_norm_syscalls = nil. Proof. vm_compute. reflexivity. Qed.
