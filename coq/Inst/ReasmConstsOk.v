(* Inst/ReasmConstsOk.v — the record-type numbers the Reassembler model uses for "this record completes an event"
   are the generated ones (auparse constants as compiled). *)
From Coq Require Import NArith ZArith Bool.
Require Import Bytes MsgTypes Reassembler.
Definition reasm_consts_okb : bool :=
  Z.eqb Reassembler.AUDIT_EOE (Z.of_N MsgTypes.AUDIT_EOE) && Z.eqb Reassembler.AUDIT_PROCTITLE (Z.of_N MsgTypes.AUDIT_PROCTITLE) &&
  Z.eqb Reassembler.AUDIT_LAST_DAEMON (Z.of_N MsgTypes.AUDIT_LAST_DAEMON) && Z.eqb Reassembler.AUDIT_ANOM_LOGIN_FAILURES (Z.of_N MsgTypes.AUDIT_ANOM_LOGIN_FAILURES).
Lemma reasm_consts_ok : reasm_consts_okb = true. Proof. by_vm. Qed.
