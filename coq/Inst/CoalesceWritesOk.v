(* Inst/CoalesceWritesOk.v — the premise of the heap reading of CoalesceMessages (Model/CoalesceHeap.v), checked
   against the source text on every run: every statement of aucoalesce that writes into a map targets a field of
   the event being built, a map made by the function itself (make / copyData / literal), or the receiver's own
   cache - never the map a message's Data() returned, nor a map reached through event.Paths (those are the PATH
   messages' own maps); and the two appends to slices the event shares with the normalisation tables cannot write
   into the tables because no table slice has spare capacity. *)
From Coq Require Import List NArith Bool String.
Import ListNotations.
Require Import Bytes CoalesceWrites.
Local Open Scope string_scope.

Definition origin_of (w : string * string * string * string) : string := snd w.
Definition owned_origin (o : string) : bool := existsb (String.eqb o) ["event"; "fresh"; "recv"].
Definition is_table_append (w : string * string * string * string) : bool := String.eqb (origin_of w) "append-to-table-slice".
Definition map_writes_okb : bool := forallb (fun w => owned_origin (origin_of w) || is_table_append w) coalesce_writes.
Definition table_appends_okb : bool :=
  negb (existsb is_table_append coalesce_writes) || match norm_spare_capacity with [] => true | _ => false end.
Definition coalesce_writes_okb : bool := map_writes_okb && table_appends_okb.
Lemma coalesce_writes_ok : coalesce_writes_okb = true. Proof. by_vm. Qed.
