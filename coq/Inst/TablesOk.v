(* Finite obligations of C20 over the generated tables other than the 65536-type
   sweeps.  Each is stated in exactly the shape filter_nil_forall consumes. *)
From Coq Require Import List NArith ZArith Bool String.
Require Import Bytes Tables.
Require Import MsgTypes Errno Arch Syscalls RuleTables Norms EventTypes.
Import ListNotations.
Lemma errno_names_ok : filter (fun e => negb (errno_name_okb e)) errno_to_name = []. Proof. by_vm. Qed.
Lemma errno_nums_ok : filter (fun e => negb (errno_num_okb e)) errno_to_num = []. Proof. by_vm. Qed.
Lemma arch_nodup_ok : arch_names_nodup = true. Proof. by_vm. Qed.
Lemma arch_fwd_ok : filter (fun e => negb (arch_fwd_okb e)) arch_names = []. Proof. by_vm. Qed.
Lemma arch_rev_ok : filter (fun e => negb (arch_rev_okb e)) reverse_arch = []. Proof. by_vm. Qed.
Lemma syscall_dups_ok : filter (fun e => negb (syscall_nodup_okb e)) syscalls = []. Proof. by_vm. Qed.
Lemma syscall_fwd_ok : filter (fun e => negb (syscall_fwd_okb e)) syscalls_flat = []. Proof. by_vm. Qed.
Lemma syscall_rev_ok : filter (fun e => negb (syscall_rev_okb e)) rsyscalls_flat = []. Proof. by_vm. Qed.
Lemma syscall_arches_ok : syscall_arches_agree = true. Proof. by_vm. Qed.
Lemma ops_fwd_ok : filter (fun e => negb (ops_fwd_okb e)) operators_table = []. Proof. by_vm. Qed.
Lemma ops_rev_ok : filter (fun e => negb (ops_rev_okb e)) reverse_operators_table = []. Proof. by_vm. Qed.
Lemma fields_fwd_ok : filter (fun e => negb (fields_fwd_okb e)) fields_table = []. Proof. by_vm. Qed.
Lemma fields_rev_ok : filter (fun e => negb (fields_rev_okb e)) reverse_fields_table = []. Proof. by_vm. Qed.
Lemma comparisons_sym_ok : filter (fun e => negb (comparison_sym_okb e)) comparisons_flat = []. Proof. by_vm. Qed.
Lemma comparisons_rev_missing_ok : filter (fun e => negb (comparison_has_rev_okb e)) comparisons_flat = []. Proof. by_vm. Qed.
Lemma comparisons_rev_ok : filter (fun e => negb (comparison_rev_okb e)) reverse_comparisons_table = []. Proof. by_vm. Qed.
Lemma comparison_fields_ok : filter (fun f => negb (field_nameable_okb f)) comparison_operands = []. Proof. by_vm. Qed.
Lemma norm_syscalls_nodup_ok : norm_syscalls_nodup = true. Proof. by_vm. Qed.
Lemma norm_record_types_nodup_ok : norm_record_types_nodup = true. Proof. by_vm. Qed.
Lemma norm_has_fields_ok : filter (fun e => negb (norm_has_fields_okb e)) norm_record_types = []. Proof. by_vm. Qed.
Lemma event_types_total_ok : event_types_total = true. Proof. by_vm. Qed.
Lemma event_types_repeatable_ok : event_types_repeatable = true. Proof. by_vm. Qed.
