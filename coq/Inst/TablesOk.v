(* Finite obligations of C20 over the generated tables other than the 65536-type sweeps. *)
From Coq Require Import List NArith ZArith Bool String.
Require Import Bytes Tables.
Lemma errno_names_ok : bad_errno_names = nil. Proof. vm_compute. reflexivity. Qed.
Lemma errno_nums_ok : bad_errno_nums = nil. Proof. vm_compute. reflexivity. Qed.
Lemma arch_nodup_ok : arch_names_nodup = true. Proof. vm_compute. reflexivity. Qed.
Lemma arch_fwd_ok : bad_arch_fwd = nil. Proof. vm_compute. reflexivity. Qed.
Lemma arch_rev_ok : bad_arch_rev = nil. Proof. vm_compute. reflexivity. Qed.
Lemma syscall_dups_ok : bad_syscall_dups = nil. Proof. vm_compute. reflexivity. Qed.
Lemma syscall_fwd_ok : bad_syscall_fwd = nil. Proof. vm_compute. reflexivity. Qed.
Lemma syscall_rev_ok : bad_syscall_rev = nil. Proof. vm_compute. reflexivity. Qed.
Lemma syscall_arches_ok : syscall_arches_agree = true. Proof. vm_compute. reflexivity. Qed.
Lemma ops_fwd_ok : bad_ops_fwd = nil. Proof. vm_compute. reflexivity. Qed.
Lemma ops_rev_ok : bad_ops_rev = nil. Proof. vm_compute. reflexivity. Qed.
Lemma fields_fwd_ok : bad_fields_fwd = nil. Proof. vm_compute. reflexivity. Qed.
Lemma fields_rev_ok : bad_fields_rev = nil. Proof. vm_compute. reflexivity. Qed.
Lemma comparisons_sym_ok : bad_comparisons_sym = nil. Proof. vm_compute. reflexivity. Qed.
Lemma comparisons_rev_missing_ok : bad_comparisons_rev_missing = nil. Proof. vm_compute. reflexivity. Qed.
Lemma comparisons_rev_ok : bad_comparisons_rev = nil. Proof. vm_compute. reflexivity. Qed.
Lemma comparison_fields_ok : bad_comparison_fields = nil. Proof. vm_compute. reflexivity. Qed.
Lemma norm_syscalls_nodup_ok : norm_syscalls_nodup = true. Proof. vm_compute. reflexivity. Qed.
Lemma norm_record_types_nodup_ok : norm_record_types_nodup = true. Proof. vm_compute. reflexivity. Qed.
Lemma norm_has_fields_ok : bad_norm_has_fields = nil. Proof. vm_compute. reflexivity. Qed.
Lemma event_types_total_ok : event_types_total = true. Proof. vm_compute. reflexivity. Qed.
Lemma event_types_repeatable_ok : event_types_repeatable = true. Proof. vm_compute. reflexivity. Qed.
