(* Finite obligation (exhaustive over all 65536 record types, by evaluation):
   UnmarshalText (MarshalText t) = t. *)
From Coq Require Import List NArith Bool.
Require Import Bytes MsgType.
Import ListNotations.
Lemma msgtypes_text_ok : filter (fun t => negb (msgtype_text_okb t)) all_types = [].
Proof. by_vm. Qed.
