(* Finite obligation (exhaustive over all 65536 record types, by evaluation):
   UnmarshalText (MarshalText t) = t. *)
From Coq Require Import List NArith Bool.
Require Import Bytes Tables.
Definition bad_msgtypes_text : list N := filter (fun t => negb (optN_eqb (unmarshal_type (marshal_type t)) t)) (upto 65536).
Lemma msgtypes_text_ok : bad_msgtypes_text = nil.
Proof. vm_compute. reflexivity. Qed.
