(* Finite obligation (exhaustive over all 65536 record types, by evaluation):
   GetAuditMessageType (String t) = t. *)
From Coq Require Import List NArith Bool.
Require Import Bytes Tables.
Definition bad_msgtypes_fwd : list N := filter (fun t => negb (optN_eqb (get_type (type_name t)) t)) (upto 65536).
Lemma msgtypes_fwd_ok : bad_msgtypes_fwd = nil.
Proof. vm_compute. reflexivity. Qed.
