(* Finite obligation (exhaustive over all 65536 record types, by evaluation):
   GetAuditMessageType (String t) = t. *)
From Coq Require Import List NArith Bool.
Require Import Bytes MsgType.
Import ListNotations.
Lemma msgtypes_fwd_ok : filter (fun t => negb (msgtype_fwd_okb t)) all_types = [].
Proof. by_vm. Qed.
