(* Finite obligations of C06 over the generated rule tables and layout: every
   field / operator code equals the UAPI constant for the name, and the compiled
   struct auditRuleHeader has the UAPI layout. *)
From Coq Require Import List NArith ZArith Bool String.
Require Import Bytes RuleTables Tables UapiRule.
Import ListNotations.
Open Scope N_scope.
Definition optN_is (a : option N) (b : N) : bool := match a with Some x => x =? b | None => false end.
Definition field_uapi_okb (e : string * N) : bool := optN_is (lookupS (s2l (fst e)) uapi_fields) (snd e).
Definition op_uapi_okb (e : string * N) : bool := optN_is (lookupS (s2l (fst e)) uapi_operators) (snd e).
Definition uapi_field_known_okb (e : string * N) : bool := optN_is (lookupS (s2l (fst e)) fields_table) (snd e).
Lemma fields_uapi_ok : filter (fun e => negb (field_uapi_okb e)) fields_table = []. Proof. by_vm. Qed.
Lemma ops_uapi_ok : filter (fun e => negb (op_uapi_okb e)) operators_table = []. Proof. by_vm. Qed.
Lemma uapi_fields_known_ok : filter (fun e => negb (uapi_field_known_okb e)) uapi_fields = []. Proof. by_vm. Qed.
Lemma rule_layout_ok :
  (rule_header_size, off_flags, off_action, off_field_count, off_mask, off_fields, off_values, off_fieldflags, off_buflen,
   mask_words, max_fields, max_key_length, path_max, key_separator)
  = (1040, 0, 4, 8, 12, 268, 524, 780, 1036, UAPI_AUDIT_BITMASK_SIZE, UAPI_AUDIT_MAX_FIELDS, 256, 4096, 1).
Proof. by_vm. Qed.
