(* Inst/RuleSwitchesOk.v — the case lists the translator reads from rule/rule.go agree with one another and
   with the model: Build, the decoder and the printer treat the same fields as string-valued and as
   uid / gid valued, and the exclude list admits exactly the fields the model admits. *)
From Coq Require Import List NArith Bool String.
Import ListNotations.
Require Import Bytes RuleTables RuleSwitches RuleDecode RuleEncode.
Open Scope N_scope.

Definition same_set (a b : list N) : bool := forallb (fun x => existsb (N.eqb x) b) a && forallb (fun x => existsb (N.eqb x) a) b.
Definition switch_lists_okb : bool :=
  same_set sw_string_fields_build sw_string_fields_decode && same_set sw_string_fields_print sw_string_fields_decode &&
  same_set sw_uid_fields_build sw_uid_fields_print && same_set sw_gid_fields_build sw_gid_fields_print &&
  same_set sw_exclude_ok (flat_map (fun nm => match lookupS (s2l nm) fields_table with Some c => [c] | None => [] end) exclude_ok) &&
  Nat.eqb (List.length exclude_ok) (List.length sw_exclude_ok) &&
  same_set sw_exit_only (flat_map (fun nm => match lookupS (s2l nm) fields_table with Some c => [c] | None => [] end) exit_only) &&
  Nat.eqb (List.length exit_only) (List.length sw_exit_only).
Lemma switch_lists_ok : switch_lists_okb = true. Proof. by_vm. Qed.
