(* Diag/C20.v — evaluated only when a finite obligation of C20 stops checking:
   prints the offending entries of every obligation (first few). *)
From Coq Require Import List NArith ZArith String Bool.
Require Import Bytes Tables.
Import ListNotations.
Definition D_errno_names := Eval vm_compute in firstn 5 bad_errno_names. Print D_errno_names.
Definition D_errno_nums := Eval vm_compute in firstn 5 bad_errno_nums. Print D_errno_nums.
Definition D_arch_nodup := Eval vm_compute in arch_names_nodup. Print D_arch_nodup.
Definition D_arch_fwd := Eval vm_compute in firstn 5 bad_arch_fwd. Print D_arch_fwd.
Definition D_arch_rev := Eval vm_compute in firstn 5 bad_arch_rev. Print D_arch_rev.
Definition D_syscall_dups := Eval vm_compute in map (fun e => (fst e, dup_names (snd e))) bad_syscall_dups. Print D_syscall_dups.
Definition D_syscall_fwd := Eval vm_compute in firstn 5 bad_syscall_fwd. Print D_syscall_fwd.
Definition D_syscall_rev := Eval vm_compute in firstn 5 bad_syscall_rev. Print D_syscall_rev.
Definition D_syscall_arches := Eval vm_compute in syscall_arches_agree. Print D_syscall_arches.
Definition D_ops_fwd := Eval vm_compute in firstn 5 bad_ops_fwd. Print D_ops_fwd.
Definition D_ops_rev := Eval vm_compute in firstn 5 bad_ops_rev. Print D_ops_rev.
Definition D_fields_fwd := Eval vm_compute in firstn 5 bad_fields_fwd. Print D_fields_fwd.
Definition D_fields_rev := Eval vm_compute in firstn 5 bad_fields_rev. Print D_fields_rev.
Definition D_comparisons_sym := Eval vm_compute in firstn 5 bad_comparisons_sym. Print D_comparisons_sym.
Definition D_comparisons_rev_missing := Eval vm_compute in firstn 5 bad_comparisons_rev_missing. Print D_comparisons_rev_missing.
Definition D_comparisons_rev := Eval vm_compute in firstn 5 bad_comparisons_rev. Print D_comparisons_rev.
Definition D_comparison_fields := Eval vm_compute in firstn 5 bad_comparison_fields. Print D_comparison_fields.
Definition D_norm_record_types := Eval vm_compute in firstn 5 bad_norm_record_types. Print D_norm_record_types.
Definition D_norm_syscalls := Eval vm_compute in firstn 5 bad_norm_syscalls. Print D_norm_syscalls.
Definition D_norm_syscalls_nodup := Eval vm_compute in norm_syscalls_nodup. Print D_norm_syscalls_nodup.
Definition D_norm_record_types_nodup := Eval vm_compute in norm_record_types_nodup. Print D_norm_record_types_nodup.
Definition D_norm_has_fields := Eval vm_compute in map fst bad_norm_has_fields. Print D_norm_has_fields.
Definition D_event_types_total := Eval vm_compute in event_types_total. Print D_event_types_total.
Definition D_event_types_repeatable := Eval vm_compute in event_types_repeatable. Print D_event_types_repeatable.
