From Coq Require Import List ZArith Bool Lia Permutation.
Import ListNotations.
Open Scope Z_scope.

Definition maxSortRange : Z := 2^24 - 1.
Definition less (a b : Z) : bool := if Z.abs (a - b) >? maxSortRange then a >? b else a <? b.
Definition AUDIT_EOE := 1320. Definition AUDIT_PROCTITLE := 1327.
Definition AUDIT_LAST_DAEMON := 1299. Definition AUDIT_ANOM_LOGIN_FAILURES := 2100.
Definition completes (ty : Z) : bool :=
  (ty =? AUDIT_PROCTITLE) || (ty <=? AUDIT_LAST_DAEMON) || (ty >=? AUDIT_ANOM_LOGIN_FAILURES).

Record msg := { mid : Z; mseq : Z; mty : Z }.
Record event := { expire : Z; msgs : list msg; complete : bool }.
Definition emap := list (Z * event).
Fixpoint lookup (k : Z) (m : emap) : option event :=
  match m with [] => None | (k', e) :: r => if k =? k' then Some e else lookup k r end.
Fixpoint remove (k : Z) (m : emap) : emap :=
  match m with [] => [] | (k', e) :: r => if k =? k' then remove k r else (k', e) :: remove k r end.
Definition update (k : Z) (e : event) (m : emap) : emap := (k, e) :: remove k m.

Fixpoint insert_back (rev_prefix : list Z) (x : Z) : list Z :=
  match rev_prefix with
  | [] => [x]
  | p :: r => if less x p then p :: insert_back r x else x :: rev_prefix
  end.
Definition sort_append (l : list Z) (x : Z) : list Z := rev (insert_back (rev l) x).

Record state := { seqs : list Z; events : emap; lastSeq : Z; hasLast : bool; closed : bool }.
Record config := { maxSize : Z; timeout : Z }.
Definition init : state := {| seqs := []; events := []; lastSeq := 0; hasLast := false; closed := false |}.
Definition set_list (s : state) sq em := {| seqs := sq; events := em; lastSeq := lastSeq s; hasLast := hasLast s; closed := closed s |}.

Definition put (c : config) (now : Z) (m : msg) (s : state) : state :=
  let sq := mseq m in
  match lookup sq (events s) with
  | Some e =>
      if mty m =? AUDIT_EOE
      then set_list s (seqs s) (update sq {| expire := expire e; msgs := msgs e; complete := true |} (events s))
      else set_list s (seqs s) (update sq {| expire := expire e; msgs := msgs e ++ [m]; complete := complete e || completes (mty m) |} (events s))
  | None =>
      if mty m =? AUDIT_EOE then s
      else set_list s (sort_append (seqs s) sq) (update sq {| expire := now + timeout c; msgs := [m]; complete := completes (mty m) |} (events s))
  end.

Definition w32 (z : Z) : Z := z mod 2^32.
Definition advance (last : Z) (has : bool) (sq : Z) : Z * Z * bool :=
  if negb has then (0, sq, true)
  else let d := w32 (sq - last) in
       if (d =? 0) || (d >=? 2^31) then (0, last, true) else (d - 1, sq, true).

Inductive out := Complete (ms : list msg) | Lost (n : Z) | Ret (ok : bool) | Panic.

Fixpoint evict (force : bool) (c : config) (now : Z) (sqs : list Z) (em : emap) (last : Z) (has : bool)
  : list Z * emap * Z * bool * list out * Z :=
  match sqs with
  | [] => ([], em, last, has, [], 0)
  | sq :: rest =>
      match lookup sq em with
      | None => (sqs, em, last, has, [Panic], 0)
      | Some e =>
          if force || complete e || (Z.of_nat (length sqs) >? maxSize c) || (now >? expire e)
          then let '(d, last', has') := advance last has sq in
               let '(sqs', em', last'', has'', outs, lost) := evict force c now rest (remove sq em) last' has' in
               (sqs', em', last'', has'', Complete (msgs e) :: outs, d + lost)
          else (sqs, em, last, has, [], 0)
      end
  end.

Definition cleanup (force : bool) (c : config) (now : Z) (s : state) : state * list out :=
  let '(sqs, em, last, has, outs, lost) := evict force c now (seqs s) (events s) (lastSeq s) (hasLast s) in
  ({| seqs := sqs; events := em; lastSeq := last; hasLast := has; closed := closed s |},
   outs ++ (if lost >? 0 then [Lost lost] else [])).

(* Push carries the two clock readings of one PushMessage call: the one Put takes
   for the expiry of a newly opened event, and the one CleanUp's IsExpired takes. *)
Inductive op := Push (m : option msg) (tput tclean : Z) | Maintain (now : Z) | Close.

Definition step (c : config) (s : state) (o : op) : state * list out :=
  match o with
  | Push None _ _ => (s, [])
  | Push (Some m) tput tclean => cleanup false c tclean (put c tput m s)
  | Maintain now => if closed s then (s, [Ret false]) else let '(s', o) := cleanup false c now s in (s', o ++ [Ret true])
  | Close => if closed s then (s, [Ret false])
             else let '(s', o) := cleanup true c 0 {| seqs := seqs s; events := events s; lastSeq := lastSeq s; hasLast := hasLast s; closed := true |} in (s', o ++ [Ret true])
  end.

Fixpoint run (c : config) (s : state) (ops : list op) : list (list out) :=
  match ops with [] => [] | o :: r => let '(s', outs) := step c s o in outs :: run c s' r end.

(* ---- trace checker for C01 ---- *)
Definition msg_eqb (a b : msg) := (mid a =? mid b) && (mseq a =? mseq b) && (mty a =? mty b).
Fixpoint list_eqb (a b : list msg) := match a, b with [] , [] => true | x :: a', y :: b' => msg_eqb x y && list_eqb a' b' | _, _ => false end.
Definition sameseq (k : Z) (m : msg) := mseq m =? k.
Fixpoint chk_outs (U : list msg) (outs : list out) : option (list msg) :=
  match outs with
  | [] => Some U
  | Complete g :: r =>
      match g with
      | [] => None
      | m0 :: _ => if list_eqb g (filter (sameseq (mseq m0)) U)
                   then chk_outs (filter (fun m => negb (sameseq (mseq m0) m)) U) r else None
      end
  | Panic :: _ => None
  | _ :: r => chk_outs U r
  end.
Definition pushU (U : list msg) (o : op) :=
  match o with Push (Some m) _ _ => if mty m =? AUDIT_EOE then U else U ++ [m] | _ => U end.
Fixpoint chk_C01 (U : list msg) (ops : list op) (tr : list (list out)) : bool :=
  match ops, tr with
  | [], [] => true
  | o :: ops', outs :: tr' =>
      match chk_outs (pushU U o) outs with
      | None => false
      | Some U2 => match o with
                   | Close => (if existsb (fun x => match x with Ret true => true | _ => false end) outs
                               then match U2 with [] => true | _ => false end else true) && chk_C01 U2 ops' tr'
                   | _ => chk_C01 U2 ops' tr' end
      end
  | _, _ => false
  end.
