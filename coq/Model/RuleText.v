(* Model/RuleText.v — rule.ToCommandLine (resolveIds = false): decoded wire data -> auditctl text.
   Follows rule.go: watch detection (isWatch), "-a action,list", the arch display rule
   (getDisplayArch / getRuntimeArch over the generated arch table and runtime_goarch),
   the syscall list printed after the last arch filter, and the per-field printers.
   None = ToCommandLine returns an error. *)
From Coq Require Import List Ascii String Arith NArith ZArith Bool Lia.
Import ListNotations.
Require Import Bytes Dec Mach RuleTables RuleSwitches Arch Errno Syscalls MsgType RuleDecode Flags.
Local Open Scope string_scope.
Local Open Scope list_scope.
Open Scope N_scope.

Definition mem_s (a : string) (l : list string) : bool := existsb (String.eqb a) l.

Fixpoint join_with (sep : str) (l : list str) : str :=
  match l with [] => [] | [x] => x | x :: r => x ++ sep ++ join_with sep r end.

Definition list_name (f : N) : option string :=
  if f =? 4 then Some "exit" else if f =? 1 then Some "task" else if f =? 0 then Some "user" else if f =? 5 then Some "exclude" else None.
Definition action_name (a : N) : option string :=
  if a =? 2 then Some "always" else if a =? 0 then Some "never" else None.

(* fromAuditRuleData: allSyscalls looks at the first 63 words only *)
Definition all_syscalls (m : list N) : bool := forallb (N.eqb 4294967295) (firstn 63 m).
Fixpoint bits_of (w : N) (word : N) (b : nat) (fuel : nat) : list N :=
  match fuel with
  | O => []
  | S k => (if N.testbit w (N.of_nat b) then [word * 32 + N.of_nat b] else []) ++ bits_of w word (S b) k
  end.
Fixpoint syscalls_of (m : list N) (word : N) : list N :=
  match m with [] => [] | w :: r => bits_of w word 0 32 ++ syscalls_of r (word + 1) end.

(* strconv.Itoa(int(int32(v))) *)
Definition dec_i32 (v : N) : str := if v <? 2147483648 then dec v else "-"%char :: dec (4294967296 - v).
Definition perm_string (v : N) : str :=
  (if N.testbit v 2 then ["r"%char] else []) ++ (if N.testbit v 1 then ["w"%char] else []) ++
  (if N.testbit v 0 then ["x"%char] else []) ++ (if N.testbit v 3 then ["a"%char] else []).

Definition runtime_arch : option string :=
  if String.eqb runtime_goarch "arm" then Some "arm" else if String.eqb runtime_goarch "arm64" then Some "aarch64"
  else if String.eqb runtime_goarch "386" then Some "i386" else if String.eqb runtime_goarch "amd64" then Some "x86_64"
  else if String.eqb runtime_goarch "ppc64" || String.eqb runtime_goarch "ppc64le" || String.eqb runtime_goarch "ppc" then Some runtime_goarch
  else if String.eqb runtime_goarch "s390" then Some "s390" else if String.eqb runtime_goarch "s390x" then Some "s390x" else None.

Definition display_arch (a : N) : option str :=
  match runtime_arch with
  | None => None
  | Some rs =>
      match lookupS (s2l rs) reverse_arch with
      | None => None
      | Some ra =>
          let is64 := existsb (N.eqb a) [AUDIT_ARCH_AARCH64; AUDIT_ARCH_X86_64; AUDIT_ARCH_PPC64; AUDIT_ARCH_S390X] in
          let is32 := existsb (N.eqb a) [AUDIT_ARCH_ARM; AUDIT_ARCH_I386; AUDIT_ARCH_PPC; AUDIT_ARCH_S390] in
          if (a =? ra) && is64 then Some (s2l "b64")
          else if (a =? ra) && is32 then Some (s2l "b32")
          else if negb (a =? ra) && (((ra =? AUDIT_ARCH_AARCH64) && (a =? AUDIT_ARCH_ARM)) || ((ra =? AUDIT_ARCH_X86_64) && (a =? AUDIT_ARCH_I386))
                   || ((ra =? AUDIT_ARCH_PPC64) && (a =? AUDIT_ARCH_PPC)) || ((ra =? AUDIT_ARCH_S390X) && (a =? AUDIT_ARCH_S390)))
          then Some (s2l "b32")
          else option_map s2l (lookupN a arch_names)
      end
  end.

Definition arch32_of (rs : string) : option string :=
  if mem_s rs ["i386"; "arm"; "ppc"; "s390"] then Some rs
  else if String.eqb rs "aarch64" then Some "arm" else if String.eqb rs "x86_64" then Some "i386"
  else if String.eqb rs "ppc64" || String.eqb rs "ppc64le" then Some "ppc" else if String.eqb rs "s390x" then Some "s390" else None.

Definition sc_table (arch : str) : list (Z * string) :=
  match lookupS arch syscalls with Some t => t | None => [] end.
Definition syscall_text (t : list (Z * string)) (n : N) : str :=
  match lookupZ (Z.of_N n) t with Some s => s2l s | None => dec n end.

(* the architecture whose syscall table names the numbers: that of the last arch filter as displayed, else the runtime's *)
Definition printer_arch (rarch : str) : option str :=
  match runtime_arch with
  | None => None
  | Some rs =>
      if str_eqb_s rarch "b32" then option_map s2l (arch32_of rs)
      else if negb (List.length rarch =? 0)%nat && negb (str_eqb_s rarch "b64") then Some rarch else Some (s2l rs)
  end.

(* the "-S ..." arguments; rarch = display name of the last arch filter, [] when there is none *)
Definition syscall_args (fl : N) (m : list N) (rarch : str) : option (list fitem) :=
  if all_syscalls m then Some (if (fl =? 4) || (fl =? 2) then [FFlag "S" (s2l "all")] else [])
  else match syscalls_of m 0 with
       | [] => Some []
       | ns =>
           match printer_arch rarch with
           | None => None
           | Some arch => Some [FFlag "S" (join_with [","%char] (map (syscall_text (sc_table arch)) ns))]
           end
       end.

(* filepath.Clean on a rooted Unix path: empty and "." components vanish, ".." removes the component before it (none at the root) *)
Fixpoint split_slash (s : str) (cur : str) : list str :=
  match s with
  | [] => [rev cur]
  | c :: r => if Ascii.eqb c "/"%char then rev cur :: split_slash r [] else split_slash r (c :: cur)
  end.
Definition clean_step (stack : list str) (comp : str) : list str :=          (* stack is reversed *)
  match comp with
  | [] => stack
  | _ => if str_eqb_s comp "." then stack else if str_eqb_s comp ".." then tl stack else comp :: stack
  end.
Definition clean_rooted (p : str) : str := "/"%char :: join_with ["/"%char] (rev (fold_left clean_step (split_slash p []) [])).
Definition is_abs (p : str) : bool := match p with c :: _ => Ascii.eqb c "/"%char | [] => false end.
Definition clean_abs_path (p : str) : bool := is_abs p && str_eqb (clean_rooted p) p.

Definition is_watch (fl act : N) (r : rdata) : bool :=
  (fl =? 4) && (act =? 2) &&
  match r_fields r with
  | [(f0, o0, _); (f1, o1, _)] =>
      (o0 =? 1073741824) && (o1 =? 1073741824) && ((f0 =? 105) || (f0 =? 107)) && (f1 =? 106) && negb (List.length (r_strings r) =? 0)%nat &&
      clean_abs_path (nth 0 (r_strings r) [])
  | [(f0, o0, _); (f1, o1, _); (f2, o2, _)] =>
      (o0 =? 1073741824) && (o1 =? 1073741824) && (o2 =? 1073741824) && ((f0 =? 105) || (f0 =? 107)) && (f1 =? 106) && negb (List.length (r_strings r) =? 0)%nat &&
      clean_abs_path (nth 0 (r_strings r) []) && (f2 =? 210) && (2 <=? List.length (r_strings r))%nat && negb (existsb (Ascii.eqb ","%char) (nth 1 (r_strings r) []))
  | _ => false
  end.
(* operator code 0x40000000 = AUDIT_EQUAL is the value of equalOperator; the generated table pins it *)
Definition equal_operator_ok : bool := match lookupS (s2l "=") operators_table with Some c => c =? 1073741824 | None => false end.

(* value of existingFields[f]: index of the LAST occurrence *)
Fixpoint last_index (f : N) (l : list (N * N * N)) (i : nat) (acc : option nat) : option nat :=
  match l with [] => acc | (f', _, _) :: r => last_index f r (S i) (if f' =? f then Some i else acc) end.

(* what is printed after the operator for a field that carries a number *)
(* the uid / gid case lists of ToCommandLine's switch, read from the source by the translator *)
Definition uid_fields : list N := sw_uid_fields_print.
Definition gid_fields : list N := sw_gid_fields_print.
Definition print_value (f v : N) : option str :=
  if f =? 11 then display_arch v
  else if f =? 103 then
    let code := if v <? 2147483648 then Z.of_N v else (Z.of_N v - 4294967296)%Z in
    Some (match lookupZ (- code)%Z errno_to_name with Some nm => "-"%char :: s2l nm | None => dec_i32 v end)
  else if existsb (N.eqb f) uid_fields || existsb (N.eqb f) gid_fields then Some (dec_i32 v)
  else if f =? 12 then Some (if v <=? 65535 then type_name v else dec v)
  else if f =? 106 then Some (perm_string v)
  else Some (dec v).

(* one field / operator / value triple as a flag item; sv is the string of a string-valued field *)
Definition print_triple (t : N * N * N) (sv : str) : option fitem :=
  let '(f, o, v) := t in
  match lookupN o reverse_operators_table with
  | None => None
  | Some ops =>
      let op := s2l ops in
      if f =? 11 then match display_arch v with Some d => Some (FFlag "F" (s2l "arch" ++ op ++ d)) | None => None end
      else if f =? 111 then
        match lookupN v reverse_comparisons_table with
        | None => None
        | Some (a, b) =>
            let '(a, b) := if b <? a then (b, a) else (a, b) in
            match lookupN a reverse_fields_table, lookupN b reverse_fields_table with
            | Some an, Some bn => Some (FFlag "C" (s2l an ++ op ++ s2l bn))
            | _, _ => None
            end
        end
      else
        match lookupN f reverse_fields_table with
        | None => None
        | Some lhs =>
            if is_string_field f then Some (FFlag "F" (s2l lhs ++ op ++ sv))
            else match print_value f v with Some rhs => Some (FFlag "F" (s2l lhs ++ op ++ rhs)) | None => None end
        end
  end.

Fixpoint print_fields (l : list (N * N * N)) (idx : nat) (strings : list str) (last_arch : option nat) (sargs : list fitem) : option (list fitem) :=
  match l with
  | [] => Some []
  | (f, o, v) :: r =>
      match (if is_string_field f then match strings with sv :: st => Some (sv, st) | [] => None end else Some ([], strings)) with
      | None => None
      | Some (sv, st) =>
          match print_triple (f, o, v) sv, print_fields r (S idx) st last_arch sargs with
          | Some it, Some rest =>
              Some (it :: (if (f =? 11) && match last_arch with Some la => (la =? idx)%nat | None => false end then sargs else []) ++ rest)
          | _, _ => None
          end
      end
  end.

(* the line as flag items; the text joins their canonical rendering ("-x value") with blanks *)
(* the -w form, for a rule that has exactly the shape a file watch is built into *)
Definition watch_items (fl act : N) (m : list N) (fields : list (N * N * N)) (strings : list str) : option (list fitem) :=
  match last_index 106 fields 0 None with
  | Some pidx =>
      if all_syscalls m && is_watch fl act {| r_fields := fields; r_strings := strings |} then
        let path := nth 0 strings [] in
        let key := match fields with [_; _; _] => nth 1 strings [] | _ => [] end in
        let pv := match nth_error fields pidx with Some (_, _, v) => v | None => 0 end in
        Some ([FFlag "w" path; FFlag "p" (perm_string pv)] ++ match key with [] => [] | _ => [FFlag "k" key] end)
      else None
  | None => None
  end.

(* the -a form: "-a action,list", the syscalls after the last arch filter (or first when there is none), the fields in order *)
Definition syscall_items (ln an : string) (fl : N) (m : list N) (fields : list (N * N * N)) (strings : list str) : option (list fitem) :=
  let last_arch := last_index 11 fields 0 None in
  match (match last_arch with
         | Some la => match nth_error fields la with Some (_, _, v) => display_arch v | None => None end
         | None => Some [] end) with
  | None => None
  | Some rarch =>
      match syscall_args fl m rarch with
      | None => None
      | Some sargs =>
          match print_fields fields 0 strings last_arch sargs with
          | None => None
          | Some fs => Some (FFlag "a" (s2l an ++ ","%char :: s2l ln) :: (match last_arch with None => sargs | Some _ => [] end) ++ fs)
          end
      end
  end.

Definition cmd_items (fl act : N) (m : list N) (fields : list (N * N * N)) (strings : list str) : option (list fitem) :=
  match list_name fl, action_name act with
  | Some ln, Some an =>
      match watch_items fl act m fields strings with
      | Some t => Some t
      | None => syscall_items ln an fl m fields strings
      end
  | _, _ => None
  end.

Definition text_of_items (its : list fitem) : str := join_with [" "%char] (flat_map render_item its).
Definition to_command_line (h : hdr) (r : rdata) : option str :=
  option_map text_of_items (cmd_items (flags h) (action h) (mask h) (r_fields r) (r_strings r)).

Definition text_of_wire (b : str) : option str :=
  match from_wire b with
  | Ok (h, buf) => match from_audit_rule_data h buf with Ok rd => to_command_line h rd | _ => None end
  | _ => None
  end.
