(* Model/Flags.v — rule/flags.Parse after shell splitting: Go's flag.FlagSet syntax
   over the nine flags of the package, the Set method of each flag type, and
   validate.  Two readings are defined: [flags_parse] works on the tokens as the
   flag package does; [expected_of_items] is the declarative reading of a line
   given as a list of items (flag and value, stray word, terminator). *)
From Coq Require Import List Ascii String Bool Arith Lia.
Import ListNotations.
Require Import KV Trim FilterRe.
Local Open Scope string_scope.
Local Open Scope list_scope.

Definition str := list ascii.
Definition l (x : string) : str := list_ascii_of_string x.
Fixpoint beq (a b : str) : bool :=
  match a, b with [], [] => true | x :: a', y :: b' => Ascii.eqb x y && beq a' b' | _, _ => false end.
Definition is (a : str) (b : string) : bool := beq a (l b).

(* ---- the values ---- *)
Fixpoint split_on (c : ascii) (s : str) (cur : str) : list str :=
  match s with
  | [] => [rev cur]
  | x :: r => if Ascii.eqb x c then rev cur :: split_on c r [] else split_on c r (x :: cur)
  end.
Definition split_comma (s : str) : list str := split_on ","%char s [].

(* model of  ^(\w+)\s*(!?=)(\w+)$  *)
Definition scan_compare (v : str) : option (str * str * str) :=
  let (w, r1) := span is_word v in
  match w with
  | [] => None
  | _ => let (_, r2) := span is_blank r1 in
         let '(o, r3) := match r2 with
                         | "!"%char :: "="%char :: r => (l "!=", r)
                         | "="%char :: r => (l "=", r)
                         | _ => ([], [])
                         end in
         match o, r3 with
         | [], _ => None
         | _, [] => None
         | _, _ => if forallb is_word r3 then Some (w, o, r3) else None
         end
  end.

Record parsed := { p_del : bool; p_append : option (str * str); p_prepend : option (str * str);
                   p_filters : list (bool * str * str * str);   (* true = -C *)
                   p_syscalls : list str; p_path : option str; p_perms : str; p_keys : list str;
                   p_seen : list string }.                      (* flags that were set, as flag.Visit reports them *)
Definition p0 : parsed := {| p_del := false; p_append := None; p_prepend := None; p_filters := []; p_syscalls := []; p_path := None;
                             p_perms := []; p_keys := []; p_seen := [] |}.

Definition parse_add (v : str) : option (str * str) :=
  let parts := map trim_space (split_comma v) in
  if (2 <? List.length parts)%nat then None else
  let step (acc : option (str * str)) (p : str) :=
      match acc with
      | None => None
      | Some (li, ac) =>
          if is p "task" || is p "exit" || is p "user" || is p "exclude" then Some (p, ac)
          else if is p "never" || is p "always" then Some (li, p) else None
      end in
  match fold_left step parts (Some ([], [])) with
  | Some (((_ :: _) as li), ((_ :: _) as ac)) => Some (li, ac)
  | _ => None
  end.

Definition is_perm (c : ascii) : bool := is [c] "r" || is [c] "w" || is [c] "x" || is [c] "a".

(* flag.Value.Set for one flag; None = error *)
Definition set_flag (p : parsed) (name : string) (v : str) : option parsed :=
  let seen := name :: p_seen p in
  if String.eqb name "a" then
    match p_append p, parse_add v with
    | None, Some la => Some {| p_del := p_del p; p_append := Some la; p_prepend := p_prepend p; p_filters := p_filters p; p_syscalls := p_syscalls p; p_path := p_path p; p_perms := p_perms p; p_keys := p_keys p; p_seen := seen |}
    | _, _ => None end
  else if String.eqb name "A" then
    match p_prepend p, parse_add v with
    | None, Some la => Some {| p_del := p_del p; p_append := p_append p; p_prepend := Some la; p_filters := p_filters p; p_syscalls := p_syscalls p; p_path := p_path p; p_perms := p_perms p; p_keys := p_keys p; p_seen := seen |}
    | _, _ => None end
  else if String.eqb name "F" then
    match scan_filter v with
    | Some (lh, o, rh) => Some {| p_del := p_del p; p_append := p_append p; p_prepend := p_prepend p; p_filters := p_filters p ++ [(false, lh, o, rh)]; p_syscalls := p_syscalls p; p_path := p_path p; p_perms := p_perms p; p_keys := p_keys p; p_seen := seen |}
    | None => None end
  else if String.eqb name "C" then
    match scan_compare v with
    | Some (lh, o, rh) => Some {| p_del := p_del p; p_append := p_append p; p_prepend := p_prepend p; p_filters := p_filters p ++ [(true, lh, o, rh)]; p_syscalls := p_syscalls p; p_path := p_path p; p_perms := p_perms p; p_keys := p_keys p; p_seen := seen |}
    | None => None end
  else if String.eqb name "S" then
    Some {| p_del := p_del p; p_append := p_append p; p_prepend := p_prepend p; p_filters := p_filters p; p_syscalls := p_syscalls p ++ map trim_space (split_comma v); p_path := p_path p; p_perms := p_perms p; p_keys := p_keys p; p_seen := seen |}
  else if String.eqb name "k" then
    Some {| p_del := p_del p; p_append := p_append p; p_prepend := p_prepend p; p_filters := p_filters p; p_syscalls := p_syscalls p; p_path := p_path p; p_perms := p_perms p; p_keys := p_keys p ++ map trim_space (split_comma v); p_seen := seen |}
  else if String.eqb name "p" then
    if forallb is_perm v then Some {| p_del := p_del p; p_append := p_append p; p_prepend := p_prepend p; p_filters := p_filters p; p_syscalls := p_syscalls p; p_path := p_path p; p_perms := p_perms p ++ v; p_keys := p_keys p; p_seen := seen |}
    else None
  else if String.eqb name "w" then
    match p_path p with
    | None => Some {| p_del := p_del p; p_append := p_append p; p_prepend := p_prepend p; p_filters := p_filters p; p_syscalls := p_syscalls p; p_path := Some v; p_perms := p_perms p; p_keys := p_keys p; p_seen := seen |}
    | Some _ => None end
  else None.
Definition set_del (p : parsed) (b : bool) : parsed :=
  {| p_del := b; p_append := p_append p; p_prepend := p_prepend p; p_filters := p_filters p; p_syscalls := p_syscalls p; p_path := p_path p; p_perms := p_perms p; p_keys := p_keys p; p_seen := "D" :: p_seen p |}.

(* ---- the result ---- *)
Inductive prule :=
| PDelete (keys : list str)
| PWatch (path perms : str) (keys : list str)
| PSyscall (prepend : bool) (lst act : str) (filters : list (bool * str * str * str)) (syscalls keys : list str).

Definition seen_any (p : parsed) (names : list string) : bool := existsb (fun n => existsb (String.eqb n) (p_seen p)) names.
Definition validate (p : parsed) : option prule :=
  let d := seen_any p ["D"] in let w := seen_any p ["w"; "p"] in let s := seen_any p ["a"; "A"; "C"; "F"; "S"] in
  match d, w, s with
  | true, false, false => Some (PDelete (p_keys p))
  | false, true, false => Some (PWatch (match p_path p with Some x => x | None => [] end) (p_perms p) (p_keys p))
  | false, false, true =>
      match p_append p, p_prepend p with
      | Some (li, ac), None => Some (PSyscall false li ac (p_filters p) (p_syscalls p) (p_keys p))
      | None, Some (li, ac) => Some (PSyscall true li ac (p_filters p) (p_syscalls p) (p_keys p))
      | _, _ => None
      end
  | _, _, _ => None
  end.

(* ---- declarative reading of a line given as items ---- *)
Inductive fitem := FFlag (name : string) (v : str) | FDel | FStray (w : str) | FTerm.
(* canonical rendering of a line's items: "-x value", "-D", "--" *)
Definition render_item (it : fitem) : list str :=
  match it with
  | FFlag n v => [l ("-" ++ n)%string; v]
  | FDel => [l "-D"]
  | FStray w => [w]
  | FTerm => [l "--"]
  end.
Fixpoint apply_items (p : parsed) (its : list fitem) : option parsed :=
  match its with
  | [] => Some p
  | FFlag n v :: r => match set_flag p n v with Some p' => apply_items p' r | None => None end
  | FDel :: r => apply_items (set_del p true) r
  | FStray _ :: _ => None                      (* a word that belongs to no flag: the line is rejected *)
  | FTerm :: [] => Some p
  | FTerm :: _ => None                         (* words after "--" belong to no flag *)
  end.
Definition expected_of_items (its : list fitem) : option prule :=
  match apply_items p0 its with Some p => validate p | None => None end.

(* ---- the flag package's reading of the tokens ---- *)
Definition parse_bool (v : str) : option bool :=
  if is v "1" || is v "t" || is v "T" || is v "TRUE" || is v "true" || is v "True" then Some true
  else if is v "0" || is v "f" || is v "F" || is v "FALSE" || is v "false" || is v "False" then Some false else None.
Fixpoint find_eq (s : str) (acc : str) : option (str * str) :=      (* first '=' : name before, value after *)
  match s with [] => None | c :: r => if Ascii.eqb c "="%char then Some (rev acc, r) else find_eq r (c :: acc) end.
Definition known (name : str) : option string :=
  find (fun n => is name n) ["a"; "A"; "C"; "F"; "S"; "k"; "p"; "w"].

Fixpoint parse_tokens (fuel : nat) (p : parsed) (args : list str) : option parsed :=
  match fuel with
  | O => None
  | S f =>
      match args with
      | [] => Some p
      | s :: rest =>
          match s with
          | "-"%char :: c :: tl =>
              let body := if Ascii.eqb c "-"%char then tl else c :: tl in
              if Ascii.eqb c "-"%char && match tl with [] => true | _ => false end
              then match rest with [] => Some p | _ => None end              (* "--": the rest is positional *)
              else match body with
                   | [] => None
                   | b0 :: _ =>
                       if Ascii.eqb b0 "-"%char || Ascii.eqb b0 "="%char then None     (* bad flag syntax *)
                       else
                         let '(name, hasv, v) := match body with
                                                 | n0 :: more => match find_eq more [n0] with Some (n, v) => (n, true, v) | None => (body, false, []) end
                                                 | [] => ([], false, []) end in
                         if is name "D" then
                           if hasv then match parse_bool v with Some b => parse_tokens f (set_del p b) rest | None => None end
                           else parse_tokens f (set_del p true) rest
                         else match known name with
                              | None => None
                              | Some n =>
                                  if hasv then match set_flag p n v with Some p' => parse_tokens f p' rest | None => None end
                                  else match rest with
                                       | v' :: rest' => match set_flag p n v' with Some p' => parse_tokens f p' rest' | None => None end
                                       | [] => None end
                              end
                   end
          | _ => None                                                        (* a non-flag word: positional argument left over *)
          end
      end
  end.
Definition flags_parse (toks : list str) : option prule :=
  match parse_tokens (S (List.length toks)) p0 toks with Some p => validate p | None => None end.
