(* Model/Tables.v — the name/number conversions of auparse, rule and aucoalesce
   over the generated tables (Gen/*.v), and the boolean checkers of the finite
   obligations of C20.  Each obligation is stated as "the list of offending
   entries is empty" so that a failing obligation can be evaluated to the
   entries that break it. *)
From Coq Require Import List Ascii String NArith ZArith Bool Lia.
Require Import Bytes.
Require Import MsgTypes Errno Arch Syscalls RuleTables Norms EventTypes.
Require Export MsgType.
Import ListNotations.
Local Open Scope string_scope.
Open Scope list_scope.
Open Scope N_scope.

(* C20 (b): errno tables *)
Definition errno_name (n : Z) : option string := lookupZ n errno_to_name.
Definition errno_num (s : str) : option Z := lookupS s errno_to_num.
Definition errno_name_okb (e : Z * string) : bool := optZ_eqb (errno_num (s2l (snd e))) (fst e).
Definition errno_num_okb (e : string * Z) : bool :=
  match errno_name (snd e) with
  | Some s' => optZ_eqb (errno_num (s2l s')) (snd e)
  | None => false end.
Definition bad_errno_names : list (Z * string) := filter (fun e => negb (errno_name_okb e)) errno_to_name.
Definition bad_errno_nums : list (string * Z) := filter (fun e => negb (errno_num_okb e)) errno_to_num.

(* C20 (c): architectures *)
Definition arch_name (c : N) : option string := lookupN c arch_names.
Definition arch_code (s : str) : option N := lookupS s reverse_arch.
Definition str_eqbS (a b : string) := String.eqb a b.
Definition arch_names_nodup : bool := nodupb str_eqbS (map snd arch_names) && nodupb N.eqb (map fst arch_names).
Definition arch_fwd_okb (e : N * string) : bool := optN_eqb (arch_code (s2l (snd e))) (fst e).
Definition arch_rev_okb (e : string * N) : bool := optS_eqb (arch_name (snd e)) (fst e).
Definition bad_arch_fwd : list (N * string) := filter (fun e => negb (arch_fwd_okb e)) arch_names.
Definition bad_arch_rev : list (string * N) := filter (fun e => negb (arch_rev_okb e)) reverse_arch.

(* C20 (d): per-architecture syscall tables and the rule package's reverse tables *)
Definition syscall_table (a : str) : option (list (Z * string)) := lookupS a syscalls.
Definition rsyscall_table (a : str) : option (list (string * Z)) := lookupS a reverse_syscalls.
Definition syscall_name (a : str) (n : Z) : option string :=
  match syscall_table a with Some t => lookupZ n t | None => None end.
Definition syscall_num (a : str) (s : str) : option Z :=
  match rsyscall_table a with Some t => lookupS s t | None => None end.
Definition dup_names (t : list (Z * string)) : list string :=
  let fix go (l : list string) := match l with [] => [] | x :: r => if existsb (str_eqbS x) r then x :: go r else go r end in
  go (map snd t).
Definition syscall_nodup_okb (e : string * list (Z * string)) : bool := nodupb str_eqbS (map snd (snd e)).
Definition bad_syscall_dups : list (string * list (Z * string)) := filter (fun e => negb (syscall_nodup_okb e)) syscalls.
(* flattened (arch, entry) lists so that the obligations are plain filters *)
Definition syscalls_flat : list (string * (Z * string)) := flat_map (fun e => map (fun x => (fst e, x)) (snd e)) syscalls.
Definition rsyscalls_flat : list (string * (string * Z)) := flat_map (fun e => map (fun x => (fst e, x)) (snd e)) reverse_syscalls.
Definition syscall_fwd_okb (e : string * (Z * string)) : bool :=
  optZ_eqb (syscall_num (s2l (fst e)) (s2l (snd (snd e)))) (fst (snd e)).
Definition syscall_rev_okb (e : string * (string * Z)) : bool :=
  optS_eqb (syscall_name (s2l (fst e)) (snd (snd e))) (fst (snd e)).
Definition bad_syscall_fwd := filter (fun e => negb (syscall_fwd_okb e)) syscalls_flat.
Definition bad_syscall_rev := filter (fun e => negb (syscall_rev_okb e)) rsyscalls_flat.
Definition syscall_arches_agree : bool :=
  forallb (fun e => match rsyscall_table (s2l (fst e)) with Some _ => true | None => false end) syscalls &&
  forallb (fun e => match syscall_table (s2l (fst e)) with Some _ => true | None => false end) reverse_syscalls.

(* C20 (e): rule tables *)
Definition comparison (l r : N) : option N :=
  match lookupN l comparisons_table with Some t => lookupN r t | None => None end.
Definition ops_fwd_okb (e : string * N) : bool := optS_eqb (lookupN (snd e) reverse_operators_table) (fst e).
Definition ops_rev_okb (e : N * string) : bool := optN_eqb (lookupS (s2l (snd e)) operators_table) (fst e).
Definition fields_fwd_okb (e : string * N) : bool := optS_eqb (lookupN (snd e) reverse_fields_table) (fst e).
Definition fields_rev_okb (e : N * string) : bool := optN_eqb (lookupS (s2l (snd e)) fields_table) (fst e).
Definition bad_ops_fwd := filter (fun e => negb (ops_fwd_okb e)) operators_table.
Definition bad_ops_rev := filter (fun e => negb (ops_rev_okb e)) reverse_operators_table.
Definition bad_fields_fwd := filter (fun e => negb (fields_fwd_okb e)) fields_table.
Definition bad_fields_rev := filter (fun e => negb (fields_rev_okb e)) reverse_fields_table.
Definition comparisons_flat : list (N * N * N) := flat_map (fun e => map (fun x => (fst e, fst x, snd x)) (snd e)) comparisons_table.
Definition comparison_sym_okb (e : N * N * N) : bool := let '(l, r, c) := e in optN_eqb (comparison r l) c.
Definition comparison_has_rev_okb (e : N * N * N) : bool :=
  let '(l, r, c) := e in match lookupN c reverse_comparisons_table with Some _ => true | None => false end.
Definition comparison_rev_okb (e : N * (N * N)) : bool :=
  optN_eqb (comparison (fst (snd e)) (snd (snd e))) (fst e) && optN_eqb (comparison (snd (snd e)) (fst (snd e))) (fst e).
Definition bad_comparisons_sym := filter (fun e => negb (comparison_sym_okb e)) comparisons_flat.
Definition bad_comparisons_rev_missing := filter (fun e => negb (comparison_has_rev_okb e)) comparisons_flat.
Definition bad_comparisons_rev := filter (fun e => negb (comparison_rev_okb e)) reverse_comparisons_table.
(* both operands of every comparison are nameable *)
Definition comparison_operands : list N := flat_map (fun e => fst e :: map fst (snd e)) comparisons_table.
Definition field_nameable_okb (f : N) : bool := match lookupN f reverse_fields_table with Some _ => true | None => false end.
Definition bad_comparison_fields := filter (fun f => negb (field_nameable_okb f)) comparison_operands.

(* C20 (f): names used by the normalisation table are producible *)
Definition record_type_producible (rt : string) : bool :=
  existsb (fun e : N * string => str_eqbS (snd e) rt) type_to_name
  || match get_type (s2l rt) with
     | Some t => str_eqb (type_name t) (s2l rt)
     | None => false end.
Definition syscall_producible (sc : string) : bool :=
  str_eqbS sc "*" || existsb (fun e : string * list (Z * string) => existsb (fun x : Z * string => str_eqbS (snd x) sc) (snd e)) syscalls.
Definition norm_record_type_names : list string := map fst norm_record_types.
Definition bad_norm_record_types : list string := filter (fun rt => negb (record_type_producible rt)) norm_record_type_names.
Definition bad_norm_syscalls : list string := filter (fun sc => negb (syscall_producible sc)) norm_syscalls.
(* deterministic selection: no syscall or record type is registered twice, and
   for one record type at most the last normalisation lacks has_fields *)
Definition norm_syscalls_nodup : bool := nodupb str_eqbS norm_syscalls.
Definition norm_record_types_nodup : bool := nodupb str_eqbS norm_record_type_names.
Fixpoint all_but_last_nonempty (l : list (list string)) : bool :=
  match l with [] => true | [_] => true | x :: r => negb (match x with [] => true | _ => false end) && all_but_last_nonempty r end.
Definition norm_has_fields_okb (e : string * list (list string)) : bool := all_but_last_nonempty (snd e).
Definition bad_norm_has_fields := filter (fun e => negb (norm_has_fields_okb e)) norm_record_types.

(* C20 (g): GetAuditEventType is a total function of the record type, the same on both passes *)
Fixpoint runs_cover (lo : N) (l : list (N * N * N * string)) : option N :=
  match l with
  | [] => Some lo
  | (a, b, _, _) :: r => if (a =? lo) && (a <=? b) then runs_cover (b + 1) r else None
  end.
Definition event_types_total : bool := match runs_cover 0 event_type_runs1 with Some n => n =? 65536 | None => false end.
Definition run_eqb (x y : N * N * N * string) : bool :=
  let '(a, b, c, d) := x in let '(a', b', c', d') := y in (a =? a') && (b =? b') && (c =? c') && str_eqbS d d'.
Fixpoint runs_eqb (l1 l2 : list (N * N * N * string)) : bool :=
  match l1, l2 with [], [] => true | x :: r1, y :: r2 => run_eqb x y && runs_eqb r1 r2 | _, _ => false end.
Definition event_types_repeatable : bool := runs_eqb event_type_runs1 event_type_runs2.
Definition event_type_of (t : N) : option (N * string) :=
  match find (fun r => let '(a, b, _, _) := r in (a <=? t) && (t <=? b)) event_type_runs1 with
  | Some (_, _, c, d) => Some (c, d) | None => None end.
