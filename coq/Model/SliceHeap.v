(* Model/SliceHeap.v — Go slices as (backing array, length, capacity), for the one place where CoalesceMessages
   shares a slice with package state: applyNormalization sets event.ECS.Event.Category / Type to the slices of the
   normalisation table and then appends the syscall normalisation's values to them.
   append writes into the backing array when there is spare capacity and allocates otherwise; whether the tables can
   be written through an event therefore depends on their capacity, which the translator reports on every run
   (Gen/CoalesceWrites.v, norm_spare_capacity). *)
From Coq Require Import List Arith Bool Lia.
Import ListNotations.
Local Open Scope list_scope.

Record slice := { s_arr : nat; s_len : nat }.

Section Slices.
Variable A : Type.

Definition aheap := list (list A).                         (* backing arrays; an array's length is its capacity *)
Definition cap (h : aheap) (s : slice) : nat := length (nth (s_arr s) h []).
Definition sread (h : aheap) (s : slice) : list A := firstn (s_len s) (nth (s_arr s) h []).
Fixpoint aset (h : aheap) (l : nat) (v : list A) : aheap :=
  match h, l with [], _ => [] | _ :: r, O => v :: r | x :: r, S l' => x :: aset r l' v end.
(* append(s, xs...): in place when len+|xs| <= cap, else a new array holding exactly the result *)
Definition sappend (h : aheap) (s : slice) (xs : list A) : aheap * slice :=
  let arr := nth (s_arr s) h [] in
  if s_len s + length xs <=? length arr
  then (aset h (s_arr s) (firstn (s_len s) arr ++ xs ++ skipn (s_len s + length xs) arr), {| s_arr := s_arr s; s_len := s_len s + length xs |})
  else (h ++ [firstn (s_len s) arr ++ xs], {| s_arr := length h; s_len := s_len s + length xs |}).

(* the ECS merge: take the table's slice, append the other normalisation's values if there is one *)
Definition ecs_merge (h : aheap) (table : slice) (extra : option slice) : aheap * slice :=
  match extra with None => (h, table) | Some e => sappend h table (sread h e) end.
End Slices.
