(* Model/MsgType.v — AuditMessageType.String, GetAuditMessageType and text
   marshalling over the generated record type table (Gen/MsgTypes.v), and the
   two 65536-type sweeps of C20 (kept apart from the other tables so that a
   change to another table does not re-run the sweeps). *)
From Coq Require Import List Ascii String NArith ZArith Bool Lia.
Require Import Bytes.
Require Import MsgTypes.
Import ListNotations.
Local Open Scope string_scope.
Open Scope list_scope.
Open Scope N_scope.

(* AuditMessageType.String *)
Definition type_name (t : N) : str :=
  match lookupN t type_to_name with
  | Some n => s2l n
  | None => (s2l "UNKNOWN[" ++ dec t ++ s2l "]")%list
  end.

(* GetAuditMessageType *)
Definition after_byte (c : ascii) (s : str) : option str :=
  match index_byte c s with Some i => Some (skipn (S i) s) | None => None end.
Definition before_byte (c : ascii) (s : str) : option str :=
  match index_byte c s with Some i => Some (firstn i s) | None => None end.
Definition get_type (name : str) : option N :=
  let u := to_upper name in
  match lookupS u name_to_type with
  | Some t => Some t
  | None =>
      match after_byte "["%char u with
      | None => None
      | Some r => match before_byte "]"%char r with
                  | None => None
                  | Some d => match parse_dec d with
                              | Some n => if n <? 65536 then Some n else None
                              | None => None
                              end
                  end
      end
  end.
(* MarshalText / UnmarshalText *)
Definition marshal_type (t : N) : str := to_lower_ascii (type_name t).
Definition unmarshal_type (s : str) : option N := get_type s.

Definition optN_eqb (a : option N) (b : N) := match a with Some x => x =? b | None => false end.
Definition optZ_eqb (a : option Z) (b : Z) := match a with Some x => Z.eqb x b | None => false end.
Definition optS_eqb (a : option string) (b : string) := match a with Some x => String.eqb x b | None => false end.

(* Every finite obligation below has the shape
     filter (fun x => negb (P x)) L = []
   with P and L named constants, so that (a) a failing obligation evaluates to
   the offending entries and (b) the lifting lemma filter_nil_forall applies to
   it syntactically (no conversion problem for the kernel to solve). *)

(* C20 (a): every record type converts to a name and back, text marshalling included *)
Definition all_types : list N := upto 65536.
Definition msgtype_fwd_okb (t : N) : bool := optN_eqb (get_type (type_name t)) t.
Definition msgtype_text_okb (t : N) : bool := optN_eqb (unmarshal_type (marshal_type t)) t.
Definition bad_msgtypes_fwd : list N := filter (fun t => negb (msgtype_fwd_okb t)) all_types.
Definition bad_msgtypes_text : list N := filter (fun t => negb (msgtype_text_okb t)) all_types.

